import ChiModel.Problem
import ChiProofs.RealInst
import Mathlib.Data.List.Basic
import Mathlib.Data.List.Perm.Basic
import Mathlib.Data.List.Count
import Mathlib.Data.String.Basic

/-!
# C14 — the problem controller builds exactly the posterior the dataset describes

Model: `ChiModel/Problem.lean` (`set_data`, `get_log_posterior` of `chi/_problems.py`, step by step).
Specification: `contrib`, `specRows`, `doseOf`, `specDoses`, `specCov`, `specIds` (what the frame says,
row by row). Lemmas first, the property theorems (`C14_…`) are marked.
-/
set_option linter.unusedSectionVars false
set_option linter.unusedSimpArgs false
set_option linter.unusedVariables false
namespace ChiModel.Problem
variable {α : Type}

section ids
variable {κ : Type} [DecidableEq κ]

theorem uniqueScan_cons (s : List κ) (x : κ) (xs : List κ) :
    uniqueScan s (x :: xs) = if x ∈ s then uniqueScan s xs else x :: uniqueScan (x :: s) xs := rfl

theorem mem_uniqueScan (seen l : List κ) (x : κ) : x ∈ uniqueScan seen l ↔ x ∈ l ∧ x ∉ seen := by
  induction l generalizing seen with
  | nil => simp [uniqueScan]
  | cons y ys ih =>
    unfold uniqueScan
    split
    · rename_i h
      rw [ih]
      constructor
      · rintro ⟨h1, h2⟩; exact ⟨List.mem_cons_of_mem _ h1, h2⟩
      · rintro ⟨h1, h2⟩
        rcases List.mem_cons.mp h1 with rfl | h1
        · exact absurd h h2
        · exact ⟨h1, h2⟩
    · rename_i h
      rw [List.mem_cons, ih]
      constructor
      · rintro (rfl | ⟨h1, h2⟩)
        · exact ⟨List.mem_cons_self, h⟩
        · exact ⟨List.mem_cons_of_mem _ h1, fun hx => h2 (List.mem_cons_of_mem _ hx)⟩
      · rintro ⟨h1, h2⟩
        by_cases hxy : x = y
        · exact Or.inl hxy
        · right
          rcases List.mem_cons.mp h1 with rfl | h1
          · exact absurd rfl hxy
          · exact ⟨h1, fun hx => by rcases List.mem_cons.mp hx with rfl | hx; exact hxy rfl; exact h2 hx⟩

theorem nodup_uniqueScan (seen l : List κ) : (uniqueScan seen l).Nodup := by
  induction l generalizing seen with
  | nil => simp [uniqueScan]
  | cons y ys ih =>
    unfold uniqueScan
    split
    · exact ih seen
    · refine List.nodup_cons.mpr ⟨?_, ih _⟩
      rw [mem_uniqueScan]
      simp

theorem uniqueScan_congr (s s' l : List κ) (h : ∀ y, y ∈ s ↔ y ∈ s') : uniqueScan s l = uniqueScan s' l := by
  induction l generalizing s s' with
  | nil => simp [uniqueScan]
  | cons y ys ih =>
    unfold uniqueScan
    by_cases hy : y ∈ s
    · rw [if_pos hy, if_pos ((h y).mp hy)]; exact ih s s' h
    · rw [if_neg hy, if_neg (fun h' => hy ((h y).mpr h'))]
      congr 1
      apply ih
      intro z; simp [h z]

theorem uniqueScan_append (s l1 l2 : List κ) :
    uniqueScan s (l1 ++ l2) = uniqueScan s l1 ++ uniqueScan (l1 ++ s) l2 := by
  induction l1 generalizing s with
  | nil => simp [uniqueScan]
  | cons y ys ih =>
    simp only [List.cons_append, uniqueScan_cons]
    by_cases hy : y ∈ s
    · rw [if_pos hy, if_pos hy, ih]
      congr 1
      apply uniqueScan_congr
      intro z; simp only [List.mem_append, List.mem_cons]
      constructor
      · rintro (h | h); exact Or.inr (Or.inl h); exact Or.inr (Or.inr h)
      · rintro (rfl | h | h); exact Or.inr hy; exact Or.inl h; exact Or.inr h
    · rw [if_neg hy, if_neg hy, ih, List.cons_append]
      congr 2
      apply uniqueScan_congr
      intro z; simp only [List.mem_append, List.mem_cons]; tauto

/-- generalisation of `specIds`: rows of `suf` whose value occurs neither in `pre` nor earlier in `suf` -/
def specFrom (pre suf : List κ) : List κ :=
  (List.range suf.length).filterMap (fun k => match suf[k]? with
    | some x => bif (pre ++ suf.take k).contains x then none else some x
    | none => none)

theorem uniqueScan_eq_specFrom (suf : List κ) : ∀ (seen pre : List κ), (∀ y, y ∈ seen ↔ y ∈ pre) →
    uniqueScan seen suf = specFrom pre suf := by
  induction suf with
  | nil => intro seen pre _; simp [uniqueScan, specFrom]
  | cons x xs ih =>
    intro seen pre h
    have tail : specFrom (pre ++ [x]) xs =
        ((List.range xs.length).map Nat.succ).filterMap (fun k => match (x :: xs)[k]? with
          | some y => bif (pre ++ (x :: xs).take k).contains y then none else some y
          | none => none) := by
      unfold specFrom
      rw [List.filterMap_map]
      apply List.filterMap_congr
      intro k _
      simp only [Function.comp, Nat.succ_eq_add_one, List.getElem?_cons_succ, List.take_succ_cons]
      cases xs[k]? with
      | none => rfl
      | some y =>
        have : (pre ++ [x] ++ List.take k xs).contains y = (pre ++ x :: List.take k xs).contains y := by
          simp only [List.append_assoc, List.singleton_append]
        simp only [this]
    rw [uniqueScan_cons]
    unfold specFrom
    rw [List.length_cons, List.range_succ_eq_map, List.filterMap_cons]
    simp only [List.getElem?_cons_zero, List.take_zero, List.append_nil]
    by_cases hx : x ∈ seen
    · have hc : pre.contains x = true := List.contains_iff_mem.mpr ((h x).mp hx)
      rw [if_pos hx, hc, cond_true, ← tail]
      apply ih
      intro y; simp only [List.mem_append, List.mem_singleton, h y]
      constructor
      · exact Or.inl
      · rintro (hy | rfl); exact hy; exact (h _).mp hx
    · have hc : pre.contains x = false := by
        rw [Bool.eq_false_iff]; intro hc; exact hx ((h x).mpr (List.contains_iff_mem.mp hc))
      rw [if_neg hx, hc, cond_false, ← tail]
      congr 1
      apply ih
      intro y; simp only [List.mem_append, List.mem_cons, h y]; tauto

theorem unique_eq_specIds (l : List String) : unique l = specIds l := by
  have := uniqueScan_eq_specFrom l [] [] (fun _ => Iff.rfl)
  unfold unique specIds
  rw [this]
  unfold specFrom
  apply List.filterMap_congr
  intro k _
  cases l[k]? with
  | none => rfl
  | some y => simp only [List.nil_append]

theorem uniqueScan_map {κ' : Type} [DecidableEq κ'] (σ : κ → κ') (l : List κ) : ∀ (seen : List κ),
    (∀ a ∈ seen ++ l, ∀ b ∈ seen ++ l, σ a = σ b → a = b) →
    uniqueScan (seen.map σ) (l.map σ) = (uniqueScan seen l).map σ := by
  induction l with
  | nil => intro seen _; simp [uniqueScan]
  | cons x xs ih =>
    intro seen hinj
    rw [List.map_cons, uniqueScan_cons, uniqueScan_cons]
    have hmem : σ x ∈ seen.map σ ↔ x ∈ seen := by
      constructor
      · intro h
        obtain ⟨a, ha, hax⟩ := List.mem_map.mp h
        have := hinj a (List.mem_append_left _ ha) x (List.mem_append_right _ List.mem_cons_self) hax
        exact this ▸ ha
      · exact List.mem_map_of_mem
    by_cases hx : x ∈ seen
    · rw [if_pos hx, if_pos (hmem.mpr hx)]
      apply ih
      intro a ha b hb
      apply hinj
      · rcases List.mem_append.mp ha with h | h
        exact List.mem_append_left _ h; exact List.mem_append_right _ (List.mem_cons_of_mem _ h)
      · rcases List.mem_append.mp hb with h | h
        exact List.mem_append_left _ h; exact List.mem_append_right _ (List.mem_cons_of_mem _ h)
    · rw [if_neg hx, if_neg (fun h => hx (hmem.mp h)), List.map_cons]
      congr 1
      have := ih (x :: seen) (by
        intro a ha b hb
        apply hinj
        · rcases List.mem_append.mp ha with h | h
          · rcases List.mem_cons.mp h with rfl | h
            exact List.mem_append_right _ List.mem_cons_self; exact List.mem_append_left _ h
          · exact List.mem_append_right _ (List.mem_cons_of_mem _ h)
        · rcases List.mem_append.mp hb with h | h
          · rcases List.mem_cons.mp h with rfl | h
            exact List.mem_append_right _ List.mem_cons_self; exact List.mem_append_left _ h
          · exact List.mem_append_right _ (List.mem_cons_of_mem _ h))
      simpa using this

end ids
/-! ## identifiers -/

/-- **C14 (individuals).** `self._ids` has no repetitions and contains exactly the IDs that occur in
    the frame. -/
theorem C14_ids (d : List (Row α)) : (ids d).Nodup ∧ ∀ i, i ∈ ids d ↔ ∃ r ∈ d, r.id = i := by
  refine ⟨nodup_uniqueScan _ _, fun i => ?_⟩
  unfold ids unique
  rw [mem_uniqueScan]
  simp

/-- **C14 (position of an individual).** The individuals are ordered by first appearance: row `k`
    introduces its ID iff no earlier row carries it. -/
theorem C14_ids_first_appearance (d : List (Row α)) : ids d = specIds (d.map (·.id)) :=
  unique_eq_specIds _

/-! ## rows of an individual and observable -/

theorem maskRows_eq (d : List (Row α)) (i b : String) :
    maskRows d i b = d.filter (fun r => decide (r.id = i) && decide (r.obs = some b) && r.value.isSome
      && r.time.isSome) := by
  unfold maskRows
  simp only [List.filter_filter]
  apply List.filter_congr
  intro r _
  cases decide (r.id = i) <;> cases decide (r.obs = some b) <;> cases r.value.isSome <;>
    cases r.time.isSome <;> rfl

theorem rows_zip (d : List (Row α)) (i b : String) :
    (rowsFor d i b).times.zip (rowsFor d i b).obs = specRows d i b ∧
    (rowsFor d i b).times.length = (rowsFor d i b).obs.length := by
  unfold rowsFor specRows
  simp only [maskRows_eq]
  induction d with
  | nil => simp
  | cons r rs ih =>
    rw [List.filter_cons, List.filterMap_cons]
    generalize List.filterMap (contrib i b) rs = T at ih ⊢
    unfold contrib
    by_cases h1 : r.id = i <;> by_cases h2 : r.obs = some b <;>
      rcases ht : r.time with _ | t <;> rcases hv : r.value with _ | y <;>
      simp [h1, h2, ht, hv, ih.1, ih.2]

/-- **C14 (rows).** The times and observations handed to the likelihood of individual `i` for the
    output mapped to observable `b` are, in frame order, exactly the `(t, y)` of the rows `r` with
    `r.id = i ∧ r.obs = b ∧ value, time present`. -/
theorem C14_rows (d : List (Row α)) (i b : String) :
    (rowsFor d i b).times.zip (rowsFor d i b).obs = d.filterMap (contrib i b) ∧
    (rowsFor d i b).times.length = (rowsFor d i b).obs.length ∧
    (∀ (r : Row α) (t y : α), contrib i b r = some (t, y) ↔ (r.id = i ∧ r.obs = some b ∧ r.time = some t ∧ r.value = some y)) := by
  refine ⟨(rows_zip d i b).1, (rows_zip d i b).2, ?_⟩
  intro r t y
  unfold contrib
  by_cases h1 : r.id = i <;> by_cases h2 : r.obs = some b <;>
    rcases ht : r.time with _ | t' <;> rcases hv : r.value with _ | y' <;> simp [h1, h2, ht, hv]

theorem count_filterMap {β γ : Type} [BEq γ] [LawfulBEq γ] (f : β → Option γ) (l : List β) (c : γ) :
    (l.filterMap f).count c = l.countP (fun x => f x == some c) := by
  induction l with
  | nil => simp
  | cons x xs ih =>
    rw [List.filterMap_cons, List.countP_cons]
    rcases hf : f x with _ | v
    · simp [ih]
    · rw [List.count_cons, ih]
      by_cases hv : v = c
      · subst hv; simp
      · have h1 : (v == c) = false := by simpa using hv
        have h2 : (some v == some c) = false := by simpa using hv
        simp [h1, h2]

/-- **C14 (rows, as multisets).** Every measurement `(t, y)` reaches the likelihood exactly as often as
    the frame records it for that individual and observable. -/
theorem C14_rows_multiset [DecidableEq α] (d : List (Row α)) (i b : String) (t y : α) :
    ((rowsFor d i b).times.zip (rowsFor d i b).obs).count (t, y)
      = d.countP (fun r => decide (r.id = i ∧ r.obs = some b ∧ r.time = some t ∧ r.value = some y)) := by
  rw [(C14_rows d i b).1, count_filterMap]
  apply List.countP_congr
  intro r _
  simp only [decide_eq_true_eq, beq_iff_eq]
  exact (C14_rows d i b).2.2 r t y

/-- **C14 (rows, any order of the frame).** Reordering the rows of the frame in any way only permutes the
    measurements of each individual and observable. -/
theorem C14_rows_perm (d d' : List (Row α)) (h : d.Perm d') (i b : String) :
    ((rowsFor d i b).times.zip (rowsFor d i b).obs).Perm ((rowsFor d' i b).times.zip (rowsFor d' i b).obs) := by
  rw [(C14_rows d i b).1, (C14_rows d' i b).1]
  exact h.filterMap _

/-! ## dosing regimens -/

theorem doseRows_events [Div α] [ScalarFns α] (d : List (Row α)) (i : String) :
    (doseRows d i).filterMap eventOf = specDoses d i := by
  unfold doseRows specDoses
  simp only [List.filter_filter]
  rw [List.filterMap_filter]
  apply List.filterMap_congr
  intro r _
  unfold doseOf
  by_cases h1 : r.id = i <;> rcases ht : r.time with _ | t <;> rcases hv : r.dose with _ | a <;>
    simp [h1, ht, hv, eventOf]

/-- strictly increasing start times -/
def SortedStarts (reg : List (Event ℝ)) : Prop := reg.Pairwise (fun a b => a.start < b.start)

theorem protoAdd_spec (e : Event ℝ) : ∀ (reg reg' : List (Event ℝ)), SortedStarts reg →
    protoAdd e reg = .ok reg' → reg'.Perm (e :: reg) ∧ SortedStarts reg' := by
  intro reg
  induction reg with
  | nil =>
    intro reg' _ h
    simp only [protoAdd, Except.ok.injEq] at h
    subst h
    exact ⟨List.Perm.refl _, List.pairwise_singleton _ _⟩
  | cons f fs ih =>
    intro reg' hs h
    unfold protoAdd at h
    simp only [lt_real, decide_eq_true_eq] at h
    have hs' := List.pairwise_cons.mp hs
    split at h
    · rename_i hlt
      simp only [Except.ok.injEq] at h
      subst h
      refine ⟨List.Perm.refl _, List.pairwise_cons.mpr ⟨?_, hs⟩⟩
      intro a ha
      rcases List.mem_cons.mp ha with rfl | ha
      · exact hlt
      · exact lt_trans hlt (hs'.1 a ha)
    · split at h
      · rename_i hnlt hgt
        rcases hp : protoAdd e fs with x | t'
        · rw [hp] at h; cases h
        · rw [hp] at h
          simp only [Except.ok.injEq] at h
          subst h
          obtain ⟨hperm, hsort⟩ := ih t' hs'.2 hp
          refine ⟨(List.Perm.cons f hperm).trans (List.Perm.swap e f fs), List.pairwise_cons.mpr ⟨?_, hsort⟩⟩
          intro a ha
          rcases List.mem_cons.mp (hperm.subset ha) with rfl | ha
          · exact hgt
          · exact hs'.1 a ha
      · cases h

theorem protoAdd_ok (e : Event ℝ) : ∀ (reg : List (Event ℝ)), (∀ f ∈ reg, f.start ≠ e.start) →
    ∃ reg', protoAdd e reg = .ok reg' := by
  intro reg
  induction reg with
  | nil => intro _; exact ⟨[e], rfl⟩
  | cons f fs ih =>
    intro h
    unfold protoAdd
    simp only [lt_real, decide_eq_true_eq]
    by_cases h1 : e.start < f.start
    · exact ⟨_, by rw [if_pos h1]⟩
    · have h2 : f.start < e.start :=
        lt_of_le_of_ne (not_lt.mp h1) (h f List.mem_cons_self)
      obtain ⟨t', ht'⟩ := ih (fun g hg => h g (List.mem_cons_of_mem _ hg))
      exact ⟨f :: t', by rw [if_neg h1, if_pos h2, ht']⟩

theorem addAll_spec : ∀ (es reg reg' : List (Event ℝ)), SortedStarts reg →
    addAll es reg = .ok reg' → reg'.Perm (es ++ reg) ∧ SortedStarts reg' := by
  intro es
  induction es with
  | nil =>
    intro reg reg' hs h
    simp only [addAll, Except.ok.injEq] at h
    subst h
    exact ⟨List.Perm.refl _, hs⟩
  | cons e es ih =>
    intro reg reg' hs h
    unfold addAll at h
    split at h
    · cases h
    · rcases hp : protoAdd e reg with x | r1
      · rw [hp] at h; cases h
      · rw [hp] at h
        obtain ⟨hperm1, hs1⟩ := protoAdd_spec e reg r1 hs hp
        obtain ⟨hperm2, hs2⟩ := ih r1 reg' hs1 h
        refine ⟨hperm2.trans ?_, hs2⟩
        have : (es ++ r1).Perm (es ++ e :: reg) := List.Perm.append_left es hperm1
        exact this.trans (List.perm_middle)

theorem addAll_ok : ∀ (es reg : List (Event ℝ)), SortedStarts reg →
    (es.Pairwise (fun a b => a.start ≠ b.start)) → (∀ e ∈ es, ∀ f ∈ reg, f.start ≠ e.start) →
    (∀ e ∈ es, 0 ≤ e.start ∧ 0 ≤ e.duration) → ∃ reg', addAll es reg = .ok reg' := by
  intro es
  induction es with
  | nil => intro reg _ _ _ _; exact ⟨reg, rfl⟩
  | cons e es ih =>
    intro reg hs hd hx hn
    obtain ⟨r1, hr1⟩ := protoAdd_ok e reg (hx e List.mem_cons_self)
    obtain ⟨hperm1, hs1⟩ := protoAdd_spec e reg r1 hs hr1
    have hd' := List.pairwise_cons.mp hd
    obtain ⟨r2, hr2⟩ := ih r1 hs1 hd'.2 (by
      intro g hg f hf
      rcases List.mem_cons.mp (hperm1.subset hf) with rfl | hf
      · exact hd'.1 g hg
      · exact hx g (List.mem_cons_of_mem _ hg) f hf) (fun g hg => hn g (List.mem_cons_of_mem _ hg))
    refine ⟨r2, ?_⟩
    unfold addAll
    have h0 := hn e List.mem_cons_self
    have hc : (ScalarFns.lt e.start (ScalarFns.ofNat 0) || ScalarFns.lt e.duration (ScalarFns.ofNat 0)) = false := by
      simp only [lt_real, ofNat_real, Nat.cast_zero, Bool.or_eq_false_iff, decide_eq_false_iff_not, not_lt]
      exact h0
    rw [hc]
    simp only [Bool.false_eq_true, if_false, hr1, hr2]

/-- **C14 (regimens).** The protocol extracted for individual `i` consists of exactly the events of
    `i`'s own dose rows (each `(dose / duration, time, duration)`, duration `0.01` when missing),
    ordered by start time — in whatever order and interleaving the rows appear; and the extraction
    succeeds whenever no two doses of `i` start at the same time (and none is negative). -/
theorem C14_regimens (d : List (Row ℝ)) (i : String) :
    (∀ reg, regimenFor d i = .ok reg → reg.Perm (specDoses d i) ∧ SortedStarts reg) ∧
    ((specDoses d i).Pairwise (fun a b => a.start ≠ b.start) →
      (∀ e ∈ specDoses d i, 0 ≤ e.start ∧ 0 ≤ e.duration) → ∃ reg, regimenFor d i = .ok reg) := by
  unfold regimenFor
  rw [doseRows_events]
  constructor
  · intro reg h
    have := addAll_spec _ [] reg List.Pairwise.nil h
    simpa using this
  · intro hd hn
    exact addAll_ok _ [] List.Pairwise.nil hd (by simp) hn

/-- **C14 (amount, start, duration, bolus by default).** The event built from a dose row delivers the
    row's amount: `level · duration = dose`, starts at the row's time, lasts the row's duration or
    `0.01` when the duration is missing. -/
theorem C14_regimen_amount (r : Row ℝ) (e : Event ℝ) (h : eventOf r = some e) :
    ∃ a t, r.dose = some a ∧ r.time = some t ∧ e.start = t ∧
      e.duration = r.duration.getD (1 / 100) ∧ (e.duration ≠ 0 → e.level * e.duration = a) := by
  unfold eventOf at h
  rcases hd : r.dose with _ | a <;> rcases ht : r.time with _ | t <;> rw [hd, ht] at h <;>
    simp only [Option.some.injEq] at h
  · cases h
  · cases h
  · cases h
  · subst h
    refine ⟨a, t, rfl, rfl, rfl, ?_, ?_⟩
    · simp [bolus]
    · intro hne
      simp only at hne ⊢
      field_simp

theorem extractRegimens_spec [Div α] [ScalarFns α] (d : List (Row α)) :
    ∀ (il : List String) (regs : List (String × List (Event α))), extractRegimens d il = .ok regs →
      regs.map (·.1) = il ∧ ∀ i ∈ il, ∃ r, regimenFor d i = .ok r ∧ regs.lookup i = some r := by
  intro il
  induction il with
  | nil =>
    intro regs h
    simp only [extractRegimens, Except.ok.injEq] at h
    subst h; simp
  | cons j js ih =>
    intro regs h
    unfold extractRegimens at h
    rcases hr : regimenFor d j with x | r
    · rw [hr] at h; cases h
    · rw [hr] at h
      rcases hrs : extractRegimens d js with x | rs
      · rw [hrs] at h; cases h
      · rw [hrs] at h
        simp only [Except.ok.injEq] at h
        subst h
        obtain ⟨h1, h2⟩ := ih rs hrs
        refine ⟨by simp [h1], ?_⟩
        intro i hi
        by_cases hij : i = j
        · subst hij
          exact ⟨r, hr, by simp [List.lookup_cons]⟩
        · rcases List.mem_cons.mp hi with rfl | hi
          · exact absurd rfl hij
          · obtain ⟨r', hr', hl⟩ := h2 i hi
            refine ⟨r', hr', ?_⟩
            rw [List.lookup_cons]
            have : (i == j) = false := by simpa using hij
            rw [this]; exact hl

/-! ## assembly of the likelihoods: each individual carries its own regimen -/

/-- the protocol individual `i`'s likelihood is built with, given what the controller's own model
    carried before (`shared`): its own regimen whenever dose information was extracted -/
def regOf (P : Problem α) (shared : Option (List (Event α))) (i : String) : Option (List (Event α)) :=
  match P.regimens with
  | some (r :: rs) => (r :: rs).lookup i
  | _ => shared

/-- the per-output data of individual `i` -/
def dataOf [ScalarFns α] (lg : Legacy) (P : Problem α) (i : String) : List (OutData α α) :=
  P.outputs.filterMap (fun o => (P.obsMap.lookup o).map (fun b => outData (!lg.frameOrder) P.data i b))

def indivOf [ScalarFns α] (lg : Legacy) (P : Problem α) (shared : Option (List (Event α))) (i : String) :
    Indiv α := ⟨i, dataOf lg P i, regOf P shared i⟩

theorem outputsData_spec [ScalarFns α] (lg : Legacy) (P : Problem α) (i : String) :
    ∀ (os : List String) (data : List (OutData α α)), outputsData lg P i os = .ok data →
      data = os.filterMap (fun o => (P.obsMap.lookup o).map (fun b => outData (!lg.frameOrder) P.data i b)) ∧
      ∀ o ∈ os, (P.obsMap.lookup o).isSome := by
  intro os
  induction os with
  | nil => intro data h; simp only [outputsData, Except.ok.injEq] at h; subst h; simp
  | cons o os ih =>
    intro data h
    unfold outputsData at h
    rcases hb : P.obsMap.lookup o with _ | b
    · rw [hb] at h; cases h
    · rw [hb] at h
      rcases hr : outputsData lg P i os with x | rest
      · rw [hr] at h; cases h
      · rw [hr] at h
        simp only [Except.ok.injEq] at h
        subst h
        obtain ⟨h1, h2⟩ := ih rest hr
        refine ⟨by simp [List.filterMap_cons, hb, ← h1], ?_⟩
        intro o' ho'
        rcases List.mem_cons.mp ho' with rfl | ho'
        · simp [hb]
        · exact h2 o' ho'

theorem createLL_spec [ScalarFns α] (lg : Legacy) (P : Problem α) (i : String)
    (reg : Option (List (Event α))) (ind : Indiv α) (h : createLL lg P i reg = .ok ind) :
    ind = ⟨i, dataOf lg P i, reg⟩ ∧ (dataOf lg P i).all (fun o => timesAccepted o.times) = true := by
  unfold createLL at h
  rcases hd : outputsData lg P i P.outputs with x | data
  · rw [hd] at h; cases h
  · rw [hd] at h
    have := (outputsData_spec lg P i P.outputs data hd).1
    by_cases hacc : data.all (fun o => timesAccepted o.times) = true
    · simp only [hacc, if_true, Except.ok.injEq] at h
      subst h
      unfold dataOf
      rw [← this]
      exact ⟨rfl, hacc⟩
    · simp only [hacc, if_false] at h
      cases h

theorem setRegimen_spec (P : Problem α) (i : String) (shared sh : Option (List (Event α)))
    (h : setRegimen P i shared = .ok sh) : sh = regOf P shared i := by
  unfold setRegimen at h
  unfold regOf
  generalize P.regimens = R at h ⊢
  rcases R with _ | (_ | ⟨r, rs⟩)
  · simp only [Except.ok.injEq] at h; exact h.symm
  · simp only [Except.ok.injEq] at h; exact h.symm
  · simp only at h ⊢
    rcases hl : List.lookup i (r :: rs) with _ | e
    · rw [hl] at h; cases h
    · rw [hl] at h; simp only [Except.ok.injEq] at h; exact h.symm

theorem regOf_idem (P : Problem α) (shared : Option (List (Event α))) (i j : String) :
    regOf P (regOf P shared i) j = regOf P shared j := by
  unfold regOf
  generalize P.regimens = R
  rcases R with _ | (_ | ⟨r, rs⟩) <;> rfl

theorem createLLs_spec [ScalarFns α] (lg : Legacy) (P : Problem α) :
    ∀ (il : List String) (shared : Option (List (Event α))) (lls : List (Indiv α))
      (shEnd : Option (List (Event α))), createLLs lg P il shared = .ok (lls, shEnd) →
      lls = il.map (indivOf lg P shared) := by
  intro il
  induction il with
  | nil =>
    intro shared lls shEnd h
    simp only [createLLs, Except.ok.injEq, Prod.mk.injEq] at h
    rw [← h.1]; rfl
  | cons i is ih =>
    intro shared lls shEnd h
    unfold createLLs at h
    rcases hs : setRegimen P i shared with x | sh
    · rw [hs] at h; cases h
    · rw [hs] at h
      simp only at h
      have hsh := setRegimen_spec P i shared sh hs
      rcases hc : createLL lg P i sh with x | ind
      · rw [hc] at h; cases h
      · rw [hc] at h
        simp only at h
        rcases hr : createLLs lg P is sh with x | ⟨rest, e2⟩
        · rw [hr] at h; cases h
        · rw [hr] at h
          simp only [Except.ok.injEq, Prod.mk.injEq] at h
          have h1 := (createLL_spec lg P i sh ind hc).1
          have h2 := ih sh rest e2 hr
          rw [← h.1, h1, h2, List.map_cons]
          congr 1
          · unfold indivOf; rw [hsh]
          · apply List.map_congr_left
            intro j _
            unfold indivOf
            rw [hsh, regOf_idem]

/-- **C14 (own regimen, any history).** Whatever protocol the controller's model carried before the
    call (`shared`: an earlier `get_log_posterior`, the previous individual, the user's own setting),
    the likelihoods are built in the order of the requested IDs, and when the frame has dose
    information the `k`-th one carries the regimen extracted for the `k`-th ID — not the previous
    individual's, not a stale one. Without dose information all of them carry the model's own. -/
theorem C14_regimens_own [ScalarFns α] (lg : Legacy) (P : Problem α) (il : List String)
    (shared : Option (List (Event α))) (lls : List (Indiv α)) (shEnd : Option (List (Event α)))
    (h : createLLs lg P il shared = .ok (lls, shEnd)) :
    lls.map (·.id) = il ∧
    lls.map (·.regimen) = il.map (regOf P shared) ∧
    (∀ regs, P.regimens = some regs → regs ≠ [] → ∀ shared', il.map (regOf P shared) = il.map (fun i => regs.lookup i)
        ∧ regOf P shared' = regOf P shared) ∧
    (P.regimens = none → il.map (regOf P shared) = il.map (fun _ => shared)) := by
  have := createLLs_spec lg P il shared lls shEnd h
  subst this
  refine ⟨by simp [indivOf, Function.comp_def], by simp [indivOf, Function.comp_def], ?_, ?_⟩
  · intro regs hregs hne shared'
    cases regs with
    | nil => exact absurd rfl hne
    | cons r rs =>
      constructor
      · apply List.map_congr_left; intro i _; unfold regOf; rw [hregs]
      · funext i; unfold regOf; rw [hregs]
  · intro hnone
    apply List.map_congr_left; intro i _; unfold regOf; rw [hnone]

/-! ## covariates -/

theorem covValues_eq (d : List (Row α)) (b i : String) : covValues d b i = specCov d b i := by
  unfold covValues specCov
  simp only [List.filter_filter]
  rw [List.filterMap_filter]
  apply List.filterMap_congr
  intro r _
  by_cases h1 : r.id = i <;> by_cases h2 : r.obs = some b <;> simp [h1, h2]

theorem fillCol_spec (d : List (Row α)) (b : String) (idc : Nat) :
    ∀ (is : List String) (idn : Nat) (M M' : Mat α), fillCol d b idc is idn M = .ok M' →
      (∀ k (hk : k < is.length), ∃ v, covValues d b is[k] = [v] ∧ M' (idn + k) idc = some v) ∧
      (∀ n c, ¬ (c = idc ∧ idn ≤ n ∧ n < idn + is.length) → M' n c = M n c) := by
  intro is
  induction is with
  | nil =>
    intro idn M M' h
    simp only [fillCol, Except.ok.injEq] at h
    subst h
    exact ⟨fun k hk => absurd hk (Nat.not_lt_zero _), fun _ _ _ => rfl⟩
  | cons i is ih =>
    intro idn M M' h
    unfold fillCol at h
    rcases hv : covValues d b i with _ | ⟨v, _ | ⟨w, ws⟩⟩
    · rw [hv] at h; cases h
    · rw [hv] at h
      simp only at h
      obtain ⟨h1, h2⟩ := ih (idn + 1) (M.set idn idc v) M' h
      constructor
      · intro k hk
        cases k with
        | zero =>
          refine ⟨v, by simpa using hv, ?_⟩
          rw [Nat.add_zero, h2 idn idc (by omega)]
          simp [Mat.set]
        | succ k =>
          obtain ⟨v', hv', hM⟩ := h1 k (by simpa using hk)
          refine ⟨v', by simpa using hv', ?_⟩
          rw [← hM]; congr 1; omega
      · intro n c hnc
        rw [h2 n c (by simp only [List.length_cons] at hnc; omega)]
        unfold Mat.set
        rw [if_neg]
        simp only [List.length_cons] at hnc
        omega
    · rw [hv] at h; cases h

theorem fillAll_spec (d : List (Row α)) (covMap : List (String × String)) (idl : List String) :
    ∀ (cs : List String) (idc : Nat) (M M' : Mat α), fillAll d covMap idl cs idc M = .ok M' →
      (∀ j (hj : j < cs.length) k (hk : k < idl.length), ∃ b v, covMap.lookup cs[j] = some b ∧
        covValues d b idl[k] = [v] ∧ M' k (idc + j) = some v) ∧
      (∀ n c, c < idc → M' n c = M n c) := by
  intro cs
  induction cs with
  | nil =>
    intro idc M M' h
    simp only [fillAll, Except.ok.injEq] at h
    subst h
    exact ⟨fun j hj => absurd hj (Nat.not_lt_zero _), fun _ _ _ => rfl⟩
  | cons c cs ih =>
    intro idc M M' h
    unfold fillAll at h
    rcases hb : covMap.lookup c with _ | b
    · rw [hb] at h; cases h
    · rw [hb] at h
      simp only at h
      rcases hf : fillCol d b idc idl 0 M with x | M1
      · rw [hf] at h; cases h
      · rw [hf] at h
        simp only at h
        obtain ⟨c1, c2⟩ := fillCol_spec d b idc idl 0 M M1 hf
        obtain ⟨a1, a2⟩ := ih (idc + 1) M1 M' h
        constructor
        · intro j hj k hk
          cases j with
          | zero =>
            obtain ⟨v, hv, hM⟩ := c1 k hk
            refine ⟨b, v, by simpa using hb, hv, ?_⟩
            rw [Nat.add_zero, a2 k idc (by omega)]
            simpa using hM
          | succ j =>
            obtain ⟨b', v, hb', hv, hM⟩ := a1 j (by simpa using hj) k hk
            refine ⟨b', v, by simpa using hb', hv, ?_⟩
            rw [← hM]; congr 1; omega
        · intro n c' hc'
          rw [a2 n c' (by omega), c2 n c' (by omega)]

theorem toLists_get (M : Mat α) (n c k j : Nat) (hk : k < n) (hj : j < c) :
    ((M.toLists n c)[k]?.bind (·[j]?)) = some (M k j) := by
  simp [Mat.toLists, hk, hj]

/-- **C14 (covariates aligned).** Row `k` of the covariate matrix handed to the hierarchical
    likelihood belongs to the `k`-th individual in likelihood order (`self._ids`, which is also the
    order of the likelihood list): its entry `j` is the single non-missing value that the frame records
    for that individual under the observable mapped to the `j`-th covariate — for every number of
    individuals and covariates and every position of the covariate rows in the frame. -/
theorem C14_covariates_aligned (d : List (Row α)) (covMap : List (String × String))
    (idl covNames : List String) (M : Mat α) (h : extractCovariates d covMap idl covNames = .ok M) :
    ∀ k (hk : k < idl.length) j (hj : j < covNames.length), ∃ b v,
      covMap.lookup covNames[j] = some b ∧ specCov d b idl[k] = [v] ∧ M k j = some v ∧
      ((M.toLists idl.length covNames.length)[k]?.bind (·[j]?)) = some (some v) := by
  intro k hk j hj
  obtain ⟨b, v, hb, hv, hM⟩ := (fillAll_spec d covMap idl covNames 0 _ M h).1 j hj k hk
  rw [Nat.zero_add] at hM
  exact ⟨b, v, hb, by rw [← covValues_eq]; exact hv, hM, by rw [toLists_get M _ _ k j hk hj, hM]⟩

/-! ## unrelated rows, columns, observables, missing values -/

theorem rowsFor_eq (d : List (Row α)) (i b : String) :
    rowsFor d i b = ⟨(specRows d i b).map (·.1), (specRows d i b).map (·.2)⟩ := by
  unfold rowsFor specRows
  simp only [maskRows_eq]
  rw [List.filterMap_filter, List.filterMap_filter, List.map_filterMap, List.map_filterMap]
  congr 1 <;> apply List.filterMap_congr <;> intro r _ <;> unfold contrib <;>
    by_cases h1 : r.id = i <;> by_cases h2 : r.obs = some b <;>
    rcases ht : r.time with _ | t <;> rcases hv : r.value with _ | y <;> simp [h1, h2, ht, hv]

/-- a row that carries something the posterior is built from: a measurement (value and time present)
    of one of the mapped observables `obsL`, a dose (amount and time present), or a value of one of
    the covariate observables `covL` -/
def relevant (obsL covL : List String) (r : Row α) : Bool :=
  (obsL.any (fun b => decide (r.obs = some b)) && r.value.isSome && r.time.isSome) ||
  (r.dose.isSome && r.time.isSome) ||
  (covL.any (fun b => decide (r.obs = some b)) && r.value.isSome)

theorem specRows_relevant (obsL covL : List String) (d : List (Row α)) (i b : String) (hb : b ∈ obsL) :
    specRows (d.filter (relevant obsL covL)) i b = specRows d i b := by
  unfold specRows
  rw [List.filterMap_filter]
  apply List.filterMap_congr
  intro r _
  by_cases hr : relevant obsL covL r = true
  · simp [hr]
  · simp only [hr, Bool.false_eq_true, if_false]
    unfold contrib
    by_cases h1 : r.id = i <;> by_cases h2 : r.obs = some b <;>
      rcases ht : r.time with _ | t <;> rcases hv : r.value with _ | y <;> simp [h1, h2, ht, hv]
    exfalso; apply hr
    unfold relevant
    have : obsL.any (fun b => decide (r.obs = some b)) = true := List.any_eq_true.mpr ⟨b, hb, by simp [h2]⟩
    simp [this, ht, hv]

theorem specDoses_relevant [Div α] [ScalarFns α] (obsL covL : List String) (d : List (Row α)) (i : String) :
    specDoses (d.filter (relevant obsL covL)) i = specDoses d i := by
  unfold specDoses
  rw [List.filterMap_filter]
  apply List.filterMap_congr
  intro r _
  by_cases hr : relevant obsL covL r = true
  · simp [hr]
  · simp only [hr, Bool.false_eq_true, if_false]
    unfold doseOf eventOf
    by_cases h1 : r.id = i <;> rcases ht : r.time with _ | t <;> rcases hv : r.dose with _ | a <;>
      simp [h1, ht, hv]
    exfalso; apply hr
    unfold relevant
    simp [ht, hv]

theorem specCov_relevant (obsL covL : List String) (d : List (Row α)) (b i : String) (hb : b ∈ covL) :
    specCov (d.filter (relevant obsL covL)) b i = specCov d b i := by
  unfold specCov
  rw [List.filterMap_filter]
  apply List.filterMap_congr
  intro r _
  by_cases hr : relevant obsL covL r = true
  · simp [hr]
  · simp only [hr, Bool.false_eq_true, if_false]
    by_cases h1 : r.id = i <;> by_cases h2 : r.obs = some b <;> rcases hv : r.value with _ | y <;>
      simp [h1, h2, hv]
    exfalso; apply hr
    unfold relevant
    have : covL.any (fun b => decide (r.obs = some b)) = true := List.any_eq_true.mpr ⟨b, hb, by simp [h2]⟩
    simp [this, hv]

theorem regimenFor_eq [Div α] [ScalarFns α] (d : List (Row α)) (i : String) :
    regimenFor d i = addAll (specDoses d i) [] := by
  unfold regimenFor; rw [doseRows_events]

/-- **C14 (unrelated rows, observables, missing values).** Every extraction depends only on the
    sub-frame of relevant rows: two frames with the same relevant rows in the same order — i.e. one
    obtained from the other by inserting or deleting, anywhere and in any number, rows of other
    observables, rows with missing value / time / dose, rows that carry nothing but an ID — give every
    individual the same measurements for every mapped observable, the same regimen and the same
    covariate values. -/
theorem C14_irrelevant_rows [Div α] [ScalarFns α] (obsL covL : List String) (d d' : List (Row α))
    (h : d'.filter (relevant obsL covL) = d.filter (relevant obsL covL)) (i : String) :
    (∀ b ∈ obsL, rowsFor d' i b = rowsFor d i b) ∧ regimenFor d' i = regimenFor d i ∧
    (∀ b ∈ covL, covValues d' b i = covValues d b i) := by
  refine ⟨fun b hb => ?_, ?_, fun b hb => ?_⟩
  · rw [rowsFor_eq, rowsFor_eq, ← specRows_relevant obsL covL d' i b hb, h, specRows_relevant obsL covL d i b hb]
  · rw [regimenFor_eq, regimenFor_eq, ← specDoses_relevant obsL covL d' i, h, specDoses_relevant]
  · rw [covValues_eq, covValues_eq, ← specCov_relevant obsL covL d' b i hb, h, specCov_relevant obsL covL d b i hb]

/-- one irrelevant row inserted anywhere; foreign columns never reach the cleaned frame -/
theorem C14_irrelevant_rows_insert (obsL covL : List String) (d1 d2 : List (Row α)) (r : Row α)
    (hr : relevant obsL covL r = false) :
    (d1 ++ r :: d2).filter (relevant obsL covL) = (d1 ++ d2).filter (relevant obsL covL) := by
  simp [List.filter_append, List.filter_cons, hr]

theorem C14_foreign_columns (hd hu : Bool) (r : RawRow α) (f : List String) :
    clean hd hu { r with foreign := f } = clean hd hu r := rfl

/-- **C14 (unrelated rows and the order of individuals).** A row inserted after the first row of its
    individual does not change `self._ids`; a row with a new ID appended at the end appends that ID
    (an individual without data) and changes nobody else's position. -/
theorem C14_irrelevant_rows_ids (d1 d2 : List (Row α)) (r : Row α) :
    ((∃ r' ∈ d1, r'.id = r.id) → ids (d1 ++ r :: d2) = ids (d1 ++ d2)) ∧
    ((∀ r' ∈ d1, r'.id ≠ r.id) → ids (d1 ++ [r]) = ids d1 ++ [r.id]) := by
  unfold ids unique
  constructor
  · rintro ⟨r', hr', he⟩
    simp only [List.map_append, List.map_cons, uniqueScan_append, uniqueScan_cons]
    have : r.id ∈ List.map (fun x => x.id) d1 ++ [] := by
      simp only [List.append_nil, List.mem_map]; exact ⟨r', hr', he⟩
    rw [if_pos this]
  · intro hne
    simp only [List.map_append, List.map_cons, List.map_nil, uniqueScan_append, uniqueScan_cons]
    have : r.id ∉ List.map (fun x => x.id) d1 ++ [] := by
      simp only [List.append_nil, List.mem_map, not_exists, not_and]; exact hne
    rw [if_neg this]; simp [uniqueScan]

/-! ## data types of identifiers -/

/-- the frame with every ID `x` replaced by `σ x` -/
def relabel (σ : String → String) (r : Row α) : Row α := { r with id := σ r.id }

/-- **C14 (ID data types).** The grouping of rows does not depend on how IDs are written: if the
    string keys of two frames correspond under a map `σ` that is injective on the IDs present (e.g.
    `3 ↦ "3"` — the identity on keys —, or `3 ↦ 3.0`, key `"3" ↦ "3.0"`), the individuals come in the
    same order and each has the same measurements, doses and covariate values. -/
theorem C14_id_types [Div α] [ScalarFns α] (σ : String → String) (d : List (Row α))
    (hinj : ∀ a ∈ ids d, ∀ b ∈ ids d, σ a = σ b → a = b) :
    ids (d.map (relabel σ)) = (ids d).map σ ∧
    ∀ i ∈ ids d, (∀ b, rowsFor (d.map (relabel σ)) (σ i) b = rowsFor d i b) ∧
      regimenFor (d.map (relabel σ)) (σ i) = regimenFor d i ∧
      (∀ b, covValues (d.map (relabel σ)) b (σ i) = covValues d b i) := by
  have hmem : ∀ r ∈ d, r.id ∈ ids d := fun r hr => ((C14_ids d).2 r.id).mpr ⟨r, hr, rfl⟩
  constructor
  · unfold ids unique
    have := uniqueScan_map σ (d.map (·.id)) [] (by
      intro a ha b hb
      simp only [List.nil_append, List.mem_map] at ha hb
      obtain ⟨ra, hra, rfl⟩ := ha
      obtain ⟨rb, hrb, rfl⟩ := hb
      exact hinj _ (hmem ra hra) _ (hmem rb hrb))
    simpa [List.map_map, Function.comp_def, relabel] using this
  · intro i hi
    have key : ∀ r ∈ d, (σ r.id = σ i ↔ r.id = i) := fun r hr =>
      ⟨fun h => hinj _ (hmem r hr) _ hi h, fun h => by rw [h]⟩
    refine ⟨fun b => ?_, ?_, fun b => ?_⟩
    · rw [rowsFor_eq, rowsFor_eq]
      have : specRows (d.map (relabel σ)) (σ i) b = specRows d i b := by
        unfold specRows
        rw [List.filterMap_map]
        apply List.filterMap_congr
        intro r hr
        simp only [Function.comp, contrib, relabel, key r hr]
      rw [this]
    · rw [regimenFor_eq, regimenFor_eq]
      have : specDoses (d.map (relabel σ)) (σ i) = specDoses d i := by
        unfold specDoses
        rw [List.filterMap_map]
        apply List.filterMap_congr
        intro r hr
        simp only [Function.comp, doseOf, relabel, key r hr, eventOf]
      rw [this]
    · rw [covValues_eq, covValues_eq]
      unfold specCov
      rw [List.filterMap_map]
      apply List.filterMap_congr
      intro r hr
      simp only [Function.comp, relabel, key r hr]

/-- **C14 (integer IDs vs. the same IDs as strings).** Writing the IDs as strings of the same
    characters gives literally the same cleaned frame, hence the same problem. -/
theorem C14_id_types_int_str [Div α] [ScalarFns α] (cfg : Config) (raw : List (RawRow α)) :
    cleanData cfg.hasDose cfg.hasDur (raw.map (fun r => { r with id := .str r.id.key })) =
      cleanData cfg.hasDose cfg.hasDur raw ∧
    setData cfg (raw.map (fun r => { r with id := .str r.id.key })) = setData cfg raw := by
  have h1 : cleanData cfg.hasDose cfg.hasDur (raw.map (fun r => { r with id := .str r.id.key })) =
      cleanData cfg.hasDose cfg.hasDur raw := by
    unfold cleanData
    rw [List.map_map]
    apply List.map_congr_left
    intro r _
    simp [clean, RawId.key]
  refine ⟨h1, ?_⟩
  unfold setData
  rw [h1]
  simp only [rawObservables, List.filterMap_map, Function.comp_def]

/-- **C14 (data type of observable names and of the values of the name maps — 9784f5e).** The observable
    column and the values of `output_observable_dict` / `covariate_dict` are used in their string form:
    writing them as strings of the same characters (`7 ↦ "7"`) gives literally the same problem. (Before
    9784f5e the maps were validated against the raw column and a numeric observable column silently lost
    every measurement.) -/
theorem C14_observable_types [Div α] [ScalarFns α] (cfg : Config) (raw : List (RawRow α)) :
    setData { cfg with obsMap := cfg.obsMap.map (·.map (fun p => (p.1, .str p.2.key))),
                       covMap := cfg.covMap.map (·.map (fun p => (p.1, .str p.2.key))) }
      (raw.map (fun r => { r with obs := r.obs.map (fun b => .str b.key) })) = setData cfg raw := by
  have h1 : ∀ hd hu, cleanData hd hu (raw.map (fun r => { r with obs := r.obs.map (fun b => RawId.str b.key) })) =
      cleanData hd hu raw := by
    intro hd hu
    unfold cleanData
    rw [List.map_map]
    apply List.map_congr_left
    intro r _
    rcases hr : r.obs with _ | b <;> simp [clean, RawId.key, hr]
  have h2 : rawObservables (raw.map (fun r => { r with obs := r.obs.map (fun b => RawId.str b.key) })) =
      rawObservables raw := by
    unfold rawObservables
    rw [List.filterMap_map]
    congr 1
    apply List.filterMap_congr
    intro r _
    rcases hr : r.obs with _ | b <;> simp [RawId.key, hr]
  have h3 : ∀ m : Option (List (String × RawId)),
      strMap (m.map (·.map (fun p => (p.1, RawId.str p.2.key)))) = strMap m := by
    intro m
    rcases m with _ | l
    · rfl
    · simp [strMap, RawId.key, List.map_map, Function.comp_def]
  unfold setData
  simp only [h1, h2, h3]

/-- integer IDs vs. the same numbers as floats: keys `"n"` become `"n.0"`, an injective relabelling -/
theorem C14_id_types_int_flt (hd hu : Bool) (raw : List (RawRow α))
    (hint : ∀ r ∈ raw, ∃ n, r.id = .int n) :
    cleanData hd hu (raw.map (fun r => match r.id with
      | .int n => { r with id := .flt n }
      | _ => r)) = (cleanData hd hu raw).map (relabel (· ++ ".0")) ∧
    ∀ a b : String, a ++ ".0" = b ++ ".0" → a = b := by
  constructor
  · unfold cleanData
    rw [List.map_map, List.map_map]
    apply List.map_congr_left
    intro r hr
    obtain ⟨n, hn⟩ := hint r hr
    simp [clean, relabel, hn, RawId.key]
  · intro a b h
    have := congrArg String.toList h
    simp only [String.toList_append] at this
    exact String.toList_injective (List.append_cancel_right this)

/-! ## time order: what `LogLikelihood` sorts, what it rejects -/

theorem insertByTime_perm [ScalarFns α] (p : α × α) (l : List (α × α)) : (insertByTime p l).Perm (p :: l) := by
  induction l with
  | nil => exact List.Perm.refl _
  | cons q qs ih =>
    unfold insertByTime
    split
    · exact (List.Perm.cons q ih).trans (List.Perm.swap p q qs)
    · exact List.Perm.refl _

theorem sortByTime_perm [ScalarFns α] (l : List (α × α)) : (sortByTime l).Perm l := by
  induction l with
  | nil => exact List.Perm.refl _
  | cons p ps ih => exact (insertByTime_perm p _).trans (List.Perm.cons p ih)

/-- non-decreasing times -/
def TimeSorted (l : List (ℝ × ℝ)) : Prop := l.Pairwise (fun a b => a.1 ≤ b.1)

theorem insertByTime_sorted (p : ℝ × ℝ) (l : List (ℝ × ℝ)) (h : TimeSorted l) :
    TimeSorted (insertByTime p l) := by
  induction l with
  | nil => exact List.pairwise_singleton _ _
  | cons q qs ih =>
    unfold insertByTime
    have h' := List.pairwise_cons.mp h
    simp only [lt_real, decide_eq_true_eq]
    split
    · rename_i hlt
      refine List.pairwise_cons.mpr ⟨?_, ih h'.2⟩
      intro a ha
      rcases List.mem_cons.mp ((insertByTime_perm p qs).subset ha) with rfl | ha
      · exact le_of_lt hlt
      · exact h'.1 a ha
    · rename_i hnlt
      refine List.pairwise_cons.mpr ⟨?_, h⟩
      intro a ha
      rcases List.mem_cons.mp ha with rfl | ha
      · exact not_lt.mp hnlt
      · exact le_trans (not_lt.mp hnlt) (h'.1 a ha)

theorem sortByTime_sorted (l : List (ℝ × ℝ)) : TimeSorted (sortByTime l) := by
  induction l with
  | nil => exact List.Pairwise.nil
  | cons p ps ih => exact insertByTime_sorted p _ ih

theorem sortByTime_id (l : List (ℝ × ℝ)) (h : TimeSorted l) : sortByTime l = l := by
  induction l with
  | nil => rfl
  | cons p ps ih =>
    have h' := List.pairwise_cons.mp h
    unfold sortByTime
    rw [ih h'.2]
    cases ps with
    | nil => rfl
    | cons q qs =>
      unfold insertByTime
      simp only [lt_real, decide_eq_true_eq]
      rw [if_neg (not_lt.mpr (h'.1 q List.mem_cons_self))]

theorem outData_sorted [ScalarFns α] (d : List (Row α)) (i b : String) :
    outData true d i b = ⟨(sortByTime (specRows d i b)).map (·.1), (sortByTime (specRows d i b)).map (·.2)⟩ := by
  unfold outData
  simp only [if_true, (rows_zip d i b).1]

theorem outData_frame [ScalarFns α] (d : List (Row α)) (i b : String) :
    outData false d i b = ⟨(specRows d i b).map (·.1), (specRows d i b).map (·.2)⟩ := by
  unfold outData
  simp only [Bool.false_eq_true, if_false, rowsFor_eq]

/-! ## the posterior -/

/-- what the dataset describes for individual `i`: per output, the measurements of the mapped
    observable ordered by time (the order `LogLikelihood` works in) -/
def specData [ScalarFns α] (P : Problem α) (i : String) : List (OutData α α) :=
  P.outputs.filterMap (fun o => (P.obsMap.lookup o).map (fun b =>
    ⟨(sortByTime (specRows P.data i b)).map (·.1), (sortByTime (specRows P.data i b)).map (·.2)⟩))

/-- the likelihood of individual `i` assembled by hand -/
def specIndiv [ScalarFns α] (P : Problem α) (shared : Option (List (Event α))) (i : String) : Indiv α :=
  ⟨i, specData P i, regOf P shared i⟩

theorem indivOf_asIs [ScalarFns α] (P : Problem α) (shared : Option (List (Event α))) (i : String) :
    indivOf Legacy.asIs P shared i = specIndiv P shared i := by
  unfold indivOf specIndiv dataOf specData
  simp only [Legacy.asIs, Bool.not_false, outData_sorted]

theorem getLogPosterior_spec [ScalarFns α] (lg : Legacy) (P : Problem α) (sel : Option RawId)
    (shared : Option (List (Event α))) (post : Posterior α) (shEnd : Option (List (Event α)))
    (h : getLogPosterior lg P sel shared = .ok (post, shEnd)) :
    (P.hasPop = true → ∃ cov, post = .hier (P.ids.map (indivOf lg P shared)) cov ∧
      (P.covNames = [] → cov = none) ∧
      (P.covNames ≠ [] → ∃ M, extractCovariates P.data P.covMap P.ids P.covNames = .ok M ∧
        cov = some (M.toLists P.ids.length P.covNames.length))) ∧
    (P.hasPop = false → ∃ i, selectIds lg P sel = .ok [i] ∧ post = .single (indivOf lg P shared i)) := by
  unfold getLogPosterior at h
  rcases hs : selectIds lg P sel with x | il
  · rw [hs] at h; cases h
  · rw [hs] at h
    simp only at h
    rcases hc : createLLs lg P il shared with x | ⟨lls, e2⟩
    · rw [hc] at h; cases h
    · rw [hc] at h
      simp only at h
      have hl := createLLs_spec lg P il shared lls e2 hc
      constructor
      · intro hpop
        have hil : il = P.ids := by
          unfold selectIds at hs
          simp only [hpop, if_true, Except.ok.injEq] at hs
          exact hs.symm
        simp only [hpop, if_true] at h
        split at h
        · cases h
        · by_cases hcn : P.covNames.isEmpty = true
          · simp only [hcn, if_true, Except.ok.injEq, Prod.mk.injEq] at h
            refine ⟨none, ?_, fun _ => rfl, fun hne => absurd (List.isEmpty_iff.mp hcn) hne⟩
            rw [← h.1, hl, hil]
          · simp only [hcn, Bool.false_eq_true, if_false] at h
            rcases he : extractCovariates P.data P.covMap P.ids P.covNames with x | M
            · rw [he] at h; cases h
            · rw [he] at h
              simp only [Except.ok.injEq, Prod.mk.injEq] at h
              refine ⟨_, ?_, fun hn => absurd (List.isEmpty_iff.mpr hn) hcn, fun _ => ⟨M, rfl, rfl⟩⟩
              rw [← h.1, hl, hil]
      · intro hpop
        simp only [hpop, Bool.false_eq_true, if_false] at h
        subst hl
        cases il with
        | nil => simp at h
        | cons i is =>
          cases is with
          | nil =>
            simp only [List.map_cons, List.map_nil, Except.ok.injEq, Prod.mk.injEq] at h
            exact ⟨i, rfl, h.1.symm⟩
          | cons j js => simp at h

/-- **C14 (the posterior, for the code as it is).** Whatever `get_log_posterior` returns is the
    posterior assembled by hand (that it does return one for every frame that describes a posterior
    is `C14_posterior_exists`): in the hierarchical case the
    likelihoods of ALL individuals in order of first appearance, each built from exactly its own
    measurements (per output: those of the mapped observable, by time) and its own regimen, with the
    covariate matrix row `k` belonging to likelihood `k`; without a population model the likelihood
    of the selected individual (the first one when none is selected). -/
theorem C14_posterior [ScalarFns α] (P : Problem α) (sel : Option RawId)
    (shared : Option (List (Event α))) (post : Posterior α) (shEnd : Option (List (Event α)))
    (h : getLogPosterior Legacy.asIs P sel shared = .ok (post, shEnd)) :
    (P.hasPop = true → ∃ cov, post = .hier (P.ids.map (specIndiv P shared)) cov ∧
      (P.covNames = [] → cov = none) ∧
      (P.covNames ≠ [] → ∃ M : Mat α, cov = some (M.toLists P.ids.length P.covNames.length) ∧
        ∀ k (hk : k < P.ids.length) j (hj : j < P.covNames.length), ∃ b v,
          P.covMap.lookup P.covNames[j] = some b ∧ specCov P.data b P.ids[k] = [v] ∧ M k j = some v)) ∧
    (P.hasPop = false → ∃ i ∈ P.ids, post = .single (specIndiv P shared i) ∧
      (sel = none → P.ids.head? = some i) ∧ (∀ s, sel = some s → i = s.key)) := by
  obtain ⟨h1, h2⟩ := getLogPosterior_spec _ P sel shared post shEnd h
  constructor
  · intro hpop
    obtain ⟨cov, hc1, hc2, hc3⟩ := h1 hpop
    refine ⟨cov, ?_, hc2, fun hne => ?_⟩
    · rw [hc1]; congr 1; apply List.map_congr_left; intro i _; exact indivOf_asIs P shared i
    · obtain ⟨M, hM, hcov⟩ := hc3 hne
      exact ⟨M, hcov, fun k hk j hj => by
        obtain ⟨b, v, hb, hv, hm, _⟩ := C14_covariates_aligned _ _ _ _ M hM k hk j hj
        exact ⟨b, v, hb, hv, hm⟩⟩
  · intro hpop
    obtain ⟨i, hsel, hpost⟩ := h2 hpop
    unfold selectIds at hsel
    simp only [hpop, Bool.false_eq_true, if_false] at hsel
    refine ⟨i, ?_, by rw [hpost, indivOf_asIs], ?_, ?_⟩
    · cases sel with
      | none =>
        cases hP : P.ids with
        | nil => rw [hP] at hsel; cases hsel
        | cons j js =>
          rw [hP] at hsel
          simp only [Except.ok.injEq, List.cons.injEq, and_true] at hsel
          rw [← hsel]; exact List.mem_cons_self
      | some s =>
        simp only [selectId, Legacy.asIs, Bool.false_eq_true, if_false] at hsel
        by_cases hk : s.key ∈ P.ids
        · simp only [hk, if_true, Except.ok.injEq, List.cons.injEq, and_true] at hsel
          rw [← hsel]; exact hk
        · simp only [hk, if_false] at hsel
          cases hsel
    · intro hnone
      subst hnone
      cases hP : P.ids with
      | nil => rw [hP] at hsel; cases hsel
      | cons j js =>
        rw [hP] at hsel
        simp only [Except.ok.injEq, List.cons.injEq, and_true] at hsel
        simp [hsel]
    · intro s hs
      subst hs
      simp only [selectId, Legacy.asIs, Bool.false_eq_true, if_false] at hsel
      by_cases hk : s.key ∈ P.ids
      · simp only [hk, if_true, Except.ok.injEq, List.cons.injEq, and_true] at hsel
        exact hsel.symm
      · simp only [hk, if_false] at hsel
        cases hsel

/-! ## the pre-fix controller: where it coincided with the code as it is, and where not -/

/-- the frame is time-ordered within every individual and observable -/
def TimeOrdered (P : Problem ℝ) : Prop := ∀ i b, TimeSorted (specRows P.data i b)

theorem outData_eq_of_ordered (d : List (Row ℝ)) (i b : String) (h : TimeSorted (specRows d i b)) :
    outData false d i b = outData true d i b := by
  rw [outData_sorted, outData_frame, sortByTime_id _ h]

theorem outputsData_congr [ScalarFns α] (lg lg' : Legacy) (P : Problem α) (i : String)
    (h : ∀ b, outData (!lg.frameOrder) P.data i b = outData (!lg'.frameOrder) P.data i b) :
    ∀ os, outputsData lg P i os = outputsData lg' P i os := by
  intro os
  induction os with
  | nil => rfl
  | cons o os ih =>
    unfold outputsData
    rw [ih]
    rcases P.obsMap.lookup o with _ | b
    · rfl
    · simp only [h b]

theorem createLLs_congr [ScalarFns α] (lg lg' : Legacy) (P : Problem α)
    (h : ∀ i b, outData (!lg.frameOrder) P.data i b = outData (!lg'.frameOrder) P.data i b) :
    ∀ il shared, createLLs lg P il shared = createLLs lg' P il shared := by
  intro il
  induction il with
  | nil => intro shared; rfl
  | cons i is ih =>
    intro shared
    unfold createLLs
    have : ∀ sh, createLL lg P i sh = createLL lg' P i sh := by
      intro sh; unfold createLL; rw [outputsData_congr lg lg' P i (h i)]
    simp only [this, ih]

/-- **The pre-fix controller (before a5c706c, d654081, 614a431), kept for the record.** If (a) the rows
    of every individual and observable appear in the frame in non-decreasing time order, (b) a
    population model is not combined with exactly one individual, and (c) an individual is selected by
    the string form of its ID, then the pre-fix controller returned exactly what the code as it is
    returns. Each hypothesis was needed: `C14_unsorted_counterexample`,
    `C14_single_individual_counterexample`, `C14_selector_counterexample`. The code as it is needs
    none of them (`C14_posterior`, `C14_posterior_exists`, `C14_posterior_of_frame`). -/
theorem C14_prefix_posterior_partial (P : Problem ℝ) (sel : Option RawId) (shared : Option (List (Event ℝ)))
    (hord : TimeOrdered P) (hn : P.hasPop = true → P.ids.length ≠ 1)
    (hsel : ∀ s, sel = some s → ∃ t, s = .str t) :
    getLogPosterior Legacy.preFix P sel shared = getLogPosterior Legacy.asIs P sel shared := by
  have hc := createLLs_congr Legacy.preFix Legacy.asIs P (fun i b => by
    simp only [Legacy.preFix, Legacy.asIs, Bool.not_true, Bool.not_false]
    exact outData_eq_of_ordered P.data i b (hord i b))
  have hs : selectIds Legacy.preFix P sel = selectIds Legacy.asIs P sel := by
    unfold selectIds
    cases sel with
    | none => rfl
    | some s =>
      obtain ⟨t, rfl⟩ := hsel s rfl
      rfl
  unfold getLogPosterior
  rw [hs]
  rcases hsi : selectIds Legacy.asIs P sel with x | il
  · rfl
  · simp only [hc]
    rcases createLLs Legacy.asIs P il shared with x | ⟨lls, e2⟩
    · rfl
    · simp only
      by_cases hpop : P.hasPop = true
      · have hil : il = P.ids := by
          unfold selectIds at hsi
          simp only [hpop, if_true, Except.ok.injEq] at hsi
          exact hsi.symm
        have : (il.length == 1) = false := by
          rw [hil]; simpa using hn hpop
        simp [hpop, Legacy.preFix, Legacy.asIs, this]
      · simp [hpop]

/-- the controller's state for a frame with the four columns ID, Time, Observable, Value -/
def exProblem (rows : List (String × ℝ × ℝ)) (idl : List String) (pop : Bool) : Problem ℝ :=
  ⟨rows.map (fun r => ⟨r.1, some r.2.1, some "conc", some r.2.2, none, none⟩), idl, ["out"],
   [("out", "conc")], [], [], none, pop⟩

/-- **#25 (fixed by a5c706c).** Individual `1` measured at `t = 2` (value 1) and then at `t = 1`
    (value 2): the pre-fix controller raised `ValueError`; the code as it is orders by time and builds
    the posterior of `(1, 2), (2, 1)`. -/
theorem C14_unsorted_counterexample :
    getLogPosterior Legacy.preFix (exProblem [("1", 2, 1), ("1", 1, 2)] ["1"] false) none none
      = .error .valueError ∧
    getLogPosterior Legacy.asIs (exProblem [("1", 2, 1), ("1", 1, 2)] ["1"] false) none none
      = .ok (.single ⟨"1", [⟨[1, 2], [2, 1]⟩], none⟩, none) ∧
    ¬ TimeOrdered (exProblem [("1", 2, 1), ("1", 1, 2)] ["1"] false) := by
  refine ⟨?_, ?_, ?_⟩
  · norm_num [getLogPosterior, selectIds, createLLs, setRegimen, createLL, outputsData, outData, rowsFor,
      maskRows, exProblem, Legacy.preFix, timesAccepted, adjacentOk, List.lookup, List.filterMap_cons, List.filter_cons]
  · norm_num [getLogPosterior, selectIds, createLLs, setRegimen, createLL, outputsData, outData, rowsFor,
      maskRows, exProblem, Legacy.asIs, timesAccepted, adjacentOk, List.lookup, sortByTime, insertByTime, List.filterMap_cons, List.filter_cons]
  · intro h
    have := h "1" "conc"
    norm_num [TimeSorted, specRows, contrib, exProblem, List.filterMap_cons] at this

/-- **#26 (fixed by d654081).** A population model and a frame with one individual: `TypeError` in the
    pre-fix controller; the code as it is: a hierarchical posterior over that one individual. -/
theorem C14_single_individual_counterexample :
    getLogPosterior Legacy.preFix (exProblem [("1", 1, 1), ("1", 2, 2)] ["1"] true) none none
      = .error .typeError ∧
    getLogPosterior Legacy.asIs (exProblem [("1", 1, 1), ("1", 2, 2)] ["1"] true) none none
      = .ok (.hier [⟨"1", [⟨[1, 2], [1, 2]⟩], none⟩] none, none) := by
  constructor
  · norm_num [getLogPosterior, selectIds, createLLs, setRegimen, createLL, outputsData, outData, rowsFor,
      maskRows, exProblem, Legacy.preFix, timesAccepted, adjacentOk, List.lookup, List.filterMap_cons, List.filter_cons]
  · norm_num [getLogPosterior, selectIds, createLLs, setRegimen, createLL, outputsData, outData, rowsFor,
      maskRows, exProblem, Legacy.asIs, timesAccepted, adjacentOk, List.lookup, sortByTime, insertByTime, List.filterMap_cons, List.filter_cons]

/-- **#18 (fixed by 614a431).** IDs `1, 2` written as integers: selecting individual `2` by the integer
    raised in the pre-fix controller (only the string `"2"` worked); the code as it is: the integer
    selects it. -/
theorem C14_selector_counterexample :
    getLogPosterior Legacy.preFix (exProblem [("1", 1, 1), ("2", 2, 2)] ["1", "2"] false) (some (.int 2)) none
      = .error .valueError ∧
    getLogPosterior Legacy.preFix (exProblem [("1", 1, 1), ("2", 2, 2)] ["1", "2"] false) (some (.str "2")) none
      = .ok (.single ⟨"2", [⟨[2], [2]⟩], none⟩, none) ∧
    getLogPosterior Legacy.asIs (exProblem [("1", 1, 1), ("2", 2, 2)] ["1", "2"] false) (some (.int 2)) none
      = .ok (.single ⟨"2", [⟨[2], [2]⟩], none⟩, none) := by
  have h12 : ("1" : String) ≠ "2" := by decide
  have h12' : ¬ ("1" : String) = "2" := h12
  refine ⟨?_, ?_, ?_⟩
  · simp [getLogPosterior, selectIds, selectId, exProblem, Legacy.preFix]
  · norm_num [getLogPosterior, selectIds, selectId, createLLs, setRegimen, createLL, outputsData, outData,
      rowsFor, maskRows, exProblem, Legacy.preFix, timesAccepted, adjacentOk, List.lookup, List.filterMap_cons,
      List.filter_cons, h12']
  · have : RawId.key (.int 2) = "2" := by decide
    norm_num [getLogPosterior, selectIds, selectId, createLLs, setRegimen, createLL, outputsData, outData,
      rowsFor, maskRows, exProblem, Legacy.asIs, timesAccepted, adjacentOk, List.lookup, sortByTime,
      insertByTime, this, List.filterMap_cons, List.filter_cons, h12']

/-! ## `set_data`: the state the assembly starts from -/

theorem checkObsMap_spec (outputs obsv : List String) (m : Option (List (String × String)))
    (om : List (String × String)) (h : checkObsMap outputs obsv m = .ok om) :
    ∀ o ∈ outputs, ∃ b, om.lookup o = some b ∧ b ∈ obsv := by
  unfold checkObsMap at h
  by_cases hall : mapValid outputs obsv (resolveObsMap outputs obsv m) = true
  · simp only [hall, if_true, Except.ok.injEq] at h
    subst h
    intro o ho
    have := List.all_eq_true.mp hall o ho
    rcases hb : List.lookup o (resolveObsMap outputs obsv m) with _ | b
    · rw [hb] at this; cases this
    · rw [hb] at this; exact ⟨b, rfl, by simpa using this⟩
  · simp only [hall, if_false] at h
    cases h

theorem checkCovariateValues_spec (d : List (Row α)) (covMap : List (String × String))
    (idl covNames : List String) (h : checkCovariateValues d covMap idl covNames = .ok ()) :
    ∀ c ∈ covNames, ∃ b, covMap.lookup c = some b ∧ ∀ i ∈ idl, (specCov d b i).length = 1 := by
  unfold checkCovariateValues at h
  by_cases hall : covNames.all (covCountOk d covMap idl) = true
  · intro c hc
    have := List.all_eq_true.mp hall c hc
    unfold covCountOk at this
    rcases hb : List.lookup c covMap with _ | b
    · rw [hb] at this; cases this
    · rw [hb] at this
      refine ⟨b, rfl, fun i hi => ?_⟩
      have := List.all_eq_true.mp this i hi
      rw [covValues_eq] at this
      simpa using this
  · rw [if_neg hall] at h
    cases h

/-- **C14 (`set_data`).** What the controller keeps after `set_data`: the cleaned frame, the
    individuals in order of first appearance, a valid output → observable map, one regimen per
    individual — built from that individual's own dose rows (`C14_regimens`) — or none when no dose
    key is used, and exactly one recorded value per covariate and individual. -/
theorem C14_set_data [Div α] [ScalarFns α] (cfg : Config) (raw : List (RawRow α)) (P : Problem α)
    (h : setData cfg raw = .ok P) :
    P.data = cleanData cfg.hasDose cfg.hasDur raw ∧ P.ids = ids P.data ∧ P.outputs = cfg.outputs ∧
    P.hasPop = cfg.hasPop ∧ P.covNames = cfg.covNames ∧
    (∀ o ∈ P.outputs, ∃ b, P.obsMap.lookup o = some b) ∧
    (cfg.hasDose = false → P.regimens = none) ∧
    (cfg.hasDose = true → ∃ regs, P.regimens = some regs ∧ regs.map (·.1) = P.ids ∧
      ∀ i ∈ P.ids, ∃ r, regimenFor P.data i = .ok r ∧ regs.lookup i = some r) ∧
    (∀ c ∈ P.covNames, ∃ b, P.covMap.lookup c = some b ∧ ∀ i ∈ P.ids, (specCov P.data b i).length = 1) := by
  unfold setData at h
  simp only at h
  rcases ho : checkObsMap cfg.outputs (rawObservables raw) (strMap cfg.obsMap) with x | om
  · rw [ho] at h; cases h
  · rw [ho] at h
    simp only at h
    rcases hcm : checkCovMap cfg.covNames (rawObservables raw) (strMap cfg.covMap) with x | cm
    · rw [hcm] at h; cases h
    · rw [hcm] at h
      simp only at h
      by_cases hd : cfg.hasDose = true
      · simp only [hd, if_true] at h
        rcases he : extractRegimens (cleanData true cfg.hasDur raw) (ids (cleanData true cfg.hasDur raw)) with x | regs
        · rw [he] at h; cases h
        · rw [he] at h
          simp only at h
          rcases hcv : checkCovariateValues (cleanData true cfg.hasDur raw) cm (ids (cleanData true cfg.hasDur raw))
            cfg.covNames with x | u
          · rw [hcv] at h; cases h
          · rw [hcv] at h
            simp only [Except.ok.injEq] at h
            subst h
            obtain ⟨e1, e2⟩ := extractRegimens_spec _ _ regs he
            refine ⟨by simp [hd], rfl, rfl, rfl, rfl, ?_, fun hf => by simp [hd] at hf, fun _ => ⟨regs, rfl, e1, e2⟩,
              checkCovariateValues_spec _ _ _ _ hcv⟩
            intro o ho'
            obtain ⟨b, hb, _⟩ := checkObsMap_spec _ _ _ om ho o ho'
            exact ⟨b, hb⟩
      · have hd' : cfg.hasDose = false := by simpa using hd
        simp only [hd', Bool.false_eq_true, if_false] at h
        rcases hcv : checkCovariateValues (cleanData false cfg.hasDur raw) cm (ids (cleanData false cfg.hasDur raw))
          cfg.covNames with x | u
        · rw [hcv] at h; cases h
        · rw [hcv] at h
          simp only [Except.ok.injEq] at h
          subst h
          refine ⟨by simp [hd'], rfl, rfl, rfl, rfl, ?_, fun _ => rfl, fun hf => by simp [hd'] at hf,
            checkCovariateValues_spec _ _ _ _ hcv⟩
          intro o ho'
          obtain ⟨b, hb, _⟩ := checkObsMap_spec _ _ _ om ho o ho'
          exact ⟨b, hb⟩


/-! ## the order of the rows of the frame is irrelevant (the code as it is) -/

theorem insertByTime_filter (p : ℝ × ℝ) (l : List (ℝ × ℝ)) (hs : TimeSorted l) (t : ℝ) :
    (insertByTime p l).filter (fun q => decide (q.1 = t)) =
      (if p.1 = t then [p] else []) ++ l.filter (fun q => decide (q.1 = t)) := by
  induction l with
  | nil => by_cases h : p.1 = t <;> simp [insertByTime, h]
  | cons q qs ih =>
    have hs' := List.pairwise_cons.mp hs
    unfold insertByTime
    simp only [lt_real, decide_eq_true_eq]
    by_cases hlt : q.1 < p.1
    · rw [if_pos hlt, List.filter_cons, ih hs'.2, List.filter_cons]
      by_cases hq : q.1 = t
      · have hp : ¬ p.1 = t := fun h => by rw [h, ← hq] at hlt; exact lt_irrefl _ hlt
        simp [hq, hp]
      · simp [hq]
    · rw [if_neg hlt, List.filter_cons]
      by_cases hp : p.1 = t <;> simp [hp]

/-- **C14 (measurements ordered by time, ties in frame order).** What the controller hands to the
    likelihood is a rearrangement of the individual's measurements that is non-decreasing in time
    and keeps measurements taken at the same time in the order of the frame (`sort_values(kind='stable')`). -/
theorem C14_sorted_rows (l : List (ℝ × ℝ)) :
    (sortByTime l).Perm l ∧ TimeSorted (sortByTime l) ∧
    ∀ t, (sortByTime l).filter (fun q => decide (q.1 = t)) = l.filter (fun q => decide (q.1 = t)) := by
  refine ⟨sortByTime_perm l, sortByTime_sorted l, fun t => ?_⟩
  induction l with
  | nil => rfl
  | cons p ps ih =>
    unfold sortByTime
    rw [insertByTime_filter p _ (sortByTime_sorted ps) t, ih, List.filter_cons]
    by_cases hp : p.1 = t <;> simp [hp]

/-- **C14 (fully shuffled frames — the code as it is).** Permuting the rows of the frame in any way
    permutes, for every individual and observable, only measurements that share their time; if no two
    different measurements of an individual and observable share a time, the data handed to the
    likelihood is literally the same. (Before a5c706c such frames were rejected:
    `C14_unsorted_counterexample`.) -/
theorem C14_row_order_irrelevant (d d' : List (Row ℝ)) (h : d.Perm d') (i b : String) :
    (sortByTime (specRows d i b)).Perm (sortByTime (specRows d' i b)) ∧
    ((∀ p ∈ specRows d i b, ∀ q ∈ specRows d i b, p.1 = q.1 → p = q) →
      sortByTime (specRows d i b) = sortByTime (specRows d' i b)) := by
  have hp : (specRows d i b).Perm (specRows d' i b) := h.filterMap _
  have hperm : (sortByTime (specRows d i b)).Perm (sortByTime (specRows d' i b)) :=
    (sortByTime_perm _).trans (hp.trans (sortByTime_perm _).symm)
  refine ⟨hperm, fun hinj => ?_⟩
  refine List.Perm.eq_of_pairwise ?_ (sortByTime_sorted _) (sortByTime_sorted _) hperm
  intro a c ha hc h1 h2
  have ha' := (sortByTime_perm _).subset ha
  have hc' := hp.symm.subset ((sortByTime_perm _).subset hc)
  exact hinj a ha' c hc' (le_antisymm h1 h2)

/-! ## unrelated rows do not change the posterior (any variant of the controller) -/

theorem outData_relevant [ScalarFns α] (obsL covL : List String) (d d' : List (Row α))
    (h : d'.filter (relevant obsL covL) = d.filter (relevant obsL covL)) (srt : Bool) (i b : String)
    (hb : b ∈ obsL) : outData srt d' i b = outData srt d i b := by
  have : rowsFor d' i b = rowsFor d i b := by
    rw [rowsFor_eq, rowsFor_eq, ← specRows_relevant obsL covL d' i b hb, h, specRows_relevant obsL covL d i b hb]
  unfold outData
  rw [this]

theorem outputsData_data [ScalarFns α] (lg : Legacy) (P : Problem α) (d' : List (Row α)) (i : String)
    (h : ∀ o b, P.obsMap.lookup o = some b → ∀ srt, outData srt d' i b = outData srt P.data i b) :
    ∀ os, outputsData lg { P with data := d' } i os = outputsData lg P i os := by
  intro os
  induction os with
  | nil => rfl
  | cons o os ih =>
    unfold outputsData
    rw [ih]
    simp only
    rcases hb : P.obsMap.lookup o with _ | b
    · rfl
    · simp only [h o b hb]

theorem createLLs_data [ScalarFns α] (lg : Legacy) (P : Problem α) (d' : List (Row α))
    (h : ∀ i o b, P.obsMap.lookup o = some b → ∀ srt, outData srt d' i b = outData srt P.data i b) :
    ∀ il shared, createLLs lg { P with data := d' } il shared = createLLs lg P il shared := by
  intro il
  induction il with
  | nil => intro shared; rfl
  | cons i is ih =>
    intro shared
    unfold createLLs
    have h1 : ∀ sh, createLL lg { P with data := d' } i sh = createLL lg P i sh := by
      intro sh; unfold createLL; rw [outputsData_data lg P d' i (h i)]
    have h2 : setRegimen { P with data := d' } i shared = setRegimen P i shared := rfl
    simp only [h1, h2, ih]

theorem fillCol_data (d d' : List (Row α)) (b : String) (idc : Nat)
    (h : ∀ i, covValues d' b i = covValues d b i) :
    ∀ is idn (M : Mat α), fillCol d' b idc is idn M = fillCol d b idc is idn M := by
  intro is
  induction is with
  | nil => intro idn M; rfl
  | cons i is ih =>
    intro idn M
    unfold fillCol
    rw [h i]
    rcases covValues d b i with _ | ⟨v, _ | ⟨w, ws⟩⟩
    · rfl
    · exact ih _ _
    · rfl

theorem fillAll_data (d d' : List (Row α)) (covMap : List (String × String)) (idl : List String)
    (h : ∀ c b, covMap.lookup c = some b → ∀ i, covValues d' b i = covValues d b i) :
    ∀ cs idc (M : Mat α), fillAll d' covMap idl cs idc M = fillAll d covMap idl cs idc M := by
  intro cs
  induction cs with
  | nil => intro idc M; rfl
  | cons c cs ih =>
    intro idc M
    unfold fillAll
    rcases hb : covMap.lookup c with _ | b
    · rfl
    · simp only [fillCol_data d d' b idc (h c b hb)]
      rcases fillCol d b idc idl 0 M with x | M1
      · rfl
      · exact ih _ _

/-- **C14 (the result is unaffected by unrelated rows, observables and missing values).** Replace the
    frame behind the controller's state by any frame with the same relevant rows in the same order
    (rows of other observables, rows with missing value / time / dose, ID-only rows inserted or removed
    anywhere; IDs and regimens as `set_data` computes them are unchanged by such rows, see
    `C14_irrelevant_rows`, `C14_irrelevant_rows_ids`): `get_log_posterior` returns the same posterior —
    same individuals, same data per output, same regimens, same covariate matrix — or the same error. -/
theorem C14_posterior_irrelevant_rows [ScalarFns α] (lg : Legacy) (P : Problem α) (d' : List (Row α))
    (obsL covL : List String) (hobs : ∀ o b, P.obsMap.lookup o = some b → b ∈ obsL)
    (hcov : ∀ c b, P.covMap.lookup c = some b → b ∈ covL)
    (h : d'.filter (relevant obsL covL) = P.data.filter (relevant obsL covL))
    (sel : Option RawId) (shared : Option (List (Event α))) :
    getLogPosterior lg { P with data := d' } sel shared = getLogPosterior lg P sel shared := by
  have hc := createLLs_data lg P d' (fun i o b hb srt => outData_relevant obsL covL P.data d' h srt i b (hobs o b hb))
  have he : extractCovariates d' P.covMap P.ids P.covNames = extractCovariates P.data P.covMap P.ids P.covNames := by
    unfold extractCovariates
    apply fillAll_data
    intro c b hb i
    rw [covValues_eq, covValues_eq, ← specCov_relevant obsL covL d' b i (hcov c b hb), h,
      specCov_relevant obsL covL P.data b i (hcov c b hb)]
  unfold getLogPosterior
  have hs : selectIds lg { P with data := d' } sel = selectIds lg P sel := rfl
  rw [hs]
  rcases selectIds lg P sel with x | il
  · rfl
  · simp only [hc, he]

/-! ## which data goes to which output; the order and extra entries of the user's name map -/

theorem filterMap_lookup_blocks {β : Type} (m : List (String × String)) (g : String → β) :
    ∀ (os : List String), (∀ o ∈ os, ∃ b, m.lookup o = some b) →
      (os.filterMap (fun o => (m.lookup o).map g)).length = os.length ∧
      ∀ k (hk : k < os.length), ∃ b, m.lookup os[k] = some b ∧
        (os.filterMap (fun o => (m.lookup o).map g))[k]? = some (g b) := by
  intro os
  induction os with
  | nil => intro _; exact ⟨rfl, fun k hk => absurd hk (Nat.not_lt_zero _)⟩
  | cons o os ih =>
    intro h
    obtain ⟨b, hb⟩ := h o List.mem_cons_self
    obtain ⟨h1, h2⟩ := ih (fun o' ho' => h o' (List.mem_cons_of_mem _ ho'))
    have hc : (o :: os).filterMap (fun o => (m.lookup o).map g) =
        g b :: os.filterMap (fun o => (m.lookup o).map g) := by
      rw [List.filterMap_cons, hb]; rfl
    rw [hc]
    refine ⟨by simp [h1], fun k hk => ?_⟩
    cases k with
    | zero => exact ⟨b, by simpa using hb, by simp⟩
    | succ k =>
      obtain ⟨b', hb', hk'⟩ := h2 k (by simpa using hk)
      exact ⟨b', by simpa using hb', by simpa using hk'⟩

/-- **C14 (the k-th data block belongs to the k-th output).** The likelihood pairs the k-th list of
    times / observations with the k-th model output and the k-th error model; the controller fills
    position `k` with the measurements of the observable that the map assigns to `outputs()[k]` — the
    order of the mechanistic model's outputs, not the order in which the user wrote the map. -/
theorem C14_data_follows_outputs [ScalarFns α] (P : Problem α) (i : String)
    (h : ∀ o ∈ P.outputs, ∃ b, P.obsMap.lookup o = some b) :
    (specData P i).length = P.outputs.length ∧
    ∀ k (hk : k < P.outputs.length), ∃ b, P.obsMap.lookup P.outputs[k] = some b ∧
      (specData P i)[k]? = some ⟨(sortByTime (specRows P.data i b)).map (·.1),
        (sortByTime (specRows P.data i b)).map (·.2)⟩ := by
  unfold specData
  exact filterMap_lookup_blocks P.obsMap _ P.outputs h

theorem outputsData_map [ScalarFns α] (lg : Legacy) (P : Problem α) (m' : List (String × String)) (i : String) :
    ∀ os, (∀ o ∈ os, m'.lookup o = P.obsMap.lookup o) →
      outputsData lg { P with obsMap := m' } i os = outputsData lg P i os := by
  intro os
  induction os with
  | nil => intro _; rfl
  | cons o os ih =>
    intro h
    unfold outputsData
    rw [ih (fun o' ho' => h o' (List.mem_cons_of_mem _ ho'))]
    simp only [h o List.mem_cons_self]

theorem createLLs_map [ScalarFns α] (lg : Legacy) (P : Problem α) (m' : List (String × String))
    (h : ∀ o ∈ P.outputs, m'.lookup o = P.obsMap.lookup o) :
    ∀ il shared, createLLs lg { P with obsMap := m' } il shared = createLLs lg P il shared := by
  intro il
  induction il with
  | nil => intro shared; rfl
  | cons i is ih =>
    intro shared
    unfold createLLs
    have h1 : ∀ sh, createLL lg { P with obsMap := m' } i sh = createLL lg P i sh := by
      intro sh; unfold createLL
      have := outputsData_map lg P m' i P.outputs h
      simp only at this ⊢
      rw [this]
    have h2 : setRegimen { P with obsMap := m' } i shared = setRegimen P i shared := rfl
    simp only [h1, h2, ih]

/-- **C14 (the map is a dictionary: order and extra entries are irrelevant).** Any name map that
    assigns the same observable to every model output — the same entries written in another order,
    or with additional keys that are no outputs — gives the same posterior. -/
theorem C14_map_order_irrelevant [ScalarFns α] (lg : Legacy) (P : Problem α) (m' : List (String × String))
    (h : ∀ o ∈ P.outputs, m'.lookup o = P.obsMap.lookup o)
    (sel : Option RawId) (shared : Option (List (Event α))) :
    getLogPosterior lg { P with obsMap := m' } sel shared = getLogPosterior lg P sel shared := by
  have hc := createLLs_map lg P m' h
  unfold getLogPosterior
  have hs : selectIds lg { P with obsMap := m' } sel = selectIds lg P sel := rfl
  rw [hs]
  rcases selectIds lg P sel with x | il
  · rfl
  · simp only [hc]

/-- reordering the entries of a map with distinct keys does not change any lookup -/
theorem lookup_perm (m m' : List (String × String)) (hp : m.Perm m') :
    (m.map Prod.fst).Nodup → ∀ o, m'.lookup o = m.lookup o := by
  induction hp with
  | nil => intro _ _; rfl
  | cons x _ ih =>
    intro hn o
    obtain ⟨xk, xv⟩ := x
    simp only [List.map_cons, List.nodup_cons] at hn
    rw [List.lookup_cons, List.lookup_cons, ih hn.2 o]
  | swap x y l =>
    intro hn o
    obtain ⟨xk, xv⟩ := x
    obtain ⟨yk, yv⟩ := y
    simp only [List.map_cons, List.nodup_cons, List.mem_cons, not_or] at hn
    have hxy : yk ≠ xk := hn.1.1
    simp only [List.lookup_cons]
    by_cases h1 : o = xk
    · have h2 : (o == yk) = false := by
        simp only [beq_eq_false_iff_ne, ne_eq]; intro h; exact hxy (h.symm.trans h1)
      have h1' : (o == xk) = true := by simp [h1]
      simp only [h1', h2]
    · have h1' : (o == xk) = false := by simp [h1]
      simp only [h1']
  | trans h1 _ ih1 ih2 =>
    intro hn o
    rw [ih2 ((h1.map Prod.fst).nodup_iff.mp hn) o, ih1 hn o]

/-! ## every frame that describes a posterior yields it (the code as it is) -/

/-- what `set_data` guarantees about the state (`C14_set_data`), plus non-negative measurement times
    (a contract of `chi.LogLikelihood`) -/
structure WellFormed (P : Problem ℝ) : Prop where
  outputs : ∀ o ∈ P.outputs, ∃ b, P.obsMap.lookup o = some b
  regimens : ∀ regs, P.regimens = some regs → ∀ i ∈ P.ids, ∃ r, regs.lookup i = some r
  covs : ∀ c ∈ P.covNames, ∃ b, P.covMap.lookup c = some b ∧ ∀ i ∈ P.ids, (specCov P.data b i).length = 1
  times : ∀ r ∈ P.data, ∀ t, r.time = some t → 0 ≤ t

theorem adjacentOk_of_sorted : ∀ (l : List ℝ), l.Pairwise (· ≤ ·) →
    adjacentOk (fun a b => ScalarFns.lt a b) l = true
  | [], _ => rfl
  | [_], _ => rfl
  | a :: b :: rest, h => by
    have h' := List.pairwise_cons.mp h
    unfold adjacentOk
    simp only [lt_real, Bool.and_eq_true, Bool.not_eq_eq_eq_not, Bool.not_true, decide_eq_false_iff_not, not_lt]
    exact ⟨h'.1 b List.mem_cons_self, adjacentOk_of_sorted (b :: rest) h'.2⟩

theorem timesAccepted_sorted (d : List (Row ℝ)) (i b : String)
    (hn : ∀ r ∈ d, ∀ t, r.time = some t → 0 ≤ t) :
    timesAccepted (outData true d i b).times = true := by
  rw [outData_sorted]
  unfold timesAccepted
  simp only [Bool.and_eq_true, List.all_eq_true]
  constructor
  · intro t ht
    obtain ⟨p, hp, rfl⟩ := List.mem_map.mp ht
    have hp' := (sortByTime_perm _).subset hp
    unfold specRows at hp'
    obtain ⟨r, hr, hc⟩ := List.mem_filterMap.mp hp'
    have := ((C14_rows d i b).2.2 r p.1 p.2).mp hc
    have h0 := hn r hr p.1 this.2.2.1
    simp only [lt_real, ofNat_real, Nat.cast_zero, Bool.not_eq_eq_eq_not, Bool.not_true,
      decide_eq_false_iff_not, not_lt]
    exact h0
  · apply adjacentOk_of_sorted
    have := sortByTime_sorted (specRows d i b)
    unfold TimeSorted at this
    exact List.pairwise_map.mpr this

theorem outputsData_ok (P : Problem ℝ) (i : String) :
    ∀ (os : List String), (∀ o ∈ os, ∃ b, P.obsMap.lookup o = some b) →
      (∀ r ∈ P.data, ∀ t, r.time = some t → 0 ≤ t) →
      ∃ data, outputsData Legacy.asIs P i os = .ok data ∧
        data.all (fun o => timesAccepted o.times) = true := by
  intro os
  induction os with
  | nil => intro _ _; exact ⟨[], rfl, rfl⟩
  | cons o os ih =>
    intro ho hn
    obtain ⟨b, hb⟩ := ho o List.mem_cons_self
    obtain ⟨rest, hr, hacc⟩ := ih (fun o' h' => ho o' (List.mem_cons_of_mem _ h')) hn
    refine ⟨outData true P.data i b :: rest, ?_, ?_⟩
    · unfold outputsData
      rw [hb]
      simp only [hr]
      rfl
    · simp only [List.all_cons, Bool.and_eq_true]
      exact ⟨timesAccepted_sorted P.data i b hn, hacc⟩

theorem setRegimen_ok (P : Problem ℝ) (hw : WellFormed P) (i : String) (hi : i ∈ P.ids)
    (shared : Option (List (Event ℝ))) : ∃ sh, setRegimen P i shared = .ok sh := by
  unfold setRegimen
  have := hw.regimens
  generalize P.regimens = R at this ⊢
  rcases R with _ | (_ | ⟨r, rs⟩)
  · exact ⟨shared, rfl⟩
  · exact ⟨shared, rfl⟩
  · obtain ⟨e, he⟩ := this (r :: rs) rfl i hi
    exact ⟨some e, by simp only [he]⟩

theorem createLLs_ok (P : Problem ℝ) (hw : WellFormed P) :
    ∀ (il : List String), (∀ i ∈ il, i ∈ P.ids) → ∀ shared,
      ∃ lls shEnd, createLLs Legacy.asIs P il shared = .ok (lls, shEnd) := by
  intro il
  induction il with
  | nil => intro _ shared; exact ⟨[], shared, rfl⟩
  | cons i is ih =>
    intro hmem shared
    obtain ⟨sh, hsh⟩ := setRegimen_ok P hw i (hmem i List.mem_cons_self) shared
    obtain ⟨data, hd, hacc⟩ := outputsData_ok P i P.outputs hw.outputs hw.times
    obtain ⟨rest, e2, hr⟩ := ih (fun j hj => hmem j (List.mem_cons_of_mem _ hj)) sh
    refine ⟨⟨i, data, sh⟩ :: rest, e2, ?_⟩
    unfold createLLs
    rw [hsh]
    simp only
    have : createLL Legacy.asIs P i sh = .ok ⟨i, data, sh⟩ := by
      unfold createLL
      rw [hd]
      simp only [hacc, if_true]
    rw [this]
    simp only [hr]

theorem fillCol_ok (d : List (Row ℝ)) (b : String) (idc : Nat) :
    ∀ (is : List String), (∀ i ∈ is, (specCov d b i).length = 1) → ∀ idn (M : Mat ℝ),
      ∃ M', fillCol d b idc is idn M = .ok M' := by
  intro is
  induction is with
  | nil => intro _ idn M; exact ⟨M, rfl⟩
  | cons i is ih =>
    intro h idn M
    have h1 := h i List.mem_cons_self
    rw [← covValues_eq] at h1
    rcases hv : covValues d b i with _ | ⟨v, _ | ⟨w, ws⟩⟩
    · rw [hv] at h1; simp at h1
    · obtain ⟨M', hM'⟩ := ih (fun j hj => h j (List.mem_cons_of_mem _ hj)) (idn + 1) (M.set idn idc v)
      exact ⟨M', by unfold fillCol; rw [hv]; exact hM'⟩
    · rw [hv] at h1; simp at h1

theorem fillAll_ok (d : List (Row ℝ)) (covMap : List (String × String)) (idl : List String) :
    ∀ (cs : List String), (∀ c ∈ cs, ∃ b, covMap.lookup c = some b ∧ ∀ i ∈ idl, (specCov d b i).length = 1) →
      ∀ idc (M : Mat ℝ), ∃ M', fillAll d covMap idl cs idc M = .ok M' := by
  intro cs
  induction cs with
  | nil => intro _ idc M; exact ⟨M, rfl⟩
  | cons c cs ih =>
    intro h idc M
    obtain ⟨b, hb, hone⟩ := h c List.mem_cons_self
    obtain ⟨M1, hM1⟩ := fillCol_ok d b idc idl hone 0 M
    obtain ⟨M', hM'⟩ := ih (fun c' hc' => h c' (List.mem_cons_of_mem _ hc')) (idc + 1) M1
    exact ⟨M', by unfold fillAll; rw [hb]; simp only [hM1, hM']⟩

/-- **C14 (a posterior is returned for every frame that describes one — the code as it is).**
    After a successful `set_data` (`WellFormed`, see `C14_set_data`), for rows in ANY order — time-ordered
    within an individual or not —, for any number of individuals including one with a population model,
    and for any selector whose string form is one of the IDs (an integer, a float or a string):
    `get_log_posterior` does not raise. With `C14_posterior` this is the full property. -/
theorem C14_posterior_exists (P : Problem ℝ) (hw : WellFormed P) (sel : Option RawId)
    (shared : Option (List (Event ℝ)))
    (hsel : P.hasPop = false → (sel = none → P.ids ≠ []) ∧ (∀ s, sel = some s → s.key ∈ P.ids)) :
    ∃ post shEnd, getLogPosterior Legacy.asIs P sel shared = .ok (post, shEnd) := by
  unfold getLogPosterior
  by_cases hpop : P.hasPop = true
  · have hs : selectIds Legacy.asIs P sel = .ok P.ids := by unfold selectIds; simp only [hpop, if_true]
    obtain ⟨lls, e2, hc⟩ := createLLs_ok P hw P.ids (fun _ h => h) shared
    rw [hs]
    simp only [hc]
    simp only [hpop, if_true, Legacy.asIs, Bool.false_and, Bool.false_eq_true, if_false]
    by_cases hcn : P.covNames.isEmpty = true
    · refine ⟨Posterior.hier lls none, e2, ?_⟩
      simp only [hcn, if_true]
    · obtain ⟨M, hM⟩ := fillAll_ok P.data P.covMap P.ids P.covNames hw.covs 0 (fun _ _ => none)
      have : extractCovariates P.data P.covMap P.ids P.covNames = .ok M := hM
      refine ⟨Posterior.hier lls (some (M.toLists P.ids.length P.covNames.length)), e2, ?_⟩
      simp only [hcn, Bool.false_eq_true, if_false, this]
  · have hpop' : P.hasPop = false := by simpa using hpop
    obtain ⟨h1, h2⟩ := hsel hpop'
    have : ∃ i, i ∈ P.ids ∧ selectIds Legacy.asIs P sel = .ok [i] := by
      unfold selectIds
      simp only [hpop', Bool.false_eq_true, if_false]
      cases sel with
      | none =>
        rcases hP : P.ids with _ | ⟨j, js⟩
        · exact absurd hP (h1 rfl)
        · exact ⟨j, List.mem_cons_self, rfl⟩
      | some s =>
        have hk := h2 s rfl
        refine ⟨s.key, hk, ?_⟩
        simp only [selectId, Legacy.asIs, Bool.false_eq_true, if_false, hk, if_true]
    obtain ⟨i, hi, hs⟩ := this
    obtain ⟨lls, e2, hc⟩ := createLLs_ok P hw [i] (fun j hj => by
      rcases List.mem_singleton.mp hj with rfl; exact hi) shared
    have hl := createLLs_spec _ P [i] shared lls e2 hc
    rw [hs]
    simp only [hc, hpop', Bool.false_eq_true, if_false]
    rw [hl]
    exact ⟨_, _, rfl⟩

/-- **C14 (from the frame to the posterior — the code as it is).** If `set_data` accepts the frame and
    no time is negative, `get_log_posterior` (with a population model, or for any selector naming one of
    the individuals) returns a posterior, and it is the one assembled by hand. No hypothesis on the
    order of rows, the number of individuals or the data type of the selector remains. -/
theorem C14_posterior_of_frame (cfg : Config) (raw : List (RawRow ℝ)) (P : Problem ℝ)
    (hset : setData cfg raw = .ok P) (hn : ∀ r ∈ raw, ∀ t, r.time = some t → 0 ≤ t)
    (sel : Option RawId) (shared : Option (List (Event ℝ)))
    (hsel : P.hasPop = false → (sel = none → P.ids ≠ []) ∧ (∀ s, sel = some s → s.key ∈ P.ids)) :
    ∃ post shEnd, getLogPosterior Legacy.asIs P sel shared = .ok (post, shEnd) ∧
      (P.hasPop = true → ∃ cov, post = .hier (P.ids.map (specIndiv P shared)) cov) ∧
      (P.hasPop = false → ∃ i ∈ P.ids, post = .single (specIndiv P shared i)) := by
  obtain ⟨hdata, hids, _, _, _, hout, hnd, hd, hcov⟩ := C14_set_data cfg raw P hset
  have hw : WellFormed P := by
    refine ⟨hout, ?_, hcov, ?_⟩
    · intro regs hregs i hi
      by_cases hdose : cfg.hasDose = true
      · obtain ⟨regs', hr', _, hl⟩ := hd hdose
        rw [hregs] at hr'
        cases hr'
        obtain ⟨r, _, hr⟩ := hl i hi
        exact ⟨r, hr⟩
      · have := hnd (by simpa using hdose)
        rw [this] at hregs; cases hregs
    · intro r hr t ht
      rw [hdata] at hr
      unfold cleanData at hr
      obtain ⟨r0, hr0, rfl⟩ := List.mem_map.mp hr
      exact hn r0 hr0 t ht
  obtain ⟨post, shEnd, h⟩ := C14_posterior_exists P hw sel shared hsel
  obtain ⟨p1, p2⟩ := C14_posterior P sel shared post shEnd h
  refine ⟨post, shEnd, h, ?_, ?_⟩
  · intro hp
    obtain ⟨cov, hc, _⟩ := p1 hp
    exact ⟨cov, hc⟩
  · intro hp
    obtain ⟨i, hi, hpost, _⟩ := p2 hp
    exact ⟨i, hi, hpost⟩

/-- the identifier `0` is an identifier like any other: selecting it by the integer returns individual
    `"0"`, not the first individual of the frame (a truthiness test on the selector would) -/
theorem C14_selector_zero :
    getLogPosterior Legacy.asIs (exProblem [("1", 1, 1), ("0", 2, 2)] ["1", "0"] false) (some (.int 0)) none
      = .ok (.single ⟨"0", [⟨[2], [2]⟩], none⟩, none) ∧
    getLogPosterior Legacy.asIs (exProblem [("1", 1, 1), ("0", 2, 2)] ["1", "0"] false) none none
      = .ok (.single ⟨"1", [⟨[1], [1]⟩], none⟩, none) := by
  have h10 : ¬ ("1" : String) = "0" := by decide
  have h01 : ¬ ("0" : String) = "1" := by decide
  have hk : RawId.key (.int 0) = "0" := by decide
  constructor
  · norm_num [getLogPosterior, selectIds, selectId, createLLs, setRegimen, createLL, outputsData, outData,
      rowsFor, maskRows, exProblem, Legacy.asIs, timesAccepted, adjacentOk, List.lookup, sortByTime,
      insertByTime, hk, List.filterMap_cons, List.filter_cons, h10, h01]
  · norm_num [getLogPosterior, selectIds, selectId, createLLs, setRegimen, createLL, outputsData, outData,
      rowsFor, maskRows, exProblem, Legacy.asIs, timesAccepted, adjacentOk, List.lookup, sortByTime,
      insertByTime, List.filterMap_cons, List.filter_cons, h10, h01]

/-! ## call histories: what stays on the controller's own mechanistic model -/

theorem createLLs_state [ScalarFns α] (lg : Legacy) (P : Problem α) :
    ∀ (il : List String) (shared : Option (List (Event α))) (lls : List (Indiv α))
      (shEnd : Option (List (Event α))), createLLs lg P il shared = .ok (lls, shEnd) →
      shEnd = (il.getLast?.map (regOf P shared)).getD shared := by
  intro il
  induction il with
  | nil =>
    intro shared lls shEnd h
    simp only [createLLs, Except.ok.injEq, Prod.mk.injEq] at h
    simp [h.2]
  | cons i is ih =>
    intro shared lls shEnd h
    unfold createLLs at h
    rcases hs : setRegimen P i shared with x | sh
    · rw [hs] at h; cases h
    · rw [hs] at h
      simp only at h
      have hsh := setRegimen_spec P i shared sh hs
      rcases hc : createLL lg P i sh with x | ind
      · rw [hc] at h; cases h
      · rw [hc] at h
        simp only at h
        rcases hr : createLLs lg P is sh with x | ⟨rest, e2⟩
        · rw [hr] at h; cases h
        · rw [hr] at h
          simp only [Except.ok.injEq, Prod.mk.injEq] at h
          have h2 := ih sh rest e2 hr
          rw [← h.2, h2, hsh]
          cases is with
          | nil => simp
          | cons j js =>
            simp only [List.getLast?_cons_cons]
            rcases hl : (j :: js).getLast? with _ | l
            · simp at hl
            · simp [regOf_idem]

/-- **C14 (what a call leaves behind — the code as it is).** After `get_log_posterior` the controller's
    own mechanistic model carries the regimen of the LAST individual that was built (when the frame has
    dose information), otherwise what it carried before. A later call on a frame WITHOUT dose information
    builds every likelihood with that left-over protocol (`C14_regimens_own`), so its result depends on the
    call history: `C14_stale_regimen_counterexample`. -/
theorem C14_model_state_after [ScalarFns α] (lg : Legacy) (P : Problem α) (sel : Option RawId)
    (shared : Option (List (Event α))) (post : Posterior α) (shEnd : Option (List (Event α)))
    (h : getLogPosterior lg P sel shared = .ok (post, shEnd)) :
    ∃ il, selectIds lg P sel = .ok il ∧ shEnd = (il.getLast?.map (regOf P shared)).getD shared ∧
      (P.regimens = none → shEnd = shared) := by
  unfold getLogPosterior at h
  rcases hs : selectIds lg P sel with x | il
  · rw [hs] at h; cases h
  · rw [hs] at h
    simp only at h
    rcases hc : createLLs lg P il shared with x | ⟨lls, e2⟩
    · rw [hc] at h; cases h
    · rw [hc] at h
      simp only at h
      have hst := createLLs_state lg P il shared lls e2 hc
      have he : shEnd = e2 := by
        by_cases hpop : P.hasPop = true
        · simp only [hpop, if_true] at h
          split at h
          · cases h
          · split at h
            · simp only [Except.ok.injEq, Prod.mk.injEq] at h; exact h.2.symm
            · rcases hx : extractCovariates P.data P.covMap P.ids P.covNames with x | M
              · rw [hx] at h; cases h
              · rw [hx] at h; simp only [Except.ok.injEq, Prod.mk.injEq] at h; exact h.2.symm
        · simp only [hpop, Bool.false_eq_true, if_false] at h
          rcases lls with _ | ⟨l, _ | ⟨l2, ls⟩⟩
          · cases h
          · simp only [Except.ok.injEq, Prod.mk.injEq] at h; exact h.2.symm
          · cases h
      refine ⟨il, rfl, he ▸ hst, fun hn => ?_⟩
      rw [he, hst]
      rcases il.getLast? with _ | l
      · rfl
      · simp [regOf, hn]

/-- **C14 (any call history — the repaired assembly).** If the regimen is set on a copy, a call leaves the
    controller's model as it was, so in ANY sequence of `get_log_posterior` calls, with the data replaced
    in between in any way, every call returns what it returns on a fresh controller: the posterior the
    current dataset describes. -/
theorem C14_history_independent [ScalarFns α] (lg : Legacy)
    (calls : List (Problem α × Option RawId)) (shared : Option (List (Event α))) :
    runSeq (getLogPosteriorPure lg) calls shared =
      calls.map (fun c => match getLogPosteriorPure lg c.1 c.2 shared with
        | .ok (post, _) => .ok post
        | .error x => .error x) := by
  induction calls with
  | nil => rfl
  | cons c cs ih =>
    obtain ⟨P, sel⟩ := c
    unfold runSeq
    rcases hp : getLogPosteriorPure lg P sel shared with x | ⟨post, sh'⟩
    · simp only [List.map_cons, hp, ih]
    · have : sh' = shared := by
        unfold getLogPosteriorPure at hp
        rcases hg : getLogPosterior lg P sel shared with x | ⟨p2, s2⟩
        · rw [hg] at hp; cases hp
        · rw [hg] at hp; simp only [Except.ok.injEq, Prod.mk.injEq] at hp; exact hp.2.symm
      subst this
      simp only [List.map_cons, hp, ih]

/-- a frame with one individual, one measurement and one bolus dose of 4 at `t = 0` -/
noncomputable def exDosed : Problem ℝ :=
  { exProblem [("1", 1, 1)] ["1"] false with regimens := some [("1", [⟨400, 0, 1 / 100⟩])] }

/-- **Finding `C14-stale-regimen` (the code as it is).** `get_log_posterior` on a dosed frame leaves the
    individual's regimen on the controller's own model; after the data has been replaced by a frame
    without dose information the likelihood is still built with it, whereas a fresh controller (and the
    repaired assembly, after the same history) builds it without doses. -/
theorem C14_stale_regimen_counterexample :
    getLogPosterior Legacy.asIs exDosed none none
      = .ok (.single ⟨"1", [⟨[1], [1]⟩], some [⟨400, 0, 1 / 100⟩]⟩, some [⟨400, 0, 1 / 100⟩]) ∧
    getLogPosterior Legacy.asIs (exProblem [("1", 1, 1)] ["1"] false) none (some [⟨400, 0, 1 / 100⟩])
      = .ok (.single ⟨"1", [⟨[1], [1]⟩], some [⟨400, 0, 1 / 100⟩]⟩, some [⟨400, 0, 1 / 100⟩]) ∧
    getLogPosterior Legacy.asIs (exProblem [("1", 1, 1)] ["1"] false) none none
      = .ok (.single ⟨"1", [⟨[1], [1]⟩], none⟩, none) ∧
    runSeq (getLogPosteriorPure Legacy.asIs) [(exDosed, none), (exProblem [("1", 1, 1)] ["1"] false, none)] none
      = [.ok (.single ⟨"1", [⟨[1], [1]⟩], some [⟨400, 0, 1 / 100⟩]⟩), .ok (.single ⟨"1", [⟨[1], [1]⟩], none⟩)] := by
  refine ⟨?_, ?_, ?_, ?_⟩ <;>
    norm_num [runSeq, getLogPosteriorPure, getLogPosterior, selectIds, createLLs, setRegimen, createLL, outputsData,
      outData, rowsFor, maskRows, exProblem, exDosed, Legacy.asIs, timesAccepted, adjacentOk, List.lookup, sortByTime,
      insertByTime, List.filterMap_cons, List.filter_cons]

/-! ## no output → observable map given: outputs are matched to the observables of the same name -/

theorem lookup_map_self (o : String) : ∀ (os : List String), o ∈ os →
    (os.map (fun o => (o, o))).lookup o = some o := by
  intro os
  induction os with
  | nil => intro h; cases h
  | cons x xs ih =>
    intro h
    simp only [List.map_cons, List.lookup_cons]
    by_cases hx : o = x
    · subst hx; simp
    · have hb : (o == x) = false := by simp [hx]
      simp only [hb]
      rcases List.mem_cons.mp h with h | h
      · exact absurd h hx
      · exact ih h

/-- the map chi uses when none is passed, on a frame that holds an observable named like every
    output: every output is looked up to the observable of its own name — whether or not the
    single-output / single-observable pairing applies -/
theorem resolveObsMap_none_lookup (outputs obsv : List String) (hsub : ∀ o ∈ outputs, o ∈ obsv) :
    ∀ o ∈ outputs, (resolveObsMap outputs obsv none).lookup o = some o := by
  intro o ho
  unfold resolveObsMap
  split
  · rename_i m hm; cases hm
  · split
    · rename_i o' b
      have ho' : o = o' := by simpa using ho
      subst ho'
      have hb : o = b := by simpa using hsub o ho
      subst hb
      simp [List.lookup_cons]
    · exact lookup_map_self o outputs ho

/-- **C14 (no map passed: outputs and observables are matched by name).** When the frame holds an
    observable named like every model output, `set_data` without `output_observable_dict` accepts the
    frame and assigns to every output the observable of the same name — however many other observables
    the frame holds and wherever they stand. -/
theorem C14_default_map_by_name (outputs obsv : List String) (hsub : ∀ o ∈ outputs, o ∈ obsv) :
    ∃ om, checkObsMap outputs obsv none = .ok om ∧ ∀ o ∈ outputs, om.lookup o = some o := by
  have hl := resolveObsMap_none_lookup outputs obsv hsub
  have hv : mapValid outputs obsv (resolveObsMap outputs obsv none) = true := by
    unfold mapValid
    apply List.all_eq_true.mpr
    intro o ho
    rw [hl o ho]
    simpa using hsub o ho
  exact ⟨resolveObsMap outputs obsv none, by unfold checkObsMap; rw [if_pos hv], hl⟩

/-- **C14 (no map passed: unrelated observables are irrelevant).** Two frames that both hold the
    observables named like the outputs — one with, one without further observables (another
    biomarker, covariate rows, labelled dose rows), in any order of appearance — give every output
    the same observable. -/
theorem C14_default_map_unrelated_observables (outputs obsv obsv' : List String)
    (h : ∀ o ∈ outputs, o ∈ obsv) (h' : ∀ o ∈ outputs, o ∈ obsv') :
    ∀ o ∈ outputs, (resolveObsMap outputs obsv none).lookup o = (resolveObsMap outputs obsv' none).lookup o := by
  intro o ho
  rw [resolveObsMap_none_lookup outputs obsv h o ho, resolveObsMap_none_lookup outputs obsv' h' o ho]

/-- **C14 (the documented convenience).** One output and a frame with ONE observable are paired
    whatever the observable is called. -/
theorem C14_default_map_single (o b : String) : checkObsMap [o] [b] none = .ok [(o, b)] := by
  simp [checkObsMap, resolveObsMap, mapValid, List.lookup_cons]

/-- **C14 (no map passed, a name is missing).** Outside the single / single case a frame that lacks an
    observable named like some output is rejected — no other observable is taken in its place. -/
theorem C14_default_map_missing (outputs obsv : List String) (o : String) (ho : o ∈ outputs) (hno : o ∉ obsv)
    (hns : ¬ (outputs.length = 1 ∧ obsv.length = 1)) :
    checkObsMap outputs obsv none = .error .valueError := by
  have hr : resolveObsMap outputs obsv none = outputs.map (fun o => (o, o)) := by
    unfold resolveObsMap
    split
    · rename_i m hm; cases hm
    · split
      · exact absurd ⟨rfl, rfl⟩ hns
      · rfl
  have hv : mapValid outputs obsv (resolveObsMap outputs obsv none) = false := by
    rw [hr]
    unfold mapValid
    apply Bool.eq_false_iff.mpr
    intro hall
    have := List.all_eq_true.mp hall o ho
    rw [lookup_map_self o outputs ho] at this
    exact hno (by simpa using this)
  unfold checkObsMap
  rw [hv]
  rfl

/-- what `set_data` stores as the map is what `_check_output_observable_dict` returned for the
    observables of the raw frame -/
theorem setData_obsMap [Div α] [ScalarFns α] (cfg : Config) (raw : List (RawRow α)) (P : Problem α)
    (h : setData cfg raw = .ok P) :
    checkObsMap cfg.outputs (rawObservables raw) (strMap cfg.obsMap) = .ok P.obsMap ∧ P.outputs = cfg.outputs := by
  unfold setData at h
  simp only at h
  rcases ho : checkObsMap cfg.outputs (rawObservables raw) (strMap cfg.obsMap) with x | om
  · rw [ho] at h; cases h
  · rw [ho] at h
    simp only at h
    rcases hcm : checkCovMap cfg.covNames (rawObservables raw) (strMap cfg.covMap) with x | cm
    · rw [hcm] at h; cases h
    · rw [hcm] at h
      simp only at h
      split at h
      · cases h
      · split at h
        · cases h
        · simp only [Except.ok.injEq] at h
          subst h
          exact ⟨rfl, rfl⟩

/-- **C14 (`set_data` without a map).** Whatever frame `set_data` accepts without an
    `output_observable_dict`: if it holds an observable named like every output, the stored map sends
    every output to that observable; so (`C14_posterior`, `C14_data_follows_outputs`) the k-th data
    block of every likelihood holds the measurements of the observable named like `outputs()[k]` — not
    those of whichever observable appears first in the frame. -/
theorem C14_set_data_default_map [Div α] [ScalarFns α] (cfg : Config) (raw : List (RawRow α)) (P : Problem α)
    (h : setData cfg raw = .ok P) (hm : cfg.obsMap = none)
    (hsub : ∀ o ∈ cfg.outputs, o ∈ rawObservables raw) :
    ∀ o ∈ P.outputs, P.obsMap.lookup o = some o := by
  obtain ⟨h1, h2⟩ := setData_obsMap cfg raw P h
  rw [hm] at h1
  obtain ⟨om, hom, hl⟩ := C14_default_map_by_name cfg.outputs (rawObservables raw) hsub
  have : strMap (none : Option (List (String × RawId))) = none := rfl
  rw [this, hom] at h1
  simp only [Except.ok.injEq] at h1
  subst h1
  rw [h2]
  exact hl

/-- **C14 (two frames, no map).** Two accepted frames that differ in their unrelated observables give
    the outputs the same observables. -/
theorem C14_default_map_frames [Div α] [ScalarFns α] (cfg : Config) (raw raw' : List (RawRow α)) (P P' : Problem α)
    (h : setData cfg raw = .ok P) (h' : setData cfg raw' = .ok P') (hm : cfg.obsMap = none)
    (hsub : ∀ o ∈ cfg.outputs, o ∈ rawObservables raw) (hsub' : ∀ o ∈ cfg.outputs, o ∈ rawObservables raw') :
    ∀ o ∈ cfg.outputs, P.obsMap.lookup o = P'.obsMap.lookup o := by
  intro o ho
  have e1 := (setData_obsMap cfg raw P h).2
  have e2 := (setData_obsMap cfg raw' P' h').2
  rw [C14_set_data_default_map cfg raw P h hm hsub o (by rw [e1]; exact ho),
    C14_set_data_default_map cfg raw' P' h' hm hsub' o (by rw [e2]; exact ho)]

/-! ## non-vacuity -/

example : unique ["b", "a", "b", "c", "a"] = ["b", "a", "c"] := by decide
example : specIds ["b", "a", "b", "c", "a"] = ["b", "a", "c"] := by decide
example : RawId.key (.int (-3)) = "-3" ∧ RawId.key (.flt 3) = "3.0" ∧ RawId.key (.str "3") = "3" := by decide
/-- interleaved individuals, an unrelated observable, a missing value: only `1`'s two measurements remain -/
example : specRows ([⟨"1", some 1, some "conc", some 5, none, none⟩, ⟨"2", some 1, some "conc", some 6, none, none⟩,
    ⟨"1", some 2, some "other", some 7, none, none⟩, ⟨"1", some 3, some "conc", none, none, none⟩,
    ⟨"1", some 4, some "conc", some 8, none, none⟩] : List (Row Nat)) "1" "conc" = [(1, 5), (4, 8)] := by decide
/-- the hypotheses of `C14_prefix_posterior_partial` are satisfiable and its conclusion is not an equation
    between two errors -/
example : getLogPosterior Legacy.preFix (exProblem [("1", 1, 1), ("2", 2, 2)] ["1", "2"] false) (some (.str "2")) none
    = .ok (.single ⟨"2", [⟨[2], [2]⟩], none⟩, none) := C14_selector_counterexample.2.1
/-- an unrelated observable that appears first does not take the place of the output's observable … -/
example : checkObsMap ["Conc"] ["CRP", "Conc"] none = .ok [("Conc", "Conc")] := by decide
/-- … one output and one observable are paired, several outputs are matched by name, a missing name is an error -/
example : checkObsMap ["Conc"] ["Plasma conc"] none = .ok [("Conc", "Plasma conc")] := by decide
example : checkObsMap ["a", "b"] ["x", "b", "a"] none = .ok [("a", "a"), ("b", "b")] := by decide
example : checkObsMap ["Conc"] ["CRP", "IL6"] none = .error .valueError := by decide

end ChiModel.Problem
