import ChiModel.Reduced
import ChiModel.ReducedSegments
import ChiModel.ReducedSim
set_option linter.unusedSectionVars false
namespace ChiModel.Reduced
variable {α : Type}

/-- a cell agrees with the net dictionary at name `n` -/
def Good (f : String → Option α) (n : String) (x : Bool × α) : Prop :=
  x.1 = (f n).isSome ∧ ∀ w, f n = some w → x.2 = w

def AllGood (f : String → Option α) : List String → List (Bool × α) → Prop
  | [], [] => True
  | n :: ns, x :: xs => Good f n x ∧ AllGood f ns xs
  | _, _ => False

theorem good_upd (g : α) (f : String → Option α) (d : Req α) (n : String) (x : Bool × α)
    (h : Good f n x) : Good (netStep f d) n (upd g d n x) := by
  unfold Good netStep upd
  cases hl : lookupLast d n with
  | none => simp only [hl]; exact h
  | some r =>
    cases r with
    | none => simp
    | some v => simp

theorem allGood_zipWith (g : α) (f) (d : Req α) :
    ∀ (names : List String) (c : List (Bool × α)), AllGood f names c →
      AllGood (netStep f d) names (List.zipWith (upd g d) names c)
  | [], [], _ => trivial
  | n :: ns, x :: xs, h => ⟨good_upd g f d n x h.1, allGood_zipWith g f d ns xs h.2⟩
  | [], _ :: _, h => h.elim
  | _ :: _, [], h => h.elim

theorem allGood_of_all_false (g : α) (f : String → Option α) :
    ∀ (names : List String) (c : List (Bool × α)), AllGood f names c →
      c.all (fun x => !x.1) = true → AllGood f names (names.map (fun _ => (false, g)))
  | [], [], _, _ => trivial
  | n :: ns, x :: xs, h, ha => by
    simp only [List.all_cons, Bool.and_eq_true, Bool.not_eq_true'] at ha
    refine ⟨⟨?_, ?_⟩, allGood_of_all_false g f ns xs h.2 ha.2⟩
    · rw [← h.1.1, ha.1]
    · intro w hw
      have := h.1.1
      rw [ha.1, hw] at this
      simp at this
  | [], _ :: _, h, _ => h.elim
  | _ :: _, [], h, _ => h.elim

theorem allGood_init (g : α) : ∀ names : List String,
    AllGood (fun _ => (none : Option α)) names (names.map (fun _ => (false, g)))
  | [] => trivial
  | _ :: ns => ⟨⟨rfl, by intro w hw; cases hw⟩, allGood_init g ns⟩

theorem step_good (names : List String) (g : α) (st : St α) (f) (d : Req α)
    (h : AllGood f names (view names g st)) :
    AllGood (netStep f d) names (view names g (fixStep names g st d)) := by
  have hz := allGood_zipWith g f d names _ h
  unfold fixStep
  simp only
  split
  · rename_i hall
    exact allGood_of_all_false g _ names _ hz hall
  · exact hz

/-- C08 (history independence of the hidden state): after ANY sequence of fix / re-fix / release
    calls, position by position, the mask says "fixed" exactly when the net dictionary binds the
    name, and the buffer then holds the net value. Duplicate names are fixed together. -/
theorem C08_history_independent (names : List String) (g : α) (ops : List (Req α)) :
    AllGood (net ops) names (view names g (run names g ops)) := by
  suffices H : ∀ (ops : List (Req α)) (st : St α) (f : String → Option α),
      AllGood f names (view names g st) →
      AllGood (ops.foldl netStep f) names (view names g (ops.foldl (fixStep names g) st)) from
    H ops none _ (allGood_init g names)
  intro ops
  induction ops with
  | nil => intro st f h; simpa using h
  | cons d ds ih => intro st f h; exact ih _ _ (step_good names g st f d h)

/-! ## what the wrapped object sees depends on the net dictionary only -/

theorem fill_eq_substitute (f : String → Option α) :
    ∀ (names : List String) (c : List (Bool × α)) (free : List α), AllGood f names c →
      fill c free = substitute f names free
  | [], [], _, _ => by simp [fill, substitute]
  | n :: ns, (b, v) :: cs, free, h => by
    obtain ⟨⟨hb, hv⟩, hrest⟩ := h
    cases hf : f n with
    | none =>
      have : b = false := by simpa [hf] using hb
      subst this
      cases free with
      | nil => simp [fill, substitute, hf]
      | cons x free => simp [fill, substitute, hf, fill_eq_substitute f ns cs free hrest]
    | some w =>
      have : b = true := by simpa [hf] using hb
      subst this
      have hvw : v = w := hv w hf
      simp [fill, substitute, hf, hvw, fill_eq_substitute f ns cs free hrest]
  | [], _ :: _, _, h => h.elim
  | _ :: _, [], _, h => h.elim

theorem restrict_eq_spec {β : Type} (f : String → Option α) :
    ∀ (names : List String) (c : List (Bool × α)) (gs : List β), AllGood f names c →
      restrict c gs = restrictSpec f names gs
  | [], [], _, _ => by simp [restrict, restrictSpec]
  | n :: ns, (b, v) :: cs, [], _ => by simp [restrict, restrictSpec]
  | n :: ns, (b, v) :: cs, g :: gs, h => by
    obtain ⟨⟨hb, _⟩, hrest⟩ := h
    cases hf : f n with
    | none =>
      have : b = false := by simpa [hf] using hb
      subst this
      simp [restrict, restrictSpec, hf, restrict_eq_spec f ns cs gs hrest]
    | some w =>
      have : b = true := by simpa [hf] using hb
      subst this
      simp [restrict, restrictSpec, hf, restrict_eq_spec f ns cs gs hrest]
  | [], _ :: _, _, h => h.elim
  | _ :: _, [], _, h => h.elim

/-- C08 (exact substitution): evaluating the reduced object — value, pointwise values, samples:
    any function `F` of the full parameter vector — at the free parameters equals evaluating the
    unfixed object at the full vector with the net values substituted. -/
theorem C08_eval_substitution {β : Type} (names : List String) (g : α) (ops : List (Req α))
    (F : List α → β) (free : List α) :
    evalReduced names g (run names g ops) F free = F (substitute (net ops) names free) := by
  unfold evalReduced
  rw [fill_eq_substitute (net ops) names _ free (C08_history_independent names g ops)]

/-- C08 (restricted sensitivities): the returned gradient is the unfixed object's gradient at the
    substituted vector, restricted to the free positions, in the original order. -/
theorem C08_grad_restriction {β : Type} (names : List String) (g : α) (ops : List (Req α))
    (grad : List β) :
    restrict (view names g (run names g ops)) grad = restrictSpec (net ops) names grad :=
  restrict_eq_spec (net ops) names _ grad (C08_history_independent names g ops)

theorem restrictSpec_self (f : String → Option α) :
    ∀ ns : List String, restrictSpec f ns ns = ns.filter (fun n => (f n).isNone)
  | [] => by simp [restrictSpec]
  | n :: ns => by
    simp only [restrictSpec, List.filter_cons, restrictSpec_self f ns]

/-- C08 (names): the reported names are exactly the free parameters in their original order. -/
theorem C08_names (names : List String) (g : α) (ops : List (Req α)) :
    restrict (view names g (run names g ops)) names = freeNames (net ops) names := by
  rw [C08_grad_restriction]
  exact restrictSpec_self _ names

theorem nFree_eq (f : String → Option α) :
    ∀ (names : List String) (c : List (Bool × α)), AllGood f names c →
      nFree c = (freeNames f names).length ∧ nFixed c + nFree c = names.length
  | [], [], _ => by simp [nFree, nFixed, freeNames]
  | n :: ns, (b, v) :: cs, h => by
    obtain ⟨⟨hb, _⟩, hrest⟩ := h
    have ih := nFree_eq f ns cs hrest
    unfold nFree nFixed freeNames at *
    cases hf : f n with
    | none =>
      have : b = false := by simpa [hf] using hb
      subst this
      simp [List.countP_cons, List.filter_cons, hf] at ih ⊢
      omega
    | some w =>
      have : b = true := by simpa [hf] using hb
      subst this
      simp [List.countP_cons, List.filter_cons, hf] at ih ⊢
      omega
  | [], _ :: _, h => h.elim
  | _ :: _, [], h => h.elim

/-- C08 (counts): `n_parameters()` is the number of free names, and fixed + free = all. -/
theorem C08_counts (names : List String) (g : α) (ops : List (Req α)) :
    nFree (view names g (run names g ops)) = (freeNames (net ops) names).length ∧
    nFixed (view names g (run names g ops)) + nFree (view names g (run names g ops))
      = names.length :=
  nFree_eq _ names _ (C08_history_independent names g ops)

/-- C08 (order independence): two histories with the same net name-value pairs are
    indistinguishable: same full vector for every free vector (hence same values, pointwise
    values, samples), same restricted gradient, same names. -/
theorem C08_order_independent {β : Type} (names : List String) (g g' : α)
    (ops ops' : List (Req α)) (h : ∀ n ∈ names, net ops n = net ops' n)
    (free : List α) (grad : List β) :
    fill (view names g (run names g ops)) free = fill (view names g' (run names g' ops')) free ∧
    restrict (view names g (run names g ops)) grad
      = restrict (view names g' (run names g' ops')) grad := by
  rw [fill_eq_substitute _ names _ free (C08_history_independent names g ops),
    fill_eq_substitute _ names _ free (C08_history_independent names g' ops'),
    C08_grad_restriction, C08_grad_restriction]
  constructor
  · clear grad
    induction names generalizing free with
    | nil => simp [substitute]
    | cons n ns ih =>
      have hn := h n List.mem_cons_self
      have ih' := fun free => ih (fun m hm => h m (List.mem_cons_of_mem _ hm)) free
      unfold substitute
      rw [hn]
      cases net ops' n with
      | none => cases free with
        | nil => rfl
        | cons x fr => simp [ih']
      | some w => simp [ih']
  · clear free
    induction names generalizing grad with
    | nil => simp [restrictSpec]
    | cons n ns ih =>
      have hn := h n List.mem_cons_self
      cases grad with
      | nil => simp [restrictSpec]
      | cons x gs =>
        simp only [restrictSpec, hn, ih (fun m hm => h m (List.mem_cons_of_mem _ hm)) gs]

theorem substitute_none (names : List String) (free : List α)
    (hlen : free.length = names.length) (f : String → Option α) (h : ∀ n ∈ names, f n = none) :
    substitute f names free = free := by
  induction names generalizing free with
  | nil => cases free with
    | nil => rfl
    | cons _ _ => simp at hlen
  | cons n ns ih =>
    cases free with
    | nil => simp at hlen
    | cons x fr =>
      simp only [substitute, h n List.mem_cons_self]
      rw [ih fr (by simpa using hlen) (fun m hm => h m (List.mem_cons_of_mem _ hm))]

/-- C08 (release restores): once every name has been released (net dictionary empty on the
    object's names) — after whatever happened before — the object evaluates exactly like the
    unfixed one; uninitialised buffer contents (`g`) never reach the wrapped object. -/
theorem C08_release_restores {β : Type} (names : List String) (g : α) (ops : List (Req α))
    (h : ∀ n ∈ names, net ops n = none) (F : List α → β) (free : List α)
    (hlen : free.length = names.length) :
    evalReduced names g (run names g ops) F free = F free := by
  rw [C08_eval_substitution, substitute_none names free hlen _ h]

/-- uninitialised / stale buffer cells are never read: the filled vector is the same for any
    two garbage values -/
theorem C08_buffer_garbage_irrelevant (names : List String) (g g' : α) (ops : List (Req α))
    (free : List α) :
    fill (view names g (run names g ops)) free = fill (view names g' (run names g' ops)) free :=
  (C08_order_independent (β := Unit) names g g' ops ops (fun _ _ => rfl) free []).1

/-! ## composites (`LogLikelihood`, `PredictiveModel`, the controller): one request is handed to
every sub-model, the free vector is split by the sub-models' free counts -/

theorem fill_append (c1 c2 : List (Bool × α)) (free : List α) (h : nFree c1 ≤ free.length) :
    fill (c1 ++ c2) free = fill c1 (free.take (nFree c1)) ++ fill c2 (free.drop (nFree c1)) := by
  induction c1 generalizing free with
  | nil => simp [fill, nFree]
  | cons x cs ih =>
    obtain ⟨b, v⟩ := x
    cases b with
    | true =>
      have : nFree ((true, v) :: cs) = nFree cs := by simp [nFree]
      rw [this] at h ⊢
      simp [fill, ih free h]
    | false =>
      have hn : nFree ((false, v) :: cs) = nFree cs + 1 := by simp [nFree]
      rw [hn] at h ⊢
      cases free with
      | nil => simp at h
      | cons y fr =>
        have h' : nFree cs ≤ fr.length := by simpa using h
        simp [fill, ih fr h']

theorem allGood_append (f : String → Option α) :
    ∀ (n1 n2 : List String) (c1 c2 : List (Bool × α)), AllGood f n1 c1 → AllGood f n2 c2 →
      AllGood f (n1 ++ n2) (c1 ++ c2)
  | [], _, [], _, _, h2 => by simpa using h2
  | n :: ns, n2, x :: xs, c2, h1, h2 => ⟨h1.1, allGood_append f ns n2 xs c2 h1.2 h2⟩
  | [], _, _ :: _, _, h1, _ => h1.elim
  | _ :: _, _, [], _, h1, _ => h1.elim

/-- C08 (composite objects): a likelihood / predictive model that forwards the request to its
    mechanistic and error sub-models and slices the free vector by their free counts behaves as
    ONE reduced object over the concatenated name list. -/
theorem C08_composite (n1 n2 : List String) (g : α) (ops : List (Req α)) (free : List α)
    (h : nFree (view n1 g (run n1 g ops)) ≤ free.length) :
    fill (view n1 g (run n1 g ops)) (free.take (nFree (view n1 g (run n1 g ops))))
      ++ fill (view n2 g (run n2 g ops)) (free.drop (nFree (view n1 g (run n1 g ops))))
      = substitute (net ops) (n1 ++ n2) free := by
  rw [← fill_append _ _ _ h]
  exact fill_eq_substitute _ _ _ _ (allGood_append _ n1 n2 _ _
    (C08_history_independent n1 g ops) (C08_history_independent n2 g ops))

/-- non-vacuity / sanity: fix `a`, re-fix it, release it, fix `b` -/
example : fill (view ["a", "b", "c"] (0:Nat)
      (run ["a", "b", "c"] 0 [[("a", some 5)], [("a", some 7), ("c", some 9)], [("a", none)], [("b", some 1)]]))
      [10] = [10, 1, 9] := by decide

/-! ## the parameter list changes during the life of the object (`ReducedPopulationModel.set_n_ids`) -/
namespace Seg

theorem fold_good (names : List String) (g : α) : ∀ (ops : List (Req α)) (st : St α) (f : String → Option α),
    AllGood f names (view names g st) →
    AllGood (ops.foldl netStep f) names (view names g (ops.foldl (fixStep names g) st))
  | [], _, _, h => by simpa using h
  | d :: ds, st, f, h => fold_good names g ds _ _ (step_good names g st f d h)

/-- the invariant only reads the dictionary at the names of the list -/
theorem allGood_congr (f f' : String → Option α) :
    ∀ (names : List String) (c : List (Bool × α)), (∀ n ∈ names, f n = f' n) → AllGood f names c →
      AllGood f' names c
  | [], [], _, _ => trivial
  | n :: ns, x :: xs, hf, h => by
    refine ⟨?_, allGood_congr f f' ns xs (fun m hm => hf m (List.mem_cons_of_mem _ hm)) h.2⟩
    have := hf n List.mem_cons_self
    unfold Good at *
    rw [← this]; exact h.1
  | [], _ :: _, _, h => h.elim
  | _ :: _, [], _, h => h.elim

theorem lookupLast_nil (n : String) : lookupLast ([] : Req α) n = none := by
  simp [lookupLast]

theorem lookupLast_cons_of_notin (d : Req α) (k : String) (v : Option α) (n : String)
    (h : ∀ p ∈ d, p.1 ≠ n) : lookupLast ((k, v) :: d) n = if k = n then some v else none := by
  unfold lookupLast
  rw [List.reverse_cons, List.find?_append]
  have hnone : d.reverse.find? (fun p => p.1 == n) = none := by
    rw [List.find?_eq_none]
    intro p hp
    have := h p (List.mem_reverse.mp hp)
    simpa using this
  rw [hnone]
  by_cases hk : k = n <;> simp [hk]

theorem lookupLast_cons_ne (d : Req α) (k : String) (v : Option α) (n : String) (hk : k ≠ n) :
    lookupLast ((k, v) :: d) n = lookupLast d n := by
  unfold lookupLast
  rw [List.reverse_cons, List.find?_append]
  cases h : d.reverse.find? (fun p => p.1 == n) with
  | some x => simp
  | none => simp [hk]

theorem fixedPairs_keys (names : List String) : ∀ (c : List (Bool × α)) (p : String × Option α),
    p ∈ fixedPairs names c → p.1 ∈ names := by
  induction names with
  | nil => intro c p h; cases c <;> simp [fixedPairs] at h
  | cons n ns ih =>
    intro c p h
    cases c with
    | nil => simp [fixedPairs] at h
    | cons x cs =>
      obtain ⟨b, v⟩ := x
      cases b with
      | true =>
        simp only [fixedPairs, List.mem_cons] at h
        rcases h with h | h
        · subst h; simp
        · exact List.mem_cons_of_mem _ (ih cs p h)
      | false =>
        simp only [fixedPairs] at h
        exact List.mem_cons_of_mem _ (ih cs p h)

theorem fixedPairs_allFree (g : α) : ∀ ks : List String,
    fixedPairs ks (ks.map (fun _ => (false, g))) = ([] : Req α)
  | [] => rfl
  | _ :: ks => by
    show fixedPairs ks (ks.map (fun _ => (false, g))) = []
    exact fixedPairs_allFree g ks

/-- the dictionary `set_n_ids` remembers says, for every name: its old fixed value if it was a fixed name of the
    old list, nothing otherwise -/
theorem lookupLast_fixedPairs (f : String → Option α) :
    ∀ (names : List String) (c : List (Bool × α)), names.Nodup → AllGood f names c → ∀ n,
      lookupLast (fixedPairs names c) n = if n ∈ names then (f n).map some else none := by
  intro names
  induction names with
  | nil => intro c _ h n; cases c <;> simp [fixedPairs, lookupLast_nil]
  | cons k ks ih =>
    intro c hnd h n
    cases c with
    | nil => simp [AllGood] at h
    | cons x cs =>
      obtain ⟨b, v⟩ := x
      obtain ⟨hk, hks⟩ := List.nodup_cons.mp hnd
      obtain ⟨⟨hb, hv⟩, hrest⟩ := h
      have ihn := ih cs hks hrest n
      cases b with
      | true =>
        simp only [fixedPairs]
        by_cases hkn : k = n
        · subst hkn
          rw [lookupLast_cons_of_notin _ _ _ _ (fun p hp he => hk (by rw [← he]; exact fixedPairs_keys ks cs p hp))]
          simp only [if_true, List.mem_cons, true_or]
          have : (f k).isSome = true := by simpa using hb.symm
          obtain ⟨w, hw⟩ := Option.isSome_iff_exists.mp this
          have hvw : v = w := hv w hw
          rw [hw, hvw]; rfl
        · rw [lookupLast_cons_ne _ _ _ _ hkn, ihn]
          have : (n ∈ k :: ks) ↔ n ∈ ks := by
            simp only [List.mem_cons]; constructor
            · rintro (h | h); exact absurd h.symm hkn; exact h
            · exact Or.inr
          simp only [this]
      | false =>
        simp only [fixedPairs]
        rw [ihn]
        by_cases hkn : k = n
        · subst hkn
          have hnone : f k = none := by
            cases hf : f k with
            | none => rfl
            | some w => simp [hf] at hb
          simp [hk, hnone]
        · have : (n ∈ k :: ks) ↔ n ∈ ks := by
            simp only [List.mem_cons]; constructor
            · rintro (h | h); exact absurd h.symm hkn; exact h
            · exact Or.inr
          simp only [this]

/-- one change of the parameter list: afterwards the hidden state describes the old fixed name-value pairs
    restricted to the names that were parameters — if the list did not change nothing happens, if its length
    changed the remembered pairs are fixed again on the new list -/
theorem boundary_good (g : α) (f : String → Option α) (namesOld namesNew : List String) (st : St α)
    (hnd : namesOld.Nodup) (hok : namesNew = namesOld ∨ namesNew.length ≠ namesOld.length)
    (h : AllGood f namesOld (view namesOld g st)) :
    AllGood (keep f namesOld) namesNew (view namesNew g (resize g namesOld namesNew st)) := by
  rcases hok with heq | hlen
  · subst heq
    unfold resize
    rw [if_pos rfl]
    exact allGood_congr f _ namesNew _ (fun n hn => by simp [keep, hn]) h
  unfold resize
  rw [if_neg hlen]
  cases st with
  | none =>
    have hfree : ∀ n ∈ namesOld, f n = none := by
      intro n hn
      have hz := lookupLast_fixedPairs f namesOld _ hnd h n
      simp only [view] at hz
      have hp : fixedPairs namesOld (namesOld.map (fun _ => (false, g))) = ([] : Req α) :=
        fixedPairs_allFree g namesOld
      rw [hp, lookupLast_nil, if_pos hn] at hz
      cases hf : f n with
      | none => rfl
      | some w => simp [hf] at hz
    have : keep f namesOld = fun _ => none := by
      funext n; unfold keep; by_cases hn : n ∈ namesOld <;> simp [hn, hfree]
    rw [this]
    exact allGood_init g namesNew
  | some c =>
    have hstep := step_good namesNew g none (fun _ => none) (fixedPairs namesOld c) (allGood_init g namesNew)
    have hnet : netStep (fun _ => none) (fixedPairs namesOld c) = keep f namesOld := by
      funext n
      simp only [netStep]
      rw [lookupLast_fixedPairs f namesOld c hnd (by simpa [view] using h) n]
      unfold keep
      by_cases hn : n ∈ namesOld
      · simp only [hn, if_true]; cases f n <;> rfl
      · simp [hn]
    rw [hnet] at hstep
    exact hstep

end Seg

/-- the lives the theorem speaks about: parameter names are distinct, and a change of the parameter list
    changes its length (chi: a different number of individuals of a heterogeneous block) or nothing -/
def SegsOK : List String → List (Seg α) → Prop
  | _, [] => True
  | prev, s :: ss => s.1.Nodup ∧ (s.1 = prev ∨ s.1.length ≠ prev.length) ∧ SegsOK s.1 ss

/-- C08 over a life in which the number of modelled individuals changes (`set_n_ids`, a hierarchical
    likelihood built over the model, the controller receiving the model): after ANY number of stretches of fix /
    re-fix / release calls, separated by ANY changes of the parameter list, the hidden state describes —
    position by position of the CURRENT list — exactly the net dictionary of the life. -/
theorem C08_resized_history (g : α) (first : Seg α) (rest : List (Seg α))
    (hnd : first.1.Nodup) (hok : SegsOK first.1 rest) :
    (runSegs g first rest).1 = (netSegs first rest).1 ∧
    AllGood (netSegs first rest).2 (runSegs g first rest).1
      (view (runSegs g first rest).1 g (runSegs g first rest).2) := by
  suffices H : ∀ (rest : List (Seg α)) (acc : List String × St α) (accf : List String × (String → Option α)),
      acc.1 = accf.1 → acc.1.Nodup → SegsOK acc.1 rest → AllGood accf.2 acc.1 (view acc.1 g acc.2) →
      (rest.foldl (segStep g) acc).1 = (rest.foldl netSegStep accf).1 ∧
      AllGood (rest.foldl netSegStep accf).2 (rest.foldl (segStep g) acc).1
        (view (rest.foldl (segStep g) acc).1 g (rest.foldl (segStep g) acc).2) from
    H rest _ _ rfl hnd hok (C08_history_independent first.1 g first.2)
  intro rest
  induction rest with
  | nil => intro acc accf he _ _ h; exact ⟨he, h⟩
  | cons s ss ih =>
    intro acc accf he hnd hok h
    obtain ⟨hs, hb, hrest⟩ := hok
    simp only [List.foldl_cons]
    refine ih (segStep g acc s) (netSegStep accf s) rfl hs hrest ?_
    show AllGood (s.2.foldl netStep (keep accf.2 accf.1)) s.1
      (view s.1 g (s.2.foldl (fixStep s.1 g) (resize g acc.1 s.1 acc.2)))
    rw [← he]
    exact Seg.fold_good s.1 g s.2 _ _ (Seg.boundary_good g accf.2 acc.1 s.1 acc.2 hnd hb h)

/-- … hence exact substitution, restricted sensitivities, names and counts after such a life -/
theorem C08_resized_observables {β γ : Type} (g : α) (first : Seg α) (rest : List (Seg α))
    (hnd : first.1.Nodup) (hok : SegsOK first.1 rest) (F : List α → β) (free : List α) (grad : List γ) :
    let names := (runSegs g first rest).1
    let st := (runSegs g first rest).2
    let f := (netSegs first rest).2
    evalReduced names g st F free = F (substitute f names free) ∧
    restrict (view names g st) grad = restrictSpec f names grad ∧
    restrict (view names g st) names = freeNames f names ∧
    nFree (view names g st) = (freeNames f names).length ∧
    nFixed (view names g st) + nFree (view names g st) = names.length := by
  have h := (C08_resized_history g first rest hnd hok).2
  refine ⟨?_, restrict_eq_spec _ _ _ grad h, ?_, nFree_eq _ _ _ h⟩
  · unfold evalReduced
    rw [fill_eq_substitute _ _ _ free h]
  · rw [restrict_eq_spec _ _ _ _ h]
    exact restrictSpec_self _ _

/-- the seeded slip C08-12: the names of the NEW list are zipped with the OLD mask / values.  Witness: a
    Gaussian, a heterogeneous and a pooled dimension, the pooled parameter fixed, 3 → 2 individuals: the
    positional pairing forgets the fixed parameter, the by-name carry-over keeps it. -/
def resizeZipNew (garbage : α) (namesOld namesNew : List String) (st : St α) : St α :=
  if namesNew.length = namesOld.length then st
  else match st with
    | none => none
    | some c => fixStep namesNew garbage none (fixedPairs namesNew c)

theorem C08_resize_positional_counterexample :
    let old := ["Mean a", "Std. a", "ID 1 b", "ID 2 b", "ID 3 b", "Pooled c"]
    let new := ["Mean a", "Std. a", "ID 1 b", "ID 2 b", "Pooled c"]
    let st : St Nat := run old 0 [[("Pooled c", some 4)]]
    restrict (view new 0 (resize 0 old new st)) new = ["Mean a", "Std. a", "ID 1 b", "ID 2 b"] ∧
    restrict (view new 0 (resizeZipNew 0 old new st)) new = new := by
  decide

example : (runSegs (0 : Nat) (["m", "ID 1", "ID 2", "p"], [[("p", some 4), ("ID 2", some 7)]])
      [(["m", "ID 1", "p"], [[("m", some 1)], [("m", none)]]), (["m", "ID 1", "ID 2", "ID 3", "p"], [])]).2
    = some [(false, 0), (false, 0), (false, 0), (false, 0), (true, 4)] := by decide


end ChiModel.Reduced

namespace ChiModel.Reduced.Sim

theorem pkpdEnable_protocol (m m' : Model) (e : Bool) (r : Option (List String))
    (h : pkpdEnable m e r = some m') (hp : m.sim.protocol = true) : m'.sim.protocol = true := by
  unfold pkpdEnable at h
  simp only [Option.map_eq_some_iff] at h
  obtain ⟨a, ha, rfl⟩ := h
  cases e <;> cases hh : m.has
  · simp [sbmlEnable, hh] at ha
    subst ha
    simpa [hh] using hp
  · simp
  · simp
  · simp

theorem redEnable_protocol (m m' : Model) (e : Bool) (h : redEnable m e = some m')
    (hp : m.sim.protocol = true) : m'.sim.protocol = true := by
  unfold redEnable at h
  simp only at h
  split at h
  · exact pkpdEnable_protocol _ _ _ _ h hp
  · split at h
    · simp only [Option.map_eq_some_iff] at h
      obtain ⟨a, ha, rfl⟩ := h
      exact pkpdEnable_protocol _ a _ _ ha hp
    · exact pkpdEnable_protocol _ _ _ _ h hp

theorem step_protocol (m m' : Model) (o : Op) (h : step m o = some m')
    (hp : m.sim.protocol = true) : m'.sim.protocol = true := by
  cases o with
  | enable b => exact redEnable_protocol _ _ _ h hp
  | fix fl =>
    simp only [step, redFix] at h
    split at h
    · exact redEnable_protocol _ _ _ h hp
    · cases h; exact hp

/-- whatever the history of enable / disable / fix / re-fix / release calls: the simulator in use carries the
    dosing protocol of the model -/
theorem C08_sim_protocol_kept (ops : List Op) : ∀ (m : Model), m.sim.protocol = true →
    (life m ops).sim.protocol = true := by
  induction ops with
  | nil => intro m hp; exact hp
  | cons o os ih =>
    intro m hp
    simp only [life]
    apply ih
    cases hs : step m o with
    | none => exact hp
    | some m' => exact step_protocol _ _ _ hs hp

theorem inj_of_nodup_pub : ∀ (pars : List Par), (pars.map (·.pub)).Nodup → ∀ q p, q ∈ pars → p ∈ pars →
    q.pub = p.pub → q = p := by
  intro pars
  induction pars with
  | nil => intro _ q p hq; cases hq
  | cons a as ih =>
    intro hnd q p hq hp hpub
    simp only [List.map_cons, List.nodup_cons, List.mem_map, not_exists, not_and] at hnd
    rcases List.mem_cons.mp hq with rfl | hq' <;> rcases List.mem_cons.mp hp with rfl | hp'
    · rfl
    · exact absurd hpub.symm (hnd.1 p hp')
    · exact absurd hpub (hnd.1 q hq')
    · exact ih hnd.2 q p hq' hp' hpub

/-- requested by public name, reported by internal name: with distinct public names the sensitivity columns
    are exactly the free parameters, in the original order — whatever the user-defined names are -/
theorem C08_sens_columns_are_free (pars : List Par) (hnd : (pars.map (·.pub)).Nodup) :
    select pars (freePub pars) = freeInternal pars := by
  unfold select freeInternal
  congr 1
  apply List.filter_congr
  intro p hp
  by_cases hf : p.fixed = true
  · have : ¬ p.pub ∈ freePub pars := by
      intro hmem
      simp only [freePub, List.mem_map, List.mem_filter] at hmem
      obtain ⟨q, ⟨hq, hqf⟩, hpub⟩ := hmem
      have := inj_of_nodup_pub pars hnd q p hq hp hpub
      subst this
      simp [hf] at hqf
    simp [hf, this]
  · have : p.pub ∈ freePub pars := by
      simp only [freePub, List.mem_map, List.mem_filter]
      exact ⟨p, ⟨hp, by simpa using hf⟩, rfl⟩
    simp [hf, this]

theorem C08_sens_columns_count (pars : List Par) (hnd : (pars.map (·.pub)).Nodup) :
    (select pars (freePub pars)).length = pars.countP (fun p => !p.fixed) := by
  rw [C08_sens_columns_are_free pars hnd, freeInternal, List.length_map, List.countP_eq_length_filter]

/-- the seeded slips, as models: (C08-15) the protocol is set again only when the sensitivities are switched
    on or off; (C08-16) the request is matched against the INTERNAL names -/
def pkpdEnableOnSwitch (m : Model) (enabled : Bool) (req : Option (List String)) : Option Model :=
  let newSim := enabled != m.has
  (sbmlEnable m enabled req).map fun m' =>
    if newSim then { m' with sim := { m'.sim with protocol := true } } else m'

def selectInternal (pars : List Par) (req : List String) : List String :=
  (pars.filter (fun p => req.contains p.internal)).map (·.internal)

theorem C08_sim_slips_counterexample :
    let pars := [Par.mk false "central.drug_amount" "central.drug_amount", Par.mk true "central.size" "Volume",
                 Par.mk false "global.elimination_rate" "k_e"]
    let m : Model := ⟨pars, ⟨some ["central.drug_amount"], true⟩, true, false⟩
    ((pkpdEnableOnSwitch m true (some (freePub pars))).map (·.sim.protocol)) = some false ∧
    ((pkpdEnable m true (some (freePub pars))).map (·.sim.protocol)) = some true ∧
    selectInternal pars (freePub pars) = ["central.drug_amount"] ∧
    select pars (freePub pars) = ["central.drug_amount", "global.elimination_rate"] := by
  decide

end ChiModel.Reduced.Sim
