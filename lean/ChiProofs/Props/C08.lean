import ChiModel.Reduced
set_option linter.unusedSectionVars false
namespace ChiModel.Reduced
variable {α : Type}

/-- a cell agrees with the net dictionary at name `n` -/
def Good (f : String → Option α) (n : String) (x : Bool × α) : Prop :=
  x.1 = (f n).isSome ∧ ∀ w, f n = some w → x.2 = w

def AllGood (f : String → Option α) : List String → List (Bool × α) → Prop
  | [], [] => True
  | n :: ns, x :: xs => Good f n x ∧ AllGood f ns xs
  | _, _ => False

theorem good_upd (g : α) (f : String → Option α) (d : Req α) (n : String) (x : Bool × α)
    (h : Good f n x) : Good (netStep f d) n (upd g d n x) := by
  unfold Good netStep upd
  cases hl : lookupLast d n with
  | none => simp only [hl]; exact h
  | some r =>
    cases r with
    | none => simp
    | some v => simp

theorem allGood_zipWith (g : α) (f) (d : Req α) :
    ∀ (names : List String) (c : List (Bool × α)), AllGood f names c →
      AllGood (netStep f d) names (List.zipWith (upd g d) names c)
  | [], [], _ => trivial
  | n :: ns, x :: xs, h => ⟨good_upd g f d n x h.1, allGood_zipWith g f d ns xs h.2⟩
  | [], _ :: _, h => h.elim
  | _ :: _, [], h => h.elim

theorem allGood_of_all_false (g : α) (f : String → Option α) :
    ∀ (names : List String) (c : List (Bool × α)), AllGood f names c →
      c.all (fun x => !x.1) = true → AllGood f names (names.map (fun _ => (false, g)))
  | [], [], _, _ => trivial
  | n :: ns, x :: xs, h, ha => by
    simp only [List.all_cons, Bool.and_eq_true, Bool.not_eq_true'] at ha
    refine ⟨⟨?_, ?_⟩, allGood_of_all_false g f ns xs h.2 ha.2⟩
    · rw [← h.1.1, ha.1]
    · intro w hw
      have := h.1.1
      rw [ha.1, hw] at this
      simp at this
  | [], _ :: _, h, _ => h.elim
  | _ :: _, [], h, _ => h.elim

theorem allGood_init (g : α) : ∀ names : List String,
    AllGood (fun _ => (none : Option α)) names (names.map (fun _ => (false, g)))
  | [] => trivial
  | _ :: ns => ⟨⟨rfl, by intro w hw; cases hw⟩, allGood_init g ns⟩

theorem step_good (names : List String) (g : α) (st : St α) (f) (d : Req α)
    (h : AllGood f names (view names g st)) :
    AllGood (netStep f d) names (view names g (fixStep names g st d)) := by
  have hz := allGood_zipWith g f d names _ h
  unfold fixStep
  simp only
  split
  · rename_i hall
    exact allGood_of_all_false g _ names _ hz hall
  · exact hz

/-- C08 (history independence of the hidden state): after ANY sequence of fix / re-fix / release
    calls, position by position, the mask says "fixed" exactly when the net dictionary binds the
    name, and the buffer then holds the net value. Duplicate names are fixed together. -/
theorem C08_history_independent (names : List String) (g : α) (ops : List (Req α)) :
    AllGood (net ops) names (view names g (run names g ops)) := by
  suffices H : ∀ (ops : List (Req α)) (st : St α) (f : String → Option α),
      AllGood f names (view names g st) →
      AllGood (ops.foldl netStep f) names (view names g (ops.foldl (fixStep names g) st)) from
    H ops none _ (allGood_init g names)
  intro ops
  induction ops with
  | nil => intro st f h; simpa using h
  | cons d ds ih => intro st f h; exact ih _ _ (step_good names g st f d h)

/-! ## what the wrapped object sees depends on the net dictionary only -/

theorem fill_eq_substitute (f : String → Option α) :
    ∀ (names : List String) (c : List (Bool × α)) (free : List α), AllGood f names c →
      fill c free = substitute f names free
  | [], [], _, _ => by simp [fill, substitute]
  | n :: ns, (b, v) :: cs, free, h => by
    obtain ⟨⟨hb, hv⟩, hrest⟩ := h
    cases hf : f n with
    | none =>
      have : b = false := by simpa [hf] using hb
      subst this
      cases free with
      | nil => simp [fill, substitute, hf]
      | cons x free => simp [fill, substitute, hf, fill_eq_substitute f ns cs free hrest]
    | some w =>
      have : b = true := by simpa [hf] using hb
      subst this
      have hvw : v = w := hv w hf
      simp [fill, substitute, hf, hvw, fill_eq_substitute f ns cs free hrest]
  | [], _ :: _, _, h => h.elim
  | _ :: _, [], _, h => h.elim

theorem restrict_eq_spec {β : Type} (f : String → Option α) :
    ∀ (names : List String) (c : List (Bool × α)) (gs : List β), AllGood f names c →
      restrict c gs = restrictSpec f names gs
  | [], [], _, _ => by simp [restrict, restrictSpec]
  | n :: ns, (b, v) :: cs, [], _ => by simp [restrict, restrictSpec]
  | n :: ns, (b, v) :: cs, g :: gs, h => by
    obtain ⟨⟨hb, _⟩, hrest⟩ := h
    cases hf : f n with
    | none =>
      have : b = false := by simpa [hf] using hb
      subst this
      simp [restrict, restrictSpec, hf, restrict_eq_spec f ns cs gs hrest]
    | some w =>
      have : b = true := by simpa [hf] using hb
      subst this
      simp [restrict, restrictSpec, hf, restrict_eq_spec f ns cs gs hrest]
  | [], _ :: _, _, h => h.elim
  | _ :: _, [], _, h => h.elim

/-- C08 (exact substitution): evaluating the reduced object — value, pointwise values, samples:
    any function `F` of the full parameter vector — at the free parameters equals evaluating the
    unfixed object at the full vector with the net values substituted. -/
theorem C08_eval_substitution {β : Type} (names : List String) (g : α) (ops : List (Req α))
    (F : List α → β) (free : List α) :
    evalReduced names g (run names g ops) F free = F (substitute (net ops) names free) := by
  unfold evalReduced
  rw [fill_eq_substitute (net ops) names _ free (C08_history_independent names g ops)]

/-- C08 (restricted sensitivities): the returned gradient is the unfixed object's gradient at the
    substituted vector, restricted to the free positions, in the original order. -/
theorem C08_grad_restriction {β : Type} (names : List String) (g : α) (ops : List (Req α))
    (grad : List β) :
    restrict (view names g (run names g ops)) grad = restrictSpec (net ops) names grad :=
  restrict_eq_spec (net ops) names _ grad (C08_history_independent names g ops)

theorem restrictSpec_self (f : String → Option α) :
    ∀ ns : List String, restrictSpec f ns ns = ns.filter (fun n => (f n).isNone)
  | [] => by simp [restrictSpec]
  | n :: ns => by
    simp only [restrictSpec, List.filter_cons, restrictSpec_self f ns]

/-- C08 (names): the reported names are exactly the free parameters in their original order. -/
theorem C08_names (names : List String) (g : α) (ops : List (Req α)) :
    restrict (view names g (run names g ops)) names = freeNames (net ops) names := by
  rw [C08_grad_restriction]
  exact restrictSpec_self _ names

theorem nFree_eq (f : String → Option α) :
    ∀ (names : List String) (c : List (Bool × α)), AllGood f names c →
      nFree c = (freeNames f names).length ∧ nFixed c + nFree c = names.length
  | [], [], _ => by simp [nFree, nFixed, freeNames]
  | n :: ns, (b, v) :: cs, h => by
    obtain ⟨⟨hb, _⟩, hrest⟩ := h
    have ih := nFree_eq f ns cs hrest
    unfold nFree nFixed freeNames at *
    cases hf : f n with
    | none =>
      have : b = false := by simpa [hf] using hb
      subst this
      simp [List.countP_cons, List.filter_cons, hf] at ih ⊢
      omega
    | some w =>
      have : b = true := by simpa [hf] using hb
      subst this
      simp [List.countP_cons, List.filter_cons, hf] at ih ⊢
      omega
  | [], _ :: _, h => h.elim
  | _ :: _, [], h => h.elim

/-- C08 (counts): `n_parameters()` is the number of free names, and fixed + free = all. -/
theorem C08_counts (names : List String) (g : α) (ops : List (Req α)) :
    nFree (view names g (run names g ops)) = (freeNames (net ops) names).length ∧
    nFixed (view names g (run names g ops)) + nFree (view names g (run names g ops))
      = names.length :=
  nFree_eq _ names _ (C08_history_independent names g ops)

/-- C08 (order independence): two histories with the same net name-value pairs are
    indistinguishable: same full vector for every free vector (hence same values, pointwise
    values, samples), same restricted gradient, same names. -/
theorem C08_order_independent {β : Type} (names : List String) (g g' : α)
    (ops ops' : List (Req α)) (h : ∀ n ∈ names, net ops n = net ops' n)
    (free : List α) (grad : List β) :
    fill (view names g (run names g ops)) free = fill (view names g' (run names g' ops')) free ∧
    restrict (view names g (run names g ops)) grad
      = restrict (view names g' (run names g' ops')) grad := by
  rw [fill_eq_substitute _ names _ free (C08_history_independent names g ops),
    fill_eq_substitute _ names _ free (C08_history_independent names g' ops'),
    C08_grad_restriction, C08_grad_restriction]
  constructor
  · clear grad
    induction names generalizing free with
    | nil => simp [substitute]
    | cons n ns ih =>
      have hn := h n List.mem_cons_self
      have ih' := fun free => ih (fun m hm => h m (List.mem_cons_of_mem _ hm)) free
      unfold substitute
      rw [hn]
      cases net ops' n with
      | none => cases free with
        | nil => rfl
        | cons x fr => simp [ih']
      | some w => simp [ih']
  · clear free
    induction names generalizing grad with
    | nil => simp [restrictSpec]
    | cons n ns ih =>
      have hn := h n List.mem_cons_self
      cases grad with
      | nil => simp [restrictSpec]
      | cons x gs =>
        simp only [restrictSpec, hn, ih (fun m hm => h m (List.mem_cons_of_mem _ hm)) gs]

theorem substitute_none (names : List String) (free : List α)
    (hlen : free.length = names.length) (f : String → Option α) (h : ∀ n ∈ names, f n = none) :
    substitute f names free = free := by
  induction names generalizing free with
  | nil => cases free with
    | nil => rfl
    | cons _ _ => simp at hlen
  | cons n ns ih =>
    cases free with
    | nil => simp at hlen
    | cons x fr =>
      simp only [substitute, h n List.mem_cons_self]
      rw [ih fr (by simpa using hlen) (fun m hm => h m (List.mem_cons_of_mem _ hm))]

/-- C08 (release restores): once every name has been released (net dictionary empty on the
    object's names) — after whatever happened before — the object evaluates exactly like the
    unfixed one; uninitialised buffer contents (`g`) never reach the wrapped object. -/
theorem C08_release_restores {β : Type} (names : List String) (g : α) (ops : List (Req α))
    (h : ∀ n ∈ names, net ops n = none) (F : List α → β) (free : List α)
    (hlen : free.length = names.length) :
    evalReduced names g (run names g ops) F free = F free := by
  rw [C08_eval_substitution, substitute_none names free hlen _ h]

/-- uninitialised / stale buffer cells are never read: the filled vector is the same for any
    two garbage values -/
theorem C08_buffer_garbage_irrelevant (names : List String) (g g' : α) (ops : List (Req α))
    (free : List α) :
    fill (view names g (run names g ops)) free = fill (view names g' (run names g' ops)) free :=
  (C08_order_independent (β := Unit) names g g' ops ops (fun _ _ => rfl) free []).1

/-! ## composites (`LogLikelihood`, `PredictiveModel`, the controller): one request is handed to
every sub-model, the free vector is split by the sub-models' free counts -/

theorem fill_append (c1 c2 : List (Bool × α)) (free : List α) (h : nFree c1 ≤ free.length) :
    fill (c1 ++ c2) free = fill c1 (free.take (nFree c1)) ++ fill c2 (free.drop (nFree c1)) := by
  induction c1 generalizing free with
  | nil => simp [fill, nFree]
  | cons x cs ih =>
    obtain ⟨b, v⟩ := x
    cases b with
    | true =>
      have : nFree ((true, v) :: cs) = nFree cs := by simp [nFree]
      rw [this] at h ⊢
      simp [fill, ih free h]
    | false =>
      have hn : nFree ((false, v) :: cs) = nFree cs + 1 := by simp [nFree]
      rw [hn] at h ⊢
      cases free with
      | nil => simp at h
      | cons y fr =>
        have h' : nFree cs ≤ fr.length := by simpa using h
        simp [fill, ih fr h']

theorem allGood_append (f : String → Option α) :
    ∀ (n1 n2 : List String) (c1 c2 : List (Bool × α)), AllGood f n1 c1 → AllGood f n2 c2 →
      AllGood f (n1 ++ n2) (c1 ++ c2)
  | [], _, [], _, _, h2 => by simpa using h2
  | n :: ns, n2, x :: xs, c2, h1, h2 => ⟨h1.1, allGood_append f ns n2 xs c2 h1.2 h2⟩
  | [], _, _ :: _, _, h1, _ => h1.elim
  | _ :: _, _, [], _, h1, _ => h1.elim

/-- C08 (composite objects): a likelihood / predictive model that forwards the request to its
    mechanistic and error sub-models and slices the free vector by their free counts behaves as
    ONE reduced object over the concatenated name list. -/
theorem C08_composite (n1 n2 : List String) (g : α) (ops : List (Req α)) (free : List α)
    (h : nFree (view n1 g (run n1 g ops)) ≤ free.length) :
    fill (view n1 g (run n1 g ops)) (free.take (nFree (view n1 g (run n1 g ops))))
      ++ fill (view n2 g (run n2 g ops)) (free.drop (nFree (view n1 g (run n1 g ops))))
      = substitute (net ops) (n1 ++ n2) free := by
  rw [← fill_append _ _ _ h]
  exact fill_eq_substitute _ _ _ _ (allGood_append _ n1 n2 _ _
    (C08_history_independent n1 g ops) (C08_history_independent n2 g ops))

/-- non-vacuity / sanity: fix `a`, re-fix it, release it, fix `b` -/
example : fill (view ["a", "b", "c"] (0:Nat)
      (run ["a", "b", "c"] 0 [[("a", some 5)], [("a", some 7), ("c", some 9)], [("a", none)], [("b", some 1)]]))
      [10] = [10, 1, 9] := by decide

end ChiModel.Reduced
