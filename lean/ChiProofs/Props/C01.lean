import ChiModel.LogLik
import ChiModel.LogLikReduced
import ChiProofs.Props.C04
import Mathlib.Data.List.Sort
import Mathlib.Order.Basic

/-!
# C01 — individual log-likelihood sums each observation's density exactly once
-/
set_option linter.unusedSectionVars false
set_option linter.unusedSimpArgs false
namespace ChiModel
open ScalarFns
variable {α : Type} [Add α] [Sub α] [Mul α] [Div α] [Neg α] [ScalarFns α]
variable {τ : Type} [LinearOrder τ]

abbrev ltB : τ → τ → Bool := fun a b => decide (a < b)

/-! ## the union grid is strictly sorted and contains exactly the measurement times -/

theorem mem_insertSorted (x t : τ) (l : List τ) :
    t ∈ insertSorted ltB x l ↔ t = x ∨ t ∈ l := by
  induction l with
  | nil => simp [insertSorted]
  | cons y ys ih =>
    unfold insertSorted
    split
    · rename_i h; subst h; simp
    · split
      · simp
      · simp only [List.mem_cons, ih]; tauto

theorem sorted_insertSorted (x : τ) (l : List τ) (h : l.Pairwise (· < ·)) :
    (insertSorted ltB x l).Pairwise (· < ·) := by
  induction l with
  | nil => simp [insertSorted]
  | cons y ys ih =>
    unfold insertSorted
    rw [List.pairwise_cons] at h
    split
    · exact List.pairwise_cons.mpr h
    · rename_i hne
      split
      · rename_i hlt
        have hlt' : x < y := by simpa [ltB] using hlt
        refine List.pairwise_cons.mpr ⟨?_, List.pairwise_cons.mpr h⟩
        intro a ha
        rcases List.mem_cons.mp ha with rfl | ha
        · exact hlt'
        · exact lt_trans hlt' (h.1 a ha)
      · rename_i hnlt
        have hyx : y < x := by
          have : ¬ x < y := by simpa [ltB] using hnlt
          exact lt_of_le_of_ne (not_lt.mp this) (Ne.symm hne)
        refine List.pairwise_cons.mpr ⟨?_, ih h.2⟩
        intro a ha
        rcases (mem_insertSorted x a ys).mp ha with rfl | ha
        · exact hyx
        · exact h.1 a ha

theorem unionGrid_aux (ts : List τ) : ∀ (acc : List τ), acc.Pairwise (· < ·) →
    (ts.foldl (fun acc t => insertSorted ltB t acc) acc).Pairwise (· < ·) ∧
    ∀ t, t ∈ ts.foldl (fun acc t => insertSorted ltB t acc) acc ↔ t ∈ ts ∨ t ∈ acc := by
  induction ts with
  | nil => intro acc h; simp [h]
  | cons x xs ih =>
    intro acc h
    have := ih (insertSorted ltB x acc) (sorted_insertSorted x acc h)
    refine ⟨this.1, fun t => ?_⟩
    rw [List.foldl_cons, this.2 t, mem_insertSorted]
    simp only [List.mem_cons]; tauto

theorem unionGrid_sorted (times : List (List τ)) : (unionGrid ltB times).Pairwise (· < ·) :=
  (unionGrid_aux _ [] List.Pairwise.nil).1

theorem mem_unionGrid (times : List (List τ)) (t : τ) :
    t ∈ unionGrid ltB times ↔ ∃ ts ∈ times, t ∈ ts := by
  unfold unionGrid
  rw [(unionGrid_aux _ [] List.Pairwise.nil).2 t]
  simp [List.mem_flatten]

/-! ## Boolean-mask selection returns the output's own predictions iff its times are strict -/

theorem C01_pick_eq (times : List (List τ)) (ts : List τ) (hts : ts ∈ times)
    (hs : ts.Pairwise (· < ·)) (pred : τ → α) :
    pickMask (unionGrid ltB times) ts pred = ts.map pred := by
  unfold pickMask
  congr 1
  have hsub : ((unionGrid ltB times).filter (fun t => ts.contains t)).Pairwise (· < ·) :=
    (unionGrid_sorted times).sublist List.filter_sublist
  refine List.Pairwise.eq_of_mem_iff hsub hs ?_
  intro a
  simp only [List.mem_filter, List.contains_iff_mem, mem_unionGrid]
  exact ⟨fun h => h.2, fun h => ⟨⟨ts, hts, h⟩, h⟩⟩

/-! ## main theorems -/

/-- data as the constructor leaves it: equal lengths; `Strict` adds strictly increasing times -/
def WellShaped (data : List (OutData τ α)) : Prop := ∀ d ∈ data, d.times.length = d.obs.length
def Strict (data : List (OutData τ α)) : Prop := ∀ d ∈ data, d.times.Pairwise (· < ·)

theorem go_eq (legacy : Bool) (ems : List EM) (f : Nat → τ → α) (sig : List α) (u : List τ)
    (hpick : ∀ (o : Nat) (d : OutData τ α), d ∈ rest →
      (if legacy then pickMask u d.times (f o) else pickIdx u d.times (f o)) = d.times.map (f o))
    (hshape : ∀ d ∈ rest, d.times.length = d.obs.length) (o : Nat) (acc : Score α) :
    llCall.go legacy ems f sig u o rest acc = .ok (llSpec.go ems f sig o rest acc) := by
  induction rest generalizing o acc with
  | nil => simp [llCall.go, llSpec.go]
  | cons d ds ih =>
    unfold llCall.go llSpec.go
    have hp := hpick o d (List.mem_cons_self)
    simp only [hp, List.length_map, hshape d List.mem_cons_self, ne_eq, not_true_eq_false,
      if_false]
    exact ih (fun o d hd => hpick o d (List.mem_cons_of_mem _ hd))
      (fun d hd => hshape d (List.mem_cons_of_mem _ hd)) (o + 1) _

/-- C01 for the code as it is: with strictly increasing times per output, the evaluated
    score is the sum over all measurements of the error model's log-density at the
    prediction for the same output and time — for every number of outputs, every
    assignment of error models, every arrangement of the grids. -/
theorem C01_call_eq_spec_partial (ems : List EM) (f : Nat → τ → α) (data : List (OutData τ α))
    (sig : List α) (hshape : WellShaped data) (hstrict : Strict data) :
    llCall true ltB ems f data sig = .ok (llSpec ems f data sig) := by
  unfold llCall llSpec
  refine go_eq true ems f sig _ ?_ hshape 0 _
  intro o d hd
  simp only [if_true]
  exact C01_pick_eq _ d.times (List.mem_map.mpr ⟨d, hd, rfl⟩) (hstrict d hd) (f o)

/-- C01 in full for the intended selection (positions instead of a mask): no condition on ties. -/
theorem C01_call_eq_spec (ems : List EM) (f : Nat → τ → α) (data : List (OutData τ α))
    (sig : List α) (hshape : WellShaped data) :
    llCall false ltB ems f data sig = .ok (llSpec ems f data sig) := by
  unfold llCall llSpec
  refine go_eq false ems f sig _ ?_ hshape 0 _
  intro o d _
  simp [pickIdx]

/-- the unchanged code on a repeated time point: accepted by the constructor's checks
    (non-decreasing, equal lengths), not evaluable. -/
theorem C01_ties_counterexample (f : Nat → Nat → α) (a b c : α) (sig : List α) :
    llCall true (ltB (τ := Nat)) [EM.gauss] f [⟨[1, 1, 2], [a, b, c]⟩] sig
      = .error .lengthMismatch := by
  simp [llCall, llCall.go, unionGrid, insertSorted, pickMask]

section generic
variable {α : Type} [Add α] [Sub α] [Mul α] [Div α] [Neg α] [ScalarFns α]

theorem adjacentOk_of_accepts (n : Nat) (ems : List EM) (data : List (OutData τ α))
    (h : constructorAccepts (ltB (τ := τ)) n ems data = .ok ()) : WellShaped data := by
  unfold constructorAccepts at h
  split at h
  · cases h
  · split at h
    · cases h
    · split at h
      · cases h
      · rename_i h3
        intro d hd
        by_contra hne
        exact h3 (List.any_eq_true.mpr ⟨d, hd, by simpa using hne⟩)

/-- "An object that was constructed without error can be evaluated" (repaired selection):
    whatever the constructor accepts — ties included — evaluates to the specified sum. -/
theorem C01_constructed_evaluable (n : Nat) (ems : List EM) (f : Nat → τ → α)
    (data : List (OutData τ α)) (sig : List α)
    (h : constructorAccepts (ltB (τ := τ)) n ems data = .ok ()) :
    llCall false ltB ems f data sig = .ok (llSpec ems f data sig) :=
  C01_call_eq_spec ems f data sig (adjacentOk_of_accepts n ems data h)

theorem llPointwise_go_length (ems : List EM) (f : Nat → τ → α) (sig : List α)
    (rest : List (OutData τ α)) (o : Nat) :
    (llPointwise.go ems f sig o rest).length = (rest.map (·.obs.length)).sum := by
  induction rest generalizing o with
  | nil => simp [llPointwise.go]
  | cons d ds ih =>
    unfold llPointwise.go
    simp only [List.length_append, ih, List.map_cons, List.sum_cons]
    congr 1
    split <;> simp

/-- the pointwise vector has one entry per measurement -/
theorem C01_pointwise_length (ems : List EM) (f : Nat → τ → α) (data : List (OutData τ α))
    (sig : List α) : (llPointwise ems f data sig).length = nObservations data := by
  unfold llPointwise nObservations
  exact llPointwise_go_length ems f sig data 0

end generic

/-! ### error-parameter slices: consecutive, disjoint, covering -/

theorem slices_cover {β : Type} (ws : List Nat) : ∀ (sig : List β), sig.length = ws.sum →
    (List.range ws.length).flatMap (fun i => (sig.drop (ws.take i).sum).take (ws.getD i 0)) = sig := by
  induction ws with
  | nil => intro sig h; simp at h; simp [h]
  | cons w ws ih =>
    intro sig h
    rw [List.length_cons, List.range_succ_eq_map, List.flatMap_cons, List.flatMap_map]
    simp only [List.take_zero, List.sum_nil, List.drop_zero, List.getD_cons_zero,
      List.take_succ_cons, List.sum_cons, List.getD_cons_succ]
    have h2 : (sig.drop w).length = ws.sum := by
      simp only [List.length_drop, h, List.sum_cons]; omega
    have := ih (sig.drop w) h2
    simp only [List.drop_drop] at this
    conv_rhs => rw [← List.take_append_drop w sig]
    congr 1

/-- output `o` receives exactly its own error parameters: the slices taken in output order
    concatenate to the error-parameter vector -/
theorem C01_slices_partition {β : Type} [Add β] [Sub β] [Mul β] [Div β] [Neg β] [ScalarFns β]
    (ems : List EM) (sig : List β) (h : sig.length = (ems.map EM.nParams).sum) :
    (List.range ems.length).flatMap (sliceFor ems sig) = sig := by
  have := slices_cover (ems.map EM.nParams) sig h
  rw [List.length_map] at this
  conv_rhs => rw [← this]
  apply List.flatMap_congr
  intro o ho
  have ho' : o < ems.length := List.mem_range.mp ho
  unfold sliceFor
  simp only [List.map_take, List.getD_eq_getElem?_getD, List.getElem?_map]
  simp [List.getElem?_eq_getElem ho']

/-! ### the specified value is the sum over all measurements of the documented log-density -/

theorem emLL_val_eq_sum (k : EM) (sg : List ℝ) (n : Nat) (yb ob : Nat → ℝ) (v : ℝ)
    (h : emLL k sg n yb ob = .val v) : v = isum n (emPW k sg yb ob) := by
  unfold emLL at h
  unfold emPW
  cases k <;> simp only at h ⊢
  · unfold gaussLL at h; split at h
    · cases h
    · injection h with h; rw [← h]; exact C04_gauss_pointwise_sum ..
  · unfold multLL at h; split at h
    · cases h
    · split at h
      · cases h
      · injection h with h; rw [← h]; exact C04_mult_pointwise_sum ..
  · unfold cmLL at h; split at h
    · cases h
    · split at h
      · cases h
      · injection h with h; rw [← h]; exact C04_cm_pointwise_sum ..
  · unfold lnLL at h; split at h
    · cases h
    · split at h
      · cases h
      · injection h with h; rw [← h]; exact C04_ln_pointwise_sum ..

/-- all outputs inside the support -/
def AllVal (ems : List EM) (f : Nat → τ → ℝ) (sig : List ℝ) : Nat → List (OutData τ ℝ) → Prop
  | _, [] => True
  | o, d :: ds => (∃ v, emLL (ems.getD o .gauss) (sliceFor ems sig o) d.obs.length
      (vecOf (d.times.map (f o))) (vecOf d.obs) = .val v) ∧ AllVal ems f sig (o + 1) ds

theorem filterMap_some_fun {β γ : Type} (g : β → γ) (l : List β) :
    l.filterMap (fun j => some (g j)) = l.map g := by
  induction l <;> simp [*]

theorem isum_eq_lsum_map (n : Nat) (g : Nat → ℝ) :
    isum n g = ((List.range n).map g).sum := by
  simp [isum, lsum_real]

theorem spec_go_val (ems : List EM) (f : Nat → τ → ℝ) (sig : List ℝ)
    (rest : List (OutData τ ℝ)) (o : Nat) (a : ℝ) (h : AllVal ems f sig o rest) :
    llSpec.go ems f sig o rest (.val a)
      = .val (a + ((llPointwise.go ems f sig o rest).filterMap id).sum) ∧
    (llPointwise.go ems f sig o rest).all Option.isSome = true := by
  induction rest generalizing o a with
  | nil => simp [llSpec.go, llPointwise.go]
  | cons d ds ih =>
    obtain ⟨⟨v, hv⟩, hrest⟩ := h
    unfold llSpec.go llPointwise.go
    simp only [hv, Score.add]
    have := ih (o + 1) (a + v) hrest
    refine ⟨?_, ?_⟩
    · rw [this.1]
      congr 1
      rw [List.filterMap_append, List.sum_append, emLL_val_eq_sum _ _ _ _ _ _ hv, isum_eq_lsum_map]
      simp only [List.filterMap_map, Function.comp_def, id, filterMap_some_fun]
      ring
    · simp only [List.all_append, this.2, Bool.and_true, List.all_map]
      simp

/-- C01, meaning of the right-hand side: inside the support the specified value is the sum
    over ALL measurements (output by output, time order) of the error model's pointwise
    log-density — which C04 identifies with the log of the documented density at the
    prediction for the same output and time. Every measurement contributes exactly once. -/
theorem C01_spec_is_sum_over_measurements (ems : List EM) (f : Nat → τ → ℝ)
    (data : List (OutData τ ℝ)) (sig : List ℝ) (h : AllVal ems f sig 0 data) :
    llSpec ems f data sig = .val (((llPointwise ems f data sig).filterMap id).sum) := by
  unfold llSpec llPointwise Score.zero
  have := (spec_go_val ems f sig data 0 (ofNat 0) h).1
  simpa using this

/-- the pointwise log-likelihoods add up to the total returned by `__call__` -/
theorem C01_pointwise_sum (ems : List EM) (f : Nat → τ → ℝ) (data : List (OutData τ ℝ))
    (sig : List ℝ) (hshape : WellShaped data) (h : AllVal ems f sig 0 data) :
    llCall false ltB ems f data sig
      = .ok (.val (((llPointwise ems f data sig).filterMap id).sum)) := by
  rw [C01_call_eq_spec ems f data sig hshape, C01_spec_is_sum_over_measurements ems f data sig h]

/-! ### posterior -/

theorem C01_posterior {α : Type} [Add α] [Sub α] [Mul α] [Div α] [Neg α] [ScalarFns α]
    (p : α) (s : Score α) :
    logPosterior (.val p) (fun _ => .ok s) = .ok (Score.add (.val p) s) ∧
    logPosterior (Score.negInf : Score α) (fun _ => .ok s) = .ok .negInf := by
  simp [logPosterior]

/-! ### likelihoods with fixed parameters (`fix_parameters`, reduced sub-models) -/

section reduced
open Reduced
variable {β : Type}

theorem c01_fill_length : ∀ (c : Cells β) (free : List β), nFree c ≤ free.length →
    (fill c free).length = c.length := by
  intro c
  induction c with
  | nil => intro free _; simp [fill]
  | cons a cs ih =>
    intro free h
    obtain ⟨b, v⟩ := a
    cases b with
    | true =>
      have h' : nFree cs ≤ free.length := by simpa [nFree, List.countP_cons] using h
      simp [fill, ih free h']
    | false =>
      cases free with
      | nil => simp [nFree, List.countP_cons] at h
      | cons x xs =>
        have h' : nFree cs ≤ xs.length := by
          simp only [nFree, List.countP_cons, List.length_cons] at h ⊢
          simpa using h
        simp [fill, ih xs h']

theorem c01_nFree_append (c1 c2 : Cells β) : nFree (c1 ++ c2) = nFree c1 + nFree c2 := by
  simp [nFree, List.countP_append]

theorem c01_nFree_flatten (cs : List (Cells β)) : nFree cs.flatten = (cs.map nFree).sum := by
  induction cs with
  | nil => simp [nFree]
  | cons c cs ih => simp [c01_nFree_append, ih]

theorem c01_fill_append : ∀ (c1 c2 : Cells β) (free : List β), nFree c1 ≤ free.length →
    fill (c1 ++ c2) free = fill c1 (free.take (nFree c1)) ++ fill c2 (free.drop (nFree c1)) := by
  intro c1
  induction c1 with
  | nil => intro c2 free _; simp [fill, nFree]
  | cons a cs ih =>
    intro c2 free h
    obtain ⟨b, v⟩ := a
    cases b with
    | true =>
      have h' : nFree cs ≤ free.length := by simpa [nFree, List.countP_cons] using h
      have e : nFree ((true, v) :: cs) = nFree cs := by simp [nFree, List.countP_cons]
      simp only [List.cons_append, fill, e, ih c2 free h']
    | false =>
      cases free with
      | nil => simp [nFree, List.countP_cons] at h
      | cons x xs =>
        have h' : nFree cs ≤ xs.length := by
          simp only [nFree, List.countP_cons, List.length_cons] at h ⊢
          simpa using h
        have e : nFree ((false, v) :: cs) = nFree cs + 1 := by simp [nFree, List.countP_cons]
        simp only [List.cons_append, fill, e, List.take_succ_cons, List.drop_succ_cons, ih c2 xs h']

theorem c01_errSlice_succ (c : Cells β) (cs : List (Cells β)) (tail : List β) (o : Nat) :
    errSlice (c :: cs) tail (o + 1) = errSlice cs (tail.drop (nFree c)) o := by
  simp only [errSlice, errStart, List.take_succ_cons, List.map_cons, List.sum_cons,
    List.getD_cons_succ, List.drop_drop]

theorem c01_errSlice_zero (c : Cells β) (cs : List (Cells β)) (tail : List β) :
    errSlice (c :: cs) tail 0 = tail.take (nFree c) := by
  simp [errSlice, errStart]

theorem c01_errs_fill_flatMap : ∀ (errs : List (Cells β)) (tail : List β),
    (errs.map nFree).sum ≤ tail.length →
    (List.range errs.length).flatMap (fun o => fill (errs.getD o []) (errSlice errs tail o))
      = fill errs.flatten tail := by
  intro errs
  induction errs with
  | nil => intro tail _; simp [fill]
  | cons c cs ih =>
    intro tail h
    have hc : nFree c ≤ tail.length := by
      simp only [List.map_cons, List.sum_cons] at h; omega
    have h2 : (cs.map nFree).sum ≤ (tail.drop (nFree c)).length := by
      simp only [List.map_cons, List.sum_cons] at h
      simp only [List.length_drop]; omega
    rw [List.length_cons, List.range_succ_eq_map, List.flatMap_cons, List.flatMap_map,
      List.flatten_cons, c01_fill_append c cs.flatten tail hc, ← ih (tail.drop (nFree c)) h2]
    simp only [List.getD_cons_zero, c01_errSlice_zero, Function.comp_def, List.getD_cons_succ,
      c01_errSlice_succ]

/-- the split of the argument among the sub-models is the split of ONE buffer over the
    concatenated cells: the mechanistic model and every output's error model each see exactly
    their own entries, the free ones taken from the argument in order -/
theorem C01_reduced_split (mech : Cells β) (errs : List (Cells β)) (x : List β)
    (h : x.length = nFreeAll mech errs) :
    reducedMech mech x ++ reducedSig mech errs x = fill (mech ++ errs.flatten) x := by
  have hm : nFree mech ≤ x.length := by rw [h]; unfold nFreeAll; omega
  have ht : (errs.map nFree).sum ≤ (x.drop (nFree mech)).length := by
    rw [List.length_drop, h]; unfold nFreeAll; omega
  rw [c01_fill_append mech errs.flatten x hm, ← c01_errs_fill_flatMap errs _ ht]
  rfl

/-- a full parameter vector that carries the fixed values at the fixed positions -/
def CarriesFixed : Cells β → List β → Prop
  | [], [] => True
  | (b, v) :: cs, y :: ys => (b = true → y = v) ∧ CarriesFixed cs ys
  | _, _ => False

theorem c01_agrees_length : ∀ (c : Cells β) (full : List β), CarriesFixed c full →
    full.length = c.length := by
  intro c
  induction c with
  | nil => intro full h; cases full with
    | nil => rfl
    | cons _ _ => exact absurd h (by simp [CarriesFixed])
  | cons a cs ih =>
    intro full h
    obtain ⟨b, v⟩ := a
    cases full with
    | nil => exact absurd h (by simp [CarriesFixed])
    | cons y ys => simp [ih ys h.2]

theorem c01_agrees_append : ∀ (c1 c2 : Cells β) (f1 f2 : List β), CarriesFixed c1 f1 →
    CarriesFixed c2 f2 →
    CarriesFixed (c1 ++ c2) (f1 ++ f2) := by
  intro c1
  induction c1 with
  | nil => intro c2 f1 f2 h1 h2; cases f1 with
    | nil => simpa using h2
    | cons _ _ => exact absurd h1 (by simp [CarriesFixed])
  | cons a cs ih =>
    intro c2 f1 f2 h1 h2
    obtain ⟨b, v⟩ := a
    cases f1 with
    | nil => exact absurd h1 (by simp [CarriesFixed])
    | cons y ys => exact ⟨h1.1, ih c2 ys f2 h1.2 h2⟩

/-- evaluating at the free entries of a full vector hands the full vector to the wrapped object -/
theorem c01_fill_restrict : ∀ (c : Cells β) (full : List β), CarriesFixed c full →
    fill c (restrict c full) = full ∧ (restrict c full).length = nFree c := by
  intro c
  induction c with
  | nil => intro full h; cases full with
    | nil => simp [fill, restrict, nFree]
    | cons _ _ => exact absurd h (by simp [CarriesFixed])
  | cons a cs ih =>
    intro full h
    obtain ⟨b, v⟩ := a
    cases full with
    | nil => exact absurd h (by simp [CarriesFixed])
    | cons y ys =>
      have := ih ys h.2
      cases b with
      | true =>
        have hy : y = v := h.1 rfl
        simp [fill, restrict, this.1, this.2, hy, nFree, List.countP_cons]
      | false =>
        simp [fill, restrict, this.1, this.2, nFree, List.countP_cons]

/-- the measurement error is known (no free error-model parameter at all): the whole argument
    goes to the mechanistic model, every error model receives an empty slice and is evaluated
    with its fixed values -/
theorem C01_reduced_all_error_fixed (mech : Cells β) (errs : List (Cells β)) (x : List β)
    (h0 : ∀ c ∈ errs, nFree c = 0) (hx' : x.length = nFreeAll mech errs) :
    reducedMech mech x = fill mech x ∧
    ∀ o, reducedErr mech errs x o = fill (errs.getD o []) [] := by
  have hs : (errs.map nFree).sum = 0 :=
    List.sum_eq_zero (fun n hn => by
      obtain ⟨c, hc, rfl⟩ := List.mem_map.mp hn
      exact h0 c hc)
  have hx : x.length = nFree mech := by rw [hx']; unfold nFreeAll; omega
  refine ⟨by unfold reducedMech; rw [← hx, List.take_length], fun o => ?_⟩
  unfold reducedErr errSlice
  have : x.drop (nFree mech) = [] := by rw [← hx]; simp
  rw [this]; simp

theorem c01_parts_slice {γ : Type} : ∀ (parts : List (List γ)) (o : Nat),
    (parts.flatten.drop ((parts.take o).map List.length).sum).take ((parts.getD o []).length)
      = parts.getD o [] := by
  intro parts
  induction parts with
  | nil => intro o; simp
  | cons p ps ih =>
    intro o
    cases o with
    | zero => simp
    | succ o =>
      have hd : ∀ (s : Nat) (rest : List γ), (p ++ rest).drop (p.length + s) = rest.drop s := by
        intro s rest
        rw [List.drop_append, List.drop_eq_nil_of_le (by omega)]
        simp
      simp only [List.take_succ_cons, List.map_cons, List.sum_cons, List.flatten_cons,
        List.getD_cons_succ, hd]
      exact ih o

theorem c01_errStart_le (errs : List (Cells β)) : ∀ (o : Nat), o < errs.length →
    errStart errs o + nFree (errs.getD o []) ≤ (errs.map nFree).sum := by
  induction errs with
  | nil => intro o h; simp at h
  | cons c cs ih =>
    intro o h
    cases o with
    | zero => simp [errStart]
    | succ o =>
      have := ih o (by simpa using h)
      simp only [errStart, List.take_succ_cons, List.map_cons, List.sum_cons, List.getD_cons_succ] at this ⊢
      omega

theorem c01_reducedErr_length (mech : Cells β) (errs : List (Cells β)) (x : List β)
    (hx : x.length = nFreeAll mech errs) (o : Nat) (ho : o < errs.length) :
    (reducedErr mech errs x o).length = (errs.getD o []).length := by
  unfold reducedErr
  apply c01_fill_length
  unfold errSlice
  rw [List.length_take, List.length_drop, List.length_drop, hx]
  have := c01_errStart_le errs o ho
  unfold nFreeAll; omega

/-- every output's error model is evaluated with its own filled buffer: the slice the score
    accumulation takes for output `o` out of the concatenated error parameters is exactly what
    error model `o` made of its own free entries -/
theorem C01_reduced_error_model_sees_own [Add β] [Sub β] [Mul β] [Div β] [Neg β] [ScalarFns β]
    (ems : List EM) (mech : Cells β) (errs : List (Cells β)) (x : List β)
    (hx : x.length = nFreeAll mech errs) (hw : errs.map List.length = ems.map EM.nParams)
    (o : Nat) (ho : o < ems.length) :
    sliceFor ems (reducedSig mech errs x) o = reducedErr mech errs x o := by
  have hlen : errs.length = ems.length := by simpa using congrArg List.length hw
  have ho' : o < errs.length := by omega
  let parts := (List.range errs.length).map (reducedErr mech errs x)
  have hsig : reducedSig mech errs x = parts.flatten := by
    simp only [reducedSig, parts, List.flatMap_def]
  have hpl : parts.map List.length = ems.map EM.nParams := by
    rw [← hw]
    apply List.ext_getElem
    · simp [parts]
    · intro i h1 h2
      have hi : i < errs.length := by simpa [parts] using h1
      simp only [parts, List.getElem_map, List.getElem_range]
      rw [c01_reducedErr_length mech errs x hx i hi]
      simp [List.getD_eq_getElem?_getD, List.getElem?_eq_getElem hi]
  have hpo : parts.getD o [] = reducedErr mech errs x o := by
    simp [parts, List.getD_eq_getElem?_getD, List.getElem?_eq_getElem, ho']
  have hn : (ems.getD o .gauss).nParams = (parts.getD o []).length := by
    have h1 : (parts.map List.length)[o]? = (ems.map EM.nParams)[o]? := by rw [hpl]
    have hop : o < parts.length := by simp [parts, ho']
    simp only [List.getElem?_map, List.getElem?_eq_getElem ho, List.getElem?_eq_getElem hop,
      Option.map_some] at h1
    simp only [List.getD_eq_getElem?_getD, List.getElem?_eq_getElem ho,
      List.getElem?_eq_getElem hop, Option.getD_some]
    exact (Option.some.inj h1).symm
  have hst : ((ems.take o).map EM.nParams).sum = ((parts.take o).map List.length).sum := by
    rw [List.map_take, List.map_take, hpl]
  show ((reducedSig mech errs x).drop ((ems.take o).map EM.nParams).sum).take
      ((ems.getD o .gauss).nParams) = _
  rw [hsig, hn, hst, c01_parts_slice parts o, hpo]

section call
variable {α : Type} [Add α] [Sub α] [Mul α] [Div α] [Neg α] [ScalarFns α]
variable {τ : Type} [LinearOrder τ]

/-- C01 for likelihoods with fixed parameters: evaluating the reduced object at the free entries
    of a full vector `(psi, sigma)` (which carries the fixed values at the fixed positions) is
    evaluating the unreduced object at `(psi, sigma)` — whichever parameters are fixed:
    none, some, all error-model parameters, all mechanistic parameters, everything. -/
theorem C01_reduced_call_eq_full (legacy : Bool) (ems : List EM) (F : List α → Nat → τ → α)
    (data : List (OutData τ α)) (mech : Cells α) (errs : List (Cells α)) (psi sig : List α)
    (hm : CarriesFixed mech psi) (he : CarriesFixed errs.flatten sig) :
    llReducedCall legacy ltB ems F data mech errs (restrict (mech ++ errs.flatten) (psi ++ sig))
      = llCall legacy ltB ems (F psi) data sig := by
  obtain ⟨hfill, hlen⟩ := c01_fill_restrict _ _ (c01_agrees_append _ _ _ _ hm he)
  generalize restrict (mech ++ errs.flatten) (psi ++ sig) = x at hfill hlen
  have hx : x.length = nFreeAll mech errs := by
    rw [hlen, c01_nFree_append, c01_nFree_flatten]; rfl
  have hsplit := C01_reduced_split mech errs x hx
  rw [hfill] at hsplit
  have hl : (reducedMech mech x).length = psi.length := by
    unfold reducedMech
    rw [c01_fill_length, c01_agrees_length _ _ hm]
    rw [List.length_take, hx]; unfold nFreeAll; omega
  obtain ⟨h1, h2⟩ := List.append_inj hsplit hl
  unfold llReducedCall
  rw [if_neg (by simpa using hx), h1, h2]

/-- … hence it is the sum over all measurements (repaired selection; no condition on ties) -/
theorem C01_reduced_call_eq_spec (ems : List EM) (F : List α → Nat → τ → α)
    (data : List (OutData τ α)) (mech : Cells α) (errs : List (Cells α)) (psi sig : List α)
    (hshape : WellShaped data) (hm : CarriesFixed mech psi)
    (he : CarriesFixed errs.flatten sig) :
    llReducedCall false ltB ems F data mech errs (restrict (mech ++ errs.flatten) (psi ++ sig))
      = .ok (llSpec ems (F psi) data sig) := by
  rw [C01_reduced_call_eq_full false ems F data mech errs psi sig hm he]
  exact C01_call_eq_spec ems (F psi) data sig hshape

/-- a wrong number of free parameters is rejected, never silently re-interpreted -/
theorem C01_reduced_wrong_length (legacy : Bool) (ems : List EM) (F : List α → Nat → τ → α)
    (data : List (OutData τ α)) (mech : Cells α) (errs : List (Cells α)) (x : List α)
    (h : x.length ≠ nFreeAll mech errs) :
    llReducedCall legacy ltB ems F data mech errs x = .error .shapeMismatch := by
  unfold llReducedCall; rw [if_pos h]

end call

/-- non-vacuity: two mechanistic parameters, one Gaussian output whose sigma is fixed at 3 -/
example : reducedMech [(false, 0), (false, 0)] [10, 20] = [10, 20] ∧
    reducedSig [(false, 0), (false, 0)] [[(true, 3)]] [10, 20] = [3] := by decide
example : CarriesFixed [(false, 0), (false, 0)] [10, 20] ∧
    CarriesFixed [[(true, 3)]].flatten [3] := by
  simp [CarriesFixed]
/-- psi1 fixed, CM output with its second parameter fixed, Gaussian output free -/
example : reducedMech [(false, 0), (true, 7)] [10, 20, 30] = [10, 7] ∧
    reducedSig [(false, 0), (true, 7)] [[(false, 0), (true, 5)], [(false, 0)]] [10, 20, 30]
      = [20, 5, 30] := by decide

end reduced

end ChiModel
