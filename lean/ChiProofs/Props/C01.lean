import ChiModel.LogLik
import Mathlib.Data.List.Sort
import Mathlib.Order.Basic

/-!
# C01 — individual log-likelihood sums each observation's density exactly once
-/
namespace ChiModel
variable {α : Type} [Add α] [Sub α] [Mul α] [Div α] [Neg α] [ScalarFns α]
variable {τ : Type} [LinearOrder τ]

abbrev ltB : τ → τ → Bool := fun a b => decide (a < b)

/-! ## the union grid is strictly sorted and contains exactly the measurement times -/

theorem mem_insertSorted (x t : τ) (l : List τ) :
    t ∈ insertSorted ltB x l ↔ t = x ∨ t ∈ l := by
  induction l with
  | nil => simp [insertSorted]
  | cons y ys ih =>
    unfold insertSorted
    split
    · rename_i h; subst h; simp
    · split
      · simp
      · simp only [List.mem_cons, ih]; tauto

theorem sorted_insertSorted (x : τ) (l : List τ) (h : l.Pairwise (· < ·)) :
    (insertSorted ltB x l).Pairwise (· < ·) := by
  induction l with
  | nil => simp [insertSorted]
  | cons y ys ih =>
    unfold insertSorted
    rw [List.pairwise_cons] at h
    split
    · exact List.pairwise_cons.mpr h
    · rename_i hne
      split
      · rename_i hlt
        have hlt' : x < y := by simpa [ltB] using hlt
        refine List.pairwise_cons.mpr ⟨?_, List.pairwise_cons.mpr h⟩
        intro a ha
        rcases List.mem_cons.mp ha with rfl | ha
        · exact hlt'
        · exact lt_trans hlt' (h.1 a ha)
      · rename_i hnlt
        have hyx : y < x := by
          have : ¬ x < y := by simpa [ltB] using hnlt
          exact lt_of_le_of_ne (not_lt.mp this) (Ne.symm hne)
        refine List.pairwise_cons.mpr ⟨?_, ih h.2⟩
        intro a ha
        rcases (mem_insertSorted x a ys).mp ha with rfl | ha
        · exact hyx
        · exact h.1 a ha

theorem unionGrid_aux (ts : List τ) : ∀ (acc : List τ), acc.Pairwise (· < ·) →
    (ts.foldl (fun acc t => insertSorted ltB t acc) acc).Pairwise (· < ·) ∧
    ∀ t, t ∈ ts.foldl (fun acc t => insertSorted ltB t acc) acc ↔ t ∈ ts ∨ t ∈ acc := by
  induction ts with
  | nil => intro acc h; simp [h]
  | cons x xs ih =>
    intro acc h
    have := ih (insertSorted ltB x acc) (sorted_insertSorted x acc h)
    refine ⟨this.1, fun t => ?_⟩
    rw [List.foldl_cons, this.2 t, mem_insertSorted]
    simp only [List.mem_cons]; tauto

theorem unionGrid_sorted (times : List (List τ)) : (unionGrid ltB times).Pairwise (· < ·) :=
  (unionGrid_aux _ [] List.Pairwise.nil).1

theorem mem_unionGrid (times : List (List τ)) (t : τ) :
    t ∈ unionGrid ltB times ↔ ∃ ts ∈ times, t ∈ ts := by
  unfold unionGrid
  rw [(unionGrid_aux _ [] List.Pairwise.nil).2 t]
  simp [List.mem_flatten]

/-! ## Boolean-mask selection returns the output's own predictions iff its times are strict -/

theorem C01_pick_eq (times : List (List τ)) (ts : List τ) (hts : ts ∈ times)
    (hs : ts.Pairwise (· < ·)) (pred : τ → α) :
    pickMask (unionGrid ltB times) ts pred = ts.map pred := by
  unfold pickMask
  congr 1
  have hsub : ((unionGrid ltB times).filter (fun t => ts.contains t)).Pairwise (· < ·) :=
    (unionGrid_sorted times).sublist List.filter_sublist
  refine List.Pairwise.eq_of_mem_iff hsub hs ?_
  intro a
  simp only [List.mem_filter, List.contains_iff_mem, mem_unionGrid]
  exact ⟨fun h => h.2, fun h => ⟨⟨ts, hts, h⟩, h⟩⟩

/-! ## main theorems -/

/-- data as the constructor leaves it: equal lengths; `Strict` adds strictly increasing times -/
def WellShaped (data : List (OutData τ α)) : Prop := ∀ d ∈ data, d.times.length = d.obs.length
def Strict (data : List (OutData τ α)) : Prop := ∀ d ∈ data, d.times.Pairwise (· < ·)

theorem go_eq (legacy : Bool) (ems : List EM) (f : Nat → τ → α) (sig : List α) (u : List τ)
    (hpick : ∀ (o : Nat) (d : OutData τ α), d ∈ rest →
      (if legacy then pickMask u d.times (f o) else pickIdx u d.times (f o)) = d.times.map (f o))
    (hshape : ∀ d ∈ rest, d.times.length = d.obs.length) (o : Nat) (acc : Score α) :
    llCall.go legacy ems f sig u o rest acc = .ok (llSpec.go ems f sig o rest acc) := by
  induction rest generalizing o acc with
  | nil => simp [llCall.go, llSpec.go]
  | cons d ds ih =>
    unfold llCall.go llSpec.go
    have hp := hpick o d (List.mem_cons_self)
    simp only [hp, List.length_map, hshape d List.mem_cons_self, ne_eq, not_true_eq_false,
      if_false]
    exact ih (fun o d hd => hpick o d (List.mem_cons_of_mem _ hd))
      (fun d hd => hshape d (List.mem_cons_of_mem _ hd)) (o + 1) _

/-- C01 for the code as it is: with strictly increasing times per output, the evaluated
    score is the sum over all measurements of the error model's log-density at the
    prediction for the same output and time — for every number of outputs, every
    assignment of error models, every arrangement of the grids. -/
theorem C01_call_eq_spec_partial (ems : List EM) (f : Nat → τ → α) (data : List (OutData τ α))
    (sig : List α) (hshape : WellShaped data) (hstrict : Strict data) :
    llCall true ltB ems f data sig = .ok (llSpec ems f data sig) := by
  unfold llCall llSpec
  refine go_eq true ems f sig _ ?_ hshape 0 _
  intro o d hd
  simp only [if_true]
  exact C01_pick_eq _ d.times (List.mem_map.mpr ⟨d, hd, rfl⟩) (hstrict d hd) (f o)

/-- C01 in full for the intended selection (positions instead of a mask): no condition on ties. -/
theorem C01_call_eq_spec (ems : List EM) (f : Nat → τ → α) (data : List (OutData τ α))
    (sig : List α) (hshape : WellShaped data) :
    llCall false ltB ems f data sig = .ok (llSpec ems f data sig) := by
  unfold llCall llSpec
  refine go_eq false ems f sig _ ?_ hshape 0 _
  intro o d _
  simp [pickIdx]

/-- the unchanged code on a repeated time point: accepted by the constructor's checks
    (non-decreasing, equal lengths), not evaluable. -/
theorem C01_ties_counterexample (f : Nat → Nat → α) (a b c : α) (sig : List α) :
    llCall true (ltB (τ := Nat)) [EM.gauss] f [⟨[1, 1, 2], [a, b, c]⟩] sig
      = .error .lengthMismatch := by
  simp [llCall, llCall.go, unionGrid, insertSorted, pickMask]

end ChiModel
