import ChiModel.LogLikS1
import ChiProofs.Props.C04
import Mathlib.Analysis.Calculus.FDeriv.Comp
import Mathlib.Analysis.Calculus.Deriv.Comp
set_option linter.unusedSectionVars false
set_option linter.unusedSimpArgs false
set_option linter.unusedVariables false
/-!
# C03 — analytic gradients equal the true derivatives of the evaluated log-pdf
-/
namespace ChiModel
open ScalarFns

/-- the support of one output's error model: where the score is a finite log-density -/
def InSupport (m : EM) (s0 s1 : ℝ) (n : Nat) (yb : Nat → ℝ) : Prop :=
  match m with
  | .gauss => 0 < s0
  | .mult => ∀ j, j < n → 0 < multTot s0 yb j
  | .cm => ∀ j, j < n → 0 < cmTot s0 s1 yb j
  | .ln => 0 < s0 ∧ ∀ j, j < n → 0 < yb j

/-- C04's four gradient theorems in one statement: along ANY differentiable curve of error
    parameters `(s0, s1)` and predictions `ȳ_j`, one output's log-likelihood has derivative
    `∂/∂s0 · s0' + ∂/∂s1 · s1' + Σ_j ∂/∂ȳ_j · ȳ_j'` with exactly the code's formulas. -/
theorem em_hasDerivAt (m : EM) (n : Nat) (obs : Nat → ℝ) (s0 s1 : ℝ → ℝ) (s0' s1' : ℝ)
    (ybar : Nat → ℝ → ℝ) (Y' : Nat → ℝ) (t : ℝ)
    (h0 : HasDerivAt s0 s0' t) (h1 : HasDerivAt s1 s1' t)
    (hy : ∀ j, j < n → HasDerivAt (ybar j) (Y' j) t)
    (hsupp : InSupport m (s0 t) (s1 t) n (fun j => ybar j t)) :
    HasDerivAt (fun s => emLLraw m [s0 s, s1 s] n (fun j => ybar j s) obs)
      (emDSig m [s0 t, s1 t] n (fun j => ybar j t) obs 0 * s0'
        + (if m = .cm then emDSig m [s0 t, s1 t] n (fun j => ybar j t) obs 1 * s1' else 0)
        + emDPsi m [s0 t, s1 t] n (fun j => ybar j t) obs (fun j _ => Y' j) 0) t := by
  cases m with
  | gauss =>
    have := C04_gauss_grad n obs s0 ybar s0' Y' t h0 hy hsupp
    simpa [emLLraw, emDSig, emDPsi] using this
  | mult =>
    have := C04_mult_grad n obs s0 ybar s0' Y' t h0 hy hsupp
    simpa [emLLraw, emDSig, emDPsi] using this
  | cm =>
    have := C04_cm_grad n obs s0 s1 ybar s0' s1' Y' t h0 h1 hy hsupp
    simpa [emLLraw, emDSig, emDPsi] using this
  | ln =>
    have := C04_ln_grad n obs s0 ybar s0' Y' t h0 hy hsupp.1 hsupp.2
    simpa [emLLraw, emDSig, emDPsi] using this

/-! ## the sum over outputs -/

/-- one output moving along a curve -/
structure OutCurve where
  m : EM
  n : Nat
  obs : Nat → ℝ
  s0 : ℝ → ℝ
  s1 : ℝ → ℝ
  s0' : ℝ
  s1' : ℝ
  ybar : Nat → ℝ → ℝ
  Y' : Nat → ℝ

noncomputable def OutCurve.value (c : OutCurve) (s : ℝ) : ℝ :=
  emLLraw c.m [c.s0 s, c.s1 s] c.n (fun j => c.ybar j s) c.obs

noncomputable def OutCurve.deriv (c : OutCurve) (t : ℝ) : ℝ :=
  emDSig c.m [c.s0 t, c.s1 t] c.n (fun j => c.ybar j t) c.obs 0 * c.s0'
    + (if c.m = .cm then emDSig c.m [c.s0 t, c.s1 t] c.n (fun j => c.ybar j t) c.obs 1 * c.s1' else 0)
    + emDPsi c.m [c.s0 t, c.s1 t] c.n (fun j => c.ybar j t) c.obs (fun j _ => c.Y' j) 0

def OutCurve.Good (c : OutCurve) (t : ℝ) : Prop :=
  HasDerivAt c.s0 c.s0' t ∧ HasDerivAt c.s1 c.s1' t ∧
  (∀ j, j < c.n → HasDerivAt (c.ybar j) (c.Y' j) t) ∧
  InSupport c.m (c.s0 t) (c.s1 t) c.n (fun j => c.ybar j t)

/-- C03 (individual likelihood, any number of outputs): the log-likelihood `Σ_o ℓ_o` has, along
    any differentiable curve of all its parameters, the derivative `Σ_o` of the error models'
    analytic expressions — the mechanistic contributions ACCUMULATE over outputs, each error
    parameter receives its own output's term. -/
theorem C03_loglik_hasDerivAt (cs : List OutCurve) (t : ℝ) (h : ∀ c ∈ cs, c.Good t) :
    HasDerivAt (fun s => (cs.map (fun c => c.value s)).sum) ((cs.map (fun c => c.deriv t)).sum) t := by
  induction cs with
  | nil => simpa using hasDerivAt_const t (0:ℝ)
  | cons c cs ih =>
    have hc := h c List.mem_cons_self
    have h1 := em_hasDerivAt c.m c.n c.obs c.s0 c.s1 c.s0' c.s1' c.ybar c.Y' t hc.1 hc.2.1 hc.2.2.1
      hc.2.2.2
    have h2 := ih (fun c' hc' => h c' (List.mem_cons_of_mem _ hc'))
    simp only [List.map_cons, List.sum_cons]
    exact h1.fun_add h2

/-! ## the gradient vector `evaluateS1` assembles -/

section assembly
variable {α : Type} [Add α] [Sub α] [Mul α] [Div α] [Neg α] [ScalarFns α]

theorem s1Go_err (nMech : Nat) (ems : List EM) (sig : List α) :
    ∀ (outs : List (OutS1 α)) (o : Nat) (mech err : List α),
      (s1Go nMech ems sig o outs mech err).2
        = err ++ (List.zipIdx outs o).flatMap (fun (d, o') =>
            (List.range (ems.getD o' .gauss).nParams).map (fun e =>
              emDSig (ems.getD o' .gauss) (sliceFor ems sig o') d.n d.ybar d.obs e))
  | [], _, _, _ => by simp [s1Go]
  | d :: ds, o, mech, err => by
    unfold s1Go
    simp only [List.zipIdx_cons, List.flatMap_cons]
    rw [s1Go_err nMech ems sig ds (o + 1)]
    simp [List.append_assoc]

theorem s1Go_mech_length (nMech : Nat) (ems : List EM) (sig : List α) :
    ∀ (outs : List (OutS1 α)) (o : Nat) (mech err : List α), mech.length = nMech →
      (s1Go nMech ems sig o outs mech err).1.length = nMech
  | [], _, _, _, h => by simpa [s1Go] using h
  | d :: ds, o, mech, err, h => by
    unfold s1Go
    exact s1Go_mech_length nMech ems sig ds (o + 1) _ _ (by simp)

/-- C03 (layout of the returned gradient): `n_mech` mechanistic entries first, then the error
    parameters output by output — entry `(o, e)` is output `o`'s own `∂/∂σ_{o,e}`, computed from
    output `o`'s own slice of the parameter vector. -/
theorem C03_s1_layout (nMech : Nat) (ems : List EM) (sig : List α) (outs : List (OutS1 α)) :
    (llS1Grad nMech ems sig outs).take nMech
        = (s1Go nMech ems sig 0 outs ((List.range nMech).map (fun _ => ofNat 0)) []).1 ∧
    (llS1Grad nMech ems sig outs).drop nMech
        = (List.zipIdx outs 0).flatMap (fun (d, o) =>
            (List.range (ems.getD o .gauss).nParams).map (fun e =>
              emDSig (ems.getD o .gauss) (sliceFor ems sig o) d.n d.ybar d.obs e)) := by
  have hl := s1Go_mech_length nMech ems sig outs 0 ((List.range nMech).map (fun _ => ofNat 0)) []
    (by simp)
  unfold llS1Grad
  simp only
  constructor
  · rw [List.take_append_of_le_length (by omega), List.take_of_length_le (by omega)]
  · rw [List.drop_append_of_le_length (by omega), List.drop_of_length_le (by omega),
      s1Go_err]
    simp

end assembly

/-- mechanistic entry `k`: the sum over outputs of the error models' `∂/∂ψ_k` terms -/
theorem s1Go_mech_real (nMech : Nat) (ems : List EM) (sig : List ℝ) :
    ∀ (outs : List (OutS1 ℝ)) (o : Nat) (mech err : List ℝ) (k : Nat), k < nMech →
      mech.length = nMech →
      (s1Go nMech ems sig o outs mech err).1.getD k 0
        = mech.getD k 0 + ((List.zipIdx outs o).map (fun (d, o') =>
            emDPsi (ems.getD o' .gauss) (sliceFor ems sig o') d.n d.ybar d.obs d.S k)).sum
  | [], _, _, _, _, _, _ => by simp [s1Go]
  | d :: ds, o, mech, err, k, hk, hl => by
    unfold s1Go
    rw [s1Go_mech_real nMech ems sig ds (o + 1) _ _ k hk (by simp)]
    simp only [List.zipIdx_cons, List.map_cons, List.sum_cons]
    have : ((List.range nMech).map (fun k => mech.getD k (ofNat 0)
        + emDPsi (ems.getD o .gauss) (sliceFor ems sig o) d.n d.ybar d.obs d.S k)).getD k 0
        = mech.getD k 0 + emDPsi (ems.getD o .gauss) (sliceFor ems sig o) d.n d.ybar d.obs d.S k := by
      simp [List.getD_eq_getElem?_getD, hk]
    rw [this]
    ring

/-- C03 (mechanistic block): entry `k < n_mech` of the returned gradient is
    `Σ_o ∂ℓ_o/∂ψ_k` — contributions of all outputs accumulate. -/
theorem C03_s1_mech_entry (nMech : Nat) (ems : List EM) (sig : List ℝ) (outs : List (OutS1 ℝ))
    (k : Nat) (hk : k < nMech) :
    (llS1Grad nMech ems sig outs).getD k 0
      = ((List.zipIdx outs 0).map (fun (d, o) =>
          emDPsi (ems.getD o .gauss) (sliceFor ems sig o) d.n d.ybar d.obs d.S k)).sum := by
  have hl := s1Go_mech_length nMech ems sig outs 0 ((List.range nMech).map (fun _ => (ofNat 0 : ℝ))) []
    (by simp)
  unfold llS1Grad
  simp only
  rw [List.getD_eq_getElem?_getD, List.getElem?_append_left (by omega), ← List.getD_eq_getElem?_getD,
    s1Go_mech_real nMech ems sig outs 0 _ _ k hk (by simp)]
  simp [List.getD_eq_getElem?_getD, hk]

/-- C03 (score agreement): wherever plain evaluation of an output yields a finite value, that
    value is the raw expression whose derivative `evaluateS1` reports (same formula, same guards). -/
theorem C03_score_agree {α : Type} [Add α] [Sub α] [Mul α] [Div α] [Neg α] [ScalarFns α]
    (m : EM) (sg : List α) (n : Nat) (yb ob : Nat → α) (v : α)
    (h : emLL m sg n yb ob = .val v) : v = emLLraw m sg n yb ob := by
  unfold emLL at h
  unfold emLLraw
  cases m <;> simp only at h ⊢
  · unfold gaussLL at h; split at h
    · cases h
    · injection h with h; exact h.symm
  · unfold multLL at h; split at h
    · cases h
    · split at h
      · cases h
      · injection h with h; exact h.symm
  · unfold cmLL at h; split at h
    · cases h
    · split at h
      · cases h
      · injection h with h; exact h.symm
  · unfold lnLL at h; split at h
    · cases h
    · split at h
      · cases h
      · injection h with h; exact h.symm

/-! ## posteriors and the hierarchical chain rule -/

/-- C03 (posterior): score and gradient of prior and likelihood add. -/
theorem C03_posterior_grad (prior ll : ℝ → ℝ) (p' l' t : ℝ) (hp : HasDerivAt prior p' t)
    (hl : HasDerivAt ll l' t) : HasDerivAt (fun s => prior s + ll s) (p' + l') t := hp.add hl

/-- C03 (hierarchical likelihood): along any differentiable curve of the flat parameter vector,
    if individual `i`'s parameters `ψ_i(s) ∈ ℝ^D` move with velocity `ψ_i'` and its likelihood is
    differentiable at `ψ_i(t)` with gradient (Fréchet derivative) `dL_i`, and the population
    log-density moves with derivative `P'`, then
    `d/ds [Σ_i L_i(ψ_i(s)) + P(s)] = Σ_i dL_i(ψ_i') + P'`
    — the upstream sensitivities `dlogp_dpsi` are propagated through the population transform by
    the chain rule and added to the population model's own sensitivities. -/
theorem C03_hier_chain {D : Nat} (nIds : Nat) (L : Nat → (Fin D → ℝ) → ℝ)
    (dL : Nat → ((Fin D → ℝ) →L[ℝ] ℝ)) (psi : Nat → ℝ → (Fin D → ℝ)) (psi' : Nat → (Fin D → ℝ))
    (P : ℝ → ℝ) (P' t : ℝ)
    (hL : ∀ i, i < nIds → HasFDerivAt (L i) (dL i) (psi i t))
    (hpsi : ∀ i, i < nIds → HasDerivAt (psi i) (psi' i) t) (hP : HasDerivAt P P' t) :
    HasDerivAt (fun s => (∑ i ∈ Finset.range nIds, L i (psi i s)) + P s)
      ((∑ i ∈ Finset.range nIds, dL i (psi' i)) + P') t := by
  refine HasDerivAt.add ?_ hP
  refine HasDerivAt.fun_sum (fun i hi => ?_)
  have hi' := Finset.mem_range.mp hi
  exact (hL i hi').comp_hasDerivAt t (hpsi i hi')

end ChiModel
