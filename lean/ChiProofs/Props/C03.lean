import ChiModel.LogLikS1
import ChiModel.SensSwitch
import ChiProofs.Props.C04
import ChiProofs.Props.C05
import Mathlib.Analysis.Calculus.FDeriv.Comp
import Mathlib.Analysis.Calculus.Deriv.Comp
import Mathlib.Data.List.Nodup
set_option linter.unusedSectionVars false
set_option linter.unusedSimpArgs false
set_option linter.unusedVariables false
/-!
# C03 — analytic gradients equal the true derivatives of the evaluated log-pdf
-/
namespace ChiModel
open ScalarFns

/-- the support of one output's error model: where the score is a finite log-density -/
def InSupport (m : EM) (s0 s1 : ℝ) (n : Nat) (yb : Nat → ℝ) : Prop :=
  match m with
  | .gauss => 0 < s0
  | .mult => ∀ j, j < n → 0 < multTot s0 yb j
  | .cm => ∀ j, j < n → 0 < cmTot s0 s1 yb j
  | .ln => 0 < s0 ∧ ∀ j, j < n → 0 < yb j

/-- C04's four gradient theorems in one statement: along ANY differentiable curve of error
    parameters `(s0, s1)` and predictions `ȳ_j`, one output's log-likelihood has derivative
    `∂/∂s0 · s0' + ∂/∂s1 · s1' + Σ_j ∂/∂ȳ_j · ȳ_j'` with exactly the code's formulas. -/
theorem em_hasDerivAt (m : EM) (n : Nat) (obs : Nat → ℝ) (s0 s1 : ℝ → ℝ) (s0' s1' : ℝ)
    (ybar : Nat → ℝ → ℝ) (Y' : Nat → ℝ) (t : ℝ)
    (h0 : HasDerivAt s0 s0' t) (h1 : HasDerivAt s1 s1' t)
    (hy : ∀ j, j < n → HasDerivAt (ybar j) (Y' j) t)
    (hsupp : InSupport m (s0 t) (s1 t) n (fun j => ybar j t)) :
    HasDerivAt (fun s => emLLraw m [s0 s, s1 s] n (fun j => ybar j s) obs)
      (emDSig m [s0 t, s1 t] n (fun j => ybar j t) obs 0 * s0'
        + (if m = .cm then emDSig m [s0 t, s1 t] n (fun j => ybar j t) obs 1 * s1' else 0)
        + emDPsi m [s0 t, s1 t] n (fun j => ybar j t) obs (fun j _ => Y' j) 0) t := by
  cases m with
  | gauss =>
    have := C04_gauss_grad n obs s0 ybar s0' Y' t h0 hy hsupp
    simpa [emLLraw, emDSig, emDPsi] using this
  | mult =>
    have := C04_mult_grad n obs s0 ybar s0' Y' t h0 hy hsupp
    simpa [emLLraw, emDSig, emDPsi] using this
  | cm =>
    have := C04_cm_grad n obs s0 s1 ybar s0' s1' Y' t h0 h1 hy hsupp
    simpa [emLLraw, emDSig, emDPsi] using this
  | ln =>
    have := C04_ln_grad n obs s0 ybar s0' Y' t h0 hy hsupp.1 hsupp.2
    simpa [emLLraw, emDSig, emDPsi] using this

/-! ## the sum over outputs -/

/-- one output moving along a curve -/
structure OutCurve where
  m : EM
  n : Nat
  obs : Nat → ℝ
  s0 : ℝ → ℝ
  s1 : ℝ → ℝ
  s0' : ℝ
  s1' : ℝ
  ybar : Nat → ℝ → ℝ
  Y' : Nat → ℝ

noncomputable def OutCurve.value (c : OutCurve) (s : ℝ) : ℝ :=
  emLLraw c.m [c.s0 s, c.s1 s] c.n (fun j => c.ybar j s) c.obs

noncomputable def OutCurve.deriv (c : OutCurve) (t : ℝ) : ℝ :=
  emDSig c.m [c.s0 t, c.s1 t] c.n (fun j => c.ybar j t) c.obs 0 * c.s0'
    + (if c.m = .cm then emDSig c.m [c.s0 t, c.s1 t] c.n (fun j => c.ybar j t) c.obs 1 * c.s1' else 0)
    + emDPsi c.m [c.s0 t, c.s1 t] c.n (fun j => c.ybar j t) c.obs (fun j _ => c.Y' j) 0

def OutCurve.Good (c : OutCurve) (t : ℝ) : Prop :=
  HasDerivAt c.s0 c.s0' t ∧ HasDerivAt c.s1 c.s1' t ∧
  (∀ j, j < c.n → HasDerivAt (c.ybar j) (c.Y' j) t) ∧
  InSupport c.m (c.s0 t) (c.s1 t) c.n (fun j => c.ybar j t)

/-- C03 (individual likelihood, any number of outputs): the log-likelihood `Σ_o ℓ_o` has, along
    any differentiable curve of all its parameters, the derivative `Σ_o` of the error models'
    analytic expressions — the mechanistic contributions ACCUMULATE over outputs, each error
    parameter receives its own output's term. -/
theorem C03_loglik_hasDerivAt (cs : List OutCurve) (t : ℝ) (h : ∀ c ∈ cs, c.Good t) :
    HasDerivAt (fun s => (cs.map (fun c => c.value s)).sum) ((cs.map (fun c => c.deriv t)).sum) t := by
  induction cs with
  | nil => simpa using hasDerivAt_const t (0:ℝ)
  | cons c cs ih =>
    have hc := h c List.mem_cons_self
    have h1 := em_hasDerivAt c.m c.n c.obs c.s0 c.s1 c.s0' c.s1' c.ybar c.Y' t hc.1 hc.2.1 hc.2.2.1
      hc.2.2.2
    have h2 := ih (fun c' hc' => h c' (List.mem_cons_of_mem _ hc'))
    simp only [List.map_cons, List.sum_cons]
    exact h1.fun_add h2

/-! ## the gradient vector `evaluateS1` assembles -/

section assembly
variable {α : Type} [Add α] [Sub α] [Mul α] [Div α] [Neg α] [ScalarFns α]

theorem s1Go_err (nMech : Nat) (ems : List EM) (sig : List α) :
    ∀ (outs : List (OutS1 α)) (o : Nat) (mech err : List α),
      (s1Go nMech ems sig o outs mech err).2
        = err ++ (List.zipIdx outs o).flatMap (fun (d, o') =>
            (List.range (ems.getD o' .gauss).nParams).map (fun e =>
              emDSig (ems.getD o' .gauss) (sliceFor ems sig o') d.n d.ybar d.obs e))
  | [], _, _, _ => by simp [s1Go]
  | d :: ds, o, mech, err => by
    unfold s1Go
    simp only [List.zipIdx_cons, List.flatMap_cons]
    rw [s1Go_err nMech ems sig ds (o + 1)]
    simp [List.append_assoc]

theorem s1Go_mech_length (nMech : Nat) (ems : List EM) (sig : List α) :
    ∀ (outs : List (OutS1 α)) (o : Nat) (mech err : List α), mech.length = nMech →
      (s1Go nMech ems sig o outs mech err).1.length = nMech
  | [], _, _, _, h => by simpa [s1Go] using h
  | d :: ds, o, mech, err, h => by
    unfold s1Go
    exact s1Go_mech_length nMech ems sig ds (o + 1) _ _ (by simp)

/-- C03 (layout of the returned gradient): `n_mech` mechanistic entries first, then the error
    parameters output by output — entry `(o, e)` is output `o`'s own `∂/∂σ_{o,e}`, computed from
    output `o`'s own slice of the parameter vector. -/
theorem C03_s1_layout (nMech : Nat) (ems : List EM) (sig : List α) (outs : List (OutS1 α)) :
    (llS1Grad nMech ems sig outs).take nMech
        = (s1Go nMech ems sig 0 outs ((List.range nMech).map (fun _ => ofNat 0)) []).1 ∧
    (llS1Grad nMech ems sig outs).drop nMech
        = (List.zipIdx outs 0).flatMap (fun (d, o) =>
            (List.range (ems.getD o .gauss).nParams).map (fun e =>
              emDSig (ems.getD o .gauss) (sliceFor ems sig o) d.n d.ybar d.obs e)) := by
  have hl := s1Go_mech_length nMech ems sig outs 0 ((List.range nMech).map (fun _ => ofNat 0)) []
    (by simp)
  unfold llS1Grad
  simp only
  constructor
  · rw [List.take_append_of_le_length (by omega), List.take_of_length_le (by omega)]
  · rw [List.drop_append_of_le_length (by omega), List.drop_of_length_le (by omega),
      s1Go_err]
    simp

end assembly

/-- mechanistic entry `k`: the sum over outputs of the error models' `∂/∂ψ_k` terms -/
theorem s1Go_mech_real (nMech : Nat) (ems : List EM) (sig : List ℝ) :
    ∀ (outs : List (OutS1 ℝ)) (o : Nat) (mech err : List ℝ) (k : Nat), k < nMech →
      mech.length = nMech →
      (s1Go nMech ems sig o outs mech err).1.getD k 0
        = mech.getD k 0 + ((List.zipIdx outs o).map (fun (d, o') =>
            emDPsi (ems.getD o' .gauss) (sliceFor ems sig o') d.n d.ybar d.obs d.S k)).sum
  | [], _, _, _, _, _, _ => by simp [s1Go]
  | d :: ds, o, mech, err, k, hk, hl => by
    unfold s1Go
    rw [s1Go_mech_real nMech ems sig ds (o + 1) _ _ k hk (by simp)]
    simp only [List.zipIdx_cons, List.map_cons, List.sum_cons]
    have : ((List.range nMech).map (fun k => mech.getD k (ofNat 0)
        + emDPsi (ems.getD o .gauss) (sliceFor ems sig o) d.n d.ybar d.obs d.S k)).getD k 0
        = mech.getD k 0 + emDPsi (ems.getD o .gauss) (sliceFor ems sig o) d.n d.ybar d.obs d.S k := by
      simp [List.getD_eq_getElem?_getD, hk]
    rw [this]
    ring

/-- C03 (mechanistic block): entry `k < n_mech` of the returned gradient is
    `Σ_o ∂ℓ_o/∂ψ_k` — contributions of all outputs accumulate. -/
theorem C03_s1_mech_entry (nMech : Nat) (ems : List EM) (sig : List ℝ) (outs : List (OutS1 ℝ))
    (k : Nat) (hk : k < nMech) :
    (llS1Grad nMech ems sig outs).getD k 0
      = ((List.zipIdx outs 0).map (fun (d, o) =>
          emDPsi (ems.getD o .gauss) (sliceFor ems sig o) d.n d.ybar d.obs d.S k)).sum := by
  have hl := s1Go_mech_length nMech ems sig outs 0 ((List.range nMech).map (fun _ => (ofNat 0 : ℝ))) []
    (by simp)
  unfold llS1Grad
  simp only
  rw [List.getD_eq_getElem?_getD, List.getElem?_append_left (by omega), ← List.getD_eq_getElem?_getD,
    s1Go_mech_real nMech ems sig outs 0 _ _ k hk (by simp)]
  simp [List.getD_eq_getElem?_getD, hk]

/-- C03 (score agreement): wherever plain evaluation of an output yields a finite value, that
    value is the raw expression whose derivative `evaluateS1` reports (same formula, same guards). -/
theorem C03_score_agree {α : Type} [Add α] [Sub α] [Mul α] [Div α] [Neg α] [ScalarFns α]
    (m : EM) (sg : List α) (n : Nat) (yb ob : Nat → α) (v : α)
    (h : emLL m sg n yb ob = .val v) : v = emLLraw m sg n yb ob := by
  unfold emLL at h
  unfold emLLraw
  cases m <;> simp only at h ⊢
  · unfold gaussLL at h; split at h
    · cases h
    · injection h with h; exact h.symm
  · unfold multLL at h; split at h
    · cases h
    · split at h
      · cases h
      · injection h with h; exact h.symm
  · unfold cmLL at h; split at h
    · cases h
    · split at h
      · cases h
      · injection h with h; exact h.symm
  · unfold lnLL at h; split at h
    · cases h
    · split at h
      · cases h
      · injection h with h; exact h.symm

/-! ## posteriors and the hierarchical chain rule -/

/-- C03 (posterior): score and gradient of prior and likelihood add. -/
theorem C03_posterior_grad (prior ll : ℝ → ℝ) (p' l' t : ℝ) (hp : HasDerivAt prior p' t)
    (hl : HasDerivAt ll l' t) : HasDerivAt (fun s => prior s + ll s) (p' + l') t := hp.add hl

/-- C03 (hierarchical likelihood): along any differentiable curve of the flat parameter vector,
    if individual `i`'s parameters `ψ_i(s) ∈ ℝ^D` move with velocity `ψ_i'` and its likelihood is
    differentiable at `ψ_i(t)` with gradient (Fréchet derivative) `dL_i`, and the population
    log-density moves with derivative `P'`, then
    `d/ds [Σ_i L_i(ψ_i(s)) + P(s)] = Σ_i dL_i(ψ_i') + P'`
    — the upstream sensitivities `dlogp_dpsi` are propagated through the population transform by
    the chain rule and added to the population model's own sensitivities. -/
theorem C03_hier_chain {D : Nat} (nIds : Nat) (L : Nat → (Fin D → ℝ) → ℝ)
    (dL : Nat → ((Fin D → ℝ) →L[ℝ] ℝ)) (psi : Nat → ℝ → (Fin D → ℝ)) (psi' : Nat → (Fin D → ℝ))
    (P : ℝ → ℝ) (P' t : ℝ)
    (hL : ∀ i, i < nIds → HasFDerivAt (L i) (dL i) (psi i t))
    (hpsi : ∀ i, i < nIds → HasDerivAt (psi i) (psi' i) t) (hP : HasDerivAt P P' t) :
    HasDerivAt (fun s => (∑ i ∈ Finset.range nIds, L i (psi i s)) + P s)
      ((∑ i ∈ Finset.range nIds, dL i (psi' i)) + P') t := by
  refine HasDerivAt.add ?_ hP
  refine HasDerivAt.fun_sum (fun i hi => ?_)
  have hi' := Finset.mem_range.mp hi
  exact (hL i hi').comp_hasDerivAt t (hpsi i hi')

/-! ## the sensitivity switch: which columns `evaluateS1` receives after any history of
`fix_parameters` / `__call__` / `evaluateS1`, and the solver the dosing regimen is attached to -/

namespace Switch

/-- the free indices of a mask (what `St.free` computes from the state) -/
def freeOf (n : Nat) (mask : List Bool) : List Nat := (List.range n).filter (fun i => !(mask.getD i false))

theorem free_eq (s : St) : s.free = freeOf s.n s.mask := rfl

theorem freeOf_replicate (n : Nat) : freeOf n (List.replicate n false) = List.range n := by
  unfold freeOf
  rw [List.filter_eq_self]
  intro i hi
  have : i < n := List.mem_range.mp hi
  simp [List.getD_eq_getElem?_getD, List.getElem?_replicate, this]

theorem selectCols_freeOf (n : Nat) (mask : List Bool) :
    selectCols n (some (freeOf n mask)) = freeOf n mask := by
  unfold selectCols freeOf
  apply List.filter_congr
  intro i hi
  simp [List.mem_filter, List.mem_range.mp hi]

theorem updMask_length (n : Nat) (mask : List Bool) (upd : List (Nat × Bool)) :
    (updMask n mask upd).length = n := by simp [updMask]

theorem all_false_eq_replicate (l : List Bool) (h : l.all (fun b => !b) = true) :
    l = List.replicate l.length false := by
  rw [List.eq_replicate_iff]
  refine ⟨rfl, ?_⟩
  intro b hb
  have := (List.all_eq_true.mp h) b hb
  simpa using this

/-- the well-formed states: everything reachable from `init` -/
structure Inv (s : St) : Prop where
  reg : s.regimen = true → s.pkpd = true
  att : s.attached = true
  len : s.mask.length = s.n
  sel : s.on = true → s.sel = s.free
  emp : s.empty = true → s.on = false ∧ s.free = [] ∧ s.wrapped = true
  unw : s.wrapped = false → s.mask = List.replicate s.n false ∧ s.empty = false

theorem inv_init (n : Nat) (pkpd regimen : Bool) (h : regimen = true → pkpd = true) :
    Inv (init n pkpd regimen) := by
  constructor <;> simp [init] 
  exact h

theorem modelEnable_off (s : St) (h : s.regimen = true → s.pkpd = true) (ha : s.attached = true) :
    modelEnable s false none = .ok { s with on := false } := by
  rcases s with ⟨n, pkpd, regimen, wrapped, mask, empty, on, sel, attached⟩
  simp only at h ha
  subst ha
  cases pkpd <;> cases regimen <;> cases on <;> simp_all [modelEnable, pkpdEnable, sbmlEnable]

theorem modelEnable_on (s : St) (h : s.regimen = true → s.pkpd = true) (names : Option (List Nat))
    (hne : selectCols s.n names ≠ []) :
    modelEnable s true names = .ok { s with on := true, sel := selectCols s.n names, attached := true } := by
  rcases s with ⟨n, pkpd, regimen, wrapped, mask, empty, on, sel, attached⟩
  simp only at h hne
  have hne' : (selectCols n names).isEmpty = false := by
    cases hc : selectCols n names with
    | nil => exact absurd hc hne
    | cons a l => rfl
  cases pkpd <;> cases regimen <;> simp_all [modelEnable, pkpdEnable, sbmlEnable]

theorem wrapEnable_off (s : St) (h : s.regimen = true → s.pkpd = true) (ha : s.attached = true) :
    wrapEnable s false = .ok { s with empty := false, on := false } := by
  unfold wrapEnable
  simp only [Bool.not_false, if_true]
  rw [modelEnable_off { s with empty := false } h ha]

theorem wrapEnable_on_empty (s : St) (h : s.regimen = true → s.pkpd = true) (ha : s.attached = true)
    (hf : s.free = []) : wrapEnable s true = .ok { s with empty := true, on := false } := by
  unfold wrapEnable
  have e : ({ s with empty := false } : St).free = [] := hf
  simp only [Bool.not_true, e, List.isEmpty_nil, if_true]
  rw [modelEnable_off { s with empty := false } h ha]
  rfl

theorem wrapEnable_on (s : St) (h : s.regimen = true → s.pkpd = true)
    (hf : s.free ≠ []) :
    wrapEnable s true = .ok { s with empty := false, on := true, sel := s.free, attached := true } := by
  unfold wrapEnable
  have e : ({ s with empty := false } : St).free = s.free := rfl
  have hne' : (s.free).isEmpty = false := by
    cases hc : s.free with
    | nil => exact absurd hc hf
    | cons a l => rfl
  simp only [Bool.not_true, e, hne']
  have hs : selectCols s.n (some s.free) = s.free := by rw [free_eq, selectCols_freeOf]
  rw [modelEnable_on { s with empty := false } h (some s.free) (by simpa [hs] using hf)]
  simp only [hs]
  rfl


theorem llCall_spec (s : St) (h : Inv s) :
    ∃ s', llCall s = .ok s' ∧ Inv s' ∧ s'.n = s.n ∧ s'.mask = s.mask := by
  have h' := h
  obtain ⟨hreg, hatt, hlen, hsel, hemp, hunw⟩ := h'
  unfold llCall llHas llEnable
  cases hw : s.wrapped
  · -- the model itself
    simp only [Bool.false_eq_true, if_false]
    cases ho : s.on
    · exact ⟨s, by simp, h, rfl, rfl⟩
    · simp only [if_true]
      rw [modelEnable_off s hreg hatt]
      refine ⟨_, rfl, ?_, rfl, rfl⟩
      have hu := hunw hw
      constructor <;> first | assumption | simp_all [St.free, St.fixedAt]
  · simp only [if_true]
    cases hh : wrapHas s
    · exact ⟨s, by simp, h, rfl, rfl⟩
    · simp only [if_true]
      rw [wrapEnable_off s hreg hatt]
      refine ⟨_, rfl, ?_, rfl, rfl⟩
      constructor <;> first | assumption | simp_all [St.free, St.fixedAt]

theorem columns_eq (s : St) (h : Inv s) (hh : llHas s = true) : columns s = s.free := by
  obtain ⟨hreg, hatt, hlen, hsel, hemp, hunw⟩ := h
  unfold columns
  unfold llHas wrapHas at hh
  cases hw : s.wrapped <;> cases he : s.empty <;> cases ho : s.on <;> simp_all

theorem llS1_spec (s : St) (h : Inv s) (hn : 0 < s.n) :
    ∃ s', llS1 s = .ok s' ∧ Inv s' ∧ s'.n = s.n ∧ s'.mask = s.mask ∧ columns s' = freeOf s.n s.mask := by
  have h' := h
  obtain ⟨hreg, hatt, hlen, hsel, hemp, hunw⟩ := h'
  unfold llS1
  cases hh : llHas s
  · simp only [Bool.false_eq_true, if_false]
    unfold llEnable
    cases hw : s.wrapped
    · simp only [Bool.false_eq_true, if_false]
      have hu := hunw hw
      have hne : selectCols s.n none ≠ [] := by
        simp only [selectCols]
        intro hc
        have := congrArg List.length hc
        simp at this
        omega
      rw [modelEnable_on s hreg none hne]
      have hfree : s.free = List.range s.n := by rw [free_eq, hu.1, freeOf_replicate]
      refine ⟨_, rfl, ?_, rfl, rfl, ?_⟩
      · constructor
        case sel => intro _; exact hfree.symm
        all_goals first | assumption | simp_all [St.free, St.fixedAt, selectCols]
      · simp [columns, hw, selectCols, ← free_eq, hfree]
    · simp only [if_true]
      by_cases hf : s.free = []
      · rw [wrapEnable_on_empty s hreg hatt hf]
        refine ⟨_, rfl, ?_, rfl, rfl, ?_⟩
        · constructor <;> first | assumption | simp_all [St.free, St.fixedAt]
        · simp [columns, hw, ← free_eq, hf]
      · rw [wrapEnable_on s hreg hf]
        refine ⟨_, rfl, ?_, rfl, rfl, ?_⟩
        · constructor <;> first | assumption | simp_all [St.free, St.fixedAt]
        · simp [columns, hw, ← free_eq]
  · simp only [if_true]
    exact ⟨s, rfl, h, rfl, rfl, by rw [columns_eq s h hh, free_eq]⟩


theorem wrap_eq (s : St) (h : Inv s) :
    (if s.wrapped then s else { s with wrapped := true, mask := List.replicate s.n false, empty := false })
      = { s with wrapped := true } := by
  obtain ⟨hreg, hatt, hlen, hsel, hemp, hunw⟩ := h
  rcases s with ⟨n, pkpd, regimen, wrapped, mask, empty, on, sel, attached⟩
  cases wrapped
  · have hu := hunw rfl
    simp_all
  · simp

/-- the state after the wrapper's `fix_parameters` -/
theorem wrapFix_spec (s : St) (h : Inv s) (hw : s.wrapped = true) (upd : List (Nat × Bool)) :
    ∃ s', wrapFix s upd = .ok s' ∧ Inv s' ∧ s'.n = s.n ∧ s'.mask = updMask s.n s.mask upd
      ∧ s'.wrapped = true := by
  obtain ⟨hreg, hatt, hlen, hsel, hemp, hunw⟩ := h
  unfold wrapFix
  simp only
  cases hh : wrapHas { s with mask := updMask s.n s.mask upd }
  · simp only [Bool.false_eq_true, if_false]
    refine ⟨_, rfl, ?_, rfl, rfl, hw⟩
    have ho : s.on = false := by simp [wrapHas] at hh; exact hh.2
    have he : s.empty = false := by simp [wrapHas] at hh; exact hh.1
    constructor <;> first | assumption | simp_all [St.free, St.fixedAt, updMask_length]
  · simp only [if_true]
    by_cases hf : ({ s with mask := updMask s.n s.mask upd } : St).free = []
    · rw [wrapEnable_on_empty { s with mask := updMask s.n s.mask upd } hreg hatt hf]
      refine ⟨_, rfl, ?_, rfl, rfl, hw⟩
      constructor
      case emp => intro _; exact ⟨rfl, hf, hw⟩
      all_goals first | assumption | simp_all [St.free, St.fixedAt, updMask_length]
    · rw [wrapEnable_on { s with mask := updMask s.n s.mask upd } hreg hf]
      refine ⟨_, rfl, ?_, rfl, rfl, hw⟩
      constructor
      case sel => intro _; rfl
      all_goals first | assumption | simp_all [St.free, St.fixedAt, updMask_length]

theorem llFix_spec (s : St) (h : Inv s) (upd : List (Nat × Bool)) :
    ∃ s', llFix s upd = .ok s' ∧ Inv s' ∧ s'.n = s.n ∧ s'.mask = updMask s.n s.mask upd := by
  have hI : Inv { s with wrapped := true } := by
    obtain ⟨hreg, hatt, hlen, hsel, hemp, hunw⟩ := h
    constructor <;> first | assumption | simp_all [St.free, St.fixedAt]
  obtain ⟨s', e, hI', hn', hm', hw'⟩ := wrapFix_spec { s with wrapped := true } hI rfl upd
  unfold llFix
  simp only [wrap_eq s h, e]
  by_cases ha : (s'.mask.all fun b => !b) = true
  · simp only [ha, if_true]
    have hrep : s'.mask = List.replicate s'.n false := by
      have := all_false_eq_replicate s'.mask ha
      rw [hI'.len] at this
      exact this
    refine ⟨_, rfl, ?_, hn', ?_⟩
    · obtain ⟨hreg, hatt, hlen, hsel, hemp, hunw⟩ := hI'
      constructor
      case sel =>
        intro ho
        have := hsel ho
        simp only [free_eq] at this ⊢
        rw [this, hrep]
      all_goals first | assumption | simp_all [St.free, St.fixedAt]
    · simp only
      rw [← hrep, hm']
  · simp only [ha, Bool.false_eq_true, if_false]
    exact ⟨s', rfl, hI', hn', hm'⟩


/-- the history-free description of what evaluations see: the mask is the only thing a history leaves
    behind; `evaluateS1` receives exactly the columns of the currently free mechanistic parameters, in the
    published order, and every evaluation runs on a solver with the regimen attached -/
def specRun (n : Nat) : List Bool → List Op → List Seen
  | _, [] => []
  | m, .fix upd :: ops => .fixed :: specRun n (updMask n m upd) ops
  | m, .call :: ops => .plain true :: specRun n m ops
  | m, .s1 :: ops => .sens (freeOf n m) true :: specRun n m ops

end Switch
open Switch

/-- C03 (sensitivity switch, one step): from a well-formed state every operation succeeds, leaves a
    well-formed state, changes the mask only through `fix_parameters`, and an `evaluateS1` sees the columns
    of exactly the free mechanistic parameters. -/
theorem C03_switch_step (s : St) (h : Inv s) (hn : 0 < s.n) (op : Op) :
    ∃ s', step s op = .ok s' ∧ Inv s' ∧ s'.n = s.n ∧
      (match op with
        | .fix upd => s'.mask = updMask s.n s.mask upd
        | .call => s'.mask = s.mask
        | .s1 => s'.mask = s.mask ∧ columns s' = freeOf s.n s.mask) := by
  cases op with
  | fix upd => exact llFix_spec s h upd
  | call => exact llCall_spec s h
  | s1 =>
    obtain ⟨s', e, hI, hn', hm, hc⟩ := llS1_spec s h hn
    exact ⟨s', e, hI, hn', hm, hc⟩

/-- C03 (sensitivity switch, all histories): whatever sequence of `fix_parameters` (any mixture of fixing and
    releasing per call), `__call__` and `evaluateS1` a likelihood has gone through, the mechanistic
    sensitivities used by `evaluateS1` are those with respect to the currently free mechanistic parameters in
    the published order — so `sensitivities[:n_mech] += s[:n_mech]` adds like to like —, no evaluation
    raises, and every evaluation, plain or with sensitivities, runs with the dosing regimen attached. -/
theorem C03_switch_history (s : St) (h : Inv s) (hn : 0 < s.n) (ops : List Op) :
    run s ops = specRun s.n s.mask ops := by
  induction ops generalizing s with
  | nil => rfl
  | cons op ops ih =>
    obtain ⟨s', e, hI, hn', hm⟩ := C03_switch_step s h hn op
    cases op with
    | fix upd =>
      simp only [run, e, specRun]
      rw [ih s' hI (by omega), hn', hm]
    | call =>
      simp only [run, e, specRun]
      rw [ih s' hI (by omega), hn', hm, hI.att]
    | s1 =>
      simp only [run, e, specRun]
      rw [ih s' hI (by omega), hn', hm.1, hm.2, hI.att]

/-- … in particular for a newly built likelihood (a regimen can only have been set on a `PKPDModel`) -/
theorem C03_switch_from_new (n : Nat) (pkpd regimen : Bool) (hreg : regimen = true → pkpd = true)
    (hn : 0 < n) (ops : List Op) :
    run (init n pkpd regimen) ops = specRun n (List.replicate n false) ops :=
  C03_switch_history (init n pkpd regimen) (inv_init n pkpd regimen hreg) hn ops

/-- the delivered columns are the free parameters in increasing position: column `j` of the sensitivity array
    belongs to the `j`-th published mechanistic name -/
theorem C03_switch_columns_published_order (n : Nat) (mask : List Bool) :
    (freeOf n mask).Sublist (List.range n) ∧
    ∀ i, i ∈ freeOf n mask ↔ i < n ∧ mask.getD i false = false := by
  refine ⟨List.filter_sublist, fun i => ?_⟩
  simp [freeOf, List.mem_filter]

/-- why `PKPDModel` overrides `enable_sensitivities`: the base class builds the new solver without protocol,
    so for a model with a regimen the solver in use would not carry it -/
theorem C03_switch_new_solver_has_no_protocol (s s' : St) (names : Option (List Nat))
    (h : sbmlEnable s true names = .ok s') : s'.attached = !s.regimen := by
  unfold sbmlEnable at h
  simp only [Bool.not_true, Bool.false_eq_true, if_false] at h
  split at h
  · cases h
  · cases h; rfl

/-- non-vacuity: a parameter fixed for an analysis with sensitivities and released afterwards -/
example : run (init 3 true true) [.fix [(2, true)], .s1, .fix [(2, false)], .s1, .call, .s1]
    = [.fixed, .sens [0, 1] true, .fixed, .sens [0, 1, 2] true, .plain true, .sens [0, 1, 2] true] := by
  decide

/-- every mechanistic parameter fixed: an array without columns, and the plain solver in use -/
example : run (init 2 false false) [.fix [(0, true), (1, true)], .s1, .call, .fix [(1, false)], .s1]
    = [.fixed, .sens [] true, .plain true, .fixed, .sens [1] true] := by
  decide

/-! ### user-defined parameter names (`set_parameter_names`)

The reduced wrapper knows the model's parameters by their PUBLISHED names and asks for the sensitivities of the
free ones by those names; the model keeps a map from its own (model-file) names to the published ones. The
selection made on names is the selection on positions the state machine above works with. -/

/-- for distinct published names: selecting the parameters whose published name is among the published names
    of `free` selects exactly the positions in `free` (in the model's order) -/
theorem C03_switch_renamed_selection (pub : List String) (free : List Nat) (hn : pub.Nodup)
    (hf : ∀ i ∈ free, i < pub.length) :
    selectByNames pub (requestedNames pub free) = selectCols pub.length (some free) := by
  unfold selectByNames requestedNames selectCols
  apply List.filter_congr
  intro i hi
  have hi' : i < pub.length := List.mem_range.mp hi
  rw [Bool.eq_iff_iff]
  simp only [List.contains_iff_mem, List.mem_map]
  constructor
  · rintro ⟨j, hj, e⟩
    have hj' := hf j hj
    have : j = i := by
      simp only [List.getD_eq_getElem?_getD, List.getElem?_eq_getElem hj', List.getElem?_eq_getElem hi', Option.getD_some] at e
      exact (hn.getElem_inj_iff).mp e
    exact this ▸ hj
  · intro h; exact ⟨i, h, rfl⟩

/-- selecting by the model file's own names instead misses every renamed free parameter -/
theorem C03_switch_own_names_counterexample :
    selectByNames ["central.size", "global.elimination_rate"]
        (requestedNames ["central.size", "Elimination rate"] [1]) = []
    ∧ selectByNames ["central.size", "Elimination rate"]
        (requestedNames ["central.size", "Elimination rate"] [1]) = [1] := by
  decide

/-- in a state of the switch: asked, by their published names, for the free parameters, the model selects
    exactly the free parameters in published order — whatever (distinct) names the user gave -/
theorem C03_switch_renamed_free (s : St) (shown : List String) (hn : shown.Nodup) (hl : shown.length = s.n) :
    selectByNames shown (requestedNames shown s.free) = s.free := by
  have hf : ∀ i ∈ s.free, i < shown.length := by
    intro i hi
    have := (List.mem_filter.mp hi).1
    rw [hl]; exact List.mem_range.mp this
  rw [C03_switch_renamed_selection shown s.free hn hf, hl]
  unfold selectCols St.free
  apply List.filter_congr
  intro i hi
  rw [Bool.eq_iff_iff]
  simp only [List.contains_iff_mem, List.mem_filter]
  exact ⟨fun h => h.2, fun h => ⟨hi, h⟩⟩

end ChiModel

/-! ## end to end: the assembled vector is the gradient of the evaluated log-likelihood

The pieces above (`em_hasDerivAt`, `C03_loglik_hasDerivAt`, `C03_s1_mech_entry`) put together for the
parametrisation `evaluateS1` publishes: the mechanistic model is ANY family of functions `ψ ↦ ȳ_{o,j}(ψ)`
whose partial derivatives at the evaluation point are the sensitivities the solver reports. -/
namespace ChiModel
open ScalarFns

/-- one output of an individual's likelihood as a function of the mechanistic parameters `ψ` -/
structure OutFn where
  n : Nat
  obs : Nat → ℝ
  /-- prediction at measurement `j` given `ψ` (the mechanistic model solved and selected) -/
  Y : (Nat → ℝ) → Nat → ℝ
  /-- the sensitivities the solver reports at the evaluation point: `S j k = ∂ȳ_j/∂ψ_k` -/
  S : Nat → Nat → ℝ

/-- what `evaluateS1` sees of the output at the point `ψ` -/
def OutFn.at (f : OutFn) (ψ : Nat → ℝ) : OutS1 ℝ := { n := f.n, ybar := f.Y ψ, S := f.S, obs := f.obs }

/-- the evaluated log-likelihood (in-support expression) as a function of `ψ`; `o` is the index of the
    first output of the list (its error model is `ems[o]`, its parameters `sliceFor ems sig o`) -/
noncomputable def llOf (ems : List EM) (sig : List ℝ) : Nat → List OutFn → (Nat → ℝ) → ℝ
  | _, [], _ => 0
  | o, f :: fs, ψ => emLLraw (ems.getD o .gauss) (sliceFor ems sig o) f.n (f.Y ψ) f.obs
      + llOf ems sig (o + 1) fs ψ

theorem emLLraw_pair (m : EM) (sg : List ℝ) (n : Nat) (yb ob : Nat → ℝ) :
    emLLraw m [sg.getD 0 0, sg.getD 1 0] n yb ob = emLLraw m sg n yb ob := by
  unfold emLLraw; simp

theorem emDPsi_pair (m : EM) (sg : List ℝ) (n : Nat) (yb ob : Nat → ℝ) (S : Nat → Nat → ℝ) (k : Nat) :
    emDPsi m [sg.getD 0 0, sg.getD 1 0] n yb ob (fun j _ => S j k) 0 = emDPsi m sg n yb ob S k := by
  unfold emDPsi
  cases m <;> simp [gaussDPsi, multDPsi, cmDPsi, lnDPsi]

theorem llOf_hasDerivAt (nMech : Nat) (ems : List EM) (sig : List ℝ) (ψ : Nat → ℝ) (k : Nat) :
    ∀ (fs : List OutFn) (o : Nat),
    (∀ f ∈ fs, ∀ j, j < f.n → HasDerivAt (fun x => f.Y (Function.update ψ k x) j) (f.S j k) (ψ k)) →
    (∀ p ∈ List.zipIdx fs o, InSupport (ems.getD p.2 .gauss) ((sliceFor ems sig p.2).getD 0 0)
        ((sliceFor ems sig p.2).getD 1 0) p.1.n (p.1.Y ψ)) →
    HasDerivAt (fun x => llOf ems sig o fs (Function.update ψ k x))
      (((List.zipIdx fs o).map (fun p => emDPsi (ems.getD p.2 .gauss) (sliceFor ems sig p.2) p.1.n
          (p.1.Y ψ) p.1.obs p.1.S k)).sum) (ψ k)
  | [], o, _, _ => by simpa [llOf] using hasDerivAt_const (ψ k) (0:ℝ)
  | f :: fs, o, hS, hsupp => by
    have ih := llOf_hasDerivAt nMech ems sig ψ k fs (o + 1)
      (fun g hg => hS g (List.mem_cons_of_mem _ hg))
      (fun p hp => hsupp p (by simp [List.zipIdx_cons]; exact Or.inr hp))
    have h1 := em_hasDerivAt (ems.getD o .gauss) f.n f.obs
      (fun _ => (sliceFor ems sig o).getD 0 0) (fun _ => (sliceFor ems sig o).getD 1 0) 0 0
      (fun j x => f.Y (Function.update ψ k x) j) (fun j => f.S j k) (ψ k)
      (hasDerivAt_const _ _) (hasDerivAt_const _ _)
      (fun j hj => hS f List.mem_cons_self j hj)
      (by
        have := hsupp (f, o) (by simp [List.zipIdx_cons])
        simpa [Function.update_eq_self] using this)
    simp only [Function.update_eq_self, mul_zero, add_zero, ite_self, zero_add, emLLraw_pair,
      emDPsi_pair] at h1
    simp only [llOf, List.zipIdx_cons, List.map_cons, List.sum_cons]
    exact h1.add ih

end ChiModel

namespace ChiModel
open ScalarFns

/-- **C03 (individual likelihood, end to end, mechanistic block).** Let the mechanistic model's predictions be
    any functions `Y_o(ψ)` whose partial derivatives at the evaluation point are the sensitivities `S_o` the
    solver reports. Then entry `k < n_mech` of the vector `LogLikelihood.evaluateS1` assembles IS the partial
    derivative `∂/∂ψ_k` of the log-likelihood that is evaluated — for any number of outputs, any assignment of
    the four error models, any numbers of measurements. -/
theorem C03_s1_mech_is_partial (nMech : Nat) (ems : List EM) (sig : List ℝ) (fs : List OutFn)
    (ψ : Nat → ℝ) (k : Nat) (hk : k < nMech)
    (hS : ∀ f ∈ fs, ∀ j, j < f.n →
      HasDerivAt (fun x => f.Y (Function.update ψ k x) j) (f.S j k) (ψ k))
    (hsupp : ∀ p ∈ List.zipIdx fs 0, InSupport (ems.getD p.2 .gauss) ((sliceFor ems sig p.2).getD 0 0)
        ((sliceFor ems sig p.2).getD 1 0) p.1.n (p.1.Y ψ)) :
    HasDerivAt (fun x => llOf ems sig 0 fs (Function.update ψ k x))
      ((llS1Grad nMech ems sig (fs.map (fun f => f.at ψ))).getD k 0) (ψ k) := by
  have h := llOf_hasDerivAt nMech ems sig ψ k fs 0 hS hsupp
  refine h.congr_deriv ?_
  rw [C03_s1_mech_entry nMech ems sig _ k hk, List.zipIdx_map, List.map_map]
  rfl

/-- the accumulated raw score of `evaluateS1` is the function that is differentiated -/
theorem llS1Raw_eq_llOf (ems : List EM) (sig : List ℝ) (ψ : Nat → ℝ) :
    ∀ (fs : List OutFn) (o : Nat), llS1Raw ems sig o (fs.map (fun f => f.at ψ)) = llOf ems sig o fs ψ
  | [], _ => by simp [llS1Raw, llOf]
  | f :: fs, o => by
    simp only [List.map_cons, llS1Raw, llOf, llS1Raw_eq_llOf ems sig ψ fs (o + 1)]
    rfl

end ChiModel

/-! ### the error-parameter block -/
namespace ChiModel
open ScalarFns

/-- start of output `o`'s block among the error parameters -/
def errStartOf (ems : List EM) (o : Nat) : Nat := ((ems.take o).map EM.nParams).sum

theorem sliceFor_set (ems : List EM) (sig : List ℝ) (i : Nat) (x : ℝ) (o : Nat) :
    sliceFor ems (sig.set i x) o
      = if i < errStartOf ems o then sliceFor ems sig o
        else (sliceFor ems sig o).set (i - errStartOf ems o) x := by
  unfold sliceFor errStartOf
  simp only [List.drop_set]
  split
  · rfl
  · rw [List.take_set]

/-- entry `start(q) + e` of a concatenation of blocks is entry `e` of block `q` -/
theorem flatMap_block_getD {β : Type} (f : β → List ℝ) :
    ∀ (l : List β) (q : Nat) (hq : q < l.length) (e : Nat), e < (f l[q]).length →
      (l.flatMap f).getD (((l.take q).map (fun b => (f b).length)).sum + e) 0 = (f l[q]).getD e 0
  | [], q, hq, _, _ => by simp at hq
  | b :: bs, 0, _, e, he => by
    simp only [List.flatMap_cons, List.take_zero, List.map_nil, List.sum_nil, Nat.zero_add,
      List.getElem_cons_zero] at he ⊢
    rw [List.getD_eq_getElem?_getD, List.getElem?_append_left he, ← List.getD_eq_getElem?_getD]
  | b :: bs, q + 1, hq, e, he => by
    have hq' : q < bs.length := by simpa using hq
    have ih := flatMap_block_getD f bs q hq' e (by simpa using he)
    simp only [List.flatMap_cons, List.take_succ_cons, List.map_cons, List.sum_cons,
      List.getElem_cons_succ]
    rw [List.getD_eq_getElem?_getD, List.getElem?_append_right (by omega)]
    rw [show (f b).length + ((bs.take q).map (fun b => (f b).length)).sum + e - (f b).length
        = ((bs.take q).map (fun b => (f b).length)).sum + e by omega]
    rw [← List.getD_eq_getElem?_getD]
    exact ih

end ChiModel

namespace ChiModel
open ScalarFns

theorem zipIdx_take_map_snd {β γ : Type} (g : Nat → γ) :
    ∀ (l : List β) (k q : Nat), q ≤ l.length →
      ((List.zipIdx l k).take q).map (fun p => g p.2) = (List.range' k q).map g
  | _, _, 0, _ => by simp
  | [], _, q + 1, h => by simp at h
  | b :: bs, k, q + 1, h => by
    simp only [List.zipIdx_cons, List.take_succ_cons, List.map_cons, List.range'_succ]
    rw [zipIdx_take_map_snd g bs (k + 1) q (by simpa using h)]

theorem rangeFrom_map_getD {γ : Type} (h : EM → γ) :
    ∀ (ems : List EM) (q : Nat), q ≤ ems.length →
      (List.range' 0 q).map (fun i => h (ems.getD i .gauss)) = (ems.take q).map h := by
  intro ems q hq
  apply List.ext_getElem
  · simp [Nat.min_eq_left hq]
  · intro i h1 h2
    simp only [List.length_map, List.length_range'] at h1
    simp [List.getD_eq_getElem?_getD, List.getElem?_eq_getElem (show i < ems.length by omega)]

theorem s1_err_entry (nMech : Nat) (ems : List EM) (sig : List ℝ) (outs : List (OutS1 ℝ)) (o0 e : Nat)
    (ho : o0 < outs.length) (hle : outs.length ≤ ems.length) (he : e < (ems.getD o0 .gauss).nParams) :
    (llS1Grad nMech ems sig outs).getD (nMech + (errStartOf ems o0 + e)) 0
      = emDSig (ems.getD o0 .gauss) (sliceFor ems sig o0) outs[o0].n outs[o0].ybar outs[o0].obs e := by
  have hl := (C03_s1_layout nMech ems sig outs).2
  have h1 : (llS1Grad nMech ems sig outs).getD (nMech + (errStartOf ems o0 + e)) 0
      = ((llS1Grad nMech ems sig outs).drop nMech).getD (errStartOf ems o0 + e) 0 := by
    simp [List.getD_eq_getElem?_getD, List.getElem?_drop]
  rw [h1, hl]
  have hq : o0 < (List.zipIdx outs 0).length := by simpa using ho
  have hb := flatMap_block_getD (fun (p : OutS1 ℝ × Nat) =>
      (List.range (ems.getD p.2 .gauss).nParams).map (fun e =>
        emDSig (ems.getD p.2 .gauss) (sliceFor ems sig p.2) p.1.n p.1.ybar p.1.obs e))
    (List.zipIdx outs 0) o0 hq e (by simpa using he)
  have hstart : (((List.zipIdx outs 0).take o0).map (fun p =>
      ((List.range (ems.getD p.2 .gauss).nParams).map (fun e =>
        emDSig (ems.getD p.2 .gauss) (sliceFor ems sig p.2) p.1.n p.1.ybar p.1.obs e)).length)).sum
      = errStartOf ems o0 := by
    simp only [List.length_map, List.length_range]
    rw [zipIdx_take_map_snd (fun o => (ems.getD o .gauss).nParams) outs 0 o0 (by omega),
      rangeFrom_map_getD EM.nParams ems o0 (by omega)]
    rfl
  rw [hstart] at hb
  refine Eq.trans hb ?_
  have he' := he
  simp only [List.getD_eq_getElem?_getD] at he'
  simp [List.getD_eq_getElem?_getD, List.getElem?_range he']

end ChiModel

namespace ChiModel
open ScalarFns

theorem errStartOf_cons_succ (m : EM) (ms : List EM) (o : Nat) :
    errStartOf (m :: ms) (o + 1) = m.nParams + errStartOf ms o := by
  simp [errStartOf]

theorem errStartOf_succ_le : ∀ (ems : List EM) (o o' : Nat), o < o' → o < ems.length →
    errStartOf ems o + (ems.getD o .gauss).nParams ≤ errStartOf ems o'
  | [], _, _, _, h => by simp at h
  | m :: ms, 0, o' + 1, _, _ => by
    rw [errStartOf_cons_succ]; simp [errStartOf]
  | m :: ms, o + 1, 0, h, _ => by omega
  | m :: ms, o + 1, o' + 1, h, hl => by
    rw [errStartOf_cons_succ, errStartOf_cons_succ]
    have := errStartOf_succ_le ms o o' (by omega) (by simpa using hl)
    simp only [List.getD_cons_succ]
    omega

theorem sliceFor_length_le (ems : List EM) (sig : List ℝ) (o : Nat) :
    (sliceFor ems sig o).length ≤ (ems.getD o .gauss).nParams := by
  unfold sliceFor; simp

/-- changing an entry of another output's block leaves this output's slice alone -/
theorem sliceFor_set_other (ems : List EM) (sig : List ℝ) (o0 e o : Nat) (x : ℝ)
    (ho0 : o0 < ems.length) (ho : o < ems.length) (he : e < (ems.getD o0 .gauss).nParams) (hne : o ≠ o0) :
    sliceFor ems (sig.set (errStartOf ems o0 + e) x) o = sliceFor ems sig o := by
  rw [sliceFor_set]
  rcases Nat.lt_or_gt_of_ne hne with h | h
  · -- o < o0: the position lies behind this block
    have := errStartOf_succ_le ems o o0 h ho
    have hl := sliceFor_length_le ems sig o
    rw [if_neg (by omega), List.set_eq_of_length_le (by omega)]
  · have := errStartOf_succ_le ems o0 o h ho0
    rw [if_pos (by omega)]

theorem sliceFor_set_own (ems : List EM) (sig : List ℝ) (o0 e : Nat) (x : ℝ) :
    sliceFor ems (sig.set (errStartOf ems o0 + e) x) o0 = (sliceFor ems sig o0).set e x := by
  rw [sliceFor_set, if_neg (by omega)]
  congr 1
  omega

theorem sliceFor_getD (ems : List EM) (sig : List ℝ) (o0 e : Nat) (he : e < (ems.getD o0 .gauss).nParams) :
    (sliceFor ems sig o0).getD e 0 = sig.getD (errStartOf ems o0 + e) 0 := by
  unfold sliceFor errStartOf
  have he' := he
  simp only [List.getD_eq_getElem?_getD] at he'
  simp [List.getD_eq_getElem?_getD, List.getElem?_take, he']

theorem sliceFor_lt_length (ems : List EM) (sig : List ℝ) (o0 e : Nat) (he : e < (ems.getD o0 .gauss).nParams)
    (hi : errStartOf ems o0 + e < sig.length) : e < (sliceFor ems sig o0).length := by
  unfold sliceFor errStartOf at *
  simp only [List.getD_eq_getElem?_getD] at he
  simp only [List.map_take] at hi
  simp [List.getD_eq_getElem?_getD]
  omega

end ChiModel

namespace ChiModel
open ScalarFns

theorem emDPsi_zero (m : EM) (sg : List ℝ) (n : Nat) (yb ob : Nat → ℝ) :
    emDPsi m sg n yb ob (fun _ _ => (0:ℝ)) 0 = 0 := by
  unfold emDPsi
  cases m <;> simp [gaussDPsi, multDPsi, cmDPsi, lnDPsi, isum_eq]

theorem emLLraw_congr (m : EM) (a b : List ℝ) (n : Nat) (yb ob : Nat → ℝ)
    (h0 : a.getD 0 0 = b.getD 0 0) (h1 : a.getD 1 0 = b.getD 1 0) :
    emLLraw m a n yb ob = emLLraw m b n yb ob := by
  unfold emLLraw; simp only [ofNat_real, Nat.cast_zero, h0, h1]

theorem emDSig_congr (m : EM) (a b : List ℝ) (n : Nat) (yb ob : Nat → ℝ) (e : Nat)
    (h0 : a.getD 0 0 = b.getD 0 0) (h1 : a.getD 1 0 = b.getD 1 0) :
    emDSig m a n yb ob e = emDSig m b n yb ob e := by
  unfold emDSig; simp only [ofNat_real, Nat.cast_zero, h0, h1]

/-- one output's term as a function of ITS OWN error parameter `e` -/
theorem em_own_sigma_hasDerivAt (m : EM) (sl : List ℝ) (n : Nat) (yb ob : Nat → ℝ) (e : Nat)
    (he : e < m.nParams) (hl : e < sl.length)
    (hsupp : InSupport m (sl.getD 0 0) (sl.getD 1 0) n yb) :
    HasDerivAt (fun x => emLLraw m (sl.set e x) n yb ob) (emDSig m sl n yb ob e) (sl.getD e 0) := by
  have hset0 : ∀ x, (sl.set e x).getD 0 0 = if e = 0 then x else sl.getD 0 0 := by
    intro x; by_cases h : e = 0
    · subst h; simp [List.getD_eq_getElem?_getD, List.getElem?_set, hl]
    · simp [List.getD_eq_getElem?_getD, List.getElem?_set, h]
  have hset1 : ∀ x, (sl.set e x).getD 1 0 = if e = 1 then x else sl.getD 1 0 := by
    intro x; by_cases h : e = 1
    · subst h; simp [List.getD_eq_getElem?_getD, List.getElem?_set, hl]
    · simp [List.getD_eq_getElem?_getD, List.getElem?_set, h]
  have hd0 : HasDerivAt (fun x => (sl.set e x).getD 0 0) (if e = 0 then 1 else 0) (sl.getD e 0) := by
    simp only [hset0]; split
    · exact hasDerivAt_id _
    · exact hasDerivAt_const _ _
  have hd1 : HasDerivAt (fun x => (sl.set e x).getD 1 0) (if e = 1 then 1 else 0) (sl.getD e 0) := by
    simp only [hset1]; split
    · exact hasDerivAt_id _
    · exact hasDerivAt_const _ _
  have hat0 : (sl.set e (sl.getD e 0)).getD 0 0 = sl.getD 0 0 := by
    rw [hset0]; split
    · next h => subst h; rfl
    · rfl
  have hat1 : (sl.set e (sl.getD e 0)).getD 1 0 = sl.getD 1 0 := by
    rw [hset1]; split
    · next h => subst h; rfl
    · rfl
  have h := em_hasDerivAt m n ob (fun x => (sl.set e x).getD 0 0) (fun x => (sl.set e x).getD 1 0)
    (if e = 0 then 1 else 0) (if e = 1 then 1 else 0) (fun j _ => yb j) (fun _ => 0) (sl.getD e 0)
    hd0 hd1 (fun j _ => hasDerivAt_const _ _) (by simpa only [hat0, hat1] using hsupp)
  simp only [emLLraw_pair, emDPsi_zero, add_zero, hat0, hat1] at h
  refine h.congr_deriv ?_
  have hsig : ∀ e', emDSig m [sl.getD 0 0, sl.getD 1 0] n yb ob e' = emDSig m sl n yb ob e' :=
    fun e' => emDSig_congr m _ sl n yb ob e' (by simp) (by simp)
  simp only [hsig]
  cases m
  · have : e = 0 := by simp [EM.nParams] at he; omega
    subst this; simp [emDSig]
  · have : e = 0 := by simp [EM.nParams] at he; omega
    subst this; simp [emDSig]
  · have : e = 0 ∨ e = 1 := by simp [EM.nParams] at he; omega
    rcases this with h | h <;> subst h <;> simp [emDSig]
  · have : e = 0 := by simp [EM.nParams] at he; omega
    subst this; simp [emDSig]

end ChiModel

namespace ChiModel
open ScalarFns

/-- the sum over outputs, differentiated w.r.t. the error parameter `e` of output `o₀` (position
    `errStartOf ems o₀ + e` of the error block): only output `o₀`'s term moves -/
theorem llOf_sig_hasDerivAt (ems : List EM) (sig : List ℝ) (ψ : Nat → ℝ) (o0 e : Nat)
    (ho0 : o0 < ems.length) (he : e < (ems.getD o0 .gauss).nParams)
    (hi : errStartOf ems o0 + e < sig.length) :
    ∀ (fs : List OutFn) (o : Nat), o + fs.length ≤ ems.length →
    (∀ p ∈ List.zipIdx fs o, InSupport (ems.getD p.2 .gauss) ((sliceFor ems sig p.2).getD 0 0)
        ((sliceFor ems sig p.2).getD 1 0) p.1.n (p.1.Y ψ)) →
    HasDerivAt (fun x => llOf ems (sig.set (errStartOf ems o0 + e) x) o fs ψ)
      (((List.zipIdx fs o).map (fun p => if p.2 = o0 then
          emDSig (ems.getD o0 .gauss) (sliceFor ems sig o0) p.1.n (p.1.Y ψ) p.1.obs e else 0)).sum)
      (sig.getD (errStartOf ems o0 + e) 0)
  | [], o, _, _ => by simpa [llOf] using hasDerivAt_const _ (0:ℝ)
  | f :: fs, o, hlen, hsupp => by
    have ih := llOf_sig_hasDerivAt ems sig ψ o0 e ho0 he hi fs (o + 1)
      (by simp at hlen; omega)
      (fun p hp => hsupp p (by simp [List.zipIdx_cons]; exact Or.inr hp))
    simp only [llOf, List.zipIdx_cons, List.map_cons, List.sum_cons]
    refine HasDerivAt.add ?_ ih
    by_cases h : o = o0
    · subst h
      simp only [if_true, sliceFor_set_own]
      have hs := hsupp (f, o) (by simp [List.zipIdx_cons])
      have := em_own_sigma_hasDerivAt (ems.getD o .gauss) (sliceFor ems sig o) f.n (f.Y ψ) f.obs e he
        (sliceFor_lt_length ems sig o e he hi) hs
      rwa [sliceFor_getD ems sig o e he] at this
    · have ho : o < ems.length := by simp at hlen; omega
      simp only [if_neg h, sliceFor_set_other ems sig o0 e o _ ho0 ho he h]
      exact hasDerivAt_const _ _

/-- **C03 (individual likelihood, end to end, error-parameter block).** Entry `n_mech + start(o₀) + e` of the
    vector `LogLikelihood.evaluateS1` assembles IS the partial derivative of the evaluated log-likelihood w.r.t.
    the `e`-th error parameter of output `o₀` — the parameter at that very position of the published parameter
    vector — for any number of outputs and any assignment of the four error models. -/
theorem C03_s1_sigma_is_partial (nMech : Nat) (ems : List EM) (sig : List ℝ) (fs : List OutFn)
    (ψ : Nat → ℝ) (o0 e : Nat) (hlen : fs.length = ems.length) (ho0 : o0 < ems.length)
    (he : e < (ems.getD o0 .gauss).nParams) (hi : errStartOf ems o0 + e < sig.length)
    (hsupp : ∀ p ∈ List.zipIdx fs 0, InSupport (ems.getD p.2 .gauss) ((sliceFor ems sig p.2).getD 0 0)
        ((sliceFor ems sig p.2).getD 1 0) p.1.n (p.1.Y ψ)) :
    HasDerivAt (fun x => llOf ems (sig.set (errStartOf ems o0 + e) x) 0 fs ψ)
      ((llS1Grad nMech ems sig (fs.map (fun f => f.at ψ))).getD (nMech + (errStartOf ems o0 + e)) 0)
      (sig.getD (errStartOf ems o0 + e) 0) := by
  have h := llOf_sig_hasDerivAt ems sig ψ o0 e ho0 he hi fs 0 (by omega) hsupp
  refine h.congr_deriv ?_
  have ho : o0 < (fs.map (fun f => f.at ψ)).length := by simp; omega
  rw [s1_err_entry nMech ems sig (fs.map (fun f => f.at ψ)) o0 e ho (by simp; omega) he]
  -- the sum has exactly one non-zero term, at position o0
  have key : ∀ (l : List OutFn) (k : Nat) (hk : k ≤ o0) (hl : o0 < k + l.length),
      ((List.zipIdx l k).map (fun p => if p.2 = o0 then
          emDSig (ems.getD o0 .gauss) (sliceFor ems sig o0) p.1.n (p.1.Y ψ) p.1.obs e else 0)).sum
        = emDSig (ems.getD o0 .gauss) (sliceFor ems sig o0) (l[o0 - k]'(by omega)).n
            ((l[o0 - k]'(by omega)).Y ψ) (l[o0 - k]'(by omega)).obs e := by
    intro l
    induction l with
    | nil => intro k hk hl; simp at hl; omega
    | cons f fs ih =>
      intro k hk hl
      simp only [List.zipIdx_cons, List.map_cons, List.sum_cons]
      by_cases h : k = o0
      · subst h
        have hz : ((List.zipIdx fs (k + 1)).map (fun p => if p.2 = k then
            emDSig (ems.getD k .gauss) (sliceFor ems sig k) p.1.n (p.1.Y ψ) p.1.obs e else 0)).sum = 0 := by
          apply List.sum_eq_zero
          intro x hx
          simp only [List.mem_map] at hx
          obtain ⟨p, hp, rfl⟩ := hx
          have := List.mem_zipIdx hp
          rw [if_neg (by omega)]
        rw [hz]; simp
      · have := ih (k + 1) (by omega) (by simp at hl; omega)
        rw [if_neg h, zero_add, this]
        have e1 : o0 - k = (o0 - (k + 1)) + 1 := by omega
        simp only [e1, List.getElem_cons_succ]
  rw [key fs 0 (by omega) (by omega)]
  simp [OutFn.at]

end ChiModel

namespace ChiModel
/-- non-vacuity: a Gaussian output whose prediction is `ψ₀` itself meets the hypotheses of both theorems -/
example : let f : OutFn := { n := 1, obs := fun _ => 1, Y := fun ψ _ => ψ 0, S := fun _ k => if k = 0 then 1 else 0 }
    (∀ j, j < f.n → HasDerivAt (fun x => f.Y (Function.update (fun _ => (2:ℝ)) 0 x) j) (f.S j 0) 2) ∧
    InSupport .gauss ((sliceFor [EM.gauss] [(1:ℝ)] 0).getD 0 0) ((sliceFor [EM.gauss] [(1:ℝ)] 0).getD 1 0) f.n
      (f.Y (fun _ => 2)) ∧ errStartOf [EM.gauss] 0 + 0 < [(1:ℝ)].length := by
  intro f
  refine ⟨fun j _ => ?_, ?_, ?_⟩
  · simp only [f, Function.update_self, if_true]
    exact hasDerivAt_id' (2:ℝ)
  · simp [InSupport, sliceFor, EM.nParams]
  · simp [errStartOf]
end ChiModel

/-! ### the whole vector as a gradient along curves (the hypothesis of C05's population-level theorems) -/
namespace ChiModel
open ScalarFns

/-- `emDPsi` is linear in the sensitivities: a directional derivative of the predictions with velocity
    `Σ_k S j k · v k` contributes `Σ_k (∂/∂ψ_k) · v k` -/
theorem emDPsi_linear (m : EM) (sg : List ℝ) (n : Nat) (yb ob : Nat → ℝ) (S : Nat → Nat → ℝ)
    (nMech : Nat) (v : Nat → ℝ) :
    emDPsi m sg n yb ob (fun j _ => ∑ k ∈ Finset.range nMech, S j k * v k) 0
      = ∑ k ∈ Finset.range nMech, emDPsi m sg n yb ob S k * v k := by
  unfold emDPsi
  cases m
  · simp only [gaussDPsi, isum_eq, Finset.mul_sum, Finset.sum_div, Finset.sum_mul]
    rw [Finset.sum_comm]
    refine Finset.sum_congr rfl fun k _ => Finset.sum_congr rfl fun j _ => by ring
  · simp only [multDPsi, isum_eq, Finset.mul_sum, Finset.sum_div, Finset.sum_mul, Finset.sum_add_distrib,
      Finset.sum_sub_distrib, sub_mul, add_mul]
    congr 1
    congr 1
    · rw [Finset.sum_comm]
      refine Finset.sum_congr rfl fun k _ => Finset.sum_congr rfl fun j _ => by ring
    · rw [Finset.sum_comm]
      refine Finset.sum_congr rfl fun k _ => Finset.sum_congr rfl fun j _ => by ring
    · rw [Finset.sum_comm]
      refine Finset.sum_congr rfl fun k _ => Finset.sum_congr rfl fun j _ => by ring
  · simp only [cmDPsi, isum_eq, Finset.mul_sum, Finset.sum_div, Finset.sum_mul, Finset.sum_add_distrib,
      Finset.sum_sub_distrib, sub_mul, add_mul]
    congr 1
    congr 1
    · rw [Finset.sum_comm]
      refine Finset.sum_congr rfl fun k _ => Finset.sum_congr rfl fun j _ => by ring
    · rw [Finset.sum_comm]
      refine Finset.sum_congr rfl fun k _ => Finset.sum_congr rfl fun j _ => by ring
    · rw [Finset.sum_comm]
      refine Finset.sum_congr rfl fun k _ => Finset.sum_congr rfl fun j _ => by ring
  · simp only [lnDPsi, isum_eq, Finset.mul_sum, Finset.sum_div, Finset.sum_mul]
    rw [Finset.sum_comm]
    refine Finset.sum_congr rfl fun k _ => Finset.sum_congr rfl fun j _ => by ring

end ChiModel

namespace ChiModel
open ScalarFns

/-- the error-parameter part of an individual's parameter row, as the list `LogLikelihood` slices -/
def sigOf (nMech nErr : Nat) (p : Nat → ℝ) : List ℝ := (List.range nErr).map (fun q => p (nMech + q))

theorem sigOf_getD (nMech nErr : Nat) (p : Nat → ℝ) (i : Nat) (hi : i < nErr) :
    (sigOf nMech nErr p).getD i 0 = p (nMech + i) := by
  simp [sigOf, List.getD_eq_getElem?_getD, hi]

theorem errStartOf_succ (ems : List EM) (o : Nat) (ho : o < ems.length) :
    errStartOf ems (o + 1) = errStartOf ems o + (ems.getD o .gauss).nParams := by
  unfold errStartOf
  rw [List.take_add_one, List.map_append, List.sum_append]
  simp [List.getD_eq_getElem?_getD, List.getElem?_eq_getElem ho]

theorem errStartOf_mono (ems : List EM) (o : Nat) (ho : o < ems.length) :
    errStartOf ems o + (ems.getD o .gauss).nParams ≤ errStartOf ems ems.length :=
  errStartOf_succ_le ems o ems.length ho ho

/-- entry `e` of output `o`'s slice of the row's error part is the row's entry `n_mech + start(o) + e` -/
theorem slice_sigOf_getD (nMech : Nat) (ems : List EM) (p : Nat → ℝ) (o e : Nat) (ho : o < ems.length)
    (he : e < (ems.getD o .gauss).nParams) :
    (sliceFor ems (sigOf nMech (errStartOf ems ems.length) p) o).getD e 0 = p (nMech + (errStartOf ems o + e)) := by
  rw [sliceFor_getD ems _ o e he, sigOf_getD]
  have := errStartOf_mono ems o ho
  omega

/-- beyond its own parameters an output's slice has nothing -/
theorem slice_getD_beyond (ems : List EM) (sig : List ℝ) (o e : Nat) (he : (ems.getD o .gauss).nParams ≤ e) :
    (sliceFor ems sig o).getD e 0 = 0 := by
  have := sliceFor_length_le ems sig o
  rw [List.getD_eq_getElem?_getD, List.getElem?_eq_none (by omega)]
  rfl

end ChiModel

namespace ChiModel
open ScalarFns

/-- what the mechanistic model has to provide: along every curve of the parameter row through `p0` whose first
    `n_mech` coordinates are differentiable, prediction `j` moves with velocity `Σ_k S j k · c'_k` -/
def OutFn.Smooth (f : OutFn) (nMech : Nat) (p0 : Nat → ℝ) : Prop :=
  ∀ (c : Nat → ℝ → ℝ) (c' : Nat → ℝ) (t : ℝ), (∀ q, c q t = p0 q) →
    (∀ k, k < nMech → HasDerivAt (c k) (c' k) t) →
    ∀ j, j < f.n → HasDerivAt (fun s => f.Y (fun q => c q s) j)
      (∑ k ∈ Finset.range nMech, f.S j k * c' k) t

/-- the velocity of one output's term along a curve of the whole row -/
noncomputable def outVel (nMech : Nat) (ems : List EM) (sig : List ℝ) (p0 c' : Nat → ℝ) (f : OutFn) (o : Nat) : ℝ :=
  emDSig (ems.getD o .gauss) (sliceFor ems sig o) f.n (f.Y p0) f.obs 0 * c' (nMech + (errStartOf ems o + 0))
    + (if ems.getD o .gauss = .cm then
        emDSig (ems.getD o .gauss) (sliceFor ems sig o) f.n (f.Y p0) f.obs 1 * c' (nMech + (errStartOf ems o + 1))
       else 0)
    + ∑ k ∈ Finset.range nMech,
        emDPsi (ems.getD o .gauss) (sliceFor ems sig o) f.n (f.Y p0) f.obs f.S k * c' k

theorem EM.one_le_nParams (m : EM) : 1 ≤ m.nParams := by cases m <;> simp [EM.nParams]
theorem EM.nParams_cm {m : EM} (h : m = .cm) : m.nParams = 2 := by subst h; rfl
theorem EM.nParams_not_cm {m : EM} (h : m ≠ .cm) : m.nParams = 1 := by cases m <;> simp_all [EM.nParams]

theorem llOf_curve_hasDerivAt (nMech : Nat) (ems : List EM) (p0 : Nat → ℝ)
    (c : Nat → ℝ → ℝ) (c' : Nat → ℝ) (t : ℝ) (hc0 : ∀ q, c q t = p0 q)
    (hc : ∀ q, q < nMech + errStartOf ems ems.length → HasDerivAt (c q) (c' q) t) :
    ∀ (fs : List OutFn) (o : Nat), o + fs.length ≤ ems.length →
    (∀ f ∈ fs, f.Smooth nMech p0) →
    (∀ p ∈ List.zipIdx fs o, InSupport (ems.getD p.2 .gauss)
        ((sliceFor ems (sigOf nMech (errStartOf ems ems.length) p0) p.2).getD 0 0)
        ((sliceFor ems (sigOf nMech (errStartOf ems ems.length) p0) p.2).getD 1 0) p.1.n (p.1.Y p0)) →
    HasDerivAt (fun s => llOf ems (sigOf nMech (errStartOf ems ems.length) (fun q => c q s)) o fs (fun q => c q s))
      (((List.zipIdx fs o).map (fun p =>
          outVel nMech ems (sigOf nMech (errStartOf ems ems.length) p0) p0 c' p.1 p.2)).sum) t
  | [], o, _, _, _ => by simpa [llOf] using hasDerivAt_const t (0:ℝ)
  | f :: fs, o, hlen, hsm, hsupp => by
    have ih := llOf_curve_hasDerivAt nMech ems p0 c c' t hc0 hc fs (o + 1) (by simp at hlen; omega)
      (fun g hg => hsm g (List.mem_cons_of_mem _ hg))
      (fun p hp => hsupp p (by simp [List.zipIdx_cons]; exact Or.inr hp))
    simp only [llOf, List.zipIdx_cons, List.map_cons, List.sum_cons]
    refine HasDerivAt.add ?_ ih
    have ho : o < ems.length := by simp at hlen; omega
    have hmono := errStartOf_mono ems o ho
    have hnp := EM.one_le_nParams (ems.getD o .gauss)
    -- the slice entries along the curve
    have hs0 : ∀ r : Nat → ℝ, (sliceFor ems (sigOf nMech (errStartOf ems ems.length) r) o).getD 0 0
        = r (nMech + (errStartOf ems o + 0)) :=
      fun r => slice_sigOf_getD nMech ems r o 0 ho (by omega)
    have hs1 : ∀ r : Nat → ℝ, (sliceFor ems (sigOf nMech (errStartOf ems ems.length) r) o).getD 1 0
        = if ems.getD o .gauss = .cm then r (nMech + (errStartOf ems o + 1)) else 0 := by
      intro r
      by_cases hcm : ems.getD o .gauss = .cm
      · rw [if_pos hcm]
        exact slice_sigOf_getD nMech ems r o 1 ho (by rw [EM.nParams_cm hcm]; omega)
      · rw [if_neg hcm]
        exact slice_getD_beyond ems _ o 1 (by rw [EM.nParams_not_cm hcm])
    have hd0 : HasDerivAt (fun s => c (nMech + (errStartOf ems o + 0)) s) (c' (nMech + (errStartOf ems o + 0))) t :=
      hc _ (by omega)
    have hd1 : HasDerivAt (fun s => if ems.getD o .gauss = .cm then c (nMech + (errStartOf ems o + 1)) s else 0)
        (if ems.getD o .gauss = .cm then c' (nMech + (errStartOf ems o + 1)) else 0) t := by
      by_cases hcm : ems.getD o .gauss = .cm
      · simp only [if_pos hcm]
        have := EM.nParams_cm hcm
        exact hc _ (by omega)
      · simp only [if_neg hcm]; exact hasDerivAt_const _ _
    have hsup := hsupp (f, o) (by simp [List.zipIdx_cons])
    have hp0 : (fun q => c q t) = p0 := funext hc0
    have hs0t : (sliceFor ems (sigOf nMech (errStartOf ems ems.length) p0) o).getD 0 0
        = c (nMech + (errStartOf ems o + 0)) t := by rw [hs0 p0, hc0]
    have hs1t : (sliceFor ems (sigOf nMech (errStartOf ems ems.length) p0) o).getD 1 0
        = if ems.getD o .gauss = .cm then c (nMech + (errStartOf ems o + 1)) t else 0 := by rw [hs1 p0, hc0]
    have h := em_hasDerivAt (ems.getD o .gauss) f.n f.obs (fun s => c (nMech + (errStartOf ems o + 0)) s)
      (fun s => if ems.getD o .gauss = .cm then c (nMech + (errStartOf ems o + 1)) s else 0)
      (c' (nMech + (errStartOf ems o + 0)))
      (if ems.getD o .gauss = .cm then c' (nMech + (errStartOf ems o + 1)) else 0)
      (fun j s => f.Y (fun q => c q s) j) (fun j => ∑ k ∈ Finset.range nMech, f.S j k * c' k) t
      hd0 hd1 (fun j hj => hsm f List.mem_cons_self c c' t hc0 (fun k hk => hc k (by omega)) j hj)
      (by
        have h2 : InSupport (ems.getD o .gauss) (c (nMech + (errStartOf ems o + 0)) t)
            (if ems.getD o .gauss = .cm then c (nMech + (errStartOf ems o + 1)) t else 0) f.n (f.Y p0) := by
          rw [← hs0t, ← hs1t]; exact hsup
        simpa only [hp0] using h2)
    have hval : ∀ s, emLLraw (ems.getD o .gauss) [c (nMech + (errStartOf ems o + 0)) s,
          if ems.getD o .gauss = .cm then c (nMech + (errStartOf ems o + 1)) s else 0] f.n
          (fun j => f.Y (fun q => c q s) j) f.obs
        = emLLraw (ems.getD o .gauss) (sliceFor ems (sigOf nMech (errStartOf ems ems.length) (fun q => c q s)) o)
          f.n (f.Y (fun q => c q s)) f.obs := by
      intro s
      exact emLLraw_congr _ _ _ f.n _ f.obs (by rw [hs0]; rfl) (by rw [hs1]; rfl)
    simp only [hval] at h
    refine h.congr_deriv ?_
    have hsl : ∀ e', emDSig (ems.getD o .gauss) [c (nMech + (errStartOf ems o + 0)) t,
          if ems.getD o .gauss = .cm then c (nMech + (errStartOf ems o + 1)) t else 0] f.n
          (fun j => f.Y (fun q => c q t) j) f.obs e'
        = emDSig (ems.getD o .gauss) (sliceFor ems (sigOf nMech (errStartOf ems ems.length) p0) o) f.n (f.Y p0)
          f.obs e' := by
      intro e'
      rw [hp0]
      exact emDSig_congr _ _ _ f.n _ f.obs e' (by rw [hs0t]; rfl) (by rw [hs1t]; rfl)
    have hpsi : emDPsi (ems.getD o .gauss) [c (nMech + (errStartOf ems o + 0)) t,
          if ems.getD o .gauss = .cm then c (nMech + (errStartOf ems o + 1)) t else 0] f.n
          (fun j => f.Y (fun q => c q t) j) f.obs
          (fun j _ => ∑ k ∈ Finset.range nMech, f.S j k * c' k) 0
        = ∑ k ∈ Finset.range nMech, emDPsi (ems.getD o .gauss)
            (sliceFor ems (sigOf nMech (errStartOf ems ems.length) p0) o) f.n (f.Y p0) f.obs f.S k * c' k := by
      rw [emDPsi_linear, hp0]
      refine Finset.sum_congr rfl fun k _ => ?_
      congr 1
      unfold emDPsi
      simp only [ofNat_real, Nat.cast_zero, List.getD_cons_zero, List.getD_cons_succ, ← hs0t, ← hs1t]
    rw [hsl, hsl, hpsi]
    unfold outVel
    by_cases hcm : ems.getD o .gauss = .cm
    · simp only [if_pos hcm]
    · simp only [if_neg hcm]

end ChiModel

namespace ChiModel
open ScalarFns

theorem sum_list_finset_swap {β : Type} (A : β → Nat → ℝ) (v : Nat → ℝ) (n : Nat) :
    ∀ l : List β, ∑ k ∈ Finset.range n, (l.map (fun p => A p k)).sum * v k
      = (l.map (fun p => ∑ k ∈ Finset.range n, A p k * v k)).sum
  | [] => by simp
  | b :: bs => by
    simp only [List.map_cons, List.sum_cons, add_mul, Finset.sum_add_distrib, sum_list_finset_swap A v n bs]

/-- weighted sum over a concatenation of blocks, block by block -/
noncomputable def blockSum {β : Type} (f : β → List ℝ) (w : Nat → ℝ) : Nat → List β → ℝ
  | _, [] => 0
  | s, b :: bs => (∑ e ∈ Finset.range (f b).length, (f b).getD e 0 * w (s + e)) + blockSum f w (s + (f b).length) bs

theorem sum_flatMap_weighted {β : Type} (f : β → List ℝ) (w : Nat → ℝ) :
    ∀ (l : List β) (s : Nat),
      ∑ i ∈ Finset.range (l.flatMap f).length, (l.flatMap f).getD i 0 * w (s + i) = blockSum f w s l
  | [], s => by simp [blockSum]
  | b :: bs, s => by
    simp only [List.flatMap_cons, List.length_append, blockSum]
    rw [Finset.sum_range_add]
    congr 1
    · refine Finset.sum_congr rfl fun i hi => ?_
      have hi' := Finset.mem_range.mp hi
      rw [List.getD_eq_getElem?_getD, List.getElem?_append_left hi', ← List.getD_eq_getElem?_getD]
    · rw [← sum_flatMap_weighted f w bs (s + (f b).length)]
      refine Finset.sum_congr rfl fun i _ => ?_
      rw [List.getD_eq_getElem?_getD, List.getElem?_append_right (by omega),
        show (f b).length + i - (f b).length = i by omega, ← List.getD_eq_getElem?_getD, Nat.add_assoc]

end ChiModel

namespace ChiModel
open ScalarFns

/-- the error-parameter blocks `evaluateS1` appends, as a function of (output, index) -/
noncomputable def errBlock (ems : List EM) (sig : List ℝ) (p : OutS1 ℝ × Nat) : List ℝ :=
  (List.range (ems.getD p.2 .gauss).nParams).map (fun e =>
    emDSig (ems.getD p.2 .gauss) (sliceFor ems sig p.2) p.1.n p.1.ybar p.1.obs e)

theorem errBlock_sum (ems : List EM) (sig : List ℝ) (w : Nat → ℝ) (p : OutS1 ℝ × Nat) (s : Nat) :
    ∑ e ∈ Finset.range (errBlock ems sig p).length, (errBlock ems sig p).getD e 0 * w (s + e)
      = emDSig (ems.getD p.2 .gauss) (sliceFor ems sig p.2) p.1.n p.1.ybar p.1.obs 0 * w (s + 0)
        + (if ems.getD p.2 .gauss = .cm then
            emDSig (ems.getD p.2 .gauss) (sliceFor ems sig p.2) p.1.n p.1.ybar p.1.obs 1 * w (s + 1) else 0) := by
  unfold errBlock
  by_cases hcm : ems.getD p.2 .gauss = .cm
  · rw [if_pos hcm]
    simp only [List.length_map, List.length_range, EM.nParams_cm hcm]
    rw [Finset.sum_range_succ, Finset.sum_range_one]
    simp [List.getD_eq_getElem?_getD, EM.nParams_cm hcm]
  · rw [if_neg hcm]
    simp only [List.length_map, List.length_range, EM.nParams_not_cm hcm]
    rw [Finset.sum_range_one]
    simp [List.getD_eq_getElem?_getD, EM.nParams_not_cm hcm]

theorem blockSum_err (ems : List EM) (sig : List ℝ) (w : Nat → ℝ) :
    ∀ (outs : List (OutS1 ℝ)) (o : Nat), o + outs.length ≤ ems.length →
      blockSum (errBlock ems sig) w (errStartOf ems o) (List.zipIdx outs o)
        = ((List.zipIdx outs o).map (fun p =>
            emDSig (ems.getD p.2 .gauss) (sliceFor ems sig p.2) p.1.n p.1.ybar p.1.obs 0 * w (errStartOf ems p.2 + 0)
            + (if ems.getD p.2 .gauss = .cm then
                emDSig (ems.getD p.2 .gauss) (sliceFor ems sig p.2) p.1.n p.1.ybar p.1.obs 1
                  * w (errStartOf ems p.2 + 1) else 0))).sum
  | [], _, _ => by simp [blockSum]
  | d :: ds, o, h => by
    have ho : o < ems.length := by simp at h; omega
    simp only [List.zipIdx_cons, blockSum, List.map_cons, List.sum_cons]
    rw [errBlock_sum]
    congr 1
    have hlen : (errBlock ems sig (d, o)).length = (ems.getD o .gauss).nParams := by simp [errBlock]
    rw [hlen, ← errStartOf_succ ems o ho]
    exact blockSum_err ems sig w ds (o + 1) (by simp at h; omega)

end ChiModel

namespace ChiModel
open ScalarFns

theorem llS1Grad_length (nMech : Nat) (ems : List EM) (sig : List ℝ) (outs : List (OutS1 ℝ)) :
    (llS1Grad nMech ems sig outs).length
      = nMech + ((List.zipIdx outs 0).flatMap (errBlock ems sig)).length := by
  have h := C03_s1_layout nMech ems sig outs
  have hl := s1Go_mech_length nMech ems sig outs 0 ((List.range nMech).map (fun _ => (ofNat 0 : ℝ))) []
    (by simp)
  have h2 : (llS1Grad nMech ems sig outs).length
      = ((llS1Grad nMech ems sig outs).take nMech).length + ((llS1Grad nMech ems sig outs).drop nMech).length := by
    simp; omega
  rw [h2, h.1, h.2, hl]
  rfl

/-- **C03 (individual likelihood, end to end, as a gradient).** Along ANY differentiable curve of the whole
    parameter row `(ψ, σ)` through the evaluation point, the evaluated log-likelihood moves with velocity
    `Σ_q G_q · c'_q`, `G` the vector `LogLikelihood.evaluateS1` assembles — i.e. `G` is the gradient in the sense
    `HasGradientAt` of C05, which is the hypothesis (`hL`) of the population-level theorems
    `C05_*_reduce_is_gradient`: together they give the hierarchical gradient end to end. -/
theorem C03_s1_is_gradient (nMech : Nat) (ems : List EM) (fs : List OutFn) (p0 : Nat → ℝ)
    (hlen : fs.length = ems.length) (hsm : ∀ f ∈ fs, f.Smooth nMech p0)
    (hsupp : ∀ p ∈ List.zipIdx fs 0, InSupport (ems.getD p.2 .gauss)
        ((sliceFor ems (sigOf nMech (errStartOf ems ems.length) p0) p.2).getD 0 0)
        ((sliceFor ems (sigOf nMech (errStartOf ems ems.length) p0) p.2).getD 1 0) p.1.n (p.1.Y p0))
    (c : Nat → ℝ → ℝ) (c' : Nat → ℝ) (t : ℝ) (hc0 : ∀ q, c q t = p0 q)
    (hc : ∀ q, q < nMech + errStartOf ems ems.length → HasDerivAt (c q) (c' q) t) :
    let G := llS1Grad nMech ems (sigOf nMech (errStartOf ems ems.length) p0) (fs.map (fun f => f.at p0))
    HasDerivAt (fun s => llOf ems (sigOf nMech (errStartOf ems ems.length) (fun q => c q s)) 0 fs (fun q => c q s))
      (∑ q ∈ Finset.range G.length, G.getD q 0 * c' q) t := by
  intro G
  have h := llOf_curve_hasDerivAt nMech ems p0 c c' t hc0 hc fs 0 (by omega) hsm hsupp
  refine h.congr_deriv ?_
  set sig := sigOf nMech (errStartOf ems ems.length) p0 with hsig
  set outs := fs.map (fun f => f.at p0) with houts
  -- split the gradient into its two blocks
  rw [show G.length = nMech + ((List.zipIdx outs 0).flatMap (errBlock ems sig)).length from
    llS1Grad_length nMech ems sig outs, Finset.sum_range_add]
  -- mechanistic block
  have hmech : ∑ k ∈ Finset.range nMech, G.getD k 0 * c' k
      = ((List.zipIdx fs 0).map (fun p => ∑ k ∈ Finset.range nMech,
          emDPsi (ems.getD p.2 .gauss) (sliceFor ems sig p.2) p.1.n (p.1.Y p0) p.1.obs p.1.S k * c' k)).sum := by
    rw [← sum_list_finset_swap]
    refine Finset.sum_congr rfl fun k hk => ?_
    rw [show G.getD k 0 = _ from C03_s1_mech_entry nMech ems sig outs k (Finset.mem_range.mp hk)]
    rw [houts, List.zipIdx_map, List.map_map]
    rfl
  -- error block
  have herr : ∑ i ∈ Finset.range ((List.zipIdx outs 0).flatMap (errBlock ems sig)).length,
        G.getD (nMech + i) 0 * c' (nMech + i)
      = ((List.zipIdx fs 0).map (fun p =>
          emDSig (ems.getD p.2 .gauss) (sliceFor ems sig p.2) p.1.n (p.1.Y p0) p.1.obs 0
              * c' (nMech + (errStartOf ems p.2 + 0))
          + (if ems.getD p.2 .gauss = .cm then
              emDSig (ems.getD p.2 .gauss) (sliceFor ems sig p.2) p.1.n (p.1.Y p0) p.1.obs 1
                * c' (nMech + (errStartOf ems p.2 + 1)) else 0))).sum := by
    have hdrop : ∀ i, G.getD (nMech + i) 0 = ((List.zipIdx outs 0).flatMap (errBlock ems sig)).getD i 0 := by
      intro i
      have := (C03_s1_layout nMech ems sig outs).2
      rw [show ((List.zipIdx outs 0).flatMap (errBlock ems sig)) = (llS1Grad nMech ems sig outs).drop nMech from
        this.symm]
      simp only [List.getD_eq_getElem?_getD, List.getElem?_drop]
      rfl
    simp only [hdrop]
    have hw := sum_flatMap_weighted (errBlock ems sig) (fun i => c' (nMech + i)) (List.zipIdx outs 0) 0
    simp only [Nat.zero_add] at hw
    rw [hw]
    have hb := blockSum_err ems sig (fun i => c' (nMech + i)) outs 0 (by simp [houts]; omega)
    rw [show errStartOf ems 0 = 0 by simp [errStartOf]] at hb
    rw [hb, houts, List.zipIdx_map, List.map_map]
    rfl
  rw [hmech, herr, ← List.sum_map_add]
  refine congrArg List.sum (List.map_congr_left fun p _ => ?_)
  unfold outVel
  ring

end ChiModel

namespace ChiModel
/-- non-vacuity of `OutFn.Smooth`: predictions that are linear in `ψ` meet it with their coefficients as
    sensitivities -/
example (nMech n : Nat) (a : Nat → Nat → ℝ) (ob : Nat → ℝ) (p0 : Nat → ℝ) :
    OutFn.Smooth { n := n, obs := ob, Y := fun ψ j => ∑ k ∈ Finset.range nMech, a j k * ψ k, S := a } nMech p0 := by
  intro c c' t _ hc j _
  exact HasDerivAt.fun_sum fun k hk => (hc k (Finset.mem_range.mp hk)).const_mul (a j k)
end ChiModel

/-! ### hierarchical likelihood, end to end (with C05's population-level theorems) -/
namespace ChiModel
open ScalarFns

theorem errFlat_length (ems : List EM) (sig : List ℝ) :
    ∀ (outs : List (OutS1 ℝ)) (o : Nat), o + outs.length ≤ ems.length →
      errStartOf ems o + ((List.zipIdx outs o).flatMap (errBlock ems sig)).length = errStartOf ems (o + outs.length)
  | [], o, _ => by simp
  | d :: ds, o, h => by
    have ho : o < ems.length := by simp at h; omega
    have ih := errFlat_length ems sig ds (o + 1) (by simp at h; omega)
    simp only [List.zipIdx_cons, List.flatMap_cons, List.length_append, List.length_cons]
    have hb : (errBlock ems sig (d, o)).length = (ems.getD o .gauss).nParams := by simp [errBlock]
    rw [hb, show o + (ds.length + 1) = o + 1 + ds.length by omega, ← ih, errStartOf_succ ems o ho]
    omega

/-- the vector `evaluateS1` assembles has one entry per parameter of the individual's row -/
theorem llS1Grad_length_eq (nMech : Nat) (ems : List EM) (sig : List ℝ) (outs : List (OutS1 ℝ))
    (h : outs.length = ems.length) :
    (llS1Grad nMech ems sig outs).length = nMech + errStartOf ems ems.length := by
  rw [llS1Grad_length]
  have := errFlat_length ems sig outs 0 (by omega)
  simp only [Nat.zero_add, h] at this
  rw [show errStartOf ems 0 = 0 by simp [errStartOf]] at this
  omega

/-- one individual of a hierarchical likelihood: its outputs as functions of its own parameter row -/
structure Indiv where
  fs : List OutFn

/-- the sum of the individuals' log-likelihoods as a function of the matrix of bottom-level parameters -/
noncomputable def hierL (nMech : Nat) (ems : List EM) (inds : Nat → Indiv) (nIds : Nat)
    (psi : Nat → Nat → ℝ) : ℝ :=
  isum nIds (fun i => llOf ems (sigOf nMech (errStartOf ems ems.length) (psi i)) 0 (inds i).fs (psi i))

/-- **C03 (hierarchical likelihood, end to end, the individuals' part).** The matrix whose row `i` is the vector
    `evaluateS1` of individual `i` assembles is the gradient — in the sense `HasGradientAt` that C05's
    population-level theorems take as hypothesis — of the sum of the individuals' log-likelihoods, as a function
    of the `n_ids × n_dim` matrix of bottom-level parameters (`n_dim = n_mech + n_error`). -/
theorem C03_hier_upstream_is_gradient (nMech : Nat) (ems : List EM) (inds : Nat → Indiv) (nIds : Nat)
    (x : Nat → Nat → ℝ)
    (hlen : ∀ i, i < nIds → (inds i).fs.length = ems.length)
    (hsm : ∀ i, i < nIds → ∀ f ∈ (inds i).fs, f.Smooth nMech (x i))
    (hsupp : ∀ i, i < nIds → ∀ p ∈ List.zipIdx (inds i).fs 0, InSupport (ems.getD p.2 .gauss)
        ((sliceFor ems (sigOf nMech (errStartOf ems ems.length) (x i)) p.2).getD 0 0)
        ((sliceFor ems (sigOf nMech (errStartOf ems ems.length) (x i)) p.2).getD 1 0) p.1.n (p.1.Y (x i))) :
    HasGradientAt nIds (nMech + errStartOf ems ems.length) (hierL nMech ems inds nIds)
      (fun i d => (llS1Grad nMech ems (sigOf nMech (errStartOf ems ems.length) (x i))
        ((inds i).fs.map (fun f => f.at (x i)))).getD d 0) x := by
  intro c c' t hc0 hc
  unfold hierL
  have hmain := hasDerivAt_isum nIds
    (fun i s => llOf ems (sigOf nMech (errStartOf ems ems.length) (fun d => c i d s)) 0 (inds i).fs (fun d => c i d s))
    (fun i => ∑ q ∈ Finset.range (nMech + errStartOf ems ems.length),
      (llS1Grad nMech ems (sigOf nMech (errStartOf ems ems.length) (x i))
        ((inds i).fs.map (fun f => f.at (x i)))).getD q 0 * c' i q) t
    (fun i hi => by
      have h := C03_s1_is_gradient nMech ems (inds i).fs (x i) (hlen i hi) (hsm i hi) (hsupp i hi)
        (fun q s => c i q s) (fun q => c' i q) t (fun q => hc0 i q) (fun q hq => hc i q hi hq)
      simp only at h
      rw [llS1Grad_length_eq nMech ems _ _ (by simp [hlen i hi])] at h
      exact h)
  refine hmain.congr_deriv ?_
  simp [isum2_eq, isum_eq]

end ChiModel

namespace ChiModel
open ScalarFns

/-- the matrix of the individuals' `evaluateS1` vectors at the bottom-level parameters `x` — what
    `HierarchicalLogLikelihood.evaluateS1` hands to the population model as `dlogp_dpsi` -/
noncomputable def upstreamOf (nMech : Nat) (ems : List EM) (inds : Nat → Indiv) (x : Nat → Nat → ℝ) : Nat → Nat → ℝ :=
  fun i d => (llS1Grad nMech ems (sigOf nMech (errStartOf ems ems.length) (x i))
    ((inds i).fs.map (fun f => f.at (x i)))).getD d 0

/-- **C03 + C05, end to end (Gaussian population model, centred).** For a hierarchical log-likelihood whose
    bottom-level parameters are Gaussian distributed, entry `j` of the published gradient vector — individuals'
    parameters individual-major, then means, then standard deviations — is the partial derivative `∂/∂z_j` of
    `Σ_i log p(data_i | ψ_i) + log p(ψ | μ, σ)`, for any mechanistic model (smooth in the sense `OutFn.Smooth`), any
    outputs and error models, any number of individuals and dimensions. -/
theorem C03_hier_gauss_end_to_end (nMech : Nat) (ems : List EM) (inds : Nat → Indiv) (nIds : Nat) (z : Nat → ℝ)
    (hlen : ∀ i, i < nIds → (inds i).fs.length = ems.length)
    (hsm : ∀ i, i < nIds → ∀ f ∈ (inds i).fs,
      f.Smooth nMech (etaOf (nMech + errStartOf ems ems.length) z i))
    (hsupp : ∀ i, i < nIds → ∀ p ∈ List.zipIdx (inds i).fs 0, InSupport (ems.getD p.2 .gauss)
        ((sliceFor ems (sigOf nMech (errStartOf ems ems.length) (etaOf (nMech + errStartOf ems ems.length) z i)) p.2).getD 0 0)
        ((sliceFor ems (sigOf nMech (errStartOf ems ems.length) (etaOf (nMech + errStartOf ems ems.length) z i)) p.2).getD 1 0)
        p.1.n (p.1.Y (etaOf (nMech + errStartOf ems ems.length) z i)))
    (hpos : ∀ d, d < nMech + errStartOf ems ems.length →
      0 < z (nIds * (nMech + errStartOf ems ems.length) + (nMech + errStartOf ems ems.length) + d))
    (j : Nat) (hj : j < nIds * (nMech + errStartOf ems ems.length) + 2 * (nMech + errStartOf ems ems.length)) :
    let nDim := nMech + errStartOf ems ems.length
    HasDerivAt (fun x => hierL nMech ems inds nIds (etaOf nDim (Function.update z j x))
        + gaussCLLraw nIds nDim (muOf nIds nDim (Function.update z j x))
            (sgOf nIds nDim (Function.update z j x)) (etaOf nDim (Function.update z j x)))
      ((shapeReduce (.gauss true) nIds nDim (popSens (.gauss true) nIds nDim
        (thOf (muOf nIds nDim z) (sgOf nIds nDim z)) (etaOf nDim z)
        (some (upstreamOf nMech ems inds (etaOf nDim z))))).getD j 0) (z j) := by
  intro nDim
  exact C05_gauss_reduce_is_gradient nIds nDim z (some (upstreamOf nMech ems inds (etaOf nDim z)))
    (hierL nMech ems inds nIds) hpos
    (C03_hier_upstream_is_gradient nMech ems inds nIds (etaOf nDim z) hlen hsm hsupp) j hj

/-- the same for log-normally distributed bottom-level parameters (centred) -/
theorem C03_hier_logn_end_to_end (nMech : Nat) (ems : List EM) (inds : Nat → Indiv) (nIds : Nat) (z : Nat → ℝ)
    (hlen : ∀ i, i < nIds → (inds i).fs.length = ems.length)
    (hsm : ∀ i, i < nIds → ∀ f ∈ (inds i).fs,
      f.Smooth nMech (etaOf (nMech + errStartOf ems ems.length) z i))
    (hsupp : ∀ i, i < nIds → ∀ p ∈ List.zipIdx (inds i).fs 0, InSupport (ems.getD p.2 .gauss)
        ((sliceFor ems (sigOf nMech (errStartOf ems ems.length) (etaOf (nMech + errStartOf ems ems.length) z i)) p.2).getD 0 0)
        ((sliceFor ems (sigOf nMech (errStartOf ems ems.length) (etaOf (nMech + errStartOf ems ems.length) z i)) p.2).getD 1 0)
        p.1.n (p.1.Y (etaOf (nMech + errStartOf ems ems.length) z i)))
    (hpos : ∀ d, d < nMech + errStartOf ems ems.length →
      0 < z (nIds * (nMech + errStartOf ems ems.length) + (nMech + errStartOf ems ems.length) + d))
    (hppos : ∀ i d, i < nIds → d < nMech + errStartOf ems ems.length →
      0 < z (i * (nMech + errStartOf ems ems.length) + d))
    (j : Nat) (hj : j < nIds * (nMech + errStartOf ems ems.length) + 2 * (nMech + errStartOf ems ems.length)) :
    let nDim := nMech + errStartOf ems ems.length
    HasDerivAt (fun x => hierL nMech ems inds nIds (etaOf nDim (Function.update z j x))
        + lognCLLraw nIds nDim (muOf nIds nDim (Function.update z j x))
            (sgOf nIds nDim (Function.update z j x)) (etaOf nDim (Function.update z j x)))
      ((shapeReduce (.logn true) nIds nDim (popSens (.logn true) nIds nDim
        (thOf (muOf nIds nDim z) (sgOf nIds nDim z)) (etaOf nDim z)
        (some (upstreamOf nMech ems inds (etaOf nDim z))))).getD j 0) (z j) := by
  intro nDim
  exact C05_logn_reduce_is_gradient nIds nDim z (some (upstreamOf nMech ems inds (etaOf nDim z)))
    (hierL nMech ems inds nIds) hpos hppos
    (C03_hier_upstream_is_gradient nMech ems inds nIds (etaOf nDim z) hlen hsm hsupp) j hj

end ChiModel

/-! ## a mechanistic model that refuses the point: evaluation with sensitivities reports a non-finite score
wherever plain evaluation does (individual, posterior and hierarchical level; model in `ChiModel/LogLikS1.lean`,
namespace `Guarded`) -/
namespace ChiModel
namespace Guarded
section generic
variable {α : Type} [Add α] [Sub α] [Mul α] [Div α] [Neg α] [ScalarFns α]

theorem isVal_add (a b : Score α) : isVal (Score.add a b) = (isVal a && isVal b) := by
  cases a <;> cases b <;> rfl

theorem isVal_foldl (f : Sim α → Score α) (l : List (Sim α)) (acc : Score α) :
    isVal (l.foldl (fun acc s => Score.add acc (f s)) acc) = (isVal acc && l.all (fun s => isVal (f s))) := by
  induction l generalizing acc with
  | nil => simp
  | cons x xs ih => simp [ih, isVal_add, Bool.and_assoc]

theorem C03_guarded_ll_score (nPar : Nat) (g : List α) (sim : Sim α) : (llS1 nPar g sim).1 = llCall sim := by
  cases sim <;> rfl

theorem C03_guarded_ll_raises (nPar : Nat) (g : List α) :
    llCall (Sim.raises : Sim α) = .negInf ∧ (llS1 nPar g Sim.raises).1 = .negInf
      ∧ (llS1 nPar g Sim.raises).2.length = nPar := ⟨rfl, rfl, rfl⟩

theorem C03_guarded_ll_gradient_length (nPar : Nat) (g : List α) (sim : Sim α) (hg : g.length = nPar) :
    (llS1 nPar g sim).2.length = nPar := by
  cases sim
  · rfl
  · exact hg

theorem C03_guarded_hier_finite_iff (nPar : Nat) (g : List α) (pop : Score α) (inds : List (Sim α)) :
    isVal (hierS1 nPar g pop inds) = isVal (hierCall pop inds) := by
  have hf : (fun (acc : Score α) (s : Sim α) => Score.add acc (llS1 nPar g s).1)
      = (fun acc s => Score.add acc (llCall s)) := by
    funext acc s; rw [C03_guarded_ll_score]
  unfold hierS1 hierCall
  rw [hf, isVal_add, isVal_foldl]
  cases pop
  · simp [isVal]
  · rw [isVal_foldl]; simp [isVal, Score.zero, Bool.and_comm]
  · rw [isVal_foldl]; simp [isVal]

theorem C03_guarded_hier_raises (nPar : Nat) (g : List α) (pop : Score α) (inds : List (Sim α))
    (h : Sim.raises ∈ inds) :
    isVal (hierCall pop inds) = false ∧ isVal (hierS1 nPar g pop inds) = false := by
  have hc : isVal (hierCall pop inds) = false := by
    unfold hierCall
    cases pop
    · rfl
    · rw [isVal_foldl]
      have : inds.all (fun s => isVal (llCall s)) = false := by
        rw [List.all_eq_false]; exact ⟨_, h, by simp [llCall, isVal]⟩
      simp [this]
    · rw [isVal_foldl]; simp [isVal]
  exact ⟨hc, by rw [C03_guarded_hier_finite_iff, hc]⟩

theorem C03_guarded_prior_finite_iff (prior : Score α) (ll ll' : Unit → Score α)
    (h : isVal (ll ()) = isVal (ll' ())) : isVal (withPrior prior ll) = isVal (withPrior prior ll') := by
  cases prior <;> simp [withPrior, isVal_add, h]

end generic

theorem foldl_val_shift (f : Sim ℝ → Score ℝ) (l : List (Sim ℝ)) (a b v : ℝ)
    (h : l.foldl (fun acc s => Score.add acc (f s)) (.val a) = .val v) :
    l.foldl (fun acc s => Score.add acc (f s)) (.val b) = .val (v - a + b) := by
  induction l generalizing a b v with
  | nil => simp at h; simp [h]
  | cons x xs ih =>
    simp only [List.foldl_cons] at h ⊢
    cases hx : f x with
    | val c =>
      rw [hx] at h
      have ea : Score.add (Score.val a) (Score.val c) = Score.val (a + c) := rfl
      have eb : Score.add (Score.val b) (Score.val c) = Score.val (b + c) := rfl
      rw [ea] at h
      rw [eb, ih (a + c) (b + c) v h]; congr 1; ring
    | negInf =>
      rw [hx] at h
      have := congrArg isVal h
      rw [isVal_foldl] at this; simp [Score.add, isVal] at this
    | undefined =>
      rw [hx] at h
      have := congrArg isVal h
      rw [isVal_foldl] at this; simp [Score.add, isVal] at this

/-- wherever plain evaluation yields a finite score, evaluateS1 reports that score -/
theorem C03_guarded_hier_score_eq (nPar : Nat) (g : List ℝ) (pop : Score ℝ) (inds : List (Sim ℝ)) (v : ℝ)
    (h : hierCall pop inds = .val v) : hierS1 nPar g pop inds = .val v := by
  have hf : (fun (acc : Score ℝ) (s : Sim ℝ) => Score.add acc (llS1 nPar g s).1)
      = (fun acc s => Score.add acc (llCall s)) := by
    funext acc s; rw [C03_guarded_ll_score]
  unfold hierS1; rw [hf]
  unfold hierCall at h
  cases pop with
  | negInf => simp at h
  | undefined =>
    have := congrArg isVal h
    rw [isVal_foldl] at this; simp [isVal] at this
  | val p =>
    simp only at h
    have := foldl_val_shift llCall inds p 0 v h
    simp only [Score.zero, ofNat_real, Nat.cast_zero]
    rw [this]; simp [Score.add]

end Guarded
end ChiModel

namespace ChiModel
namespace Guarded
/-- with a prior in front (`LogPosterior`, `HierarchicalLogPosterior`): the two kinds of evaluation of a
    hierarchical likelihood with refusing individuals are finite together -/
theorem C03_guarded_hier_posterior_finite_iff {α : Type} [Add α] [Sub α] [Mul α] [Div α] [Neg α] [ScalarFns α]
    (nPar : Nat) (g : List α) (prior pop : Score α) (inds : List (Sim α)) :
    isVal (withPrior prior (fun _ => hierS1 nPar g pop inds))
      = isVal (withPrior prior (fun _ => hierCall pop inds)) :=
  C03_guarded_prior_finite_iff prior _ _ (C03_guarded_hier_finite_iff nPar g pop inds)

/-- … and where the plain evaluation is finite, the scores are the same number -/
theorem C03_guarded_hier_posterior_score_eq (nPar : Nat) (g : List ℝ) (prior pop : Score ℝ)
    (inds : List (Sim ℝ)) (v : ℝ) (h : withPrior prior (fun _ => hierCall pop inds) = .val v) :
    withPrior prior (fun _ => hierS1 nPar g pop inds) = .val v := by
  cases prior with
  | negInf => simp [withPrior] at h
  | undefined => simp [withPrior, Score.add] at h
  | val p =>
    simp only [withPrior] at h ⊢
    cases hc : hierCall pop inds with
    | negInf => rw [hc] at h; simp [Score.add] at h
    | undefined => rw [hc] at h; simp [Score.add] at h
    | val c => rw [C03_guarded_hier_score_eq nPar g pop inds c hc]; rw [hc] at h; exact h

/-- non-vacuity: three individuals, the second one's model refuses its parameters — plain evaluation and
    evaluation with sensitivities both say `-inf`; without the refusal both are finite -/
example : hierCall (.val (1 : ℝ)) [.delivers (.val 2), .raises, .delivers (.val 3)] = .negInf
    ∧ hierS1 4 [] (.val (1 : ℝ)) [.delivers (.val 2), .raises, .delivers (.val 3)] = .negInf := by
  constructor <;> simp [hierCall, hierS1, llCall, llS1, Score.add, Score.zero]

example : hierCall (.val (1 : ℝ)) [.delivers (.val 2), .delivers (.val 3)] = .val 6
    ∧ hierS1 4 [] (.val (1 : ℝ)) [.delivers (.val 2), .delivers (.val 3)] = .val 6 := by
  constructor <;> simp [hierCall, hierS1, llCall, llS1, Score.add, Score.zero] <;> norm_num
end Guarded
end ChiModel
