import ChiModel.Dosing
import Mathlib.Data.Rat.Floor
import Mathlib.Algebra.Order.Floor.Ring
import Mathlib.Data.List.Sort
import Mathlib.Data.List.Perm.Basic
import Mathlib.Data.List.Range
import Mathlib.Tactic.Linarith
import Mathlib.Tactic.Ring
import Mathlib.Tactic.FieldSimp
import Mathlib.Tactic.NormNum
import Mathlib.MeasureTheory.Integral.IntervalIntegral.Basic
import Mathlib.MeasureTheory.Measure.Lebesgue.Basic
import Mathlib.Data.Rat.Cast.Order

/-!
# C10 — dosing regimens deliver the specified amounts at the specified times

All statements are over exact rationals and hold for every dose, start, duration, period and
dose count (single, finite and indefinite regimens) and every time.  The semantics of myokit's
pacing (`pace`) is a *definition* here, validated against `myokit.PacingSystem` by the
correspondence check; what the ODE system does with the rate is validated end to end through the
reference integrator against closed forms (cumulative input, depot mass balance).
-/
set_option linter.unusedSectionVars false
set_option linter.unusedSimpArgs false
set_option linter.unusedVariables false
namespace ChiModel.Dosing

/-! ## floor facts -/

theorem floor_toNat_bounds (x p : ℚ) (hp : 0 < p) (hx : 0 ≤ x) :
    (((x / p).floor.toNat : ℕ) : ℚ) * p ≤ x ∧ x < ((((x / p).floor.toNat : ℕ) : ℚ) + 1) * p := by
  have h0 : 0 ≤ x / p := div_nonneg hx hp.le
  have hfl : (0 : ℤ) ≤ (x / p).floor := Rat.le_floor_iff.mpr (by simpa using h0)
  have hcast : (((x / p).floor.toNat : ℕ) : ℚ) = (((x / p).floor : ℤ) : ℚ) := by
    have : (((x / p).floor.toNat : ℕ) : ℤ) = (x / p).floor := Int.toNat_of_nonneg hfl
    exact_mod_cast this
  rw [hcast]
  have h1 : (((x / p).floor : ℤ) : ℚ) ≤ x / p := Rat.le_floor_iff.mp (le_refl _)
  have h2 : x / p < (((x / p).floor : ℤ) : ℚ) + 1 := by
    by_contra hc
    rw [not_lt] at hc
    have : ((x / p).floor + 1 : ℤ) ≤ (x / p).floor := Rat.le_floor_iff.mpr (by push_cast; exact hc)
    omega
  constructor
  · calc (((x / p).floor : ℤ) : ℚ) * p ≤ x / p * p := by
          exact mul_le_mul_of_nonneg_right h1 hp.le
      _ = x := by field_simp
  · calc x = x / p * p := by field_simp
      _ < ((((x / p).floor : ℤ) : ℚ) + 1) * p := by exact mul_lt_mul_of_pos_right h2 hp

theorem le_floor_toNat_iff (x p : ℚ) (hp : 0 < p) (hx : 0 ≤ x) (j : ℕ) :
    j ≤ (x / p).floor.toNat ↔ (j : ℚ) * p ≤ x := by
  obtain ⟨h1, h2⟩ := floor_toNat_bounds x p hp hx
  constructor
  · intro h
    calc (j : ℚ) * p ≤ (((x / p).floor.toNat : ℕ) : ℚ) * p := by
          apply mul_le_mul_of_nonneg_right _ hp.le
          exact_mod_cast h
      _ ≤ x := h1
  · intro h
    by_contra hc
    rw [not_le] at hc
    have : (((x / p).floor.toNat : ℕ) : ℚ) + 1 ≤ (j : ℚ) := by exact_mod_cast hc
    have : ((((x / p).floor.toNat : ℕ) : ℚ) + 1) * p ≤ (j : ℚ) * p :=
      mul_le_mul_of_nonneg_right this hp.le
    linarith

/-! ## the event of a regimen -/

theorem mkEvent_valid (l s d p : ℚ) (m : ℤ) (e : Event) (h : mkEvent l s d p m = .ok e) :
    e.Valid ∧ e = ⟨l, s, d, p, m.toNat⟩ ∧ 0 ≤ m := by
  unfold mkEvent at h
  split_ifs at h with h1 h2 h3 h4 h5 h6
  injection h with h
  subst h
  rw [not_lt] at h1 h2 h3 h4
  refine ⟨⟨h1, h2, h3, ?_, ?_⟩, rfl, h4⟩
  · intro hp
    show m.toNat = 0
    simp only [not_and, not_lt] at h5
    have := h5 hp
    omega
  · intro hp
    show d ≤ p
    simp only [not_and, not_lt] at h6
    exact h6 hp

/-- chi's defaulting of `period` -/
def effPeriod : Option ℚ → ℚ
  | none => 0
  | some p => p

/-- chi's defaulting of `num`: `None` means indefinitely (0); without a period a single dose (0) -/
def effNum : Option ℚ → Option ℤ → ℤ
  | none, _ => 0
  | some _, none => 0
  | some _, some n => n

/-- **Regimen → event.** `set_dosing_regimen(dose, start, duration, period, num)` creates the event
    with rate `dose / duration` (so rate × duration = dose), the given start and duration,
    period `0` and a single occurrence when `period` is `None`, indefinitely many occurrences
    (multiplier 0) when `num` is `None`, else `num`; and the event is well-formed. -/
theorem C10_event (dose start duration : ℚ) (period : Option ℚ) (num : Option ℤ) (e : Event)
    (h : regimenToEvent dose start duration period num = .ok e) :
    e.Valid ∧ e.level * e.duration = dose ∧ e.level = dose / duration ∧ e.start = start ∧
    e.duration = duration ∧ duration ≠ 0 ∧
    e.period = effPeriod period ∧ (e.multiplier : ℤ) = effNum period num := by
  unfold regimenToEvent at h
  simp only at h
  split_ifs at h with hd
  obtain ⟨hv, he, hm⟩ := mkEvent_valid _ _ _ _ _ _ h
  subst he
  refine ⟨hv, by simp; field_simp, rfl, rfl, rfl, hd, ?_, ?_⟩
  · cases period <;> rfl
  · cases period with
    | none => simp [effNum]
    | some p =>
      cases num with
      | none => simp [effNum]
      | some n =>
        simp only [effNum] at hm ⊢
        exact Int.toNat_of_nonneg hm

/-- **The reduced wrapper forwards the whole regimen.** Setting a regimen through a
    `ReducedMechanisticModel` (or a `PredictiveModel` whose parameters were fixed) creates the
    same event as setting it on the wrapped model: dose, start, duration, period *and* the number
    of doses. -/
theorem C10_reduced_passthrough (dose start duration : ℚ) (period : Option ℚ) (num : Option ℤ) :
    reducedRegimenToEvent dose start duration period num =
      regimenToEvent dose start duration period num := rfl

/-! ## which occurrences have started -/

theorem occStart_mono (e : Event) (hv : e.Valid) {j k : ℕ} (h : j ≤ k) :
    occStart e j ≤ occStart e k := by
  unfold occStart
  have : (j : ℚ) ≤ (k : ℚ) := by exact_mod_cast h
  have := mul_le_mul_of_nonneg_right this hv.period_nonneg
  linarith

theorem occStart_succ (e : Event) (k : ℕ) : occStart e (k + 1) = occStart e k + e.period := by
  unfold occStart; push_cast; ring

/-- **Doses scheduled up to `T`.** The occurrences counted by `nStarted e T` are exactly those
    that exist (the single one / `k < num` / every `k`) and start at or before `T`. -/
theorem C10_started_iff (e : Event) (hv : e.Valid) (T : ℚ) (k : ℕ) :
    k < nStarted e T ↔ (scheduled e k = true ∧ occStart e k ≤ T) := by
  unfold nStarted
  by_cases hT : T < e.start
  · rw [if_pos hT]
    constructor
    · intro h; omega
    · rintro ⟨_, h⟩
      have : occStart e 0 ≤ occStart e k := occStart_mono e hv (Nat.zero_le k)
      have h0 : occStart e 0 = e.start := by simp [occStart]
      linarith
  · rw [if_neg hT]
    rw [not_lt] at hT
    unfold lastIdx scheduled
    by_cases hp : e.period = 0
    · simp only [hp, if_true, occStart, mul_zero, add_zero]
      constructor
      · intro h
        have : k = 0 := by omega
        subst this
        exact ⟨by simp, hT⟩
      · rintro ⟨h, _⟩
        have : k = 0 := by simpa using h
        omega
    · have hpp : 0 < e.period := lt_of_le_of_ne hv.period_nonneg (Ne.symm hp)
      have hx : 0 ≤ T - e.start := by linarith
      have hiff := le_floor_toNat_iff (T - e.start) e.period hpp hx k
      have hocc : occStart e k ≤ T ↔ (k : ℚ) * e.period ≤ T - e.start := by
        unfold occStart; constructor <;> intro h <;> linarith
      simp only [hp, if_false]
      by_cases hm : e.multiplier = 0
      · simp only [hm, if_true, beq_self_eq_true, Bool.true_or, true_and]
        rw [hocc, ← hiff]; omega
      · simp only [hm, if_false]
        have hmb : (e.multiplier == 0) = false := by simpa using hm
        simp only [hmb, Bool.false_or, decide_eq_true_eq]
        rw [hocc, ← hiff]
        omega

/-! ## the rate -/

/-- **Rate.** The pacing variable equals the event's level (`dose / duration`) at every time
    inside an interval `[start + k·period, start + k·period + duration)` of an existing occurrence
    — and is `0` at every other time.  (Single, finite and indefinite regimens; any time.) -/
theorem C10_pace (e : Event) (hv : e.Valid) (t : ℚ) :
    ((∃ k, scheduled e k = true ∧ occStart e k ≤ t ∧ t < occStart e k + e.duration) →
      pace e t = e.level) ∧
    ((¬ ∃ k, scheduled e k = true ∧ occStart e k ≤ t ∧ t < occStart e k + e.duration) →
      pace e t = 0) := by
  have hlast : ¬ t < e.start → lastIdx e t < nStarted e t := by
    intro h; unfold nStarted; rw [if_neg h]; omega
  constructor
  · rintro ⟨k, hs, h1, h2⟩
    have hk : k < nStarted e t := (C10_started_iff e hv t k).mpr ⟨hs, h1⟩
    have hstart : ¬ t < e.start := by
      intro h; unfold nStarted at hk; rw [if_pos h] at hk; omega
    have hK := (C10_started_iff e hv t (lastIdx e t)).mp (hlast hstart)
    unfold pace
    rw [if_neg hstart]
    have hkK : k ≤ lastIdx e t := by
      unfold nStarted at hk; rw [if_neg hstart] at hk; omega
    rcases Nat.lt_or_eq_of_le hkK with hlt | heq
    · -- a later occurrence has started: then the k-th one is over
      exfalso
      have hp : 0 < e.period := by
        by_contra hc
        have : e.period = 0 := le_antisymm (not_lt.mp hc) hv.period_nonneg
        unfold lastIdx at hlt; rw [if_pos this] at hlt; omega
      have h3 : occStart e (k + 1) ≤ occStart e (lastIdx e t) := occStart_mono e hv hlt
      rw [occStart_succ] at h3
      have := hv.fits hp
      linarith [hK.2]
    · rw [← heq, if_pos h2]
  · intro hno
    unfold pace
    split_ifs with h1 h2
    · rfl
    · exfalso
      apply hno
      have hK := (C10_started_iff e hv t (lastIdx e t)).mp (hlast h1)
      exact ⟨lastIdx e t, hK.1, hK.2, h2⟩
    · rfl

/-! ## the cumulative input -/

theorem sumTo_succ (n : ℕ) (f : ℕ → ℚ) : sumTo (n + 1) f = sumTo n f + f n := by
  simp [sumTo, List.range_succ]

theorem sumTo_const (n : ℕ) (f : ℕ → ℚ) (c : ℚ) (h : ∀ k, k < n → f k = c) :
    sumTo n f = (n : ℚ) * c := by
  induction n with
  | zero => simp [sumTo]
  | succ m ih =>
    rw [sumTo_succ, ih (fun k hk => h k (by omega)), h m (by omega)]
    push_cast; ring

theorem sumTo_congr (n : ℕ) (f g : ℕ → ℚ) (h : ∀ k, k < n → f k = g k) :
    sumTo n f = sumTo n g := by
  induction n with
  | zero => simp [sumTo]
  | succ m ih => rw [sumTo_succ, sumTo_succ, ih (fun k hk => h k (by omega)), h m (by omega)]

/-- what one occurrence has delivered: nothing before it starts, `rate × elapsed` while it runs,
    the whole dose `rate × duration` once it is over -/
theorem C10_occ_delivered (e : Event) (hv : e.Valid) (k : ℕ) (T : ℚ) :
    (T ≤ occStart e k → occDelivered e k T = 0) ∧
    (occStart e k ≤ T → T ≤ occStart e k + e.duration →
      occDelivered e k T = e.level * (T - occStart e k)) ∧
    (occStart e k + e.duration ≤ T → occDelivered e k T = e.level * e.duration) := by
  unfold occDelivered
  have hd := hv.duration_nonneg
  refine ⟨fun h => ?_, fun h1 h2 => ?_, fun h => ?_⟩
  · have : min (T - occStart e k) e.duration ≤ 0 := le_trans (min_le_left _ _) (by linarith)
    rw [max_eq_left this, mul_zero]
  · rw [min_eq_left (by linarith), max_eq_right (by linarith)]
  · rw [min_eq_right (by linarith), max_eq_right hd]

/-- **Cumulative input.** Up to any time `T` the system has received: the full dose
    (`rate × duration`) of every scheduled occurrence but the most recently started one, plus the
    part `rate × min(T − start_last, duration)` of that one.  By induction on the number of
    doses started, for single, finite and indefinite regimens. -/
theorem C10_delivered (e : Event) (hv : e.Valid) (T : ℚ) :
    (nStarted e T = 0 → delivered e T = 0) ∧
    (∀ n, nStarted e T = n + 1 →
      delivered e T = (n : ℚ) * (e.level * e.duration) +
        e.level * min (T - occStart e n) e.duration) := by
  constructor
  · intro h; simp [delivered, h, sumTo]
  · intro n hn
    unfold delivered
    rw [hn, sumTo_succ]
    have hlast := (C10_started_iff e hv T n).mp (by omega)
    congr 1
    · apply sumTo_const
      intro k hk
      -- an earlier occurrence is over when the next one starts
      have hp : 0 < e.period := by
        by_contra hc
        have h0 : e.period = 0 := le_antisymm (not_lt.mp hc) hv.period_nonneg
        have : nStarted e T ≤ 1 := by
          unfold nStarted lastIdx; split_ifs <;> omega
        omega
      have h1 : occStart e (k + 1) ≤ occStart e n := occStart_mono e hv hk
      rw [occStart_succ] at h1
      have := hv.fits hp
      exact (C10_occ_delivered e hv k T).2.2 (by linarith [hlast.2])
    · unfold occDelivered
      have : 0 ≤ min (T - occStart e n) e.duration :=
        le_min (by linarith [hlast.2]) hv.duration_nonneg
      rw [max_eq_right this]

/-- **Cumulative input = sum of the doses scheduled up to then** whenever no dose is under way:
    if the most recently started occurrence is over (or nothing has started), the amount
    received is `dose × #{k scheduled : start + k·period ≤ T}`. -/
theorem C10_delivered_completed (e : Event) (hv : e.Valid) (T : ℚ)
    (hdone : ∀ n, nStarted e T = n + 1 → occStart e n + e.duration ≤ T) :
    delivered e T = (nStarted e T : ℚ) * (e.level * e.duration) := by
  obtain ⟨h0, hs⟩ := C10_delivered e hv T
  cases hn : nStarted e T with
  | zero => rw [h0 hn]; simp
  | succ n =>
    rw [hs n hn, min_eq_right (by linarith [hdone n hn])]
    push_cast; ring

/-- a finite regimen has delivered exactly `num × dose` once its last dose is over -/
theorem C10_delivered_total (e : Event) (hv : e.Valid) (hm : 0 < e.multiplier) (T : ℚ)
    (hT : occStart e (e.multiplier - 1) + e.duration ≤ T) :
    delivered e T = (e.multiplier : ℚ) * (e.level * e.duration) := by
  have hp : e.period ≠ 0 := fun h => by have := hv.single h; omega
  have hsched : scheduled e (e.multiplier - 1) = true := by
    unfold scheduled; simp [hp]; omega
  have hn : nStarted e T = e.multiplier := by
    apply le_antisymm
    · by_contra hc
      have := (C10_started_iff e hv T e.multiplier).mp (by omega)
      unfold scheduled at this; simp [hp] at this; omega
    · have := (C10_started_iff e hv T (e.multiplier - 1)).mpr
        ⟨hsched, by linarith [hv.duration_nonneg]⟩
      omega
  rw [C10_delivered_completed e hv T, hn]
  intro n hn'
  have : n = e.multiplier - 1 := by omega
  rw [this]; exact hT

/-! ## the cumulative input grows at the rate `pace` -/

theorem scheduled_down (e : Event) {j k : ℕ} (h : scheduled e k = true) (hjk : j ≤ k) :
    scheduled e j = true := by
  unfold scheduled at h ⊢
  by_cases hp : e.period = 0
  · simp only [hp, if_true, beq_iff_eq] at h ⊢; omega
  · simp only [hp, if_false, Bool.or_eq_true, beq_iff_eq, decide_eq_true_eq] at h ⊢
    rcases h with h | h
    · exact Or.inl h
    · exact Or.inr (by omega)

theorem nStarted_eq_of (e : Event) (hv : e.Valid) (T T' : ℚ) (hTT : T ≤ T')
    (h : ∀ k, scheduled e k = true → occStart e k ≤ T' → occStart e k ≤ T) :
    nStarted e T' = nStarted e T := by
  apply le_antisymm
  · by_contra hc
    have hk := (C10_started_iff e hv T' (nStarted e T)).mp (by omega)
    have := (C10_started_iff e hv T (nStarted e T)).mpr ⟨hk.1, h _ hk.1 hk.2⟩
    omega
  · by_contra hc
    have hk := (C10_started_iff e hv T (nStarted e T')).mp (by omega)
    have := (C10_started_iff e hv T' (nStarted e T')).mpr ⟨hk.1, le_trans hk.2 hTT⟩
    omega

/-- **The cumulative input grows at exactly the rate `pace`.** At every time `T` there is a
    stretch `[T, T + ε)` on which `delivered (T + h) = delivered T + pace T · h`: the input
    accumulates at rate `dose / duration` during the scheduled intervals and not at all outside
    them (right-derivative of the cumulative input = pacing variable, everywhere). -/
theorem C10_delivered_rate (e : Event) (hv : e.Valid) (T : ℚ) :
    ∃ ε : ℚ, 0 < ε ∧ ∀ h : ℚ, 0 ≤ h → h < ε →
      delivered e (T + h) = delivered e T + pace e T * h := by
  by_cases hT : T < e.start
  · refine ⟨e.start - T, by linarith, fun h h0 h1 => ?_⟩
    have hn : ∀ x, x < e.start → nStarted e x = 0 := by
      intro x hx; unfold nStarted; rw [if_pos hx]
    rw [(C10_delivered e hv (T + h)).1 (hn _ (by linarith)), (C10_delivered e hv T).1 (hn _ hT)]
    unfold pace; rw [if_pos hT]; ring
  · have hnT : nStarted e T = lastIdx e T + 1 := by unfold nStarted; rw [if_neg hT]
    set K := lastIdx e T with hK
    have hKs := (C10_started_iff e hv T K).mp (by omega)
    have hnext : ∀ k, K < k → scheduled e k = true → T < occStart e k := by
      intro k hk hs
      by_contra hc
      have := (C10_started_iff e hv T k).mpr ⟨hs, not_lt.mp hc⟩
      omega
    by_cases hrun : T < occStart e K + e.duration
    · -- a dose is under way
      have hpace : pace e T = e.level := (C10_pace e hv T).1 ⟨K, hKs.1, hKs.2, hrun⟩
      refine ⟨occStart e K + e.duration - T, by linarith, fun h h0 h1 => ?_⟩
      have hsame : nStarted e (T + h) = nStarted e T := by
        apply nStarted_eq_of e hv T (T + h) (by linarith)
        intro k hs hk
        by_cases hkK : k ≤ K
        · exact le_trans (occStart_mono e hv hkK) hKs.2
        · exfalso
          have hp : 0 < e.period := by
            by_contra hc
            have h0 : e.period = 0 := le_antisymm (not_lt.mp hc) hv.period_nonneg
            unfold scheduled at hs; simp [h0] at hs; omega
          have h3 : occStart e (K + 1) ≤ occStart e k := occStart_mono e hv (by omega)
          rw [occStart_succ] at h3
          have := hv.fits hp
          linarith
      rw [(C10_delivered e hv (T + h)).2 K (by rw [hsame, hnT]),
        (C10_delivered e hv T).2 K hnT, hpace,
        min_eq_left (by linarith), min_eq_left (by linarith)]
      ring
    · -- no dose is under way
      have hpace : pace e T = 0 := by
        unfold pace; rw [if_neg hT, if_neg hrun]
      have hidle : occStart e K + e.duration ≤ T := not_lt.mp hrun
      refine ⟨if scheduled e (K + 1) = true then occStart e (K + 1) - T else 1, ?_, fun h h0 h1 => ?_⟩
      · split_ifs with hs
        · linarith [hnext (K + 1) (by omega) hs]
        · norm_num
      · have hsame : nStarted e (T + h) = nStarted e T := by
          apply nStarted_eq_of e hv T (T + h) (by linarith)
          intro k hs hk
          by_cases hkK : k ≤ K
          · exact le_trans (occStart_mono e hv hkK) hKs.2
          · exfalso
            have hs1 : scheduled e (K + 1) = true := scheduled_down e hs (by omega)
            rw [if_pos hs1] at h1
            have h3 : occStart e (K + 1) ≤ occStart e k := occStart_mono e hv (by omega)
            linarith
        rw [(C10_delivered e hv (T + h)).2 K (by rw [hsame, hnT]),
          (C10_delivered e hv T).2 K hnT, hpace,
          min_eq_right (by linarith), min_eq_right (by linarith)]
        ring

/-! ## the regimen table -/

def rowOf (e : Event) (k : ℕ) : Row := ⟨occStart e k, e.duration, e.level * e.duration⟩

theorem filter_le_range (m K : ℕ) :
    (List.range m).filter (fun k => decide (k ≤ K)) = List.range (min m (K + 1)) := by
  induction m with
  | zero => simp
  | succ n ih =>
    rw [List.range_succ, List.filter_append, ih]
    by_cases h : n ≤ K
    · have : min (n + 1) (K + 1) = n + 1 := by omega
      rw [this, List.range_succ]
      have : min n (K + 1) = n := by omega
      rw [this]; simp [h]
    · have h1 : min (n + 1) (K + 1) = K + 1 := by omega
      have h2 : min n (K + 1) = K + 1 := by omega
      rw [h1, h2]; simp [h]

/-- **Regimen table (repaired count).** For every well-formed event and every final time `T` the
    table lists, in order, exactly the occurrences that exist (`k < num` when finite) and start at
    or before `T` — the same set `C10_started_iff` shows the simulation has begun to apply — each
    as (start + k·period, duration, rate × duration). -/
theorem C10_table (e : Event) (hv : e.Valid) (T : ℚ) :
    eventRows false e (some T) = (List.range (nStarted e T)).map (rowOf e) := by
  unfold eventRows
  simp only
  by_cases hT : T < e.start
  · simp [hT, nStarted]
  · have hT' : e.start ≤ T := not_lt.mp hT
    simp only [hT, decide_false, Bool.false_eq_true, if_false]
    by_cases hp : e.period = 0
    · simp [hp, nStarted, hT, lastIdx, rowOf, occStart]
    · simp only [hp, if_false]
      have hpp : 0 < e.period := lt_of_le_of_ne hv.period_nonneg (Ne.symm hp)
      have hx : 0 ≤ T - e.start := by linarith
      set K := ((T - e.start) / e.period).floor.toNat with hK
      have hocc : ∀ k, occStart e k ≤ T ↔ k ≤ K := by
        intro k
        rw [hK, le_floor_toNat_iff (T - e.start) e.period hpp hx k]
        unfold occStart; constructor <;> intro h <;> linarith
      have hfilter : ∀ n, ((List.range n).map (occStart e)).filter (fun t => decide (t ≤ T)) =
          (List.range (min n (K + 1))).map (occStart e) := by
        intro n
        rw [List.filter_map]
        congr 1
        rw [← filter_le_range]
        apply List.filter_congr
        intro k _
        simp [hocc k]
      have hns : nStarted e T = (if e.multiplier = 0 then K else min K (e.multiplier - 1)) + 1 := by
        unfold nStarted lastIdx; simp [hT, hp, hK]
      by_cases hm : e.multiplier = 0
      · simp only [hm, if_true, Bool.false_eq_true, if_false] at hns ⊢
        rw [hfilter, hns, List.map_map]
        have : min (K + 1) (K + 1) = K + 1 := by omega
        rw [this]; rfl
      · simp only [hm, if_false] at hns ⊢
        rw [hfilter, hns, List.map_map]
        have : min e.multiplier (K + 1) = min K (e.multiplier - 1) + 1 := by omega
        rw [this]; rfl

/-- without a final time the table lists every occurrence of a single or finite regimen; of an
    indefinite regimen only the first one (the documented convention of `get_dosing_regimen`) -/
theorem C10_table_none (e : Event) (hv : e.Valid) :
    eventRows false e none =
      (List.range (if e.period = 0 then 1 else if e.multiplier = 0 then 1 else e.multiplier)).map
        (rowOf e) := by
  unfold eventRows
  by_cases hp : e.period = 0
  · simp [hp, rowOf, occStart]
  · by_cases hm : e.multiplier = 0
    · simp [hp, hm, rowOf, occStart]
    · simp [hp, hm, List.map_map]; intro a _; rfl

/-- the whole table: the rows of all events, `None` when there is none -/
theorem C10_table_all (es : List Event) (hv : ∀ e ∈ es, e.Valid) (T : ℚ) :
    regimenTable false es (some T) =
      (let rows := es.flatMap (fun e => (List.range (nStarted e T)).map (rowOf e))
       if rows.isEmpty then none else some rows) := by
  unfold regimenTable
  have : es.flatMap (fun e => eventRows false e (some T)) =
      es.flatMap (fun e => (List.range (nStarted e T)).map (rowOf e)) := by
    apply List.flatMap_congr
    intro e he
    exact C10_table e (hv e he) T
  simp only [this]

/-- every table row is a time at which the dose rate switches on with the tabulated rate, and
    the tabulated amount is the dose of the regimen -/
theorem C10_table_rows_applied (e : Event) (hv : e.Valid) (hd : 0 < e.duration) (T : ℚ)
    (r : Row) (hr : r ∈ eventRows false e (some T)) :
    pace e r.time = e.level ∧ r.time ≤ T ∧ r.duration = e.duration ∧
    r.dose = e.level * e.duration := by
  rw [C10_table e hv T, List.mem_map] at hr
  obtain ⟨k, hk, rfl⟩ := hr
  have hk' := (C10_started_iff e hv T k).mp (List.mem_range.mp hk)
  refine ⟨?_, hk'.2, rfl, rfl⟩
  exact (C10_pace e hv (occStart e k)).1 ⟨k, hk'.1, le_refl _, by simp [rowOf]; linarith⟩

/-- **The unrepaired count loses doses.** `start = 0, period = 1, duration = 1/4`: at final time
    `5/2` the doses at `0, 1, 2` have been applied but the legacy table lists `0, 1`; at final
    time `1/2` (shorter than one period) the first dose has been applied but the legacy table is
    empty.  The repaired count lists them. -/
theorem C10_table_counterexample :
    let e : Event := ⟨4, 0, 1/4, 1, 0⟩
    nStarted e (5/2) = 3 ∧ (eventRows true e (some (5/2))).map (·.time) = [0, 1] ∧
    (eventRows false e (some (5/2))).map (·.time) = [0, 1, 2] ∧
    nStarted e (1/2) = 1 ∧ regimenTable true [e] (some (1/2)) = none ∧
    (eventRows false e (some (1/2))).map (·.time) = [0] := by
  decide +kernel

/-- the legacy count also ignored the start time: `start = 1/2, period = 1`, final time `1/2`:
    the first dose has been applied, the legacy table is empty, the repaired one lists it -/
theorem C10_table_counterexample_start :
    let e : Event := ⟨4, 1/2, 1/4, 1, 0⟩
    nStarted e (1/2) = 1 ∧ regimenTable true [e] (some (1/2)) = none ∧
    (eventRows false e (some (1/2))).map (·.time) = [1/2] := by
  decide +kernel

/-! ## regimens derived from a dataset -/

/-- the event a dose row stands for: rate `dose / duration` from the row's time for the row's
    duration (`dflt` = 0.01 when the duration is missing); rows without a dose or a time are
    no dose rows -/
def rowSpec (dflt : ℚ) (r : DoseRow) : Option Event :=
  match r.time, r.dose with
  | some t, some a =>
    some ⟨a / r.duration.getD dflt, t, r.duration.getD dflt, 0, 0⟩
  | _, _ => none

theorem protoAdd_ok (e : Event) : ∀ (l l' : List Event), protoAdd e l = .ok l' →
    l.Pairwise (fun a b => a.start < b.start) →
    l'.Perm (e :: l) ∧ l'.Pairwise (fun a b => a.start < b.start) := by
  intro l
  induction l with
  | nil =>
    intro l' h _
    simp only [protoAdd] at h
    injection h with h; subst h
    exact ⟨List.Perm.refl _, List.pairwise_singleton _ _⟩
  | cons f r ih =>
    intro l' h hs
    unfold protoAdd at h
    rw [List.pairwise_cons] at hs
    split_ifs at h with h1 h2
    · injection h with h; subst h
      refine ⟨List.Perm.refl _, List.pairwise_cons.mpr ⟨?_, List.pairwise_cons.mpr hs⟩⟩
      intro a ha
      rcases List.mem_cons.mp ha with rfl | ha
      · exact h1
      · exact lt_trans h1 (hs.1 a ha)
    · cases hr : protoAdd e r with
      | error x => rw [hr] at h; cases h
      | ok r' =>
        rw [hr] at h
        injection h with h; subst h
        obtain ⟨hp, hsr⟩ := ih r' hr hs.2
        refine ⟨(List.Perm.cons f hp).trans (List.Perm.swap e f r), ?_⟩
        refine List.pairwise_cons.mpr ⟨?_, hsr⟩
        intro a ha
        rcases List.mem_cons.mp (hp.mem_iff.mp ha) with rfl | ha
        · exact lt_of_le_of_ne (not_lt.mp h1) (Ne.symm h2)
        · exact hs.1 a ha

theorem rowEvent_ok (dflt t a : ℚ) (dur : Option ℚ) (e : Event)
    (h : rowEvent dflt t a dur = .ok e) :
    e = ⟨a / dur.getD dflt, t, dur.getD dflt, 0, 0⟩ ∧ e.Valid ∧ e.duration ≠ 0 := by
  unfold rowEvent at h
  simp only at h
  split_ifs at h with h0
  obtain ⟨hv, he, _⟩ := mkEvent_valid _ _ _ _ _ _ h
  refine ⟨by simpa using he, hv, ?_⟩
  rw [he]; exact h0

/-- **Dataset rows → protocol.** If the controller builds a protocol for an individual, its events
    are — up to the order, which is by time — exactly one event per dose row (rows with a dose and
    a time), each with the row's time, the row's duration (0.01 when missing) and rate
    `dose / duration`, i.e. delivering the row's dose; all events are single and well-formed. -/
theorem C10_dataset_rows (dflt : ℚ) : ∀ (rows : List DoseRow) (acc evs : List Event),
    rowsToProtocol dflt rows acc = .ok evs →
    acc.Pairwise (fun a b => a.start < b.start) →
    evs.Perm (acc ++ rows.filterMap (rowSpec dflt)) ∧
    evs.Pairwise (fun a b => a.start < b.start) ∧
    (∀ e ∈ rows.filterMap (rowSpec dflt), e.Valid ∧ e.duration ≠ 0 ∧ e.period = 0 ∧
      e.multiplier = 0) := by
  intro rows
  induction rows with
  | nil =>
    intro acc evs h hs
    simp only [rowsToProtocol] at h
    injection h with h; subst h
    simp [hs]
  | cons r rs ih =>
    intro acc evs h hs
    unfold rowsToProtocol at h
    cases ht : r.time with
    | none =>
      simp only [ht] at h
      have hspec : rowSpec dflt r = none := by simp [rowSpec, ht]
      simp only [List.filterMap_cons, hspec]
      exact ih acc evs h hs
    | some t =>
      cases ha : r.dose with
      | none =>
        simp only [ht, ha] at h
        have hspec : rowSpec dflt r = none := by simp [rowSpec, ht, ha]
        simp only [List.filterMap_cons, hspec]
        exact ih acc evs h hs
      | some a =>
        simp only [ht, ha] at h
        cases hre : rowEvent dflt t a r.duration with
        | error x => rw [hre] at h; cases h
        | ok e =>
          rw [hre] at h
          simp only at h
          cases hpa : protoAdd e acc with
          | error x => rw [hpa] at h; cases h
          | ok acc' =>
            rw [hpa] at h
            simp only at h
            obtain ⟨hperm, hsorted⟩ := protoAdd_ok e acc acc' hpa hs
            obtain ⟨ih1, ih2, ih3⟩ := ih acc' evs h hsorted
            obtain ⟨he, hv, hd⟩ := rowEvent_ok dflt t a r.duration e hre
            have hspec : rowSpec dflt r = some e := by
              simp only [rowSpec, ht, ha]; rw [he]
            simp only [List.filterMap_cons, hspec]
            refine ⟨?_, ih2, ?_⟩
            · refine ih1.trans ?_
              refine (List.Perm.append_right _ hperm).trans ?_
              simp only [List.cons_append]
              exact (List.perm_middle).symm
            · intro x hx
              rcases List.mem_cons.mp hx with rfl | hx
              · refine ⟨hv, hd, ?_, ?_⟩ <;> rw [he]
              · exact ih3 x hx

/-- each dose row's event delivers the row's dose -/
theorem C10_dataset_row_amount (dflt : ℚ) (r : DoseRow) (e : Event) (t a : ℚ)
    (ht : r.time = some t) (ha : r.dose = some a) (h : rowSpec dflt r = some e)
    (hd : e.duration ≠ 0) : e.level * e.duration = a ∧ e.start = t := by
  simp only [rowSpec, ht, ha] at h
  injection h with h
  subst h
  simp only at hd ⊢
  exact ⟨by field_simp, trivial⟩

/-- **Only the last dataset counts.** After any sequence of successful `set_data` calls on one
    controller the regimens are those of the last dataset alone — in particular `None` when the
    last dataset carries no dose information, whatever was set before. -/
theorem C10_set_data_history (dflt : ℚ) (ds : List (Option (List (String × List DoseRow))))
    (d : Option (List (String × List DoseRow))) (s s' : Option (List (String × List Event)))
    (h : setDataRun dflt s (ds ++ [d]) = .ok s') :
    setDataRegimens dflt none d = .ok s' ∧ (d = none → s' = none) := by
  have hind : ∀ p p', setDataRegimens dflt p d = setDataRegimens dflt p' d := by
    intro p p'; cases d <;> rfl
  induction ds generalizing s with
  | nil =>
    simp only [List.nil_append, setDataRun] at h
    cases hs : setDataRegimens dflt s d with
    | error e => rw [hs] at h; cases h
    | ok s1 =>
      rw [hs] at h; simp only [setDataRun] at h
      injection h with h; subst h
      refine ⟨by rw [hind none s, hs], ?_⟩
      intro hd; subst hd
      simp only [setDataRegimens] at hs
      injection hs with hs; exact hs.symm
  | cons o os ih =>
    simp only [List.cons_append, setDataRun] at h
    cases hs : setDataRegimens dflt s o with
    | error e => rw [hs] at h; cases h
    | ok s1 => rw [hs] at h; exact ih s1 h

/-! ## several events: the partial statement and the overlap counterexample -/

/-- for single events that do not overlap (each is over when the next one starts) the pacing
    variable is the sum of the individual rates — so the cumulative input of a dataset-derived
    protocol is the sum over its rows (`deliveredMulti`).  Stated for two events; -/
theorem C10_multi_partial (e f : Event) (he : e.Valid) (hf : f.Valid) (hpe : e.period = 0)
    (hpf : f.period = 0) (hsep : e.start + e.duration ≤ f.start) (t : ℚ) :
    paceMulti [e, f] t = pace e t + pace f t := by
  have hme := he.single hpe
  have hmf := hf.single hpf
  have hLe : ∀ t, occStart e (lastIdx e t) = e.start := by
    intro t; simp [occStart, lastIdx, hpe]
  have hLf : ∀ t, occStart f (lastIdx f t) = f.start := by
    intro t; simp [occStart, lastIdx, hpf]
  have hef : e.start ≤ f.start := by linarith [he.duration_nonneg]
  unfold paceMulti pace
  simp only [hLe, hLf, List.filter_cons, List.filter_nil]
  by_cases h1 : e.start ≤ t
  · by_cases h2 : f.start ≤ t
    · have h3 : ¬ t < e.start := not_lt.mpr h1
      have h4 : ¬ t < f.start := not_lt.mpr h2
      have h5 : ¬ t < e.start + e.duration := by linarith
      simp [h1, h2, h3, h4, h5, hef, hLe, hLf]
    · have h3 : ¬ t < e.start := not_lt.mpr h1
      have h4 : t < f.start := not_le.mp h2
      simp [h1, h2, h3, h4, hLe, hLf]
  · have h3 : t < e.start := not_le.mp h1
    have h2 : ¬ f.start ≤ t := by linarith
    have h4 : t < f.start := not_le.mp h2
    simp [h1, h2, h3, h4]

/-- **Overlapping dose rows lose input.** Two infusions of 10 units over 2 time units starting at
    0 and at 1: between 1 and 2 both should run (rate 10), but the later event replaces the
    earlier one (rate 5), and by time 3 the system has received 15 instead of 20 units.
    (`paceMulti` mirrors `myokit.PacingSystem`; the check replays this on chi.) -/
theorem C10_overlap_counterexample :
    let e : Event := ⟨5, 0, 2, 0, 0⟩
    let f : Event := ⟨5, 1, 2, 0, 0⟩
    paceMulti [e, f] (3/2) = 5 ∧ pace e (3/2) + pace f (3/2) = 10 ∧
    deliveredMulti [e, f] 3 = 20 ∧
    -- the rate actually applied is 5 on [0,3) and 0 afterwards: 15 units in total
    paceMulti [e, f] (1/2) = 5 ∧ paceMulti [e, f] (5/2) = 5 ∧ paceMulti [e, f] 3 = 0 := by
  decide +kernel

/-! ## model surgery -/

theorem lookup_map_set (l : List (String × Expr)) (s : String) (x : Expr) (k : String) :
    (l.map (fun p => if p.1 = s then (s, x) else p)).lookup k =
      if k = s then (l.lookup k).map (fun _ => x) else l.lookup k := by
  induction l with
  | nil => simp
  | cons p r ih =>
    obtain ⟨a, b⟩ := p
    by_cases has : a = s
    · subst has
      by_cases hk : k = a
      · subst hk; simp [List.lookup]
      · have : (k == a) = false := by simpa using hk
        simp [List.lookup, this, ih, hk]
    · by_cases hk : k = a
      · subst hk
        have hks : ¬ k = s := has
        simp [List.lookup, has, hks]
      · have : (k == a) = false := by simpa using hk
        simp [List.lookup, has, this, ih]

/-- **Direct administration.** The dosed state's rate of change becomes `RHS + dose rate`, the
    dose-rate variable is the one bound to the pacing protocol, and no other equation changes. -/
theorem C10_surgery_direct (m : Eqs) (amount rate : String) (old : Expr)
    (h : m.get amount = some old) (env : String → ℚ) :
    let m' := setAdministration m amount "dose.drug_amount" "dose.absorption_rate" rate true
    (∃ new, m'.get amount = some new ∧ new.eval env = old.eval env + env rate) ∧
    m'.paceVar = some rate ∧ m'.rhs.length = m.rhs.length ∧
    ∀ s, s ≠ amount → m'.get s = m.get s := by
  intro m'
  have hm' : m' = { (m.set amount (.plus old (.var rate))) with paceVar := some rate } := by
    show setAdministration m amount _ _ rate true = _
    simp [setAdministration, addDoseRate, h]
  refine ⟨⟨.plus old (.var rate), ?_, by simp [Expr.eval]⟩, by rw [hm'], ?_, ?_⟩
  · rw [hm']
    show (m.set amount _).rhs.lookup amount = _
    unfold Eqs.set
    rw [lookup_map_set]
    have : m.rhs.lookup amount = some old := h
    simp [this]
  · rw [hm']; simp [Eqs.set]
  · intro s hs
    rw [hm']
    show (m.set amount _).rhs.lookup s = m.rhs.lookup s
    unfold Eqs.set
    rw [lookup_map_set]; simp [hs]

/-- **Indirect administration.** A depot state is added whose rate of change is
    `−k_a·A_d + dose rate`; the dosed state's becomes `RHS + k_a·A_d`; hence the depot and the
    dosed compartment together gain exactly `RHS + dose rate` (mass balance of the absorption). -/
theorem C10_surgery_indirect (m : Eqs) (amount depot ka rate : String) (old : Expr)
    (h : m.get amount = some old) (hnew : m.get depot = none) (hne : depot ≠ amount)
    (env : String → ℚ) :
    let m' := setAdministration m amount depot ka rate false
    ∃ newA newD, m'.get amount = some newA ∧ m'.get depot = some newD ∧
      newA.eval env = old.eval env + env ka * env depot ∧
      newD.eval env = -(env ka) * env depot + env rate ∧
      newA.eval env + newD.eval env = old.eval env + env rate ∧
      m'.paceVar = some rate ∧ m'.rhs.length = m.rhs.length + 1 := by
  intro m'
  set m1 := addDoseCompartment m amount depot ka with hm1
  have hm1' : m1 = { (m.set amount (.plus old (.times (.var ka) (.var depot)))) with
      rhs := (m.set amount (.plus old (.times (.var ka) (.var depot)))).rhs ++
        [(depot, .times (.neg (.var ka)) (.var depot))] } := by
    rw [hm1]; simp [addDoseCompartment, h]
  have hlk : ∀ s, m1.get s = match (m.set amount (.plus old (.times (.var ka) (.var depot)))).get s with
      | some x => some x
      | none => if s = depot then some (.times (.neg (.var ka)) (.var depot)) else none := by
    intro s
    rw [hm1']
    show List.lookup s (_ ++ _) = _
    rw [List.lookup_append]
    cases hx : (m.set amount (.plus old (.times (.var ka) (.var depot)))).rhs.lookup s with
    | some x => simp [Eqs.get, hx]
    | none =>
      simp only [Eqs.get, hx, Option.none_or]
      by_cases hs : s = depot
      · subst hs; simp [List.lookup]
      · have : (s == depot) = false := by simpa using hs
        simp [List.lookup, this, hs]
  have hsetA : (m.set amount (.plus old (.times (.var ka) (.var depot)))).get amount =
      some (.plus old (.times (.var ka) (.var depot))) := by
    show (m.set amount _).rhs.lookup amount = _
    unfold Eqs.set; rw [lookup_map_set]
    have : m.rhs.lookup amount = some old := h
    simp [this]
  have hsetD : (m.set amount (.plus old (.times (.var ka) (.var depot)))).get depot = none := by
    show (m.set amount _).rhs.lookup depot = _
    unfold Eqs.set; rw [lookup_map_set]
    have : m.rhs.lookup depot = none := hnew
    simp [hne, this]
  have h1A : m1.get amount = some (.plus old (.times (.var ka) (.var depot))) := by
    rw [hlk, hsetA]
  have h1D : m1.get depot = some (.times (.neg (.var ka)) (.var depot)) := by
    rw [hlk, hsetD]; simp
  have hm' : m' = { (m1.set depot (.plus (.times (.neg (.var ka)) (.var depot)) (.var rate))) with
      paceVar := some rate } := by
    show setAdministration m amount depot ka rate false = _
    simp [setAdministration, addDoseRate, ← hm1, h1D]
  refine ⟨.plus old (.times (.var ka) (.var depot)),
    .plus (.times (.neg (.var ka)) (.var depot)) (.var rate), ?_, ?_, by simp [Expr.eval],
    by simp [Expr.eval], by simp only [Expr.eval]; ring, by rw [hm'], ?_⟩
  · rw [hm']
    show (m1.set depot _).rhs.lookup amount = _
    unfold Eqs.set; rw [lookup_map_set]
    have : m1.rhs.lookup amount = _ := h1A
    simp [Ne.symm hne, this]
  · rw [hm']
    show (m1.set depot _).rhs.lookup depot = _
    unfold Eqs.set; rw [lookup_map_set]
    have : m1.rhs.lookup depot = _ := h1D
    simp [this]
  · rw [hm', hm1']; simp [Eqs.set]

/-! ## protocols with any number of non-overlapping single events -/


/-- the pacing value of a protocol, restated with the list of started events made explicit -/
def bestOf (t : ℚ) (e0 : Event) (r : List Event) : Event :=
  r.foldl (fun b e => if occStart b (lastIdx b t) ≤ occStart e (lastIdx e t) then e else b) e0

theorem paceMulti_eq (es : List Event) (t : ℚ) :
    paceMulti es t = match es.filter (fun e => decide (e.start ≤ t)) with
      | [] => 0
      | e0 :: r =>
        if t < occStart (bestOf t e0 r) (lastIdx (bestOf t e0 r) t) + (bestOf t e0 r).duration
        then (bestOf t e0 r).level else 0 := by
  unfold paceMulti bestOf
  rfl

theorem single_lastStart (e : Event) (hp : e.period = 0) (t : ℚ) :
    occStart e (lastIdx e t) = e.start := by
  simp [occStart, lastIdx, hp]

theorem pace_single (e : Event) (hp : e.period = 0) (t : ℚ) :
    pace e t = if t < e.start then 0 else if t < e.start + e.duration then e.level else 0 := by
  unfold pace; rw [single_lastStart e hp]

/-- **Protocols of non-overlapping single events** (what a dataset with non-overlapping dose rows
    yields, any number of rows): the pacing variable is the sum of the individual rates, so each
    row's dose is delivered in full (`deliveredMulti`). -/
theorem C10_multi_nonoverlap (es : List Event) (hv : ∀ e ∈ es, e.Valid) (hp : ∀ e ∈ es, e.period = 0)
    (hsep : es.Pairwise (fun e f => e.start + e.duration ≤ f.start)) (t : ℚ) :
    paceMulti es t = (es.map (fun e => pace e t)).sum := by
  induction es with
  | nil => simp [paceMulti]
  | cons e rest ih =>
    rw [List.pairwise_cons] at hsep
    have ihr := ih (fun f hf => hv f (List.mem_cons_of_mem _ hf))
      (fun f hf => hp f (List.mem_cons_of_mem _ hf)) hsep.2
    have hpe := hp e List.mem_cons_self
    have hde := (hv e List.mem_cons_self).duration_nonneg
    simp only [List.map_cons, List.sum_cons]
    by_cases hst : e.start ≤ t
    · -- e has started
      cases hf : rest.filter (fun f => decide (f.start ≤ t)) with
      | nil =>
        -- nothing later has started: e rules, the later ones contribute nothing
        have hzero : (rest.map (fun f => pace f t)).sum = 0 := by
          apply List.sum_eq_zero
          intro x hx
          obtain ⟨f, hfm, rfl⟩ := List.mem_map.mp hx
          have : ¬ f.start ≤ t := by
            intro h
            have : f ∈ rest.filter (fun f => decide (f.start ≤ t)) :=
              List.mem_filter.mpr ⟨hfm, by simpa using h⟩
            rw [hf] at this; cases this
          rw [pace_single f (hp f (List.mem_cons_of_mem _ hfm)), if_pos (not_le.mp this)]
        rw [hzero, add_zero, paceMulti_eq]
        simp only [List.filter_cons, hst, decide_true, if_true, hf]
        have hb0 : bestOf t e [] = e := rfl
        rw [hb0, pace_single e hpe, if_neg (not_lt.mpr hst)]
        simp only [single_lastStart e hpe]
      | cons x xs =>
        -- a later event has started: e is over, and the protocol behaves like the rest
        have hx : x ∈ rest ∧ x.start ≤ t := by
          have : x ∈ rest.filter (fun f => decide (f.start ≤ t)) := by rw [hf]; exact List.mem_cons_self
          have := List.mem_filter.mp this
          exact ⟨this.1, by simpa using this.2⟩
        have hover : e.start + e.duration ≤ t := le_trans (hsep.1 x hx.1) hx.2
        have hpe0 : pace e t = 0 := by
          rw [pace_single e hpe, if_neg (not_lt.mpr hst), if_neg (not_lt.mpr hover)]
        rw [hpe0, zero_add, ← ihr, paceMulti_eq, paceMulti_eq]
        simp only [List.filter_cons, hst, decide_true, if_true, hf]
        have hb : bestOf t e (x :: xs) = bestOf t x xs := by
          unfold bestOf
          simp only [List.foldl_cons]
          rw [single_lastStart e hpe, single_lastStart x (hp x (List.mem_cons_of_mem _ hx.1))]
          have : e.start ≤ x.start := le_trans (by linarith) (hsep.1 x hx.1)
          rw [if_pos this]
        rw [hb]
    · -- e has not started, hence nothing has
      have hlt : t < e.start := not_le.mp hst
      have hnone : rest.filter (fun f => decide (f.start ≤ t)) = [] := by
        apply List.filter_eq_nil_iff.mpr
        intro f hfm
        have := hsep.1 f hfm
        simp only [decide_eq_true_eq, not_le]; linarith
      have hzero : (rest.map (fun f => pace f t)).sum = 0 := by
        apply List.sum_eq_zero
        intro x hx
        obtain ⟨f, hfm, rfl⟩ := List.mem_map.mp hx
        have := hsep.1 f hfm
        rw [pace_single f (hp f (List.mem_cons_of_mem _ hfm)), if_pos (by linarith)]
      rw [hzero, pace_single e hpe, if_pos hlt, paceMulti_eq]
      simp [hst, hnone]


/-- the protocol built from a dataset whose dose rows do not overlap applies every row's rate in
    full: its pacing variable is the sum over the rows -/
theorem C10_dataset_delivery (dflt : ℚ) (rows : List DoseRow) (evs : List Event)
    (h : rowsToProtocol dflt rows [] = .ok evs)
    (hsep : evs.Pairwise (fun e f => e.start + e.duration ≤ f.start)) (t : ℚ) :
    paceMulti evs t = (evs.map (fun e => pace e t)).sum := by
  obtain ⟨hperm, _, hall⟩ := C10_dataset_rows dflt rows [] evs h List.Pairwise.nil
  have hmem : ∀ e ∈ evs, e ∈ rows.filterMap (rowSpec dflt) := by
    intro e he; simpa using hperm.mem_iff.mp he
  exact C10_multi_nonoverlap evs (fun e he => (hall e (hmem e he)).1)
    (fun e he => (hall e (hmem e he)).2.2.1) hsep t

/-! ## the cumulative input is the integral of the pacing variable -/
section integral
open MeasureTheory Set


theorem integral_block (a d L T : ℝ) (hT : 0 ≤ T) (ha : 0 ≤ a) :
    ∫ t in (0:ℝ)..T, Set.indicator (Set.Ico a (a + d)) (fun _ => L) t =
      L * max 0 (min (T - a) d) := by
  have hae : Set.indicator (Set.Ico a (a + d)) (fun _ => L) =ᵐ[volume]
      Set.indicator (Set.Ioc a (a + d)) (fun _ => L) :=
    indicator_ae_eq_of_ae_eq_set Ico_ae_eq_Ioc
  rw [intervalIntegral.integral_congr_ae (g := Set.indicator (Set.Ioc a (a + d)) (fun _ => L))
    (by filter_upwards [hae] with x hx _ using hx)]
  rw [intervalIntegral.integral_of_le hT, setIntegral_indicator measurableSet_Ioc, Set.Ioc_inter_Ioc,
    setIntegral_const, Real.volume_real_Ioc, smul_eq_mul, mul_comm]
  congr 1
  rw [max_eq_right ha]
  rcases le_total (T - a) d with h | h
  · rw [min_eq_left h, min_eq_left (by linarith : T ≤ a + d)]
    rw [max_comm]
  · rw [min_eq_right h, min_eq_right (by linarith : a + d ≤ T)]
    rw [max_comm]; congr 1; ring

/-- the step function on the real line made of the first `n` occurrences of the event:
    `level` on every `[start + k·period, start + k·period + duration)`, `k < n` -/
noncomputable def paceStep (e : Event) (n : ℕ) (t : ℝ) : ℝ :=
  ∑ k ∈ Finset.range n,
    Set.indicator (Set.Ico ((occStart e k : ℚ) : ℝ) (((occStart e k : ℚ) : ℝ) + ((e.duration : ℚ) : ℝ)))
      (fun _ => ((e.level : ℚ) : ℝ)) t

theorem nStarted_mono (e : Event) (hv : e.Valid) {t T : ℚ} (h : t ≤ T) :
    nStarted e t ≤ nStarted e T := by
  by_contra hc
  have hk := (C10_started_iff e hv t (nStarted e T)).mp (by omega)
  have := (C10_started_iff e hv T (nStarted e T)).mpr ⟨hk.1, le_trans hk.2 h⟩
  omega

/-- at every rational time up to `T` the step function is the pacing variable -/
theorem paceStep_eq_pace (e : Event) (hv : e.Valid) (t T : ℚ) (htT : t ≤ T) :
    paceStep e (nStarted e T) (t : ℝ) = ((pace e t : ℚ) : ℝ) := by
  unfold paceStep
  have hmem : ∀ k, (t : ℝ) ∈ Set.Ico ((occStart e k : ℚ) : ℝ)
      (((occStart e k : ℚ) : ℝ) + ((e.duration : ℚ) : ℝ)) ↔
      (occStart e k ≤ t ∧ t < occStart e k + e.duration) := by
    intro k
    rw [Set.mem_Ico, ← Rat.cast_add, Rat.cast_le, Rat.cast_lt]
  by_cases hex : ∃ k, scheduled e k = true ∧ occStart e k ≤ t ∧ t < occStart e k + e.duration
  · obtain ⟨k, hs, h1, h2⟩ := hex
    rw [(C10_pace e hv t).1 ⟨k, hs, h1, h2⟩]
    have hk : k < nStarted e T :=
      lt_of_lt_of_le ((C10_started_iff e hv t k).mpr ⟨hs, h1⟩) (nStarted_mono e hv htT)
    rw [Finset.sum_eq_single k]
    · rw [Set.indicator_of_mem ((hmem k).mpr ⟨h1, h2⟩)]
    · intro j hj hjk
      apply Set.indicator_of_notMem
      rw [hmem j]
      rintro ⟨hj1, hj2⟩
      -- two different occurrences cannot both be running
      have hp : 0 < e.period := by
        by_contra hc
        have h0 : e.period = 0 := le_antisymm (not_lt.mp hc) hv.period_nonneg
        have hsj := ((C10_started_iff e hv T j).mp (Finset.mem_range.mp hj)).1
        unfold scheduled at hs hsj
        simp [h0] at hs hsj
        omega
      have hfit := hv.fits hp
      rcases Nat.lt_or_gt_of_ne hjk with hlt | hgt
      · have h3 : occStart e (j + 1) ≤ occStart e k := occStart_mono e hv hlt
        rw [occStart_succ] at h3; linarith
      · have h3 : occStart e (k + 1) ≤ occStart e j := occStart_mono e hv hgt
        rw [occStart_succ] at h3; linarith
    · intro hk'; exact absurd (Finset.mem_range.mpr hk) hk'
  · rw [(C10_pace e hv t).2 hex]
    rw [Rat.cast_zero]
    apply Finset.sum_eq_zero
    intro k hk
    apply Set.indicator_of_notMem
    rw [hmem k]
    rintro ⟨h1, h2⟩
    exact hex ⟨k, ((C10_started_iff e hv T k).mp (Finset.mem_range.mp hk)).1, h1, h2⟩

theorem cast_sumTo (n : ℕ) (f : ℕ → ℚ) :
    ((sumTo n f : ℚ) : ℝ) = ∑ k ∈ Finset.range n, ((f k : ℚ) : ℝ) := by
  induction n with
  | zero => simp [sumTo]
  | succ m ih => rw [sumTo_succ, Finset.sum_range_succ, Rat.cast_add, ih]

/-- **Cumulative input = ∫ pace.**  For every well-formed event and every rational `T ≥ 0` the
    interval integral over `[0, T]` of the step function that coincides with the pacing variable
    at all (rational) times up to `T` is the cumulative input `delivered e T`. -/
theorem C10_delivered_integral (e : Event) (hv : e.Valid) (T : ℚ) (hT : 0 ≤ T) :
    (∫ t in (0:ℝ)..(T : ℝ), paceStep e (nStarted e T) t) = ((delivered e T : ℚ) : ℝ) ∧
    ∀ t : ℚ, t ≤ T → paceStep e (nStarted e T) (t : ℝ) = ((pace e t : ℚ) : ℝ) := by
  refine ⟨?_, fun t ht => paceStep_eq_pace e hv t T ht⟩
  unfold delivered paceStep
  have hT' : (0:ℝ) ≤ (T : ℝ) := by exact_mod_cast hT
  rw [intervalIntegral.integral_finsetSum]
  · rw [cast_sumTo]
    apply Finset.sum_congr rfl
    intro k _
    have ha : (0:ℝ) ≤ ((occStart e k : ℚ) : ℝ) := by
      have : 0 ≤ occStart e k := le_trans hv.start_nonneg (by
        have := occStart_mono e hv (Nat.zero_le k); simpa [occStart] using this)
      exact_mod_cast this
    rw [integral_block _ _ _ _ hT' ha]
    unfold occDelivered
    push_cast
    rfl
  · intro k _
    rw [intervalIntegrable_iff_integrableOn_Ioc_of_le hT']
    exact (integrableOn_const (by simp)).indicator measurableSet_Ico


end integral

/-- every predictive model wrapped by an averaging model is given the regimen itself -/
theorem C10_averaged_passthrough (k : ℕ) (dose start duration : ℚ) (period : Option ℚ)
    (num : Option ℤ) :
    (averagedRegimenToEvents k dose start duration period num).length = k ∧
    ∀ e ∈ averagedRegimenToEvents k dose start duration period num,
      e = regimenToEvent dose start duration period num := by
  constructor
  · simp [averagedRegimenToEvents]
  · intro e he
    simp only [averagedRegimenToEvents, List.mem_map] at he
    obtain ⟨_, _, rfl⟩ := he
    rfl

/-- **Only the last route counts.** After any sequence of `set_administration` calls the equations
    are those of the last call applied to the model file — also when only the dosed variable
    differs from the call before (same compartment, same direct / indirect flag). -/
theorem C10_readministration (s : PKState) (cs : List AdminCall) (c : AdminCall) :
    ((cs ++ [c]).foldl adminStep s).current =
      setAdministration s.vanilla c.amount c.depot c.ka c.rate c.direct ∧
    ((cs ++ [c]).foldl adminStep s).vanilla = s.vanilla := by
  have hv : ∀ (l : List AdminCall) (t : PKState), (l.foldl adminStep t).vanilla = t.vanilla := by
    intro l
    induction l with
    | nil => intro t; rfl
    | cons x xs ih => intro t; rw [List.foldl_cons, ih]; rfl
  rw [List.foldl_append]
  simp only [List.foldl_cons, List.foldl_nil, adminStep]
  exact ⟨by rw [hv], hv cs s⟩

/-! ## frames with any row labels; the regimens inside the log-posteriors -/

theorem mem_firstSeen (l : List String) (a : String) : a ∈ firstSeen l ↔ a ∈ l := by
  induction l with
  | nil => simp [firstSeen]
  | cons b t ih =>
    simp only [firstSeen, List.mem_cons, List.mem_filter, ih]
    by_cases h : a = b
    · simp [h]
    · simp [h]

theorem nodup_firstSeen (l : List String) : (firstSeen l).Nodup := by
  induction l with
  | nil => simp [firstSeen]
  | cons b t ih =>
    simp only [firstSeen, List.nodup_cons, List.mem_filter]
    refine ⟨?_, ih.filter _⟩
    rintro ⟨_, h⟩
    simp at h

/-- **An individual's rows are its own rows.** The rows from which an individual's regimen is
    built are exactly the frame's rows carrying that individual's ID (in frame order), whatever the
    row labels are. -/
theorem C10_frame_rows_own (frame : List FrameRow) (id : String) (r : DoseRow) :
    r ∈ rowsOf frame id ↔ ∃ fr ∈ frame, fr.id = id ∧ fr.row = r := by
  simp only [rowsOf, List.mem_map, List.mem_filter, beq_iff_eq]
  constructor
  · rintro ⟨fr, ⟨h1, h2⟩, h3⟩; exact ⟨fr, h1, h2, h3⟩
  · rintro ⟨fr, h1, h2, h3⟩; exact ⟨fr, ⟨h1, h2⟩, h3⟩

/-- **Row labels play no role.** Relabelling the rows of the frame in any way (repeating labels,
    labels out of order) changes neither the individuals nor their rows, hence no regimen. -/
theorem C10_frame_relabel (frame : List FrameRow) (f : FrameRow → Int) (dflt : ℚ) :
    frameIndividuals (frame.map (fun r => { r with label := f r })) = frameIndividuals frame ∧
    frameRegimens dflt (frame.map (fun r => { r with label := f r })) = frameRegimens dflt frame := by
  have h : frameIndividuals (frame.map (fun r => { r with label := f r })) =
      frameIndividuals frame := by
    simp only [frameIndividuals, rowsOf, List.map_map, List.filter_map, Function.comp_def]
  exact ⟨h, by simp only [frameRegimens, h]⟩

theorem setDataGo_ok (dflt : ℚ) : ∀ (inds : List (String × List DoseRow))
    (r : List (String × List Event)), setDataRegimens.go dflt inds = .ok r →
    r.map Prod.fst = inds.map Prod.fst ∧
    ∀ p ∈ r, ∃ rows, (p.1, rows) ∈ inds ∧ rowsToProtocol dflt rows [] = .ok p.2 := by
  intro inds
  induction inds with
  | nil =>
    intro r h
    simp only [setDataRegimens.go] at h
    injection h with h; subst h; simp
  | cons x xs ih =>
    intro r h
    obtain ⟨label, rows⟩ := x
    simp only [setDataRegimens.go] at h
    cases h1 : rowsToProtocol dflt rows [] with
    | error e => rw [h1] at h; cases h
    | ok evs =>
      rw [h1] at h
      simp only at h
      cases h2 : setDataRegimens.go dflt xs with
      | error e => rw [h2] at h; cases h
      | ok r' =>
        rw [h2] at h
        simp only at h
        injection h with h; subst h
        obtain ⟨ih1, ih2⟩ := ih r' h2
        refine ⟨by simp [ih1], ?_⟩
        intro p hp
        rcases List.mem_cons.mp hp with rfl | hp
        · exact ⟨rows, by simp, h1⟩
        · obtain ⟨rows', hm, hr⟩ := ih2 p hp
          exact ⟨rows', List.mem_cons_of_mem _ hm, hr⟩

/-- **Regimens of a frame.** When `set_data` succeeds on a frame with dose information, there is
    one regimen per individual of the frame (IDs in order of first appearance, none twice), and the
    regimen of every individual is the protocol of that individual's own rows — so, by
    `C10_dataset_rows`, one event per dose row of that individual and nothing else. -/
theorem C10_frame_regimens (dflt : ℚ) (frame : List FrameRow) (r : List (String × List Event))
    (h : frameRegimens dflt frame = .ok (some r)) :
    r.map Prod.fst = firstSeen (frame.map (·.id)) ∧ (r.map Prod.fst).Nodup ∧
    ∀ p ∈ r, rowsToProtocol dflt (rowsOf frame p.1) [] = .ok p.2 := by
  simp only [frameRegimens, setDataRegimens] at h
  cases hg : setDataRegimens.go dflt (frameIndividuals frame) with
  | error e => rw [hg] at h; cases h
  | ok r' =>
    rw [hg] at h
    simp only at h
    injection h with h; injection h with h; subst h
    obtain ⟨h1, h2⟩ := setDataGo_ok dflt _ _ hg
    have hk : r'.map Prod.fst = firstSeen (frame.map (·.id)) := by
      rw [h1]; simp [frameIndividuals, Function.comp_def]
    refine ⟨hk, hk ▸ nodup_firstSeen _, ?_⟩
    intro p hp
    obtain ⟨rows, hm, hr⟩ := h2 p hp
    simp only [frameIndividuals, List.mem_map] at hm
    obtain ⟨id, _, heq⟩ := hm
    injection heq with e1 e2
    subst e1; subst e2; exact hr

/-- selection by row label is the selection by ID when the row labels are unique … -/
theorem C10_frame_by_label (frame : List FrameRow) (id : String)
    (hu : (frame.map (·.label)).Nodup) : rowsOfByLabel frame id = rowsOf frame id := by
  simp only [rowsOfByLabel, rowsOf]
  congr 1
  apply List.filter_congr
  intro r hr
  have hinj := List.inj_on_of_nodup_map hu
  by_cases hid : r.id = id
  · have : r.label ∈ (frame.filter (fun r => r.id == id)).map (·.label) :=
      List.mem_map.mpr ⟨r, List.mem_filter.mpr ⟨hr, by simp [hid]⟩, rfl⟩
    simp [hid, List.contains_iff_mem, this]
  · have : ¬ r.label ∈ (frame.filter (fun r => r.id == id)).map (·.label) := by
      intro hm
      obtain ⟨r', hr', hl⟩ := List.mem_map.mp hm
      obtain ⟨hr'1, hr'2⟩ := List.mem_filter.mp hr'
      have := hinj hr'1 hr hl
      subst this
      simp at hr'2
      exact hid hr'2
    simp [hid, List.contains_iff_mem, this]

/-- … and hands an individual the dose rows of others when they repeat: two individuals glued
    together, each block labelled 0, 1 -/
theorem C10_frame_by_label_counterexample :
    let frame : List FrameRow :=
      [⟨0, "a", ⟨some 0, some 10, none⟩⟩, ⟨1, "a", ⟨some 1, none, none⟩⟩,
       ⟨0, "b", ⟨some 2, some 4, none⟩⟩, ⟨1, "b", ⟨some 3, none, none⟩⟩]
    (rowsOf frame "b").length = 2 ∧ (rowsOfByLabel frame "b").length = 4 := by
  decide +kernel

/-! ### the regimen each individual's likelihood simulates with -/

theorem mem_of_lookup {β : Type} (l : List (String × β)) (k : String) (v : β)
    (h : l.lookup k = some v) : (k, v) ∈ l := by
  induction l with
  | nil => simp at h
  | cons x xs ih =>
    obtain ⟨a, b⟩ := x
    simp only [List.lookup_cons] at h
    by_cases hk : k = a
    · subst hk
      simp at h
      subst h
      simp
    · have : (k == a) = false := by simp [hk]
      rw [this] at h
      exact List.mem_cons_of_mem _ (ih h)

/-- **Every likelihood gets its own individual's regimen.** With regimens derived from the dataset
    (`regs` non-empty), whatever regimen the controller's model carried before (`own`) and in
    whatever order the individuals are handled, the likelihood of each individual simulates with
    exactly the regimen `get_dosing_regimens()` reports for that individual — also when that regimen
    has no events. -/
theorem C10_likelihood_regimen (regs : List (String × List Event)) (hne : regs ≠ []) :
    ∀ (ids : List String) (own : Option (List Event)) (out : List (String × Option (List Event))),
    likelihoodRegimens (some regs) own ids = .ok out →
    out.map Prod.fst = ids ∧ ∀ p ∈ out, ∃ evs, regs.lookup p.1 = some evs ∧ p.2 = some evs := by
  intro ids
  induction ids with
  | nil =>
    intro own out h
    simp only [likelihoodRegimens] at h
    injection h with h; subst h; simp
  | cons id rest ih =>
    intro own out h
    obtain ⟨p0, r0, rfl⟩ : ∃ p r, regs = p :: r := by
      cases regs with
      | nil => exact absurd rfl hne
      | cons p r => exact ⟨p, r, rfl⟩
    simp only [likelihoodRegimens, setFor] at h
    cases hl : List.lookup id (p0 :: r0) with
    | none => rw [hl] at h; cases h
    | some evs =>
      rw [hl] at h
      simp only at h
      cases hr : likelihoodRegimens (some (p0 :: r0)) (some evs) rest with
      | error e => rw [hr] at h; cases h
      | ok out' =>
        rw [hr] at h
        simp only at h
        injection h with h; subst h
        obtain ⟨ih1, ih2⟩ := ih (some evs) out' hr
        refine ⟨by simp [ih1], ?_⟩
        intro p hp
        rcases List.mem_cons.mp hp with rfl | hp
        · exact ⟨evs, hl, rfl⟩
        · exact ih2 p hp

/-- the regimen the controller's model was created with plays no role once the dataset has dose
    information -/
theorem C10_likelihood_own_irrelevant (regs : List (String × List Event)) (hne : regs ≠ [])
    (ids : List String) (own own' : Option (List Event)) :
    likelihoodRegimens (some regs) own ids = likelihoodRegimens (some regs) own' ids := by
  obtain ⟨p0, r0, rfl⟩ : ∃ p r, regs = p :: r := by
    cases regs with
    | nil => exact absurd rfl hne
    | cons p r => exact ⟨p, r, rfl⟩
  cases ids with
  | nil => simp [likelihoodRegimens]
  | cons id rest => simp only [likelihoodRegimens, setFor]

/-- **From the frame to the likelihood.** For a frame with dose information on which `set_data`
    succeeds, the likelihood of every requested individual of the frame simulates with the protocol
    of that individual's own dose rows: no events for an individual without dose rows, never the
    events of the individual handled before it or of the model the controller was created with. -/
theorem C10_dataset_likelihood_rows (dflt : ℚ) (frame : List FrameRow)
    (regs : List (String × List Event)) (hne : regs ≠ [])
    (h : frameRegimens dflt frame = .ok (some regs)) (ids : List String)
    (own : Option (List Event)) (out : List (String × Option (List Event)))
    (ho : likelihoodRegimens (some regs) own ids = .ok out) :
    out.map Prod.fst = ids ∧
    ∀ p ∈ out, ∃ evs, p.2 = some evs ∧ rowsToProtocol dflt (rowsOf frame p.1) [] = .ok evs := by
  obtain ⟨h1, h2⟩ := C10_likelihood_regimen regs hne ids own out ho
  obtain ⟨_, _, h3⟩ := C10_frame_regimens dflt frame regs h
  refine ⟨h1, ?_⟩
  intro p hp
  obtain ⟨evs, hl, he⟩ := h2 p hp
  refine ⟨evs, he, ?_⟩
  have hm : (p.1, evs) ∈ regs := mem_of_lookup regs p.1 evs hl
  exact h3 (p.1, evs) hm

/-- a working copy on which empty regimens are skipped would hand the untreated individual the
    doses of the individual handled before it, or those of the controller's own model -/
theorem C10_likelihood_skip_empty_counterexample :
    let a : List Event := [⟨10, 0, 1, 0, 0⟩]
    let own : List Event := [⟨500, 0, 1/10, 1, 0⟩]
    let regs : List (String × List Event) := [("A", a), ("B", [])]
    likelihoodRegimens (some regs) (some own) ["A", "B"] = .ok [("A", some a), ("B", some [])] ∧
    likelihoodRegimensSkipEmpty regs (some own) ["A", "B"] = [("A", some a), ("B", some a)] ∧
    likelihoodRegimens (some regs) (some own) ["B"] = .ok [("B", some [])] ∧
    likelihoodRegimensSkipEmpty regs (some own) ["B"] = [("B", some own)] := by
  decide +kernel

/-! ## objects derived from other objects -/

/-- the regimen chosen through a handle is what that handle reports -/
theorem C10_derived_set_own (σ : Heap) (h : Nat) (r : Regimen) :
    (σ.step (.set h r)).regimenOf h = r := by
  simp [Heap.step, Heap.regimenOf]

/-- … and what every other handle onto the same model reports; handles onto OTHER models report what
    they reported before -/
theorem C10_derived_set_frame (σ : Heap) (h h' : Nat) (r : Regimen) :
    (σ.cell h' = σ.cell h → (σ.step (.set h r)).regimenOf h' = r) ∧
    (σ.cell h' ≠ σ.cell h → (σ.step (.set h r)).regimenOf h' = σ.regimenOf h') := by
  constructor
  · intro he
    simp [Heap.step, Heap.regimenOf, he]
  · intro hne
    simp [Heap.step, Heap.regimenOf, hne]

theorem derived_step_nHandles (σ : Heap) (op : DeriveOp) : σ.nHandles ≤ (σ.step op).nHandles := by
  cases op <;> simp [Heap.step]

theorem derived_step_nCells (σ : Heap) (op : DeriveOp) : σ.nCells ≤ (σ.step op).nCells := by
  cases op <;> simp [Heap.step]

theorem derived_step_cell (σ : Heap) (op : DeriveOp) (k : Nat) (hk : k < σ.nHandles) :
    (σ.step op).cell k = σ.cell k := by
  cases op <;> simp [Heap.step] <;> intro h <;> omega

theorem derived_step_wf (σ : Heap) (hw : σ.WF) (op : DeriveOp) (hop : op.handle < σ.nHandles) :
    (σ.step op).WF := by
  intro k hk
  cases op with
  | copy h =>
    simp only [Heap.step] at hk ⊢
    split_ifs with hkk
    · omega
    · have := hw k (by omega); omega
  | wrap h =>
    simp only [Heap.step] at hk ⊢
    split_ifs with hkk
    · exact hw h hop
    · exact hw k (by omega)
  | set h r =>
    simp only [Heap.step] at hk ⊢
    exact hw k hk

/-- **A derived object owns its model.**  `copy` / `PredictiveModel(m, …)` / the controller: the new
    handle reports what the source holds at that moment, it points at a cell no earlier handle points
    at, and every earlier handle keeps its cell and its regimen. -/
theorem C10_derived_copy (σ : Heap) (hw : σ.WF) (h : Nat) :
    (σ.step (.copy h)).regimenOf σ.nHandles = σ.regimenOf h ∧
    ∀ k, k < σ.nHandles →
      (σ.step (.copy h)).cell k = σ.cell k ∧
      (σ.step (.copy h)).cell k ≠ (σ.step (.copy h)).cell σ.nHandles ∧
      (σ.step (.copy h)).regimenOf k = σ.regimenOf k := by
  refine ⟨by simp [Heap.step, Heap.regimenOf], ?_⟩
  intro k hk
  have hc := hw k hk
  have hne : k ≠ σ.nHandles := by omega
  have hcn : σ.cell k ≠ σ.nCells := by omega
  simp [Heap.step, Heap.regimenOf, hne, hcn]

/-- a wrapper is another handle onto the same model: it reports the wrapped object's regimen, and a
    regimen chosen through either is reported by both -/
theorem C10_derived_wrap (σ : Heap) (h : Nat) (r : Regimen) :
    (σ.step (.wrap h)).regimenOf σ.nHandles = σ.regimenOf h ∧
    (h < σ.nHandles →
      (((σ.step (.wrap h)).step (.set σ.nHandles r)).regimenOf h = r ∧
       ((σ.step (.wrap h)).step (.set h r)).regimenOf σ.nHandles = r)) := by
  refine ⟨by simp [Heap.step, Heap.regimenOf], ?_⟩
  intro hh
  have hne : h ≠ σ.nHandles := by omega
  simp [Heap.step, Heap.regimenOf, hne]

theorem derived_run_cell (ops : List DeriveOp) : ∀ (σ : Heap), σ.ValidOps ops →
    ∀ k, k < σ.nHandles → (σ.run ops).cell k = σ.cell k ∧ σ.nHandles ≤ (σ.run ops).nHandles := by
  induction ops with
  | nil => intro σ _ k _; exact ⟨rfl, le_refl _⟩
  | cons op rest ih =>
    intro σ hv k hk
    have hk' : k < (σ.step op).nHandles := lt_of_lt_of_le hk (derived_step_nHandles σ op)
    obtain ⟨h1, h2⟩ := ih (σ.step op) hv.2 k hk'
    refine ⟨?_, le_trans (derived_step_nHandles σ op) h2⟩
    show ((σ.step op).run rest).cell k = σ.cell k
    rw [h1, derived_step_cell σ op k hk]

theorem derived_run_wf (ops : List DeriveOp) : ∀ (σ : Heap), σ.WF → σ.ValidOps ops →
    (σ.run ops).WF := by
  induction ops with
  | nil => intro σ hw _; exact hw
  | cons op rest ih =>
    intro σ hw hv
    exact ih (σ.step op) (derived_step_wf σ hw op hv.1) hv.2

/-- **Nobody else's choice reaches a model.**  Through any history of derivations, wrappings and
    regimen choices in which no regimen is chosen for the model in cell `c` (through any of its
    handles), that model holds what it held before. -/
theorem C10_derived_untouched_cell (ops : List DeriveOp) : ∀ (σ : Heap) (c : Nat), c < σ.nCells →
    ¬ σ.Touches ops c → (σ.run ops).reg c = σ.reg c := by
  induction ops with
  | nil => intro σ c _ _; rfl
  | cons op rest ih =>
    intro σ c hc ht
    have ht2 : ¬ (σ.step op).Touches rest c := fun hx => ht (Or.inr hx)
    have hc' : c < (σ.step op).nCells := lt_of_lt_of_le hc (derived_step_nCells σ op)
    show ((σ.step op).run rest).reg c = σ.reg c
    rw [ih (σ.step op) c hc' ht2]
    cases op with
    | copy h =>
      have : c ≠ σ.nCells := by omega
      simp [Heap.step, this]
    | wrap h => simp [Heap.step]
    | set h r =>
      have : c ≠ σ.cell h := fun he => ht (Or.inl he.symm)
      simp [Heap.step, this]

/-- the same for what a handle reports: through any such history every object keeps the regimen
    that was chosen for it — whatever is chosen for the objects derived from it, for the object it
    was derived from, or for its siblings -/
theorem C10_derived_untouched (σ : Heap) (hw : σ.WF) (ops : List DeriveOp) (hv : σ.ValidOps ops)
    (k : Nat) (hk : k < σ.nHandles) (ht : ¬ σ.Touches ops (σ.cell k)) :
    (σ.run ops).regimenOf k = σ.regimenOf k := by
  unfold Heap.regimenOf
  rw [(derived_run_cell ops σ hv k hk).1]
  exact C10_derived_untouched_cell ops σ (σ.cell k) (hw k hk) ht

/-- **The last choice for an object is what it reports and delivers**, whatever happens to other
    objects afterwards -/
theorem C10_derived_last_set (σ : Heap) (hw : σ.WF) (h : Nat) (hh : h < σ.nHandles) (r : Regimen)
    (post : List DeriveOp) (hv : (σ.step (.set h r)).ValidOps post)
    (ht : ¬ (σ.step (.set h r)).Touches post (σ.cell h)) :
    (σ.run (.set h r :: post)).regimenOf h = r := by
  have hw' : (σ.step (.set h r)).WF := derived_step_wf σ hw (.set h r) hh
  have hh' : h < (σ.step (.set h r)).nHandles := by simpa [Heap.step] using hh
  have hc : (σ.step (.set h r)).cell h = σ.cell h := by simp [Heap.step]
  have := C10_derived_untouched (σ.step (.set h r)) hw' post hv h hh' (by rw [hc]; exact ht)
  show ((σ.step (.set h r)).run post).regimenOf h = r
  rw [this]
  exact C10_derived_set_own σ h r

/-- an object derived before reports, after any history that chooses nothing for it, what its source
    held when it was derived — later choices for the source do not reach it -/
theorem C10_derived_keeps_source (σ : Heap) (hw : σ.WF) (h : Nat) (hh : h < σ.nHandles)
    (post : List DeriveOp) (hv : (σ.step (.copy h)).ValidOps post)
    (ht : ¬ (σ.step (.copy h)).Touches post σ.nCells) :
    (σ.run (.copy h :: post)).regimenOf σ.nHandles = σ.regimenOf h := by
  have hw' : (σ.step (.copy h)).WF := derived_step_wf σ hw (.copy h) hh
  have hn : σ.nHandles < (σ.step (.copy h)).nHandles := by simp [Heap.step]
  have hc : (σ.step (.copy h)).cell σ.nHandles = σ.nCells := by simp [Heap.step]
  have := C10_derived_untouched (σ.step (.copy h)) hw' post hv σ.nHandles hn (by rw [hc]; exact ht)
  show ((σ.step (.copy h)).run post).regimenOf σ.nHandles = σ.regimenOf h
  rw [this]
  exact (C10_derived_copy σ hw h).1

/-- two arms derived from one model, a regimen for each, for ALL regimens `a`, `b` and whatever the
    source held: each arm reports its own, the source still what it held -/
theorem C10_derived_two_arms (s a b : Regimen) :
    let σ := (Heap.init s).run [.copy 0, .copy 0, .set 1 a, .set 2 b]
    σ.regimenOf 1 = a ∧ σ.regimenOf 2 = b ∧ σ.regimenOf 0 = s := by
  simp [Heap.init, Heap.run, Heap.step, Heap.regimenOf]

/-- with derived objects that keep a reference to the model they were given, the second choice
    replaces the first arm's regimen and dosed the source: the property fails whenever `a ≠ b` -/
theorem C10_derived_shared_counterexample (s a b : Regimen) :
    let σ := (Heap.init s).runShared [.copy 0, .copy 0, .set 1 a, .set 2 b]
    σ.regimenOf 1 = b ∧ σ.regimenOf 2 = b ∧ σ.regimenOf 0 = b := by
  simp [Heap.init, Heap.runShared, Heap.stepShared, Heap.step, Heap.regimenOf]

example : (Heap.init none).WF ∧ (Heap.init none).ValidOps [.copy 0, .wrap 1, .set 2 (some [])] := by
  refine ⟨fun k hk => by simp [Heap.init], ?_⟩
  simp [Heap.ValidOps, Heap.init, Heap.step, DeriveOp.handle]

/-! ## one object, regimens chosen in turn, solved again for the same parameters and times -/

/-- the solves of a history followed by more calls: the later calls start from the regimen in force -/
theorem simTrace_append (r : Regimen) (h₁ h₂ : List SimCall) :
    simTrace r (h₁ ++ h₂) = simTrace r h₁ ++ simTrace (simRegimen r h₁) h₂ := by
  induction h₁ generalizing r with
  | nil => simp [simTrace, simRegimen]
  | cons c rest ih =>
    cases c with
    | set r' => simp [simTrace, simRegimen, ih]
    | solve q => simp [simTrace, simRegimen, ih]

theorem simRegimen_append (r : Regimen) (h₁ h₂ : List SimCall) :
    simRegimen r (h₁ ++ h₂) = simRegimen (simRegimen r h₁) h₂ := by
  induction h₁ generalizing r with
  | nil => simp [simRegimen]
  | cons c rest ih =>
    cases c with
    | set r' => simp [simRegimen, ih]
    | solve q => simp [simRegimen, ih]

/-- after ANY history on the object (earlier regimens, earlier solves — also for the very same request `q`),
    a solve that follows the choice of `r'` is run with `r'` -/
theorem C10_resimulate_last_set (r r' : Regimen) (hist : List SimCall) (q : Nat) :
    simTrace r (hist ++ [.set r', .solve q]) = simTrace r hist ++ [(q, r')] := by
  rw [simTrace_append]; simp [simTrace]

/-- every solve is run with the regimen in force when it is called -/
theorem C10_resimulate_in_force (r : Regimen) (hist : List SimCall) (q : Nat) :
    simTrace r (hist ++ [.solve q]) = simTrace r hist ++ [(q, simRegimen r hist)] := by
  rw [simTrace_append]; simp [simTrace]

/-- solving does not change the regimen in force: dropping the solves from a history leaves it -/
theorem C10_resimulate_solve_pure (r : Regimen) (hist : List SimCall) :
    simRegimen r (hist.filter (fun c => match c with | .set _ => true | .solve _ => false)) =
      simRegimen r hist := by
  induction hist generalizing r with
  | nil => rfl
  | cons c rest ih =>
    cases c with
    | set r' => simp [simRegimen, ih]
    | solve q => simp [simRegimen, ih]

/-- the regimen in force is the last one chosen -/
theorem C10_resimulate_regimen_last (r r' : Regimen) (hist : List SimCall) (qs : List Nat) :
    simRegimen r (hist ++ .set r' :: qs.map .solve) = r' := by
  rw [simRegimen_append]
  simp only [simRegimen]
  induction qs with
  | nil => rfl
  | cons q rest ih => simpa [simRegimen] using ih

/-- a remembered solution that is dropped whenever a regimen is chosen cannot be told from solving
    every time, provided what is remembered was solved with the regimen in force -/
theorem C10_resimulate_memo_dropped (hist : List SimCall) :
    ∀ (memo : Option (Nat × Regimen)) (r : Regimen), (∀ p, memo = some p → p.2 = r) →
      simTraceMemoDropped memo r hist = simTrace r hist := by
  induction hist with
  | nil => intro memo r _; rfl
  | cons c rest ih =>
    intro memo r hm
    cases c with
    | set r' =>
      simp only [simTraceMemoDropped, simTrace]
      exact ih none r' (by intro p hp; cases hp)
    | solve q =>
      cases memo with
      | none =>
        simp only [simTraceMemoDropped, simTrace]
        rw [ih (some (q, r)) r (by intro p hp; cases hp; rfl)]
      | some p =>
        obtain ⟨q', r0⟩ := p
        have h0 : r0 = r := hm (q', r0) rfl
        subst h0
        simp only [simTraceMemoDropped, simTrace]
        split
        · rw [ih (some (q', r0)) r0 (by intro p hp; cases hp; rfl)]
        · rw [ih (some (q, r0)) r0 (by intro p hp; cases hp; rfl)]

/-- a remembered solution that survives the choice of a regimen: solve, choose `b`, solve the same
    request again — the second solve is handed the trajectory of `a`; the property fails whenever `a ≠ b` -/
theorem C10_resimulate_memo_counterexample (a b : Regimen) (q : Nat) :
    simTraceMemo none a [.solve q, .set b, .solve q] = [(q, a), (q, a)] ∧
    simTrace a [.solve q, .set b, .solve q] = [(q, a), (q, b)] := by
  simp [simTraceMemo, simTrace]

example : simTrace none [.solve 0, .set (some []), .solve 0, .solve 1, .set none, .solve 0] =
    [(0, none), (0, some []), (1, some []), (0, none)] := by simp [simTrace]

/-! ## non-vacuity -/

example : regimenToEvent 2 (1/2) (1/4) (some 1) none = .ok ⟨8, 1/2, 1/4, 1, 0⟩ := by
  decide +kernel
example : regimenToEvent 2 0 (1/4) none (some 3) = .ok ⟨8, 0, 1/4, 0, 0⟩ := by decide +kernel
example : regimenToEvent 2 0 0 none none = .error .zeroDivision := by decide +kernel
example : regimenToEvent 2 0 2 (some 1) none = .error .protocolEvent := by decide +kernel
example : nStarted ⟨8, 1/2, 1/4, 1, 0⟩ (13/8) = 2 ∧ pace ⟨8, 1/2, 1/4, 1, 0⟩ (13/8) = 8 := by
  decide +kernel
example : (rowsToProtocol (1/100) [⟨some 2, some 3, none⟩, ⟨some 1, none, none⟩,
    ⟨some 0, some 2, some (1/2)⟩] []).toOption =
    some [⟨4, 0, 1/2, 0, 0⟩, ⟨300, 2, 1/100, 0, 0⟩] := by decide +kernel
example : rowsToProtocol (1/100) [⟨some 0, some 3, none⟩, ⟨some 0, some 2, none⟩] [] =
    .error .simultaneous := by decide +kernel

end ChiModel.Dosing
