import ChiProofs.RealInst
import Mathlib.Probability.Distributions.Gaussian.Real
import Mathlib.MeasureTheory.Function.Jacobian

/-!
# C04 — error models are the documented normalised densities with exact sensitivities
-/
namespace ChiModel
open ScalarFns ProbabilityTheory MeasureTheory
open scoped NNReal

/-! ## pointwise values sum to the total -/

theorem C04_gauss_pointwise_sum (n : Nat) (sigma : ℝ) (ybar obs : Nat → ℝ) :
    gaussLLraw n sigma ybar obs = isum n (gaussPW sigma ybar obs) := by
  unfold gaussLLraw gaussPW
  simp only [isum_eq, Finset.sum_sub_distrib, Finset.sum_neg_distrib, Finset.sum_const,
    Finset.card_range, nsmul_eq_mul, ofNat_real, ← Finset.sum_div]
  try ring

theorem C04_mult_pointwise_sum (n : Nat) (srel : ℝ) (ybar obs : Nat → ℝ) :
    multLLraw n srel ybar obs = isum n (multPW srel ybar obs) := by
  unfold multLLraw multPW
  simp only [isum_eq, Finset.sum_sub_distrib, Finset.sum_neg_distrib, Finset.sum_const,
    Finset.card_range, nsmul_eq_mul, ofNat_real, ← Finset.sum_div]
  ring

theorem C04_cm_pointwise_sum (n : Nat) (sb sr : ℝ) (ybar obs : Nat → ℝ) :
    cmLLraw n sb sr ybar obs = isum n (cmPW sb sr ybar obs) := by
  unfold cmLLraw cmPW
  simp only [isum_eq, Finset.sum_sub_distrib, Finset.sum_neg_distrib, Finset.sum_const,
    Finset.card_range, nsmul_eq_mul, ofNat_real, ← Finset.sum_div]
  ring

theorem C04_ln_pointwise_sum (n : Nat) (sigma : ℝ) (ybar obs : Nat → ℝ) :
    lnLLraw n sigma ybar obs = isum n (lnPW sigma ybar obs) := by
  unfold lnLLraw lnPW
  simp only [isum_eq, Finset.sum_sub_distrib, Finset.sum_neg_distrib, Finset.sum_const,
    Finset.card_range, nsmul_eq_mul, ofNat_real, ← Finset.sum_div]
  try ring

/-! ## the pointwise value is the logarithm of the documented density -/

theorem C04_gauss_is_logpdf (sigma : ℝ) (hs : 0 < sigma) (ybar obs : Nat → ℝ) (j : Nat) :
    gaussPW sigma ybar obs j
      = Real.log (gaussianPDFReal (ybar j) (NNReal.mk (sigma ^ 2) (sq_nonneg _)) (obs j)) := by
  unfold gaussPW halfLog2Pi gaussianPDFReal
  simp only [log_real, pi_real, two_real, NNReal.coe_mk]
  have h2pi : (0:ℝ) < 2 * Real.pi := by positivity
  have hpos : 0 < 2 * Real.pi * sigma ^ 2 := by positivity
  rw [Real.log_mul (by positivity) (Real.exp_pos _).ne', Real.log_exp, Real.log_inv,
    Real.log_sqrt hpos.le, Real.log_mul h2pi.ne' (by positivity), Real.log_pow]
  field_simp
  ring

/-! ## sensitivities: total derivative along any curve `(sigma t, ybar j t)` -/

/-- Gaussian: pointwise term along a curve -/
theorem gaussPW_hasDerivAt (y : ℝ) (sig yb : ℝ → ℝ) (sig' yb' t : ℝ)
    (hsig : HasDerivAt sig sig' t) (hyb : HasDerivAt yb yb' t) (hpos : 0 < sig t) :
    HasDerivAt (fun s => -(Real.log (2 * Real.pi) / 2 + Real.log (sig s))
        - (yb s - y) * (yb s - y) / (sig s * sig s) / 2)
      ((-(1 / sig t) + (y - yb t) * (y - yb t) / (sig t * sig t * sig t)) * sig'
        + ((y - yb t) / (sig t * sig t)) * yb') t := by
  have hne : sig t ≠ 0 := ne_of_gt hpos
  have h1 := hsig.log hne
  have hd := hyb.sub_const y
  have h2 := ((hd.mul hd).div (hsig.mul hsig) (mul_ne_zero hne hne)).div_const 2
  have h := ((hasDerivAt_const t (Real.log (2 * Real.pi) / 2)).add h1).neg.sub h2
  refine h.congr_deriv ?_
  simp only [Pi.mul_apply]
  field_simp
  ring

/-- C04 (Gaussian): derivative w.r.t. sigma and w.r.t. any mechanistic parameter. -/
theorem C04_gauss_grad (n : Nat) (obs : Nat → ℝ) (sig : ℝ → ℝ) (ybar : Nat → ℝ → ℝ)
    (sig' : ℝ) (S : Nat → ℝ) (t : ℝ) (hsig : HasDerivAt sig sig' t)
    (hy : ∀ j, j < n → HasDerivAt (ybar j) (S j) t) (hpos : 0 < sig t) :
    HasDerivAt (fun s => gaussLLraw n (sig s) (fun j => ybar j s) obs)
      (gaussDSigma n (sig t) (fun j => ybar j t) obs * sig'
        + gaussDPsi n (sig t) (fun j => ybar j t) obs (fun j _ => S j) 0) t := by
  have hne : sig t ≠ 0 := ne_of_gt hpos
  simp only [C04_gauss_pointwise_sum]
  unfold gaussPW halfLog2Pi
  simp only [log_real, pi_real, two_real]
  have hterm := fun j (hj : j < n) =>
    gaussPW_hasDerivAt (obs j) sig (ybar j) sig' (S j) t hsig (hy j hj) hpos
  refine (hasDerivAt_isum n _ _ t hterm).congr_deriv ?_
  unfold gaussDSigma gaussDPsi
  simp only [isum_eq, ofNat_real]
  rw [Finset.sum_add_distrib, ← Finset.sum_mul, Finset.sum_add_distrib, Finset.sum_div,
    Finset.sum_div]
  simp only [Finset.sum_neg_distrib, Finset.sum_const, Finset.card_range, nsmul_eq_mul]
  congr 1
  · ring
  · refine Finset.sum_congr rfl fun j _ => ?_
    ring

/-! ### constant-and-multiplicative (the multiplicative model is the case `sb = 0`) -/

/-- pointwise term with total standard deviation `sb + sr * ybar`, along a curve -/
theorem cmPW_hasDerivAt (y : ℝ) (sb sr yb : ℝ → ℝ) (sb' sr' yb' t : ℝ)
    (hsb : HasDerivAt sb sb' t) (hsr : HasDerivAt sr sr' t) (hyb : HasDerivAt yb yb' t)
    (hpos : 0 < sb t + sr t * yb t) :
    HasDerivAt (fun s => -(Real.log (2 * Real.pi) / 2) - Real.log (sb s + sr s * yb s)
        - (yb s - y) * (yb s - y) / ((sb s + sr s * yb s) * (sb s + sr s * yb s)) / 2)
      (let T := sb t + sr t * yb t
       ((y - yb t) * (y - yb t) / (T * T * T) - 1 / T) * sb'
        + ((y - yb t) * (y - yb t) / (T * T * T) * yb t - yb t / T) * sr'
        + ((y - yb t) / (T * T) - sr t / T + sr t * ((y - yb t) * (y - yb t) / (T * T * T))) * yb') t := by
  have hT : HasDerivAt (fun s => sb s + sr s * yb s) (sb' + (sr' * yb t + sr t * yb')) t :=
    hsb.add (hsr.mul hyb)
  have hne : sb t + sr t * yb t ≠ 0 := ne_of_gt hpos
  have h1 := hT.log hne
  have hd := hyb.sub_const y
  have h2 := ((hd.mul hd).div (hT.mul hT) (mul_ne_zero hne hne)).div_const 2
  have h := ((hasDerivAt_const t (-(Real.log (2 * Real.pi) / 2))).sub h1).sub h2
  refine h.congr_deriv ?_
  simp only [Pi.mul_apply]
  generalize sb t + sr t * yb t = T at hne ⊢
  field_simp
  ring

/-- C04 (constant + multiplicative): derivative w.r.t. sigma_base, sigma_rel and any
    mechanistic parameter, in one statement. -/
theorem C04_cm_grad (n : Nat) (obs : Nat → ℝ) (sb sr : ℝ → ℝ) (ybar : Nat → ℝ → ℝ)
    (sb' sr' : ℝ) (S : Nat → ℝ) (t : ℝ) (hsb : HasDerivAt sb sb' t) (hsr : HasDerivAt sr sr' t)
    (hy : ∀ j, j < n → HasDerivAt (ybar j) (S j) t)
    (hpos : ∀ j, j < n → 0 < cmTot (sb t) (sr t) (fun j => ybar j t) j) :
    HasDerivAt (fun s => cmLLraw n (sb s) (sr s) (fun j => ybar j s) obs)
      (cmDSb n (sb t) (sr t) (fun j => ybar j t) obs * sb'
        + cmDSr n (sb t) (sr t) (fun j => ybar j t) obs * sr'
        + cmDPsi n (sb t) (sr t) (fun j => ybar j t) obs (fun j _ => S j) 0) t := by
  simp only [C04_cm_pointwise_sum]
  unfold cmPW cmTot
  simp only [log_real, pi_real, two_real]
  have hterm := fun j (hj : j < n) =>
    cmPW_hasDerivAt (obs j) sb sr (ybar j) sb' sr' (S j) t hsb hsr (hy j hj) (hpos j hj)
  refine (hasDerivAt_isum n _ _ t hterm).congr_deriv ?_
  unfold cmDSb cmDSr cmDPsi cmTot
  simp only [isum_eq, ofNat_real, Nat.cast_one]
  simp only [Finset.sum_mul, Finset.mul_sum, ← Finset.sum_add_distrib, ← Finset.sum_sub_distrib]
  refine Finset.sum_congr rfl fun j _ => ?_
  ring
/-! ### multiplicative model = constant-and-multiplicative with `sigma_base = 0` -/

theorem multLLraw_eq_cm (n : Nat) (sr : ℝ) (ybar obs : Nat → ℝ) :
    multLLraw n sr ybar obs = cmLLraw n 0 sr ybar obs := by
  simp [multLLraw, cmLLraw, multTot, cmTot]

theorem multDPsi_eq_cm (n : Nat) (sr : ℝ) (ybar obs : Nat → ℝ) (S : Nat → Nat → ℝ) (k : Nat) :
    multDPsi n sr ybar obs S k = cmDPsi n 0 sr ybar obs S k := by
  simp [multDPsi, cmDPsi, multTot, cmTot]

theorem multDSrel_eq_cm (n : Nat) (sr : ℝ) (ybar obs : Nat → ℝ) :
    multDSrel n sr ybar obs = cmDSr n 0 sr ybar obs := by
  simp [multDSrel, cmDSr, multTot, cmTot]

/-- C04 (multiplicative): derivative w.r.t. sigma_rel and any mechanistic parameter. -/
theorem C04_mult_grad (n : Nat) (obs : Nat → ℝ) (sr : ℝ → ℝ) (ybar : Nat → ℝ → ℝ)
    (sr' : ℝ) (S : Nat → ℝ) (t : ℝ) (hsr : HasDerivAt sr sr' t)
    (hy : ∀ j, j < n → HasDerivAt (ybar j) (S j) t)
    (hpos : ∀ j, j < n → 0 < multTot (sr t) (fun j => ybar j t) j) :
    HasDerivAt (fun s => multLLraw n (sr s) (fun j => ybar j s) obs)
      (multDSrel n (sr t) (fun j => ybar j t) obs * sr'
        + multDPsi n (sr t) (fun j => ybar j t) obs (fun j _ => S j) 0) t := by
  simp only [multLLraw_eq_cm, multDPsi_eq_cm, multDSrel_eq_cm]
  have h := C04_cm_grad n obs (fun _ => 0) sr ybar 0 sr' S t (hasDerivAt_const t 0) hsr hy
    (by intro j hj; simpa [cmTot, multTot] using hpos j hj)
  simpa using h

/-! ### log-normal -/

theorem lnPW_hasDerivAt (y : ℝ) (sig yb : ℝ → ℝ) (sig' yb' t : ℝ)
    (hsig : HasDerivAt sig sig' t) (hyb : HasDerivAt yb yb' t) (hpos : 0 < sig t)
    (hybpos : 0 < yb t) :
    HasDerivAt (fun s => -(Real.log (2 * Real.pi) / 2 + Real.log (sig s)) - Real.log y
        - (Real.log (yb s) - sig s * sig s / 2 - Real.log y)
          * (Real.log (yb s) - sig s * sig s / 2 - Real.log y) / (sig s * sig s) / 2)
      (let e := Real.log y - Real.log (yb t) + sig t * sig t / 2
       (-e / sig t + e * e / (sig t * sig t * sig t) - 1 / sig t) * sig'
        + (e / yb t / (sig t * sig t)) * yb') t := by
  have hne : sig t ≠ 0 := ne_of_gt hpos
  have hyne : yb t ≠ 0 := ne_of_gt hybpos
  have h1 := hsig.log hne
  have hl := hyb.log hyne
  have hd := (hl.sub ((hsig.mul hsig).div_const 2)).sub_const (Real.log y)
  have h2 := ((hd.mul hd).div (hsig.mul hsig) (mul_ne_zero hne hne)).div_const 2
  have h := ((((hasDerivAt_const t (Real.log (2 * Real.pi) / 2)).add h1).neg).sub_const
    (Real.log y)).sub h2
  refine h.congr_deriv ?_
  simp only [Pi.mul_apply, Pi.sub_apply, Pi.div_apply]
  generalize Real.log (yb t) = L
  generalize Real.log y = Ly
  field_simp
  ring

/-- C04 (log-normal): derivative w.r.t. sigma_log and any mechanistic parameter. -/
theorem C04_ln_grad (n : Nat) (obs : Nat → ℝ) (sig : ℝ → ℝ) (ybar : Nat → ℝ → ℝ)
    (sig' : ℝ) (S : Nat → ℝ) (t : ℝ) (hsig : HasDerivAt sig sig' t)
    (hy : ∀ j, j < n → HasDerivAt (ybar j) (S j) t) (hpos : 0 < sig t)
    (hybpos : ∀ j, j < n → 0 < ybar j t) :
    HasDerivAt (fun s => lnLLraw n (sig s) (fun j => ybar j s) obs)
      (lnDSigma n (sig t) (fun j => ybar j t) obs * sig'
        + lnDPsi n (sig t) (fun j => ybar j t) obs (fun j _ => S j) 0) t := by
  have hne : sig t ≠ 0 := ne_of_gt hpos
  simp only [C04_ln_pointwise_sum]
  unfold lnPW halfLog2Pi
  simp only [log_real, pi_real, two_real]
  have hterm := fun j (hj : j < n) =>
    lnPW_hasDerivAt (obs j) sig (ybar j) sig' (S j) t hsig (hy j hj) hpos (hybpos j hj)
  refine (hasDerivAt_isum n _ _ t hterm).congr_deriv ?_
  unfold lnDSigma lnDPsi lnErr
  simp only [isum_eq, ofNat_real, log_real, two_real]
  have hn : (n : ℝ) / sig t = ∑ _j ∈ Finset.range n, 1 / sig t := by
    simp [Finset.sum_const, Finset.card_range, div_eq_mul_inv]
  rw [hn]
  simp only [Finset.sum_mul, Finset.mul_sum, Finset.sum_div, ← Finset.sum_add_distrib,
    ← Finset.sum_sub_distrib, ← Finset.sum_neg_distrib]
  refine Finset.sum_congr rfl fun j _ => ?_
  ring
/-! ## remaining density links, guards, normalisation -/

/-- log of a Gaussian density with standard deviation `T > 0` -/
theorem log_gaussianPDFReal (m T x : ℝ) (hT : 0 < T) :
    Real.log (gaussianPDFReal m (NNReal.mk (T ^ 2) (sq_nonneg _)) x)
      = -(Real.log (2 * Real.pi) / 2) - Real.log T - (x - m) * (x - m) / (T * T) / 2 := by
  unfold gaussianPDFReal
  simp only [NNReal.coe_mk]
  have h2pi : (0:ℝ) < 2 * Real.pi := by positivity
  have hpos : 0 < 2 * Real.pi * T ^ 2 := by positivity
  rw [Real.log_mul (by positivity) (Real.exp_pos _).ne', Real.log_exp, Real.log_inv,
    Real.log_sqrt hpos.le, Real.log_mul h2pi.ne' (by positivity), Real.log_pow]
  field_simp
  ring

theorem C04_cm_is_logpdf (sb sr : ℝ) (ybar obs : Nat → ℝ) (j : Nat)
    (hT : 0 < cmTot sb sr ybar j) :
    cmPW sb sr ybar obs j
      = Real.log (gaussianPDFReal (ybar j) (NNReal.mk (cmTot sb sr ybar j ^ 2) (sq_nonneg _)) (obs j)) := by
  rw [log_gaussianPDFReal _ _ _ hT]
  unfold cmPW
  simp only [log_real, pi_real, two_real]
  ring

theorem C04_mult_is_logpdf (sr : ℝ) (ybar obs : Nat → ℝ) (j : Nat)
    (hT : 0 < multTot sr ybar j) :
    multPW sr ybar obs j
      = Real.log (gaussianPDFReal (ybar j) (NNReal.mk (multTot sr ybar j ^ 2) (sq_nonneg _)) (obs j)) := by
  rw [log_gaussianPDFReal _ _ _ hT]
  unfold multPW
  simp only [log_real, pi_real, two_real]
  ring

/-- the documented log-normal density: Gaussian in `log y` with mean `log ybar - sigma^2/2`,
    divided by `y` -/
noncomputable def logNormalPDF (m : ℝ) (v : ℝ≥0) (y : ℝ) : ℝ := gaussianPDFReal m v (Real.log y) / y

theorem C04_ln_is_logpdf (sigma : ℝ) (hs : 0 < sigma) (ybar obs : Nat → ℝ) (j : Nat)
    (hy : 0 < obs j) :
    lnPW sigma ybar obs j
      = Real.log (logNormalPDF (Real.log (ybar j) - sigma ^ 2 / 2)
          (NNReal.mk (sigma ^ 2) (sq_nonneg _)) (obs j)) := by
  unfold logNormalPDF
  rw [Real.log_div (gaussianPDFReal_pos _ _ _ (by
        intro h; have := congrArg NNReal.toReal h; simp at this; exact hs.ne' this)).ne' hy.ne',
    log_gaussianPDFReal _ _ _ hs]
  unfold lnPW halfLog2Pi
  simp only [log_real, pi_real, two_real]
  ring

/-- normalisation of the Gaussian-type models is Mathlib's `integral_gaussianPDFReal_eq_one` -/
theorem C04_gauss_normalised (m T : ℝ) (hT : 0 < T) :
    ∫ x, gaussianPDFReal m (NNReal.mk (T ^ 2) (sq_nonneg _)) x = 1 :=
  integral_gaussianPDFReal_eq_one m (by
    intro h; have := congrArg NNReal.toReal h; simp at this; exact hT.ne' this)

/-- normalisation of the log-normal density over the measurable values `y > 0` -/
theorem C04_ln_normalised (m : ℝ) {v : ℝ≥0} (hv : v ≠ 0) :
    ∫ y in Set.Ioi (0:ℝ), logNormalPDF m v y = 1 := by
  have himg : Real.exp '' (Set.univ : Set ℝ) = Set.Ioi 0 := by
    rw [Set.image_univ, Real.range_exp]
  have h := integral_image_eq_integral_abs_deriv_smul (s := (Set.univ : Set ℝ)) (f := Real.exp)
    (f' := Real.exp) MeasurableSet.univ
    (fun x _ => (Real.hasDerivAt_exp x).hasDerivWithinAt) (Real.exp_injective.injOn)
    (logNormalPDF m v)
  rw [himg] at h
  rw [h, setIntegral_univ]
  have : ∀ x : ℝ, |Real.exp x| • logNormalPDF m v (Real.exp x) = gaussianPDFReal m v x := by
    intro x
    simp only [logNormalPDF, Real.log_exp, abs_of_pos (Real.exp_pos x), smul_eq_mul]
    field_simp
  simp_rw [this]
  exact integral_gaussianPDFReal_eq_one m hv

/-! ## guards -/

theorem C04_gauss_guard (n : Nat) (sigma : ℝ) (hs : sigma ≤ 0) (ybar obs : Nat → ℝ) :
    gaussLL n sigma ybar obs = .negInf := by
  simp [gaussLL, hs]

theorem C04_gauss_val (n : Nat) (sigma : ℝ) (hs : 0 < sigma) (ybar obs : Nat → ℝ) :
    gaussLL n sigma ybar obs = .val (gaussLLraw n sigma ybar obs) := by
  simp [gaussLL, not_le.mpr hs]

theorem C04_ln_guard (n : Nat) (sigma : ℝ) (ybar obs : Nat → ℝ)
    (h : sigma ≤ 0 ∨ ∃ j, j < n ∧ ybar j ≤ 0) : lnLL n sigma ybar obs = .negInf := by
  unfold lnLL
  rcases h with h | ⟨j, hj, hy⟩
  · simp [h]
  · have : iany n (fun j => decide (ybar j ≤ 0)) = true :=
      (iany_real _ _).2 ⟨j, hj, by simpa using hy⟩
    simp [this]

theorem C04_cm_guard (n : Nat) (sb sr : ℝ) (ybar obs : Nat → ℝ) (h : sb ≤ 0 ∨ sr ≤ 0) :
    cmLL n sb sr ybar obs = .negInf := by
  unfold cmLL
  rcases h with h | h <;> simp [h]

/-- non-vacuity: a concrete point inside the support -/
example : gaussLL 2 (1:ℝ) (fun _ => 1) (fun _ => 2) = .val (gaussLLraw 2 1 (fun _ => 1) (fun _ => 2)) :=
  C04_gauss_val 2 1 one_pos _ _
theorem C04_mult_guard (n : Nat) (sr : ℝ) (ybar obs : Nat → ℝ) (h : sr ≤ 0) :
    multLL n sr ybar obs = .negInf := by
  unfold multLL
  simp [h]

/-- "log-normal whose mean equals the output": `∫ y · pdf(y) dy = exp (m + v/2)`; with
    `m = log ȳ − σ²/2`, `v = σ²` this is `ȳ` (next theorem). -/
theorem lognormal_mean (m : ℝ) {v : ℝ≥0} (hv : v ≠ 0) :
    ∫ y in Set.Ioi (0:ℝ), y * logNormalPDF m v y = Real.exp (m + v / 2) := by
  have himg : Real.exp '' (Set.univ : Set ℝ) = Set.Ioi 0 := by
    rw [Set.image_univ, Real.range_exp]
  have h := integral_image_eq_integral_abs_deriv_smul (s := (Set.univ : Set ℝ)) (f := Real.exp)
    (f' := Real.exp) MeasurableSet.univ
    (fun x _ => (Real.hasDerivAt_exp x).hasDerivWithinAt) (Real.exp_injective.injOn)
    (fun y => y * logNormalPDF m v y)
  rw [himg] at h
  rw [h, setIntegral_univ]
  have : ∀ x : ℝ, |Real.exp x| • (Real.exp x * logNormalPDF m v (Real.exp x))
      = gaussianPDFReal m v x • Real.exp (1 * x) := by
    intro x
    simp only [logNormalPDF, Real.log_exp, abs_of_pos (Real.exp_pos x), smul_eq_mul, one_mul]
    field_simp
  simp_rw [this]
  rw [← integral_gaussianReal_eq_integral_smul hv]
  have := congrFun (mgf_id_gaussianReal (μ := m) (v := v)) 1
  simp only [mgf, id] at this
  rw [this]; ring_nf

theorem C04_ln_mean (ybar sigma : ℝ) (hy : 0 < ybar) (hs : 0 < sigma) :
    ∫ y in Set.Ioi (0:ℝ), y * logNormalPDF (Real.log ybar - sigma ^ 2 / 2)
      (NNReal.mk (sigma ^ 2) (sq_nonneg _)) y = ybar := by
  rw [lognormal_mean]
  · simp only [NNReal.coe_mk]
    rw [show Real.log ybar - sigma ^ 2 / 2 + sigma ^ 2 / 2 = Real.log ybar by ring, Real.exp_log hy]
  · intro h; have := congrArg NNReal.toReal h; simp at this; exact hs.ne' this
end ChiModel
