import ChiModel.Plots
import ChiProofs.RealInst
import Mathlib.Algebra.Order.Field.Basic
import Mathlib.Data.List.Count
import Mathlib.Data.List.Nodup
import Mathlib.Tactic.Linarith
import Mathlib.Tactic.Positivity

/-!
# C20 — figures faithfully render the supplied data and prediction bands

* routing (code as it is, all four time-series classes): `C20_row_routing` (= `_pd` ∧ `_pk`),
  `C20_row_routing_sound`, `C20_ids_nodup`, `C20_row_in_own_trace`, `C20_dose_and_measurement_row`,
  `C20_split_dose_rows_counterexample`, `C20_prediction_scatter`,
  `C20_simulation`, `C20_prediction_dose`; pre-fix variants only in `C20_row_routing_pd_legacy_partial`,
  `C20_pd_nonnumeric_id_counterexample`, `C20_pdpredictive_default_nan_counterexample`
* bands: `C20_band_encloses_any` (any admissible limits), `C20_band_encloses` (chi's choice),
  `C20_band_encloses_robust` (thresholds / ranks perturbed by rounding), `C20_band_limits_are_samples`,
  `C20_band_nested`, `C20_band_ordered`, `C20_polygon_decode`, `C20_prediction_bands`
* residual figure (code as it is): `C20_residual_routing`, `C20_residual_completes`; pre-fix:
  `C20_residual_legacy_partial`, `C20_residual_readonly_counterexample`
* frames: `C20_no_mutation`
-/
set_option linter.unusedSectionVars false
set_option linter.unusedSimpArgs false
set_option linter.unusedVariables false
namespace ChiModel.Plots
open ScalarFns

/-! ## `Series.unique()` -/
section uniq
variable {β : Type} [DecidableEq β]

theorem mem_uniq (l : List β) (y : β) : y ∈ uniq l ↔ y ∈ l := by
  induction l with
  | nil => simp [uniq]
  | cons x xs ih =>
    simp only [uniq, List.mem_cons, List.mem_filter, ih, decide_eq_true_eq]
    by_cases h : y = x <;> simp [h]

theorem nodup_uniq (l : List β) : (uniq l).Nodup := by
  induction l with
  | nil => simp [uniq]
  | cons x xs ih =>
    simp only [uniq, List.nodup_cons, List.mem_filter, decide_eq_true_eq]
    exact ⟨fun h => h.2 rfl, ih.filter _⟩

theorem uniq_head (x : β) (xs : List β) : ∃ t, uniq (x :: xs) = x :: t := ⟨_, rfl⟩

theorem filter_uniq (l : List β) (p : β → Bool) : (uniq l).filter p = uniq (l.filter p) := by
  induction l with
  | nil => simp [uniq]
  | cons x xs ih =>
    by_cases hx : p x = true
    · simp only [uniq, List.filter_cons, hx, if_true, List.filter_filter]
      rw [← ih, List.filter_filter]
      congr 2
      funext y; exact Bool.and_comm _ _
    · simp only [uniq, List.filter_cons, hx, List.filter_filter, Bool.false_eq_true, if_false]
      rw [← ih]
      apply List.filter_congr
      intro y hy
      by_cases hy' : y = x
      · subst hy'; simp [hx]
      · simp [hy']

end uniq

/-! ## percentile ranks over the reals -/
section band

theorem eqS_real (a b : ℝ) : eqS a b = decide (a = b) := by
  unfold eqS
  simp only [le_real]
  by_cases h : a = b
  · subst h; simp
  · rcases lt_or_gt_of_ne h with h' | h'
    · simp [h, not_le.mpr h']
    · simp [h, not_le.mpr h']

theorem pctRank_real (xs : List ℝ) (x : ℝ) :
    pctRank xs x = ((xs.countP (fun y => decide (y < x)) : ℝ)
      + ((xs.countP (fun y => decide (y = x)) : ℝ) + 1) / 2) / (xs.length : ℝ) := by
  unfold pctRank
  simp only [ofNat_real, lt_real, eqS_real, Nat.cast_one, Nat.cast_ofNat]

theorem lowerThr_real (p : ℝ) : lowerThr p = 1 / 2 - p / 2 := by
  unfold lowerThr; simp

theorem upperThr_real (p : ℝ) : upperThr p = 1 / 2 + p / 2 := by
  unfold upperThr; simp

theorem inside_real (xs : List ℝ) (lo hi : ℝ) :
    inside xs lo hi = xs.countP (fun x => decide (lo ≤ x ∧ x ≤ hi)) := by
  unfold inside
  congr 1
  funext x
  simp [le_real, Bool.decide_and]

/-- every sample is below `lo`, inside, or above `hi` -/
theorem length_le_three (xs : List ℝ) (p q r : ℝ → Bool) (h : ∀ x, p x ∨ q x ∨ r x) :
    xs.length ≤ xs.countP p + xs.countP q + xs.countP r := by
  induction xs with
  | nil => simp
  | cons x xs ih =>
    simp only [List.length_cons, List.countP_cons]
    rcases h x with h1 | h1 | h1 <;> simp [h1] <;> omega

theorem count_trichotomy (ys : List ℝ) (hi : ℝ) :
    ys.countP (fun y => decide (y < hi)) + ys.countP (fun y => decide (y = hi))
      + ys.countP (fun y => decide (hi < y)) = ys.length := by
  induction ys with
  | nil => simp
  | cons y ys ih =>
    simp only [List.countP_cons, List.length_cons]
    rcases lt_trichotomy y hi with h | h | h
    · simp [h, h.ne, not_lt.mpr h.le]; omega
    · subst h; simp; omega
    · simp [h, h.ne', not_lt.mpr h.le]; omega

/-- core inequality: with `rank lo ≤ l` and `rank hi ≥ u` for sample values `lo`, `hi`, at least
    `(u - l)·n + 1` samples lie in `[lo, hi]` (ties allowed, no assumption `lo ≤ hi`) -/
theorem inside_ge (xs : List ℝ) (l u lo hi : ℝ) (hn : 0 < xs.length)
    (hlo_mem : lo ∈ xs) (hhi_mem : hi ∈ xs)
    (hlo : pctRank xs lo ≤ l) (hhi : u ≤ pctRank xs hi) :
    (u - l) * (xs.length : ℝ) + 1 ≤ (inside xs lo hi : ℝ) := by
  have hnK : (0 : ℝ) < (xs.length : ℝ) := by exact_mod_cast hn
  have e1 : 1 ≤ xs.countP (fun y => decide (y = lo)) :=
    List.countP_pos_iff.mpr ⟨lo, hlo_mem, by simp⟩
  have e2 : 1 ≤ xs.countP (fun y => decide (y = hi)) :=
    List.countP_pos_iff.mpr ⟨hi, hhi_mem, by simp⟩
  have e1K : (1 : ℝ) ≤ (xs.countP (fun y => decide (y = lo)) : ℝ) := by exact_mod_cast e1
  have e2K : (1 : ℝ) ≤ (xs.countP (fun y => decide (y = hi)) : ℝ) := by exact_mod_cast e2
  have hcov := length_le_three xs (fun x => decide (x < lo)) (fun x => decide (lo ≤ x ∧ x ≤ hi))
    (fun x => decide (hi < x)) (by
      intro x
      by_cases h1 : x < lo
      · left; simpa using h1
      · by_cases h2 : hi < x
        · right; right; simpa using h2
        · right; left; simp only [decide_eq_true_eq]; exact ⟨not_lt.mp h1, not_lt.mp h2⟩)
  have hpart := count_trichotomy xs hi
  have hcovK : (xs.length : ℝ) ≤ (xs.countP (fun x => decide (x < lo)) : ℝ)
      + (xs.countP (fun x => decide (lo ≤ x ∧ x ≤ hi)) : ℝ)
      + (xs.countP (fun x => decide (hi < x)) : ℝ) := by exact_mod_cast hcov
  have hpartK : (xs.countP (fun y => decide (y < hi)) : ℝ) + (xs.countP (fun y => decide (y = hi)) : ℝ)
      + (xs.countP (fun y => decide (hi < y)) : ℝ) = (xs.length : ℝ) := by exact_mod_cast hpart
  rw [pctRank_real, div_le_iff₀ hnK] at hlo
  rw [pctRank_real, le_div_iff₀ hnK] at hhi
  rw [inside_real]
  nlinarith [hlo, hhi, hcovK, hpartK, e1K, e2K]

/-- **weak relation** used by the correspondence check: ANY two sample values whose percentile
    ranks are `≤ ½ − p/2` and `≥ ½ + p/2` enclose strictly more than `p·n` samples. -/
theorem C20_band_encloses_any (xs : List ℝ) (p lo hi : ℝ)
    (hlo_mem : lo ∈ xs) (hhi_mem : hi ∈ xs)
    (hlo : pctRank xs lo ≤ lowerThr p) (hhi : upperThr p ≤ pctRank xs hi) :
    p * (xs.length : ℝ) < (inside xs lo hi : ℝ) := by
  have hn : 0 < xs.length := List.length_pos_of_mem hlo_mem
  have := inside_ge xs (lowerThr p) (upperThr p) lo hi hn hlo_mem hhi_mem hlo hhi
  rw [lowerThr_real, upperThr_real] at this
  nlinarith [this]

/-- the same when thresholds and ranks carry a rounding error `ε` each way (`0.5 − p/2`,
    `rank / n` in IEEE doubles): as long as `2·ε·n ≤ 1` at least `p·n` samples are enclosed. -/
theorem C20_band_encloses_robust (xs : List ℝ) (p lo hi ε : ℝ)
    (hlo_mem : lo ∈ xs) (hhi_mem : hi ∈ xs)
    (hε : 2 * ε * (xs.length : ℝ) ≤ 1)
    (hlo : pctRank xs lo ≤ lowerThr p + ε) (hhi : upperThr p - ε ≤ pctRank xs hi) :
    p * (xs.length : ℝ) ≤ (inside xs lo hi : ℝ) := by
  have hn : 0 < xs.length := List.length_pos_of_mem hlo_mem
  have := inside_ge xs (lowerThr p + ε) (upperThr p - ε) lo hi hn hlo_mem hhi_mem hlo hhi
  rw [lowerThr_real, upperThr_real] at this
  nlinarith [this]

/-! ### chi's choice: the largest admissible lower, the smallest admissible upper limit -/

theorem maxOpt_some (l : List ℝ) (m : ℝ) (h : maxOpt l = some m) : m ∈ l ∧ ∀ x ∈ l, x ≤ m := by
  induction l generalizing m with
  | nil => simp [maxOpt] at h
  | cons x xs ih =>
    unfold maxOpt at h
    cases hm : maxOpt xs with
    | none =>
      rw [hm] at h
      have hx : xs = [] := by
        cases xs with
        | nil => rfl
        | cons y ys =>
          unfold maxOpt at hm
          cases h' : maxOpt ys <;> rw [h'] at hm <;> simp at hm
      subst hx
      simp only [Option.some.injEq] at h
      subst h; simp
    | some m' =>
      rw [hm] at h
      simp only [Option.some.injEq, lt_real] at h
      obtain ⟨hmem, hle⟩ := ih m' hm
      by_cases hlt : m' < x
      · simp only [hlt, decide_true, if_true] at h
        subst h
        refine ⟨List.mem_cons_self, fun y hy => ?_⟩
        rcases List.mem_cons.mp hy with rfl | hy
        · exact le_refl _
        · exact le_trans (hle y hy) hlt.le
      · simp only [hlt, decide_false, Bool.false_eq_true, if_false] at h
        subst h
        refine ⟨List.mem_cons_of_mem _ hmem, fun y hy => ?_⟩
        rcases List.mem_cons.mp hy with rfl | hy
        · exact not_lt.mp hlt
        · exact hle y hy

theorem minOpt_some (l : List ℝ) (m : ℝ) (h : minOpt l = some m) : m ∈ l ∧ ∀ x ∈ l, m ≤ x := by
  induction l generalizing m with
  | nil => simp [minOpt] at h
  | cons x xs ih =>
    unfold minOpt at h
    cases hm : minOpt xs with
    | none =>
      rw [hm] at h
      have hx : xs = [] := by
        cases xs with
        | nil => rfl
        | cons y ys =>
          unfold minOpt at hm
          cases h' : minOpt ys <;> rw [h'] at hm <;> simp at hm
      subst hx
      simp only [Option.some.injEq] at h
      subst h; simp
    | some m' =>
      rw [hm] at h
      simp only [Option.some.injEq, lt_real] at h
      obtain ⟨hmem, hle⟩ := ih m' hm
      by_cases hlt : x < m'
      · simp only [hlt, decide_true, if_true] at h
        subst h
        refine ⟨List.mem_cons_self, fun y hy => ?_⟩
        rcases List.mem_cons.mp hy with rfl | hy
        · exact le_refl _
        · exact le_trans hlt.le (hle y hy)
      · simp only [hlt, decide_false, Bool.false_eq_true, if_false] at h
        subst h
        refine ⟨List.mem_cons_of_mem _ hmem, fun y hy => ?_⟩
        rcases List.mem_cons.mp hy with rfl | hy
        · exact not_lt.mp hlt
        · exact hle y hy

theorem lowerLimit_spec (xs : List ℝ) (p lo : ℝ) (h : lowerLimit xs p = some lo) :
    lo ∈ xs ∧ pctRank xs lo ≤ lowerThr p ∧
      ∀ x ∈ xs, pctRank xs x ≤ lowerThr p → x ≤ lo := by
  obtain ⟨hmem, hmax⟩ := maxOpt_some _ _ h
  simp only [List.mem_filter, le_real, decide_eq_true_eq] at hmem hmax
  exact ⟨hmem.1, hmem.2, fun x hx hr => hmax x ⟨hx, hr⟩⟩

theorem upperLimit_spec (xs : List ℝ) (p hi : ℝ) (h : upperLimit xs p = some hi) :
    hi ∈ xs ∧ upperThr p ≤ pctRank xs hi ∧
      ∀ x ∈ xs, upperThr p ≤ pctRank xs x → hi ≤ x := by
  obtain ⟨hmem, hmin⟩ := minOpt_some _ _ h
  simp only [List.mem_filter, le_real, decide_eq_true_eq] at hmem hmin
  exact ⟨hmem.1, hmem.2, fun x hx hr => hmin x ⟨hx, hr⟩⟩

/-- the drawn limits are sample values -/
theorem C20_band_limits_are_samples (xs : List ℝ) (p lo hi : ℝ)
    (hl : lowerLimit xs p = some lo) (hu : upperLimit xs p = some hi) : lo ∈ xs ∧ hi ∈ xs :=
  ⟨(lowerLimit_spec xs p lo hl).1, (upperLimit_spec xs p hi hu).1⟩

/-- **enclosure**: for every sample list (ties allowed) and every bulk probability, whenever both
    limits exist strictly more than `p·n` of the samples lie in `[lower, upper]`. -/
theorem C20_band_encloses (xs : List ℝ) (p lo hi : ℝ)
    (hl : lowerLimit xs p = some lo) (hu : upperLimit xs p = some hi) :
    p * (xs.length : ℝ) < (inside xs lo hi : ℝ) := by
  obtain ⟨h1, h2, _⟩ := lowerLimit_spec xs p lo hl
  obtain ⟨h3, h4, _⟩ := upperLimit_spec xs p hi hu
  exact C20_band_encloses_any xs p lo hi h1 h3 h2 h4

/-- **nestedness**: `p ≤ q ⇒ [l_p, u_p] ⊆ [l_q, u_q]` whenever all four limits exist -/
theorem C20_band_nested (xs : List ℝ) (p q lp up lq uq : ℝ) (hpq : p ≤ q)
    (hlp : lowerLimit xs p = some lp) (hup : upperLimit xs p = some up)
    (hlq : lowerLimit xs q = some lq) (huq : upperLimit xs q = some uq) :
    lq ≤ lp ∧ up ≤ uq := by
  obtain ⟨_, _, hmaxp⟩ := lowerLimit_spec xs p lp hlp
  obtain ⟨_, _, hminp⟩ := upperLimit_spec xs p up hup
  obtain ⟨hq1, hq2, _⟩ := lowerLimit_spec xs q lq hlq
  obtain ⟨hq3, hq4, _⟩ := upperLimit_spec xs q uq huq
  rw [lowerThr_real] at *
  rw [upperThr_real] at *
  exact ⟨hmaxp lq hq1 (by linarith), hminp uq hq3 (by linarith)⟩

/-- percentile ranks are monotone in the value -/
theorem pctRank_mono (xs : List ℝ) (a b : ℝ) (hn : 0 < xs.length) (hab : a < b) (ha : a ∈ xs) :
    pctRank xs a < pctRank xs b := by
  have hnK : (0 : ℝ) < (xs.length : ℝ) := by exact_mod_cast hn
  rw [pctRank_real, pctRank_real]
  apply div_lt_div_of_pos_right _ hnK
  -- #{< a} + #{= a} ≤ #{< b}
  have h1 : xs.countP (fun y => decide (y < a)) + xs.countP (fun y => decide (y = a))
      ≤ xs.countP (fun y => decide (y < b)) := by
    clear ha hn hnK
    induction xs with
    | nil => simp
    | cons y ys ih =>
      simp only [List.countP_cons]
      rcases lt_trichotomy y a with h | h | h
      · simp [h, h.ne, lt_trans h hab]; omega
      · subst h; simp [hab]; omega
      · have : ¬ y < a := not_lt.mpr h.le
        simp only [this, h.ne', decide_false, Bool.false_eq_true, if_false]
        by_cases hb : y < b <;> simp [hb] <;> omega
  have e1 : 1 ≤ xs.countP (fun y => decide (y = a)) :=
    List.countP_pos_iff.mpr ⟨a, ha, by simp⟩
  have h1K : (xs.countP (fun y => decide (y < a)) : ℝ) + (xs.countP (fun y => decide (y = a)) : ℝ)
      ≤ (xs.countP (fun y => decide (y < b)) : ℝ) := by exact_mod_cast h1
  have e1K : (1 : ℝ) ≤ (xs.countP (fun y => decide (y = a)) : ℝ) := by exact_mod_cast e1
  have e2K : (0 : ℝ) ≤ (xs.countP (fun y => decide (y = b)) : ℝ) := by positivity
  linarith

/-- the band is not inverted: `lower ≤ upper` for `p ≥ 0` -/
theorem C20_band_ordered (xs : List ℝ) (p lo hi : ℝ) (hp : 0 ≤ p)
    (hl : lowerLimit xs p = some lo) (hu : upperLimit xs p = some hi) : lo ≤ hi := by
  obtain ⟨h1, h2, _⟩ := lowerLimit_spec xs p lo hl
  obtain ⟨h3, h4, _⟩ := upperLimit_spec xs p hi hu
  by_contra hc
  have hlt : hi < lo := not_le.mp hc
  have := pctRank_mono xs hi lo (List.length_pos_of_mem h1) hlt h3
  rw [lowerThr_real] at h2
  rw [upperThr_real] at h4
  linarith

/-! ### polygons -/

/-- **polygon decoding**: position `j` of the closed polygon holds `(t_j, upper_j)`, the mirrored
    position `2T − 1 − j` holds `(t_j, lower_j)` -/
theorem C20_polygon_decode {β γ : Type} (b : List (β × γ × γ)) (j : Nat) (hj : j < b.length) :
    (polygon b).1.length = 2 * b.length ∧ (polygon b).2.length = 2 * b.length ∧
    (polygon b).1[j]? = some (b[j]).1 ∧ (polygon b).1[2 * b.length - 1 - j]? = some (b[j]).1 ∧
    (polygon b).2[j]? = some (b[j]).2.2 ∧ (polygon b).2[2 * b.length - 1 - j]? = some (b[j]).2.1 := by
  have hrev : ∀ {δ : Type} (l l' : List δ) (hl : l.length = b.length) (hl' : l'.length = b.length),
      (l ++ l'.reverse)[2 * b.length - 1 - j]? = l'[j]? := by
    intro δ l l' hl hl'
    have h1 : l.length ≤ 2 * b.length - 1 - j := by omega
    rw [List.getElem?_append_right h1, List.getElem?_reverse (by omega)]
    congr 1; omega
  refine ⟨by simp [polygon]; omega, by simp [polygon]; omega, ?_, ?_, ?_, ?_⟩
  · simp [polygon, List.getElem?_append_left, hj]
  · unfold polygon; simp only; rw [hrev _ _ (by simp) (by simp)]; simp [hj]
  · simp [polygon, List.getElem?_append_left, hj]
  · unfold polygon; simp only; rw [hrev _ _ (by simp) (by simp)]; simp [hj]

/-- **the whole predictive figure**: for every accepted list of bulk probabilities, the trace of
    `p` is the polygon of the rows `(t, lowerLimit, upperLimit)` over the unique times `t`, the
    limits being computed from exactly the non-missing samples at `t` -/
theorem C20_prediction_bands {τ : Type} [DecidableEq τ] (rows : List (Option τ × Option ℝ))
    (ps : List ℝ) (hps : checkProbs ps = .ok ()) :
    predictionBands rows ps = .ok (ps.map (fun p => (p, polygon ((uniq (rows.map (·.1))).map
      (fun t => (t, lowerLimit (samplesAt rows t) p, upperLimit (samplesAt rows t) p)))))) := by
  unfold predictionBands bandRows bandRow
  rw [hps]

/-- the samples at a time are exactly the non-missing values of the rows with that time -/
theorem samplesAt_mem {τ : Type} [DecidableEq τ] (rows : List (Option τ × Option ℝ)) (t : τ) (v : ℝ) :
    v ∈ samplesAt rows (some t) ↔ (some t, some v) ∈ rows := by
  unfold samplesAt
  simp only [List.mem_filterMap, List.mem_filter]
  constructor
  · rintro ⟨⟨a, b⟩, ⟨hmem, heq⟩, hb⟩
    cases a with
    | none => simp [eqM] at heq
    | some a =>
      simp only [eqM, decide_eq_true_eq] at heq
      simp only at hb
      subst heq; subst hb; exact hmem
  · intro h
    exact ⟨(some t, some v), ⟨h, by simp [eqM]⟩, rfl⟩

/-- a probability list with at most 7 entries in `[0, 1]` is accepted -/
theorem checkProbs_ok (ps : List ℝ) (hlen : ps.length ≤ 7) (h : ∀ p ∈ ps, 0 ≤ p ∧ p ≤ 1) :
    checkProbs ps = .ok () := by
  unfold checkProbs
  have h1 : ¬ ps.length > 7 := by omega
  have h2 : ps.any (fun p => ScalarFns.lt p (ofNat 0) || ScalarFns.lt (ofNat 1) p) = false := by
    rw [List.any_eq_false]
    intro p hp
    have := h p hp
    simp [lt_real, ofNat_real, not_lt.mpr this.1, not_lt.mpr this.2]
  rw [if_neg h1, if_neg (by rw [h2]; simp)]

end band

/-! ## row routing -/
section routing
variable {ι ο τ ν : Type} [DecidableEq ι] [DecidableEq ο]

theorem eqM_some {β : Type} [DecidableEq β] (a : Option β) (b : β) :
    eqM a (some b) = decide (a = some b) := by
  cases a with
  | none => simp [eqM]
  | some x => simp [eqM]

theorem eqM_none {β : Type} [DecidableEq β] (a : Option β) : eqM a none = false := by
  cases a <;> rfl

theorem maskObs_some (rows : List (Row ι ο τ ν)) (o : ο) :
    maskObs rows (some o) = rows.filter (fun r => decide (r.obs = some o)) := by
  unfold maskObs; congr 1; funext r; exact eqM_some _ _

theorem maskId_none (rows : List (Row ι ο τ ν)) : maskId rows none = [] := by
  unfold maskId; simp [eqM_none]

theorem tv_mask (rows : List (Row ι ο τ ν)) (o : ο) (i : ι) :
    tv (maskId (maskObs rows (some o)) (some i)) = specPts rows o i := by
  unfold tv maskId specPts
  rw [maskObs_some, List.filter_filter]
  congr 2; funext r; rw [eqM_some, Bool.and_comm]

theorem td_doseRows (rows : List (Row ι ο τ ν)) : td (doseRows rows) = td rows := by
  unfold td doseRows
  induction rows with
  | nil => rfl
  | cons r rs ih =>
    cases hd : r.dose with
    | none => simp [List.filter_cons, List.filterMap_cons, hd, ih]
    | some d => simp [List.filter_cons, List.filterMap_cons, hd, ih]

theorem td_mask (rows : List (Row ι ο τ ν)) (i : ι) :
    td (maskId (doseRows rows) (some i)) = specDose rows i := by
  have : maskId (doseRows rows) (some i) = doseRows (maskId rows (some i)) := by
    unfold maskId doseRows; rw [List.filter_filter, List.filter_filter]
    congr 1; funext r; exact Bool.and_comm _ _
  rw [this, td_doseRows]
  unfold td maskId specDose
  congr 2; funext r; exact eqM_some _ _

/-- with `dropna`, the default observable is the first non-missing one and an explicitly requested
    observable is accepted iff it occurs in the column -/
theorem chooseObsLegacy_dropna (nanIn : Bool) (rows : List (Row ι ο τ ν)) (observable : Option ο) (o : ο)
    (hO : specObs rows observable = some o) (hex : ∃ r ∈ rows, r.obs = some o) :
    chooseObsLegacy true nanIn rows observable = .ok (some o) := by
  unfold chooseObsLegacy
  simp only [if_true]
  cases observable with
  | some o' =>
    simp only [specObs, Option.some.injEq] at hO
    subst hO
    have : some o' ∈ (uniq (rows.map (·.obs))).filter (·.isSome) := by
      simp only [List.mem_filter, mem_uniq, List.mem_map, Option.isSome_some, and_true]
      obtain ⟨r, hr, ho⟩ := hex
      exact ⟨r, hr, ho⟩
    simp [this]
  | none =>
    simp only [specObs] at hO
    have hfil : ∀ l : List (Option ο), l.filter (·.isSome) = (l.filterMap id).map some := by
      intro l
      induction l with
      | nil => rfl
      | cons a as ih => cases a <;> simp [List.filter_cons, List.filterMap_cons, ih]
    rw [filter_uniq, hfil, List.filterMap_map]
    have hid : (id ∘ fun (r : Row ι ο τ ν) => r.obs) = fun r => r.obs := rfl
    rw [hid]
    cases hl : rows.filterMap (·.obs) with
    | nil => rw [hl] at hO; simp at hO
    | cons a as =>
      rw [hl] at hO
      simp only [List.head?_cons, Option.some.injEq] at hO
      subst hO
      simp [uniq]

/-- without `dropna` (`PDPredictivePlot.add_data`) the default is the first row's entry, missing
    or not -/
theorem chooseObs_keepna_default (nanIn : Bool) (r : Row ι ο τ ν) (rs : List (Row ι ο τ ν))
    (h : r.obs.isSome = true) : chooseObsLegacy false nanIn (r :: rs) none = .ok r.obs := by
  unfold chooseObsLegacy
  simp [uniq, h]

theorem chooseObs_keepna_given (nanIn : Bool) (rows : List (Row ι ο τ ν)) (o : ο)
    (hex : ∃ r ∈ rows, r.obs = some o) : chooseObsLegacy false nanIn rows (some o) = .ok (some o) := by
  unfold chooseObsLegacy
  have : some o ∈ uniq (rows.map (·.obs)) := by
    simp only [mem_uniq, List.mem_map]
    obtain ⟨r, hr, ho⟩ := hex
    exact ⟨r, hr, ho⟩
  simp [this]

/-- the code as it is: the chosen observable is the one the property names -/
theorem chooseObs_eq (rows : List (Row ι ο τ ν)) (observable : Option ο) (o : ο)
    (hO : specObs rows observable = some o) (hex : ∃ r ∈ rows, r.obs = some o) :
    chooseObs rows observable = .ok (some o) :=
  chooseObsLegacy_dropna true rows observable o hO hex

/-- ... and whenever the code accepts, it chose exactly that observable, which occurs in the column -/
theorem chooseObs_ok (rows : List (Row ι ο τ ν)) (observable : Option ο) (c : Option ο)
    (h : chooseObs rows observable = .ok c) :
    ∃ o, c = some o ∧ specObs rows observable = some o ∧ ∃ r ∈ rows, r.obs = some o := by
  unfold chooseObs chooseObsLegacy at h
  simp only [if_true] at h
  have hmem : ∀ x, x ∈ (uniq (rows.map (·.obs))).filter (·.isSome) →
      ∃ o, x = some o ∧ ∃ r ∈ rows, r.obs = some o := by
    intro x hx
    simp only [List.mem_filter, mem_uniq, List.mem_map] at hx
    obtain ⟨⟨r, hr, hro⟩, hs⟩ := hx
    cases x with
    | none => simp at hs
    | some o => exact ⟨o, rfl, r, hr, hro⟩
  cases observable with
  | some o' =>
    simp only at h
    by_cases hin : some o' ∈ (uniq (rows.map (·.obs))).filter (·.isSome)
    · simp only [hin, if_true, Except.ok.injEq] at h
      obtain ⟨o, ho, hex⟩ := hmem _ hin
      cases ho
      exact ⟨o', h.symm, rfl, hex⟩
    · simp [hin] at h
  | none =>
    simp only at h
    cases hl : (uniq (rows.map (·.obs))).filter (·.isSome) with
    | nil => rw [hl] at h; cases h
    | cons t ts =>
      rw [hl] at h
      obtain ⟨o, ho, hex⟩ := hmem t (by rw [hl]; exact List.mem_cons_self)
      subst ho
      simp only [Option.isSome_some, Bool.true_or, if_true, Except.ok.injEq] at h
      refine ⟨o, h.symm, ?_, hex⟩
      -- the head of the de-duplicated non-missing entries is the first non-missing entry
      have hfil : ∀ l : List (Option ο), l.filter (·.isSome) = (l.filterMap id).map some := by
        intro l
        induction l with
        | nil => rfl
        | cons a as ih => cases a <;> simp [List.filter_cons, List.filterMap_cons, ih]
      rw [filter_uniq, hfil, List.filterMap_map] at hl
      have hid : (id ∘ fun (r : Row ι ο τ ν) => r.obs) = fun r => r.obs := rfl
      rw [hid] at hl
      simp only [specObs]
      cases hf : rows.filterMap (·.obs) with
      | nil => rw [hf] at hl; simp [uniq] at hl
      | cons a as =>
        rw [hf] at hl
        simp only [List.map_cons, uniq, List.cons.injEq] at hl
        simp [hl.1]

theorem pdLoop_ok (legacy : Bool) (numeric : ι → Bool) (data : List (Row ι ο τ ν))
    (ids : List (Option ι)) (h : legacy = true → ∀ i ∈ ids, fmtD numeric i = .ok ()) :
    pdLoopLegacy legacy numeric data ids = .ok (ids.map (fun i => ⟨i, tv (maskId data i)⟩)) := by
  induction ids with
  | nil => rfl
  | cons i is ih =>
    have hi : (if legacy = true then fmtD numeric i else Except.ok ()) = .ok () := by
      by_cases hl : legacy = true
      · simp [hl, h hl i List.mem_cons_self]
      · simp [hl]
    have ih' := ih (fun hl j hj => h hl j (List.mem_cons_of_mem _ hj))
    unfold pdLoopLegacy
    rw [hi, ih']
    rfl

theorem specPD_eq (rows : List (Row ι ο τ ν)) (o : ο) :
    (uniq ((maskObs rows (some o)).map (·.id))).map
      (fun i => (⟨i, tv (maskId (maskObs rows (some o)) i)⟩ : PDTrace ι τ ν)) = specPD rows o := by
  unfold specPD specIds
  rw [maskObs_some]
  apply List.map_congr_left
  intro i _
  cases i with
  | none => rw [maskId_none]; rfl
  | some i => rw [← maskObs_some, tv_mask]

/-- **PK figures (time series and predictive)**: the figure holds, for the chosen observable, one
    (dose trace, marker trace) pair per individual in order of first appearance; the marker trace
    holds exactly that individual's `(time, value)` rows of the observable, the dose trace exactly
    that individual's dose rows, both in frame order; a "missing" ID yields an empty pair.
    For all frames. -/
theorem C20_row_routing_pk (rows : List (Row ι ο τ ν)) (observable : Option ο) (o : ο)
    (hO : specObs rows observable = some o) (hex : ∃ r ∈ rows, r.obs = some o) :
    (pkAddData rows observable).1 = .ok (specPK rows o) := by
  unfold pkAddData
  rw [chooseObs_eq rows observable o hO hex]
  simp only
  congr 1
  unfold specPK specIds
  rw [maskObs_some]
  apply List.map_congr_left
  intro i _
  cases i with
  | none => rw [maskId_none, maskId_none]; rfl
  | some i => rw [← maskObs_some, tv_mask, td_mask]

/-- the pre-fix PD code (`legacy = true`: trace names built with `%d`; `dropna = false`: the former
    `PDPredictivePlot.add_data`) satisfied the routing statement only under two extra hypotheses -/
theorem C20_row_routing_pd_legacy_partial (legacy dropna nanIn : Bool) (numeric : ι → Bool)
    (rows : List (Row ι ο τ ν)) (observable : Option ο) (o : ο)
    (hO : specObs rows observable = some o) (hex : ∃ r ∈ rows, r.obs = some o)
    (hfmt : legacy = true → ∀ i ∈ specIds rows o, ∃ j, i = some j ∧ numeric j = true)
    (hna : dropna = false → observable = none → ∃ r rs, rows = r :: rs ∧ r.obs.isSome) :
    (pdAddDataLegacy legacy dropna nanIn numeric rows observable).1 = .ok (specPD rows o) := by
  have hch : chooseObsLegacy dropna nanIn rows observable = .ok (some o) := by
    cases dropna with
    | true => exact chooseObsLegacy_dropna _ rows observable o hO hex
    | false =>
      cases observable with
      | some o' =>
        simp only [specObs, Option.some.injEq] at hO
        subst hO
        exact chooseObs_keepna_given nanIn rows o' hex
      | none =>
        obtain ⟨r, rs, hr, hs⟩ := hna rfl rfl
        subst hr
        rw [chooseObs_keepna_default nanIn r rs hs]
        cases ho : r.obs with
        | none => rw [ho] at hs; simp at hs
        | some o' =>
          simp only [specObs, List.filterMap_cons, ho, List.head?_cons, Option.some.injEq] at hO
          rw [hO]
  unfold pdAddDataLegacy
  rw [hch]
  simp only
  rw [pdLoop_ok, specPD_eq]
  intro hl i hi
  have hi' : i ∈ specIds rows o := by
    unfold specIds; rw [← maskObs_some]; exact hi
  obtain ⟨j, hj, hn⟩ := hfmt hl i hi'
  subst hj
  simp [fmtD, hn]

/-- **PD figures (time series and predictive), the code as it is**: one marker trace per individual
    in order of first appearance holding exactly that individual's `(time, value)` rows of the chosen
    observable in frame order; a "missing" ID yields an empty trace.  For all frames — any IDs
    (numbers, strings), any number of observables, missing values in every column. -/
theorem C20_row_routing_pd (rows : List (Row ι ο τ ν)) (observable : Option ο) (o : ο)
    (hO : specObs rows observable = some o) (hex : ∃ r ∈ rows, r.obs = some o) :
    (pdAddData rows observable).1 = .ok (specPD rows o) := by
  unfold pdAddData
  rw [chooseObs_eq rows observable o hO hex]
  simp only
  rw [specPD_eq]

/-- **time-series figures, the property as stated, for the code as it is**: all four figure classes -/
theorem C20_row_routing (rows : List (Row ι ο τ ν)) (observable : Option ο)
    (o : ο) (hO : specObs rows observable = some o) (hex : ∃ r ∈ rows, r.obs = some o) :
    (pdAddData rows observable).1 = .ok (specPD rows o) ∧
    (pkAddData rows observable).1 = .ok (specPK rows o) :=
  ⟨C20_row_routing_pd rows observable o hO hex, C20_row_routing_pk rows observable o hO hex⟩

/-- conversely: whenever a call returns a figure, it is the figure of the observable the property
    names (the first non-missing one, or the requested one, which then occurs in the frame) -/
theorem C20_row_routing_sound (rows : List (Row ι ο τ ν)) (observable : Option ο) :
    (∀ tr, (pdAddData rows observable).1 = .ok tr →
      ∃ o, specObs rows observable = some o ∧ (∃ r ∈ rows, r.obs = some o) ∧ tr = specPD rows o) ∧
    (∀ tr, (pkAddData rows observable).1 = .ok tr →
      ∃ o, specObs rows observable = some o ∧ (∃ r ∈ rows, r.obs = some o) ∧ tr = specPK rows o) := by
  constructor
  · intro tr h
    cases hc : chooseObs rows observable with
    | error e => unfold pdAddData at h; rw [hc] at h; cases h
    | ok c =>
      obtain ⟨o, rfl, hO, hex⟩ := chooseObs_ok rows observable c hc
      refine ⟨o, hO, hex, ?_⟩
      rw [C20_row_routing_pd rows observable o hO hex] at h
      exact (Except.ok.inj h).symm
  · intro tr h
    cases hc : chooseObs rows observable with
    | error e => unfold pkAddData at h; rw [hc] at h; cases h
    | ok c =>
      obtain ⟨o, rfl, hO, hex⟩ := chooseObs_ok rows observable c hc
      refine ⟨o, hO, hex, ?_⟩
      rw [C20_row_routing_pk rows observable o hO hex] at h
      exact (Except.ok.inj h).symm

/-- every individual gets exactly one trace -/
theorem C20_ids_nodup (rows : List (Row ι ο τ ν)) (o : ο) :
    (specIds rows o).Nodup ∧ ∀ i : ι, some i ∈ specIds rows o ↔
      ∃ r ∈ rows, r.obs = some o ∧ r.id = some i := by
  refine ⟨nodup_uniq _, fun i => ?_⟩
  unfold specIds
  simp only [mem_uniq, List.mem_map, List.mem_filter, decide_eq_true_eq]
  constructor
  · rintro ⟨r, ⟨hr, ho⟩, hi⟩; exact ⟨r, hr, ho, hi⟩
  · rintro ⟨r, hr, ho, hi⟩; exact ⟨r, ⟨hr, ho⟩, hi⟩

/-- a row of the observable with a non-missing ID is drawn in the trace of its individual (and, by
    `specPts`, in no other) -/
theorem C20_row_in_own_trace (rows : List (Row ι ο τ ν)) (o : ο) (i j : ι) (r : Row ι ο τ ν)
    (hr : r ∈ rows) (ho : r.obs = some o) (hi : r.id = some i) :
    (r.time, r.value) ∈ specPts rows o i ∧
    (j ≠ i → ∀ q ∈ (rows.filter (fun r => decide (r.obs = some o) && decide (r.id = some j))),
      q.id ≠ r.id) := by
  constructor
  · unfold specPts
    exact List.mem_map.mpr ⟨r, List.mem_filter.mpr ⟨hr, by simp [ho, hi]⟩, rfl⟩
  · intro hne q hq
    simp only [List.mem_filter, Bool.and_eq_true, decide_eq_true_eq] at hq
    rw [hq.2.2, hi]
    intro h
    exact hne (Option.some.inj h)

/-- a row that carries BOTH a dose and a measurement of the plotted observable (a trough concentration
    recorded on the row of the dosing event) is drawn twice by `PKTimeSeriesPlot.add_data` /
    `PKPredictivePlot.add_data`: its (time, value) pair in the marker trace of its individual and its
    (time, dose) pair in the dose panel of the same individual -/
theorem C20_dose_and_measurement_row (rows : List (Row ι ο τ ν)) (observable : Option ο) (o : ο)
    (i : ι) (d : ν) (r : Row ι ο τ ν)
    (hO : specObs rows observable = some o) (hr : r ∈ rows) (ho : r.obs = some o)
    (hi : r.id = some i) (hd : r.dose = some d) :
    ∃ tr, (pkAddData rows observable).1 = .ok tr ∧
      ∃ t ∈ tr, t.id = some i ∧ (r.time, r.value) ∈ t.pts ∧ (r.time, d) ∈ t.dose := by
  have hex : ∃ r ∈ rows, r.obs = some o := ⟨r, hr, ho⟩
  refine ⟨specPK rows o, C20_row_routing_pk rows observable o hO hex,
    ⟨some i, specDose rows i, specPts rows o i⟩, ?_, rfl, ?_, ?_⟩
  · unfold specPK
    refine List.mem_map.mpr ⟨some i, ?_, rfl⟩
    exact ((C20_ids_nodup rows o).2 i).mpr ⟨r, hr, ho, hi⟩
  · exact (C20_row_in_own_trace rows o i i r hr ho hi).1
  · unfold specDose
    exact List.mem_filterMap.mpr ⟨r, List.mem_filter.mpr ⟨hr, by simp [hi]⟩, by simp [hd]⟩

/-- selecting the measurements among the rows without a dose ("dose events" vs "measurements" as a
    partition of the frame) loses the measurements recorded on dosing rows -/
theorem C20_split_dose_rows_counterexample :
    ∃ rows : List (Row Nat Nat Nat Nat),
      pkMeasurementsSplit rows 0 1 ≠ specPts rows 0 1 :=
  ⟨[⟨some 1, some 0, 0, 5, some 10, 1⟩, ⟨some 1, some 0, 1, 7, none, 0⟩], by decide⟩

/-- pre-fix (a0f8893) `"ID: %d" % _id` (Appendix A #16): a PD figure could not be drawn for a frame whose IDs are strings -/
theorem C20_pd_nonnumeric_id_counterexample :
    let rows : List (Row Nat Nat Nat Nat) := [⟨some 0, some 0, 1, 2, none, 0⟩]
    specPD rows 0 = [⟨some 0, [(1, 2)]⟩] ∧
    (pdAddDataLegacy true true true (fun _ => false) rows none).1 = .error .typeError ∧
    (pdAddData rows none).1 = .ok (specPD rows 0) := by
  intro rows; exact ⟨rfl, rfl, rfl⟩

/-- pre-fix (02270a0) `PDPredictivePlot.add_data` took `data[obs_key].unique()[0]` without `dropna()`: when the first
    row's observable entry is missing the default observable is NaN and nothing is drawn -/
theorem C20_pdpredictive_default_nan_counterexample :
    let rows : List (Row Nat Nat Nat Nat) :=
      [⟨some 0, none, 0, 0, some 5, 0⟩, ⟨some 0, some 7, 1, 2, none, 0⟩]
    specObs rows none = some 7 ∧ specPD rows 7 = [⟨some 0, [(1, 2)]⟩] ∧
    (pdAddDataLegacy true false true (fun _ => true) rows none).1 = .ok [] ∧
    (pdAddDataLegacy true false false (fun _ => true) rows none).1 = .error .valueError ∧
    (pdAddData rows none).1 = .ok (specPD rows 7) := by
  intro rows; exact ⟨rfl, rfl, rfl, rfl, rfl⟩

/-- **fixed-size colour table**: the `enumerate` + `index % n_colors` loop of every `add_data` runs its
    body once per individual for every cohort size and every palette size — the figures of
    `C20_row_routing` / `C20_residual_routing` (`ids.map body`) are what it appends — and every colour
    index is inside the table -/
theorem C20_palette_every_individual {β γ : Type} (nColors : Nat) (ids : List β) (body : β → γ) :
    (colourLoop nColors ids body).map (·.1) = ids.map body ∧
    (0 < nColors → ∀ e ∈ colourLoop nColors ids body, e.2 < nColors) := by
  unfold colourLoop
  constructor
  · rw [List.map_map]
    have : ((fun x : γ × Nat => x.1) ∘ fun e : β × Nat => (body e.1, e.2 % nColors))
        = body ∘ Prod.fst := rfl
    rw [this, ← List.map_map, List.zipIdx_map_fst]
  · intro hn e he
    obtain ⟨x, _, rfl⟩ := List.mem_map.mp he
    exact Nat.mod_lt _ hn

/-- iterating over `zip(ids, colors)` instead loses every individual beyond the table's size -/
theorem C20_palette_zip_counterexample :
    (colourLoopZip 10 (List.range 11) id).length = 10 ∧
    (colourLoop 10 (List.range 11) id).length = 11 := by
  decide

/-- labels are compared, never tested for truth: `C20_row_routing`, `chooseObs_eq` and
    `C20_residual_routing` hold for every label type and every label value, `0`, `0.0` and `''`
    included.  Testing the label for truth instead (`observable or biom_types[0]`) replaces a requested
    falsy label that is not the first one by the first observable: -/
theorem C20_falsy_observable_counterexample :
    let rows : List (Row Nat Nat Nat Nat) :=
      [⟨some 1, some 7, 0, 10, none, 0⟩, ⟨some 1, some 0, 0, 20, none, 0⟩]
    specObs rows (some 0) = some 0 ∧ chooseObs rows (some 0) = .ok (some 0) ∧
    (pdAddData rows (some 0)).1 = .ok [⟨some 1, [(0, 20)]⟩] ∧
    chooseObsTruthy (fun o => o == 0) rows (some 0) = .ok (some 7) := by
  intro rows; exact ⟨rfl, rfl, rfl, rfl⟩

/-- `add_prediction(bulk_probs=None)`: one trace with exactly the observable's samples -/
theorem C20_prediction_scatter (rows : List (Row ι ο τ ν)) (observable : Option ο) (o : ο)
    (hO : specObs rows observable = some o) (hex : ∃ r ∈ rows, r.obs = some o) :
    (predictionScatter rows observable).1 =
      .ok ((rows.filter (fun r => decide (r.obs = some o))).map (fun r => (r.time, r.value))) := by
  unfold predictionScatter
  rw [chooseObs_eq rows observable o hO hex]
  simp only [maskObs_some, tv]

/-- `add_simulation`: the line trace holds every row -/
theorem C20_simulation (rows : List (Row ι ο τ ν)) :
    (addSimulation rows).1 = rows.map (fun r => (r.time, r.value)) := rfl

/-- predictive PK figure: the dose panel holds exactly the frame's dose rows -/
theorem C20_prediction_dose (rows : List (Row ι ο τ ν)) :
    predictionDose rows = rows.filterMap (fun r => r.dose.map (fun d => (r.time, d))) :=
  td_doseRows rows

end routing

/-! ## the caller's frames -/
section frames
variable {ι ο τ ν : Type} [DecidableEq ι] [DecidableEq ο]
variable {α : Type} [Add α] [Sub α] [Mul α] [Div α] [ScalarFns α]

/-- every plotting call hands back the frames it was given (selections build new lists), also
    when it raises -/
theorem C20_no_mutation (showRes showRel : Bool)
    (rows : List (Row ι ο τ ν)) (observable : Option ο)
    {τ' : Type} [DecidableEq τ'] (meas : List (MRow ι ο τ' α)) (pred : List (PRow ο τ' α))
    (individual : Option ι) :
    (pdAddData rows observable).2 = rows ∧
    (pkAddData rows observable).2 = rows ∧
    (addSimulation rows).2 = rows ∧
    (predictionScatter rows observable).2 = rows ∧
    (residualAddData meas pred observable individual showRes showRel).2 = (meas, pred) :=
  ⟨rfl, rfl, rfl, rfl, rfl⟩

/-! ### ResidualPlot.add_data -/
section resid
variable {τ' : Type} [DecidableEq τ']

theorem zip_map_self {β γ δ : Type} (l : List β) (f : β → γ) (g : β × γ → δ) :
    (l.zip (l.map f)).map g = l.map (fun x => g (x, f x)) := by
  induction l with
  | nil => rfl
  | cons a as ih => simp [ih]

theorem meanPred_filter (pred : List (PRow ο τ' α)) (o : ο) (t : Option τ') :
    meanPred (pred.filter (fun r => eqM r.obs (some o))) t = specMean pred o t := by
  unfold meanPred specMean
  rw [List.filter_filter]
  have : (fun a : PRow ο τ' α => eqM a.obs (some o) && eqM a.time t)
      = fun r => decide (r.obs = some o) && eqM r.time t := by
    funext r; rw [eqM_some]
  first
    | rw [this]
    | (have h2 : (fun a : PRow ο τ' α => eqM a.time t && eqM a.obs (some o))
          = fun r => decide (r.obs = some o) && eqM r.time t := by
        funext r; rw [eqM_some, Bool.and_comm]
       rw [h2])

theorem residLoop_eq_spec (showRes showRel : Bool) (meas : List (MRow ι ο τ' α))
    (pred : List (PRow ο τ' α)) (o : ο) (individual : Option ι) (m2 : List (MRow ι ο τ' α))
    (hm : m2 = specMeas meas o individual) :
    residLoop showRes showRel m2 (pred.filter (fun r => eqM r.obs (some o))) (uniq (m2.map MRow.id))
      = specResid meas pred o individual showRes showRel := by
  subst hm
  unfold residLoop specResid
  apply List.map_congr_left
  intro i _
  simp only [zip_map_self, List.map_map, Function.comp, meanPred_filter]

theorem head_uniq_isSome (l : List (Option ο)) (t : Option ο) (ts : List (Option ο))
    (h : (uniq l).filter (·.isSome) = t :: ts) : ∃ o, t = some o ∧ (l.filterMap id).head? = some o := by
  have hfil : ∀ l : List (Option ο), l.filter (·.isSome) = (l.filterMap id).map some := by
    intro l
    induction l with
    | nil => rfl
    | cons a as ih => cases a <;> simp [List.filter_cons, List.filterMap_cons, ih]
  rw [filter_uniq, hfil] at h
  cases hf : l.filterMap id with
  | nil => rw [hf] at h; simp [uniq] at h
  | cons a as =>
    rw [hf] at h
    simp only [List.map_cons, uniq, List.cons.injEq] at h
    exact ⟨a, h.1.symm, rfl⟩

theorem choosePredObs_ok (pred : List (PRow ο τ' α)) (observable : Option ο) (c : Option ο)
    (h : choosePredObs pred observable = .ok c) :
    ∃ o, c = some o ∧ specPredObs pred observable = some o ∧ ∃ r ∈ pred, r.obs = some o := by
  have hmemtypes : ∀ x, x ∈ (uniq (pred.map PRow.obs)).filter Option.isSome →
      ∃ o, x = some o ∧ ∃ r ∈ pred, r.obs = some o := by
    intro x hx
    simp only [List.mem_filter, mem_uniq, List.mem_map] at hx
    obtain ⟨⟨r, hr, hro⟩, hsome⟩ := hx
    cases x with
    | none => simp at hsome
    | some o => exact ⟨o, rfl, r, hr, hro⟩
  unfold choosePredObs at h
  cases observable with
  | some o' =>
    simp only at h
    by_cases hin : some o' ∈ (uniq (pred.map PRow.obs)).filter Option.isSome
    · simp only [hin, if_true, Except.ok.injEq] at h
      obtain ⟨o, ho, hex⟩ := hmemtypes _ hin
      cases ho
      exact ⟨o', h.symm, rfl, hex⟩
    · simp [hin] at h
  | none =>
    simp only at h
    simp only [specPredObs]
    cases hl : (uniq (pred.map PRow.obs)).filter Option.isSome with
    | nil => rw [hl] at h; cases h
    | cons t ts =>
      rw [hl] at h
      simp only [Except.ok.injEq] at h
      obtain ⟨o, ho, hhead⟩ := head_uniq_isSome _ t ts hl
      obtain ⟨o2, ho2, hex⟩ := hmemtypes t (by rw [hl]; exact List.mem_cons_self)
      subst ho
      cases ho2
      refine ⟨o, h.symm, ?_, hex⟩
      rw [List.filterMap_map] at hhead
      exact hhead

theorem selectFor_ok (meas : List (MRow ι ο τ' α)) (pred : List (PRow ο τ' α)) (o : ο)
    (individual : Option ι) (m2 : List (MRow ι ο τ' α)) (data : List (PRow ο τ' α))
    (h : selectFor meas pred (some o) individual = .ok (m2, data)) :
    m2 = specMeas meas o individual ∧ data = pred.filter (fun r => eqM r.obs (some o)) ∧
      ∃ r ∈ meas, r.obs = some o := by
  unfold selectFor at h
  split at h
  · cases h
  · rename_i hcont
    simp only at h
    split at h
    · cases h
    · simp only [Except.ok.injEq, Prod.mk.injEq] at h
      obtain ⟨hm2, hdata⟩ := h
      refine ⟨?_, hdata.symm, ?_⟩
      · rw [← hm2]
        unfold specMeas byIndividual
        cases individual with
        | none =>
          congr 1
          funext r
          rw [eqM_some]; simp
        | some i =>
          rw [List.filter_filter]
          congr 1
          funext r
          rw [eqM_some, eqM_some, Bool.and_comm]
      · have : (uniq (meas.map MRow.obs)).contains (some o) = true := by simpa using hcont
        rw [List.contains_iff_mem, mem_uniq, List.mem_map] at this
        exact this

/-- **residual figure, the code as it is**: whenever the call returns, the figure holds — for the
    chosen observable `o` (the requested one, else the first non-missing observable of the
    predictions) — one trace per individual among the selected measurements, in order of first
    appearance; its x values are the mean predictions of `o` at that individual's measurement times
    and its y values the measurements (minus / relative to that mean, as the flags say), in frame
    order.  All frames, all flag combinations, any IDs. -/
theorem C20_residual_routing (meas : List (MRow ι ο τ' α)) (pred : List (PRow ο τ' α))
    (observable : Option ο) (individual : Option ι) (showRes showRel : Bool)
    (tr : List (RTrace ι α))
    (h : (residualAddData meas pred observable individual showRes showRel).1 = .ok tr) :
    ∃ o, specPredObs pred observable = some o ∧
      (∃ r ∈ pred, r.obs = some o) ∧ (∃ r ∈ meas, r.obs = some o) ∧
      tr = specResid meas pred o individual showRes showRel := by
  unfold residualAddData at h
  cases hs : residualSelect meas pred observable individual with
  | error e => rw [hs] at h; cases h
  | ok md =>
    obtain ⟨m2, data⟩ := md
    rw [hs] at h
    simp only [Except.ok.injEq] at h
    subst h
    unfold residualSelect at hs
    by_cases hbad : badIndividual meas individual = true
    · simp only [hbad, if_true] at hs; cases hs
    · simp only [hbad, Bool.false_eq_true, if_false] at hs
      cases hch : choosePredObs pred observable with
      | error e => rw [hch] at hs; cases hs
      | ok c =>
        rw [hch] at hs
        simp only at hs
        obtain ⟨o, rfl, hobs, hexp⟩ := choosePredObs_ok pred observable c hch
        obtain ⟨hm2, hdata, hexm⟩ := selectFor_ok meas pred o individual m2 data hs
        refine ⟨o, hobs, hexp, hexm, ?_⟩
        rw [hdata]
        exact residLoop_eq_spec showRes showRel meas pred o individual m2 hm2

/-- **the residual figure is drawn for every flag combination** (upgrade of the former
    `_partial`): whether the call returns depends only on the validation of the two frames -/
theorem C20_residual_completes (meas : List (MRow ι ο τ' α)) (pred : List (PRow ο τ' α))
    (observable : Option ο) (individual : Option ι) (showRes showRel : Bool) :
    (∃ tr, (residualAddData meas pred observable individual showRes showRel).1 = .ok tr) ↔
    (∃ tr, (residualAddData meas pred observable individual false false).1 = .ok tr) := by
  unfold residualAddData
  cases residualSelect meas pred observable individual with
  | error e => simp
  | ok md => simp

theorem residLoopLegacy_readonly_irrelevant (fl : Bool) (numeric : ι → Bool)
    (meas : List (MRow ι ο τ' α)) (pred : List (PRow ο τ' α)) (ids : List (Option ι)) :
    residLoopLegacy true fl numeric false false meas pred ids
      = residLoopLegacy false fl numeric false false meas pred ids := by
  induction ids with
  | nil => rfl
  | cons i is ih =>
    unfold residLoopLegacy
    simp only [Bool.or_self, Bool.and_false, Bool.false_eq_true, if_false, ih]

/-- the pre-fix code completed only with both flags off -/
theorem C20_residual_legacy_partial (fl : Bool) (numeric : ι → Bool)
    (meas : List (MRow ι ο τ' α)) (pred : List (PRow ο τ' α)) (observable : Option ο)
    (individual : Option ι) :
    residualAddDataLegacy true fl numeric meas pred observable individual false false
      = residualAddDataLegacy false fl numeric meas pred observable individual false false := by
  unfold residualAddDataLegacy
  simp only [residLoopLegacy_readonly_irrelevant]

end resid
end frames

/-- pre-fix (19cbe0b, Appendix A #23): with the default flags (`show_residuals=True`) the in-place
    `-=` hit the read-only array of `Series.to_numpy()` — no figure for any frame with a measurement;
    the code as it is draws `(mean prediction, residual)` -/
theorem C20_residual_readonly_counterexample :
    let meas : List (MRow Nat Nat Nat ℝ) := [⟨some 0, some 0, some 1, 5⟩]
    let pred : List (PRow Nat Nat ℝ) := [⟨some 0, some 1, some 3⟩]
    (residualAddDataLegacy true true (fun _ => true) meas pred none none true false).1
      = .error .valueError ∧
    (residualAddData meas pred none none true false).1 = .ok [⟨some 0, [some 3], [some 2]⟩] := by
  intro meas pred
  constructor
  · simp [residualAddDataLegacy, residualSelect, badIndividual, choosePredObs, selectFor, byIndividual, residLoopLegacy,
      uniq, eqM, meas, pred]
  · simp [residualAddData, residualSelect, badIndividual, choosePredObs, selectFor, byIndividual, residLoop, uniq, eqM,
      meas, pred, meanPred, lsumR, residY]
    norm_num


/-! ## time points: the band at `t` is made of the rows at exactly `t`

Two different doubles are two time points, however close (a grid resolving an event with a point
just before it, solver output with tiny steps).  -/
section times
variable {τ : Type} [DecidableEq τ]

theorem samplesAtBy_eqM (rows : List (Option τ × Option ℝ)) (t : Option τ) :
    samplesAtBy eqM rows t = samplesAt rows t := rfl

theorem bandRowsBy_eqM (rows : List (Option τ × Option ℝ)) (p : ℝ) :
    bandRowsBy eqM rows p = bandRows rows p := rfl

theorem samplesAt_rowsAt (rows : List (Option τ × Option ℝ)) (t : τ) :
    samplesAt rows (some t) = (rowsAt rows t).filterMap (·.2) := by
  unfold samplesAt rowsAt
  congr 1
  apply List.filter_congr
  intro r _
  exact eqM_some r.1 t

/-- **the band at a time point is a function of the rows carrying exactly that time**: two sample
    frames with the same rows at `t` get the same limits at `t`, whatever other time points (however
    close to `t`) they hold -/
theorem C20_band_time_local (rows rows' : List (Option τ × Option ℝ)) (p : ℝ) (t : τ)
    (h : rowsAt rows t = rowsAt rows' t) : bandRow rows p (some t) = bandRow rows' p (some t) := by
  unfold bandRow
  rw [samplesAt_rowsAt, samplesAt_rowsAt, h]

/-- rows of other time points inserted anywhere do not move the band at `t` -/
theorem C20_band_ignores_other_times (rows extra : List (Option τ × Option ℝ)) (p : ℝ) (t : τ)
    (h : ∀ r ∈ extra, r.1 ≠ some t) :
    bandRow (rows ++ extra) p (some t) = bandRow rows p (some t) ∧
    bandRow (extra ++ rows) p (some t) = bandRow rows p (some t) := by
  have he : rowsAt extra t = [] := by
    unfold rowsAt
    rw [List.filter_eq_nil_iff]
    intro r hr
    simpa using h r hr
  constructor <;> apply C20_band_time_local <;> unfold rowsAt at * <;> rw [List.filter_append, he] <;> simp

/-- **per time point, end to end**: every row `(t, lower, upper)` of the percentile container with
    both limits present has limits that are samples of rows with time exactly `t`, enclosing more
    than `p·n_t` of the `n_t` non-missing samples at exactly `t` -/
theorem C20_band_at_time (rows : List (Option τ × Option ℝ)) (p : ℝ) (t : τ) (lo hi : ℝ)
    (h : (some t, some lo, some hi) ∈ bandRows rows p) :
    (some t, some lo) ∈ rows ∧ (some t, some hi) ∈ rows ∧
    p * ((samplesAt rows (some t)).length : ℝ) < (inside (samplesAt rows (some t)) lo hi : ℝ) := by
  unfold bandRows at h
  obtain ⟨t', _, ht'⟩ := List.mem_map.mp h
  unfold bandRow at ht'
  simp only [Prod.mk.injEq] at ht'
  obtain ⟨h1, h2, h3⟩ := ht'
  subst h1
  obtain ⟨m1, m2⟩ := C20_band_limits_are_samples _ p lo hi h2 h3
  exact ⟨(samplesAt_mem rows t lo).mp m1, (samplesAt_mem rows t hi).mp m2,
    C20_band_encloses _ p lo hi h2 h3⟩

/-- a rewritten time mask draws the same bands **iff-direction that matters**: it suffices that it
    agrees with `==` on the time points that occur in the frame (e.g. a tolerance smaller than the
    smallest gap between two different time points of the frame) -/
theorem C20_band_mask_exact (sel : Option τ → Option τ → Bool) (rows : List (Option τ × Option ℝ))
    (p : ℝ) (hsel : ∀ r ∈ rows, ∀ r' ∈ rows, sel r.1 r'.1 = eqM r.1 r'.1) :
    bandRowsBy sel rows p = bandRows rows p := by
  unfold bandRowsBy bandRows
  apply List.map_congr_left
  intro t ht
  rw [mem_uniq] at ht
  obtain ⟨r', hr', rfl⟩ := List.mem_map.mp ht
  unfold bandRowBy bandRow samplesAtBy samplesAt
  have : rows.filter (fun r => sel r.1 r'.1) = rows.filter (fun r => eqM r.1 r'.1) :=
    List.filter_congr (fun r hr => hsel r hr r' hr')
  rw [this]

end times

/-- tolerance zero is `==` -/
theorem withinM_zero (a b : Option Nat) : withinM 0 a b = eqM a b := by
  cases a <;> cases b <;> simp [withinM, eqM]
  rename_i x y
  by_cases h : x = y
  · subst h; simp
  · simp only [h, decide_false]
    rcases Nat.lt_or_gt_of_ne h with h' | h'
    · simp [Nat.not_le.mpr h']
    · simp [Nat.not_le.mpr h']

/-- hence the tolerant figure with tolerance zero is the figure of the code as it is -/
theorem bandRowsBy_withinM_zero (rows : List (Option Nat × Option ℝ)) (p : ℝ) :
    bandRowsBy (withinM 0) rows p = bandRows rows p :=
  C20_band_mask_exact _ rows p (fun r _ r' _ => withinM_zero r.1 r'.1)

/-- a tolerance mask that pools two different time points (one tick apart, tolerance one tick):
    both stay on the time axis, but the limits drawn at time `0` come from the union of the samples —
    the upper limit `7` is no sample of time `0` and `[2, 7]` holds 1 of the 4 samples at that time,
    less than the requested half. The code as it is (`==`) draws `[1, 9]`. -/
theorem C20_band_pooled_times_counterexample :
    let rows : List (Option Nat × Option ℝ) :=
      [(some 0, some 1), (some 1, some 4), (some 0, some 2), (some 1, some 5), (some 0, some 9),
       (some 1, some 6), (some 0, some 10), (some 1, some 7)]
    bandRowsBy (withinM 1) rows (1 / 2) = [(some 0, some 2, some 7), (some 1, some 2, some 7)] ∧
    (some 0, some (7 : ℝ)) ∉ rows ∧
    samplesAt rows (some 0) = [1, 2, 9, 10] ∧
    inside ([1, 2, 9, 10] : List ℝ) 2 7 = 1 ∧
    ((inside ([1, 2, 9, 10] : List ℝ) 2 7 : ℕ) : ℝ) < 1 / 2 * (([1, 2, 9, 10] : List ℝ).length : ℝ) ∧
    bandRows rows (1 / 2) = [(some 0, some 1, some 9), (some 1, some 4, some 6)] := by
  intro rows
  have hpool : ∀ t : Option Nat, t = some 0 ∨ t = some 1 →
      samplesAtBy (withinM 1) rows t = ([1, 4, 2, 5, 9, 6, 10, 7] : List ℝ) := by
    rintro t (rfl | rfl) <;> simp [rows, samplesAtBy, withinM]
  have h0 : samplesAt rows (some 0) = ([1, 2, 9, 10] : List ℝ) := by
    simp [rows, samplesAt, eqM]
  have h1 : samplesAt rows (some 1) = ([4, 5, 6, 7] : List ℝ) := by
    simp [rows, samplesAt, eqM]
  have hu : uniq (rows.map (·.1)) = [some 0, some 1] := by
    simp [rows, uniq]
  have lim8 : lowerLimit ([1, 4, 2, 5, 9, 6, 10, 7] : List ℝ) (1 / 2) = some 2 ∧
      upperLimit ([1, 4, 2, 5, 9, 6, 10, 7] : List ℝ) (1 / 2) = some 7 := by
    constructor <;>
    norm_num [lowerLimit, upperLimit, pctRank, lowerThr, upperThr, maxOpt, minOpt, eqS,
      List.filter_cons, List.countP_cons]
  have lim0 : lowerLimit ([1, 2, 9, 10] : List ℝ) (1 / 2) = some 1 ∧
      upperLimit ([1, 2, 9, 10] : List ℝ) (1 / 2) = some 9 := by
    constructor <;>
    norm_num [lowerLimit, upperLimit, pctRank, lowerThr, upperThr, maxOpt, minOpt, eqS,
      List.filter_cons, List.countP_cons]
  have lim1 : lowerLimit ([4, 5, 6, 7] : List ℝ) (1 / 2) = some 4 ∧
      upperLimit ([4, 5, 6, 7] : List ℝ) (1 / 2) = some 6 := by
    constructor <;>
    norm_num [lowerLimit, upperLimit, pctRank, lowerThr, upperThr, maxOpt, minOpt, eqS,
      List.filter_cons, List.countP_cons]
  have hin : inside ([1, 2, 9, 10] : List ℝ) 2 7 = 1 := by
    norm_num [inside, List.countP_cons]
  refine ⟨?_, ?_, h0, hin, ?_, ?_⟩
  · unfold bandRowsBy bandRowBy
    rw [hu]
    simp only [List.map_cons, List.map_nil]
    rw [hpool _ (Or.inl rfl), hpool _ (Or.inr rfl), lim8.1, lim8.2]
  · norm_num [rows]
  · rw [hin]; norm_num
  · unfold bandRows bandRow
    rw [hu]
    simp only [List.map_cons, List.map_nil]
    rw [h0, h1, lim0.1, lim0.2, lim1.1, lim1.2]


/-! ## non-vacuity: both limits exist and the hypotheses of the band theorems are satisfiable -/
example : lowerLimit ([1, 2, 3, 4] : List ℝ) (1 / 2) = some 1 ∧
    upperLimit ([1, 2, 3, 4] : List ℝ) (1 / 2) = some 3 := by
  constructor <;>
  norm_num [lowerLimit, upperLimit, pctRank, lowerThr, upperThr, maxOpt, minOpt, eqS,
    List.filter_cons, List.countP_cons]

/-- with ties -/
example : lowerLimit ([1, 1, 2, 2] : List ℝ) (1 / 5) = some 1 ∧
    upperLimit ([1, 1, 2, 2] : List ℝ) (1 / 5) = some 2 := by
  constructor <;>
  norm_num [lowerLimit, upperLimit, pctRank, lowerThr, upperThr, maxOpt, minOpt, eqS,
    List.filter_cons, List.countP_cons]

/-- a limit may be missing (small samples, large `p`) -/
example : lowerLimit ([1, 2] : List ℝ) (9 / 10) = none := by
  norm_num [lowerLimit, pctRank, lowerThr, maxOpt, eqS, List.filter_cons, List.countP_cons]

end ChiModel.Plots
