import ChiModel.Inference
import ChiProofs.Props.C20
import ChiProofs.Lemmas.PosteriorLoops
import Mathlib.Data.List.Nodup
import Mathlib.Data.List.Perm.Basic
import Mathlib.Tactic.Linarith

/-!
# C18 — inference I/O keeps parameters, individuals and draws aligned

* `C18_format_chains_bijection`  every chain position is held by exactly one (variable, individual)
  slot of the dataset, each variable once, top-level ones without / bottom-level ones with the
  individual axis — for all name lists whose top-level names do not repeat and whose bottom-level
  names occur once per individual (`hierNames_wellformed`, `filterNames_wellformed`: both layouts
  chi produces satisfy these hypotheses)
* `C18_format_chains_entry`, `C18_format_chains_entry_filter`   the slot of (name, r-th individual)
  holds the position whose name is that name and whose ID is that individual's (hierarchical and
  population-filter layouts, any sizes)
* `C18_format_chains_overwrite_counterexample`   repeated top-level names lose a column
* `C18_initial_structure`, `C18_initial_entry`, `C18_initial_structure_filter` (code as it is);
  pre-fix: `C18_initial_structure_legacy_partial`, `C18_initial_structure_counterexample`
* `C18_table_pairs`, `C18_readback`, `C18_roundtrip` (general), `C18_roundtrip_example`
* `C18_table_id_scalar`, `C18_table_id_per_parameter`, `C18_table_outcomes_pairs`   the ID column of
  individual / hierarchical posteriors and the blocks of runs that broke down (missing values under
  their own run number); slips: `C18_table_id_order_counterexample`, `C18_table_hoisted_counterexample`
* `C18_shared_predictive_model`   objects built from one `PredictiveModel` read through their own map;
  slip: `C18_shared_predictive_model_alias_counterexample`
* `C18_pointwise_keeps_coordinates`, `C18_pointwise_derived_entry`, `C18_predictive_rows_derived`   datasets
  derived from the one a controller returns (warm-up removed, thinned, a subset of chains, any order of such
  steps; `C18_pointwise_shifted_entry` renumbered): the pointwise log-likelihood found under (chain = c, draw = d)
  belongs to the parameters stored under these labels, the predictive model draws from exactly the rows kept
  (`C18_axis_sublist_find`, `C18_axis_fromLabel_find`, `C18_axis_selLabels_find`, `C18_axis_shift_find` per step);
  slip: coordinates rebuilt from the shape are right exactly for the default ranges
  (`C18_pointwise_relabel_partial`, `C18_pointwise_relabel_counterexample`)
-/
set_option linter.unusedSectionVars false
set_option linter.unusedSimpArgs false
set_option linter.unusedVariables false
namespace ChiModel.Inference
open Plots (uniq mem_uniq nodup_uniq)

/-! ## dictionary steps -/

theorem dictSet_new (d : Dict) (p : String) (v : Sel) (h : ∀ e ∈ d, e.1 ≠ p) :
    dictSet d p v = d ++ [(p, v)] := by
  unfold dictSet
  have : d.any (fun e => e.1 == p) = false := by
    rw [List.any_eq_false]
    intro e he
    simpa using h e he
  simp [this]

theorem topPass_spec (top : List String) (E : List (String × Nat)) (d : Dict)
    (hnd : ((E.filter (fun e => top.contains e.1)).map (·.1)).Nodup)
    (hdis : ∀ e ∈ E, top.contains e.1 = true → ∀ x ∈ d, x.1 ≠ e.1) :
    topPass top E d
      = d ++ (E.filter (fun e => top.contains e.1)).map (fun e => (e.1, Sel.one e.2)) := by
  induction E generalizing d with
  | nil => simp [topPass]
  | cons e rest ih =>
    obtain ⟨p, k⟩ := e
    unfold topPass
    by_cases hp : top.contains p = true
    · simp only [hp, if_true]
      rw [dictSet_new d p _ (hdis (p, k) List.mem_cons_self hp)]
      have hnd' : ((rest.filter (fun e => top.contains e.1)).map (·.1)).Nodup := by
        simp only [List.filter_cons, hp, if_true, List.map_cons, List.nodup_cons] at hnd
        exact hnd.2
      have hp_notin : p ∉ (rest.filter (fun e => top.contains e.1)).map (·.1) := by
        simp only [List.filter_cons, hp, if_true, List.map_cons, List.nodup_cons] at hnd
        exact hnd.1
      have hp' : p ∈ top := by simpa using hp
      rw [ih (d ++ [(p, Sel.one k)]) hnd']
      · simp [List.filter_cons, hp']
      · intro e he hc x hx
        rcases List.mem_append.mp hx with hx | hx
        · exact hdis e (List.mem_cons_of_mem _ he) hc x hx
        · simp only [List.mem_singleton] at hx
          subst hx
          intro heq
          apply hp_notin
          exact List.mem_map.mpr ⟨e, List.mem_filter.mpr ⟨he, hc⟩, heq.symm⟩
    · simp only [hp, Bool.false_eq_true, if_false]
      have hp' : p ∉ top := by simpa using hp
      have hnd' : ((rest.filter (fun e => top.contains e.1)).map (·.1)).Nodup := by
        simpa [List.filter_cons, hp'] using hnd
      rw [ih d hnd' (fun e he hc => hdis e (List.mem_cons_of_mem _ he) hc)]
      simp [List.filter_cons, hp']

theorem bottomPass_spec (names : List String) (nIds : Nat) (ps : List String) (d : Dict)
    (hnd : ps.Nodup) (hdis : ∀ p ∈ ps, ∀ x ∈ d, x.1 ≠ p)
    (hlen : ∀ p ∈ ps, (positions p names).length = nIds) :
    bottomPass names nIds ps d
      = .ok (d ++ ps.map (fun p => (p, Sel.many (positions p names)))) := by
  induction ps generalizing d with
  | nil => simp [bottomPass]
  | cons p ps ih =>
    unfold bottomPass
    have hl := hlen p List.mem_cons_self
    simp only [hl, ne_eq, not_true_eq_false, if_false]
    rw [dictSet_new d p _ (hdis p List.mem_cons_self)]
    rw [List.nodup_cons] at hnd
    rw [ih _ hnd.2]
    · simp
    · intro q hq x hx
      rcases List.mem_append.mp hx with hx | hx
      · exact hdis q (List.mem_cons_of_mem _ hq) x hx
      · simp only [List.mem_singleton] at hx
        subst hx
        intro heq
        have heq' : p = q := heq
        exact hnd.1 (heq' ▸ hq)
    · exact fun q hq => hlen q (List.mem_cons_of_mem _ hq)

/-! ## positions -/

theorem mem_positions (p : String) (names : List String) (k : Nat) :
    k ∈ positions p names ↔ names[k]? = some p := by
  unfold positions
  simp only [List.mem_map, List.mem_filter, beq_iff_eq]
  constructor
  · rintro ⟨⟨q, j⟩, ⟨hmem, hq⟩, hj⟩
    simp only at hq hj
    subst hq; subst hj
    exact List.mk_mem_zipIdx_iff_getElem?.mp hmem
  · intro h
    exact ⟨(p, k), ⟨List.mk_mem_zipIdx_iff_getElem?.mpr h, rfl⟩, rfl⟩

theorem nodup_positions (p : String) (names : List String) : (positions p names).Nodup := by
  unfold positions
  have h : (names.zipIdx.map (·.2)).Nodup := by
    rw [List.zipIdx_map_snd]; exact List.nodup_range'
  exact h.sublist (List.Sublist.map _ List.filter_sublist)

theorem nodup_topIdx (top names : List String) :
    ((names.zipIdx.filter (fun e => top.contains e.1)).map (·.2)).Nodup := by
  have h : (names.zipIdx.map (·.2)).Nodup := by
    rw [List.zipIdx_map_snd]; exact List.nodup_range'
  exact h.sublist (List.Sublist.map _ List.filter_sublist)

theorem mem_topIdx (top names : List String) (k : Nat) :
    k ∈ (names.zipIdx.filter (fun e => top.contains e.1)).map (·.2)
      ↔ ∃ p, names[k]? = some p ∧ top.contains p = true := by
  simp only [List.mem_map, List.mem_filter]
  constructor
  · rintro ⟨⟨q, j⟩, ⟨hmem, hq⟩, hj⟩
    simp only at hq hj
    subst hj
    exact ⟨q, List.mk_mem_zipIdx_iff_getElem?.mp hmem, hq⟩
  · rintro ⟨p, hp, hc⟩
    exact ⟨(p, k), ⟨List.mk_mem_zipIdx_iff_getElem?.mpr hp, hc⟩, rfl⟩

/-! ## the dataset -/

/-- the variables of the dataset when no top-level name repeats and every bottom-level name occurs
    once per individual -/
def datasetSpec (names top : List String) : Dict :=
  (names.zipIdx.filter (fun e => top.contains e.1)).map (fun e => (e.1, Sel.one e.2))
    ++ (bottomList top names).map (fun p => (p, Sel.many (positions p names)))

theorem formatChains_spec (names top : List String) (nIds : Nat)
    (hTop : (names.filter (fun p => top.contains p)).Nodup)
    (hBot : ∀ p ∈ bottomList top names, (positions p names).length = nIds) :
    formatChains names top nIds = .ok (datasetSpec names top) := by
  unfold formatChains datasetSpec
  have hnd : ((names.zipIdx.filter (fun e => top.contains e.1)).map (·.1)).Nodup := by
    have : (names.zipIdx.filter (fun e => top.contains e.1)).map (·.1)
        = (names.zipIdx.map (·.1)).filter (fun p => top.contains p) := by
      rw [List.filter_map]; rfl
    rw [this, List.zipIdx_map_fst]
    exact hTop
  rw [topPass_spec top names.zipIdx [] hnd (by simp)]
  simp only [List.nil_append]
  rw [bottomPass_spec names nIds (bottomList top names) _ (nodup_uniq _) _ hBot]
  intro p hp x hx
  simp only [List.mem_map, List.mem_filter] at hx
  obtain ⟨e, ⟨_, hc⟩, rfl⟩ := hx
  simp only
  intro heq
  unfold bottomList at hp
  rw [mem_uniq, List.mem_filter] at hp
  rw [heq] at hc
  have h1 : p ∈ top := by simpa using hc
  exact absurd hp.2 (by simp [h1])

theorem flatMap_single {β γ : Type} (f : β → γ) (l : List β) :
    l.flatMap (fun a => [f a]) = l.map f := by
  induction l with
  | nil => rfl
  | cons a as ih => simp [List.flatMap_cons, ih]

theorem allPositions_datasetSpec (names top : List String) :
    allPositions (datasetSpec names top)
      = (names.zipIdx.filter (fun e => top.contains e.1)).map (·.2)
        ++ (bottomList top names).flatMap (fun p => positions p names) := by
  unfold allPositions datasetSpec
  rw [List.flatMap_append, List.flatMap_map, List.flatMap_map]
  simp only [Sel.positions]
  rw [flatMap_single]

/-- **bijection**: for every list of names (any numbers of individuals, bottom and top names, any
    interleaving) in which no top-level name repeats and every bottom-level name occurs once per
    individual: the call succeeds; every variable name occurs once in the dataset; top-level names
    hold one chain position (dims chain, draw), bottom-level names one position per individual (dims
    chain, draw, individual); and the positions held by all slots together are exactly
    `0 … n_parameters − 1`, each once. -/
theorem C18_format_chains_bijection (names top : List String) (nIds : Nat)
    (hTop : (names.filter (fun p => top.contains p)).Nodup)
    (hBot : ∀ p ∈ bottomList top names, (positions p names).length = nIds) :
    ∃ ds, formatChains names top nIds = .ok ds ∧
      (ds.map (·.1)).Nodup ∧
      (∀ p, p ∈ ds.map (·.1) ↔ p ∈ names) ∧
      (∀ p s, (p, s) ∈ ds → (top.contains p = true → ∃ k, s = .one k ∧ names[k]? = some p) ∧
        (top.contains p = false → s = .many (positions p names) ∧ (positions p names).length = nIds)) ∧
      (allPositions ds).Perm (List.range names.length) := by
  refine ⟨datasetSpec names top, formatChains_spec names top nIds hTop hBot, ?_, ?_, ?_, ?_⟩
  · -- names of the variables are distinct
    unfold datasetSpec
    rw [List.map_append, List.map_map, List.map_map]
    have h1 : (List.map ((fun x => x.1) ∘ fun e : String × Nat => (e.1, Sel.one e.2))
        (names.zipIdx.filter (fun e => top.contains e.1)))
        = names.filter (fun p => top.contains p) := by
      have : ((fun x : String × Sel => x.1) ∘ fun e : String × Nat => (e.1, Sel.one e.2))
          = fun e => e.1 := rfl
      rw [this]
      have h2 : (names.zipIdx.filter (fun e => top.contains e.1)).map (·.1)
          = (names.zipIdx.map (·.1)).filter (fun p => top.contains p) := by
        rw [List.filter_map]; rfl
      rw [h2, List.zipIdx_map_fst]
    have h3 : (List.map ((fun x => x.1) ∘ fun p : String => (p, Sel.many (positions p names)))
        (bottomList top names)) = bottomList top names := by
      have : ((fun x : String × Sel => x.1) ∘ fun p : String => (p, Sel.many (positions p names)))
          = id := rfl
      rw [this, List.map_id]
    rw [h1, h3]
    rw [List.nodup_append]
    refine ⟨hTop, nodup_uniq _, ?_⟩
    intro a ha b hb hab
    subst hab
    unfold bottomList at hb
    rw [mem_uniq, List.mem_filter] at hb
    rw [List.mem_filter] at ha
    have h1 : a ∈ top := by simpa using ha.2
    exact absurd hb.2 (by simp [h1])
  · intro p
    unfold datasetSpec
    simp only [List.map_append, List.map_map, List.mem_append, List.mem_map, List.mem_filter,
      Function.comp]
    constructor
    · rintro (⟨e, ⟨he, _⟩, rfl⟩ | ⟨q, hq, rfl⟩)
      · exact List.fst_mem_of_mem_zipIdx he
      · unfold bottomList at hq
        rw [mem_uniq, List.mem_filter] at hq
        exact hq.1
    · intro hp
      by_cases hc : top.contains p = true
      · left
        obtain ⟨k, hk, hk'⟩ := List.getElem_of_mem hp
        refine ⟨(p, k), ⟨List.mk_mem_zipIdx_iff_getElem?.mpr ?_, hc⟩, rfl⟩
        rw [List.getElem?_eq_getElem hk, hk']
      · right
        refine ⟨p, ?_, rfl⟩
        unfold bottomList
        rw [mem_uniq, List.mem_filter]
        exact ⟨hp, by simpa using hc⟩
  · intro p s hps
    unfold datasetSpec at hps
    rcases List.mem_append.mp hps with h | h
    · obtain ⟨e, he, heq⟩ := List.mem_map.mp h
      rw [List.mem_filter] at he
      simp only [Prod.mk.injEq] at heq
      obtain ⟨rfl, rfl⟩ := heq
      refine ⟨fun _ => ⟨e.2, rfl, List.mem_zipIdx_iff_getElem?.mp he.1⟩, fun hc => ?_⟩
      rw [he.2] at hc; cases hc
    · obtain ⟨q, hq, heq⟩ := List.mem_map.mp h
      simp only [Prod.mk.injEq] at heq
      obtain ⟨rfl, rfl⟩ := heq
      refine ⟨fun hc => ?_, fun _ => ⟨rfl, hBot q hq⟩⟩
      unfold bottomList at hq
      rw [mem_uniq, List.mem_filter] at hq
      exact absurd (by simpa using hc) (by simpa using hq.2)
  · -- the positions: no repetition, and exactly the indices of `names`
    rw [allPositions_datasetSpec]
    apply (List.perm_ext_iff_of_nodup _ List.nodup_range).mpr
    · intro k
      rw [List.mem_append, mem_topIdx, List.mem_flatMap, List.mem_range]
      constructor
      · rintro (⟨p, hp, _⟩ | ⟨p, _, hk⟩)
        · exact (List.getElem?_eq_some_iff.mp hp).1
        · exact (List.getElem?_eq_some_iff.mp ((mem_positions p names k).mp hk)).1
      · intro hk
        by_cases hc : top.contains names[k] = true
        · exact Or.inl ⟨names[k], List.getElem?_eq_getElem hk, hc⟩
        · right
          refine ⟨names[k], ?_, (mem_positions _ _ _).mpr (List.getElem?_eq_getElem hk)⟩
          unfold bottomList
          rw [mem_uniq, List.mem_filter]
          exact ⟨List.getElem_mem hk, by simpa using hc⟩
    · rw [List.nodup_append]
      refine ⟨nodup_topIdx top names, ?_, ?_⟩
      · rw [List.nodup_flatMap]
        refine ⟨fun p _ => nodup_positions p names, ?_⟩
        apply (nodup_uniq _).imp
        intro p q hpq
        simp only [Function.onFun, List.disjoint_left]
        intro k hk1 hk2
        rw [mem_positions] at hk1 hk2
        rw [hk1] at hk2
        exact hpq (Option.some.inj hk2)
      · intro a ha b hb hab
        subst hab
        rw [mem_topIdx] at ha
        rw [List.mem_flatMap] at hb
        obtain ⟨p, hp, hc⟩ := ha
        obtain ⟨q, hq, hk⟩ := hb
        rw [mem_positions, hp] at hk
        cases Option.some.inj hk
        unfold bottomList at hq
        rw [mem_uniq, List.mem_filter] at hq
        exact absurd (by simpa using hc) (by simpa using hq.2)

/-- repeated top-level names (e.g. two dimensions given the same name with `set_dim_names`):
    the later column overwrites the earlier one, position 0 is in no slot of the dataset -/
theorem C18_format_chains_overwrite_counterexample :
    formatChains ["Mean x", "Mean x"] ["Mean x", "Mean x"] 0 = .ok [("Mean x", .one 1)] := by
  decide

/-! ## the hierarchical layout: which individual owns which position -/

theorem positions_append (p : String) (l₁ l₂ : List String) :
    positions p (l₁ ++ l₂) = positions p l₁ ++ (positions p l₂).map (· + l₁.length) := by
  unfold positions
  rw [List.zipIdx_append, List.filter_append, List.map_append]
  congr 1
  have h : l₂.zipIdx (0 + l₁.length) = (l₂.zipIdx).map (Prod.map id (· + l₁.length)) := by
    rw [List.map_snd_add_zipIdx_eq_zipIdx]; simp
  rw [h, List.filter_map, List.map_map, List.map_map]
  rfl

theorem positions_not_mem (p : String) (l : List String) (h : p ∉ l) : positions p l = [] := by
  unfold positions
  rw [List.map_eq_nil_iff, List.filter_eq_nil_iff]
  intro e he
  simp only [beq_iff_eq]
  intro heq
  exact h (heq ▸ List.fst_mem_of_mem_zipIdx he)

theorem positions_nodup_mem (p : String) (l : List String) (hnd : l.Nodup) (h : p ∈ l) :
    positions p l = [l.idxOf p] := by
  induction l with
  | nil => simp at h
  | cons a as ih =>
    rw [List.nodup_cons] at hnd
    have happ := positions_append p [a] as
    simp only [List.singleton_append, List.length_singleton] at happ
    rw [happ]
    by_cases ha : a = p
    · subst ha
      rw [positions_not_mem a as hnd.1]
      simp [positions, List.zipIdx]
    · have hp : p ∈ as := by
        rcases List.mem_cons.mp h with h | h
        · exact absurd h.symm ha
        · exact h
      rw [ih hnd.2 hp]
      have h1 : positions p [a] = [] := positions_not_mem p [a] (by simpa using fun h => ha h.symm)
      rw [h1]
      simp [List.idxOf_cons, ha]

/-- positions of a bottom-level name in `n` repetitions of the bottom block -/
theorem positions_blocks (p : String) (bottom : List String) (hnd : bottom.Nodup) (hp : p ∈ bottom)
    (n : Nat) :
    positions p (List.replicate n bottom).flatten
      = (List.range n).map (fun r => r * bottom.length + bottom.idxOf p) := by
  induction n with
  | zero => simp [positions]
  | succ n ih =>
    rw [List.replicate_succ, List.flatten_cons, positions_append, ih,
      positions_nodup_mem p bottom hnd hp, List.range_succ_eq_map]
    simp only [List.map_cons, List.map_map, Nat.zero_mul, Nat.zero_add, List.singleton_append,
      List.cons.injEq, true_and]
    apply List.map_congr_left
    intro r _
    simp only [Function.comp, Nat.succ_eq_add_one]
    ring

/-- **entry = chains[c, d, k] for the unique position k** (hierarchical layout, any numbers of
    individuals, bottom names and top names): the dataset variable of the bottom-level name `p`
    holds, at individual index `r`, the position `k = r·b + j` (`j` = index of `p` among the
    bottom names); at that position `get_parameter_names()` says `p` and `get_id()` says the
    `r`-th individual. -/
theorem C18_format_chains_entry (bottom top : List String) (ids : List String)
    (hb : bottom.Nodup) (hdis : ∀ p ∈ bottom, top.contains p = false)
    (p : String) (hp : p ∈ bottom) (r : Nat) (hr : r < ids.length) :
    let names := hierNames bottom top ids.length
    let k := r * bottom.length + bottom.idxOf p
    (positions p names)[r]? = some k ∧ (positions p names).length = ids.length ∧
    names[k]? = some p ∧ (hierIds bottom.length top.length ids)[k]? = some (some ids[r]) := by
  intro names k
  have hpt : p ∉ top := by
    have := hdis p hp
    simpa using this
  have hpos : positions p names
      = (List.range ids.length).map (fun r => r * bottom.length + bottom.idxOf p) := by
    show positions p (hierNames bottom top ids.length) = _
    unfold hierNames
    rw [positions_append, positions_blocks p bottom hb hp, positions_not_mem p top hpt]
    simp
  have hj : bottom.idxOf p < bottom.length := List.idxOf_lt_length_of_mem hp
  have hkpos : (positions p names)[r]? = some k := by
    rw [hpos]; simp [hr, k]
  refine ⟨hkpos, by rw [hpos]; simp, ?_, ?_⟩
  · exact (mem_positions p names k).mp (List.mem_of_getElem? hkpos)
  · unfold hierIds
    have hlenG : ∀ l : List String,
        ((l.map (fun i => List.replicate bottom.length (some i))).flatten).length
          = l.length * bottom.length := by
      intro l
      induction l with
      | nil => simp
      | cons a as ih =>
        simp only [List.map_cons, List.flatten_cons, List.length_append, List.length_replicate, ih,
          List.length_cons]
        ring
    have hlen := hlenG ids
    have hk : k < ids.length * bottom.length := by
      have : (r + 1) * bottom.length ≤ ids.length * bottom.length :=
        Nat.mul_le_mul_right _ hr
      have h2 : (r + 1) * bottom.length = r * bottom.length + bottom.length := by ring
      omega
    rw [List.getElem?_append_left (by rw [hlen]; exact hk)]
    -- peel `r` full blocks
    clear hkpos hpos
    induction ids generalizing r with
    | nil => simp at hr
    | cons i is ih =>
      simp only [List.map_cons, List.flatten_cons]
      cases r with
      | zero =>
        simp only [Nat.zero_mul, Nat.zero_add, k]
        rw [List.getElem?_append_left (by simpa using hj)]
        simp [hj]
      | succ r =>
        have hge : bottom.length ≤ (r + 1) * bottom.length + bottom.idxOf p := by
          have : (r + 1) * bottom.length = r * bottom.length + bottom.length := by ring
          omega
        rw [List.getElem?_append_right (by simpa using hge)]
        simp only [List.length_replicate, List.getElem_cons_succ]
        have hsub : (r + 1) * bottom.length + bottom.idxOf p - bottom.length
            = r * bottom.length + bottom.idxOf p := by
          have : (r + 1) * bottom.length = r * bottom.length + bottom.length := by ring
          omega
        rw [hsub]
        have hr' : r < is.length := by simpa using hr
        have hlen' := hlenG is
        have hk' : r * bottom.length + bottom.idxOf p < is.length * bottom.length := by
          have : (r + 1) * bottom.length ≤ is.length * bottom.length :=
            Nat.mul_le_mul_right _ hr'
          have h2 : (r + 1) * bottom.length = r * bottom.length + bottom.length := by ring
          omega
        exact ih r hr' hlen' hk'

/-- the hypotheses of `C18_format_chains_bijection` hold for the hierarchical layout -/
theorem hierNames_wellformed (bottom top : List String) (n : Nat) (hn : 0 < n)
    (hb : bottom.Nodup) (ht : top.Nodup) (hdis : ∀ p ∈ bottom, top.contains p = false) :
    let names := hierNames bottom top n
    (names.filter (fun p => top.contains p)).Nodup ∧
    ∀ p ∈ bottomList top names, (positions p names).length = n := by
  intro names
  have hfil : names.filter (fun p => top.contains p) = top := by
    show (hierNames bottom top n).filter _ = top
    unfold hierNames
    rw [List.filter_append]
    have h1 : (List.replicate n bottom).flatten.filter (fun p => top.contains p) = [] := by
      rw [List.filter_eq_nil_iff]
      intro a ha
      rw [List.mem_flatten] at ha
      obtain ⟨l, hl, hal⟩ := ha
      rw [List.mem_replicate] at hl
      rw [hl.2] at hal
      simp only [hdis a hal, Bool.false_eq_true, not_false_eq_true]
    rw [h1, List.nil_append, List.filter_eq_self]
    intro a ha
    simpa using ha
  refine ⟨by rw [hfil]; exact ht, ?_⟩
  intro p hp
  unfold bottomList at hp
  rw [mem_uniq, List.mem_filter] at hp
  have hpt : p ∉ top := by simpa using hp.2
  have hpb : p ∈ bottom := by
    have h := hp.1
    show p ∈ bottom
    unfold names hierNames at h
    rcases List.mem_append.mp h with h | h
    · rw [List.mem_flatten] at h
      obtain ⟨l, hl, hal⟩ := h
      rw [List.mem_replicate] at hl
      exact hl.2 ▸ hal
    · exact absurd h hpt
  show (positions p (hierNames bottom top n)).length = n
  unfold hierNames
  rw [positions_append, positions_blocks p bottom hb hpb, positions_not_mem p top hpt]
  simp

/-- rows of equal length `m`: entry `i·m + j` of the flattened list is entry `j` of row `i` -/
theorem flatten_uniform_get {α : Type} (L : List (List α)) (m : Nat) (h : ∀ l ∈ L, l.length = m)
    (i j : Nat) (hj : j < m) : L.flatten[i * m + j]? = (L[i]?).bind (·[j]?) := by
  induction L generalizing i with
  | nil => simp
  | cons l ls ih =>
    have hl := h l List.mem_cons_self
    cases i with
    | zero =>
      simp only [Nat.zero_mul, Nat.zero_add, List.flatten_cons, List.getElem?_cons_zero,
        Option.bind_some]
      exact List.getElem?_append_left (by omega)
    | succ i =>
      have hge : l.length ≤ (i + 1) * m + j := by
        have : (i + 1) * m = i * m + m := by ring
        omega
      rw [List.flatten_cons, List.getElem?_append_right hge]
      have hsub : (i + 1) * m + j - l.length = i * m + j := by
        have : (i + 1) * m = i * m + m := by ring
        omega
      rw [hsub, ih (fun x hx => h x (List.mem_cons_of_mem _ hx))]
      simp

/-! ## the population-filter layout -/

theorem blockIds_get (b : Nat) (ids : List String) (r j : Nat) (hr : r < ids.length) (hj : j < b) :
    ((ids.map (fun i => List.replicate b (some i))).flatten)[r * b + j]? = some (some ids[r]) := by
  rw [flatten_uniform_get _ b (by
    intro l hl
    obtain ⟨i, _, rfl⟩ := List.mem_map.mp hl
    simp) r j hj]
  simp [hr, hj]

theorem blockIds_length (b : Nat) (ids : List String) :
    ((ids.map (fun i => List.replicate b (some i))).flatten).length = ids.length * b := by
  induction ids with
  | nil => simp
  | cons a as ih =>
    simp only [List.map_cons, List.flatten_cons, List.length_append, List.length_replicate, ih,
      List.length_cons]
    ring

theorem blocks_length (l : List String) (n : Nat) :
    ((List.replicate n l).flatten).length = n * l.length := by
  induction n with
  | zero => simp
  | succ n ih => rw [List.replicate_succ, List.flatten_cons, List.length_append, ih]; ring

theorem not_mem_blocks (p : String) (l : List String) (n : Nat) (h : p ∉ l) :
    p ∉ (List.replicate n l).flatten := by
  intro hp
  rw [List.mem_flatten] at hp
  obtain ⟨l', hl', hpl⟩ := hp
  rw [List.mem_replicate] at hl'
  exact h (hl'.2 ▸ hpl)

/-- **filter-posterior layout** (`top ++ bottom × n_sim ++ epsilon × n_sim`, any sizes): the dataset
    variable of a bottom-level name `p` holds at simulated individual `r` the position
    `r·b + j + n_top`, that of an epsilon name the position `r·e + j + n_top + n_sim·b`; at that
    position `get_parameter_names()` says `p` and `get_id()` says `Sim. r+1` (= `ids[r]`). -/
theorem C18_format_chains_entry_filter (top bottom eps ids : List String)
    (hb : bottom.Nodup) (he : eps.Nodup)
    (hbt : ∀ p ∈ bottom, p ∉ top ∧ p ∉ eps) (het : ∀ p ∈ eps, p ∉ top ∧ p ∉ bottom)
    (r : Nat) (hr : r < ids.length) :
    let names := filterNames top bottom eps ids.length
    let idsFull := filterIds top.length bottom.length eps.length ids
    (∀ p ∈ bottom,
      let k := r * bottom.length + bottom.idxOf p + top.length
      (positions p names)[r]? = some k ∧ (positions p names).length = ids.length ∧
      names[k]? = some p ∧ idsFull[k]? = some (some ids[r])) ∧
    (∀ p ∈ eps,
      let k := r * eps.length + eps.idxOf p + (top.length + ids.length * bottom.length)
      (positions p names)[r]? = some k ∧ (positions p names).length = ids.length ∧
      names[k]? = some p ∧ idsFull[k]? = some (some ids[r])) := by
  intro names idsFull
  constructor
  · intro p hp k
    have hpos : positions p names
        = (List.range ids.length).map (fun r => r * bottom.length + bottom.idxOf p + top.length) := by
      show positions p (filterNames top bottom eps ids.length) = _
      unfold filterNames
      rw [positions_append, positions_append, positions_not_mem p top (hbt p hp).1,
        positions_blocks p bottom hb hp,
        positions_not_mem p _ (not_mem_blocks p eps _ (hbt p hp).2)]
      simp [List.map_map, Function.comp]
    have hj : bottom.idxOf p < bottom.length := List.idxOf_lt_length_of_mem hp
    have hkpos : (positions p names)[r]? = some k := by rw [hpos]; simp [hr, k]
    refine ⟨hkpos, by rw [hpos]; simp, (mem_positions p names k).mp (List.mem_of_getElem? hkpos), ?_⟩
    show (filterIds top.length bottom.length eps.length ids)[k]? = _
    unfold filterIds
    have hk1 : k < (List.replicate top.length (none : Option String)
        ++ (ids.map (fun i => List.replicate bottom.length (some i))).flatten).length := by
      rw [List.length_append, List.length_replicate, blockIds_length]
      have : (r + 1) * bottom.length ≤ ids.length * bottom.length := Nat.mul_le_mul_right _ hr
      have h2 : (r + 1) * bottom.length = r * bottom.length + bottom.length := by ring
      omega
    rw [List.getElem?_append_left hk1, List.getElem?_append_right (by simp [k])]
    simp only [List.length_replicate]
    have : k - top.length = r * bottom.length + bottom.idxOf p := by omega
    rw [this]
    exact blockIds_get bottom.length ids r _ hr hj
  · intro p hp k
    have hpos : positions p names
        = (List.range ids.length).map
            (fun r => r * eps.length + eps.idxOf p + (top.length + ids.length * bottom.length)) := by
      show positions p (filterNames top bottom eps ids.length) = _
      unfold filterNames
      rw [positions_append, positions_append, positions_not_mem p top (het p hp).1,
        positions_not_mem p _ (not_mem_blocks p bottom _ (het p hp).2),
        positions_blocks p eps he hp]
      simp [List.map_map, Function.comp, blocks_length]
    have hj : eps.idxOf p < eps.length := List.idxOf_lt_length_of_mem hp
    have hkpos : (positions p names)[r]? = some k := by rw [hpos]; simp [hr, k]
    refine ⟨hkpos, by rw [hpos]; simp, (mem_positions p names k).mp (List.mem_of_getElem? hkpos), ?_⟩
    show (filterIds top.length bottom.length eps.length ids)[k]? = _
    unfold filterIds
    have hl1 : (List.replicate top.length (none : Option String)
        ++ (ids.map (fun i => List.replicate bottom.length (some i))).flatten).length
        = top.length + ids.length * bottom.length := by
      rw [List.length_append, List.length_replicate, blockIds_length]
    rw [List.getElem?_append_right (by rw [hl1]; simp [k]), hl1]
    have : k - (top.length + ids.length * bottom.length) = r * eps.length + eps.idxOf p := by omega
    rw [this]
    exact blockIds_get eps.length ids r _ hr hj

theorem mem_blocks (p : String) (l : List String) (n : Nat)
    (h : p ∈ (List.replicate n l).flatten) : p ∈ l := by
  rw [List.mem_flatten] at h
  obtain ⟨l', hl', hpl⟩ := h
  rw [List.mem_replicate] at hl'
  exact hl'.2 ▸ hpl

/-- the hypotheses of `C18_format_chains_bijection` hold for the filter-posterior layout -/
theorem filterNames_wellformed (top bottom eps : List String) (n : Nat)
    (hb : bottom.Nodup) (he : eps.Nodup) (ht : top.Nodup)
    (hbt : ∀ p ∈ bottom, p ∉ top ∧ p ∉ eps) (het : ∀ p ∈ eps, p ∉ top ∧ p ∉ bottom) :
    let names := filterNames top bottom eps n
    (names.filter (fun p => top.contains p)).Nodup ∧
    ∀ p ∈ bottomList top names, (positions p names).length = n := by
  intro names
  have hnil : ∀ (l : List String), (∀ p ∈ l, p ∉ top) →
      (List.replicate n l).flatten.filter (fun p => top.contains p) = [] := by
    intro l hl
    rw [List.filter_eq_nil_iff]
    intro a ha
    have := hl a (mem_blocks a l n ha)
    simpa using this
  have hfil : names.filter (fun p => top.contains p) = top := by
    show (filterNames top bottom eps n).filter _ = top
    unfold filterNames
    rw [List.filter_append, List.filter_append, hnil bottom (fun p hp => (hbt p hp).1),
      hnil eps (fun p hp => (het p hp).1), List.append_nil, List.append_nil, List.filter_eq_self]
    intro a ha
    simpa using ha
  refine ⟨by rw [hfil]; exact ht, ?_⟩
  intro p hp
  unfold bottomList at hp
  rw [mem_uniq, List.mem_filter] at hp
  have hpt : p ∉ top := by simpa using hp.2
  have hmem : p ∈ bottom ∨ p ∈ eps := by
    have h := hp.1
    unfold names filterNames at h
    rcases List.mem_append.mp h with h | h
    · rcases List.mem_append.mp h with h | h
      · exact absurd h hpt
      · exact Or.inl (mem_blocks p bottom n h)
    · exact Or.inr (mem_blocks p eps n h)
  show (positions p (filterNames top bottom eps n)).length = n
  unfold filterNames
  rcases hmem with hpb | hpe
  · rw [positions_append, positions_append, positions_not_mem p top hpt,
      positions_blocks p bottom hb hpb,
      positions_not_mem p _ (not_mem_blocks p eps _ (hbt p hpb).2)]
    simp
  · rw [positions_append, positions_append, positions_not_mem p top hpt,
      positions_not_mem p _ (not_mem_blocks p bottom _ (het p hpe).2),
      positions_blocks p eps he hpe]
    simp

/-! ## initial parameters -/

theorem keptDims_congr (f g : SubModel → Bool) (subs : List SubModel) (cur : Nat)
    (h : ∀ m ∈ subs, f m = g m) : keptDims f subs cur = keptDims g subs cur := by
  induction subs generalizing cur with
  | nil => rfl
  | cons m ms ih =>
    unfold keptDims
    rw [h m List.mem_cons_self, ih _ (fun x hx => h x (List.mem_cons_of_mem _ hx))]

theorem keptDims_lt (f : SubModel → Bool) (subs : List SubModel) (cur : Nat) :
    ∀ d ∈ keptDims f subs cur, cur ≤ d ∧ d < cur + (subs.map (·.nDim)).sum := by
  induction subs generalizing cur with
  | nil => simp [keptDims]
  | cons m ms ih =>
    intro d hd
    unfold keptDims at hd
    simp only [List.map_cons, List.sum_cons]
    by_cases hf : f m = true
    · simp only [hf, if_true] at hd
      have := ih _ d hd
      omega
    · simp only [hf, Bool.false_eq_true, if_false, List.mem_append, List.mem_range'_1] at hd
      rcases hd with hd | hd
      · omega
      · have := ih _ d hd
        omega

theorem selectDims_length {α : Type} (dims : List Nat) (row : List α)
    (h : ∀ d ∈ dims, d < row.length) : (selectDims dims row).length = dims.length := by
  unfold selectDims
  induction dims with
  | nil => rfl
  | cons d ds ih =>
    have hd := h d List.mem_cons_self
    rw [List.filterMap_cons, List.getElem?_eq_getElem hd]
    simp [ih (fun x hx => h x (List.mem_cons_of_mem _ hx))]

theorem kept_flatten_length {α : Type} (subs : List SubModel) (nIds : Nat)
    (popSample : List (List α)) (hrows : popSample.length = nIds)
    (hwidth : ∀ row ∈ popSample, row.length = (subs.map (·.nDim)).sum) :
    ((popSample.map (selectDims (keptDims (·.special) subs 0))).flatten).length
      = nIds * (keptDims (·.special) subs 0).length := by
  rw [List.length_flatten, List.map_map]
  have : ∀ row ∈ popSample, (List.length ∘ selectDims (keptDims (·.special) subs 0)) row
      = (keptDims (·.special) subs 0).length := by
    intro row hrow
    simp only [Function.comp]
    apply selectDims_length
    intro d hd
    have := keptDims_lt (·.special) subs 0 d hd
    rw [hwidth row hrow]; omega
  rw [List.map_congr_left this, List.map_const', List.sum_replicate, hrows]
  simp

/-- **initial points, the code as it is** — for every composition of population sub-models (pooled,
    heterogeneous, covariate- or reduced-wrapped ones included), every number of individuals and
    dimensions: every row is [for each individual, the population sample at the top values
    restricted to the dimensions with individual-level parameters, row-major] ++ [the prior sample],
    and has the posterior's dimension `n_ids · #kept + n_top`. -/
theorem C18_initial_structure {α : Type} (subs : List SubModel) (nIds : Nat)
    (topSample : List α) (popSample : List (List α))
    (hrows : popSample.length = nIds)
    (hwidth : ∀ row ∈ popSample, row.length = (subs.map (·.nDim)).sum) :
    initRow subs nIds topSample popSample
      = .ok ((popSample.map (selectDims (keptDims (·.special) subs 0))).flatten ++ topSample) ∧
    ((popSample.map (selectDims (keptDims (·.special) subs 0))).flatten ++ topSample).length
      = nIds * (keptDims (·.special) subs 0).length + topSample.length := by
  have hlen := kept_flatten_length subs nIds popSample hrows hwidth
  constructor
  · unfold initRow
    by_cases h0 : nIds * (keptDims (·.special) subs 0).length = 0
    · have hnil : (popSample.map (selectDims (keptDims (·.special) subs 0))).flatten = [] := by
        apply List.eq_nil_of_length_eq_zero
        rw [hlen, h0]
      simp only [h0, if_true, hnil, List.nil_append]
    · simp only [h0, if_false, hlen, ne_eq, not_true_eq_false]
  · rw [List.length_append, hlen]

/-- **entry level**: position `i·m + j` of an initial point holds individual `i`'s population
    sample in the `j`-th kept dimension; position `n_ids·m + t` holds the `t`-th prior sample -/
theorem C18_initial_entry {α : Type} (subs : List SubModel) (nIds : Nat)
    (topSample : List α) (popSample : List (List α))
    (hrows : popSample.length = nIds)
    (hwidth : ∀ row ∈ popSample, row.length = (subs.map (·.nDim)).sum) (row : List α)
    (h : initRow subs nIds topSample popSample = .ok row) :
    let dims := keptDims (·.special) subs 0
    (∀ i j (hi : i < nIds) (hj : j < dims.length),
      row[i * dims.length + j]? = (popSample[i]?).bind (fun r => r[dims[j]]?)) ∧
    (∀ t, row[nIds * dims.length + t]? = topSample[t]?) := by
  intro dims
  have hs := (C18_initial_structure subs nIds topSample popSample hrows hwidth).1
  rw [hs] at h
  cases h
  have hlen : ((popSample.map (selectDims dims)).flatten).length = nIds * dims.length :=
    kept_flatten_length subs nIds popSample hrows hwidth
  have hrowlen : ∀ l ∈ popSample.map (selectDims dims), l.length = dims.length := by
    intro l hl
    obtain ⟨r, hr, rfl⟩ := List.mem_map.mp hl
    apply selectDims_length
    intro d hd
    have := keptDims_lt (·.special) subs 0 d hd
    rw [hwidth r hr]; omega
  constructor
  · intro i j hi hj
    have hlt : i * dims.length + j < ((popSample.map (selectDims dims)).flatten).length := by
      rw [hlen]
      have : (i + 1) * dims.length ≤ nIds * dims.length := Nat.mul_le_mul_right _ hi
      have h2 : (i + 1) * dims.length = i * dims.length + dims.length := by ring
      omega
    show ((popSample.map (selectDims dims)).flatten ++ topSample)[i * dims.length + j]? = _
    rw [List.getElem?_append_left hlt, flatten_uniform_get _ dims.length hrowlen i j hj]
    rw [List.getElem?_map]
    cases hp : popSample[i]? with
    | none => rfl
    | some r =>
      simp only [Option.map_some, Option.bind_some]
      -- entry j of the selected row is the dims[j]-th entry of the row
      have hr : r ∈ popSample := List.mem_of_getElem? hp
      have hd : dims[j] < r.length := by
        have := keptDims_lt (·.special) subs 0 dims[j] (List.getElem_mem hj)
        rw [hwidth r hr]; omega
      have : ∀ (ds : List Nat) (hds : ∀ d ∈ ds, d < r.length) (j : Nat) (hj : j < ds.length),
          (selectDims ds r)[j]? = r[ds[j]]? := by
        intro ds
        induction ds with
        | nil => intro _ j hj; simp at hj
        | cons d ds ih =>
          intro hds j hj
          have hdl := hds d List.mem_cons_self
          unfold selectDims
          rw [List.filterMap_cons, List.getElem?_eq_getElem hdl]
          cases j with
          | zero => simp [List.getElem?_eq_getElem hdl]
          | succ j =>
            simp only [List.getElem?_cons_succ, List.getElem_cons_succ]
            exact ih (fun x hx => hds x (List.mem_cons_of_mem _ hx)) j (by simpa using hj)
      exact this dims (fun d hd' => by
        have := keptDims_lt (·.special) subs 0 d hd'
        rw [hwidth r hr]; omega) j hj
  · intro t
    show ((popSample.map (selectDims dims)).flatten ++ topSample)[nIds * dims.length + t]? = _
    rw [List.getElem?_append_right (by rw [hlen]; omega), hlen]
    simp

/-- the pre-fix code (`isinstance`-based removal of special dimensions) produced that row only when
    `isinstance` recognised exactly the sub-models without hierarchical dimensions -/
theorem C18_initial_structure_legacy_partial {α : Type} (subs : List SubModel) (nIds : Nat)
    (topSample : List α) (popSample : List (List α))
    (hinst : ∀ m ∈ subs, m.isInst = m.special) :
    initRowLegacy subs nIds topSample popSample = initRow subs nIds topSample popSample := by
  unfold initRowLegacy initRow
  rw [keptDims_congr (·.isInst) (·.special) subs 0 hinst]

/-- pre-fix (1cc8bcf, Appendix A #15): a covariate-wrapped pooled model is not an instance of
    `PooledModel`; its dimension was kept, the row too wide for the bottom block (numpy:
    `ValueError`).  Two individuals, sub-models [wrapped pooled (1 dim), Gaussian (1 dim)]. -/
theorem C18_initial_structure_counterexample :
    let subs : List SubModel := [⟨1, false, true⟩, ⟨1, false, false⟩]
    initRowLegacy subs 2 [10, 11, 12] [[1, 2], [3, 4]] = (.error .valueError : Except IErr (List Nat)) ∧
    initRow subs 2 [10, 11, 12] [[1, 2], [3, 4]] = .ok [2, 4, 10, 11, 12] := by
  exact ⟨rfl, rfl⟩

/-- filter posterior: top block, then the kept dimensions row-major per simulated individual, then
    the noise realisations -/
theorem C18_initial_structure_filter {α : Type} (subs : List SubModel) (topSample : List α)
    (popSample : List (List α)) (eps : List α) :
    initRowFilter subs topSample popSample eps
      = topSample ++ (popSample.map (selectDims (keptDims (·.special) subs 0))).flatten ++ eps := rfl

/-! ## optimisation table -/

/-- **table pairs**: row `r·K + k` of the table pairs the `k`-th estimate of run `r` with the
    `k`-th name, the `k`-th ID, the run's score and the run number `r + 1` — for all numbers of
    runs and parameters -/
theorem C18_table_pairs {α : Type} (ids : List (Option String)) (names : List String)
    (runs : List (List α × α)) (K : Nat) (hi : ids.length = K) (hn : names.length = K)
    (he : ∀ e ∈ runs, e.1.length = K) (r k : Nat) (hr : r < runs.length) (hk : k < K) :
    (optTable ids names runs).length = runs.length * K ∧
    ∃ row, (optTable ids names runs)[r * K + k]? = some row ∧
      some row.id = ids[k]? ∧ some row.param = names[k]? ∧ some row.est = (runs[r]).1[k]? ∧
      row.score = (runs[r]).2 ∧ row.run = r + 1 := by
  unfold optTable
  -- every block has K rows
  have hblock : ∀ (l : List ((List α × α) × Nat)), (∀ e ∈ l, e.1.1.length = K) →
      (l.flatMap (fun e => (ids.zip (names.zip e.1.1)).map
        (fun x => (⟨x.1, x.2.1, x.2.2, e.1.2, e.2 + 1⟩ : TRow α)))).length = l.length * K := by
    intro l hl
    induction l with
    | nil => simp
    | cons e es ih =>
      rw [List.flatMap_cons, List.length_append, ih (fun x hx => hl x (List.mem_cons_of_mem _ hx))]
      simp [List.length_zip, hi, hn, hl e List.mem_cons_self]
      ring
  have hall : ∀ e ∈ runs.zipIdx, e.1.1.length = K := fun e h => he e.1 (List.fst_mem_of_mem_zipIdx h)
  refine ⟨by rw [hblock _ hall]; simp, ?_⟩
  -- split the runs at r
  have hsplit : runs.zipIdx = (runs.zipIdx.take r) ++ (runs[r], r) :: (runs.zipIdx.drop (r + 1)) := by
    have hlen : r < runs.zipIdx.length := by simpa using hr
    conv_lhs => rw [← List.take_append_drop r runs.zipIdx]
    rw [List.drop_eq_getElem_cons hlen]
    simp
  rw [hsplit, List.flatMap_append, List.flatMap_cons]
  have htake : ((runs.zipIdx.take r).flatMap (fun e => (ids.zip (names.zip e.1.1)).map
      (fun x => (⟨x.1, x.2.1, x.2.2, e.1.2, e.2 + 1⟩ : TRow α)))).length = r * K := by
    rw [hblock _ (fun e h => hall e (List.mem_of_mem_take h))]
    simp [Nat.min_eq_left (Nat.le_of_lt hr)]
  rw [List.getElem?_append_right (by rw [htake]; omega), htake]
  have hsub : r * K + k - r * K = k := by omega
  rw [hsub]
  have hrl : (runs[r]).1.length = K := he _ (List.getElem_mem hr)
  have hkz : k < ((ids.zip (names.zip (runs[r]).1)).map
      (fun x => (⟨x.1, x.2.1, x.2.2, (runs[r]).2, r + 1⟩ : TRow α))).length := by
    simp [List.length_zip, hi, hn, hrl, hk]
  rw [List.getElem?_append_left hkz, List.getElem?_eq_getElem hkz]
  refine ⟨_, rfl, ?_, ?_, ?_, by simp, by simp⟩
  · simp [List.getElem_zip, List.getElem?_eq_getElem (by omega : k < ids.length)]
  · simp [List.getElem_zip, List.getElem?_eq_getElem (by omega : k < names.length)]
  · simp [List.getElem_zip, List.getElem?_eq_getElem (by omega : k < (runs[r]).1.length)]

/-! ## reading a dataset back -/

theorem mapM_readVar_spec (ds : Dict) (r : Option Nat) (ns : List String) (cols : List Nat)
    (h : ns.mapM (readVar ds r) = .ok cols) :
    cols.length = ns.length ∧ ∀ j (hj : j < ns.length), ∃ c, cols[j]? = some c ∧
      readVar ds r ns[j] = .ok c := by
  induction ns generalizing cols with
  | nil =>
    simp only [List.mapM_nil] at h
    cases h
    exact ⟨rfl, fun j hj => absurd hj (by simp)⟩
  | cons n ns ih =>
    rw [List.mapM_cons] at h
    cases hn : readVar ds r n with
    | error e => rw [hn] at h; cases h
    | ok c =>
      rw [hn] at h
      cases hrest : ns.mapM (readVar ds r) with
      | error e => rw [hrest] at h; cases h
      | ok cs =>
        rw [hrest] at h
        cases h
        obtain ⟨hl, hall⟩ := ih cs hrest
        refine ⟨by simp [hl], fun j hj => ?_⟩
        cases j with
        | zero => exact ⟨c, rfl, hn⟩
        | succ j =>
          obtain ⟨c', hc', hr'⟩ := hall j (by simpa using hj)
          exact ⟨c', by simpa using hc', by simpa using hr'⟩

/-- **read-back**: the matrix handed to the predictive model / the likelihood has one column per
    model parameter, in model order; column `j` is the chain position stored in the dataset under
    the (mapped) name of model parameter `j` — for the selected individual when the variable has an
    individual axis, the variable itself when it has none -/
theorem C18_readback (ds : Dict) (ids : List String) (modelNames : List String)
    (paramMap : List (String × String)) (individual : String) (cols : List Nat)
    (h : readback ds ids modelNames paramMap (some individual) = .ok cols) :
    ∃ r, ids.idxOf? individual = some r ∧ cols.length = modelNames.length ∧
      ∀ j (hj : j < modelNames.length), ∃ c, cols[j]? = some c ∧
        (ds.lookup (mapName paramMap modelNames[j]) = some (.one c) ∨
         ∃ ks, ds.lookup (mapName paramMap modelNames[j]) = some (.many ks) ∧ ks[r]? = some c) := by
  unfold readback at h
  cases hidx : ids.idxOf? individual with
  | none => simp [hidx] at h
  | some r =>
    simp only [hidx] at h
    obtain ⟨hl, hall⟩ := mapM_readVar_spec ds (some r) _ cols h
    refine ⟨r, rfl, by simpa using hl, fun j hj => ?_⟩
    obtain ⟨c, hc, hr⟩ := hall j (by simpa using hj)
    refine ⟨c, hc, ?_⟩
    simp only [List.getElem_map] at hr
    unfold readVar at hr
    cases hlk : ds.lookup (mapName paramMap modelNames[j]) with
    | none => rw [hlk] at hr; cases hr
    | some s =>
      rw [hlk] at hr
      cases s with
      | one k => simp only [Except.ok.injEq] at hr; subst hr; exact Or.inl rfl
      | many ks =>
        simp only at hr
        cases hks : ks[r]? with
        | none => rw [hks] at hr; cases hr
        | some k =>
          rw [hks] at hr
          simp only [Except.ok.injEq] at hr
          subst hr
          exact Or.inr ⟨ks, rfl, hks⟩

theorem lookup_mem (d : Dict) (p : String) (v : Sel) (h : d.lookup p = some v) : (p, v) ∈ d := by
  induction d with
  | nil => simp at h
  | cons e es ih =>
    obtain ⟨q, w⟩ := e
    rw [List.lookup_cons] at h
    by_cases hq : p == q
    · simp only [hq] at h
      have : p = q := by simpa using hq
      subst this
      cases h
      exact List.mem_cons_self
    · simp only [hq] at h
      exact List.mem_cons_of_mem _ (ih h)

theorem lookup_of_key (d : Dict) (p : String) (h : p ∈ d.map (·.1)) : ∃ v, d.lookup p = some v := by
  induction d with
  | nil => simp at h
  | cons e es ih =>
    obtain ⟨q, w⟩ := e
    rw [List.lookup_cons]
    by_cases hq : p == q
    · exact ⟨w, by simp [hq]⟩
    · simp only [hq]
      apply ih
      simp only [List.map_cons, List.mem_cons] at h
      rcases h with h | h
      · exact absurd (by simpa using h) hq
      · exact h

theorem mapM_exists {β : Type} (g : String → Except IErr β) (P : String → β → Prop)
    (ns : List String) (h : ∀ n ∈ ns, ∃ c, g n = .ok c ∧ P n c) :
    ∃ cols, ns.mapM g = .ok cols ∧ cols.length = ns.length ∧
      ∀ j (hj : j < ns.length), ∃ c, cols[j]? = some c ∧ P ns[j] c := by
  induction ns with
  | nil => exact ⟨[], rfl, rfl, fun j hj => absurd hj (by simp)⟩
  | cons n ns ih =>
    obtain ⟨c, hc, hP⟩ := h n List.mem_cons_self
    obtain ⟨cs, hcs, hl, hall⟩ := ih (fun m hm => h m (List.mem_cons_of_mem _ hm))
    refine ⟨c :: cs, ?_, by simp [hl], ?_⟩
    · rw [List.mapM_cons, hc, hcs]; rfl
    · intro j hj
      cases j with
      | zero => exact ⟨c, rfl, hP⟩
      | succ j =>
        obtain ⟨c', hc', hP'⟩ := hall j (by simpa using hj)
        exact ⟨c', by simpa using hc', by simpa using hP'⟩

/-- **round trip, general** (hierarchical layout; any numbers of individuals, bottom names, top names
    and model parameters): formatting raw chains and reading the dataset back for individual
    `ids[r]` succeeds, and column `j` of the matrix handed to the predictive model / the likelihood
    is a chain position `k` at which `get_parameter_names()` carries the (mapped) name of model
    parameter `j` and `get_id()` carries either that individual or "population level". -/
theorem C18_roundtrip (bottom top ids : List String) (hb : bottom.Nodup) (ht : top.Nodup)
    (hdis : ∀ p ∈ bottom, top.contains p = false) (hids : ids.Nodup)
    (modelNames : List String) (pm : List (String × String)) (r : Nat) (hr : r < ids.length)
    (hnames : ∀ m ∈ modelNames, mapName pm m ∈ bottom ∨ mapName pm m ∈ top) :
    let names := hierNames bottom top ids.length
    let idsFull := hierIds bottom.length top.length ids
    ∃ ds cols, formatChains names top ids.length = .ok ds ∧
      readback ds ids modelNames pm (some ids[r]) = .ok cols ∧ cols.length = modelNames.length ∧
      ∀ j (hj : j < modelNames.length), ∃ k, cols[j]? = some k ∧
        names[k]? = some (mapName pm modelNames[j]) ∧
        (idsFull[k]? = some (some ids[r]) ∨ idsFull[k]? = some none) := by
  intro names idsFull
  have hn : 0 < ids.length := by omega
  obtain ⟨hw1, hw2⟩ := hierNames_wellformed bottom top ids.length hn hb ht hdis
  obtain ⟨ds, hds, _, hkeys, hslots, _⟩ :=
    C18_format_chains_bijection names top ids.length hw1 hw2
  have hidx : ids.idxOf? ids[r] = some r := by
    rw [List.idxOf?_eq_some_iff]
    refine ⟨hr, rfl, fun j hj heq => ?_⟩
    have := (hids.getElem_inj_iff (hi := by omega) (hj := hr)).mp heq
    omega
  have hBlen : ((List.replicate ids.length bottom).flatten).length = ids.length * bottom.length :=
    blocks_length bottom ids.length
  have hone : ∀ m ∈ modelNames, ∃ k, readVar ds (some r) (mapName pm m) = .ok k ∧
      names[k]? = some (mapName pm m) ∧
      (idsFull[k]? = some (some ids[r]) ∨ idsFull[k]? = some none) := by
    intro m hm
    rcases hnames m hm with hq | hq
    · -- bottom-level name
      have hqn : mapName pm m ∈ names := by
        show mapName pm m ∈ hierNames bottom top ids.length
        unfold hierNames
        apply List.mem_append_left
        rw [List.mem_flatten]
        exact ⟨bottom, List.mem_replicate.mpr ⟨by omega, rfl⟩, hq⟩
      obtain ⟨v, hv⟩ := lookup_of_key ds _ ((hkeys _).mpr hqn)
      obtain ⟨_, hmany⟩ := hslots _ v (lookup_mem ds _ v hv)
      obtain ⟨hveq, _⟩ := hmany (hdis _ hq)
      obtain ⟨hk, _, hname, hid⟩ := C18_format_chains_entry bottom top ids hb hdis _ hq r hr
      refine ⟨r * bottom.length + bottom.idxOf (mapName pm m), ?_, hname, Or.inl hid⟩
      unfold readVar
      rw [hv, hveq]
      simp only
      rw [hk]
    · -- population-level name
      have hqn : mapName pm m ∈ names := by
        show mapName pm m ∈ hierNames bottom top ids.length
        unfold hierNames
        exact List.mem_append_right _ hq
      have hc : top.contains (mapName pm m) = true := by simpa using hq
      obtain ⟨v, hv⟩ := lookup_of_key ds _ ((hkeys _).mpr hqn)
      obtain ⟨hone', _⟩ := hslots _ v (lookup_mem ds _ v hv)
      obtain ⟨k, hveq, hname⟩ := hone' hc
      refine ⟨k, ?_, hname, Or.inr ?_⟩
      · unfold readVar; rw [hv, hveq]
      · -- a position carrying a top-level name lies behind the bottom block
        have hklt : k < names.length := (List.getElem?_eq_some_iff.mp hname).1
        have hnl : names.length = ids.length * bottom.length + top.length := by
          show (hierNames bottom top ids.length).length = _
          unfold hierNames
          rw [List.length_append, hBlen]
        have hge : ids.length * bottom.length ≤ k := by
          by_contra hlt
          have hlt' : k < ((List.replicate ids.length bottom).flatten).length := by
            rw [hBlen]; omega
          have : names[k]? = ((List.replicate ids.length bottom).flatten)[k]? := by
            show (hierNames bottom top ids.length)[k]? = _
            unfold hierNames
            exact List.getElem?_append_left hlt'
          rw [this] at hname
          have hmemB := List.mem_of_getElem? hname
          have hqb := mem_blocks _ bottom _ hmemB
          have := hdis _ hqb
          rw [hc] at this
          cases this
        show (hierIds bottom.length top.length ids)[k]? = some none
        unfold hierIds
        rw [List.getElem?_append_right (by rw [blockIds_length]; exact hge), blockIds_length]
        rw [List.getElem?_replicate]
        have : k - ids.length * bottom.length < top.length := by omega
        simp [this]
  obtain ⟨cols, hcols, hlen, hall⟩ := mapM_exists (readVar ds (some r))
    (fun n k => names[k]? = some n ∧
      (idsFull[k]? = some (some ids[r]) ∨ idsFull[k]? = some none))
    (modelNames.map (mapName pm)) (by
      intro n hn'
      obtain ⟨m, hm, rfl⟩ := List.mem_map.mp hn'
      exact hone m hm)
  refine ⟨ds, cols, hds, ?_, by simpa using hlen, ?_⟩
  · unfold readback
    simp only [hidx]
    exact hcols
  · intro j hj
    obtain ⟨c, hc, hP⟩ := hall j (by simpa using hj)
    refine ⟨c, hc, ?_⟩
    simpa using hP

/-- non-vacuity / round trip on a concrete hierarchical layout: two individuals, bottom names
    `psi0`, `Sigma`, population names `Mean Dim. 1`, `Std. Dim. 1`, `Pooled Dim. 2`; the model
    parameters `psi0, psi1, Sigma` of individual `b` (with `psi1 ↦ Pooled Dim. 2`) are read from the
    chain positions 2, 6, 3 -/
theorem C18_roundtrip_example :
    let names := hierNames ["psi0", "Sigma"] ["Mean Dim. 1", "Std. Dim. 1", "Pooled Dim. 2"] 2
    let top := ["Mean Dim. 1", "Std. Dim. 1", "Pooled Dim. 2"]
    ∃ ds, formatChains names top 2 = .ok ds ∧
      readback ds ["a", "b"] ["psi0", "psi1", "Sigma"] [("psi1", "Pooled Dim. 2")] (some "b")
        = .ok [2, 6, 3] := by
  exact ⟨_, rfl, by decide⟩

/-! ## one object used several times; seeds -/

/-- **history independence of the read-back**: whatever sequence of individuals one
    `PosteriorPredictiveModel` object is asked for (repetitions, `None`, unknown IDs, any length),
    the k-th call reads exactly the columns a fresh object would read for the k-th individual -/
theorem C18_readback_history_independent (ds : Dict) (ids modelNames : List String)
    (paramMap : List (String × String)) (inds : List (Option String)) (cache : Option (List Nat)) :
    readbackSeq false ds ids modelNames paramMap inds cache
      = inds.map (readback ds ids modelNames paramMap) := by
  induction inds generalizing cache with
  | nil => rfl
  | cons i is ih =>
    unfold readbackSeq
    simp only [Bool.false_eq_true, if_false, List.map_cons]
    rw [ih]

/-- an un-keyed cache of the first call's matrix: the second call, for individual `b`, still reads
    individual `a`'s columns -/
theorem C18_readback_cache_counterexample :
    let names := hierNames ["psi0", "Sigma"] ["Mean Dim. 1", "Std. Dim. 1", "Pooled Dim. 2"] 2
    let top := ["Mean Dim. 1", "Std. Dim. 1", "Pooled Dim. 2"]
    ∃ ds, formatChains names top 2 = .ok ds ∧
      readbackSeq true ds ["a", "b"] ["psi0", "psi1", "Sigma"] [("psi1", "Pooled Dim. 2")]
        [some "a", some "b"] none = [.ok [0, 6, 1], .ok [0, 6, 1]] ∧
      readbackSeq false ds ["a", "b"] ["psi0", "psi1", "Sigma"] [("psi1", "Pooled Dim. 2")]
        [some "a", some "b"] none = [.ok [0, 6, 1], .ok [2, 6, 3]] := by
  exact ⟨_, rfl, by decide, by decide⟩

/-- **reproducible from the seed**: for every integer seed — zero included — the prior draws come from
    the generator seeded with it, whatever state the global generator was in, and the population
    draws from the generator seeded with `seed + 1` -/
theorem C18_initial_reproducible (s g g' : Nat) :
    priorStream false (some s) g = .seeded s ∧
    priorStream false (some s) g = priorStream false (some s) g' ∧
    populationStream (some s) = some (s + 1) :=
  ⟨rfl, rfl, rfl⟩

/-- `if seed:` instead of an unconditional reseed: with `seed = 0` the draws depend on the state the
    global generator happens to be in (every other seed is unaffected) -/
theorem C18_seed_zero_counterexample :
    priorStream true (some 0) 1 ≠ priorStream true (some 0) 2 ∧
    (∀ s g, s ≠ 0 → priorStream true (some s) g = .seeded s) := by
  refine ⟨by decide, fun s g hs => ?_⟩
  unfold priorStream
  have : (s == 0) = false := by simpa using hs
  simp [this]


/-! ## the parameter map is applied once per model name -/

/-- every model name is looked up once in the map, by its own name; names produced by the map are
    never looked up again (so exchanged or chained names are fine) -/
theorem C18_param_map_once (pm : List (String × String)) (modelNames : List String) (j : Nat)
    (hj : j < modelNames.length) :
    (modelNames.map (mapName pm))[j]? = some ((pm.lookup modelNames[j]).getD modelNames[j]) := by
  simp [mapName, hj]

/-- an injective map keeps the parameters apart: distinct model parameters read distinct dataset
    variables -/
theorem C18_param_map_distinct (pm : List (String × String)) (modelNames : List String)
    (hn : modelNames.Nodup)
    (hinj : ∀ a ∈ modelNames, ∀ b ∈ modelNames, mapName pm a = mapName pm b → a = b) :
    (modelNames.map (mapName pm)).Nodup :=
  hn.map_on hinj

/-- exchanged names `A ↦ B, B ↦ A` (a posterior inferred under another naming convention): the code
    as it is reads B's column for A and A's column for B; rewriting the list entry by entry collapses
    both parameters onto one variable -/
theorem C18_param_map_exchange_counterexample :
    let pm := [("A", "B"), ("B", "A")]
    ["A", "B", "C"].map (mapName pm) = ["B", "A", "C"] ∧
    mapNamesSequential pm ["A", "B", "C"] = ["A", "A", "C"] ∧
    mapNamesSequential [("A", "B"), ("B", "C")] ["A", "B", "C"] = ["C", "C", "C"] ∧
    (∃ ds, formatChains ["A", "B", "C"] ["A", "B", "C"] 0 = .ok ds ∧
      readback ds [] ["A", "B", "C"] pm none = .ok [1, 0, 2]) := by
  refine ⟨by decide, by decide, by decide, _, rfl, by decide⟩


/-! ## optimisation table: label columns and broken runs -/

/-- **the ID column of an individual posterior**: the one label of the posterior stands in every
    row of the block, next to every parameter name — for any number of parameters -/
theorem C18_table_id_scalar (i : Option String) (names : List String) :
    labelColumns false (.scalar i) names
      = .ok ⟨names.length, List.replicate names.length i, names.map some⟩ := by
  unfold labelColumns LabelFrame.setParam LabelFrame.setId LabelFrame.empty
  simp [bind, Except.bind]

/-- hierarchical / filter posteriors: the k-th row carries the k-th ID -/
theorem C18_table_id_per_parameter (ids : List (Option String)) (names : List String)
    (h : ids.length = names.length) :
    labelColumns false (.perParam ids) names = .ok ⟨names.length, ids, names.map some⟩ := by
  unfold labelColumns LabelFrame.setParam LabelFrame.setId LabelFrame.empty
  by_cases h0 : names.length = 0
  · have hn : names = [] := List.length_eq_zero_iff.mp h0
    have hi : ids = [] := List.length_eq_zero_iff.mp (h.trans h0)
    subst hn; subst hi
    simp [bind, Except.bind]
  · simp [bind, Except.bind, h0, h]

/-- the two statements exchanged: the label of an individual posterior is broadcast over a frame
    that has no rows yet and is lost — every row shows a missing ID (for every label and every
    non-empty name list this differs from the code as it is) — while per-parameter ID lists give
    the same columns in either order -/
theorem C18_table_id_order_counterexample :
    (∀ (i : Option String) (names : List String), labelColumns true (.scalar i) names
      = .ok ⟨names.length, List.replicate names.length none, names.map some⟩) ∧
    (∀ (a : String) (names : List String), names ≠ [] →
      labelColumns true (.scalar (some a)) names ≠ labelColumns false (.scalar (some a)) names) ∧
    (∀ (ids : List (Option String)) (names : List String), ids.length = names.length →
      labelColumns true (.perParam ids) names = labelColumns false (.perParam ids) names) := by
  refine ⟨?_, ?_, ?_⟩
  · intro i names
    unfold labelColumns LabelFrame.setParam LabelFrame.setId LabelFrame.empty
    simp [bind, Except.bind]
  · intro a names hne
    have h1 : labelColumns true (.scalar (some a)) names
        = .ok ⟨names.length, List.replicate names.length none, names.map some⟩ := by
      unfold labelColumns LabelFrame.setParam LabelFrame.setId LabelFrame.empty
      simp [bind, Except.bind]
    rw [h1, C18_table_id_scalar]
    intro h
    cases names with
    | nil => exact hne rfl
    | cons n ns =>
      simp [List.replicate_succ] at h
  · intro ids names h
    rw [C18_table_id_per_parameter ids names h]
    unfold labelColumns LabelFrame.setParam LabelFrame.setId LabelFrame.empty
    by_cases h0 : names.length = 0
    · have hn : names = [] := List.length_eq_zero_iff.mp h0
      have hi : ids = [] := List.length_eq_zero_iff.mp (h.trans h0)
      subst hn; subst hi
      simp [bind, Except.bind]
    · have h0' : ids.length ≠ 0 := by omega
      simp [bind, Except.bind, h0, h0', h]

/-- the code as it is: what a run writes does not depend on what earlier runs left behind -/
theorem resolveRuns_asis {α : Type} (nan : α) (K : Nat) (outs : List (Outcome α)) (last : List α × α) :
    resolveRuns false nan K outs last = outs.map (fun o => o.getD (List.replicate K nan, nan)) := by
  induction outs generalizing last with
  | nil => rfl
  | cons o os ih =>
    cases o with
    | none => simp [resolveRuns, ih]
    | some e => simp [resolveRuns, ih]

/-- **table pairs, with runs that break down**: for every posterior kind (one label / one ID per
    parameter), any number of runs of which any subset broke down, row `r·K + k` carries the `k`-th
    name, the `k`-th ID and the run number `r + 1`; it carries the `k`-th estimate and the score of
    run `r` if that run finished, and the missing-value marker in both places if it did not —
    never another run's numbers -/
theorem C18_table_outcomes_pairs {α : Type} (nan : α) (pid : PostId) (names : List String)
    (outs : List (Outcome α)) (K : Nat) (hn : names.length = K)
    (hp : ∀ ids, pid = .perParam ids → ids.length = K)
    (he : ∀ e, some e ∈ outs → e.1.length = K) (r k : Nat) (hr : r < outs.length) (hk : k < K) :
    ∃ t, optTableOutcomes false false nan pid names outs = .ok t ∧ t.length = outs.length * K ∧
      ∃ row, t[r * K + k]? = some row ∧ some row.param = names[k]? ∧ row.run = r + 1 ∧
        (match pid with
          | .scalar i => row.id = i
          | .perParam ids => some row.id = ids[k]?) ∧
        (match outs[r] with
          | some e => some row.est = e.1[k]? ∧ row.score = e.2
          | none => row.est = nan ∧ row.score = nan) := by
  subst hn
  unfold optTableOutcomes
  rw [resolveRuns_asis]
  set runs := outs.map (fun o => o.getD (List.replicate names.length nan, nan)) with hruns
  have hlen : runs.length = outs.length := by simp [hruns]
  have heK : ∀ e ∈ runs, e.1.length = names.length := by
    intro e hmem
    rw [hruns, List.mem_map] at hmem
    obtain ⟨o, ho, rfl⟩ := hmem
    cases o with
    | none => simp
    | some e' => simpa using he e' ho
  have hrr : r < runs.length := by omega
  have hrun : runs[r] = (outs[r]).getD (List.replicate names.length nan, nan) := by
    simp [hruns]
  cases pid with
  | scalar i =>
    rw [C18_table_id_scalar]
    obtain ⟨hl, row, hrow, hid, hpar, hest, hsc, hrn⟩ :=
      C18_table_pairs (List.replicate names.length i) names runs names.length (by simp) rfl heK r k hrr hk
    refine ⟨_, rfl, by rw [hl, hlen], row, hrow, hpar, hrn, ?_, ?_⟩
    · simpa [List.getElem?_replicate, hk] using hid
    · rw [hrun] at hest hsc
      cases ho : outs[r] with
      | none =>
        rw [ho] at hest hsc
        simp only [Option.getD_none] at hest hsc
        refine ⟨?_, hsc⟩
        simpa [List.getElem?_replicate, hk] using hest
      | some e =>
        rw [ho] at hest hsc
        exact ⟨hest, hsc⟩
  | perParam ids =>
    have hi : ids.length = names.length := hp ids rfl
    rw [C18_table_id_per_parameter ids names hi]
    obtain ⟨hl, row, hrow, hid, hpar, hest, hsc, hrn⟩ :=
      C18_table_pairs ids names runs names.length hi rfl heK r k hrr hk
    refine ⟨_, rfl, by rw [hl, hlen], row, hrow, hpar, hrn, hid, ?_⟩
    rw [hrun] at hest hsc
    cases ho : outs[r] with
    | none =>
      rw [ho] at hest hsc
      simp only [Option.getD_none] at hest hsc
      refine ⟨?_, hsc⟩
      simpa [List.getElem?_replicate, hk] using hest
    | some e =>
      rw [ho] at hest hsc
      exact ⟨hest, hsc⟩

/-- `nan` defaults set once before the loop and `except: pass`: a run that breaks down after a
    finished one is tabulated with the finished run's estimate and score under its own run number
    (leading broken runs still show the marker) -/
theorem C18_table_hoisted_counterexample :
    optTableOutcomes true false "nan" (.scalar (some "a")) ["p"] [none, some (["1.5"], "-2"), none]
      = .ok [⟨some "a", "p", "nan", "nan", 1⟩, ⟨some "a", "p", "1.5", "-2", 2⟩,
             ⟨some "a", "p", "1.5", "-2", 3⟩] ∧
    optTableOutcomes false false "nan" (.scalar (some "a")) ["p"] [none, some (["1.5"], "-2"), none]
      = .ok [⟨some "a", "p", "nan", "nan", 1⟩, ⟨some "a", "p", "1.5", "-2", 2⟩,
             ⟨some "a", "p", "nan", "nan", 3⟩] := by
  constructor <;> rfl

/-! ## one PredictiveModel, several consumers -/

/-- **a shared `PredictiveModel`**: whatever `PosteriorPredictiveModel`s are built from one
    `PredictiveModel` before and after (any maps, any order, any number), an object reads the
    model's names through ITS OWN map: the `use j` after the events `pre` answers with the original
    names mapped by the `j`-th map — exactly the names `readback` resolves -/
theorem C18_shared_predictive_model (pre post : List PEvent) (pred : List String)
    (objs : List (List String)) (j : Nat) :
    sharedRun false (pre ++ .use j :: post) pred objs
      = sharedRun false pre pred objs
        ++ (objs ++ (constructMaps pre).map (fun pm => pred.map (mapName pm)))[j]?
        :: sharedRun false post pred (objs ++ (constructMaps pre).map (fun pm => pred.map (mapName pm))) := by
  induction pre generalizing objs with
  | nil => simp [sharedRun, constructMaps]
  | cons e es ih =>
    cases e with
    | construct pm =>
      simp only [List.cons_append, sharedRun, Bool.false_eq_true, if_false, constructMaps, List.map_cons]
      rw [ih]
      simp [List.append_assoc]
    | use i =>
      simp only [List.cons_append, sharedRun, constructMaps]
      rw [ih]

/-- the accessor handing out the list itself: an object built later (without any map) reads the
    columns chosen by the first object's map, and an object built earlier is re-pointed by a later
    construction -/
theorem C18_shared_predictive_model_alias_counterexample :
    sharedRun true [.construct [("a", "Mean a")], .construct [], .use 1] ["a", "b"] []
      = [some ["Mean a", "b"]] ∧
    sharedRun false [.construct [("a", "Mean a")], .construct [], .use 1] ["a", "b"] []
      = [some ["a", "b"]] ∧
    sharedRun true [.construct [], .use 0, .construct [("a", "Mean a")], .use 0] ["a", "b"] []
      = [some ["a", "b"], some ["Mean a", "b"]] ∧
    sharedRun false [.construct [], .use 0, .construct [("a", "Mean a")], .use 0] ["a", "b"] []
      = [some ["a", "b"], some ["a", "b"]] := by
  refine ⟨by decide, by decide, by decide, by decide⟩

/-! ## chain / draw coordinates of derived datasets -/

theorem Axis.find_cons (e : Nat × Nat) (ax : Axis) (l : Nat) :
    Axis.find (e :: ax) l = if e.1 = l then some e.2 else Axis.find ax l := by
  unfold Axis.find
  by_cases h : e.1 = l
  · simp [List.find?_cons, h]
  · simp [List.find?_cons, h]

theorem Axis.find_nil (l : Nat) : Axis.find [] l = none := rfl

/-- a label that `find` answers for is a label of the axis, with that raw position -/
theorem Axis.find_some_mem {ax : Axis} {l p : Nat} (h : Axis.find ax l = some p) : (l, p) ∈ ax := by
  induction ax with
  | nil => simp [Axis.find_nil] at h
  | cons e es ih =>
    rw [Axis.find_cons] at h
    by_cases he : e.1 = l
    · rw [if_pos he] at h
      have : e = (l, p) := by
        cases e; simp at he h; simp [he, h]
      simp [this]
    · rw [if_neg he] at h
      exact List.mem_cons_of_mem _ (ih h)

theorem Axis.find_isSome_iff (ax : Axis) (l : Nat) : (Axis.find ax l).isSome ↔ l ∈ Axis.labels ax := by
  induction ax with
  | nil => simp [Axis.find_nil, Axis.labels]
  | cons e es ih =>
    rw [Axis.find_cons]
    by_cases he : e.1 = l
    · simp [he, Axis.labels]
    · rw [if_neg he, ih]
      simp only [Axis.labels, List.map_cons, List.mem_cons]
      constructor
      · intro h; exact Or.inr h
      · rintro (h | h)
        · exact absurd h.symm he
        · exact h

/-- with pairwise different labels, every entry of the axis is the one `find` answers with -/
theorem Axis.find_of_mem {ax : Axis} (hn : (Axis.labels ax).Nodup) {l p : Nat} (h : (l, p) ∈ ax) :
    Axis.find ax l = some p := by
  induction ax with
  | nil => simp at h
  | cons e es ih =>
    rw [Axis.find_cons]
    simp only [Axis.labels, List.map_cons, List.nodup_cons] at hn
    rcases List.mem_cons.mp h with h | h
    · subst h; simp
    · have : e.1 ≠ l := by
        intro he
        apply hn.1
        rw [he]
        exact List.mem_map.mpr ⟨(l, p), h, rfl⟩
      rw [if_neg this]
      exact ih hn.2 h

/-- the default coordinates: label `l` holds raw position `l` -/
theorem Axis.find_ofRange (n l : Nat) : Axis.find (Axis.ofRange n) l = if l < n then some l else none := by
  by_cases h : l < n
  · rw [if_pos h]
    apply Axis.find_of_mem
    · have : Axis.labels (Axis.ofRange n) = List.range n := by
        simp [Axis.labels, Axis.ofRange, Function.comp_def]
      rw [this]; exact List.nodup_range
    · simp [Axis.ofRange, h]
  · rw [if_neg h]
    have : ¬ (Axis.find (Axis.ofRange n) l).isSome := by
      rw [Axis.find_isSome_iff]
      simp [Axis.labels, Axis.ofRange, h]
    simpa using this

/-- **selection never moves an entry to another label**: whatever sub-list of an axis with pairwise
    different labels is kept (warm-up removed, thinned, a subset), a label that is still there holds the
    raw position it held before -/
theorem C18_axis_sublist_find {ax' ax : Axis} (hs : List.Sublist ax' ax) (hn : (Axis.labels ax).Nodup)
    {l p : Nat} (h : Axis.find ax' l = some p) : Axis.find ax l = some p :=
  Axis.find_of_mem hn (hs.subset (Axis.find_some_mem h))

theorem thinAxis_sublist (start step : Nat) (ax : Axis) : List.Sublist (thinAxis start step ax) ax := by
  unfold thinAxis
  have h1 : List.Sublist (ax.zipIdx.filter (fun e => decide (start ≤ e.2) && (e.2 - start) % step == 0))
      ax.zipIdx := List.filter_sublist
  have h2 := h1.map (fun e : (Nat × Nat) × Nat => e.1)
  simpa using h2

/-- `.sel(dim=slice(k, None))`: the labels from `k` on, each with its entry -/
theorem C18_axis_fromLabel_find (k : Nat) (ax : Axis) (l : Nat) :
    Axis.find (ax.filter (fun e => decide (k ≤ e.1))) l = if k ≤ l then Axis.find ax l else none := by
  induction ax with
  | nil => simp [Axis.find_nil]
  | cons e es ih =>
    by_cases hk : k ≤ e.1
    · rw [List.filter_cons_of_pos (by simpa using hk), Axis.find_cons, Axis.find_cons, ih]
      by_cases he : e.1 = l
      · simp [he, he ▸ hk]
      · simp [he]
    · rw [List.filter_cons_of_neg (by simpa using hk), Axis.find_cons, ih]
      by_cases he : e.1 = l
      · have : ¬ k ≤ l := he ▸ hk
        simp [this]
      · simp [he]

/-- `.assign_coords(dim=labels + off)`: the entry moves with its label -/
theorem C18_axis_shift_find (off : Nat) (ax : Axis) (l : Nat) :
    Axis.find (ax.map (fun e => (e.1 + off, e.2))) (l + off) = Axis.find ax l := by
  induction ax with
  | nil => rfl
  | cons e es ih =>
    rw [List.map_cons, Axis.find_cons, Axis.find_cons, ih]
    by_cases he : e.1 = l
    · simp [he]
    · have : e.1 + off ≠ l + off := by omega
      simp [he, this]

theorem selLabels_spec (ax : Axis) : ∀ (ls : List Nat) (ax' : Axis), ls.mapM (selOne ax) = .ok ax' →
    ax' = ls.map (fun l => (l, (Axis.find ax l).getD 0)) ∧ ∀ l ∈ ls, (Axis.find ax l).isSome
  | [], ax', h => by
    simp [List.mapM_nil, pure, Except.pure] at h
    simp [← h]
  | l :: ls, ax', h => by
    rw [List.mapM_cons] at h
    cases hf : Axis.find ax l with
    | none =>
      simp [selOne, hf, bind, Except.bind] at h
    | some p =>
      cases hr : ls.mapM (selOne ax) with
      | error e => simp [selOne, hf, hr, bind, Except.bind] at h
      | ok rest =>
        simp [selOne, hf, hr, bind, Except.bind, pure, Except.pure] at h
        obtain ⟨h1, h2⟩ := selLabels_spec ax ls rest hr
        subst h
        refine ⟨by simp [hf, h1], ?_⟩
        intro l' hl'
        rcases List.mem_cons.mp hl' with rfl | hl'
        · simp [hf]
        · exact h2 l' hl'

/-- `.sel(dim=[l, ...])`: exactly the listed labels, each with the entry it had -/
theorem C18_axis_selLabels_find {ax ax' : Axis} {ls : List Nat} (h : (DOp.selLabels ls).apply ax = .ok ax') :
    Axis.labels ax' = ls ∧ ∀ l, Axis.find ax' l = if l ∈ ls then Axis.find ax l else none := by
  obtain ⟨h1, h2⟩ := selLabels_spec ax ls ax' h
  subst h1
  refine ⟨by simp [Axis.labels, Function.comp_def], ?_⟩
  intro l
  clear h
  induction ls with
  | nil => simp [Axis.find_nil]
  | cons m ms ih =>
    rw [List.map_cons, Axis.find_cons]
    by_cases hm : m = l
    · subst hm
      have := h2 m (by simp)
      simp
      cases hf : Axis.find ax m with
      | none => simp [hf] at this
      | some p => simp
    · simp only [hm, if_false]
      rw [ih (fun l' hl' => h2 l' (List.mem_cons_of_mem _ hl'))]
      have : (l ∈ m :: ms) ↔ l ∈ ms := by
        simp [List.mem_cons]; intro h; exact absurd h.symm hm
      simp [this]

/-! ### datasets derived from the one `_format_chains` returns -/

/-- every label of the axis is the raw position it holds, below `n` — true of the default coordinates and
    kept by every selection (not by a renumbering) -/
def Axis.Plain (n : Nat) (ax : Axis) : Prop := ∀ e ∈ ax, e.1 = e.2 ∧ e.1 < n

theorem Axis.plain_ofRange (n : Nat) : Axis.Plain n (Axis.ofRange n) := by
  intro e he
  simp only [Axis.ofRange, List.mem_map, List.mem_range] at he
  obtain ⟨i, hi, rfl⟩ := he
  exact ⟨rfl, hi⟩

theorem Axis.Plain.sublist {n : Nat} {ax ax' : Axis} (h : Axis.Plain n ax) (hs : List.Sublist ax' ax) :
    Axis.Plain n ax' := fun e he => h e (hs.subset he)

theorem Axis.Plain.find {n : Nat} {ax : Axis} (h : Axis.Plain n ax) (l : Nat) :
    Axis.find ax l = if l ∈ Axis.labels ax then some l else none := by
  by_cases hl : l ∈ Axis.labels ax
  · rw [if_pos hl]
    have := (Axis.find_isSome_iff ax l).mpr hl
    cases hf : Axis.find ax l with
    | none => simp [hf] at this
    | some p =>
      have := (h _ (Axis.find_some_mem hf)).1
      simp at this
      rw [this]
  · rw [if_neg hl]
    have := mt (Axis.find_isSome_iff ax l).mp hl
    simpa using this

theorem DOp.apply_plain {n : Nat} {op : DOp} (hop : op.isShift = false) {ax ax' : Axis}
    (h : Axis.Plain n ax) (ha : op.apply ax = .ok ax') : Axis.Plain n ax' := by
  cases op with
  | selLabels ls =>
    obtain ⟨h1, h2⟩ := selLabels_spec ax ls ax' ha
    intro e he
    rw [h1] at he
    obtain ⟨l, hl, rfl⟩ := List.mem_map.mp he
    have hs := h2 l hl
    cases hf : Axis.find ax l with
    | none => simp [hf] at hs
    | some p =>
      have := h _ (Axis.find_some_mem hf)
      simp at this
      simp [this.1.symm, this.2]
  | fromLabel k =>
    simp only [DOp.apply, Except.ok.injEq] at ha
    subst ha
    exact h.sublist List.filter_sublist
  | thin start step =>
    simp only [DOp.apply] at ha
    by_cases hs : step = 0
    · simp [hs] at ha
    · simp only [hs, if_false, Except.ok.injEq] at ha
      subst ha
      exact h.sublist (thinAxis_sublist _ _ _)
  | shift off => simp [DOp.isShift] at hop

theorem derive_plain {nC nD : Nat} : ∀ (steps : List DStep) (g g' : Axis × Axis),
    (∀ st ∈ steps, st.2.isShift = false) → Axis.Plain nC g.1 → Axis.Plain nD g.2 →
    derive steps g = .ok g' → Axis.Plain nC g'.1 ∧ Axis.Plain nD g'.2
  | [], g, g', _, hc, hd, h => by
    simp only [derive, Except.ok.injEq] at h
    subst h
    exact ⟨hc, hd⟩
  | (true, op) :: rest, g, g', hs, hc, hd, h => by
    simp only [derive] at h
    cases ha : op.apply g.1 with
    | error e => simp [ha] at h
    | ok c =>
      simp only [ha] at h
      exact derive_plain rest (c, g.2) g' (fun st hst => hs st (List.mem_cons_of_mem _ hst))
        (DOp.apply_plain (hs (true, op) (by simp)) hc ha) hd h
  | (false, op) :: rest, g, g', hs, hc, hd, h => by
    simp only [derive] at h
    cases ha : op.apply g.2 with
    | error e => simp [ha] at h
    | ok d =>
      simp only [ha] at h
      exact derive_plain rest (g.1, d) g' (fun st hst => hs st (List.mem_cons_of_mem _ hst))
        hc (DOp.apply_plain (hs (false, op) (by simp)) hd ha) h

/-- **the result carries the dataset's coordinates** (code as it is, any dataset): the coordinates of
    the pointwise log-likelihoods are the dataset's, and what is found under (chain = c, draw = d) was
    computed from the parameters the dataset holds under (chain = c, draw = d) -/
theorem C18_pointwise_keeps_coordinates (g : Axis × Axis) :
    Axis.labels (resultAxis false g.1) = Axis.labels g.1 ∧
    Axis.labels (resultAxis false g.2) = Axis.labels g.2 ∧
    ∀ c d, entrySource (resultAxis false g.1, resultAxis false g.2) c d = entrySource g c d := by
  simp [resultAxis]

/-- **pointwise log-likelihoods of a derived dataset**: the dataset a controller returns for
    `nC` chains and `nD` draws, after any sequence of selections on either dimension (warm-up removed,
    thinned, subsets, in any order).  The result has an entry under (chain = c, draw = d) exactly for
    the labels the derived dataset has, and that entry was computed from row (c, d) of the raw chains —
    the parameters the ORIGINAL dataset holds under these labels -/
theorem C18_pointwise_derived_entry (nC nD : Nat) (steps : List DStep) (g : Axis × Axis)
    (hs : ∀ st ∈ steps, st.2.isShift = false)
    (hd : derive steps (Axis.ofRange nC, Axis.ofRange nD) = .ok g) (c d : Nat) :
    entrySource (resultAxis false g.1, resultAxis false g.2) c d
      = if c ∈ Axis.labels g.1 ∧ d ∈ Axis.labels g.2 then some (c, d) else none := by
  obtain ⟨hc, hdd⟩ := derive_plain steps _ g hs (Axis.plain_ofRange nC) (Axis.plain_ofRange nD) hd
  simp only [resultAxis, Bool.false_eq_true, if_false, entrySource, hc.find, hdd.find]
  by_cases h1 : c ∈ Axis.labels g.1 <;> by_cases h2 : d ∈ Axis.labels g.2 <;> simp [h1, h2]

/-- the labels of a derived dataset are labels (= raw positions) of the original one -/
theorem C18_derived_labels_within (nC nD : Nat) (steps : List DStep) (g : Axis × Axis)
    (hs : ∀ st ∈ steps, st.2.isShift = false)
    (hd : derive steps (Axis.ofRange nC, Axis.ofRange nD) = .ok g) :
    (∀ c ∈ Axis.labels g.1, c < nC) ∧ (∀ d ∈ Axis.labels g.2, d < nD) := by
  obtain ⟨hc, hdd⟩ := derive_plain steps _ g hs (Axis.plain_ofRange nC) (Axis.plain_ofRange nD) hd
  constructor
  · intro c hc'
    obtain ⟨e, he, rfl⟩ := List.mem_map.mp hc'
    exact (hc e he).2
  · intro d hd'
    obtain ⟨e, he, rfl⟩ := List.mem_map.mp hd'
    exact (hdd e he).2

/-! ### the slip: coordinates rebuilt from the shape -/

theorem relabel_eq_iff (ax : Axis) : ∀ k : Nat,
    ((ax.zipIdx k).map (fun e => (e.2, e.1.2)) = ax ↔ ax.map (·.1) = List.range' k ax.length) := by
  induction ax with
  | nil => intro k; simp
  | cons e es ih =>
    intro k
    simp only [List.zipIdx_cons, List.map_cons, List.length_cons, List.range'_succ, List.cons.injEq]
    rw [ih (k + 1)]
    constructor
    · rintro ⟨h1, h2⟩
      refine ⟨?_, h2⟩
      rw [← h1]
    · rintro ⟨h1, h2⟩
      refine ⟨?_, h2⟩
      cases e; simp at h1; simp [h1]

/-- rebuilding the coordinates of the result from its shape gives the right result **exactly** for the
    datasets whose coordinates are the default ranges -/
theorem C18_pointwise_relabel_partial (ax : Axis) :
    resultAxis true ax = resultAxis false ax ↔ Axis.labels ax = List.range ax.length := by
  simp only [resultAxis, if_true, Bool.false_eq_true, if_false, Axis.labels]
  rw [List.range_eq_range']
  exact relabel_eq_iff ax 0

/-- warm-up of two draws discarded from a run of four: with rebuilt coordinates the entry found under
    draw 0 belongs to the parameters of draw 2, and draw 3 — which the dataset has — is not found;
    the code as it is answers under the dataset's labels -/
theorem C18_pointwise_relabel_counterexample :
    ∃ g, derive [(false, .fromLabel 2)] (Axis.ofRange 1, Axis.ofRange 4) = .ok g ∧
      Axis.labels g.2 = [2, 3] ∧
      entrySource (resultAxis true g.1, resultAxis true g.2) 0 0 = some (0, 2) ∧
      entrySource (resultAxis true g.1, resultAxis true g.2) 0 3 = none ∧
      entrySource (resultAxis false g.1, resultAxis false g.2) 0 3 = some (0, 3) ∧
      entrySource (resultAxis false g.1, resultAxis false g.2) 0 0 = none :=
  ⟨_, rfl, by decide, by decide, by decide, by decide, by decide⟩

/-! ### the rows a posterior predictive model draws from -/

theorem mem_matrixRows (g : Axis × Axis) (pc pd : Nat) :
    (pc, pd) ∈ matrixRows g ↔ pc ∈ Axis.sources g.1 ∧ pd ∈ Axis.sources g.2 := by
  simp only [matrixRows, List.mem_flatMap, List.mem_map, Axis.sources, Prod.mk.injEq]
  constructor
  · rintro ⟨c, hc, d, hd, rfl, rfl⟩
    exact ⟨⟨c, hc, rfl⟩, ⟨d, hd, rfl⟩⟩
  · rintro ⟨⟨c, hc, rfl⟩, ⟨d, hd, rfl⟩⟩
    exact ⟨c, hc, d, hd, rfl, rfl⟩

theorem length_matrixRows (g : Axis × Axis) : (matrixRows g).length = g.1.length * g.2.length := by
  unfold matrixRows
  induction g.1 with
  | nil => simp
  | cons c cs ih => simp [List.flatMap_cons, ih, Nat.succ_mul, Nat.add_comm]

/-- **posterior predictive model on a derived dataset**: the matrix it draws from has one row per
    (chain, draw) label pair of the derived dataset, and the rows are exactly the raw rows (c, d) with
    c a chain label and d a draw label of it — no discarded draw, no dropped chain -/
theorem C18_predictive_rows_derived (nC nD : Nat) (steps : List DStep) (g : Axis × Axis)
    (hs : ∀ st ∈ steps, st.2.isShift = false)
    (hd : derive steps (Axis.ofRange nC, Axis.ofRange nD) = .ok g) :
    (matrixRows g).length = (Axis.labels g.1).length * (Axis.labels g.2).length ∧
    ∀ pc pd, (pc, pd) ∈ matrixRows g ↔ pc ∈ Axis.labels g.1 ∧ pd ∈ Axis.labels g.2 := by
  obtain ⟨hc, hdd⟩ := derive_plain steps _ g hs (Axis.plain_ofRange nC) (Axis.plain_ofRange nD) hd
  refine ⟨by simp [length_matrixRows, Axis.labels], ?_⟩
  intro pc pd
  rw [mem_matrixRows]
  have key : ∀ {n : Nat} {ax : Axis}, Axis.Plain n ax → Axis.sources ax = Axis.labels ax := by
    intro n ax h
    simp only [Axis.sources, Axis.labels]
    apply List.map_congr_left
    intro e he
    exact (h e he).1.symm
  rw [key hc, key hdd]

/-- a renumbered dataset (`assign_coords(draw = draw + off)` after any selections): the entries move
    with their labels — under (c, d + off) the result has what the dataset before the renumbering had
    under (c, d) -/
theorem C18_pointwise_shifted_entry (g : Axis × Axis) (off c d : Nat) :
    entrySource (resultAxis false g.1, resultAxis false (g.2.map (fun e => (e.1 + off, e.2)))) c (d + off)
      = entrySource g c d := by
  simp only [resultAxis, Bool.false_eq_true, if_false, entrySource, C18_axis_shift_find]

/-! ## the noise realisations of a population-filter posterior: names against the positions that are read

`get_parameter_names` appends, per simulated individual, `<output> Epsilon time <k>` output by output and time by
time; `__call__` reads `parameters[end_bottom:].reshape(n_samples, n_observables, n_times)`.  The name found at the
slot of `ε[s, r, j]` is the one of output `r` and time `j + 1`, for all sizes, and distinct triples have distinct slots
(so the 'Parameter' column of an optimisation table / the variables of a dataset label what the score uses). -/

/-- The name at the slot the posterior reads as `ε[s, r, j]` is `<output r> Epsilon time <j+1>`. -/
theorem C18_filter_epsilon_name_slot (top bottom outputs : List String) (T nSim s r j : Nat)
    (hs : s < nSim) (hr : r < outputs.length) (hj : j < T) :
    (filterNames top bottom (FP.epsilonNames outputs T) nSim)[
        epsSlot top.length bottom.length nSim outputs.length T s r j]?
      = (outputs[r]?).map (fun o => o ++ " Epsilon time " ++ toString (j + 1)) := by
  have hB : (List.replicate nSim bottom).flatten = FP.replicate' nSim bottom := rfl
  have hE : (List.replicate nSim (FP.epsilonNames outputs T)).flatten
      = FP.replicate' nSim (FP.epsilonNames outputs T) := rfl
  have hEl : (FP.epsilonNames outputs T).length = outputs.length * T := FP.epsilonNames_length outputs T
  have hrj : r * T + j < outputs.length * T := by
    have : r * T + T ≤ outputs.length * T := by
      rw [← Nat.succ_mul]; exact Nat.mul_le_mul_right _ hr
    omega
  unfold filterNames epsSlot
  rw [hB, hE, List.getElem?_append_right (by
    simp only [List.length_append, FP.replicate'_length]; omega)]
  simp only [List.length_append, FP.replicate'_length, Nat.add_sub_cancel_left]
  have h := FP.replicate'_getElem? (FP.epsilonNames outputs T) nSim s (r * T + j) hs (by rw [hEl]; exact hrj)
  rw [hEl] at h
  have e : s * (outputs.length * T) + r * T + j = s * (outputs.length * T) + (r * T + j) := by omega
  rw [e, h]
  exact FP.epsilonNames_getElem? T outputs r j hr hj

/-- distinct (individual, output, time) triples are read from distinct positions -/
theorem C18_filter_epsilon_slot_injective (nTop nB nSim R T s r j s' r' j' : Nat)
    (hr : r < R) (hj : j < T) (hr' : r' < R) (hj' : j' < T)
    (h : epsSlot nTop nB nSim R T s r j = epsSlot nTop nB nSim R T s' r' j') :
    s = s' ∧ r = r' ∧ j = j' := by
  unfold epsSlot at h
  have h1 : s * (R * T) + (r * T + j) = s' * (R * T) + (r' * T + j') := by omega
  have hb : r * T + j < R * T := by
    have : r * T + T ≤ R * T := by rw [← Nat.succ_mul]; exact Nat.mul_le_mul_right _ hr
    omega
  have hb' : r' * T + j' < R * T := by
    have : r' * T + T ≤ R * T := by rw [← Nat.succ_mul]; exact Nat.mul_le_mul_right _ hr'
    omega
  have hpos : 0 < R * T := by omega
  have key : ∀ (m a b c d : Nat), 0 < m → b < m → d < m → a * m + b = c * m + d → a = c ∧ b = d := by
    intro m a b c d hm hb hd he
    have h1 := congrArg (· / m) he
    have h2 := congrArg (· % m) he
    simp only [Nat.mul_comm _ m, Nat.mul_add_div hm, Nat.mul_add_mod, Nat.div_eq_of_lt hb,
      Nat.div_eq_of_lt hd, Nat.mod_eq_of_lt hb, Nat.mod_eq_of_lt hd, Nat.add_zero] at h1 h2
    exact ⟨h1, h2⟩
  obtain ⟨hs, hrest⟩ := key (R * T) s (r * T + j) s' (r' * T + j') hpos hb hb' h1
  obtain ⟨hr2, hj2⟩ := key T r j r' j' (by omega) hj hj' hrest
  exact ⟨hs, hr2, hj2⟩

end ChiModel.Inference
