import ChiProofs.Lemmas.C06Aux
import ChiProofs.Props.C05

/-!
# C06 — samplers draw from the distribution their log-likelihood scores

`ChiModel/Samplers.lean` models every sampler as a deterministic transformation of primitive draws
plus the order in which the draws are consumed (tied to chi by exact replay of the primitive
streams in `harness/props/c06.py`). Here the primitives are *ideal*:

* a standard-normal draw has law `gaussianReal 0 1`;
* distinct positions of one generator's stream are independent (`iIndepFun`);
* a `truncnorm(a, ∞)` draw in standard units is a standard normal conditioned on `[a, ∞)`
  (`ProbabilityTheory.cond`);
* `Generator.integers(0, n)` is uniform on `Fin n`.

"The density the log-likelihood scores" is expressed through the model functions of C04 / C02
(`gaussPW`, `cmPW`, `lnPW`, `popLL`), i.e. `volume.withDensity (exp ∘ score)`.

`sqv s` is the variance `s²` as an `ℝ≥0`; `Phi` the standard normal cdf; helper lemmas are in
`ChiProofs/Lemmas/C06Aux.lean`.
-/
set_option linter.unusedSectionVars false
namespace ChiModel
open ScalarFns ProbabilityTheory MeasureTheory Filter Topology
open scoped NNReal ENNReal

/-! ## error models: the law of one entry -/

/-- C06 (Gaussian error model): `ȳ + σ Z ~ N(ȳ, σ²)` -/
theorem C06_gaussian_law (ybar sigma : ℝ) :
    (gaussianReal 0 1).map (gaussDraw sigma ybar) = gaussianReal ybar (sqv sigma) := by
  have : gaussDraw sigma ybar = normalPrim ybar sigma := by
    funext z; simp [gaussDraw, normalPrim]
  rw [this, normalPrim_law]

/-- … and that law has the density `exp (pointwise log-likelihood)` of C04 -/
theorem C06_gaussian_scored (ybar sigma : ℝ) (hs : 0 < sigma) :
    (gaussianReal 0 1).map (gaussDraw sigma ybar)
      = volume.withDensity (fun y => ENNReal.ofReal
          (Real.exp (gaussPW sigma (fun _ => ybar) (fun _ => y) 0))) := by
  rw [C06_gaussian_law]
  exact gaussianReal_eq_withDensity_exp ybar sigma hs.ne' _
    (fun y => C04_gauss_is_logpdf sigma hs (fun _ => ybar) (fun _ => y) 0)

/-- C06 (multiplicative model): `ȳ + ȳ σ_r Z ~ N(ȳ, (σ_r ȳ)²)` -/
theorem C06_multiplicative_law (ybar srel : ℝ) :
    (gaussianReal 0 1).map (multDraw srel ybar) = gaussianReal ybar (sqv (srel * ybar)) := by
  have : multDraw srel ybar = normalPrim ybar (srel * ybar) := by
    funext z; simp [multDraw, normalPrim]; ring
  rw [this, normalPrim_law]

theorem C06_multiplicative_scored (ybar srel : ℝ) (hT : 0 < srel * ybar) :
    (gaussianReal 0 1).map (multDraw srel ybar)
      = volume.withDensity (fun y => ENNReal.ofReal
          (Real.exp (multPW srel (fun _ => ybar) (fun _ => y) 0))) := by
  rw [C06_multiplicative_law]
  exact gaussianReal_eq_withDensity_exp ybar (srel * ybar) hT.ne' _
    (fun y => C04_mult_is_logpdf srel (fun _ => ybar) (fun _ => y) 0 (by simpa [multTot] using hT))

/-- C06 (log-normal model): the sample is `exp` of a Gaussian with mean `log ȳ − σ²/2` -/
theorem C06_lognormal_law (ybar sigma : ℝ) (hy : 0 < ybar) :
    (gaussianReal 0 1).map (lnDraw sigma ybar)
      = (gaussianReal (Real.log ybar - sigma ^ 2 / 2) (sqv sigma)).map Real.exp := by
  rw [lnDraw_eq sigma ybar hy, ← Measure.map_map Real.measurable_exp (measurable_normalPrim _ _),
    normalPrim_law]

/-- … i.e. the logarithm of the sample is Gaussian with that mean and variance `σ²` -/
theorem C06_lognormal_log_law (ybar sigma : ℝ) (hy : 0 < ybar) :
    (gaussianReal 0 1).map (fun z => Real.log (lnDraw sigma ybar z))
      = gaussianReal (Real.log ybar - sigma ^ 2 / 2) (sqv sigma) := by
  have : (fun z => Real.log (lnDraw sigma ybar z))
      = normalPrim (Real.log ybar - sigma ^ 2 / 2) sigma := by
    funext z; rw [lnDraw_eq sigma ybar hy]; simp
  rw [this, normalPrim_law]

/-- … and the law of the sample has the scored density `exp (lnPW)` on `(0, ∞)` -/
theorem C06_lognormal_scored (ybar sigma : ℝ) (hy : 0 < ybar) (hs : 0 < sigma) :
    (gaussianReal 0 1).map (lnDraw sigma ybar)
      = (volume.restrict (Set.Ioi 0)).withDensity (fun y => ENNReal.ofReal
          (Real.exp (lnPW sigma (fun _ => ybar) (fun _ => y) 0))) := by
  rw [C06_lognormal_law ybar sigma hy, map_exp_gaussianReal _ (sqv_ne_zero hs.ne')]
  refine withDensity_congr_ae ?_
  refine (ae_restrict_iff' measurableSet_Ioi).mpr (ae_of_all _ fun y hy' => ?_)
  have hpos : 0 < logNormalPDF (Real.log ybar - sigma ^ 2 / 2) (sqv sigma) y :=
    div_pos (gaussianPDFReal_pos _ _ _ (sqv_ne_zero hs.ne')) hy'
  have key := C04_ln_is_logpdf sigma hs (fun _ => ybar) (fun _ => y) 0 hy'
  beta_reduce at key ⊢
  rw [key]
  change _ = ENNReal.ofReal (Real.exp (Real.log
    (logNormalPDF (Real.log ybar - sigma ^ 2 / 2) (sqv sigma) y)))
  rw [Real.exp_log hpos]

/-! ## constant + multiplicative: the sampled law is NOT the scored law (Appendix A #6) -/

/-- C06 (constant + multiplicative, the law that IS sampled): with two independent ideal draws
    the sample is `N(ȳ, σ_b² + σ_r² ȳ²)` -/
theorem C06_constmult_law {Ω : Type} [MeasurableSpace Ω] {P : Measure Ω} {Z1 Z2 : Ω → ℝ}
    (hind : IndepFun Z1 Z2 P) (h1 : P.map Z1 = gaussianReal 0 1) (h2 : P.map Z2 = gaussianReal 0 1)
    (ybar sb sr : ℝ) :
    P.map (fun ω => cmDraw sb sr ybar (Z1 ω) (Z2 ω))
      = gaussianReal ybar (sqv sb + sqv (sr * ybar)) := by
  have hfun : (fun ω => cmDraw sb sr ybar (Z1 ω) (Z2 ω))
      = (normalPrim ybar sb ∘ Z1) + (normalPrim 0 (sr * ybar) ∘ Z2) := by
    funext ω; simp [cmDraw_eq]
  rw [hfun]
  have := gaussianReal_add_gaussianReal_of_indepFun
    (hind.comp (measurable_normalPrim ybar sb) (measurable_normalPrim 0 (sr * ybar)))
    (by rw [map_comp_of_law h1 (measurable_normalPrim _ _), normalPrim_law])
    (by rw [map_comp_of_law h2 (measurable_normalPrim _ _), normalPrim_law])
  simpa using this

/-- the law the log-likelihood scores: `N(ȳ, (σ_b + σ_r ȳ)²)`, density `exp (cmPW)` -/
theorem C06_constmult_scored_law (ybar sb sr : ℝ) (hT : 0 < sb + sr * ybar) :
    gaussianReal ybar (sqv (sb + sr * ybar))
      = volume.withDensity (fun y => ENNReal.ofReal
          (Real.exp (cmPW sb sr (fun _ => ybar) (fun _ => y) 0))) :=
  gaussianReal_eq_withDensity_exp ybar (sb + sr * ybar) hT.ne' _
    (fun y => C04_cm_is_logpdf sb sr (fun _ => ybar) (fun _ => y) 0 (by simpa [cmTot] using hT))

/-- C06 FAILS for the constant-and-multiplicative error model: whenever `σ_b σ_r ȳ ≠ 0` the sampled
    law differs from the scored law (full statement `sampled = scored` is false) -/
theorem C06_constmult_counterexample (ybar sb sr : ℝ) (h : sb * sr * ybar ≠ 0) :
    gaussianReal ybar (sqv sb + sqv (sr * ybar)) ≠ gaussianReal ybar (sqv (sb + sr * ybar)) := by
  intro heq
  rw [gaussianReal_ext_iff] at heq
  have := congrArg NNReal.toReal heq.2
  simp only [sqv, NNReal.coe_add, NNReal.coe_mk] at this
  apply h
  nlinarith [this]

/-- … and holds exactly on the complement -/
theorem C06_constmult_law_partial (ybar sb sr : ℝ) (h : sb * sr * ybar = 0) :
    gaussianReal ybar (sqv sb + sqv (sr * ybar)) = gaussianReal ybar (sqv (sb + sr * ybar)) := by
  congr 1
  apply NNReal.coe_injective
  simp only [sqv, NNReal.coe_add, NNReal.coe_mk]
  nlinarith [h]

/-- the recorded witness (`known_findings.json`): `σ_b = 1, σ_r = 1/2, ȳ = 2` — sampled variance 2,
    scored variance 4 -/
example : gaussianReal 2 (sqv 1 + sqv ((1/2 : ℝ) * 2)) ≠ gaussianReal 2 (sqv (1 + (1/2 : ℝ) * 2)) :=
  C06_constmult_counterexample 2 1 (1/2) (by norm_num)

/-! ## error models: the whole array (all `n_times`, all `n_samples`) -/

/-- C06: distinct entries of a sample array read distinct positions of the stream; the second block
    of the constant-and-multiplicative model lies entirely behind the first -/
theorem C06_em_positions (nT nS : Nat) :
    Function.Injective (fun js : Fin nT × Fin nS => pos nS js.1 js.2)
    ∧ ∀ (js js' : Fin nT × Fin nS), pos nS js.1 js.2 ≠ nT * nS + pos nS js'.1 js'.2 := by
  constructor
  · rintro ⟨j, s⟩ ⟨j', s'⟩ h
    obtain ⟨h1, h2⟩ := pos_inj s.2 s'.2 h
    exact Prod.ext (Fin.ext h1) (Fin.ext h2)
  · intro js js'
    have := pos_lt js.1.2 js.2.2
    omega

/-- the one-draw transformation of the three models that consume one block -/
noncomputable def emOne (k : EM) (sig : List ℝ) (yb : ℝ) : ℝ → ℝ :=
  match k with
  | .gauss => gaussDraw (sig.getD 0 0) yb
  | .mult => multDraw (sig.getD 0 0) yb
  | .ln => lnDraw (sig.getD 0 0) yb
  | .cm => fun _ => 0

theorem measurable_emOne (k : EM) (sig : List ℝ) (yb : ℝ) : Measurable (emOne k sig yb) := by
  cases k <;> simp only [emOne]
  · exact measurable_gaussDraw _ _
  · exact measurable_multDraw _ _
  · exact measurable_const
  · exact measurable_lnDraw _ _

theorem emEntry_eq_emOne (k : EM) (hk : k ≠ .cm) (sig : List ℝ) (ybar : ℕ → ℝ) (nT nS : ℕ)
    (z : ℕ → ℝ) (j s : ℕ) :
    emEntry k sig ybar nT nS z j s = emOne k sig (ybar j) (z (pos nS j s)) := by
  cases k <;> simp_all [emEntry, emOne]

/-- C06: with an i.i.d. stream, ALL entries of a sample array of the Gaussian, multiplicative and
    log-normal error model are mutually independent (every `n_times`, every `n_samples`) -/
theorem C06_em_independent {Ω : Type} [MeasurableSpace Ω] {P : Measure Ω} (Z : ℕ → Ω → ℝ)
    (hind : iIndepFun Z P) (k : EM) (hk : k ≠ .cm) (sig : List ℝ) (ybar : ℕ → ℝ) (nT nS : ℕ) :
    iIndepFun (fun (js : Fin nT × Fin nS) ω =>
      emEntry k sig ybar nT nS (fun i => Z i ω) js.1 js.2) P := by
  have h1 := hind.precomp (C06_em_positions nT nS).1
  have h2 := h1.comp (fun js : Fin nT × Fin nS => emOne k sig (ybar js.1))
    (fun js => measurable_emOne k sig _)
  refine h2.congr ?_
  intro js
  refine Filter.Eventually.of_forall fun ω => ?_
  simp [emEntry_eq_emOne k hk]

/-- C06: … and entry `(j, s)` has the law of the one-draw transformation at `ȳ_j`
    (`C06_gaussian_law`, `C06_multiplicative_law`, `C06_lognormal_law` identify it) -/
theorem C06_em_entry_law {Ω : Type} [MeasurableSpace Ω] {P : Measure Ω} (Z : ℕ → Ω → ℝ)
    (hlaw : ∀ i, P.map (Z i) = gaussianReal 0 1) (k : EM) (hk : k ≠ .cm) (sig : List ℝ)
    (ybar : ℕ → ℝ) (nT nS j s : ℕ) :
    P.map (fun ω => emEntry k sig ybar nT nS (fun i => Z i ω) j s)
      = (gaussianReal 0 1).map (emOne k sig (ybar j)) := by
  have : (fun ω => emEntry k sig ybar nT nS (fun i => Z i ω) j s)
      = emOne k sig (ybar j) ∘ Z (pos nS j s) := by
    funext ω; simp [emEntry_eq_emOne k hk]
  rw [this, map_comp_of_law (hlaw _) (measurable_emOne k sig _)]

/-- C06 (constant + multiplicative): entry `(j, s)` of the array has the law `N(ȳ_j, σ_b² + σ_r² ȳ_j²)`
    (its two draws sit in different blocks, hence are independent) -/
theorem C06_cm_entry_law {Ω : Type} [MeasurableSpace Ω] {P : Measure Ω} (Z : ℕ → Ω → ℝ)
    (hind : iIndepFun Z P) (hlaw : ∀ i, P.map (Z i) = gaussianReal 0 1) (sig : List ℝ)
    (ybar : ℕ → ℝ) (nT nS : ℕ) (js : Fin nT × Fin nS) :
    P.map (fun ω => emEntry .cm sig ybar nT nS (fun i => Z i ω) js.1 js.2)
      = gaussianReal (ybar js.1) (sqv (sig.getD 0 0) + sqv (sig.getD 1 0 * ybar js.1)) := by
  have hne := (C06_em_positions nT nS).2 js js
  have := C06_constmult_law (hind.indepFun hne) (hlaw _) (hlaw _) (ybar js.1) (sig.getD 0 0)
    (sig.getD 1 0)
  simpa [emEntry] using this

/-- C06 (constant + multiplicative): two different entries are independent, because they read four
    different positions of the stream -/
theorem C06_cm_pairwise_independent {Ω : Type} [MeasurableSpace Ω] {P : Measure Ω} (Z : ℕ → Ω → ℝ)
    (hind : iIndepFun Z P) (hZ : ∀ i, Measurable (Z i)) (sig : List ℝ) (ybar : ℕ → ℝ) (nT nS : ℕ)
    (js js' : Fin nT × Fin nS) (hne : js ≠ js') :
    IndepFun (fun ω => emEntry .cm sig ybar nT nS (fun i => Z i ω) js.1 js.2)
      (fun ω => emEntry .cm sig ybar nT nS (fun i => Z i ω) js'.1 js'.2) P := by
  obtain ⟨hinj, hblk⟩ := C06_em_positions nT nS
  have hp : pos nS js.1 js.2 ≠ pos nS js'.1 js'.2 := fun h => hne (hinj h)
  have h := hind.indepFun_prodMk_prodMk hZ (pos nS js.1 js.2) (nT * nS + pos nS js.1 js.2)
    (pos nS js'.1 js'.2) (nT * nS + pos nS js'.1 js'.2) hp (hblk js js')
    (fun h => hblk js' js h.symm) (by omega)
  have h' := h.comp (measurable_cmDraw (sig.getD 0 0) (sig.getD 1 0) (ybar js.1))
    (measurable_cmDraw (sig.getD 0 0) (sig.getD 1 0) (ybar js'.1))
  simpa [emEntry, Function.comp_def] using h'

/-- C06: shape of the returned array — `len(model_output)` rows of `n_samples` (default 1) entries -/
theorem C06_em_shape (k : EM) (sig ybar : List ℝ) (n : Option Nat) (z : ℕ → ℝ)
    (rows : List (List ℝ)) (h : emSample k sig ybar n z = .ok rows) :
    rows.length = ybar.length ∧ ∀ row ∈ rows, row.length = n.getD 1 := by
  unfold emSample at h
  split at h
  · cases h
  · injection h with h
    subst h
    simp [nSamplesOf]

/-! ## reduced models: fixed values are substituted, then the wrapped sampler runs -/

/-- C06 (`ReducedErrorModel` / `ReducedPopulationModel`): the vector handed to the wrapped sampler
    has the fixed value at every fixed position and the free values, in order, elsewhere -/
theorem C06_reduced_fill (mask : List Bool) : ∀ (values free : List ℝ),
    values.length = mask.length → free.length = mask.count false →
    (fillMask mask values free).length = mask.length
    ∧ ∀ i (hi : i < mask.length),
        (fillMask mask values free)[i]? =
          if mask[i] then values[i]? else free[(mask.take i).count false]? := by
  induction mask with
  | nil => intro values free _ _; simp [fillMask]
  | cons b ms ih =>
    intro values free hv hf
    cases b with
    | true =>
      cases values with
      | nil => simp at hv
      | cons v vs =>
        have hv' : vs.length = ms.length := by simpa using hv
        have hf' : free.length = ms.count false := by simpa using hf
        obtain ⟨hl, hi⟩ := ih vs free hv' hf'
        refine ⟨by simp [fillMask, hl], ?_⟩
        intro i hi'
        cases i with
        | zero => simp [fillMask]
        | succ i =>
          have := hi i (by simpa using hi')
          simpa [fillMask] using this
    | false =>
      cases free with
      | nil => simp at hf
      | cons f fr =>
        have hv' : values.tail.length = ms.length := by simp [hv]
        have hf' : fr.length = ms.count false := by simpa using hf
        obtain ⟨hl, hi⟩ := ih values.tail fr hv' hf'
        refine ⟨by simp [fillMask, hl], ?_⟩
        intro i hi'
        cases i with
        | zero => simp [fillMask]
        | succ i =>
          have := hi i (by simpa using hi')
          cases values with
          | nil => simp at hv
          | cons v vs => simpa [fillMask] using this

/-- writing the free parameters of a later call overwrites those of an earlier one completely -/
theorem C06_fillMask_overwrite (mask : List Bool) : ∀ (values f1 f2 : List ℝ),
    fillMask mask (fillMask mask values f1) f2 = fillMask mask values f2 := by
  induction mask with
  | nil => intro values f1 f2; simp [fillMask]
  | cons b ms ih =>
    intro values f1 f2
    cases b with
    | true =>
      cases values with
      | nil => simp [fillMask, ih]
      | cons v vs => simp [fillMask, ih]
    | false =>
      cases f1 with
      | nil => cases f2 <;> simp [fillMask, ih]
      | cons g gs => cases f2 <;> simp [fillMask, ih]

/-- C06 (`ReducedPopulationModel` / `ReducedErrorModel`, call histories): whatever calls were made on the
    same reduced model before — any number, with any free parameters — the wrapped model receives the fixed
    values and the free parameters of the CURRENT call: `compute_individual_parameters(θ', η)` after
    `sample(θ)` transforms with `θ'`, so the transformed samples follow the density at the current
    parameters (`C06_pop_noncentred_law` at `fillMask mask values θ'`) -/
theorem C06_reduced_history_free (mask : List Bool) (hist : List (List ℝ)) :
    ∀ (values free : List ℝ), reducedCall mask values hist free = fillMask mask values free := by
  induction hist with
  | nil => intro values free; rfl
  | cons f hist ih =>
    intro values free
    have := ih (fillMask mask values f) free
    simp only [reducedCall, reducedBuffer] at this ⊢
    rw [this, C06_fillMask_overwrite]

/-- the fixed positions of the buffer are never changed by a call -/
theorem C06_reduced_history_buffer_fixed (mask : List Bool) (hist : List (List ℝ)) (values : List ℝ)
    (hv : values.length = mask.length) (hh : ∀ f ∈ hist, f.length = mask.count false)
    (i : Nat) (hi : i < mask.length) (hm : mask[i] = true) :
    (reducedBuffer mask values hist)[i]? = values[i]? := by
  induction hist generalizing values with
  | nil => rfl
  | cons f hist ih =>
    have hf : f.length = mask.count false := hh f (by simp)
    obtain ⟨hl, hfill⟩ := C06_reduced_fill mask values f hv hf
    have h1 := ih (fillMask mask values f) hl (fun g hg => hh g (by simp [hg]))
    simp only [reducedBuffer]
    rw [h1, hfill i hi, if_pos hm]

/-- a reduced model that copies its buffer before writing the current free parameters uses the previous
    call's parameters: std fixed to 0.5, `sample([2])` then a transform at mean 5 works with mean 2 -/
theorem C06_reduced_stale_counterexample :
    reducedCallStale [false, true] [0, (1 / 2 : ℝ)] [[2]] [5] = [2, 1 / 2]
    ∧ reducedCall [false, true] [0, (1 / 2 : ℝ)] [[2]] [5] = [5, 1 / 2] := by
  constructor <;> simp [reducedCallStale, reducedCall, reducedBuffer, fillMask]

/-! ## elementary population models -/

/-- the transformation of one float primitive by the elementary samplers -/
noncomputable def popOne (k : Kind) (mu sigma : ℝ) : ℝ → ℝ :=
  match k with
  | .gauss true => normalPrim mu sigma
  | .gauss false => normalPrim 0 1
  | .logn true => lognormalPrim mu sigma
  | .logn false => normalPrim 0 1
  | .trunc => fun t => mu + sigma * t
  | _ => fun _ => 0

/-- C06: an entry of a Gaussian / log-normal / truncated-Gaussian sample is `popOne` of ITS OWN
    position `r * n_dim + d` of the sub-model's request, with the parameters of dimension `d` -/
theorem C06_elem_entry (k : Kind) (hk : k ≠ .pooled ∧ k ≠ .hetero) (nDim : Nat)
    (th : Nat → Nat → ℝ) (fs : List (Ful ℝ)) (q r d : Nat) :
    elemEntry k nDim th fs q r d = popOne k (th 0 d) (th 1 d) (flAt fs q (pos nDim r d)) := by
  rcases k with c | c | _ | _ | _
  · cases c <;> simp [elemEntry, popOne, pos]
  · cases c <;> simp [elemEntry, popOne, pos]
  · simp [elemEntry, popOne, pos]
  · exact absurd rfl hk.1
  · exact absurd rfl hk.2

/-- C06 (GaussianModel, centred): the sample is `N(μ, σ²)` -/
theorem C06_pop_gaussian_law (mu sigma : ℝ) :
    (gaussianReal 0 1).map (popOne (.gauss true) mu sigma) = gaussianReal mu (sqv sigma) :=
  normalPrim_law mu sigma

/-- C06 (LogNormalModel, centred): the sample has the log-normal density with parameters
    `(μ_log, σ_log)` on `(0, ∞)` -/
theorem C06_pop_lognormal_law (mu sigma : ℝ) (hs : sigma ≠ 0) :
    (gaussianReal 0 1).map (popOne (.logn true) mu sigma)
      = (volume.restrict (Set.Ioi 0)).withDensity
          (fun y => ENNReal.ofReal (logNormalPDF mu (sqv sigma) y)) :=
  lognormalPrim_law mu sigma hs

/-- C06 (non-centred models): `sample` returns `η ~ N(0, 1)` — the density the non-centred
    log-likelihood scores — and the model's own transform `ψ = μ + σ η` resp. `exp (μ + σ η)` has the
    law of the centred model with the same parameters -/
theorem C06_pop_noncentred_law (mu sigma : ℝ) (hs : sigma ≠ 0) (c : Bool) :
    (gaussianReal 0 1).map (popOne (if c then .gauss false else .logn false) mu sigma)
        = gaussianReal 0 1
    ∧ (gaussianReal 0 1).map (fun z => mu + sigma * popOne (.gauss false) mu sigma z)
        = gaussianReal mu (sqv sigma)
    ∧ (gaussianReal 0 1).map (fun z => Real.exp (mu + sigma * popOne (.logn false) mu sigma z))
        = (volume.restrict (Set.Ioi 0)).withDensity
            (fun y => ENNReal.ofReal (logNormalPDF mu (sqv sigma) y)) := by
  have hid : normalPrim (0:ℝ) 1 = id := by funext z; simp [normalPrim]
  refine ⟨?_, ?_, ?_⟩
  · cases c <;> (simp only [popOne, Bool.false_eq_true, if_true, if_false]; rw [hid, Measure.map_id])
  · have : (fun z => mu + sigma * popOne (.gauss false) mu sigma z) = normalPrim mu sigma := by
      funext z; simp [popOne, normalPrim]
    rw [this, normalPrim_law]
  · have : (fun z => Real.exp (mu + sigma * popOne (.logn false) mu sigma z))
        = lognormalPrim mu sigma := by
      funext z; simp [popOne, hid, lognormalPrim]
    rw [this, lognormalPrim_law mu sigma hs]

/-- `compute_individual_parameters` of the non-centred models IS that transform (all `n_ids`,
    `n_dim`), and the identity for every other kind -/
theorem C06_indiv_transform (k : Kind) (nIds nDim : Nat) (th : Nat → Nat → Nat → ℝ)
    (eta : Nat → Nat → ℝ) (i d : Nat) (hpos : ∀ i d, 0 ≤ th i 1 d) :
    indiv false k nIds nDim th eta i d =
      match k with
      | .gauss false => .val (th i 0 d + th i 1 d * eta i d)
      | .logn false => .val (Real.exp (th i 0 d + th i 1 d * eta i d))
      | .pooled => .val (th i 0 d)
      | .hetero => .val (th i i d)
      | _ => .val (eta i d) := by
  have hno : iany2 nIds nDim (fun i d => decide (th i 1 d < 0)) = false := by
    rw [Bool.eq_false_iff]
    intro h
    simp only [iany2, iany, List.any_eq_true, List.mem_range, decide_eq_true_eq] at h
    obtain ⟨i, _, d, _, hlt⟩ := h
    exact absurd hlt (not_lt.mpr (hpos i d))
  rcases k with c | c | _ | _ | _
  · cases c <;> simp [indiv, hno]
  · cases c <;> simp [indiv, hno]
  all_goals simp [indiv]

section scored

/-- parameters of a one-dimensional model in the form `th i p d` the C02 / C05 model takes -/
def th1 (mu sigma : ℝ) : Nat → Nat → Nat → ℝ := fun _ p _ => if p = 0 then mu else sigma

/-- C06: the score (`compute_log_likelihood`, model `popLL`) of one value is the logarithm of the
    density of the sampled law — centred Gaussian -/
theorem C06_pop_gaussian_scored (mu sigma x : ℝ) (hs : 0 < sigma) :
    popLL (.gauss true) 1 1 (th1 mu sigma) (fun _ _ => x)
      = .val (Real.log (gaussianPDFReal mu (sqv sigma) x)) := by
  have : ¬ sigma ≤ 0 := not_le.mpr hs
  simp only [popLL, iany2, iany, isum2, isum_eq, th1]
  simp [this, sqv, log_gaussianPDFReal mu sigma x hs]
  rw [Real.log_mul (by positivity) (by positivity), Real.log_mul hs.ne' hs.ne']
  ring

/-- … non-centred models score `η` with the standard normal density -/
theorem C06_pop_noncentred_scored (mu sigma x : ℝ) (k : Kind)
    (hk : k = .gauss false ∨ k = .logn false) :
    popLL k 1 1 (th1 mu sigma) (fun _ _ => x) = .val (Real.log (gaussianPDFReal 0 1 x)) := by
  have h := log_gaussianPDFReal 0 1 x one_pos
  have h1 : NNReal.mk ((1:ℝ) ^ 2) (sq_nonneg _) = 1 := sqv_one
  rw [h1] at h
  rcases hk with rfl | rfl <;>
  · simp only [popLL, stdNormalLL, isum2, isum_eq]
    simp [h]
    ring

/-- … centred log-normal -/
theorem C06_pop_lognormal_scored (mu sigma x : ℝ) (hs : 0 < sigma) (hx : 0 < x) :
    popLL (.logn true) 1 1 (th1 mu sigma) (fun _ _ => x)
      = .val (Real.log (logNormalPDF mu (sqv sigma) x)) := by
  have h1 : ¬ sigma ≤ 0 := not_le.mpr hs
  have h2 : ¬ x ≤ 0 := not_le.mpr hx
  unfold logNormalPDF
  rw [Real.log_div (gaussianPDFReal_pos _ _ _ (sqv_ne_zero hs.ne')).ne' hx.ne']
  simp only [popLL, iany2, iany, isum2, isum_eq, th1]
  simp [h1, h2, sqv, log_gaussianPDFReal mu sigma _ hs]
  rw [Real.log_mul (by positivity) (by positivity), Real.log_mul hs.ne' hs.ne']
  ring

/-- … truncated Gaussian: log of the documented density on `[0, ∞)`, `-inf` below 0 (full statement:
    the model's `normCdf`, computed from `erf`, IS the standard normal cdf — `normCdf_real`) -/
theorem C06_truncGauss_scored (mu sigma x : ℝ) (hs : 0 < sigma) :
    (0 ≤ x → popLL .trunc 1 1 (th1 mu sigma) (fun _ _ => x)
      = .val (Real.log (c06TruncGaussPDF mu sigma x)))
    ∧ (x < 0 → popLL .trunc 1 1 (th1 mu sigma) (fun _ _ => x) = .negInf) := by
  constructor
  · intro hx
    have h1 : ¬ sigma ≤ 0 := not_le.mpr hs
    have h2 : ¬ x < 0 := not_lt.mpr hx
    have hc := one_sub_Phi_pos (-mu / sigma)
    unfold c06TruncGaussPDF
    rw [Real.log_div (gaussianPDFReal_pos _ _ _ (sqv_ne_zero hs.ne')).ne' hc.ne']
    simp only [popLL, iany2, iany, isum2, isum_eq, th1]
    simp [h1, h2, sqv, log_gaussianPDFReal mu sigma _ hs, normCdf_real]
    rw [Real.log_mul (by positivity) (by positivity), Real.log_mul hs.ne' hs.ne']
    ring
  · intro hx
    simp [popLL, iany2, iany, th1, hx]

/-- C06 (PooledModel): the score is `0` exactly at the pooled value and `-inf` elsewhere, i.e. the
    scored law is the point mass … -/
theorem C06_pooled_scored (theta x : ℝ) :
    popLL .pooled 1 1 (fun _ _ _ => theta) (fun _ _ => x)
      = if x = theta then .val 0 else .negInf := by
  by_cases h : x = theta
  · simp [popLL, iany2, iany, h]
  · have h' : ¬ theta = x := fun hh => h hh.symm
    simp [popLL, iany2, iany, h, h']

end scored

/-- … and every sampled entry IS that value, whatever the generator produces: the sampled law is
    the Dirac measure at `θ_d`, for every number of samples -/
theorem C06_pooled_law {Ω : Type} [MeasurableSpace Ω] (P : Measure Ω) [IsProbabilityMeasure P]
    (nDim : Nat) (th : Nat → Nat → ℝ) (fs : Ω → List (Ful ℝ)) (q r d : Nat) :
    P.map (fun ω => elemEntry .pooled nDim th (fs ω) q r d) = Measure.dirac (th 0 d) := by
  simp only [elemEntry]
  rw [Measure.map_const]
  simp

/-- C06 (HeterogeneousModel): a row drawn with a uniform index is the empirical law of the
    individuals' values `(1/n) Σ_i δ_{θ_i}` — every sampled row is one of the individuals the
    point-mass log-likelihood scores, each with probability `1/n` -/
theorem C06_hetero_law {Ω : Type} [MeasurableSpace Ω] {P : Measure Ω} {n : ℕ} (hn : 0 < n)
    (K : Ω → Fin n) (hK : P.map K = ∑ i : Fin n, ((n : ℝ≥0∞)⁻¹) • Measure.dirac i)
    (theta : Fin n → ℝ) :
    P.map (fun ω => theta (K ω)) = ∑ i : Fin n, ((n : ℝ≥0∞)⁻¹) • Measure.dirac (theta i) := by
  have hm : AEMeasurable K P := by
    apply AEMeasurable.of_map_ne_zero
    rw [hK]
    intro h0
    have := congrArg (fun μ => μ Set.univ) h0
    simp [hn.ne'] at this
  have hθ : Measurable theta := measurable_of_countable _
  have : (fun ω => theta (K ω)) = theta ∘ K := rfl
  rw [this, ← AEMeasurable.map_map_of_aemeasurable hθ.aemeasurable hm, hK]
  ext s hs
  rw [Measure.map_apply hθ hs]
  simp only [Measure.coe_finsetSum, Finset.sum_apply, Measure.smul_apply, smul_eq_mul]
  refine Finset.sum_congr rfl fun i _ => ?_
  rw [Measure.dirac_apply' _ hs, Measure.dirac_apply' _ (hθ hs)]
  rfl

/-! ## truncated Gaussian -/

/-- C06 (TruncatedGaussianModel, as repaired): `μ + σ T` with `T` a standard normal conditioned on
    `[-μ/σ, ∞)` is the Gaussian `N(μ, σ²)` conditioned on `[0, ∞)` -/
theorem C06_truncGauss_law (mu sigma : ℝ) (hs : 0 < sigma) :
    (cond (gaussianReal 0 1) (Set.Ici (-mu / sigma))).map (popOne .trunc mu sigma)
      = cond (gaussianReal mu (sqv sigma)) (Set.Ici 0) := by
  have h := map_cond_preimage (μ := gaussianReal 0 1) (measurable_normalPrim mu sigma)
    (measurableSet_Ici (a := (0:ℝ)))
  rw [preimage_normalPrim_Ici mu sigma 0 hs, normalPrim_law] at h
  rw [zero_sub] at h
  exact h

/-- the truncation point the sampler requests from `truncnorm` is `-μ_d/σ_d` for every dimension -/
theorem C06_truncGauss_request (nIds nDim rows : Nat) (th : Nat → Nat → ℝ) (fromGen : Bool) :
    elemPlan .trunc nIds nDim rows th fromGen
      = [.trunc fromGen ((List.range nDim).map fun d => -(th 0 d) / th 1 d) rows] := rfl

/-- C06: the Gaussian conditioned on `[0, ∞)` has the documented density
    `pdf / (1 - Φ(-μ/σ))` on `[0, ∞)` (the density `C06_truncGauss_scored` links to the score) -/
theorem C06_truncGauss_density (mu sigma : ℝ) (hs : 0 < sigma) :
    cond (gaussianReal mu (sqv sigma)) (Set.Ici 0)
      = (volume.restrict (Set.Ici 0)).withDensity
          (fun x => ENNReal.ofReal (c06TruncGaussPDF mu sigma x)) := by
  have hv := sqv_ne_zero hs.ne'
  have hpos := one_sub_Phi_pos (-mu / sigma)
  unfold ProbabilityTheory.cond c06TruncGaussPDF
  rw [gaussianReal_Ici_zero mu sigma hs, gaussianReal_of_var_ne_zero _ hv,
    restrict_withDensity measurableSet_Ici]
  generalize 1 - Phi (-mu / sigma) = c at hpos
  rw [← withDensity_smul' _ _ (by simp [hpos])]
  congr 1
  funext x
  simp only [Pi.smul_apply, smul_eq_mul, gaussianPDF]
  rw [div_eq_inv_mul, ENNReal.ofReal_mul (inv_nonneg.mpr hpos.le), ENNReal.ofReal_inv_of_pos hpos]

/-- C06 FAILED for the legacy sampler `truncnorm(a = 0, …)` (Appendix A #7, repaired by 432ae8f):
    for `μ > 0` it never produces a value in `[0, μ)`, to which the scored law gives positive
    probability -/
theorem C06_truncGauss_support_counterexample (mu sigma : ℝ) (hm : 0 < mu) (hs : 0 < sigma) :
    (cond (gaussianReal 0 1) (Set.Ici 0)).map (fun t => mu + sigma * t) (Set.Ico 0 mu) = 0
    ∧ 0 < cond (gaussianReal mu (sqv sigma)) (Set.Ici 0) (Set.Ico 0 mu) := by
  have hv := sqv_ne_zero hs.ne'
  constructor
  · rw [truncGauss_legacy_law mu sigma hs, cond_apply measurableSet_Ici]
    have : Set.Ici mu ∩ Set.Ico 0 mu = ∅ := by
      ext x; simp only [Set.mem_inter_iff, Set.mem_Ici, Set.mem_Ico, Set.mem_empty_iff_false,
        iff_false]; intro h; linarith [h.1, h.2.2]
    simp [this]
  · rw [cond_apply measurableSet_Ici]
    have hsub : Set.Ici (0:ℝ) ∩ Set.Ico 0 mu = Set.Ico 0 mu := by
      ext x; simp only [Set.mem_inter_iff, Set.mem_Ici, Set.mem_Ico]; tauto
    rw [hsub]
    have hpos : 0 < gaussianReal mu (sqv sigma) (Set.Ico 0 mu) := by
      by_contra h
      have h0 : gaussianReal mu (sqv sigma) (Set.Ico 0 mu) = 0 := le_antisymm (not_lt.mp h) bot_le
      have := gaussianReal_absolutelyContinuous' mu hv h0
      simp [Real.volume_Ico] at this
      linarith
    refine ENNReal.mul_pos ?_ hpos.ne'
    simp [measure_ne_top]

/-! ## composed and covariate models: one generator threaded through -/

section composed
variable {α : Type} [Add α] [Sub α] [Mul α] [Div α] [Neg α] [ScalarFns α]

def smpDimOff (subs : List SubModel) (k : Nat) : Nat := ((subs.take k).map (·.nDim)).sum
def reqOff (nS : Nat) (subs : List SubModel) (k : Nat) : Nat := ((subs.take k).map (·.nReq nS)).sum
def parOff (nIds : Nat) (subs : List SubModel) (k : Nat) : Nat := ((subs.take k).map (·.nTop nIds)).sum
def smpCovOff (subs : List SubModel) (k : Nat) : Nat := ((subs.take k).map (·.nCov)).sum

theorem composedEntry_block (nIds nS : Nat) (params : Nat → α) (cov : Nat → Nat → α)
    (fs : List (Ful α)) (subs : List SubModel) :
    ∀ (k : Nat) (hk : k < subs.length) (pOff cOff dOff qOff r d : Nat), d < (subs[k]).nDim →
      composedEntry nIds nS params cov fs subs pOff cOff dOff qOff r (dOff + smpDimOff subs k + d)
        = (subs[k]).entry (subTh subs[k] nIds params cov (pOff + parOff nIds subs k)
            (cOff + smpCovOff subs k)) fs (qOff + reqOff nS subs k) r d := by
  induction subs with
  | nil => intro k hk; simp at hk
  | cons s ss ih =>
    intro k hk pOff cOff dOff qOff r d hd
    cases k with
    | zero =>
      simp only [List.getElem_cons_zero] at hd ⊢
      simp [composedEntry, smpDimOff, reqOff, parOff, smpCovOff, hd]
    | succ k =>
      simp only [List.getElem_cons_succ] at hd ⊢
      have hk' : k < ss.length := by simpa using hk
      have := ih k hk' (pOff + s.nTop nIds) (cOff + s.nCov) (dOff + s.nDim) (qOff + s.nReq nS) r d hd
      have hnot : ¬ (dOff + smpDimOff (s :: ss) (k + 1) + d < dOff + s.nDim) := by
        simp [smpDimOff]; omega
      rw [composedEntry, if_neg hnot]
      simp only [smpDimOff, reqOff, parOff, smpCovOff, List.take_succ_cons, List.map_cons, List.sum_cons] at this ⊢
      simp only [Nat.add_assoc] at this ⊢
      exact this

/-- C06 (composed): the block of columns of the `k`-th sub-model is that sub-model's own sampler
    on its own slice of parameters and covariates, reading the requests that start at `reqOff k`
    (every number and order of sub-models, every `n_dim`) -/
theorem C06_composed_entry (nIds nS : Nat) (params : Nat → α) (cov : Nat → Nat → α)
    (fs : List (Ful α)) (subs : List SubModel) (k : Nat) (hk : k < subs.length) (r d : Nat)
    (hd : d < (subs[k]).nDim) :
    composedEntry nIds nS params cov fs subs 0 0 0 0 r (smpDimOff subs k + d)
      = (subs[k]).entry (subTh subs[k] nIds params cov (parOff nIds subs k) (smpCovOff subs k))
          fs (reqOff nS subs k) r d := by
  simpa using composedEntry_block nIds nS params cov fs subs k hk 0 0 0 0 r d hd

theorem elemPlan_length (k : Kind) (nIds nDim rows : Nat) (th : Nat → Nat → α) (fromGen : Bool) :
    (elemPlan k nIds nDim rows th fromGen).length = k.nReq := by
  cases k <;> simp [elemPlan, Kind.nReq]

/-- C06: a sub-model issues exactly `nReq` requests (a covariate model: one per row) -/
theorem C06_plan_length (s : SubModel) (nIds nS : Nat) (th : Nat → Nat → Nat → α) (fromGen : Bool) :
    (s.plan nIds nS th fromGen).length = s.nReq nS := by
  unfold SubModel.plan SubModel.nReq
  split
  · exact elemPlan_length _ _ _ _ _ _
  · simp [List.length_flatMap, elemPlan_length]

theorem drop_add_append {β : Type} {l₁ l₂ : List β} {n : Nat} (h : l₁.length = n) (m : Nat) :
    (l₁ ++ l₂).drop (n + m) = l₂.drop m := by
  subst h
  simp [List.drop_append]

/-- C06 (composed): the requests of sub-model `k` are the segment `[reqOff k, reqOff k + nReq k)` of
    the ONE stream of requests, and that segment is exactly the sub-model's own plan -/
theorem C06_composed_plan_block (nIds nS : Nat) (params : Nat → α) (cov : Nat → Nat → α)
    (fromGen : Bool) (subs : List SubModel) :
    ∀ (k : Nat) (hk : k < subs.length) (pOff cOff : Nat),
      ((composedPlan nIds nS params cov fromGen subs pOff cOff).drop (reqOff nS subs k)).take
          ((subs[k]).nReq nS)
        = (subs[k]).plan nIds nS (subTh subs[k] nIds params cov (pOff + parOff nIds subs k)
            (cOff + smpCovOff subs k)) fromGen := by
  induction subs with
  | nil => intro k hk; simp at hk
  | cons s ss ih =>
    intro k hk pOff cOff
    cases k with
    | zero =>
      simp only [List.getElem_cons_zero, composedPlan, reqOff, parOff, smpCovOff, List.take_zero,
        List.map_nil, List.sum_nil, List.drop_zero, Nat.add_zero]
      rw [List.take_append_of_le_length (by rw [C06_plan_length]), List.take_of_length_le
        (by rw [C06_plan_length])]
    | succ k =>
      have hk' : k < ss.length := by simpa using hk
      have := ih k hk' (pOff + s.nTop nIds) (cOff + s.nCov)
      simp only [List.getElem_cons_succ, composedPlan, reqOff, parOff, smpCovOff, List.take_succ_cons,
        List.map_cons, List.sum_cons] at this ⊢
      rw [drop_add_append (C06_plan_length s nIds nS _ fromGen)]
      simp only [Nat.add_assoc] at this ⊢
      exact this

theorem reqOff_succ (nS : Nat) (subs : List SubModel) (k : Nat) (hk : k < subs.length) :
    reqOff nS subs (k + 1) = reqOff nS subs k + (subs[k]).nReq nS := by
  unfold reqOff
  rw [List.take_add_one, List.getElem?_eq_getElem hk]
  simp only [Option.toList_some, List.map_append, List.sum_append, List.map_cons, List.map_nil,
    List.sum_cons, List.sum_nil, Nat.add_zero]

theorem reqOff_mono (nS : Nat) (subs : List SubModel) (k k' : Nat) (h : k ≤ k') :
    reqOff nS subs k ≤ reqOff nS subs k' := by
  induction k' with
  | zero => simp_all
  | succ m ih =>
    rcases Nat.lt_or_ge k (m + 1) with hlt | hge
    · have := ih (by omega)
      by_cases hm : m < subs.length
      · rw [reqOff_succ nS subs m hm]; omega
      · have : reqOff nS subs (m + 1) = reqOff nS subs m := by
          simp [reqOff, List.take_of_length_le (by omega : subs.length ≤ m),
            List.take_of_length_le (by omega : subs.length ≤ m + 1)]
        omega
    · have : k = m + 1 := by omega
      subst this; exact le_refl _

/-- C06 (composed): different sub-models read disjoint segments of the request stream -/
theorem C06_composed_requests_disjoint (nS : Nat) (subs : List SubModel) (k k' : Nat)
    (hk : k < subs.length) (hk' : k' < subs.length) (hne : k ≠ k') (i i' : Nat)
    (hi : i < (subs[k]).nReq nS) (hi' : i' < (subs[k']).nReq nS) :
    reqOff nS subs k + i ≠ reqOff nS subs k' + i' := by
  rcases Nat.lt_or_gt_of_ne hne with h | h
  · have := reqOff_mono nS subs (k + 1) k' h
    rw [reqOff_succ nS subs k hk] at this
    omega
  · have := reqOff_mono nS subs (k' + 1) k h
    rw [reqOff_succ nS subs k' hk'] at this
    omega

theorem elemEntry_congr (k : Kind) (nDim : Nat) (th : Nat → Nat → α) (fs fs' : List (Ful α))
    (q r d : Nat) (h : fs[q]? = fs'[q]?) :
    elemEntry k nDim th fs q r d = elemEntry k nDim th fs' q r d := by
  cases k <;> simp [elemEntry, flAt, ixAt, h]

/-- C06: an entry of a sub-model's block depends on the fulfilled requests only through the
    sub-model's own segment (so, with `C06_composed_requests_disjoint`, blocks of different
    sub-models are functions of disjoint parts of the stream) -/
theorem C06_entry_reads_own_requests (s : SubModel) (nS : Nat) (th : Nat → Nat → Nat → α)
    (fs fs' : List (Ful α)) (off r d : Nat) (hr : r < nS)
    (h : ∀ i, i < s.nReq nS → fs[off + i]? = fs'[off + i]?) :
    s.entry th fs off r d = s.entry th fs' off r d := by
  unfold SubModel.entry
  unfold SubModel.nReq at h
  split
  · rename_i hc
    simp only [hc, if_true] at h
    cases hk : s.kind <;> simp only [hk, Kind.nReq] at h ⊢
    all_goals first
      | exact elemEntry_congr _ _ _ _ _ _ _ _ (by simpa using h 0 (by omega))
      | simp [elemEntry]
  · rename_i hc
    simp only [hc, if_false] at h
    cases hk : s.kind <;> simp only [hk, Kind.nReq] at h ⊢
    all_goals first
      | exact elemEntry_congr _ _ _ _ _ _ _ _ (by simpa using h (r * 1) (by omega))
      | simp [elemEntry]

/-- C06 (covariate model): row `r` is ONE draw (`n_samples = 1`: row 0 of its own request
    `off + r`) of the wrapped model at the covariate-shifted parameters `th r` of that row;
    different rows read different requests -/
theorem C06_covariate_row (s : SubModel) (hc : s.nCov ≠ 0) (th : Nat → Nat → Nat → α)
    (fs : List (Ful α)) (off r d : Nat) :
    s.entry th fs off r d = elemEntry s.kind s.nDim (th r) fs (off + r * s.kind.nReq) 0 d
    ∧ ∀ r', s.kind.nReq = 1 → r ≠ r' → off + r * s.kind.nReq ≠ off + r' * s.kind.nReq := by
  refine ⟨by simp [SubModel.entry, hc], ?_⟩
  intro r' h1 hne
  rw [h1]; omega

end composed

/-- C06 (composed, probabilistic form): functions of different requests of an independent family
    of requests are independent — with `C06_composed_entry`, `C06_composed_requests_disjoint` and
    `C06_entry_reads_own_requests` this is "independently across sub-models" -/
theorem C06_composed_independent {Ω β γ γ' : Type} [MeasurableSpace Ω] [MeasurableSpace β]
    [MeasurableSpace γ] [MeasurableSpace γ'] {P : Measure Ω} (F : ℕ → Ω → β) (hind : iIndepFun F P)
    (q q' : ℕ) (hq : q ≠ q') (g : β → γ) (g' : β → γ') (hg : Measurable g) (hg' : Measurable g') :
    IndepFun (g ∘ F q) (g' ∘ F q') P :=
  (hind.indepFun hq).comp hg hg'

/-- C06: all entries of ONE elementary Gaussian / log-normal block (centred or not) are mutually
    independent and entry `(r, d)` has the law of `popOne` with the parameters of dimension `d`:
    the sample is the product law over samples and dimensions -/
theorem C06_pop_block_law {Ω : Type} [MeasurableSpace Ω] {P : Measure Ω} (Z : ℕ → Ω → ℝ)
    (hind : iIndepFun Z P) (hlaw : ∀ i, P.map (Z i) = gaussianReal 0 1) (k : Kind)
    (hk : k ≠ .pooled ∧ k ≠ .hetero) (nS nDim : Nat) (th : Nat → Nat → ℝ) (q : Nat)
    (fs : Ω → List (Ful ℝ)) (hfs : ∀ ω i, flAt (fs ω) q i = Z i ω) :
    iIndepFun (fun (rd : Fin nS × Fin nDim) ω => elemEntry k nDim th (fs ω) q rd.1 rd.2) P
    ∧ ∀ rd : Fin nS × Fin nDim,
        P.map (fun ω => elemEntry k nDim th (fs ω) q rd.1 rd.2)
          = (gaussianReal 0 1).map (popOne k (th 0 rd.2) (th 1 rd.2)) := by
  have hmeas : ∀ mu sigma, Measurable (popOne k mu sigma) := by
    intro mu sigma
    rcases k with c | c | _ | _ | _
    · cases c <;> exact measurable_normalPrim _ _
    · cases c
      · exact measurable_normalPrim _ _
      · exact Real.measurable_exp.comp (measurable_normalPrim _ _)
    · exact measurable_normalPrim mu sigma
    · exact measurable_const
    · exact measurable_const
  constructor
  · have h1 := hind.precomp (C06_em_positions nS nDim).1
    have h2 := h1.comp (fun rd : Fin nS × Fin nDim => popOne k (th 0 rd.2) (th 1 rd.2))
      (fun rd => hmeas _ _)
    refine h2.congr ?_
    intro rd
    refine Filter.Eventually.of_forall fun ω => ?_
    simp [C06_elem_entry k hk, hfs]
  · intro rd
    have : (fun ω => elemEntry k nDim th (fs ω) q rd.1 rd.2)
        = popOne k (th 0 rd.2) (th 1 rd.2) ∘ Z (pos nDim rd.1 rd.2) := by
      funext ω; simp [C06_elem_entry k hk, hfs]
    rw [this, map_comp_of_law (hlaw _) (hmeas _ _)]

/-! ## covariate rows and independence across sub-models, probabilistic form -/

theorem measurable_popOne (k : Kind) (mu sigma : ℝ) : Measurable (popOne k mu sigma) := by
  rcases k with c | c | _ | _ | _
  · cases c <;> exact measurable_normalPrim _ _
  · cases c
    · exact measurable_normalPrim _ _
    · exact Real.measurable_exp.comp (measurable_normalPrim _ _)
  · exact measurable_normalPrim mu sigma
  · exact measurable_const
  · exact measurable_const

/-- the request a sub-model's entry `(r, ·)` reads, the row whose parameters it uses, and the
    position inside the request -/
def SubModel.reqIdx (s : SubModel) (off r : Nat) : Nat := if s.nCov = 0 then off else off + r
def SubModel.parRow (s : SubModel) (r : Nat) : Nat := if s.nCov = 0 then 0 else r
def SubModel.posIdx (s : SubModel) (r d : Nat) : Nat :=
  if s.nCov = 0 then pos s.nDim r d else pos s.nDim 0 d

theorem entry_float (s : SubModel) (hk : s.kind ≠ .pooled ∧ s.kind ≠ .hetero)
    (th : Nat → Nat → Nat → ℝ) (fs : List (Ful ℝ)) (off r d : Nat) :
    s.entry th fs off r d
      = popOne s.kind (th (s.parRow r) 0 d) (th (s.parRow r) 1 d)
          (flAt fs (s.reqIdx off r) (s.posIdx r d)) := by
  have hreq : s.kind.nReq = 1 := by
    rcases hs : s.kind with c | c | _ | _ | _ <;> simp_all [Kind.nReq]
  unfold SubModel.entry SubModel.parRow SubModel.reqIdx SubModel.posIdx
  split
  · exact C06_elem_entry s.kind hk s.nDim (th 0) fs off r d
  · rw [hreq, Nat.mul_one]
    exact C06_elem_entry s.kind hk s.nDim (th r) fs (off + r) 0 d

theorem reqIdx_lt (s : SubModel) (hk : s.kind ≠ .pooled) (nS off r : Nat) (hr : r < nS) :
    ∃ i, i < s.nReq nS ∧ s.reqIdx off r = off + i := by
  have hreq : s.kind.nReq = 1 := by
    rcases hs : s.kind with c | c | _ | _ | _ <;> simp_all [Kind.nReq]
  unfold SubModel.reqIdx SubModel.nReq
  split
  · exact ⟨0, by omega, rfl⟩
  · exact ⟨r, by rw [hreq]; omega, rfl⟩

/-- C06 (covariate model, law of one row): conditional on the covariates, row `r` of a
    covariate-wrapped Gaussian / log-normal / truncated-Gaussian model is one draw of the wrapped
    model at the covariate-shifted parameters `th r` of that row -/
theorem C06_covariate_row_law {Ω : Type} [MeasurableSpace Ω] {P : Measure Ω} {ν : Measure ℝ} [NeZero ν]
    (Z : Ω → ℝ) (hZ : P.map Z = ν) (s : SubModel) (hc : s.nCov ≠ 0)
    (hk : s.kind ≠ .pooled ∧ s.kind ≠ .hetero) (th : Nat → Nat → Nat → ℝ) (fs : Ω → List (Ful ℝ))
    (off r d : Nat) (hfs : ∀ ω, flAt (fs ω) (off + r) (pos s.nDim 0 d) = Z ω) :
    P.map (fun ω => s.entry th (fs ω) off r d) = ν.map (popOne s.kind (th r 0 d) (th r 1 d)) := by
  have : (fun ω => s.entry th (fs ω) off r d) = popOne s.kind (th r 0 d) (th r 1 d) ∘ Z := by
    funext ω
    rw [entry_float s hk]
    simp [SubModel.parRow, SubModel.reqIdx, SubModel.posIdx, hc, hfs]
  rw [this, map_comp_of_law hZ (measurable_popOne _ _ _)]

/-- C06 (composed, "independently across sub-models"): for ANY list of sub-models, entries that lie
    in the blocks of two DIFFERENT Gaussian / log-normal / truncated-Gaussian sub-models (covariate-
    wrapped or not) are independent, whenever the float results of the requests form an independent
    family indexed by (request, position) -/
theorem C06_composed_blocks_independent {Ω : Type} [MeasurableSpace Ω] {P : Measure Ω}
    (W : ℕ × ℕ → Ω → ℝ) (hind : iIndepFun W P) (fs : Ω → List (Ful ℝ))
    (hfs : ∀ ω q i, flAt (fs ω) q i = W (q, i) ω)
    (nIds nS : Nat) (params : Nat → ℝ) (cov : Nat → Nat → ℝ) (subs : List SubModel)
    (k k' : Nat) (hk : k < subs.length) (hk' : k' < subs.length) (hne : k ≠ k')
    (hf : (subs[k]).kind ≠ .pooled ∧ (subs[k]).kind ≠ .hetero)
    (hf' : (subs[k']).kind ≠ .pooled ∧ (subs[k']).kind ≠ .hetero)
    (r d r' d' : Nat) (hr : r < nS) (hr' : r' < nS) (hd : d < (subs[k]).nDim)
    (hd' : d' < (subs[k']).nDim) :
    IndepFun
      (fun ω => composedEntry nIds nS params cov (fs ω) subs 0 0 0 0 r (smpDimOff subs k + d))
      (fun ω => composedEntry nIds nS params cov (fs ω) subs 0 0 0 0 r' (smpDimOff subs k' + d')) P := by
  obtain ⟨i, hi, hq⟩ := reqIdx_lt (subs[k]) hf.1 nS (reqOff nS subs k) r hr
  obtain ⟨i', hi', hq'⟩ := reqIdx_lt (subs[k']) hf'.1 nS (reqOff nS subs k') r' hr'
  have hqne : (subs[k]).reqIdx (reqOff nS subs k) r ≠ (subs[k']).reqIdx (reqOff nS subs k') r' := by
    rw [hq, hq']
    exact C06_composed_requests_disjoint nS subs k k' hk hk' hne i i' hi hi'
  have hidx : ((subs[k]).reqIdx (reqOff nS subs k) r, (subs[k]).posIdx r d)
      ≠ ((subs[k']).reqIdx (reqOff nS subs k') r', (subs[k']).posIdx r' d') := by
    intro h; exact hqne (congrArg Prod.fst h)
  let th := subTh subs[k] nIds params cov (parOff nIds subs k) (smpCovOff subs k)
  let th' := subTh subs[k'] nIds params cov (parOff nIds subs k') (smpCovOff subs k')
  have h := (hind.indepFun hidx).comp
    (measurable_popOne (subs[k]).kind (th ((subs[k]).parRow r) 0 d) (th ((subs[k]).parRow r) 1 d))
    (measurable_popOne (subs[k']).kind (th' ((subs[k']).parRow r') 0 d')
      (th' ((subs[k']).parRow r') 1 d'))
  refine (IndepFun.congr h ?_ ?_)
  · exact Filter.Eventually.of_forall fun ω => by
      simp only [Function.comp]
      rw [C06_composed_entry nIds nS params cov (fs ω) subs k hk r d hd, entry_float _ hf, hfs]
  · exact Filter.Eventually.of_forall fun ω => by
      simp only [Function.comp]
      rw [C06_composed_entry nIds nS params cov (fs ω) subs k' hk' r' d' hd', entry_float _ hf', hfs]


/-! ## the joint law of a whole composed sample -/

/-- index of an entry of a composed sample: sub-model `k`, row `r`, dimension `d` of that sub-model -/
abbrev EntryIdx (subs : List SubModel) (nS : Nat) :=
  Σ k : Fin subs.length, Fin nS × Fin (subs[k]).nDim

/-- the (request, position) an entry reads -/
def primOf (subs : List SubModel) (nS : Nat) (a : EntryIdx subs nS) : ℕ × ℕ :=
  ((subs[a.1]).reqIdx (reqOff nS subs a.1) a.2.1, (subs[a.1]).posIdx a.2.1 a.2.2)

theorem primOf_injective (subs : List SubModel) (nS : Nat)
    (hfloat : ∀ k : Fin subs.length, (subs[k]).kind ≠ .pooled ∧ (subs[k]).kind ≠ .hetero) :
    Function.Injective (primOf subs nS) := by
  rintro ⟨k, r, d⟩ ⟨k', r', d'⟩ h
  simp only [primOf, Prod.mk.injEq] at h
  obtain ⟨hq, hp⟩ := h
  have hkk : k = k' := by
    by_contra hne
    obtain ⟨i, hi, e⟩ := reqIdx_lt (subs[k]) (hfloat k).1 nS (reqOff nS subs k) r r.2
    obtain ⟨i', hi', e'⟩ := reqIdx_lt (subs[k']) (hfloat k').1 nS (reqOff nS subs k') r' r'.2
    rw [e, e'] at hq
    exact C06_composed_requests_disjoint nS subs k k' k.2 k'.2 (fun h => hne (Fin.ext h)) i i' hi hi' hq
  subst hkk
  have : r = r' ∧ d = d' := by
    unfold SubModel.reqIdx at hq
    unfold SubModel.posIdx at hp
    by_cases hc : (subs[k]).nCov = 0
    · simp only [hc, if_true] at hq hp
      obtain ⟨h1, h2⟩ := pos_inj d.2 d'.2 hp
      exact ⟨Fin.ext h1, Fin.ext h2⟩
    · simp only [hc, if_false] at hq hp
      obtain ⟨_, h2⟩ := pos_inj d.2 d'.2 hp
      exact ⟨Fin.ext (by omega), Fin.ext h2⟩
  obtain ⟨rfl, rfl⟩ := this
  rfl


/-- the parameters (covariate-shifted, of the entry's own row) an entry uses -/
noncomputable def entryMap (nIds : Nat) (params : Nat → ℝ) (cov : Nat → Nat → ℝ)
    (subs : List SubModel) (nS : Nat) (a : EntryIdx subs nS) : ℝ → ℝ :=
  let s := subs[a.1]
  let th := subTh s nIds params cov (parOff nIds subs a.1) (smpCovOff subs a.1)
  popOne s.kind (th (s.parRow a.2.1) 0 a.2.2) (th (s.parRow a.2.1) 1 a.2.2)

/-- C06 (composed, joint law): for ANY list of Gaussian / log-normal / truncated-Gaussian sub-models
    (centred or not, covariate-wrapped or not, any dimensions, any number of samples), if the float
    results of the requests form an independent family indexed by (request, position), then
    ALL entries of the composed sample are mutually independent, each entry is the sub-model's
    one-draw transformation (at its own, covariate-shifted parameters) of its own primitive, and
    hence the joint law of the whole sample is the PRODUCT of the entry laws. -/
theorem C06_composed_joint_law {Ω : Type} [MeasurableSpace Ω] {P : Measure Ω} [IsProbabilityMeasure P]
    (W : ℕ × ℕ → Ω → ℝ) (hind : iIndepFun W P) (hW : ∀ i, Measurable (W i))
    (fs : Ω → List (Ful ℝ)) (hfs : ∀ ω q i, flAt (fs ω) q i = W (q, i) ω)
    (nIds nS : Nat) (params : Nat → ℝ) (cov : Nat → Nat → ℝ) (subs : List SubModel)
    (hfloat : ∀ k : Fin subs.length, (subs[k]).kind ≠ .pooled ∧ (subs[k]).kind ≠ .hetero) :
    let entry : EntryIdx subs nS → Ω → ℝ := fun a ω =>
      composedEntry nIds nS params cov (fs ω) subs 0 0 0 0 a.2.1 (smpDimOff subs a.1 + a.2.2)
    iIndepFun entry P
    ∧ (∀ a, P.map (entry a)
        = (P.map (W (primOf subs nS a))).map (entryMap nIds params cov subs nS a))
    ∧ P.map (fun ω a => entry a ω) = Measure.pi (fun a => P.map (entry a)) := by
  intro entry
  have hentry : ∀ a ω, entry a ω = entryMap nIds params cov subs nS a (W (primOf subs nS a) ω) := by
    intro a ω
    simp only [entry, entryMap, primOf]
    rw [C06_composed_entry nIds nS params cov (fs ω) subs a.1 a.1.2 a.2.1 a.2.2 a.2.2.2]
    exact (entry_float (subs[a.1]) (hfloat a.1) _ (fs ω) _ _ _).trans (by rw [hfs]; rfl)
  have hmeas : ∀ a, Measurable (entryMap nIds params cov subs nS a) := fun a =>
    measurable_popOne _ _ _
  have hI : iIndepFun entry P := by
    have h1 := hind.precomp (primOf_injective subs nS hfloat)
    have h2 := h1.comp (fun a => entryMap nIds params cov subs nS a) hmeas
    refine h2.congr ?_
    intro a
    exact Filter.Eventually.of_forall fun ω => (hentry a ω).symm
  have hfun : ∀ a, entry a = entryMap nIds params cov subs nS a ∘ W (primOf subs nS a) := by
    intro a; funext ω; exact hentry a ω
  refine ⟨hI, ?_, ?_⟩
  · intro a
    rw [hfun a, Measure.map_map (hmeas a) (hW _)]
  · refine (iIndepFun_iff_map_fun_eq_pi_map ?_).1 hI
    intro a
    rw [hfun a]
    exact ((hmeas a).comp (hW _)).aemeasurable


/-- every column of the composed sample belongs to exactly one sub-model's block -/
theorem C06_composed_columns_cover (subs : List SubModel) :
    ∀ dg, dg < totalDim subs →
      ∃ k, ∃ _ : k < subs.length, ∃ d, d < (subs[k]).nDim ∧ dg = smpDimOff subs k + d := by
  induction subs with
  | nil => intro dg h; simp [totalDim] at h
  | cons s ss ih =>
    intro dg h
    by_cases hlt : dg < s.nDim
    · exact ⟨0, by simp, dg, by simpa using hlt, by simp [smpDimOff]⟩
    · have h' : dg - s.nDim < totalDim ss := by
        simp only [totalDim, List.map_cons, List.sum_cons] at h ⊢; omega
      obtain ⟨k, hk, d, hd, he⟩ := ih (dg - s.nDim) h'
      refine ⟨k + 1, by simpa using hk, d, by simpa using hd, ?_⟩
      simp only [smpDimOff, List.take_succ_cons, List.map_cons, List.sum_cons] at he ⊢
      omega

/-! ## sample followed by `compute_individual_parameters` for the heterogeneous model -/

/-- C06 (what the property demands, variant `intended`): the transform leaves the sampled rows
    unchanged, so the individual parameters have the sampled law `C06_hetero_law` -/
theorem C06_hetero_transform (nIds nRows : Nat) (th eta : Nat → Nat → ℝ) (r d : Nat) :
    heteroPsi .intended nIds nRows th eta r d = eta r d := rfl

/-- C06 for the code as it is (7e1e7bd): the drawn rows are handed on whenever their number differs
    from `n_ids`, and otherwise exactly when row `r` drew "its own" individual `r` -/
theorem C06_hetero_transform_partial (nIds nRows : Nat) (th : Nat → Nat → ℝ) (drawn : Nat → Nat)
    (r d : Nat) (h : nRows ≠ nIds ∨ drawn r = r) :
    heteroPsi .repaired nIds nRows th (fun r d => th (drawn r) d) r d = th (drawn r) d := by
  unfold heteroPsi
  rcases h with h | h
  · simp [h]
  · split <;> simp [h]

/-- C06 still FAILS for the code as it is when exactly `n_ids` rows are drawn: two individuals with
    values 1 and 2, two samples; `sample` drew individual 1 for row 0 (value 2), the transform hands
    back the stored individual 0 (value 1). (`PopulationPredictiveModel.sample` keeps the drawn rows
    itself since 7e1e7bd; `compute_individual_parameters` cannot tell the two uses apart.) -/
theorem C06_hetero_transform_counterexample :
    let th : Nat → Nat → ℝ := fun i _ => (i : ℝ) + 1
    let drawn : Nat → Nat := fun _ => 1
    let eta : Nat → Nat → ℝ := fun r d => th (drawn r) d
    heteroPsi .repaired 2 2 th eta 0 0 ≠ eta 0 0 := by
  simp [heteroPsi]

/-- the pre-fix behaviour (before 7e1e7bd) failed for every number of rows: the stored row is handed
    back whatever was drawn, and `n_ids` rows are returned for 5 drawn ones -/
theorem C06_hetero_transform_legacy_counterexample :
    let th : Nat → Nat → ℝ := fun i _ => (i : ℝ) + 1
    let drawn : Nat → Nat := fun _ => 1
    let eta : Nat → Nat → ℝ := fun r d => th (drawn r) d
    heteroPsi .legacy 2 5 th eta 0 0 ≠ eta 0 0 ∧ heteroPsiRows .legacy 2 5 ≠ 5
      ∧ heteroPsi .repaired 2 5 th eta 0 0 = eta 0 0 ∧ heteroPsiRows .repaired 2 5 = 5 := by
  simp [heteroPsi, heteroPsiRows]

/-! ## the score of several sampled rows -/

/-- C06 (the score of SEVERAL sampled rows): for `nS` rows, each with its own (covariate-shifted)
    parameters `th r`, the log-likelihood of the rows together is the logarithm of the product over rows
    and dimensions of the densities of the entry laws (`C06_pop_gaussian_law`, `C06_pop_lognormal_law`,
    `C06_truncGauss_density`, standard normal for the non-centred models) — the density of the product
    law of `C06_composed_joint_law`, with the truncation normalisation of EVERY row counted exactly
    once. (Values: the per-individual theorems of C05.) -/
theorem C06_sample_joint_scored (nS nDim : Nat) (th : Nat → Nat → Nat → ℝ) (x : Nat → Nat → ℝ)
    (hs : ∀ r d, r < nS → d < nDim → 0 < th r 1 d) :
    popLL (.gauss true) nS nDim th x
        = .val (isum2 nS nDim fun r d =>
            Real.log (gaussianPDFReal (th r 0 d) (sqv (th r 1 d)) (x r d)))
    ∧ ((∀ r d, r < nS → d < nDim → 0 < x r d) →
        popLL (.logn true) nS nDim th x
          = .val (isum2 nS nDim fun r d =>
              Real.log (logNormalPDF (th r 0 d) (sqv (th r 1 d)) (x r d))))
    ∧ ((∀ r d, r < nS → d < nDim → 0 ≤ x r d) →
        popLL .trunc nS nDim th x
          = .val (isum2 nS nDim fun r d =>
              Real.log (c06TruncGaussPDF (th r 0 d) (th r 1 d) (x r d))))
    ∧ popLL (.gauss false) nS nDim th x
        = .val (isum2 nS nDim fun r d => Real.log (gaussianPDFReal 0 1 (x r d)))
    ∧ popLL (.logn false) nS nDim th x
        = .val (isum2 nS nDim fun r d => Real.log (gaussianPDFReal 0 1 (x r d))) :=
  ⟨C05_gauss_is_logpdf nS nDim th x hs,
   fun hx => C05_logn_is_logpdf nS nDim th x hs hx,
   fun hx => C05_trunc_is_logpdf nS nDim th x hs hx,
   (C05_noncentred_is_logpdf nS nDim th x).1, (C05_noncentred_is_logpdf nS nDim th x).2⟩

/-! ## `get_mean_and_std` -/

/-- C06: `LogNormalModel.get_mean_and_std` reports the mean and the standard deviation of the
    scored log-normal density: first moment, raw second moment and central second moment -/
theorem C06_lognormal_moments (mu sigma : ℝ) (hs : 0 < sigma) :
    (∫ y in Set.Ioi (0:ℝ), y * logNormalPDF mu (sqv sigma) y = lnMean mu sigma)
    ∧ (∫ y in Set.Ioi (0:ℝ), y ^ 2 * logNormalPDF mu (sqv sigma) y
        = lnMean mu sigma ^ 2 + lnStd mu sigma ^ 2)
    ∧ (∫ y in Set.Ioi (0:ℝ), (y - lnMean mu sigma) ^ 2 * logNormalPDF mu (sqv sigma) y
        = lnStd mu sigma ^ 2) := by
  have hv := sqv_ne_zero hs.ne'
  have h0 := lognormal_moment mu hv 0
  have h1 := lognormal_moment mu hv 1
  have h2 := lognormal_moment mu hv 2
  have i0 := integrableOn_lognormal_moment mu hv 0
  have i1 := integrableOn_lognormal_moment mu hv 1
  have i2 := integrableOn_lognormal_moment mu hv 2
  simp only [pow_zero, one_mul, pow_one, Nat.cast_zero, Nat.cast_one, Nat.cast_ofNat, mul_zero,
    mul_one, sqv_coe] at h0 h1 h2 i0 i1
  have hM : lnMean mu sigma = Real.exp (mu + sigma ^ 2 / 2) := by
    simp [lnMean]; ring_nf
  have hge : 0 ≤ Real.exp (2 * mu + sigma * sigma) * (Real.exp (sigma * sigma) - 1) := by
    have : 1 ≤ Real.exp (sigma * sigma) := Real.one_le_exp (by positivity)
    have := Real.exp_pos (2 * mu + sigma * sigma)
    nlinarith
  have hS : lnStd mu sigma ^ 2
      = Real.exp (2 * mu + sigma * sigma) * (Real.exp (sigma * sigma) - 1) := by
    simp only [lnStd, sqrt_real, exp_real, two_real, one_real]
    rw [Real.sq_sqrt hge]
  have hsum : lnMean mu sigma ^ 2 + lnStd mu sigma ^ 2 = Real.exp (2 * mu + 2 * sigma ^ 2) := by
    rw [hS, hM, ← Real.exp_nat_mul, mul_sub, ← Real.exp_add, mul_one]
    have e1 : ((2:ℕ):ℝ) * (mu + sigma ^ 2 / 2) = 2 * mu + sigma * sigma := by push_cast; ring
    have e2 : 2 * mu + sigma * sigma + sigma * sigma = 2 * mu + 2 * sigma ^ 2 := by ring
    rw [e1, e2]; ring
  refine ⟨?_, ?_, ?_⟩
  · rw [h1, hM]; congr 1; ring
  · rw [h2, hsum]; congr 1; ring
  · have hexp : ∀ y : ℝ, (y - lnMean mu sigma) ^ 2 * logNormalPDF mu (sqv sigma) y
        = y ^ 2 * logNormalPDF mu (sqv sigma) y
          - 2 * lnMean mu sigma * (y * logNormalPDF mu (sqv sigma) y)
          + lnMean mu sigma ^ 2 * logNormalPDF mu (sqv sigma) y := by intro y; ring
    simp_rw [hexp]
    have i1' := i1.const_mul (2 * lnMean mu sigma)
    have i0' := i0.const_mul (lnMean mu sigma ^ 2)
    have i21 : Integrable (fun y => y ^ 2 * logNormalPDF mu (sqv sigma) y
        - 2 * lnMean mu sigma * (y * logNormalPDF mu (sqv sigma) y))
        (volume.restrict (Set.Ioi 0)) := i2.sub i1'
    rw [integral_add i21 i0', integral_sub i2 i1', integral_const_mul,
      integral_const_mul, h0, h1, h2]
    have : lnMean mu sigma ^ 2 + lnStd mu sigma ^ 2 = Real.exp (mu * 2 + sigma ^ 2 * 2 ^ 2 / 2) := by
      rw [hsum]; congr 1; ring
    have e1 : Real.exp (mu + sigma ^ 2 * 1 ^ 2 / 2) = lnMean mu sigma := by
      rw [hM]; congr 1; ring
    have e0 : Real.exp (0 + sigma ^ 2 * 0 ^ 2 / 2) = 1 := by simp
    rw [← this, e1, e0]
    ring

/-- C06: `TruncatedGaussianModel.get_mean_and_std` reports the mean and the standard deviation of
    the scored (documented) truncated-Gaussian density; `norm.pdf`, `norm.cdf` are the standard normal
    pdf and cdf -/
theorem C06_truncGauss_moments (mu sigma : ℝ) (hs : 0 < sigma) :
    (∫ x in Set.Ici (0:ℝ), x * c06TruncGaussPDF mu sigma x
        = tgMean (gaussianPDFReal 0 1) Phi mu sigma)
    ∧ (∫ x in Set.Ici (0:ℝ), (x - tgMean (gaussianPDFReal 0 1) Phi mu sigma) ^ 2
          * c06TruncGaussPDF mu sigma x
        = tgStd (gaussianPDFReal 0 1) Phi mu sigma ^ 2) := by
  have hv := sqv_ne_zero hs.ne'
  have hc := one_sub_Phi_pos (-mu / sigma)
  have I0 := integral_Ioi_gaussianPDFReal mu sigma hs
  have I1 := integral_Ioi_sub_mul_gaussianPDFReal mu sigma hs
  have I2 := integral_Ioi_sub_sq_mul_gaussianPDFReal mu sigma hs
  rw [gaussianPDFReal_at_zero mu sigma hs] at I1
  rw [mul_assoc, mul_comm mu, ← mul_assoc, gaussianPDFReal_at_zero mu sigma hs] at I2
  have i0 : Integrable (gaussianPDFReal mu (sqv sigma)) := integrable_gaussianPDFReal _ _
  have i1 : Integrable (fun x => x * gaussianPDFReal mu (sqv sigma) x) := by
    simpa using integrable_pow_mul_gaussianPDFReal mu hv 1
  have i2 : Integrable (fun x => x ^ 2 * gaussianPDFReal mu (sqv sigma) x) :=
    integrable_pow_mul_gaussianPDFReal mu hv 2
  have i1' : Integrable (fun x => (x - mu) * gaussianPDFReal mu (sqv sigma) x) := by
    have := i1.sub (i0.const_mul mu)
    refine this.congr (ae_of_all _ fun x => ?_)
    simp only [Pi.sub_apply]; ring
  have i2' : Integrable (fun x => (x - mu) ^ 2 * gaussianPDFReal mu (sqv sigma) x) := by
    have := (i2.sub (i1.const_mul (2 * mu))).add (i0.const_mul (mu ^ 2))
    refine this.congr (ae_of_all _ fun x => ?_)
    simp only [Pi.sub_apply, Pi.add_apply]; ring
  set c := 1 - Phi (-mu / sigma) with hcdef
  set ph := gaussianPDFReal 0 1 (mu / sigma) with hph
  have hlam : tgLambda (gaussianPDFReal 0 1) Phi mu sigma = ph / c := by
    simp [tgLambda, hph, hcdef]
  have hM : tgMean (gaussianPDFReal 0 1) Phi mu sigma = mu + sigma * (ph / c) := by
    simp [tgMean, hlam]
  have e1 : ∫ x in Set.Ici (0:ℝ), x * c06TruncGaussPDF mu sigma x = mu + sigma * (ph / c) := by
    rw [integral_Ici_eq_integral_Ioi]
    have : ∀ x, x * c06TruncGaussPDF mu sigma x
        = c⁻¹ * ((x - mu) * gaussianPDFReal mu (sqv sigma) x)
          + c⁻¹ * mu * gaussianPDFReal mu (sqv sigma) x := by
      intro x; simp only [c06TruncGaussPDF, ← hcdef]; field_simp; ring
    simp_rw [this]
    rw [integral_add (i1'.const_mul _).integrableOn (i0.const_mul _).integrableOn,
      integral_const_mul, integral_const_mul, I0, I1]
    field_simp
    ring
  have e2 : ∫ x in Set.Ici (0:ℝ), (x - (mu + sigma * (ph / c))) ^ 2 * c06TruncGaussPDF mu sigma x
      = sigma ^ 2 * (1 - mu / sigma * (ph / c) - (ph / c) * (ph / c)) := by
    rw [integral_Ici_eq_integral_Ioi]
    have : ∀ x, (x - (mu + sigma * (ph / c))) ^ 2 * c06TruncGaussPDF mu sigma x
        = c⁻¹ * ((x - mu) ^ 2 * gaussianPDFReal mu (sqv sigma) x)
          - (2 * sigma * (ph / c) * c⁻¹) * ((x - mu) * gaussianPDFReal mu (sqv sigma) x)
          + (sigma * (ph / c)) ^ 2 * c⁻¹ * gaussianPDFReal mu (sqv sigma) x := by
      intro x; simp only [c06TruncGaussPDF, ← hcdef]; field_simp; ring
    simp_rw [this]
    have j21 : Integrable (fun x => c⁻¹ * ((x - mu) ^ 2 * gaussianPDFReal mu (sqv sigma) x)
          - (2 * sigma * (ph / c) * c⁻¹) * ((x - mu) * gaussianPDFReal mu (sqv sigma) x))
        (volume.restrict (Set.Ioi 0)) :=
      ((i2'.const_mul _).sub (i1'.const_mul _)).integrableOn
    rw [integral_add j21 (i0.const_mul _).integrableOn,
      integral_sub (i2'.const_mul _).integrableOn (i1'.const_mul _).integrableOn,
      integral_const_mul, integral_const_mul, integral_const_mul, I0, I1, I2]
    field_simp
    ring
  refine ⟨by rw [e1, hM], ?_⟩
  rw [hM, e2]
  have hnn : 0 ≤ sigma ^ 2 * (1 - mu / sigma * (ph / c) - (ph / c) * (ph / c)) := by
    rw [← e2]
    refine setIntegral_nonneg measurableSet_Ici fun x _ => ?_
    exact mul_nonneg (sq_nonneg _) (div_nonneg (gaussianPDFReal_nonneg _ _ _) hc.le)
  simp only [tgStd, hlam, sqrt_real, one_real]
  rw [Real.sq_sqrt (by convert hnn using 1; ring)]
  ring

/-! ## multi-dimensional truncated Gaussian: every dimension keeps its own law -/

/-- C06: entry `(r, d)` of an elementary Gaussian / log-normal / truncated-Gaussian / pooled sample
    depends on the parameter table only through the parameters of ITS OWN dimension `d`: changing the
    location or scale of another dimension (e.g. moving it far away from the truncation point) leaves
    the entry as it is -/
theorem C06_entry_dim_local (k : Kind) (hk : k ≠ .hetero) (nDim : Nat) (th th' : Nat → Nat → ℝ)
    (fs : List (Ful ℝ)) (q r d : Nat) (h0 : th 0 d = th' 0 d) (h1 : th 1 d = th' 1 d) :
    elemEntry k nDim th fs q r d = elemEntry k nDim th' fs q r d := by
  rcases k with c | c | _ | _ | _
  · cases c <;> simp [elemEntry, h0, h1]
  · cases c <;> simp [elemEntry, h0, h1]
  · simp [elemEntry, h0, h1]
  · simp [elemEntry, h0]
  · exact absurd rfl hk

/-- C06 (supports, TruncatedGaussianModel of ANY dimension): whenever the primitive of position
    `(r, d)` respects the truncation point requested for dimension `d` (`C06_truncGauss_request`),
    entry `(r, d)` is `≥ 0` — for every dimension, whatever the parameters of the other dimensions -/
theorem C06_truncGauss_support_all_dims (nDim : Nat) (th : Nat → Nat → ℝ) (fs : List (Ful ℝ))
    (q r d : Nat) (hs : 0 < th 1 d) (ht : -(th 0 d) / th 1 d ≤ flAt fs q (pos nDim r d)) :
    0 ≤ elemEntry .trunc nDim th fs q r d := by
  rw [div_le_iff₀ hs] at ht
  simp only [elemEntry, pos] at ht ⊢
  nlinarith

theorem cond_stdGaussian_Ici_isProb (a : ℝ) :
    IsProbabilityMeasure (cond (gaussianReal 0 1) (Set.Ici a)) := by
  apply cond_isProbabilityMeasure
  rw [stdGaussian_Ici]
  have := one_sub_Phi_pos a
  simp only [ne_eq, ENNReal.ofReal_eq_zero, not_le]
  exact this

/-- C06 (TruncatedGaussianModel of ANY dimension, all samples): with independent ideal `truncnorm`
    primitives — position `(r, d)` a standard normal conditioned on `[-μ_d/σ_d, ∞)`, the truncation
    point of ITS dimension — all entries of the sample are mutually independent and entry `(r, d)`
    is `N(μ_d, σ_d²)` conditioned on `[0, ∞)`, the density the log-likelihood scores for dimension `d`
    (`C06_truncGauss_density`, `C06_truncGauss_scored`); a dimension for which the truncation is
    numerically irrelevant does not change the law of a dimension for which it matters -/
theorem C06_truncGauss_block_law {Ω : Type} [MeasurableSpace Ω] {P : Measure Ω} (T : ℕ → Ω → ℝ)
    (hind : iIndepFun T P) (nS nDim : Nat) (th : Nat → Nat → ℝ) (hs : ∀ d, d < nDim → 0 < th 1 d)
    (hlaw : ∀ (r : Fin nS) (d : Fin nDim), P.map (T (pos nDim r d))
      = cond (gaussianReal 0 1) (Set.Ici (-(th 0 d) / th 1 d)))
    (q : Nat) (fs : Ω → List (Ful ℝ)) (hfs : ∀ ω i, flAt (fs ω) q i = T i ω) :
    iIndepFun (fun (rd : Fin nS × Fin nDim) ω => elemEntry .trunc nDim th (fs ω) q rd.1 rd.2) P
    ∧ ∀ rd : Fin nS × Fin nDim,
        P.map (fun ω => elemEntry .trunc nDim th (fs ω) q rd.1 rd.2)
          = cond (gaussianReal (th 0 rd.2) (sqv (th 1 rd.2))) (Set.Ici 0) := by
  have hk : Kind.trunc ≠ .pooled ∧ Kind.trunc ≠ .hetero := ⟨by simp, by simp⟩
  constructor
  · have h1 := hind.precomp (C06_em_positions nS nDim).1
    have h2 := h1.comp (fun rd : Fin nS × Fin nDim => popOne .trunc (th 0 rd.2) (th 1 rd.2))
      (fun rd => measurable_popOne _ _ _)
    refine h2.congr ?_
    intro rd
    refine Filter.Eventually.of_forall fun ω => ?_
    simp [C06_elem_entry .trunc hk, hfs]
  · intro rd
    have heq : (fun ω => elemEntry .trunc nDim th (fs ω) q rd.1 rd.2)
        = popOne .trunc (th 0 rd.2) (th 1 rd.2) ∘ T (pos nDim rd.1 rd.2) := by
      funext ω; simp [C06_elem_entry .trunc hk, hfs]
    have hp := cond_stdGaussian_Ici_isProb (-(th 0 rd.2) / th 1 rd.2)
    rw [heq, map_comp_of_law (hlaw rd.1 rd.2) (measurable_popOne _ _ _),
      C06_truncGauss_law _ _ (hs rd.2 rd.2.2)]

/-- C06: a sampler that draws a dimension of a truncated Gaussian model from the UNTRUNCATED
    `N(μ, σ²)` (whatever the other dimensions look like) does not draw from the scored density: the
    plain Gaussian gives positive probability to `(-∞, 0)`, the scored law gives none — for every
    `μ` and every `σ > 0`, also when `μ` is many `σ` away from zero -/
theorem C06_truncGauss_untruncated_counterexample (mu sigma : ℝ) (hs : 0 < sigma) :
    0 < gaussianReal mu (sqv sigma) (Set.Iio 0)
    ∧ cond (gaussianReal mu (sqv sigma)) (Set.Ici 0) (Set.Iio 0) = 0 := by
  have hv := sqv_ne_zero hs.ne'
  constructor
  · by_contra h
    have h0 : gaussianReal mu (sqv sigma) (Set.Iio 0) = 0 := le_antisymm (not_lt.mp h) bot_le
    have := gaussianReal_absolutelyContinuous' mu hv h0
    simp [Real.volume_Iio] at this
  · rw [cond_apply measurableSet_Ici]
    have : Set.Ici (0:ℝ) ∩ Set.Iio 0 = ∅ := by
      ext x; simp only [Set.mem_inter_iff, Set.mem_Ici, Set.mem_Iio, Set.mem_empty_iff_false,
        iff_false]; intro h; linarith [h.1, h.2]
    simp [this]

/-! ## composed models: the support of the scored density and the support of the samples -/

/-- the own value of individual `i` in a point-mass part: the pooled value, resp. the individual's row -/
def deltaRow (k : Kind) (i : Nat) : Nat := if k = .pooled then 0 else i

theorem pcSubTh_bare (nIds : Nat) (s : SubModel) (hc : s.nCov = 0) (params : Nat → ℝ)
    (curParam : Nat) (cov : Nat → Nat → ℝ) (curCov i p d : Nat) :
    pcSubTh nIds s params curParam cov curCov i p d = params (curParam + p * s.nDim + d) := by
  simp [pcSubTh, hc, sliceTh]

theorem delta_part_inside (k : Kind) (hk : k = .pooled ∨ k = .hetero) (nIds nDim : Nat)
    (th : Nat → Nat → Nat → ℝ) (eta : Nat → Nat → ℝ)
    (h : ∀ i d, i < nIds → d < nDim → eta i d = th i (deltaRow k i) d) :
    popLL k nIds nDim th eta = .val 0 := by
  rcases hk with rfl | rfl
  · have : iany2 nIds nDim (fun i d => !(le (eta i d) (th i 0 d) && le (th i 0 d) (eta i d))) = false := by
      apply iany2_false
      intro i d hi hd
      have := h i d hi hd
      simp [deltaRow] at this
      simp [this]
    simp only [popLL, this]
    simp
  · have : iany2 nIds nDim (fun i d => !(le (eta i d) (th i i d) && le (th i i d) (eta i d))) = false := by
      apply iany2_false
      intro i d hi hd
      have := h i d hi hd
      simp [deltaRow] at this
      simp [this]
    simp only [popLL, this]
    simp

theorem delta_part_outside (k : Kind) (hk : k = .pooled ∨ k = .hetero) (nIds nDim : Nat)
    (th : Nat → Nat → Nat → ℝ) (eta : Nat → Nat → ℝ) (i d : Nat) (hi : i < nIds) (hd : d < nDim)
    (hne : eta i d ≠ th i (deltaRow k i) d) :
    popLL k nIds nDim th eta = .negInf := by
  have key : ∀ a b : ℝ, a ≠ b → (!(le a b && le b a)) = true := by
    intro a b hab
    simp only [le_real, Bool.not_eq_true', Bool.and_eq_false_iff, decide_eq_false_iff_not, not_le]
    rcases lt_or_gt_of_ne hab with h | h
    · right; exact h
    · left; exact h
  rcases hk with rfl | rfl
  · have : iany2 nIds nDim (fun i d => !(le (eta i d) (th i 0 d) && le (th i 0 d) (eta i d))) = true :=
      (iany2_real _ _ _).2 ⟨i, d, hi, hd, key _ _ (by simpa [deltaRow] using hne)⟩
    simp only [popLL, this]
    simp
  · have : iany2 nIds nDim (fun i d => !(le (eta i d) (th i i d) && le (th i i d) (eta i d))) = true :=
      (iany2_real _ _ _).2 ⟨i, d, hi, hd, key _ _ (by simpa [deltaRow] using hne)⟩
    simp only [popLL, this]
    simp

/-- **C06 (composed: the scored density vanishes off the samples' support).** Part `k` of a composed
    model is a pooled or heterogeneous model (bare or covariate-wrapped). If ONE individual's entry in
    ONE of the part's columns differs from the value the part prescribes for it (the pooled value / the
    individual's own value, as seen through the part's own slice of parameters and covariates), the
    composed log-likelihood is `-∞` — whatever the other parts score. -/
theorem C06_composed_delta_support (nIds : Nat) (subs : List SubModel) (params : Nat → ℝ)
    (obs cov : Nat → Nat → ℝ) (k : Nat) (hk : k < subs.length)
    (hkind : subs[k].kind = .pooled ∨ subs[k].kind = .hetero)
    (i d : Nat) (hi : i < nIds) (hd : d < subs[k].nDim)
    (hne : obs i (pcDimOff subs k + d)
      ≠ pcSubTh nIds subs[k] params (paramOff nIds subs k) cov (pcCovOff subs k) i
          (deltaRow subs[k].kind i) d) :
    composedLL nIds subs params obs cov = .negInf := by
  refine (C05_composed_additive_val nIds subs params obs cov).2 ⟨k, hk, ?_⟩
  unfold partLL
  rw [List.getElem?_eq_getElem hk]
  exact delta_part_outside _ hkind nIds _ _ _ i d hi hd (by simpa [sliceObs] using hne)

/-- … in numbers, for a bare pooled part: one entry off the pooled parameter `params[paramOff k + d]` -/
theorem C06_composed_pooled_support (nIds : Nat) (subs : List SubModel) (params : Nat → ℝ)
    (obs cov : Nat → Nat → ℝ) (k : Nat) (hk : k < subs.length)
    (hkind : subs[k].kind = .pooled) (hc : subs[k].nCov = 0)
    (i d : Nat) (hi : i < nIds) (hd : d < subs[k].nDim)
    (hne : obs i (pcDimOff subs k + d) ≠ params (paramOff nIds subs k + d)) :
    composedLL nIds subs params obs cov = .negInf := by
  refine C06_composed_delta_support nIds subs params obs cov k hk (Or.inl hkind) i d hi hd ?_
  rw [pcSubTh_bare _ _ hc]
  simpa [deltaRow, hkind] using hne

/-- … for a bare heterogeneous part: individual `i` off its own value `params[paramOff k + i·nDim + d]`
    (so also: two individuals swapped, unless their values coincide) -/
theorem C06_composed_hetero_support (nIds : Nat) (subs : List SubModel) (params : Nat → ℝ)
    (obs cov : Nat → Nat → ℝ) (k : Nat) (hk : k < subs.length)
    (hkind : subs[k].kind = .hetero) (hc : subs[k].nCov = 0)
    (i d : Nat) (hi : i < nIds) (hd : d < subs[k].nDim)
    (hne : obs i (pcDimOff subs k + d) ≠ params (paramOff nIds subs k + i * subs[k].nDim + d)) :
    composedLL nIds subs params obs cov = .negInf := by
  refine C06_composed_delta_support nIds subs params obs cov k hk (Or.inr hkind) i d hi hd ?_
  rw [pcSubTh_bare _ _ hc]
  simpa [deltaRow, hkind] using hne

/-- **C06 (composed: on the support a point-mass part contributes nothing).** When every row carries
    the part's own values, the part scores `0`: the composed score is the sum of the other parts. -/
theorem C06_composed_delta_part_zero (nIds : Nat) (subs : List SubModel) (params : Nat → ℝ)
    (obs cov : Nat → Nat → ℝ) (k : Nat) (hk : k < subs.length)
    (hkind : subs[k].kind = .pooled ∨ subs[k].kind = .hetero)
    (h : ∀ i d, i < nIds → d < subs[k].nDim → obs i (pcDimOff subs k + d)
      = pcSubTh nIds subs[k] params (paramOff nIds subs k) cov (pcCovOff subs k) i
          (deltaRow subs[k].kind i) d) :
    partLL nIds subs params obs cov k = .val 0 := by
  unfold partLL
  rw [List.getElem?_eq_getElem hk]
  exact delta_part_inside _ hkind nIds _ _ _ (by simpa [sliceObs] using h)

/-- **C06 (composed: the pooled columns of the SAMPLED rows are in the support, with score 0).**
    Whatever the generator produces, the rows `ComposedPopulationModel.sample` returns carry the pooled
    parameter in every column of a bare pooled part, so that part of the composed log-likelihood of the
    sampled rows is `0` — and by `C06_composed_pooled_support` every other value in such a column has
    density zero: the supports of sampler and score agree. -/
theorem C06_composed_sampled_pooled_scored (nIds nS : Nat) (subs : List SubModel) (params : Nat → ℝ)
    (cov : Nat → Nat → ℝ) (fs : List (Ful ℝ)) (k : Nat) (hk : k < subs.length)
    (hkind : subs[k].kind = .pooled) (hc : subs[k].nCov = 0) :
    partLL nIds subs params (fun r dg => composedEntry nIds nS params cov fs subs 0 0 0 0 r dg) cov k
      = .val 0 := by
  refine C06_composed_delta_part_zero nIds subs params _ cov k hk (Or.inl hkind) ?_
  intro i d _ hd
  have hE := C06_composed_entry nIds nS params cov fs subs k hk i d hd
  have hoff : pcDimOff subs k = smpDimOff subs k := rfl
  rw [hoff, hE, pcSubTh_bare _ _ hc]
  simp [SubModel.entry, hc, elemEntry, hkind, subTh, SubModel.th, deltaRow, parOff, paramOff]

/-- … and a sampled row of a bare heterogeneous part is the row of ONE modelled individual (the drawn
    index), in all of the part's columns at once -/
theorem C06_composed_sampled_hetero_row (nIds nS : Nat) (subs : List SubModel) (params : Nat → ℝ)
    (cov : Nat → Nat → ℝ) (fs : List (Ful ℝ)) (k : Nat) (hk : k < subs.length)
    (hkind : subs[k].kind = .hetero) (hc : subs[k].nCov = 0) (r d : Nat) (hd : d < subs[k].nDim) :
    composedEntry nIds nS params cov fs subs 0 0 0 0 r (smpDimOff subs k + d)
      = params (parOff nIds subs k + ixAt fs (reqOff nS subs k) r * subs[k].nDim + d) := by
  rw [C06_composed_entry nIds nS params cov fs subs k hk r d hd]
  simp [SubModel.entry, hc, elemEntry, hkind, subTh, SubModel.th, Nat.add_assoc]

/-- a loop that SKIPS the parts without individual-level ("hierarchical") dimensions — as the
    bottom-level bookkeeping of the hierarchical log-likelihood legitimately does — is NOT the composed
    density: for one pooled part with value `3` it scores the row `2.5` with `0` instead of `-∞` -/
def composedLLSkipGo {α : Type} [Add α] [Sub α] [Mul α] [Div α] [Neg α] [ScalarFns α] [HasErf α]
    (nIds : Nat) (params : Nat → α) (obs cov : Nat → Nat → α) :
    List SubModel → (curDim curParam curCov : Nat) → Score α → Score α
  | [], _, _, _, acc => acc
  | s :: ss, curDim, curParam, curCov, acc =>
    composedLLSkipGo nIds params obs cov ss (curDim + s.nDim) (curParam + s.nTop nIds) (curCov + s.nCov)
      (if s.kind.hierarchical then
        Score.add acc (popLL s.kind nIds s.nDim (pcSubTh nIds s params curParam cov curCov)
          (sliceObs obs curDim))
       else acc)

theorem C06_composed_skip_counterexample :
    let subs : List SubModel := [⟨.pooled, 1, 0, []⟩]
    composedLLSkipGo 1 (fun _ => (3:ℝ)) (fun _ _ => (5/2:ℝ)) (fun _ _ => (0:ℝ)) subs 0 0 0 Score.zero
        = .val 0
    ∧ composedLL 1 subs (fun _ => (3:ℝ)) (fun _ _ => (5/2:ℝ)) (fun _ _ => (0:ℝ)) = .negInf := by
  refine ⟨by simp [composedLLSkipGo, Kind.hierarchical, Score.zero], ?_⟩
  refine C06_composed_pooled_support 1 _ _ _ _ 0 (by simp) rfl rfl 0 0 (by simp) (by simp) ?_
  norm_num

/-- non-vacuity of `C06_composed_sampled_pooled_scored` / `C06_composed_pooled_support`: a log-normal,
    a pooled (value 3) and a Gaussian part; the sampled rows score `0` in the pooled part, the same rows
    under the pooled value `5/2` score `-∞` -/
example :
    let subs : List SubModel := [⟨.logn true, 1, 0, []⟩, ⟨.pooled, 1, 0, []⟩, ⟨.gauss true, 1, 0, []⟩]
    let th : Nat → ℝ := fun j => if j = 2 then 3 else 1
    let th' : Nat → ℝ := fun j => if j = 2 then 5/2 else 1
    ∀ fs : List (Ful ℝ),
      partLL 4 subs th (fun r dg => composedEntry 4 4 th (fun _ _ => 0) fs subs 0 0 0 0 r dg)
          (fun _ _ => 0) 1 = .val 0
      ∧ composedLL 4 subs th' (fun r dg => composedEntry 4 4 th (fun _ _ => 0) fs subs 0 0 0 0 r dg)
          (fun _ _ => 0) = .negInf := by
  intro subs th th' fs
  refine ⟨C06_composed_sampled_pooled_scored 4 4 subs th _ fs 1 (by simp [subs]) rfl rfl, ?_⟩
  refine C06_composed_pooled_support 4 subs th' _ _ 1 (by simp [subs]) rfl rfl 0 0 (by simp)
    (by simp [subs]) ?_
  have hE := C06_composed_entry 4 4 th (fun _ _ => (0:ℝ)) fs subs 1 (by simp [subs]) 0 0 (by simp [subs])
  have hoff : pcDimOff subs 1 = smpDimOff subs 1 := rfl
  rw [hoff, hE]
  simp [subs, SubModel.entry, elemEntry, subTh, SubModel.th, parOff, paramOff, th, th', SubModel.nTop,
    SubModel.nPop, Kind.perDim]
  norm_num

/-! ## non-vacuity -/

/-- a concrete Gaussian error-model sample array: 2 time points, 3 samples, no error -/
example : ∃ rows, emSample .gauss [(1:ℝ)] [1, 2] (some 3) (fun i => (i : ℝ)) = .ok rows := by
  have : emSampleOk .gauss [(1:ℝ)] = true := by simp [emSampleOk, EM.nParams]
  simp [emSample, this]

/-- the hypotheses of the law theorems are satisfiable: identity variable on `(ℝ, N(0,1))` -/
example : (gaussianReal 0 1).map (gaussDraw 2 1) = gaussianReal 1 (sqv 2) := C06_gaussian_law 1 2

example : (1:ℝ) * (1/2) * 2 ≠ 0 := by norm_num

/-- the hypotheses of `C06_truncGauss_support_all_dims` are satisfiable in a model with one dimension
    far from the truncation (`μ = 50, σ = 2`) next to one at the truncation (`μ = 1/2, σ = 1`): the
    primitive `-2/5 ≥ -1/2` of the second dimension gives the entry `1/10 ≥ 0` -/
example : 0 ≤ elemEntry .trunc 2
    (fun p d => if p = 0 then (if d = 0 then (50:ℝ) else 1/2) else (if d = 0 then 2 else 1))
    [.flts [0, -2/5]] 0 0 1 :=
  C06_truncGauss_support_all_dims _ _ _ _ _ _ (by norm_num)
    (by simp [flAt, Ful.flt, pos]; norm_num)


end ChiModel
