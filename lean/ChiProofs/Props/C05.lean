import ChiProofs.Lemmas.PopCalculus
import ChiProofs.Lemmas.PopLists
import ChiProofs.Lemmas.PopComposedLemmas
import ChiProofs.Lemmas.PopLayoutLemmas
import ChiProofs.Lemmas.PopCoord

/-!
# C05 — population models: documented densities, additive, layout-invariant, exact
# sensitivities, agreeing return forms

Model: `ChiModel/PopModels.lean` (values), `PopSens.lean` (sensitivities, `_shape`, counts),
`PopLayout.lean` (the `ndim` layout branches incl. the wrong-variable ones), `PopComposed.lean`.
Helper lemmas: `ChiProofs/Lemmas/{Phi,PopBasics,PopCalculus,PopLists,PopComposedLemmas,
PopLayoutLemmas,PopCoord}.lean`.
Every statement is for all numbers of individuals `nIds` and dimensions `nDim`.
-/
set_option linter.unusedSectionVars false
namespace ChiModel
open ScalarFns ProbabilityTheory MeasureTheory
open scoped NNReal

/-! ## 1. the value is the sum over individuals and dimensions of the documented log-density -/

/-- Gaussian, centred: `Σ_i Σ_d log N(ψ_id; μ_id, σ_id²)` -/
theorem C05_gauss_is_logpdf (nIds nDim : Nat) (th : Nat → Nat → Nat → ℝ) (eta : Nat → Nat → ℝ)
    (hs : ∀ i d, i < nIds → d < nDim → 0 < th i 1 d) :
    popLL (.gauss true) nIds nDim th eta
      = .val (isum2 nIds nDim (fun i d => Real.log
          (gaussianPDFReal (th i 0 d) (NNReal.mk (th i 1 d ^ 2) (sq_nonneg _)) (eta i d)))) := by
  rw [popLL_gauss_val nIds nDim th eta hs]
  congr 1
  unfold gaussCLLraw
  show -(isum2 _ _ _) = _
  rw [neg_isum2]
  refine isum2_congr _ _ _ _ fun i d hi hd => ?_
  have hp := hs i d hi hd
  rw [log_gaussianPDFReal _ _ _ hp]
  unfold gaussCTerm
  simp only [log_real, pi_real, two_real]
  rw [Real.log_mul (by positivity) (by positivity), Real.log_mul (by positivity) hp.ne']
  field_simp
  ring

/-- log-normal, centred: `Σ log ( N(log ψ; μ, σ²) / ψ )` — the density of the class docstring,
    `logNormalPDF` of `Props/C04.lean` -/
theorem C05_logn_is_logpdf (nIds nDim : Nat) (th : Nat → Nat → Nat → ℝ) (eta : Nat → Nat → ℝ)
    (hs : ∀ i d, i < nIds → d < nDim → 0 < th i 1 d)
    (hpsi : ∀ i d, i < nIds → d < nDim → 0 < eta i d) :
    popLL (.logn true) nIds nDim th eta
      = .val (isum2 nIds nDim (fun i d => Real.log
          (logNormalPDF (th i 0 d) (NNReal.mk (th i 1 d ^ 2) (sq_nonneg _)) (eta i d)))) := by
  rw [popLL_logn_val nIds nDim th eta hs hpsi]
  congr 1
  unfold lognCLLraw
  show -(isum2 _ _ _) = _
  rw [neg_isum2]
  refine isum2_congr _ _ _ _ fun i d hi hd => ?_
  have hp := hs i d hi hd
  have hy := hpsi i d hi hd
  unfold logNormalPDF
  rw [Real.log_div (gaussianPDFReal_pos _ _ _ (nnreal_sq_ne_zero hp)).ne' hy.ne',
    log_gaussianPDFReal _ _ _ hp]
  unfold lognCTerm
  simp only [log_real, pi_real, two_real]
  rw [Real.log_mul (by positivity) (by positivity), Real.log_mul (by positivity) hp.ne']
  field_simp
  ring

/-- truncated Gaussian on `[0, ∞)`: `Σ log ( N(ψ; μ, σ²) / (1 − Φ(−μ/σ)) )`, `Φ` Mathlib's
    standard normal cdf -/
theorem C05_trunc_is_logpdf (nIds nDim : Nat) (th : Nat → Nat → Nat → ℝ) (eta : Nat → Nat → ℝ)
    (hs : ∀ i d, i < nIds → d < nDim → 0 < th i 1 d)
    (hpsi : ∀ i d, i < nIds → d < nDim → 0 ≤ eta i d) :
    popLL .trunc nIds nDim th eta
      = .val (isum2 nIds nDim (fun i d =>
          Real.log (truncGaussPDF (th i 0 d) (th i 1 d) (eta i d)))) := by
  rw [popLL_trunc_val nIds nDim th eta hs hpsi]
  congr 1
  unfold truncLLraw
  show -(isum2 _ _ _) = _
  rw [neg_isum2]
  refine isum2_congr _ _ _ _ fun i d hi hd => ?_
  have hp := hs i d hi hd
  have h1 : 0 < 1 - Phi (-th i 0 d / th i 1 d) := by linarith [Phi_lt_one (-th i 0 d / th i 1 d)]
  unfold truncGaussPDF
  rw [Real.log_div (gaussianPDFReal_pos _ _ _ (nnreal_sq_ne_zero hp)).ne' h1.ne',
    log_gaussianPDFReal _ _ _ hp]
  unfold truncTerm
  simp only [log_real, pi_real, two_real, normCdf_real, ofNat_real, Nat.cast_one]
  rw [Real.log_mul (by positivity) (by positivity), Real.log_mul (by positivity) hp.ne']
  field_simp
  ring

open Set in
/-- the documented truncated-Gaussian density integrates to one over its support `[0, ∞)` -/
theorem C05_trunc_normalised (mu sigma : ℝ) (hs : 0 < sigma) :
    ∫ x in Ici (0:ℝ), truncGaussPDF mu sigma x = 1 := by
  unfold truncGaussPDF
  have hlt : 0 < 1 - Phi (-mu / sigma) := by linarith [Phi_lt_one (-mu / sigma)]
  rw [integral_div, gaussian_mass_Ici mu sigma hs, div_self hlt.ne']


/-- non-centred Gaussian and log-normal: the standard normal density of `η`, whatever the
    population parameters are -/
theorem C05_noncentred_is_logpdf (nIds nDim : Nat) (th : Nat → Nat → Nat → ℝ)
    (eta : Nat → Nat → ℝ) :
    popLL (.gauss false) nIds nDim th eta
      = .val (isum2 nIds nDim (fun i d => Real.log (gaussianPDFReal 0 1 (eta i d))))
    ∧ popLL (.logn false) nIds nDim th eta
      = .val (isum2 nIds nDim (fun i d => Real.log (gaussianPDFReal 0 1 (eta i d)))) := by
  have key : stdNormalLL nIds nDim eta
      = isum2 nIds nDim (fun i d => Real.log (gaussianPDFReal 0 1 (eta i d))) := by
    unfold stdNormalLL
    show -(isum2 _ _ _) = _
    rw [neg_isum2]
    refine isum2_congr _ _ _ _ fun i d _ _ => ?_
    have h := log_gaussianPDFReal 0 1 (eta i d) one_pos
    have e : NNReal.mk ((1:ℝ) ^ 2) (sq_nonneg _) = 1 := by ext; simp
    rw [e] at h
    rw [h]
    simp only [log_real, pi_real, two_real, Real.log_one]
    ring
  exact ⟨by simp [popLL, key], by simp [popLL, key]⟩

/-- pooled: a point mass at the shared value — `0` when every individual's entry equals the
    population parameter, `-∞` as soon as one differs -/
theorem C05_pooled_is_pointmass (nIds nDim : Nat) (th : Nat → Nat → Nat → ℝ) (eta : Nat → Nat → ℝ) :
    ((∀ i d, i < nIds → d < nDim → eta i d = th i 0 d) →
        popLL .pooled nIds nDim th eta = .val 0)
    ∧ ((∃ i d, i < nIds ∧ d < nDim ∧ eta i d ≠ th i 0 d) →
        popLL .pooled nIds nDim th eta = .negInf) := by
  refine ⟨popLL_pooled_val nIds nDim th eta, ?_⟩
  rintro ⟨i, d, hi, hd, hne⟩
  have hg : iany2 nIds nDim
      (fun i d => !(le (eta i d) (th i 0 d) && le (th i 0 d) (eta i d))) = true :=
    (iany2_real _ _ _).2 ⟨i, d, hi, hd, by
      simp only [le_real, Bool.not_eq_true', Bool.and_eq_false_iff, decide_eq_false_iff_not, not_le]
      rcases lt_or_gt_of_ne hne with h | h
      · exact Or.inr h
      · exact Or.inl h⟩
  unfold popLL
  simp only [hg, if_true]

/-- heterogeneous: a point mass at each individual's own value -/
theorem C05_hetero_is_pointmass (nIds nDim : Nat) (th : Nat → Nat → Nat → ℝ) (eta : Nat → Nat → ℝ) :
    ((∀ i d, i < nIds → d < nDim → eta i d = th i i d) →
        popLL .hetero nIds nDim th eta = .val 0)
    ∧ ((∃ i d, i < nIds ∧ d < nDim ∧ eta i d ≠ th i i d) →
        popLL .hetero nIds nDim th eta = .negInf) := by
  refine ⟨popLL_hetero_val nIds nDim th eta, ?_⟩
  rintro ⟨i, d, hi, hd, hne⟩
  have hg : iany2 nIds nDim
      (fun i d => !(le (eta i d) (th i i d) && le (th i i d) (eta i d))) = true :=
    (iany2_real _ _ _).2 ⟨i, d, hi, hd, by
      simp only [le_real, Bool.not_eq_true', Bool.and_eq_false_iff, decide_eq_false_iff_not, not_le]
      rcases lt_or_gt_of_ne hne with h | h
      · exact Or.inr h
      · exact Or.inl h⟩
  unfold popLL
  simp only [hg, if_true]

/-- outside the support the score is `-∞`: a non-positive scale (centred Gaussian, log-normal,
    truncated Gaussian), a non-positive individual parameter (log-normal), a negative one
    (truncated Gaussian) -/
theorem C05_guard (nIds nDim : Nat) (th : Nat → Nat → Nat → ℝ) (eta : Nat → Nat → ℝ) :
    ((∃ i d, i < nIds ∧ d < nDim ∧ th i 1 d ≤ 0) → popLL (.gauss true) nIds nDim th eta = .negInf)
    ∧ ((∃ i d, i < nIds ∧ d < nDim ∧ (th i 1 d ≤ 0 ∨ eta i d ≤ 0)) →
        popLL (.logn true) nIds nDim th eta = .negInf)
    ∧ ((∃ i d, i < nIds ∧ d < nDim ∧ (th i 1 d ≤ 0 ∨ eta i d < 0)) →
        popLL .trunc nIds nDim th eta = .negInf) := by
  refine ⟨?_, ?_, ?_⟩
  · rintro ⟨i, d, hi, hd, h⟩
    have hg : iany2 nIds nDim (fun i d => le (th i 1 d) zero) = true :=
      (iany2_real _ _ _).2 ⟨i, d, hi, hd, by simpa using h⟩
    unfold popLL
    simp only [hg, if_true]
  · rintro ⟨i, d, hi, hd, h⟩
    have hg : iany2 nIds nDim (fun i d => le (th i 1 d) zero || le (eta i d) zero) = true :=
      (iany2_real _ _ _).2 ⟨i, d, hi, hd, by simpa using h⟩
    unfold popLL
    simp only [hg, if_true]
  · rintro ⟨i, d, hi, hd, h⟩
    have hg : iany2 nIds nDim (fun i d => le (th i 1 d) zero || lt (eta i d) zero) = true :=
      (iany2_real _ _ _).2 ⟨i, d, hi, hd, by simpa using h⟩
    unfold popLL
    simp only [hg, if_true]

/-- non-vacuity: a point inside every support -/
example : popLL (.gauss true) 2 2 (fun _ p _ => if p = 0 then 0 else 1) (fun _ _ => (1:ℝ))
    = .val (isum2 2 2 (fun _ _ => Real.log (gaussianPDFReal 0 (NNReal.mk (1 ^ 2) (sq_nonneg _)) 1))) := by
  have := C05_gauss_is_logpdf 2 2 (fun _ p _ => if p = 0 then 0 else 1) (fun _ _ => (1:ℝ))
    (by intro i d _ _; simp)
  simpa using this

/-! ## 2. sensitivities are derivatives; upstream sensitivities are propagated by the chain rule

`HasGradientAt nIds nDim L g x`: the (unknown) sum of individual log-likelihoods `L`, as a function
of the individual parameters, has partial derivatives `g i d` at `x` — in the form in which it is
used: along every differentiable curve through `x`, `(L ∘ c)' = Σ g · c'`. The supplied
`dlogp_dpsi` plays the role of `g`; with `dlogp_dpsi = None` the model uses `g = 0` (take `L`
constant). Each theorem is a total derivative along an arbitrary curve of all arguments — per
individual locations / scales included (the tensor layout) — and therefore contains every partial
derivative (vary one coordinate, keep the others constant). -/

def HasGradientAt (nIds nDim : Nat) (L : (Nat → Nat → ℝ) → ℝ) (g : Nat → Nat → ℝ)
    (x : Nat → Nat → ℝ) : Prop :=
  ∀ (c : Nat → Nat → ℝ → ℝ) (c' : Nat → Nat → ℝ) (t : ℝ),
    (∀ i d, c i d t = x i d) → (∀ i d, i < nIds → d < nDim → HasDerivAt (c i d) (c' i d) t) →
    HasDerivAt (fun s => L (fun i d => c i d s)) (isum2 nIds nDim (fun i d => g i d * c' i d)) t

/-- non-vacuity of `HasGradientAt`: a linear upstream part has its coefficients as gradient -/
example (nIds nDim : Nat) (a x : Nat → Nat → ℝ) :
    HasGradientAt nIds nDim (fun psi => isum2 nIds nDim (fun i d => a i d * psi i d)) a x := by
  intro c c' t _ hc
  exact hasDerivAt_isum2 nIds nDim (fun i d s => a i d * c i d s) _ t
    (fun i d hi hd => (hc i d hi hd).const_mul (a i d))

/-- C05 (Gaussian, centred): along any differentiable curve of individual parameters `ψ`,
    locations `μ` and scales `σ`, upstream part + population log-density has derivative
    `Σ dpsi·ψ' + dθ₀·μ' + dθ₁·σ'` with the model's `dpsi` (which contains `dlogp_dpsi`) and `dtheta`. -/
theorem C05_gauss_grad (nIds nDim : Nat) (mu sg psi : Nat → Nat → ℝ → ℝ)
    (mu' sg' psi' : Nat → Nat → ℝ) (t : ℝ) (up : Option (Nat → Nat → ℝ))
    (L : (Nat → Nat → ℝ) → ℝ)
    (hmu : ∀ i d, i < nIds → d < nDim → HasDerivAt (mu i d) (mu' i d) t)
    (hsg : ∀ i d, i < nIds → d < nDim → HasDerivAt (sg i d) (sg' i d) t)
    (hpsi : ∀ i d, i < nIds → d < nDim → HasDerivAt (psi i d) (psi' i d) t)
    (hpos : ∀ i d, i < nIds → d < nDim → 0 < sg i d t)
    (hL : HasGradientAt nIds nDim L (upAt up) (fun i d => psi i d t)) :
    let so := popSens (.gauss true) nIds nDim (thOf (fun i d => mu i d t) (fun i d => sg i d t))
      (fun i d => psi i d t) up
    so.defined = true ∧
    so.score = .val (gaussCLLraw nIds nDim (fun i d => mu i d t) (fun i d => sg i d t)
      (fun i d => psi i d t)) ∧
    HasDerivAt (fun s => L (fun i d => psi i d s)
        + gaussCLLraw nIds nDim (fun i d => mu i d s) (fun i d => sg i d s) (fun i d => psi i d s))
      (isum2 nIds nDim (fun i d => so.dpsi i d * psi' i d + so.dtheta i 0 d * mu' i d
        + so.dtheta i 1 d * sg' i d)) t := by
  intro so
  have e : so = _ := popSens_gauss nIds nDim (thOf (fun i d => mu i d t) (fun i d => sg i d t))
    (fun i d => psi i d t) up (by intro i d hi hd; simpa [thOf] using hpos i d hi hd)
  refine ⟨by rw [e], by rw [e]; simp [thOf], ?_⟩
  have h1 := hL psi psi' t (fun _ _ => rfl) hpsi
  have h2 := hasDerivAt_isum2 nIds nDim
    (fun i d s => -(gaussCTerm (mu i d s) (sg i d s) (psi i d s))) _ t
    (fun i d hi hd => gaussCTerm_hasDerivAt (mu i d) (sg i d) (psi i d) _ _ _ t
      (hmu i d hi hd) (hsg i d hi hd) (hpsi i d hi hd) (hpos i d hi hd))
  have h := h1.add h2
  have hfun : (fun s => L (fun i d => psi i d s)
        + gaussCLLraw nIds nDim (fun i d => mu i d s) (fun i d => sg i d s) (fun i d => psi i d s))
      = (fun s => L (fun i d => psi i d s)
        + isum2 nIds nDim (fun i d => -(gaussCTerm (mu i d s) (sg i d s) (psi i d s)))) := by
    funext s
    unfold gaussCLLraw
    rw [← neg_isum2]
  rw [hfun]
  refine h.congr_deriv ?_
  rw [e, isum2_add]
  refine isum2_congr _ _ _ _ fun i d _ _ => ?_
  simp only [addUp_apply, thOf, if_true, one_ne_zero, if_false]
  ring

/-- C05 (log-normal, centred) -/
theorem C05_logn_grad (nIds nDim : Nat) (mu sg psi : Nat → Nat → ℝ → ℝ)
    (mu' sg' psi' : Nat → Nat → ℝ) (t : ℝ) (up : Option (Nat → Nat → ℝ))
    (L : (Nat → Nat → ℝ) → ℝ)
    (hmu : ∀ i d, i < nIds → d < nDim → HasDerivAt (mu i d) (mu' i d) t)
    (hsg : ∀ i d, i < nIds → d < nDim → HasDerivAt (sg i d) (sg' i d) t)
    (hpsi : ∀ i d, i < nIds → d < nDim → HasDerivAt (psi i d) (psi' i d) t)
    (hpos : ∀ i d, i < nIds → d < nDim → 0 < sg i d t)
    (hppos : ∀ i d, i < nIds → d < nDim → 0 < psi i d t)
    (hL : HasGradientAt nIds nDim L (upAt up) (fun i d => psi i d t)) :
    let so := popSens (.logn true) nIds nDim (thOf (fun i d => mu i d t) (fun i d => sg i d t))
      (fun i d => psi i d t) up
    so.defined = true ∧
    so.score = .val (lognCLLraw nIds nDim (fun i d => mu i d t) (fun i d => sg i d t)
      (fun i d => psi i d t)) ∧
    HasDerivAt (fun s => L (fun i d => psi i d s)
        + lognCLLraw nIds nDim (fun i d => mu i d s) (fun i d => sg i d s) (fun i d => psi i d s))
      (isum2 nIds nDim (fun i d => so.dpsi i d * psi' i d + so.dtheta i 0 d * mu' i d
        + so.dtheta i 1 d * sg' i d)) t := by
  intro so
  have e : so = _ := popSens_logn nIds nDim (thOf (fun i d => mu i d t) (fun i d => sg i d t))
    (fun i d => psi i d t) up (by intro i d hi hd; simpa [thOf] using hpos i d hi hd) hppos
  refine ⟨by rw [e], by rw [e]; simp [thOf], ?_⟩
  have h1 := hL psi psi' t (fun _ _ => rfl) hpsi
  have h2 := hasDerivAt_isum2 nIds nDim
    (fun i d s => -(lognCTerm (mu i d s) (sg i d s) (psi i d s))) _ t
    (fun i d hi hd => lognCTerm_hasDerivAt (mu i d) (sg i d) (psi i d) _ _ _ t
      (hmu i d hi hd) (hsg i d hi hd) (hpsi i d hi hd) (hpos i d hi hd) (hppos i d hi hd))
  have h := h1.add h2
  have hfun : (fun s => L (fun i d => psi i d s)
        + lognCLLraw nIds nDim (fun i d => mu i d s) (fun i d => sg i d s) (fun i d => psi i d s))
      = (fun s => L (fun i d => psi i d s)
        + isum2 nIds nDim (fun i d => -(lognCTerm (mu i d s) (sg i d s) (psi i d s)))) := by
    funext s
    unfold lognCLLraw
    rw [← neg_isum2]
  rw [hfun]
  refine h.congr_deriv ?_
  rw [e, isum2_add]
  refine isum2_congr _ _ _ _ fun i d _ _ => ?_
  simp only [addUp_apply, thOf, if_true, one_ne_zero, if_false]
  ring

/-- C05 (truncated Gaussian): `Φ' = φ` enters through the normalising constant -/
theorem C05_trunc_grad (nIds nDim : Nat) (mu sg psi : Nat → Nat → ℝ → ℝ)
    (mu' sg' psi' : Nat → Nat → ℝ) (t : ℝ) (up : Option (Nat → Nat → ℝ))
    (L : (Nat → Nat → ℝ) → ℝ)
    (hmu : ∀ i d, i < nIds → d < nDim → HasDerivAt (mu i d) (mu' i d) t)
    (hsg : ∀ i d, i < nIds → d < nDim → HasDerivAt (sg i d) (sg' i d) t)
    (hpsi : ∀ i d, i < nIds → d < nDim → HasDerivAt (psi i d) (psi' i d) t)
    (hpos : ∀ i d, i < nIds → d < nDim → 0 < sg i d t)
    (hppos : ∀ i d, i < nIds → d < nDim → 0 ≤ psi i d t)
    (hL : HasGradientAt nIds nDim L (upAt up) (fun i d => psi i d t)) :
    let so := popSens .trunc nIds nDim (thOf (fun i d => mu i d t) (fun i d => sg i d t))
      (fun i d => psi i d t) up
    so.defined = true ∧
    so.score = .val (truncLLraw nIds nDim (fun i d => mu i d t) (fun i d => sg i d t)
      (fun i d => psi i d t)) ∧
    HasDerivAt (fun s => L (fun i d => psi i d s)
        + truncLLraw nIds nDim (fun i d => mu i d s) (fun i d => sg i d s) (fun i d => psi i d s))
      (isum2 nIds nDim (fun i d => so.dpsi i d * psi' i d + so.dtheta i 0 d * mu' i d
        + so.dtheta i 1 d * sg' i d)) t := by
  intro so
  have e : so = _ := popSens_trunc nIds nDim (thOf (fun i d => mu i d t) (fun i d => sg i d t))
    (fun i d => psi i d t) up (by intro i d hi hd; simpa [thOf] using hpos i d hi hd) hppos
  refine ⟨by rw [e], by rw [e]; simp [thOf], ?_⟩
  have h1 := hL psi psi' t (fun _ _ => rfl) hpsi
  have h2 := hasDerivAt_isum2 nIds nDim
    (fun i d s => -(truncTerm (mu i d s) (sg i d s) (psi i d s))) _ t
    (fun i d hi hd => truncTerm_hasDerivAt (mu i d) (sg i d) (psi i d) _ _ _ t
      (hmu i d hi hd) (hsg i d hi hd) (hpsi i d hi hd) (hpos i d hi hd))
  have h := h1.add h2
  have hfun : (fun s => L (fun i d => psi i d s)
        + truncLLraw nIds nDim (fun i d => mu i d s) (fun i d => sg i d s) (fun i d => psi i d s))
      = (fun s => L (fun i d => psi i d s)
        + isum2 nIds nDim (fun i d => -(truncTerm (mu i d s) (sg i d s) (psi i d s)))) := by
    funext s
    unfold truncLLraw
    rw [← neg_isum2]
  rw [hfun]
  refine h.congr_deriv ?_
  rw [e, isum2_add]
  refine isum2_congr _ _ _ _ fun i d _ _ => ?_
  simp only [addUp_apply, thOf, if_true, one_ne_zero, if_false]
  ring

/-- C05 (Gaussian, non-centred): `ψ = μ + σ η`. The derivative of
    `L(ψ(η, μ, σ)) + log N(η; 0, 1)` along any curve of `(η, μ, σ)` is
    `Σ deta·η' + dθ₀·μ' + dθ₁·σ'` with the model's outputs: `∂/∂η = dlogp_dpsi·σ − η`,
    `∂/∂μ = dlogp_dpsi`, `∂/∂σ = dlogp_dpsi·η` (chain rule through `ψ`). -/
theorem C05_gaussNC_grad (nIds nDim : Nat) (mu sg eta : Nat → Nat → ℝ → ℝ)
    (mu' sg' eta' : Nat → Nat → ℝ) (t : ℝ) (up : Option (Nat → Nat → ℝ))
    (L : (Nat → Nat → ℝ) → ℝ)
    (hmu : ∀ i d, i < nIds → d < nDim → HasDerivAt (mu i d) (mu' i d) t)
    (hsg : ∀ i d, i < nIds → d < nDim → HasDerivAt (sg i d) (sg' i d) t)
    (heta : ∀ i d, i < nIds → d < nDim → HasDerivAt (eta i d) (eta' i d) t)
    (hnn : ∀ i d, i < nIds → d < nDim → 0 ≤ sg i d t)
    (hL : HasGradientAt nIds nDim L (upAt up) (fun i d => mu i d t + sg i d t * eta i d t)) :
    let so := popSens (.gauss false) nIds nDim (thOf (fun i d => mu i d t) (fun i d => sg i d t))
      (fun i d => eta i d t) up
    so.defined = true ∧
    so.score = .val (stdNormalLL nIds nDim (fun i d => eta i d t)) ∧
    HasDerivAt (fun s => L (fun i d => mu i d s + sg i d s * eta i d s)
        + stdNormalLL nIds nDim (fun i d => eta i d s))
      (isum2 nIds nDim (fun i d => so.dpsi i d * eta' i d + so.dtheta i 0 d * mu' i d
        + so.dtheta i 1 d * sg' i d)) t := by
  intro so
  have e : so = _ := popSens_gaussNC nIds nDim (thOf (fun i d => mu i d t) (fun i d => sg i d t))
    (fun i d => eta i d t) up (by intro i d hi hd; simpa [thOf] using hnn i d hi hd)
  refine ⟨by rw [e], by rw [e], ?_⟩
  have h1 := hL (fun i d s => mu i d s + sg i d s * eta i d s)
    (fun i d => mu' i d + (sg' i d * eta i d t + sg i d t * eta' i d)) t (fun _ _ => rfl)
    (fun i d hi hd => (hmu i d hi hd).add ((hsg i d hi hd).mul (heta i d hi hd)))
  have h2 := hasDerivAt_isum2 nIds nDim
    (fun i d s => -(Real.log (2 * Real.pi) / 2 + eta i d s * eta i d s / 2)) _ t
    (fun i d hi hd => stdNormalTerm_hasDerivAt (eta i d) _ t (heta i d hi hd))
  have h := h1.add h2
  simp only [stdNormalLL_eq]
  refine h.congr_deriv ?_
  rw [e, isum2_add]
  refine isum2_congr _ _ _ _ fun i d _ _ => ?_
  simp only [thOf, if_true, one_ne_zero, if_false, zero_real, oneS_real]
  ring

/-- C05 (log-normal, non-centred): `ψ = exp(μ + σ η)`:
    `∂/∂η = dlogp_dpsi·σψ − η`, `∂/∂μ = dlogp_dpsi·ψ`, `∂/∂σ = dlogp_dpsi·ηψ`. -/
theorem C05_lognNC_grad (nIds nDim : Nat) (mu sg eta : Nat → Nat → ℝ → ℝ)
    (mu' sg' eta' : Nat → Nat → ℝ) (t : ℝ) (up : Option (Nat → Nat → ℝ))
    (L : (Nat → Nat → ℝ) → ℝ)
    (hmu : ∀ i d, i < nIds → d < nDim → HasDerivAt (mu i d) (mu' i d) t)
    (hsg : ∀ i d, i < nIds → d < nDim → HasDerivAt (sg i d) (sg' i d) t)
    (heta : ∀ i d, i < nIds → d < nDim → HasDerivAt (eta i d) (eta' i d) t)
    (hnn : ∀ i d, i < nIds → d < nDim → 0 ≤ sg i d t)
    (hL : HasGradientAt nIds nDim L (upAt up)
      (fun i d => Real.exp (mu i d t + sg i d t * eta i d t))) :
    let so := popSens (.logn false) nIds nDim (thOf (fun i d => mu i d t) (fun i d => sg i d t))
      (fun i d => eta i d t) up
    so.defined = true ∧
    so.score = .val (stdNormalLL nIds nDim (fun i d => eta i d t)) ∧
    HasDerivAt (fun s => L (fun i d => Real.exp (mu i d s + sg i d s * eta i d s))
        + stdNormalLL nIds nDim (fun i d => eta i d s))
      (isum2 nIds nDim (fun i d => so.dpsi i d * eta' i d + so.dtheta i 0 d * mu' i d
        + so.dtheta i 1 d * sg' i d)) t := by
  intro so
  have e : so = _ := popSens_lognNC nIds nDim (thOf (fun i d => mu i d t) (fun i d => sg i d t))
    (fun i d => eta i d t) up (by intro i d hi hd; simpa [thOf] using hnn i d hi hd)
  refine ⟨by rw [e], by rw [e], ?_⟩
  have h1 := hL (fun i d s => Real.exp (mu i d s + sg i d s * eta i d s))
    (fun i d => Real.exp (mu i d t + sg i d t * eta i d t)
      * (mu' i d + (sg' i d * eta i d t + sg i d t * eta' i d))) t (fun _ _ => rfl)
    (fun i d hi hd => ((hmu i d hi hd).add ((hsg i d hi hd).mul (heta i d hi hd))).exp)
  have h2 := hasDerivAt_isum2 nIds nDim
    (fun i d s => -(Real.log (2 * Real.pi) / 2 + eta i d s * eta i d s / 2)) _ t
    (fun i d hi hd => stdNormalTerm_hasDerivAt (eta i d) _ t (heta i d hi hd))
  have h := h1.add h2
  simp only [stdNormalLL_eq]
  refine h.congr_deriv ?_
  rw [e, isum2_add]
  refine isum2_congr _ _ _ _ fun i d _ _ => ?_
  simp only [thOf, if_true, one_ne_zero, if_false, lnPsi, exp_real]
  ring

/-- C05 (pooled): on the point mass (`ψ_id = θ_d`) the score is `0`, `dpsi` is the upstream
    sensitivity, `dtheta = 0`, and the hierarchical (`reduce`) entries `Σ_i dpsi_id` are the
    derivative of the upstream part w.r.t. the pooled parameters. -/
theorem C05_pooled_grad (nIds nDim : Nat) (theta : Nat → ℝ → ℝ) (theta' : Nat → ℝ) (t : ℝ)
    (up : Option (Nat → Nat → ℝ)) (L : (Nat → Nat → ℝ) → ℝ)
    (hth : ∀ d, d < nDim → HasDerivAt (theta d) (theta' d) t)
    (hL : HasGradientAt nIds nDim L (upAt up) (fun _ d => theta d t)) :
    let so := popSens .pooled nIds nDim (fun _ _ d => theta d t) (fun _ d => theta d t) up
    so.defined = true ∧ so.score = .val 0 ∧
    (∀ i p d, so.dtheta i p d = 0) ∧ (∀ i d, so.dpsi i d = upAt up i d) ∧
    HasDerivAt (fun s => L (fun _ d => theta d s))
      (isum nDim (fun d => isum nIds (fun i => so.dpsi i d) * theta' d)) t := by
  intro so
  have e : so = _ := popSens_pooled nIds nDim (fun _ _ d => theta d t) (fun _ d => theta d t) up
    (fun _ _ _ _ => rfl)
  have hd : ∀ i d, so.dpsi i d = upAt up i d := by
    intro i d; rw [e]; simp [addUp_apply]
  refine ⟨by rw [e], by rw [e], by intro i p d; rw [e]; simp, hd, ?_⟩
  have h1 := hL (fun _ d s => theta d s) (fun _ d => theta' d) t (fun _ _ => rfl)
    (fun i d _ hd => hth d hd)
  refine h1.congr_deriv ?_
  simp only [isum2_eq, isum_eq, hd]
  rw [Finset.sum_comm]
  refine Finset.sum_congr rfl fun d _ => ?_
  rw [Finset.sum_mul]

/-- C05 (heterogeneous): `ψ_id = θ_id`; the hierarchical entries are `dpsi` itself. -/
theorem C05_hetero_grad (nIds nDim : Nat) (theta : Nat → Nat → ℝ → ℝ) (theta' : Nat → Nat → ℝ)
    (t : ℝ) (up : Option (Nat → Nat → ℝ)) (L : (Nat → Nat → ℝ) → ℝ)
    (hth : ∀ i d, i < nIds → d < nDim → HasDerivAt (theta i d) (theta' i d) t)
    (hL : HasGradientAt nIds nDim L (upAt up) (fun i d => theta i d t)) :
    let so := popSens .hetero nIds nDim (fun _ p d => theta p d t) (fun i d => theta i d t) up
    so.defined = true ∧ so.score = .val 0 ∧
    (∀ i p d, so.dtheta i p d = 0) ∧ (∀ i d, so.dpsi i d = upAt up i d) ∧
    HasDerivAt (fun s => L (fun i d => theta i d s))
      (isum2 nIds nDim (fun i d => so.dpsi i d * theta' i d)) t := by
  intro so
  have e : so = _ := popSens_hetero nIds nDim (fun _ p d => theta p d t) (fun i d => theta i d t) up
    (fun _ _ _ _ => rfl)
  have hd : ∀ i d, so.dpsi i d = upAt up i d := by
    intro i d; rw [e]; simp [addUp_apply]
  refine ⟨by rw [e], by rw [e], by intro i p d; rw [e]; simp, hd, ?_⟩
  have h1 := hL theta theta' t (fun _ _ => rfl) hth
  refine h1.congr_deriv ?_
  exact isum2_congr _ _ _ _ fun i d _ _ => by rw [hd]

/-! ## 3. the return forms agree; lengths match the reported counts -/

/-- C05 (return forms, hierarchical kinds): `reduce` is the flattened `dpsi` followed by the
    flattened `dtheta`; the flattened `dtheta` is the sum over individuals of the separate
    `(n_ids, 2, n_dim)` form, parameter-major; the flattened `dpsi` is individual-major. -/
theorem C05_forms_agree (k : Kind) (hk : k.hierarchical = true) (nIds nDim : Nat) (s : SensOut ℝ) :
    shapeReduce k nIds nDim s = flatPsi nIds nDim s.dpsi ++ shapeFlattened k nIds nDim s
    ∧ (∀ p d, p < 2 → d < nDim → (shapeFlattened k nIds nDim s).getD (p * nDim + d) 0
        = isum nIds (fun i => (((shapeSeparate k nIds nDim s).getD i []).getD p []).getD d 0))
    ∧ (∀ i d, i < nIds → d < nDim →
        (flatPsi nIds nDim s.dpsi).getD (i * nDim + d) 0 = s.dpsi i d
        ∧ ((psiRows nIds nDim s.dpsi).getD i []).getD d 0 = s.dpsi i d) := by
  have hflat : shapeFlattened k nIds nDim s = flatTheta nIds 2 nDim s.dtheta := by
    cases k <;> simp_all [shapeFlattened, Kind.hierarchical]
  have hper : k.perDim nIds = 2 := by cases k <;> simp_all [Kind.perDim, Kind.hierarchical]
  refine ⟨by cases k <;> simp_all [shapeReduce, shapeFlattened, Kind.hierarchical], ?_, ?_⟩
  · intro p d hp hd
    rw [hflat]
    unfold flatTheta
    rw [getD_flatMap_range 2 nDim _ p d hp hd]
    refine isum_congr _ _ _ fun i hi => ?_
    unfold shapeSeparate
    rw [getD_map_range nIds _ i hi, hper, getD_map_range 2 _ p hp, getD_map_range nDim _ d hd]
  · intro i d hi hd
    constructor
    · unfold flatPsi
      exact getD_flatMap_range nIds nDim _ i d hi hd 0
    · unfold psiRows
      rw [getD_map_range nIds _ i hi, getD_map_range nDim _ d hd]

/-- C05 (return forms, pooled): the hierarchical entry of dimension `d` is `Σ_i dpsi_id` plus the
    (zero) flattened `dtheta` entry -/
theorem C05_forms_agree_pooled (nIds nDim : Nat) (s : SensOut ℝ) (d : Nat) (hd : d < nDim) :
    (shapeReduce .pooled nIds nDim s).getD d 0
      = isum nIds (fun i => s.dpsi i d) + (shapeFlattened .pooled nIds nDim s).getD d 0
    ∧ (shapeFlattened .pooled nIds nDim s).getD d 0 = 0 := by
  have h0 : (shapeFlattened .pooled nIds nDim s).getD d 0 = 0 := by
    simp [shapeFlattened, hd]
  refine ⟨?_, h0⟩
  rw [h0, add_zero]
  unfold shapeReduce
  exact getD_map_range nDim _ d hd 0

/-- C05 (return forms, heterogeneous): the hierarchical entry of `(i, d)` is `dpsi_id` plus the
    (zero) flattened `dtheta` entry -/
theorem C05_forms_agree_hetero (nIds nDim : Nat) (s : SensOut ℝ) (i d : Nat) (hi : i < nIds)
    (hd : d < nDim) :
    (shapeReduce .hetero nIds nDim s).getD (i * nDim + d) 0
      = s.dpsi i d + (shapeFlattened .hetero nIds nDim s).getD (i * nDim + d) 0
    ∧ (shapeFlattened .hetero nIds nDim s).getD (i * nDim + d) 0 = 0 := by
  have hlt : i * nDim + d < nIds * nDim := by
    calc i * nDim + d < i * nDim + nDim := by omega
      _ = (i + 1) * nDim := by ring
      _ ≤ nIds * nDim := Nat.mul_le_mul_right nDim hi
  have h0 : (shapeFlattened .hetero nIds nDim s).getD (i * nDim + d) 0 = 0 := by
    simp [shapeFlattened, hlt]
  refine ⟨?_, h0⟩
  rw [h0, add_zero]
  unfold shapeReduce flatPsi
  exact getD_flatMap_range nIds nDim _ i d hi hd 0

/-- C05 (lengths): for every kind and every `nIds`, `nDim` the `reduce` vector has
    `n_bottom + n_top` entries (`n_hierarchical_parameters`), the flattened `dtheta` has
    `n_parameters` entries, the separate form has shape `(n_ids, n_per_dim, n_dim)`. -/
theorem C05_forms_lengths (k : Kind) (nIds nDim : Nat) (s : SensOut ℝ) :
    (shapeReduce k nIds nDim s).length
      = (k.nHierParams nIds nDim).1 + (k.nHierParams nIds nDim).2
    ∧ (shapeFlattened k nIds nDim s).length = k.nParams nIds nDim
    ∧ (shapeSeparate k nIds nDim s).length = nIds
    ∧ (∀ r ∈ shapeSeparate k nIds nDim s, r.length = k.perDim nIds ∧ ∀ q ∈ r, q.length = nDim)
    ∧ (flatPsi nIds nDim s.dpsi).length = nIds * nDim := by
  refine ⟨?_, ?_, by simp [shapeSeparate], ?_, by simp [flatPsi]⟩
  · cases k <;>
      simp [shapeReduce, flatPsi, flatTheta, Kind.nHierParams, Kind.nParams,
        Kind.perDim, Kind.hierarchical] <;> omega
  · cases k <;>
      simp [shapeFlattened, flatTheta, Kind.nParams, Kind.perDim] <;> omega
  · intro r hr
    simp only [shapeSeparate, List.mem_map, List.mem_range] at hr
    obtain ⟨i, _, rfl⟩ := hr
    refine ⟨by simp, ?_⟩
    intro q hq
    simp only [List.mem_map, List.mem_range] at hq
    obtain ⟨p, _, rfl⟩ := hq
    simp


/-! ## 4. a composed model is the sum of its parts on their own dimensions, parameters, covariates -/

section generic
variable {α : Type} [Add α] [Sub α] [Mul α] [Div α] [Neg α] [ScalarFns α] [HasErf α]

/-- **C05 (additivity).** For every list of sub-models — bare elementary models and
    covariate-wrapped ones in any order — the composed log-likelihood computed by the loop with
    running offsets equals the sum (Python's float addition, `-inf` absorbing) of the parts, part
    `k` evaluated on its own block of dimensions, of parameters and of covariate columns, the blocks
    starting where the preceding parts end (`partLL`; a wrapped part sees `ϑ_i = ϑ₀ + β χ_i` built
    from its own slice). Holds for any scalar type (so also for `Float`). -/
theorem C05_composed_additive (nIds : Nat) (subs : List SubModel) (params : Nat → α)
    (obs cov : Nat → Nat → α) :
    composedLL nIds subs params obs cov = composedLLSpec nIds subs params obs cov := by
  unfold composedLL composedLLSpec
  rw [composedLLGo_eq]
  congr 1
  funext a k
  unfold partLLFrom partLL
  cases subs[k]? <;> simp

end generic

/-- **C05 (additivity, in numbers).** If every part is inside its support with value `v k`, the
    composed model returns `Σ_k v k`; if some part scores `-∞`, so does the composed model. -/
theorem C05_composed_additive_val (nIds : Nat) (subs : List SubModel) (params : Nat → ℝ)
    (obs cov : Nat → Nat → ℝ) :
    (∀ v : Nat → ℝ, (∀ k, k < subs.length → partLL nIds subs params obs cov k = .val (v k)) →
      composedLL nIds subs params obs cov = .val (isum subs.length v))
    ∧ ((∃ k, k < subs.length ∧ partLL nIds subs params obs cov k = .negInf) →
      composedLL nIds subs params obs cov = .negInf) := by
  rw [C05_composed_additive]
  unfold composedLLSpec
  have hu : ∀ k, k < subs.length → partLL nIds subs params obs cov k ≠ .undefined := by
    intro k hk
    unfold partLL
    rw [List.getElem?_eq_getElem hk]
    exact popLL_ne_undefined _ _ _ _ _
  constructor
  · intro v hv
    have := foldl_add_val subs.length (partLL nIds subs params obs cov) v 0 hv
    simpa [Score.zero] using this
  · rintro ⟨k, hk, hp⟩
    exact foldl_add_hits_negInf subs.length _ hu _ (by simp [Score.zero]) k hk hp

/-- **C05 (a covariate-wrapped part is the documented density with individual-specific
    parameters).** Behind a covariate model the kernel receives `ϑ_i = covTh(ϑ₀, β, χ_i)`; e.g. for a
    wrapped centred Gaussian part the value is `Σ_i Σ_d log N(ψ_id; μ_id, σ_id²)` with
    `(μ_id, σ_id) = ϑ_i[·, d]` (instance of `C05_gauss_is_logpdf`; the other kinds alike). -/
theorem C05_covariate_part_is_logpdf (nIds : Nat) (s : SubModel) (hk : s.kind = .gauss true)
    (hc : s.nCov ≠ 0) (params : Nat → ℝ) (curParam curCov : Nat) (obs cov : Nat → Nat → ℝ)
    (hs : ∀ i d, i < nIds → d < s.nDim →
      0 < covTh (s.cfg nIds) (fun j => params (curParam + j)) (sliceCov cov curCov) i 1 d) :
    popLL s.kind nIds s.nDim (pcSubTh nIds s params curParam cov curCov) obs
      = .val (isum2 nIds s.nDim (fun i d => Real.log (ProbabilityTheory.gaussianPDFReal
          (covTh (s.cfg nIds) (fun j => params (curParam + j)) (sliceCov cov curCov) i 0 d)
          (NNReal.mk (covTh (s.cfg nIds) (fun j => params (curParam + j)) (sliceCov cov curCov) i 1 d ^ 2)
            (sq_nonneg _)) (obs i d)))) := by
  rw [hk]
  unfold pcSubTh
  rw [if_neg hc]
  exact C05_gauss_is_logpdf nIds s.nDim _ obs hs


/-! ## 5. the value, the sensitivities and the individual parameters do not depend on the layout -/

section generic5
variable {α : Type} [Add α] [Sub α] [Mul α] [Div α] [Neg α] [ScalarFns α] [HasErf α]

/-- **C05 (layout invariance), intended reading of the `ndim` branches.** For every kind, every
    `nIds ≥ 1`, `nDim ≥ 1` and every table of parameter values `m p d`: whichever two of the three
    accepted layouts (flat vector, `(n_param_per_dim, n_dim)` matrix, per-individual tensor) carry
    these values, `compute_log_likelihood`, `compute_sensitivities` (score, and the gradients in the
    separate, flattened and reduce forms) and `compute_individual_parameters` return the same —
    namely the kernel applied to the bare values (`llCanon`, `sensCanon`, `indivCanon`). -/
theorem C05_layout_invariant (k : Kind) (nIds nDim : Nat) (hI : 0 < nIds) (hD : 0 < nDim)
    (m : Nat → Nat → α) (lay lay' : Layout α)
    (h : IsLayoutOf nIds (k.perDim nIds) nDim m lay) (h' : IsLayoutOf nIds (k.perDim nIds) nDim m lay')
    (obs : Nat → Nat → α) (up : Option (Nat → Nat → α)) (eta : EtaArg α) (ret : Bool)
    (hn : eta.nRows nIds = nIds) :
    llLayout false k nIds nDim lay obs = llLayout false k nIds nDim lay' obs
    ∧ Except.map (sensObs k nIds nDim) (sensLayout false k nIds nDim lay obs up)
      = Except.map (sensObs k nIds nDim) (sensLayout false k nIds nDim lay' obs up)
    ∧ indivLayout false k nIds nDim lay eta ret = indivLayout false k nIds nDim lay' eta ret
    ∧ llLayout false k nIds nDim lay obs = .ok (llCanon k nIds nDim m obs) := by
  have l1 := llLayout_eq_canon false k nIds nDim m lay obs h hI hD
  have l2 := llLayout_eq_canon false k nIds nDim m lay' obs h' hI hD
  have s1 := sensLayout_eq_canon false k nIds nDim m lay obs up h hI hD (by simp)
  have s2 := sensLayout_eq_canon false k nIds nDim m lay' obs up h' hI hD (by simp)
  have i1 := indivLayout_eq_canon false k nIds nDim m lay eta ret h hI hD hn (by simp)
  have i2 := indivLayout_eq_canon false k nIds nDim m lay' eta ret h' hI hD hn (by simp)
  exact ⟨by rw [l1, l2], by rw [s1, s2], by rw [i1, i2], l1⟩

/-- **C05 (layout invariance), the code as it is.** For `compute_log_likelihood` of every class the
    statement holds without restriction (the heterogeneous model's tensor reading was repaired in
    `04b584d`). For `compute_sensitivities` and `compute_individual_parameters` it holds whenever
    the two layouts avoid the remaining recorded slips: no matrix layout for
    `LogNormalModel.compute_sensitivities` and for the non-centred `compute_individual_parameters`
    (the `n_parameters = parameters[np.newaxis, ...]` branches, pinned by the unedited suite). -/
theorem C05_layout_invariant_partial (k : Kind) (nIds nDim : Nat) (hI : 0 < nIds) (hD : 0 < nDim)
    (m : Nat → Nat → α) (lay lay' : Layout α)
    (h : IsLayoutOf nIds (k.perDim nIds) nDim m lay) (h' : IsLayoutOf nIds (k.perDim nIds) nDim m lay')
    (obs : Nat → Nat → α) (up : Option (Nat → Nat → α)) (eta : EtaArg α) (ret : Bool)
    (hn : eta.nRows nIds = nIds) :
    llLayout true k nIds nDim lay obs = llLayout true k nIds nDim lay' obs
    ∧ ((sensTypo k = true → lay.isMatrix = false ∧ lay'.isMatrix = false) →
      Except.map (sensObs k nIds nDim) (sensLayout true k nIds nDim lay obs up)
        = Except.map (sensObs k nIds nDim) (sensLayout true k nIds nDim lay' obs up))
    ∧ ((k = .gauss false ∨ k = .logn false → ret = false →
          lay.isMatrix = false ∧ lay'.isMatrix = false) →
      indivLayout true k nIds nDim lay eta ret = indivLayout true k nIds nDim lay' eta ret) := by
  refine ⟨?_, ?_, ?_⟩
  · rw [llLayout_eq_canon true k nIds nDim m lay obs h hI hD,
      llLayout_eq_canon true k nIds nDim m lay' obs h' hI hD]
  · intro ht
    rw [sensLayout_eq_canon true k nIds nDim m lay obs up h hI hD (fun _ hk => (ht hk).1),
      sensLayout_eq_canon true k nIds nDim m lay' obs up h' hI hD (fun _ hk => (ht hk).2)]
  · intro hm
    have side : ∀ l : Layout α, (k = .gauss false ∨ k = .logn false → ret = false →
        l.isMatrix = false) → l.isMatrix = false ∨ ret = true
          ∨ (k ≠ .gauss false ∧ k ≠ .logn false) := by
      intro l hl
      by_cases hk : k = .gauss false ∨ k = .logn false
      · cases ret
        · exact Or.inl (hl hk rfl)
        · exact Or.inr (Or.inl rfl)
      · exact Or.inr (Or.inr ⟨fun e => hk (Or.inl e), fun e => hk (Or.inr e)⟩)
    rw [indivLayout_eq_canon true k nIds nDim m lay eta ret h hI hD hn
        (fun _ => side lay (fun a b => (hm a b).1)),
      indivLayout_eq_canon true k nIds nDim m lay' eta ret h' hI hD hn
        (fun _ => side lay' (fun a b => (hm a b).2))]

/-- **C05 (layout invariance of the heterogeneous and pooled models, the code as it is).** The
    point-mass models contain no slip any more: value, sensitivities in all three forms and
    individual parameters agree for every pair of layouts — the full statement, no side condition. -/
theorem C05_delta_layout_invariant (k : Kind) (hk : k = .pooled ∨ k = .hetero) (nIds nDim : Nat)
    (hI : 0 < nIds) (hD : 0 < nDim) (m : Nat → Nat → α) (lay lay' : Layout α)
    (h : IsLayoutOf nIds (k.perDim nIds) nDim m lay) (h' : IsLayoutOf nIds (k.perDim nIds) nDim m lay')
    (obs : Nat → Nat → α) (up : Option (Nat → Nat → α)) (eta : EtaArg α) (ret : Bool)
    (hn : eta.nRows nIds = nIds) :
    llLayout true k nIds nDim lay obs = llLayout true k nIds nDim lay' obs
    ∧ Except.map (sensObs k nIds nDim) (sensLayout true k nIds nDim lay obs up)
        = Except.map (sensObs k nIds nDim) (sensLayout true k nIds nDim lay' obs up)
    ∧ indivLayout true k nIds nDim lay eta ret = indivLayout true k nIds nDim lay' eta ret := by
  have hp := C05_layout_invariant_partial k nIds nDim hI hD m lay lay' h h' obs up eta ret hn
  refine ⟨hp.1, hp.2.1 ?_, hp.2.2 ?_⟩
  · intro ht; rcases hk with rfl | rfl <;> simp [sensTypo] at ht
  · intro hk'; rcases hk with rfl | rfl <;> simp at hk'

end generic5

/-- **C05 counterexample (matrix layout, legacy).** `GaussianModel(n_dim=2, centered=False)` with
    `μ = (1, 2)`, `σ = (3, 4)`, `η = (1, 1)`: the flat layout gives `ψ = μ + σ η = (4, 6)`, the
    `(n_param_per_dim, n_dim)` matrix `[[1, 2], [3, 4]]` of the same values gives `(3, 7)` (column 0
    is read as `μ`, column 1 as `σ`); for `n_dim = 1` the matrix layout raises `IndexError`, for
    `n_dim = 3` `ValueError` (broadcast). The intended branch returns `(4, 6)`.
    `LogNormalModel.compute_sensitivities` has the same slip (last two lines). -/
theorem C05_matrix_layout_counterexample :
    indivLayout true (.gauss false) 1 2 (.flat [1, 2, 3, 4]) (.mat [[(1:ℝ), 1]]) false
      = .ok [[.val 4, .val 6]]
    ∧ indivLayout true (.gauss false) 1 2 (.matrix [[1, 2], [3, 4]]) (.mat [[(1:ℝ), 1]]) false
      = .ok [[.val 3, .val 7]]
    ∧ indivLayout false (.gauss false) 1 2 (.matrix [[1, 2], [3, 4]]) (.mat [[(1:ℝ), 1]]) false
      = .ok [[.val 4, .val 6]]
    ∧ indivLayout true (.gauss false) 1 1 (.matrix [[1], [3]]) (.mat [[(1:ℝ)]]) false
      = .error .indexError
    ∧ indivLayout true (.gauss false) 1 3 (.matrix [[1, 2, 5], [3, 4, 6]]) (.mat [[(1:ℝ), 1, 1]]) false
      = .error .valueError
    -- the same slip in `LogNormalModel.compute_sensitivities`
    ∧ sensLayout true (.logn true) 1 1 (.matrix [[(0:ℝ)], [1]]) (fun _ _ => 1) none
      = .error .indexError
    ∧ sensLayout true (.logn false) 2 3 (.matrix [[(0:ℝ), 1, 2], [1, 1, 1]]) (fun _ _ => 1) none
      = .error .valueError := by
  refine ⟨?_, ?_, ?_, ?_, ?_, ?_, ?_⟩
  all_goals
    simp [indivLayout, sensLayout, sensTypo, muSigma, normalise, reshape2, chunk, NArr.col, Arr2.any,
      Arr2.bc, withMuSigma, thOf, psiMat, EtaArg.view, EtaArg.nRows, iany2, iany, List.range_succ]
  all_goals norm_num


/-- **C05 counterexample (heterogeneous model, tensor layout, code before `04b584d`).** Two
    individuals with own values `1` and `2`, observations equal to them: flat and matrix layouts
    score `0`; the per-individual tensor of the same values scored `-∞` (everybody was compared with
    individual 0's value, `parameters[:, 0, :]` — `heteroLLPreFix`), although
    `compute_individual_parameters` reads the diagonal of the same tensor and returns `(1, 2)`.
    The code as it is (`llLayout true`) scores `0`. -/
theorem C05_hetero_tensor_counterexample :
    llLayout true .hetero 2 1 (.flat [(1:ℝ), 2]) (fun i _ => if i = 0 then 1 else 2) = .ok (.val 0)
    ∧ llLayout true .hetero 2 1 (.matrix [[(1:ℝ)], [2]]) (fun i _ => if i = 0 then 1 else 2)
        = .ok (.val 0)
    ∧ heteroLLPreFix 2 1 (.tensor [[[(1:ℝ)], [2]], [[1], [2]]])
        (fun i _ => if i = 0 then 1 else 2) = .ok .negInf
    ∧ llLayout true .hetero 2 1 (.tensor [[[(1:ℝ)], [2]], [[1], [2]]])
        (fun i _ => if i = 0 then 1 else 2) = .ok (.val 0)
    ∧ indivLayout true .hetero 2 1 (.tensor [[[(1:ℝ)], [2]], [[1], [2]]]) (.mat [[0], [0]]) false
        = .ok [[.val 1], [.val 2]] := by
  refine ⟨?_, ?_, ?_, ?_, ?_⟩
  all_goals
    simp [llLayout, heteroLLPreFix, indivLayout, heteroDrawn, deltaArr, deltaTh, reshape2, chunk, matArr, NArr.col,
      Arr2.bc, popLL, psiMat, iany2, iany, List.range_succ]


/-! ## 6. sensitivities of a composed model: block by block from the parts; lengths -/

section generic6
variable {α : Type} [Add α] [Sub α] [Mul α] [Div α] [Neg α] [ScalarFns α] [HasErf α]

/-- **C05 (additivity of the sensitivities).** For every list of sub-models (bare or
    covariate-wrapped): the composed model's separate form (`_compute_sensitivities`) and
    hierarchical form (`_compute_reduced_sensitivities`) are assembled, block by block and in
    order, from the sensitivities of each part evaluated on its own dimensions, parameters,
    covariate columns and upstream sensitivities (`partSens`): scores add, `dpsi` columns and
    flattened `dtheta` blocks (`subFlattened`: a bare model's `Σ_i dθ`, a wrapped model's
    `hstack(dpop, dcov)`) are concatenated; in the hierarchical form a part's bottom entries go to
    the individual-level block and the remainder of its `reduce` vector (`subReduce`) to the top
    block. -/
theorem C05_composed_reduced_eq (nIds : Nat) (subs : List SubModel) (params : Nat → α)
    (obs cov : Nat → Nat → α) (up : Option (Nat → Nat → α)) :
    composedSens nIds subs params obs cov up
      = (List.range subs.length).foldl
          (fun a k => sepStep nIds a (partSens nIds subs params obs cov up k))
          ⟨Score.zero, true, [], []⟩
    ∧ composedRedGo nIds params obs cov up subs 0 0 0 ⟨Score.zero, true, [], []⟩
      = (List.range subs.length).foldl
          (fun a k => redStep nIds a (partSens nIds subs params obs cov up k))
          ⟨Score.zero, true, [], []⟩ :=
  ⟨composedSensGo_eq nIds params obs cov up subs 0 0 0 _,
   composedRedGo_eq nIds params obs cov up subs 0 0 0 _⟩


/-- **C05 (lengths of the composed forms).** For every list of sub-models (bare or
    covariate-wrapped) and every `nIds`: the hierarchical gradient has `n_bottom + n_top` entries
    (`n_hierarchical_parameters`, itself the sum over the parts), the separate form has
    `n_parameters` population entries and one `dpsi` column per dimension. -/
theorem C05_composed_lengths (nIds : Nat) (subs : List SubModel) (params : Nat → α)
    (obs cov : Nat → Nat → α) (up : Option (Nat → Nat → α)) :
    (composedReduced nIds subs params obs cov up).2.2.length
      = (composedNHier nIds subs).1 + (composedNHier nIds subs).2
    ∧ (composedSens nIds subs params obs cov up).dtheta.length = composedNParams nIds subs
    ∧ (composedSens nIds subs params obs cov up).cols.length = composedNDim subs := by
  refine ⟨?_, ?_, ?_⟩
  · unfold composedReduced
    simp only [List.length_append, length_flatMap_cols]
    have := composedRedGo_length nIds params obs cov up subs 0 0 0 ⟨Score.zero, true, [], []⟩
    simpa using this
  · have := (composedSensGo_length nIds params obs cov up subs 0 0 0 ⟨Score.zero, true, [], []⟩).1
    simpa [composedSens] using this
  · have := (composedSensGo_length nIds params obs cov up subs 0 0 0 ⟨Score.zero, true, [], []⟩).2
    simpa [composedSens] using this

end generic6

/-! ## 7. entry `j` of the `reduce` vector is the `j`-th partial derivative

The statements of section 2 specialised to the curves that move one coordinate of the hierarchical
parameter vector `z = (η individual-major, μ_0 … μ_{n-1}, σ_0 … σ_{n-1})` — the form in which
`HierarchicalLogLikelihood.evaluateS1` publishes the gradient: for every `j < n_ids·n_dim + 2·n_dim`,
`reduce[j] = ∂/∂z_j ( L(ψ(z)) + log p(η | θ) )`. -/

def etaOf (nDim : Nat) (z : Nat → ℝ) : Nat → Nat → ℝ := fun i d => z (i * nDim + d)
def muOf (nIds nDim : Nat) (z : Nat → ℝ) : Nat → Nat → ℝ := fun _ d => z (nIds * nDim + d)
def sgOf (nIds nDim : Nat) (z : Nat → ℝ) : Nat → Nat → ℝ := fun _ d => z (nIds * nDim + nDim + d)

theorem C05_gauss_reduce_is_gradient (nIds nDim : Nat) (z : Nat → ℝ) (up : Option (Nat → Nat → ℝ))
    (L : (Nat → Nat → ℝ) → ℝ)
    (hpos : ∀ d, d < nDim → 0 < z (nIds * nDim + nDim + d))
    (hL : HasGradientAt nIds nDim L (upAt up) (etaOf nDim z))
    (j : Nat) (hj : j < nIds * nDim + 2 * nDim) :
    HasDerivAt (fun x => L (etaOf nDim (Function.update z j x))
        + gaussCLLraw nIds nDim (muOf nIds nDim (Function.update z j x))
            (sgOf nIds nDim (Function.update z j x)) (etaOf nDim (Function.update z j x)))
      ((shapeReduce (.gauss true) nIds nDim (popSens (.gauss true) nIds nDim
        (thOf (muOf nIds nDim z) (sgOf nIds nDim z)) (etaOf nDim z) up)).getD j 0) (z j) := by
  have h := C05_gauss_grad nIds nDim
    (fun _ d s => Function.update z j s (nIds * nDim + d))
    (fun _ d s => Function.update z j s (nIds * nDim + nDim + d))
    (fun i d s => Function.update z j s (i * nDim + d))
    (fun _ d => indP (nIds * nDim) j d) (fun _ d => indP (nIds * nDim + nDim) j d)
    (fun i d => indE nDim j i d) (z j) up L
    (fun _ d _ _ => hasDerivAt_update_coord z j _) (fun _ d _ _ => hasDerivAt_update_coord z j _)
    (fun i d _ _ => hasDerivAt_update_coord z j _)
    (by intro i d _ hd; simpa [Function.update_eq_self] using hpos d hd)
    (by simp only [Function.update_eq_self]; exact hL)
  simp only [Function.update_eq_self] at h
  have h3 := h.2.2
  refine h3.congr_deriv ?_
  exact reduce_entry nIds nDim _ j hj



theorem C05_logn_reduce_is_gradient (nIds nDim : Nat) (z : Nat → ℝ) (up : Option (Nat → Nat → ℝ))
    (L : (Nat → Nat → ℝ) → ℝ)
    (hpos : ∀ d, d < nDim → 0 < z (nIds * nDim + nDim + d))
    (hppos : ∀ i d, i < nIds → d < nDim → 0 < z (i * nDim + d))
    (hL : HasGradientAt nIds nDim L (upAt up) (etaOf nDim z))
    (j : Nat) (hj : j < nIds * nDim + 2 * nDim) :
    HasDerivAt (fun x => L (etaOf nDim (Function.update z j x))
        + lognCLLraw nIds nDim (muOf nIds nDim (Function.update z j x))
            (sgOf nIds nDim (Function.update z j x)) (etaOf nDim (Function.update z j x)))
      ((shapeReduce (.logn true) nIds nDim (popSens (.logn true) nIds nDim
        (thOf (muOf nIds nDim z) (sgOf nIds nDim z)) (etaOf nDim z) up)).getD j 0) (z j) := by
  have h := C05_logn_grad nIds nDim
    (fun _ d s => Function.update z j s (nIds * nDim + d))
    (fun _ d s => Function.update z j s (nIds * nDim + nDim + d))
    (fun i d s => Function.update z j s (i * nDim + d))
    (fun _ d => indP (nIds * nDim) j d) (fun _ d => indP (nIds * nDim + nDim) j d)
    (fun i d => indE nDim j i d) (z j) up L
    (fun _ d _ _ => hasDerivAt_update_coord z j _) (fun _ d _ _ => hasDerivAt_update_coord z j _)
    (fun i d _ _ => hasDerivAt_update_coord z j _)
    (by intro i d _ hd; simpa [Function.update_eq_self] using hpos d hd)
    (by intro i d hi hd; simpa [Function.update_eq_self] using hppos i d hi hd)
    (by simp only [Function.update_eq_self]; exact hL)
  simp only [Function.update_eq_self] at h
  exact h.2.2.congr_deriv (reduce_entry nIds nDim _ j hj)

theorem C05_trunc_reduce_is_gradient (nIds nDim : Nat) (z : Nat → ℝ) (up : Option (Nat → Nat → ℝ))
    (L : (Nat → Nat → ℝ) → ℝ)
    (hpos : ∀ d, d < nDim → 0 < z (nIds * nDim + nDim + d))
    (hppos : ∀ i d, i < nIds → d < nDim → 0 ≤ z (i * nDim + d))
    (hL : HasGradientAt nIds nDim L (upAt up) (etaOf nDim z))
    (j : Nat) (hj : j < nIds * nDim + 2 * nDim) :
    HasDerivAt (fun x => L (etaOf nDim (Function.update z j x))
        + truncLLraw nIds nDim (muOf nIds nDim (Function.update z j x))
            (sgOf nIds nDim (Function.update z j x)) (etaOf nDim (Function.update z j x)))
      ((shapeReduce .trunc nIds nDim (popSens .trunc nIds nDim
        (thOf (muOf nIds nDim z) (sgOf nIds nDim z)) (etaOf nDim z) up)).getD j 0) (z j) := by
  have h := C05_trunc_grad nIds nDim
    (fun _ d s => Function.update z j s (nIds * nDim + d))
    (fun _ d s => Function.update z j s (nIds * nDim + nDim + d))
    (fun i d s => Function.update z j s (i * nDim + d))
    (fun _ d => indP (nIds * nDim) j d) (fun _ d => indP (nIds * nDim + nDim) j d)
    (fun i d => indE nDim j i d) (z j) up L
    (fun _ d _ _ => hasDerivAt_update_coord z j _) (fun _ d _ _ => hasDerivAt_update_coord z j _)
    (fun i d _ _ => hasDerivAt_update_coord z j _)
    (by intro i d _ hd; simpa [Function.update_eq_self] using hpos d hd)
    (by intro i d hi hd; simpa [Function.update_eq_self] using hppos i d hi hd)
    (by simp only [Function.update_eq_self]; exact hL)
  simp only [Function.update_eq_self] at h
  exact h.2.2.congr_deriv (reduce_entry nIds nDim _ j hj)

theorem C05_gaussNC_reduce_is_gradient (nIds nDim : Nat) (z : Nat → ℝ)
    (up : Option (Nat → Nat → ℝ)) (L : (Nat → Nat → ℝ) → ℝ)
    (hnn : ∀ d, d < nDim → 0 ≤ z (nIds * nDim + nDim + d))
    (hL : HasGradientAt nIds nDim L (upAt up)
      (fun i d => muOf nIds nDim z i d + sgOf nIds nDim z i d * etaOf nDim z i d))
    (j : Nat) (hj : j < nIds * nDim + 2 * nDim) :
    HasDerivAt (fun x => L (fun i d => muOf nIds nDim (Function.update z j x) i d
          + sgOf nIds nDim (Function.update z j x) i d * etaOf nDim (Function.update z j x) i d)
        + stdNormalLL nIds nDim (etaOf nDim (Function.update z j x)))
      ((shapeReduce (.gauss false) nIds nDim (popSens (.gauss false) nIds nDim
        (thOf (muOf nIds nDim z) (sgOf nIds nDim z)) (etaOf nDim z) up)).getD j 0) (z j) := by
  have h := C05_gaussNC_grad nIds nDim
    (fun _ d s => Function.update z j s (nIds * nDim + d))
    (fun _ d s => Function.update z j s (nIds * nDim + nDim + d))
    (fun i d s => Function.update z j s (i * nDim + d))
    (fun _ d => indP (nIds * nDim) j d) (fun _ d => indP (nIds * nDim + nDim) j d)
    (fun i d => indE nDim j i d) (z j) up L
    (fun _ d _ _ => hasDerivAt_update_coord z j _) (fun _ d _ _ => hasDerivAt_update_coord z j _)
    (fun i d _ _ => hasDerivAt_update_coord z j _)
    (by intro i d _ hd; simpa [Function.update_eq_self] using hnn d hd)
    (by simp only [Function.update_eq_self]; exact hL)
  simp only [Function.update_eq_self] at h
  exact h.2.2.congr_deriv (reduce_entry nIds nDim _ j hj)

theorem C05_lognNC_reduce_is_gradient (nIds nDim : Nat) (z : Nat → ℝ)
    (up : Option (Nat → Nat → ℝ)) (L : (Nat → Nat → ℝ) → ℝ)
    (hnn : ∀ d, d < nDim → 0 ≤ z (nIds * nDim + nDim + d))
    (hL : HasGradientAt nIds nDim L (upAt up)
      (fun i d => Real.exp (muOf nIds nDim z i d + sgOf nIds nDim z i d * etaOf nDim z i d)))
    (j : Nat) (hj : j < nIds * nDim + 2 * nDim) :
    HasDerivAt (fun x => L (fun i d => Real.exp (muOf nIds nDim (Function.update z j x) i d
          + sgOf nIds nDim (Function.update z j x) i d * etaOf nDim (Function.update z j x) i d))
        + stdNormalLL nIds nDim (etaOf nDim (Function.update z j x)))
      ((shapeReduce (.logn false) nIds nDim (popSens (.logn false) nIds nDim
        (thOf (muOf nIds nDim z) (sgOf nIds nDim z)) (etaOf nDim z) up)).getD j 0) (z j) := by
  have h := C05_lognNC_grad nIds nDim
    (fun _ d s => Function.update z j s (nIds * nDim + d))
    (fun _ d s => Function.update z j s (nIds * nDim + nDim + d))
    (fun i d s => Function.update z j s (i * nDim + d))
    (fun _ d => indP (nIds * nDim) j d) (fun _ d => indP (nIds * nDim + nDim) j d)
    (fun i d => indE nDim j i d) (z j) up L
    (fun _ d _ _ => hasDerivAt_update_coord z j _) (fun _ d _ _ => hasDerivAt_update_coord z j _)
    (fun i d _ _ => hasDerivAt_update_coord z j _)
    (by intro i d _ hd; simpa [Function.update_eq_self] using hnn d hd)
    (by simp only [Function.update_eq_self]; exact hL)
  simp only [Function.update_eq_self] at h
  exact h.2.2.congr_deriv (reduce_entry nIds nDim _ j hj)


/-! ## 8. behind a covariate model: the gradient contract of the wrapped model

A `CovariatePopulationModel` hands the wrapped model the per-individual tensor `ϑ_i` and pushes the
wrapped model's separate-form `dtheta` (`dvartheta`) through `LinearCovariateModel.
compute_sensitivities` (`covSens`, C07). `C07_grad_hasDerivAt` proves that `covSens g` is the
gradient w.r.t. `(ϑ₀, β)` of `L ∘ ϑ` for ANY `L` whose derivative along tensor curves is
`Σ_{i,p,d} g[i,p,d] · Θ'[i,p,d]`. The theorems below discharge exactly that hypothesis for the five
kinds with `g = popSens.dtheta` — so a covariate-wrapped part's block of the composed gradient
(`subFlattened`, `C05_composed_reduced_eq`) is the derivative of that part's value. -/

theorem hasGradientAt_const (nIds nDim : Nat) (c : ℝ) (x : Nat → Nat → ℝ) :
    HasGradientAt nIds nDim (fun _ => c) (upAt none) x := by
  intro cv c' t _ _
  have : isum2 nIds nDim (fun i d => upAt (none : Option (Nat → Nat → ℝ)) i d * c' i d) = 0 := by
    simp [isum2_eq, upAt]
  rw [this]
  exact hasDerivAt_const _ _

/-- **C05 (the wrapped model's gradient contract, Gaussian).** With the individual parameters held
    fixed, along every differentiable curve of per-individual parameter tensors `Θ` through `θ₀` the
    value has derivative `Σ_{i,p,d} dtheta[i,p,d] · Θ'[i,p,d]` with the model's separate-form
    `dtheta` — exactly the hypothesis under which `C07_grad_hasDerivAt` concludes that the
    covariate model's `hstack(dpop, dcov)` is the gradient w.r.t. `(ϑ₀, β)`. -/
theorem C05_gauss_dvartheta_contract (nIds nDim : Nat) (th0 : Nat → Nat → Nat → ℝ)
    (psi : Nat → Nat → ℝ) (up : Option (Nat → Nat → ℝ))
    (hpos : ∀ i d, i < nIds → d < nDim → 0 < th0 i 1 d)
    (Θ : ℝ → Nat → Nat → Nat → ℝ) (Θ' : Nat → Nat → Nat → ℝ) (t : ℝ) (h0 : Θ t = th0)
    (hΘ : ∀ i p d, HasDerivAt (fun s => Θ s i p d) (Θ' i p d) t) :
    HasDerivAt (fun s => gaussCLLraw nIds nDim (fun i d => Θ s i 0 d) (fun i d => Θ s i 1 d) psi)
      (∑ i ∈ Finset.range nIds, ∑ p ∈ Finset.range 2, ∑ d ∈ Finset.range nDim,
        (popSens (.gauss true) nIds nDim th0 psi up).dtheta i p d * Θ' i p d) t := by
  have hpos' : ∀ i d, i < nIds → d < nDim → 0 < Θ t i 1 d := by rw [h0]; exact hpos
  have h := C05_gauss_grad nIds nDim (fun i d s => Θ s i 0 d) (fun i d s => Θ s i 1 d)
    (fun i d _ => psi i d) (fun i d => Θ' i 0 d) (fun i d => Θ' i 1 d) (fun _ _ => 0) t none
    (fun _ => 0) (fun i d _ _ => hΘ i 0 d) (fun i d _ _ => hΘ i 1 d)
    (fun i d _ _ => hasDerivAt_const _ _) hpos' (hasGradientAt_const nIds nDim 0 _)
  have h3 := h.2.2
  simp only [zero_add] at h3
  refine h3.congr_deriv ?_
  rw [sum_tensor_two]
  refine isum2_congr _ _ _ _ fun i d hi hd => ?_
  rw [popSens_gauss nIds nDim th0 psi up hpos,
    popSens_gauss nIds nDim _ psi none (by intro i d hi hd; simpa [thOf] using hpos' i d hi hd)]
  simp [thOf, h0]



/-- the same contract for the centred log-normal model -/
theorem C05_logn_dvartheta_contract (nIds nDim : Nat) (th0 : Nat → Nat → Nat → ℝ)
    (psi : Nat → Nat → ℝ) (up : Option (Nat → Nat → ℝ))
    (hpos : ∀ i d, i < nIds → d < nDim → 0 < th0 i 1 d)
    (hppos : ∀ i d, i < nIds → d < nDim → 0 < psi i d)
    (Θ : ℝ → Nat → Nat → Nat → ℝ) (Θ' : Nat → Nat → Nat → ℝ) (t : ℝ) (h0 : Θ t = th0)
    (hΘ : ∀ i p d, HasDerivAt (fun s => Θ s i p d) (Θ' i p d) t) :
    HasDerivAt (fun s => lognCLLraw nIds nDim (fun i d => Θ s i 0 d) (fun i d => Θ s i 1 d) psi)
      (∑ i ∈ Finset.range nIds, ∑ p ∈ Finset.range 2, ∑ d ∈ Finset.range nDim,
        (popSens (.logn true) nIds nDim th0 psi up).dtheta i p d * Θ' i p d) t := by
  have hpos' : ∀ i d, i < nIds → d < nDim → 0 < Θ t i 1 d := by rw [h0]; exact hpos
  have h := C05_logn_grad nIds nDim (fun i d s => Θ s i 0 d) (fun i d s => Θ s i 1 d)
    (fun i d _ => psi i d) (fun i d => Θ' i 0 d) (fun i d => Θ' i 1 d) (fun _ _ => 0) t none
    (fun _ => 0) (fun i d _ _ => hΘ i 0 d) (fun i d _ _ => hΘ i 1 d)
    (fun i d _ _ => hasDerivAt_const _ _) hpos' hppos (hasGradientAt_const nIds nDim 0 _)
  have h3 := h.2.2
  simp only [zero_add] at h3
  refine h3.congr_deriv ?_
  rw [sum_tensor_two]
  refine isum2_congr _ _ _ _ fun i d hi hd => ?_
  rw [popSens_logn nIds nDim th0 psi up hpos hppos,
    popSens_logn nIds nDim _ psi none (by intro i d hi hd; simpa [thOf] using hpos' i d hi hd) hppos]
  simp [thOf, h0]

/-- the same contract for the truncated Gaussian model -/
theorem C05_trunc_dvartheta_contract (nIds nDim : Nat) (th0 : Nat → Nat → Nat → ℝ)
    (psi : Nat → Nat → ℝ) (up : Option (Nat → Nat → ℝ))
    (hpos : ∀ i d, i < nIds → d < nDim → 0 < th0 i 1 d)
    (hppos : ∀ i d, i < nIds → d < nDim → 0 ≤ psi i d)
    (Θ : ℝ → Nat → Nat → Nat → ℝ) (Θ' : Nat → Nat → Nat → ℝ) (t : ℝ) (h0 : Θ t = th0)
    (hΘ : ∀ i p d, HasDerivAt (fun s => Θ s i p d) (Θ' i p d) t) :
    HasDerivAt (fun s => truncLLraw nIds nDim (fun i d => Θ s i 0 d) (fun i d => Θ s i 1 d) psi)
      (∑ i ∈ Finset.range nIds, ∑ p ∈ Finset.range 2, ∑ d ∈ Finset.range nDim,
        (popSens .trunc nIds nDim th0 psi up).dtheta i p d * Θ' i p d) t := by
  have hpos' : ∀ i d, i < nIds → d < nDim → 0 < Θ t i 1 d := by rw [h0]; exact hpos
  have h := C05_trunc_grad nIds nDim (fun i d s => Θ s i 0 d) (fun i d s => Θ s i 1 d)
    (fun i d _ => psi i d) (fun i d => Θ' i 0 d) (fun i d => Θ' i 1 d) (fun _ _ => 0) t none
    (fun _ => 0) (fun i d _ _ => hΘ i 0 d) (fun i d _ _ => hΘ i 1 d)
    (fun i d _ _ => hasDerivAt_const _ _) hpos' hppos (hasGradientAt_const nIds nDim 0 _)
  have h3 := h.2.2
  simp only [zero_add] at h3
  refine h3.congr_deriv ?_
  rw [sum_tensor_two]
  refine isum2_congr _ _ _ _ fun i d hi hd => ?_
  rw [popSens_trunc nIds nDim th0 psi up hpos hppos,
    popSens_trunc nIds nDim _ psi none (by intro i d hi hd; simpa [thOf] using hpos' i d hi hd) hppos]
  simp [thOf, h0]

/-- non-centred Gaussian behind a covariate model: `ψ_id = ϑ_i[0,d] + ϑ_i[1,d] η_id`; the upstream
    sensitivities reach `ϑ_i` through `ψ` — `dtheta[i,0,d] = dlogp_dpsi`, `dtheta[i,1,d] = dlogp_dpsi·η` -/
theorem C05_gaussNC_dvartheta_contract (nIds nDim : Nat) (th0 : Nat → Nat → Nat → ℝ)
    (eta : Nat → Nat → ℝ) (up : Option (Nat → Nat → ℝ)) (L : (Nat → Nat → ℝ) → ℝ)
    (hnn : ∀ i d, i < nIds → d < nDim → 0 ≤ th0 i 1 d)
    (hL : HasGradientAt nIds nDim L (upAt up) (fun i d => th0 i 0 d + th0 i 1 d * eta i d))
    (Θ : ℝ → Nat → Nat → Nat → ℝ) (Θ' : Nat → Nat → Nat → ℝ) (t : ℝ) (h0 : Θ t = th0)
    (hΘ : ∀ i p d, HasDerivAt (fun s => Θ s i p d) (Θ' i p d) t) :
    HasDerivAt (fun s => L (fun i d => Θ s i 0 d + Θ s i 1 d * eta i d) + stdNormalLL nIds nDim eta)
      (∑ i ∈ Finset.range nIds, ∑ p ∈ Finset.range 2, ∑ d ∈ Finset.range nDim,
        (popSens (.gauss false) nIds nDim th0 eta up).dtheta i p d * Θ' i p d) t := by
  have hnn' : ∀ i d, i < nIds → d < nDim → 0 ≤ Θ t i 1 d := by rw [h0]; exact hnn
  have h := C05_gaussNC_grad nIds nDim (fun i d s => Θ s i 0 d) (fun i d s => Θ s i 1 d)
    (fun i d _ => eta i d) (fun i d => Θ' i 0 d) (fun i d => Θ' i 1 d) (fun _ _ => 0) t up L
    (fun i d _ _ => hΘ i 0 d) (fun i d _ _ => hΘ i 1 d)
    (fun i d _ _ => hasDerivAt_const _ _) hnn' (by rw [h0]; exact hL)
  refine h.2.2.congr_deriv ?_
  rw [sum_tensor_two]
  refine isum2_congr _ _ _ _ fun i d hi hd => ?_
  rw [popSens_gaussNC nIds nDim th0 eta up hnn,
    popSens_gaussNC nIds nDim _ eta up (by intro i d hi hd; simpa [thOf] using hnn' i d hi hd)]
  simp

/-- non-centred log-normal behind a covariate model: `ψ_id = exp(ϑ_i[0,d] + ϑ_i[1,d] η_id)` -/
theorem C05_lognNC_dvartheta_contract (nIds nDim : Nat) (th0 : Nat → Nat → Nat → ℝ)
    (eta : Nat → Nat → ℝ) (up : Option (Nat → Nat → ℝ)) (L : (Nat → Nat → ℝ) → ℝ)
    (hnn : ∀ i d, i < nIds → d < nDim → 0 ≤ th0 i 1 d)
    (hL : HasGradientAt nIds nDim L (upAt up)
      (fun i d => Real.exp (th0 i 0 d + th0 i 1 d * eta i d)))
    (Θ : ℝ → Nat → Nat → Nat → ℝ) (Θ' : Nat → Nat → Nat → ℝ) (t : ℝ) (h0 : Θ t = th0)
    (hΘ : ∀ i p d, HasDerivAt (fun s => Θ s i p d) (Θ' i p d) t) :
    HasDerivAt (fun s => L (fun i d => Real.exp (Θ s i 0 d + Θ s i 1 d * eta i d))
        + stdNormalLL nIds nDim eta)
      (∑ i ∈ Finset.range nIds, ∑ p ∈ Finset.range 2, ∑ d ∈ Finset.range nDim,
        (popSens (.logn false) nIds nDim th0 eta up).dtheta i p d * Θ' i p d) t := by
  have hnn' : ∀ i d, i < nIds → d < nDim → 0 ≤ Θ t i 1 d := by rw [h0]; exact hnn
  have h := C05_lognNC_grad nIds nDim (fun i d s => Θ s i 0 d) (fun i d s => Θ s i 1 d)
    (fun i d _ => eta i d) (fun i d => Θ' i 0 d) (fun i d => Θ' i 1 d) (fun _ _ => 0) t up L
    (fun i d _ _ => hΘ i 0 d) (fun i d _ _ => hΘ i 1 d)
    (fun i d _ _ => hasDerivAt_const _ _) hnn' (by rw [h0]; exact hL)
  refine h.2.2.congr_deriv ?_
  rw [sum_tensor_two]
  refine isum2_congr _ _ _ _ fun i d hi hd => ?_
  rw [popSens_lognNC nIds nDim th0 eta up hnn,
    popSens_lognNC nIds nDim _ eta up (by intro i d hi hd; simpa [thOf] using hnn' i d hi hd)]
  simp [thOf, h0]


/-! ## 9. `compute_pointwise_ll` (pooled model) and one-dimensional observations -/

/-- **C05 (pointwise form of the pooled point mass).** Every entry of
    `PooledModel.compute_pointwise_ll` is `0` where the individual's value equals the pooled value
    and `-∞` where it differs, and the total `compute_log_likelihood` is their sum: `0` iff every
    entry is `0`, `-∞` as soon as one entry is. -/
theorem C05_pooled_pointwise (nIds nDim : Nat) (v obs : Nat → Nat → ℝ) :
    (∀ i d, pooledPW v obs i d = if obs i d = v i d then .val 0 else .negInf)
    ∧ ((∀ i d, i < nIds → d < nDim → pooledPW v obs i d = .val 0) →
        popLL .pooled nIds nDim (fun i _ d => v i d) obs = .val 0)
    ∧ ((∃ i d, i < nIds ∧ d < nDim ∧ pooledPW v obs i d = .negInf) →
        popLL .pooled nIds nDim (fun i _ d => v i d) obs = .negInf) := by
  have h1 : ∀ i d, pooledPW v obs i d = if obs i d = v i d then .val 0 else .negInf := by
    intro i d
    unfold pooledPW
    by_cases h : obs i d = v i d
    · simp [h]
    · have : ¬ (obs i d ≤ v i d ∧ v i d ≤ obs i d) := fun hh => h (le_antisymm hh.1 hh.2)
      simp only [le_real, Bool.and_eq_true, decide_eq_true_eq, this, if_false, h]
  refine ⟨h1, ?_, ?_⟩
  · intro h
    apply (C05_pooled_is_pointmass nIds nDim (fun i _ d => v i d) obs).1
    intro i d hi hd
    have := h i d hi hd
    rw [h1] at this
    by_contra hne
    simp [hne] at this
  · rintro ⟨i, d, hi, hd, h⟩
    apply (C05_pooled_is_pointmass nIds nDim (fun i _ d => v i d) obs).2
    refine ⟨i, d, hi, hd, ?_⟩
    rw [h1] at h
    intro he
    simp [he] at h

/-- **C05 (one-dimensional observations).** A plain vector of observations is read as the column
    `observations[:, np.newaxis]`: same number of individuals, entry `i` in dimension `0` — so for a
    one-dimensional model every method returns what it returns for the `(n_ids, 1)` matrix. -/
theorem C05_obs_1d {α : Type} [Add α] [Sub α] [Mul α] [Div α] [Neg α] [ScalarFns α] (l : List α) :
    (ObsArg.vec l).view.1 = (ObsArg.mat (l.map (fun x => [x]))).view.1
    ∧ ∀ i, i < l.length → (ObsArg.vec l).view.2 i 0 = (ObsArg.mat (l.map (fun x => [x]))).view.2 i 0 := by
  refine ⟨by simp [ObsArg.view], ?_⟩
  intro i hi
  simp [ObsArg.view, List.getD_eq_getElem?_getD, hi]


/-! ### `ReducedPopulationModel` (fixed parameters) around any population model: the return forms

The hierarchical form splits the wrapped model's vector at the wrapped model's number of bottom-level entries and
drops the fixed top-level entries; it exists and has `n_bottom + n_free` entries exactly for that offset; it is the
bottom block followed by the filtered top block (what the separate form returns); any larger offset (e.g.
`n_ids * n_dim` for a model with pooled / heterogeneous dimensions) is an `IndexError`. -/

theorem C05_maskFree_defined_iff {β : Type} (mask : List Bool) (xs : List β) :
    (maskFree mask xs).isSome ↔ mask.length = xs.length := by
  induction mask generalizing xs with
  | nil => cases xs <;> simp [maskFree]
  | cons m ms ih =>
    cases xs with
    | nil => simp [maskFree]
    | cons x xs => simp [maskFree, ih xs]

theorem C05_maskFree_length {β : Type} (mask : List Bool) (xs r : List β)
    (h : maskFree mask xs = some r) : r.length = nFree mask := by
  induction mask generalizing xs r with
  | nil => cases xs <;> simp_all [maskFree, nFree]
  | cons m ms ih =>
    cases xs with
    | nil => simp [maskFree] at h
    | cons x xs =>
      simp only [maskFree, Option.map_eq_some_iff] at h
      obtain ⟨r', hr', rfl⟩ := h
      have := ih xs r' hr'
      cases m <;> simp_all [nFree]

/-- the hierarchical form of a model with fixed parameters exists exactly when the split offset leaves as many
top-level entries as the mask has bits -/
theorem C05_reduced_hier_defined_iff {β : Type} (o : Nat) (mask : List Bool) (v : List β) :
    (reducedHier o mask v).isSome ↔ mask.length = v.length - o := by
  simp [reducedHier, C05_maskFree_defined_iff]

theorem C05_reduced_hier_length {β : Type} (nb : Nat) (mask : List Bool) (v : List β)
    (hv : v.length = nb + mask.length) :
    ∃ r, reducedHier nb mask v = some r ∧ r.length = nb + nFree mask := by
  have hs : (maskFree mask (v.drop nb)).isSome := by
    rw [C05_maskFree_defined_iff]; simp [hv]
  obtain ⟨t, ht⟩ := Option.isSome_iff_exists.mp hs
  refine ⟨v.take nb ++ t, by simp [reducedHier, ht], ?_⟩
  have := C05_maskFree_length mask _ t ht
  simp [this, hv]

theorem C05_reduced_forms_agree {β : Type} (mask : List Bool) (bottom top : List β) :
    reducedHier bottom.length mask (bottom ++ top) = (maskFree mask top).map (fun r => bottom ++ r) := by
  simp [reducedHier]

theorem C05_reduced_wrong_split {β : Type} (nb o : Nat) (mask : List Bool) (v : List β)
    (hv : v.length = nb + mask.length) (ho : nb < o) (hm : mask ≠ []) :
    reducedHier o mask v = none := by
  have : ¬ (reducedHier o mask v).isSome := by
    rw [C05_reduced_hier_defined_iff]
    have : 0 < mask.length := List.length_pos_iff.mpr hm
    omega
  simpa using this

example : reducedHier 2 [false, true, false] [1, 2, 3, 4, 5] = some [1, 2, 3, 5] := by decide
example : reducedHier 3 [false, true, false] [1, 2, 3, 4, 5] = (none : Option (List Nat)) := by decide

end ChiModel
