import ChiModel.ShapeEta
import ChiModel.LogLikS1
import ChiModel.Reduced
import ChiModel.Labels
import ChiModel.ReducedResize
import ChiModel.TopLevel
import ChiModel.PosteriorS1
import ChiModel.CtrlHistory
import ChiProofs.Props.C02
import ChiProofs.Props.C08
import ChiProofs.Props.C07
import Mathlib.Data.List.Nodup
import Mathlib.Data.List.Dedup
set_option linter.unusedSectionVars false
set_option linter.unusedSimpArgs false
set_option linter.unusedVariables false
/-!
# C17 — parameter counts, names, vector lengths and gradient lengths always agree
-/
namespace ChiModel
open ShapeEta

/-! ## the individual-level names: cutting the special dimensions leaves `totHier` names -/

/-- C17 (hierarchical objects): for every composition of population sub-models and every number
    of individuals, the published names, the published IDs and the parameter count
    `n_ids · n_hierarchical_dims + n_population_parameters` have the same length, and the IDs mark
    exactly the individual-level entries (C02_ids). -/
theorem C17_hier_lengths (subs : List SubModel) (nIds : Nat) (llNames topNames ids : List String)
    (hll : llNames.length = totDim subs) (htop : topNames.length = totTop subs nIds)
    (hids : ids.length = nIds) (hpos : 0 < nIds) :
    (hierNames subs nIds llNames topNames).length = nIds * totHier subs + totTop subs nIds ∧
    (hierIds nIds (nIds * totHier subs) (totTop subs nIds) ids).length
      = nIds * totHier subs + totTop subs nIds := by
  constructor
  · rw [C02_names_length, cutSpecial_length subs 0 0 llNames (Nat.le_refl 0) (by omega), htop]
    simp
  · exact length_hierIds nIds _ _ ids hids (Nat.dvd_mul_right nIds _) hpos

/-! ## gradient length: the placement of sub-model blocks -/

section grad
variable {α : Type}

theorem placeGo_top (nIds : Nat) : ∀ (gs : List (SubGrad α)) (cols : List (Nat → Nat → Option α))
    (top : List α), (placeGo nIds gs cols top).2 = top ++ gs.flatMap (·.top)
  | [], _, _ => by simp [placeGo]
  | g :: gs, cols, top => by
    unfold placeGo
    rw [placeGo_top nIds gs]
    simp [List.append_assoc]

theorem placeGo_cols_length (nIds : Nat) : ∀ (gs : List (SubGrad α))
    (cols : List (Nat → Nat → Option α)) (top : List α),
    (placeGo nIds gs cols top).1.length = cols.length + (gs.filter (·.hier)).length
  | [], _, _ => by simp [placeGo]
  | g :: gs, cols, top => by
    unfold placeGo
    rw [placeGo_cols_length nIds gs]
    cases hh : g.hier with
    | true => simp [List.filter_cons, hh]; omega
    | false => simp [List.filter_cons, hh]

/-- C17 (gradient length): the hierarchical gradient assembled from the sub-models' blocks has
    `n_ids · Σ(hierarchical dims) + Σ(population parameters)` entries — the reported parameter
    count — for every list of blocks. -/
theorem C17_grad_length (nIds : Nat) (gs : List (SubGrad α)) :
    (placeFlat nIds gs).1.length + (placeFlat nIds gs).2.length
      = nIds * ((gs.filter (·.hier)).map (·.nDim)).sum + (gs.map (·.top.length)).sum := by
  unfold placeFlat
  simp only [placeGo_top, List.nil_append, List.length_flatMap, List.length_map, List.length_range,
    List.map_const', List.sum_replicate_nat]
  have hlen := placeGo_cols_length nIds gs [] []
  simp only [List.length_nil, Nat.zero_add] at hlen
  have hz : ((List.zip (placeGo nIds gs [] []).1 ((gs.filter (·.hier)).map (·.nDim))).map
      (fun cw => cw.2)) = (gs.filter (·.hier)).map (·.nDim) := by
    rw [← List.unzip_snd, List.unzip_zip_right (by simp [hlen])]
  have : (List.map (fun cw : (Nat → Nat → Option α) × Nat => cw.2)
      (List.zip (placeGo nIds gs [] []).1 ((gs.filter (·.hier)).map (·.nDim)))).sum
      = ((gs.filter (·.hier)).map (·.nDim)).sum := by rw [hz]
  simp only [List.map_map, Function.comp_def] at this ⊢
  rw [this]

end grad

/-! ## reduced objects: names, counts and gradient entries after any history (from C08) -/

/-- C17 (after every `fix_parameters` history): reported count = number of reported names =
    length of the restricted gradient, for every reducible object. -/
theorem C17_reduced_lengths {α β : Type} (names : List String) (g : α)
    (ops : List (Reduced.Req α)) (grad : List β) (hg : grad.length = names.length) :
    Reduced.nFree (Reduced.view names g (Reduced.run names g ops))
        = (Reduced.restrict (Reduced.view names g (Reduced.run names g ops)) names).length ∧
    (Reduced.restrict (Reduced.view names g (Reduced.run names g ops)) grad).length
        = (Reduced.restrict (Reduced.view names g (Reduced.run names g ops)) names).length := by
  have hc := (Reduced.C08_counts names g ops).1
  rw [Reduced.C08_names]
  refine ⟨hc, ?_⟩
  rw [Reduced.C08_grad_restriction]
  clear hc
  generalize Reduced.net ops = f
  unfold Reduced.freeNames
  induction names generalizing grad with
  | nil => simp [Reduced.restrictSpec]
  | cons n ns ih =>
    cases grad with
    | nil => simp at hg
    | cons x xs =>
      simp only [Reduced.restrictSpec, List.filter_cons]
      have := ih xs (by simpa using hg)
      split <;> simp [this]

/-! ## distinct names once prefixed by the ID -/

/-- C17 (distinct names): if the individuals' IDs are distinct and non-empty words without blanks
    are not needed — it suffices that the map `(id, name) ↦ id ++ " " ++ name` is injective on the
    published pairs — then the ID-prefixed individual-level names are pairwise distinct. Stated for
    an arbitrary injective labelling `lab`. -/
theorem C17_prefixed_nodup {ι ν σ : Type} (ids : List ι) (names : List ν) (lab : ι → ν → σ)
    (hinj : ∀ i j n m, lab i n = lab j m → i = j ∧ n = m) (hids : ids.Nodup) (hn : names.Nodup) :
    (ids.flatMap (fun i => names.map (lab i))).Nodup := by
  rw [List.nodup_flatMap]
  constructor
  · intro i _
    exact hn.map (fun a b h => (hinj i i a b h).2)
  · refine hids.imp ?_
    intro i j hij
    intro x hx1 hx2
    simp only [List.mem_map] at hx1 hx2
    obtain ⟨a, _, ha⟩ := hx1
    obtain ⟨b, _, hb⟩ := hx2
    exact hij (hinj i j a b (ha.trans hb.symm)).1

/-! ## the IDs of the individuals (`_label_log_likelihoods`) -/
section LabelsSec
open Labels

theorem labelGo_some (ls : List (Option String)) : ∀ (k : Nat) (seen r : List String),
    labelGo k ls seen = some r → seen.Nodup →
      r = seen.reverse ++ effectiveFrom k ls ∧ r.Nodup := by
  induction ls with
  | nil =>
    intro k seen r h hs
    simp only [labelGo, Option.some.injEq] at h
    subst h
    simp [effectiveFrom, hs]
  | cons l ls ih =>
    intro k seen r h hs
    simp only [labelGo] at h
    split at h
    · cases h
    · rename_i hnot
      obtain ⟨h1, h2⟩ := ih (k + 1) (effective k l :: seen) r h (List.nodup_cons.mpr ⟨hnot, hs⟩)
      refine ⟨?_, h2⟩
      rw [h1]; simp [effectiveFrom]

theorem labelGo_complete (ls : List (Option String)) : ∀ (k : Nat) (seen : List String),
    (seen.reverse ++ effectiveFrom k ls).Nodup →
      labelGo k ls seen = some (seen.reverse ++ effectiveFrom k ls) := by
  induction ls with
  | nil => intro k seen _; simp [labelGo, effectiveFrom]
  | cons l ls ih =>
    intro k seen h
    simp only [labelGo]
    have hnot : effective k l ∉ seen := by
      intro hin
      simp only [effectiveFrom] at h
      have := (List.nodup_append.mp h).2.2 (effective k l) (by simpa using hin) (effective k l) (by simp)
      exact this rfl
    rw [if_neg hnot]
    have : (effective k l :: seen).reverse ++ effectiveFrom (k + 1) ls
        = seen.reverse ++ effectiveFrom k (l :: ls) := by simp [effectiveFrom]
    rw [ih (k + 1) (effective k l :: seen) (by rw [this]; exact h), this]

theorem effectiveFrom_length (ls : List (Option String)) : ∀ k, (effectiveFrom k ls).length = ls.length := by
  induction ls with
  | nil => intro k; rfl
  | cons l ls ih => intro k; simp [effectiveFrom, ih]

/-- C17 (IDs of the individuals): whenever a hierarchical log-likelihood comes into being, the IDs of its
    individuals are pairwise distinct, one per individual, and each is the individual's own label or — if it
    has none — `'Log-likelihood <position>'`. -/
theorem C17_labels_nodup (ls : List (Option String)) (r : List String) (h : label ls = some r) :
    r.Nodup ∧ r = effectiveFrom 0 ls ∧ r.length = ls.length := by
  obtain ⟨h1, h2⟩ := labelGo_some ls 0 [] r h List.nodup_nil
  have h1' : r = effectiveFrom 0 ls := by simpa using h1
  exact ⟨h2, h1', by rw [h1', effectiveFrom_length]⟩

/-- … and the constructor refuses exactly the label lists under which two individuals would end up with the
    same ID (nothing else is refused). -/
theorem C17_labels_reject_iff (ls : List (Option String)) :
    label ls = none ↔ ¬ (effectiveFrom 0 ls).Nodup := by
  constructor
  · intro h hn
    have := labelGo_complete ls 0 [] (by simpa using hn)
    rw [label] at h; rw [h] at this; cases this
  · intro hn
    cases hl : label ls with
    | none => rfl
    | some r =>
      obtain ⟨h2, h1, _⟩ := C17_labels_nodup ls r hl
      exact absurd (h1 ▸ h2) hn

/-- the test must be made on the label the individual ends up with: testing the raw label lets a default
    collide with a label given earlier (witness: a likelihood re-used from an earlier model, labelled
    'Log-likelihood 2', ahead of an unlabelled one) -/
theorem C17_labels_early_test_counterexample :
    labelGoEarly 0 [some "Log-likelihood 2", none] [] = some ["Log-likelihood 2", "Log-likelihood 2"] ∧
    label [some "Log-likelihood 2", none] = none := by
  constructor <;> decide

example : label [none, some "patient 7", none] = some ["Log-likelihood 1", "patient 7", "Log-likelihood 3"] := by
  decide
end LabelsSec

end ChiModel

/-! ## resizing a reduced population model (`ReducedPopulationModel.set_n_ids`) -/
namespace ChiModel.Reduced
variable {α : Type}

theorem lookupLast_nil (n : String) : lookupLast ([] : Req α) n = none := by
  simp [lookupLast]

theorem lookupLast_cons_of_notin (d : Req α) (k : String) (v : Option α) (n : String)
    (h : ∀ p ∈ d, p.1 ≠ n) : lookupLast ((k, v) :: d) n = if k = n then some v else none := by
  unfold lookupLast
  rw [List.reverse_cons, List.find?_append]
  have hnone : d.reverse.find? (fun p => p.1 == n) = none := by
    rw [List.find?_eq_none]
    intro p hp
    have := h p (List.mem_reverse.mp hp)
    simpa using this
  rw [hnone]
  by_cases hk : k = n <;> simp [hk]

theorem lookupLast_cons_ne (d : Req α) (k : String) (v : Option α) (n : String) (hk : k ≠ n) :
    lookupLast ((k, v) :: d) n = lookupLast d n := by
  unfold lookupLast
  rw [List.reverse_cons, List.find?_append]
  cases h : d.reverse.find? (fun p => p.1 == n) with
  | some x => simp
  | none => simp [hk]

theorem fixedPairs_keys (names : List String) : ∀ (c : List (Bool × α)) (p : String × Option α),
    p ∈ fixedPairs names c → p.1 ∈ names := by
  induction names with
  | nil => intro c p h; cases c <;> simp [fixedPairs] at h
  | cons n ns ih =>
    intro c p h
    cases c with
    | nil => simp [fixedPairs] at h
    | cons x cs =>
      obtain ⟨b, v⟩ := x
      cases b with
      | true =>
        simp only [fixedPairs, List.mem_cons] at h
        rcases h with h | h
        · subst h; simp
        · exact List.mem_cons_of_mem _ (ih cs p h)
      | false =>
        simp only [fixedPairs] at h
        exact List.mem_cons_of_mem _ (ih cs p h)

theorem fixedPairs_allFree (g : α) : ∀ ks : List String,
    fixedPairs ks (ks.map (fun _ => (false, g))) = ([] : Req α)
  | [] => rfl
  | _ :: ks => by
    show fixedPairs ks (ks.map (fun _ => (false, g))) = []
    exact fixedPairs_allFree g ks

/-- the remembered dictionary says, for every name: its old fixed value if it was a fixed name of the old list,
    nothing otherwise -/
theorem lookupLast_fixedPairs (f : String → Option α) :
    ∀ (names : List String) (c : List (Bool × α)), names.Nodup → AllGood f names c → ∀ n,
      lookupLast (fixedPairs names c) n = if n ∈ names then (f n).map some else none := by
  intro names
  induction names with
  | nil => intro c _ h n; cases c <;> simp [fixedPairs, lookupLast_nil]
  | cons k ks ih =>
    intro c hnd h n
    cases c with
    | nil => simp [AllGood] at h
    | cons x cs =>
      obtain ⟨b, v⟩ := x
      obtain ⟨hk, hks⟩ := List.nodup_cons.mp hnd
      obtain ⟨⟨hb, hv⟩, hrest⟩ := h
      have ihn := ih cs hks hrest n
      cases b with
      | true =>
        simp only [fixedPairs]
        by_cases hkn : k = n
        · subst hkn
          rw [lookupLast_cons_of_notin _ _ _ _ (fun p hp he => hk (by rw [← he]; exact fixedPairs_keys ks cs p hp))]
          simp only [if_true, List.mem_cons, true_or]
          have : (f k).isSome = true := by simpa using hb.symm
          obtain ⟨w, hw⟩ := Option.isSome_iff_exists.mp this
          have hvw : v = w := hv w hw
          rw [hw, hvw]; rfl
        · rw [lookupLast_cons_ne _ _ _ _ hkn, ihn]
          have : (n ∈ k :: ks) ↔ n ∈ ks := by
            simp only [List.mem_cons]; constructor
            · rintro (h | h); exact absurd h.symm hkn; exact h
            · exact Or.inr
          simp only [this]
      | false =>
        simp only [fixedPairs]
        rw [ihn]
        by_cases hkn : k = n
        · subst hkn
          have hnone : f k = none := by
            cases hf : f k with
            | none => rfl
            | some w => simp [hf] at hb
          simp [hk, hnone]
        · have : (n ∈ k :: ks) ↔ n ∈ ks := by
            simp only [List.mem_cons]; constructor
            · rintro (h | h); exact absurd h.symm hkn; exact h
            · exact Or.inr
          simp only [this]

/-- what is fixed after the resize: the old fixed name-value pairs, as far as the names still exist -/
def carried (f : String → Option α) (namesOld : List String) : String → Option α :=
  fun n => if n ∈ namesOld then f n else none

/-- C17 / C08 (`ReducedPopulationModel.set_n_ids`): if the number of parameters of the wrapped model changes,
    the hidden state after the call describes exactly the old fixed name-value pairs restricted to the names
    that still exist — whatever the history that led to the old state and whatever the new parameter list. -/
theorem C17_resize_state (g : α) (f : String → Option α) (namesOld namesNew : List String) (st : St α)
    (hnd : namesOld.Nodup) (hlen : namesNew.length ≠ namesOld.length)
    (h : AllGood f namesOld (view namesOld g st)) :
    AllGood (carried f namesOld) namesNew (view namesNew g (resize g namesOld namesNew st)) := by
  unfold resize
  rw [if_neg hlen]
  cases st with
  | none =>
    -- nothing was fixed: f is none on every old name
    have hfree : ∀ n ∈ namesOld, f n = none := by
      intro n hn
      have hz := lookupLast_fixedPairs f namesOld _ hnd h n
      simp only [view] at hz
      have hp : fixedPairs namesOld (namesOld.map (fun _ => (false, g))) = ([] : Req α) :=
        fixedPairs_allFree g namesOld
      rw [hp, lookupLast_nil, if_pos hn] at hz
      cases hf : f n with
      | none => rfl
      | some w => simp [hf] at hz
    have : carried f namesOld = fun _ => none := by
      funext n; unfold carried; by_cases hn : n ∈ namesOld <;> simp [hn, hfree]
    rw [this]
    exact allGood_init g namesNew
  | some c =>
    have hstep := step_good namesNew g none (fun _ => none) (fixedPairs namesOld c) (allGood_init g namesNew)
    have hnet : netStep (fun _ => none) (fixedPairs namesOld c) = carried f namesOld := by
      funext n
      simp only [netStep]
      rw [lookupLast_fixedPairs f namesOld c hnd (by simpa [view] using h) n]
      unfold carried
      by_cases hn : n ∈ namesOld
      · simp only [hn, if_true]; cases f n <;> rfl
      · simp [hn]
    rw [hnet] at hstep
    exact hstep

/-- … hence the reported names, the count and the number of fixed parameters after the resize -/
theorem C17_resize_names (g : α) (f : String → Option α) (namesOld namesNew : List String) (st : St α)
    (hnd : namesOld.Nodup) (hlen : namesNew.length ≠ namesOld.length)
    (h : AllGood f namesOld (view namesOld g st)) :
    let c' := view namesNew g (resize g namesOld namesNew st)
    restrict c' namesNew = freeNames (carried f namesOld) namesNew ∧
    nFree c' = (freeNames (carried f namesOld) namesNew).length ∧ nFixed c' + nFree c' = namesNew.length := by
  have hg := C17_resize_state g f namesOld namesNew st hnd hlen h
  refine ⟨?_, nFree_eq _ namesNew _ hg⟩
  rw [restrict_eq_spec _ namesNew _ namesNew hg]
  exact restrictSpec_self _ namesNew

/-- the comparison must be made with the cached TOTAL: compared with the number of free parameters, a change
    that removes exactly as many parameters as are fixed goes unnoticed and the old mask is kept for the new,
    shorter list (witness of the seeded change C17-10: ID 1, ID 2, ID 3 and a fixed 'Std.', 3 → 2 individuals) -/
theorem C17_resize_free_count_counterexample :
    let old := ["ID 1", "ID 2", "ID 3", "Mean", "Std."]
    let new := ["ID 1", "ID 2", "Mean", "Std."]
    let st : St Nat := some [(false, 0), (false, 0), (false, 0), (false, 0), (true, 7)]
    (view new 0 (resize 0 old new st)) = [(false, 0), (false, 0), (false, 0), (true, 7)] ∧
    (view new 0 (resizeFreeCount 0 old new st)).length = 5 := by
  decide
end ChiModel.Reduced

/-! ## names and counts at the top level only; selections that list pairs repeatedly -/
namespace ChiModel.TopLevel

theorem flatten_replicate_length (n : Nat) (b : List String) :
    (List.replicate n b).flatten.length = n * b.length := by
  induction n with
  | zero => simp
  | succ k ih => rw [List.replicate_succ, List.flatten_cons, List.length_append, ih]; ring

theorem bottomIds_length (h : HLL) : h.bottomIds.length = h.nBottom := by
  unfold HLL.bottomIds HLL.nBottom
  induction h.ids with
  | nil => simp
  | cons i is ih => rw [List.flatMap_cons, List.length_append, ih]; simp; ring

theorem bottomIds_some (h : HLL) : ∀ x ∈ h.bottomIds, x.isSome = true := by
  intro x hx
  unfold HLL.bottomIds at hx
  rw [List.mem_flatMap] at hx
  obtain ⟨i, _, hi⟩ := hx
  rw [List.mem_replicate] at hi
  rw [hi.2]; rfl

theorem zipWith_prefix_none (top : List String) :
    List.zipWith prefixName (List.replicate top.length none) top = top := by
  induction top with
  | nil => rfl
  | cons t ts ih => simp [List.replicate_succ, prefixName, ih]

/-- every name list is `(individual-level block of n_bottom names) ++ (the population model's names)` -/
theorem allNames_split (h : HLL) (inc : Bool) :
    ∃ b : List String, b.length = h.nBottom ∧ h.allNames inc = b ++ h.top := by
  cases inc with
  | false =>
    exact ⟨(List.replicate h.ids.length h.bottom).flatten, flatten_replicate_length _ _, rfl⟩
  | true =>
    refine ⟨List.zipWith prefixName h.bottomIds (List.replicate h.ids.length h.bottom).flatten, ?_, ?_⟩
    · rw [List.length_zipWith, bottomIds_length, flatten_replicate_length]; simp [HLL.nBottom]
    · show List.zipWith prefixName h.getId h.rawNames = _
      unfold HLL.getId HLL.rawNames
      rw [List.zipWith_append (by rw [bottomIds_length, flatten_replicate_length]; rfl), zipWith_prefix_none]


/-- C17 (hierarchical names, all levels and top level only): for every list of individuals, every list of
    individual-level names and every list of population names — the EMPTY one included (all population
    parameters fixed) — and with or without ID prefixes: the top-level names are exactly the population model's
    names, their number is the reported top-level count, the full list has the reported length and ends with
    the top-level names, and the IDs have that length and mark exactly the first `n_bottom` entries. -/
theorem C17_top_level_names (h : HLL) (inc : Bool) :
    h.parameterNames true inc = h.top ∧
    (h.parameterNames true inc).length = h.nParameters true ∧
    (h.parameterNames false inc).length = h.nParameters false ∧
    h.parameterNames false inc = (h.parameterNames false inc).take h.nBottom ++ h.parameterNames true inc ∧
    h.getId.length = h.nParameters false ∧
    (∀ j, j < h.nParameters false → ((h.getId.getD j none).isSome = true ↔ j < h.nBottom)) := by
  obtain ⟨b, hb, hsplit⟩ := allNames_split h inc
  have htop : h.parameterNames true inc = h.top := by
    simp only [HLL.parameterNames, if_true, sliceFrom, hsplit]
    rw [← hb, List.drop_left]
  have hall : h.parameterNames false inc = b ++ h.top := by
    simp only [HLL.parameterNames, hsplit]; rfl
  refine ⟨htop, ?_, ?_, ?_, ?_, ?_⟩
  · rw [htop]; rfl
  · rw [hall, List.length_append, hb]; rfl
  · rw [htop, hall, ← hb, List.take_left]
  · simp [HLL.getId, bottomIds_length, HLL.nParameters]
  · intro j hj
    unfold HLL.getId
    by_cases hlt : j < h.nBottom
    · have hl : j < h.bottomIds.length := by rw [bottomIds_length]; exact hlt
      rw [List.getD_append _ _ _ _ hl]
      simp only [hlt, iff_true]
      rw [List.getD_eq_getElem _ _ hl]
      exact bottomIds_some h _ (List.getElem_mem hl)
    · have hl : h.bottomIds.length ≤ j := by rw [bottomIds_length]; omega
      rw [List.getD_append_right _ _ _ _ hl]
      simp only [hlt, iff_false]
      simp [List.getD_eq_getElem?_getD, List.getElem?_replicate]
      split <;> simp

/-- counting the top-level names from the END of the list (`names[-n_top:]`) gives the same list exactly when
    there is at least one population parameter or no individual-level parameter at all -/
theorem C17_top_names_from_end_iff (h : HLL) (inc : Bool) :
    h.parameterNamesFromEnd true inc = h.parameterNames true inc ↔ (h.top ≠ [] ∨ h.nBottom = 0) := by
  obtain ⟨b, hb, hsplit⟩ := allNames_split h inc
  rw [(C17_top_level_names h inc).1]
  simp only [HLL.parameterNamesFromEnd, if_true, sliceLast, hsplit]
  by_cases ht : h.top = []
  · simp only [ht, List.length_nil, if_true, List.append_nil, ne_eq, not_true_eq_false, false_or]
    rw [← hb]
    exact List.length_eq_zero_iff.symm
  · have hpos : h.top.length ≠ 0 := fun h0 => ht (List.length_eq_zero_iff.mp h0)
    simp only [hpos, if_false, ht, ne_eq, not_false_eq_true, true_or, iff_true]
    rw [List.length_append, Nat.add_sub_cancel, List.drop_left]

/-- … and the witness (seeded change C17-11): three individuals with two individual-level names each, every
    population parameter fixed — the reported top-level count is 0, the end-counted "top-level names" are all
    six individual-level names -/
theorem C17_top_names_from_end_counterexample :
    let h : HLL := ⟨["A", "B", "C"], ["Initial count", "Growth rate"], []⟩
    h.nParameters true = 0 ∧ h.parameterNames true false = [] ∧ h.parameterNames true true = [] ∧
    (h.parameterNamesFromEnd true false).length = 6 ∧
    h.parameterNamesFromEnd true true =
      ["A Initial count", "A Growth rate", "B Initial count", "B Growth rate", "C Initial count", "C Growth rate"] := by
  decide


/-- C17 (a hierarchical object over a reduced population model, after every `fix_parameters` history): the number
    of top-level names is the number of free population parameters, the full count is
    `n_ids · (individual-level names) + free`, and when every population parameter is fixed the top-level name
    list is EMPTY while the full list still has all individual-level names. -/
theorem C17_top_level_names_reduced {α : Type} (ids bottom popNames : List String) (g : α)
    (ops : List (Reduced.Req α)) (inc : Bool) :
    let c := Reduced.view popNames g (Reduced.run popNames g ops)
    let h : HLL := ⟨ids, bottom, Reduced.restrict c popNames⟩
    (h.parameterNames true inc).length = Reduced.nFree c ∧
    (h.parameterNames false inc).length = ids.length * bottom.length + Reduced.nFree c ∧
    (Reduced.nFree c = 0 → h.parameterNames true inc = [] ∧
      (h.parameterNames false inc).length = ids.length * bottom.length) := by
  intro c h
  have hfree : Reduced.nFree c = (Reduced.restrict c popNames).length :=
    (C17_reduced_lengths popNames g ops popNames rfl).1
  obtain ⟨h1, h2, h3, -, -, -⟩ := C17_top_level_names h inc
  refine ⟨?_, ?_, ?_⟩
  · rw [h1, hfree]
  · rw [h3, hfree]; rfl
  · intro h0
    rw [hfree] at h0
    have hnil : Reduced.restrict c popNames = [] := List.length_eq_zero_iff.mp h0
    refine ⟨by rw [h1]; exact hnil, ?_⟩
    rw [h3]
    show ids.length * bottom.length + (Reduced.restrict c popNames).length = _
    rw [h0]; rfl

/-! ## a selection that lists pairs repeatedly -/

theorem normSel_length (indices : List Pair) : (normSel indices).length = indices.dedup.length := by
  obtain ⟨hnd, -, hmem⟩ := C07_selection indices
  exact ((List.perm_ext_iff_of_nodup hnd (List.nodup_dedup indices)).mpr
    (fun x => by rw [hmem, List.mem_dedup])).length_eq

theorem covDefaultNames_length (nCov n : Nat) : (covDefaultNames nCov n).length = nCov * n := by
  unfold covDefaultNames
  induction n with
  | zero => simp
  | succ k ih =>
    rw [List.range_succ, List.flatMap_append, List.length_append, ih]
    simp; ring

/-- C17 (`set_population_parameters` with ANY list of pairs, repetitions included): the covariate model's
    parameter count is `n_cov ·` (number of DISTINCT pairs of the list) = the number of its default names; through
    the wrapper, the reported names and the reported count are `n_pop + n_cov · distinct`, and so is the length of
    the gradient. -/
theorem C17_selection_count (m : CovModel) (indices : List Pair) (hb : m.baseNames.length = m.perDim * m.nDim) :
    covNParameters m.nCov indices = m.nCov * indices.dedup.length ∧
    (covDefaultNames m.nCov (normSel indices).length).length = covNParameters m.nCov indices ∧
    (m.setPop false indices).nParameters = m.perDim * m.nDim + covNParameters m.nCov indices ∧
    ((m.setPop false indices).parameterNames false).length = (m.setPop false indices).nParameters ∧
    ((m.setPop false indices).parameterNames true).length = (m.setPop false indices).nParameters ∧
    (∀ {α : Type} [Add α] [Sub α] [Mul α] [Div α] [Neg α] [ScalarFns α] (nIds : Nat)
        (g : Nat → Nat → Nat → α) (cov : Nat → Nat → α),
      (covSens ⟨m.nDim, m.perDim, m.nCov, normSel indices⟩ nIds g cov).length
        = (m.setPop false indices).nParameters) := by
  have hn : (m.setPop false indices).nParameters = m.perDim * m.nDim + covNParameters m.nCov indices := rfl
  have hstored : (withCovNames m.nCov (m.setPop false indices).stored m.covNames).length
      = m.nCov * (normSel indices).length := by
    simp only [withCovNames, List.length_map, List.length_range, CovModel.setPop, selNames, if_false,
      Bool.false_eq_true]
    generalize normSel indices = l
    induction l with
    | nil => simp
    | cons x xs ih => rw [List.flatMap_cons, List.length_append, ih]; simp; ring
  refine ⟨by unfold covNParameters; rw [normSel_length], covDefaultNames_length _ _, hn, ?_, ?_, ?_⟩
  · rw [hn]
    simp only [CovModel.parameterNames, Bool.false_eq_true, if_false, List.length_append, popFullNames,
      List.length_map, List.length_range]
    show m.baseNames.length + (withCovNames m.nCov (m.setPop false indices).stored m.covNames).length = _
    rw [hstored, hb]; rfl
  · rw [hn]
    simp only [CovModel.parameterNames, if_true, List.length_append]
    show m.baseNames.length + (withCovNames m.nCov (m.setPop false indices).stored m.covNames).length = _
    rw [hstored, hb]; rfl
  · intro α _ _ _ _ _ _ nIds g cov
    rw [(C07_grad_entries _ nIds g cov).1, hn]
    simp only [CovCfg.nParams, CovCfg.nPop, CovCfg.nBeta, covNParameters]
    ring

/-- counting the caller's list instead of the stored selection gives the same number exactly when no pair is
    listed twice (or there is no covariate) -/
theorem C17_selection_raw_count_iff (nCov : Nat) (indices : List Pair) :
    covNParametersRaw nCov indices = covNParameters nCov indices ↔ (nCov = 0 ∨ indices.Nodup) := by
  unfold covNParametersRaw covNParameters
  rw [normSel_length]
  constructor
  · intro h
    by_cases h0 : nCov = 0
    · exact Or.inl h0
    · right
      have hl : indices.length = indices.dedup.length := Nat.eq_of_mul_eq_mul_left (Nat.pos_of_ne_zero h0) h
      exact List.dedup_eq_self.mp ((List.dedup_sublist indices).eq_of_length hl.symm)
  · rintro (h0 | hnd)
    · simp [h0]
    · rw [List.dedup_eq_self.mpr hnd]

/-- … and the witness (seeded change C17-12): one pair listed twice, one covariate — two parameters and two
    default names are reported, one pair is transformed and the gradient has one covariate entry -/
theorem C17_selection_raw_count_counterexample :
    covNParametersRaw 1 [(0, 0), (0, 0)] = 2 ∧ (covDefaultNames 1 [(0, 0), ((0, 0) : Pair)].length).length = 2 ∧
    normSel [(0, 0), (0, 0)] = [(0, 0)] ∧ covNParameters 1 [(0, 0), (0, 0)] = 1 := by
  decide

end ChiModel.TopLevel

/-! ## the posteriors' `evaluateS1`: the gradient's length where the score is `-inf` -/

namespace ChiModel
namespace PosteriorS1
variable {α : Type} [Add α]

theorem iadd_length (a b r : List α) (h : iadd a b = .ok r) : r.length = a.length := by
  unfold iadd at h
  split at h
  · rename_i hl
    cases h
    simp [hl]
  · split at h
    · cases h; simp
    · cases h

theorem iaddFrom_length (off : Nat) (a b r : List α) (h : iaddFrom off a b = .ok r) : r.length = a.length := by
  unfold iaddFrom at h
  split at h
  · rename_i t ht
    cases h
    have := iadd_length _ _ _ ht
    simp [this]
    omega
  · cases h

theorem assignHead_length (k : Nat) (a b r : List α) (h : assignHead k a b = .ok r) : r.length = a.length := by
  unfold assignHead at h
  simp only at h
  split at h
  · rename_i hl
    cases h
    simp only [List.length_append, List.length_drop, hl]
    omega
  · split at h
    · cases h
      simp only [List.length_append, List.length_replicate, List.length_drop]
      omega
    · cases h

end PosteriorS1
open PosteriorS1

/-- C17 (gradient length at every point, `LogPosterior`): the prior is defined on all `n` parameters; whether it
    excludes the point (early exit with the prior's own sensitivities) or not (sum with the likelihood's
    gradient), whatever the likelihood's score — also `-inf` from an error-model guard —, the gradient handed
    back has `n` entries. -/
theorem C17_posterior_grad_length {α : Type} [Add α] (n : Nat) (prior : S1 α) (ll : Unit → S1 α) (r : S1 α)
    (hp : prior.grad.length = n) (h : plain prior ll = .ok r) : r.grad.length = n := by
  unfold plain at h
  split at h
  · cases h; exact hp
  · simp only at h
    split at h
    · rename_i g hg
      cases h
      simpa [hp] using iadd_length _ _ _ hg
    · cases h

/-- C17 (gradient length at every point, `HierarchicalLogPosterior`): for every split of the vector into
    individual-level and top-level entries, every prior on the top-level entries (whatever the length of ITS
    sensitivities) and every likelihood result of full length — whatever its score, also `-inf` from the
    population model or an error model —, the gradient handed back has as many entries as the vector. -/
theorem C17_hier_posterior_grad_length {α : Type} [Add α] (inf : α) (nBottom : Nat) (parameters : List α)
    (prior : S1 α) (ll : Unit → S1 α) (r : S1 α)
    (hl : (ll ()).grad.length = parameters.length)
    (h : hierarchical inf nBottom parameters prior ll = .ok r) : r.grad.length = parameters.length := by
  unfold hierarchical at h
  split at h
  · cases h; simp
  · simp only at h
    split at h
    · rename_i g hg
      cases h
      simpa [hl] using iaddFrom_length _ _ _ _ hg
    · cases h

/-- C17 (why the early exit cannot hand back the prior's sensitivities): where the prior excludes the point,
    the variant that returns the prior's own sensitivities (as `LogPosterior` rightly does) has a gradient of
    the reported length `n_bottom + n_top` exactly when there are no individual-level entries. -/
theorem C17_hier_prior_sens_iff {α : Type} [Add α] (nBottom nTop : Nat) (prior : S1 α) (ll : Unit → S1 α)
    (hinf : isInf prior.score = true) (hp : prior.grad.length = nTop) :
    (∃ r, hierarchicalPriorSens nBottom prior ll = .ok r ∧ r.grad.length = nBottom + nTop) ↔ nBottom = 0 := by
  unfold hierarchicalPriorSens
  simp only [hinf, if_true]
  constructor
  · rintro ⟨r, hr, hlen⟩
    cases hr
    omega
  · intro h0
    exact ⟨prior, rfl, by omega⟩

/-- C17 (witness): two individual-level entries and one top-level entry, a prior that excludes the point —
    handing back the prior's own sensitivities gives a gradient with 1 entry for 3 parameters. -/
theorem C17_hier_prior_sens_counterexample :
    ∃ r : S1 Nat, hierarchicalPriorSens 2 ⟨.negInf, [0]⟩ (fun _ => ⟨.val 0, [0, 0, 0]⟩) = .ok r ∧
      r.grad.length = 1 ∧ r.grad.length ≠ 2 + 1 :=
  ⟨_, rfl, rfl, by decide⟩

/-- C17 (gradient length at every point, `PopulationFilterLogPosterior`): the buffer of `n_parameters` entries
    is what is handed back at the early exit (prior excludes the point) and — given that the remaining
    computation returns a buffer-length gradient — everywhere else. -/
theorem C17_filter_posterior_grad_length {α : Type} [Add α] (nTop : Nat) (buffer : List α) (prior : S1 α)
    (rest : List α → S1 α) (r : S1 α)
    (hrest : ∀ b, b.length = buffer.length → (rest b).grad.length = buffer.length)
    (h : filter nTop buffer prior rest = .ok r) : r.grad.length = buffer.length := by
  unfold filter at h
  split at h
  · cases h
  · rename_i b hb
    have hbl := assignHead_length _ _ _ _ hb
    split at h
    · cases h; exact hbl
    · cases h; exact hrest b hbl

example : (hierarchical (α := Nat) 99 2 [1, 1, 1] ⟨.negInf, [7]⟩ (fun _ => ⟨.val 0, [0, 0, 0]⟩)).toOption.map (·.grad)
    = some [99, 99, 99] := by decide
example : (hierarchical (α := Nat) 99 2 [1, 1, 1] ⟨.val 1, [7]⟩ (fun _ => ⟨.val 0, [1, 2, 3]⟩)).toOption.map (·.grad)
    = some [1, 2, 10] := by decide


/-! ## the controller held across a history of set_population_model / fix_parameters / set_data calls -/

theorem ctrl_subNames_length (n : Nat) (d : String) (k : CtrlHistory.Kind) :
    (CtrlHistory.subNames n d k).length = CtrlHistory.kindCount n k := by
  cases k <;> simp [CtrlHistory.subNames, CtrlHistory.kindCount]

theorem ctrl_popNames_length (n : Nat) : ∀ (ks : List CtrlHistory.Kind) (ds : List String), ks.length = ds.length →
    (CtrlHistory.popNames n ks ds).length = (ks.map (CtrlHistory.kindCount n)).sum := by
  intro ks
  induction ks with
  | nil => intro ds _; cases ds <;> simp [CtrlHistory.popNames]
  | cons k ks ih =>
    intro ds h
    cases ds with
    | nil => simp at h
    | cons d ds =>
      simp only [List.length_cons, Nat.add_right_cancel_iff] at h
      simp [CtrlHistory.popNames, ctrl_subNames_length, ih ds h]

/-- the invariant of the controller: once a population model and data are set, the population model object has
    the number of individuals of the dataset -/
def ctrlInv (st : CtrlHistory.St) : Prop := ∀ n, st.pop.isSome → st.data = some n → st.nModel = n

theorem ctrl_step_inv (bottom : List String) (st : CtrlHistory.St) (op : CtrlHistory.Op) (h : ctrlInv st) :
    ctrlInv (CtrlHistory.step bottom st op) := by
  obtain ⟨pop, nModel, data, fixed⟩ := st
  intro n hp hd
  cases op with
  | setPop ks => simp [CtrlHistory.step] at hd ⊢; simp [hd]
  | setData m => simp [CtrlHistory.step] at hd ⊢; exact hd
  | fix ns =>
    cases pop with
    | none => simp [CtrlHistory.step] at hp
    | some ks => simp [CtrlHistory.step] at hp hd ⊢; exact h n (by simp) hd
  | release ns => simp [CtrlHistory.step] at hp hd ⊢; exact h n hp hd

theorem ctrl_run_inv (bottom : List String) : ∀ (ops : List CtrlHistory.Op) (st : CtrlHistory.St),
    ctrlInv st → ctrlInv (CtrlHistory.run bottom st ops) := by
  intro ops
  induction ops with
  | nil => intro st h; exact h
  | cons op ops ih => intro st h; exact ih _ (ctrl_step_inv bottom st op h)

theorem ctrl_posteriorTop (bottom : List String) (st : CtrlHistory.St) (h : ctrlInv st) (top : List String)
    (htop : CtrlHistory.posteriorTop bottom st = some top) : top = CtrlHistory.names bottom st := by
  obtain ⟨pop, nModel, data, fixed⟩ := st
  cases data with
  | none => simp [CtrlHistory.posteriorTop] at htop
  | some n =>
    cases pop with
    | none => simp [CtrlHistory.posteriorTop] at htop
    | some ks =>
      have hn : nModel = n := h n (by simp) rfl
      subst hn
      simp [CtrlHistory.posteriorTop] at htop
      exact htop.symm

/-- C17 (controller held across a history): after EVERY sequence of `set_population_model` / `set_data` (any
    numbers of individuals) / `fix_parameters` (fix and release) calls, the reported count is the number of reported
    names, and whenever a posterior can be built its top-level names ARE the reported names — so a prior of the
    reported dimension has the dimension the posterior demands. -/
theorem C17_controller_history (bottom : List String) (ops : List CtrlHistory.Op) :
    CtrlHistory.count bottom (CtrlHistory.run bottom CtrlHistory.init ops) =
      (CtrlHistory.names bottom (CtrlHistory.run bottom CtrlHistory.init ops)).length ∧
    ∀ top, CtrlHistory.posteriorTop bottom (CtrlHistory.run bottom CtrlHistory.init ops) = some top →
      top = CtrlHistory.names bottom (CtrlHistory.run bottom CtrlHistory.init ops) ∧
      top.length = CtrlHistory.count bottom (CtrlHistory.run bottom CtrlHistory.init ops) := by
  refine ⟨rfl, ?_⟩
  intro top htop
  have hinv : ctrlInv (CtrlHistory.run bottom CtrlHistory.init ops) :=
    ctrl_run_inv bottom ops CtrlHistory.init (by intro n hp; simp [CtrlHistory.init] at hp)
  have := ctrl_posteriorTop bottom _ hinv top htop
  exact ⟨this, by rw [this]; rfl⟩

/-- with nothing fixed the reported count is the sum of the sub-models' counts for the current number of
    individuals (a heterogeneous sub-model contributes one parameter per individual) -/
theorem C17_controller_names_count (bottom : List String) (ks : List CtrlHistory.Kind) (n : Nat) (d : Option Nat)
    (h : ks.length = bottom.length) :
    CtrlHistory.count bottom ⟨some ks, n, d, []⟩ = (ks.map (CtrlHistory.kindCount n)).sum := by
  simp [CtrlHistory.count, CtrlHistory.names, CtrlHistory.allNames, ctrl_popNames_length n ks bottom h]

/-- the `if … elif …` variant of `set_data` (unwrap the reduced model OR set the number of individuals) breaks the
    agreement: heterogeneous + pooled, the pooled parameter fixed, then data of 3 individuals — the controller reports
    2 parameters, the posterior has 4 top-level parameters -/
theorem C17_controller_history_unwrap_only_counterexample :
    ∃ (bottom : List String) (ops : List CtrlHistory.Op),
      (CtrlHistory.posteriorTop bottom (ops.foldl (CtrlHistory.stepUnwrapOnly bottom) CtrlHistory.init)).map List.length
        ≠ some (CtrlHistory.count bottom (ops.foldl (CtrlHistory.stepUnwrapOnly bottom) CtrlHistory.init)) := by
  refine ⟨["a", "b"], [.setPop [.het, .pooled], .fix ["Pooled b"], .setData 3], ?_⟩
  decide
end ChiModel
