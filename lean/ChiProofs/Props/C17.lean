import ChiModel.ShapeEta
import ChiModel.LogLikS1
import ChiModel.Reduced
import ChiModel.Labels
import ChiProofs.Props.C02
import ChiProofs.Props.C08
import Mathlib.Data.List.Nodup
set_option linter.unusedSectionVars false
set_option linter.unusedSimpArgs false
set_option linter.unusedVariables false
/-!
# C17 — parameter counts, names, vector lengths and gradient lengths always agree
-/
namespace ChiModel
open ShapeEta

/-! ## the individual-level names: cutting the special dimensions leaves `totHier` names -/

/-- C17 (hierarchical objects): for every composition of population sub-models and every number
    of individuals, the published names, the published IDs and the parameter count
    `n_ids · n_hierarchical_dims + n_population_parameters` have the same length, and the IDs mark
    exactly the individual-level entries (C02_ids). -/
theorem C17_hier_lengths (subs : List SubModel) (nIds : Nat) (llNames topNames ids : List String)
    (hll : llNames.length = totDim subs) (htop : topNames.length = totTop subs nIds)
    (hids : ids.length = nIds) (hpos : 0 < nIds) :
    (hierNames subs nIds llNames topNames).length = nIds * totHier subs + totTop subs nIds ∧
    (hierIds nIds (nIds * totHier subs) (totTop subs nIds) ids).length
      = nIds * totHier subs + totTop subs nIds := by
  constructor
  · rw [C02_names_length, cutSpecial_length subs 0 0 llNames (Nat.le_refl 0) (by omega), htop]
    simp
  · exact length_hierIds nIds _ _ ids hids (Nat.dvd_mul_right nIds _) hpos

/-! ## gradient length: the placement of sub-model blocks -/

section grad
variable {α : Type}

theorem placeGo_top (nIds : Nat) : ∀ (gs : List (SubGrad α)) (cols : List (Nat → Nat → Option α))
    (top : List α), (placeGo nIds gs cols top).2 = top ++ gs.flatMap (·.top)
  | [], _, _ => by simp [placeGo]
  | g :: gs, cols, top => by
    unfold placeGo
    rw [placeGo_top nIds gs]
    simp [List.append_assoc]

theorem placeGo_cols_length (nIds : Nat) : ∀ (gs : List (SubGrad α))
    (cols : List (Nat → Nat → Option α)) (top : List α),
    (placeGo nIds gs cols top).1.length = cols.length + (gs.filter (·.hier)).length
  | [], _, _ => by simp [placeGo]
  | g :: gs, cols, top => by
    unfold placeGo
    rw [placeGo_cols_length nIds gs]
    cases hh : g.hier with
    | true => simp [List.filter_cons, hh]; omega
    | false => simp [List.filter_cons, hh]

/-- C17 (gradient length): the hierarchical gradient assembled from the sub-models' blocks has
    `n_ids · Σ(hierarchical dims) + Σ(population parameters)` entries — the reported parameter
    count — for every list of blocks. -/
theorem C17_grad_length (nIds : Nat) (gs : List (SubGrad α)) :
    (placeFlat nIds gs).1.length + (placeFlat nIds gs).2.length
      = nIds * ((gs.filter (·.hier)).map (·.nDim)).sum + (gs.map (·.top.length)).sum := by
  unfold placeFlat
  simp only [placeGo_top, List.nil_append, List.length_flatMap, List.length_map, List.length_range,
    List.map_const', List.sum_replicate_nat]
  have hlen := placeGo_cols_length nIds gs [] []
  simp only [List.length_nil, Nat.zero_add] at hlen
  have hz : ((List.zip (placeGo nIds gs [] []).1 ((gs.filter (·.hier)).map (·.nDim))).map
      (fun cw => cw.2)) = (gs.filter (·.hier)).map (·.nDim) := by
    rw [← List.unzip_snd, List.unzip_zip_right (by simp [hlen])]
  have : (List.map (fun cw : (Nat → Nat → Option α) × Nat => cw.2)
      (List.zip (placeGo nIds gs [] []).1 ((gs.filter (·.hier)).map (·.nDim)))).sum
      = ((gs.filter (·.hier)).map (·.nDim)).sum := by rw [hz]
  simp only [List.map_map, Function.comp_def] at this ⊢
  rw [this]

end grad

/-! ## reduced objects: names, counts and gradient entries after any history (from C08) -/

/-- C17 (after every `fix_parameters` history): reported count = number of reported names =
    length of the restricted gradient, for every reducible object. -/
theorem C17_reduced_lengths {α β : Type} (names : List String) (g : α)
    (ops : List (Reduced.Req α)) (grad : List β) (hg : grad.length = names.length) :
    Reduced.nFree (Reduced.view names g (Reduced.run names g ops))
        = (Reduced.restrict (Reduced.view names g (Reduced.run names g ops)) names).length ∧
    (Reduced.restrict (Reduced.view names g (Reduced.run names g ops)) grad).length
        = (Reduced.restrict (Reduced.view names g (Reduced.run names g ops)) names).length := by
  have hc := (Reduced.C08_counts names g ops).1
  rw [Reduced.C08_names]
  refine ⟨hc, ?_⟩
  rw [Reduced.C08_grad_restriction]
  clear hc
  generalize Reduced.net ops = f
  unfold Reduced.freeNames
  induction names generalizing grad with
  | nil => simp [Reduced.restrictSpec]
  | cons n ns ih =>
    cases grad with
    | nil => simp at hg
    | cons x xs =>
      simp only [Reduced.restrictSpec, List.filter_cons]
      have := ih xs (by simpa using hg)
      split <;> simp [this]

/-! ## distinct names once prefixed by the ID -/

/-- C17 (distinct names): if the individuals' IDs are distinct and non-empty words without blanks
    are not needed — it suffices that the map `(id, name) ↦ id ++ " " ++ name` is injective on the
    published pairs — then the ID-prefixed individual-level names are pairwise distinct. Stated for
    an arbitrary injective labelling `lab`. -/
theorem C17_prefixed_nodup {ι ν σ : Type} (ids : List ι) (names : List ν) (lab : ι → ν → σ)
    (hinj : ∀ i j n m, lab i n = lab j m → i = j ∧ n = m) (hids : ids.Nodup) (hn : names.Nodup) :
    (ids.flatMap (fun i => names.map (lab i))).Nodup := by
  rw [List.nodup_flatMap]
  constructor
  · intro i _
    exact hn.map (fun a b h => (hinj i i a b h).2)
  · refine hids.imp ?_
    intro i j hij
    intro x hx1 hx2
    simp only [List.mem_map] at hx1 hx2
    obtain ⟨a, _, ha⟩ := hx1
    obtain ⟨b, _, hb⟩ := hx2
    exact hij (hinj i j a b (ha.trans hb.symm)).1

/-! ## the IDs of the individuals (`_label_log_likelihoods`) -/
section LabelsSec
open Labels

theorem labelGo_some (ls : List (Option String)) : ∀ (k : Nat) (seen r : List String),
    labelGo k ls seen = some r → seen.Nodup →
      r = seen.reverse ++ effectiveFrom k ls ∧ r.Nodup := by
  induction ls with
  | nil =>
    intro k seen r h hs
    simp only [labelGo, Option.some.injEq] at h
    subst h
    simp [effectiveFrom, hs]
  | cons l ls ih =>
    intro k seen r h hs
    simp only [labelGo] at h
    split at h
    · cases h
    · rename_i hnot
      obtain ⟨h1, h2⟩ := ih (k + 1) (effective k l :: seen) r h (List.nodup_cons.mpr ⟨hnot, hs⟩)
      refine ⟨?_, h2⟩
      rw [h1]; simp [effectiveFrom]

theorem labelGo_complete (ls : List (Option String)) : ∀ (k : Nat) (seen : List String),
    (seen.reverse ++ effectiveFrom k ls).Nodup →
      labelGo k ls seen = some (seen.reverse ++ effectiveFrom k ls) := by
  induction ls with
  | nil => intro k seen _; simp [labelGo, effectiveFrom]
  | cons l ls ih =>
    intro k seen h
    simp only [labelGo]
    have hnot : effective k l ∉ seen := by
      intro hin
      simp only [effectiveFrom] at h
      have := (List.nodup_append.mp h).2.2 (effective k l) (by simpa using hin) (effective k l) (by simp)
      exact this rfl
    rw [if_neg hnot]
    have : (effective k l :: seen).reverse ++ effectiveFrom (k + 1) ls
        = seen.reverse ++ effectiveFrom k (l :: ls) := by simp [effectiveFrom]
    rw [ih (k + 1) (effective k l :: seen) (by rw [this]; exact h), this]

theorem effectiveFrom_length (ls : List (Option String)) : ∀ k, (effectiveFrom k ls).length = ls.length := by
  induction ls with
  | nil => intro k; rfl
  | cons l ls ih => intro k; simp [effectiveFrom, ih]

/-- C17 (IDs of the individuals): whenever a hierarchical log-likelihood comes into being, the IDs of its
    individuals are pairwise distinct, one per individual, and each is the individual's own label or — if it
    has none — `'Log-likelihood <position>'`. -/
theorem C17_labels_nodup (ls : List (Option String)) (r : List String) (h : label ls = some r) :
    r.Nodup ∧ r = effectiveFrom 0 ls ∧ r.length = ls.length := by
  obtain ⟨h1, h2⟩ := labelGo_some ls 0 [] r h List.nodup_nil
  have h1' : r = effectiveFrom 0 ls := by simpa using h1
  exact ⟨h2, h1', by rw [h1', effectiveFrom_length]⟩

/-- … and the constructor refuses exactly the label lists under which two individuals would end up with the
    same ID (nothing else is refused). -/
theorem C17_labels_reject_iff (ls : List (Option String)) :
    label ls = none ↔ ¬ (effectiveFrom 0 ls).Nodup := by
  constructor
  · intro h hn
    have := labelGo_complete ls 0 [] (by simpa using hn)
    rw [label] at h; rw [h] at this; cases this
  · intro hn
    cases hl : label ls with
    | none => rfl
    | some r =>
      obtain ⟨h2, h1, _⟩ := C17_labels_nodup ls r hl
      exact absurd (h1 ▸ h2) hn

/-- the test must be made on the label the individual ends up with: testing the raw label lets a default
    collide with a label given earlier (witness: a likelihood re-used from an earlier model, labelled
    'Log-likelihood 2', ahead of an unlabelled one) -/
theorem C17_labels_early_test_counterexample :
    labelGoEarly 0 [some "Log-likelihood 2", none] [] = some ["Log-likelihood 2", "Log-likelihood 2"] ∧
    label [some "Log-likelihood 2", none] = none := by
  constructor <;> decide

example : label [none, some "patient 7", none] = some ["Log-likelihood 1", "patient 7", "Log-likelihood 3"] := by
  decide
end LabelsSec

end ChiModel
