import ChiModel.ShapeEta
import ChiModel.LogLikS1
import ChiModel.Reduced
import ChiProofs.Props.C02
import ChiProofs.Props.C08
import Mathlib.Data.List.Nodup
set_option linter.unusedSectionVars false
set_option linter.unusedSimpArgs false
set_option linter.unusedVariables false
/-!
# C17 — parameter counts, names, vector lengths and gradient lengths always agree
-/
namespace ChiModel
open ShapeEta

/-! ## the individual-level names: cutting the special dimensions leaves `totHier` names -/

/-- C17 (hierarchical objects): for every composition of population sub-models and every number
    of individuals, the published names, the published IDs and the parameter count
    `n_ids · n_hierarchical_dims + n_population_parameters` have the same length, and the IDs mark
    exactly the individual-level entries (C02_ids). -/
theorem C17_hier_lengths (subs : List SubModel) (nIds : Nat) (llNames topNames ids : List String)
    (hll : llNames.length = totDim subs) (htop : topNames.length = totTop subs nIds)
    (hids : ids.length = nIds) (hpos : 0 < nIds) :
    (hierNames subs nIds llNames topNames).length = nIds * totHier subs + totTop subs nIds ∧
    (hierIds nIds (nIds * totHier subs) (totTop subs nIds) ids).length
      = nIds * totHier subs + totTop subs nIds := by
  constructor
  · rw [C02_names_length, cutSpecial_length subs 0 0 llNames (Nat.le_refl 0) (by omega), htop]
    simp
  · exact length_hierIds nIds _ _ ids hids (Nat.dvd_mul_right nIds _) hpos

/-! ## gradient length: the placement of sub-model blocks -/

section grad
variable {α : Type}

theorem placeGo_top (nIds : Nat) : ∀ (gs : List (SubGrad α)) (cols : List (Nat → Nat → Option α))
    (top : List α), (placeGo nIds gs cols top).2 = top ++ gs.flatMap (·.top)
  | [], _, _ => by simp [placeGo]
  | g :: gs, cols, top => by
    unfold placeGo
    rw [placeGo_top nIds gs]
    simp [List.append_assoc]

theorem placeGo_cols_length (nIds : Nat) : ∀ (gs : List (SubGrad α))
    (cols : List (Nat → Nat → Option α)) (top : List α),
    (placeGo nIds gs cols top).1.length = cols.length + (gs.filter (·.hier)).length
  | [], _, _ => by simp [placeGo]
  | g :: gs, cols, top => by
    unfold placeGo
    rw [placeGo_cols_length nIds gs]
    cases hh : g.hier with
    | true => simp [List.filter_cons, hh]; omega
    | false => simp [List.filter_cons, hh]

/-- C17 (gradient length): the hierarchical gradient assembled from the sub-models' blocks has
    `n_ids · Σ(hierarchical dims) + Σ(population parameters)` entries — the reported parameter
    count — for every list of blocks. -/
theorem C17_grad_length (nIds : Nat) (gs : List (SubGrad α)) :
    (placeFlat nIds gs).1.length + (placeFlat nIds gs).2.length
      = nIds * ((gs.filter (·.hier)).map (·.nDim)).sum + (gs.map (·.top.length)).sum := by
  unfold placeFlat
  simp only [placeGo_top, List.nil_append, List.length_flatMap, List.length_map, List.length_range,
    List.map_const', List.sum_replicate_nat]
  have hlen := placeGo_cols_length nIds gs [] []
  simp only [List.length_nil, Nat.zero_add] at hlen
  have hz : ((List.zip (placeGo nIds gs [] []).1 ((gs.filter (·.hier)).map (·.nDim))).map
      (fun cw => cw.2)) = (gs.filter (·.hier)).map (·.nDim) := by
    rw [← List.unzip_snd, List.unzip_zip_right (by simp [hlen])]
  have : (List.map (fun cw : (Nat → Nat → Option α) × Nat => cw.2)
      (List.zip (placeGo nIds gs [] []).1 ((gs.filter (·.hier)).map (·.nDim)))).sum
      = ((gs.filter (·.hier)).map (·.nDim)).sum := by rw [hz]
  simp only [List.map_map, Function.comp_def] at this ⊢
  rw [this]

end grad

/-! ## reduced objects: names, counts and gradient entries after any history (from C08) -/

/-- C17 (after every `fix_parameters` history): reported count = number of reported names =
    length of the restricted gradient, for every reducible object. -/
theorem C17_reduced_lengths {α β : Type} (names : List String) (g : α)
    (ops : List (Reduced.Req α)) (grad : List β) (hg : grad.length = names.length) :
    Reduced.nFree (Reduced.view names g (Reduced.run names g ops))
        = (Reduced.restrict (Reduced.view names g (Reduced.run names g ops)) names).length ∧
    (Reduced.restrict (Reduced.view names g (Reduced.run names g ops)) grad).length
        = (Reduced.restrict (Reduced.view names g (Reduced.run names g ops)) names).length := by
  have hc := (Reduced.C08_counts names g ops).1
  rw [Reduced.C08_names]
  refine ⟨hc, ?_⟩
  rw [Reduced.C08_grad_restriction]
  clear hc
  generalize Reduced.net ops = f
  unfold Reduced.freeNames
  induction names generalizing grad with
  | nil => simp [Reduced.restrictSpec]
  | cons n ns ih =>
    cases grad with
    | nil => simp at hg
    | cons x xs =>
      simp only [Reduced.restrictSpec, List.filter_cons]
      have := ih xs (by simpa using hg)
      split <;> simp [this]

/-! ## distinct names once prefixed by the ID -/

/-- C17 (distinct names): if the individuals' IDs are distinct and non-empty words without blanks
    are not needed — it suffices that the map `(id, name) ↦ id ++ " " ++ name` is injective on the
    published pairs — then the ID-prefixed individual-level names are pairwise distinct. Stated for
    an arbitrary injective labelling `lab`. -/
theorem C17_prefixed_nodup {ι ν σ : Type} (ids : List ι) (names : List ν) (lab : ι → ν → σ)
    (hinj : ∀ i j n m, lab i n = lab j m → i = j ∧ n = m) (hids : ids.Nodup) (hn : names.Nodup) :
    (ids.flatMap (fun i => names.map (lab i))).Nodup := by
  rw [List.nodup_flatMap]
  constructor
  · intro i _
    exact hn.map (fun a b h => (hinj i i a b h).2)
  · refine hids.imp ?_
    intro i j hij
    intro x hx1 hx2
    simp only [List.mem_map] at hx1 hx2
    obtain ⟨a, _, ha⟩ := hx1
    obtain ⟨b, _, hb⟩ := hx2
    exact hij (hinj i j a b (ha.trans hb.symm)).1

end ChiModel
