import ChiModel.ShapeEta
import ChiModel.LogLikS1
import ChiModel.Reduced
import ChiModel.Labels
import ChiModel.ReducedResize
import ChiProofs.Props.C02
import ChiProofs.Props.C08
import Mathlib.Data.List.Nodup
set_option linter.unusedSectionVars false
set_option linter.unusedSimpArgs false
set_option linter.unusedVariables false
/-!
# C17 — parameter counts, names, vector lengths and gradient lengths always agree
-/
namespace ChiModel
open ShapeEta

/-! ## the individual-level names: cutting the special dimensions leaves `totHier` names -/

/-- C17 (hierarchical objects): for every composition of population sub-models and every number
    of individuals, the published names, the published IDs and the parameter count
    `n_ids · n_hierarchical_dims + n_population_parameters` have the same length, and the IDs mark
    exactly the individual-level entries (C02_ids). -/
theorem C17_hier_lengths (subs : List SubModel) (nIds : Nat) (llNames topNames ids : List String)
    (hll : llNames.length = totDim subs) (htop : topNames.length = totTop subs nIds)
    (hids : ids.length = nIds) (hpos : 0 < nIds) :
    (hierNames subs nIds llNames topNames).length = nIds * totHier subs + totTop subs nIds ∧
    (hierIds nIds (nIds * totHier subs) (totTop subs nIds) ids).length
      = nIds * totHier subs + totTop subs nIds := by
  constructor
  · rw [C02_names_length, cutSpecial_length subs 0 0 llNames (Nat.le_refl 0) (by omega), htop]
    simp
  · exact length_hierIds nIds _ _ ids hids (Nat.dvd_mul_right nIds _) hpos

/-! ## gradient length: the placement of sub-model blocks -/

section grad
variable {α : Type}

theorem placeGo_top (nIds : Nat) : ∀ (gs : List (SubGrad α)) (cols : List (Nat → Nat → Option α))
    (top : List α), (placeGo nIds gs cols top).2 = top ++ gs.flatMap (·.top)
  | [], _, _ => by simp [placeGo]
  | g :: gs, cols, top => by
    unfold placeGo
    rw [placeGo_top nIds gs]
    simp [List.append_assoc]

theorem placeGo_cols_length (nIds : Nat) : ∀ (gs : List (SubGrad α))
    (cols : List (Nat → Nat → Option α)) (top : List α),
    (placeGo nIds gs cols top).1.length = cols.length + (gs.filter (·.hier)).length
  | [], _, _ => by simp [placeGo]
  | g :: gs, cols, top => by
    unfold placeGo
    rw [placeGo_cols_length nIds gs]
    cases hh : g.hier with
    | true => simp [List.filter_cons, hh]; omega
    | false => simp [List.filter_cons, hh]

/-- C17 (gradient length): the hierarchical gradient assembled from the sub-models' blocks has
    `n_ids · Σ(hierarchical dims) + Σ(population parameters)` entries — the reported parameter
    count — for every list of blocks. -/
theorem C17_grad_length (nIds : Nat) (gs : List (SubGrad α)) :
    (placeFlat nIds gs).1.length + (placeFlat nIds gs).2.length
      = nIds * ((gs.filter (·.hier)).map (·.nDim)).sum + (gs.map (·.top.length)).sum := by
  unfold placeFlat
  simp only [placeGo_top, List.nil_append, List.length_flatMap, List.length_map, List.length_range,
    List.map_const', List.sum_replicate_nat]
  have hlen := placeGo_cols_length nIds gs [] []
  simp only [List.length_nil, Nat.zero_add] at hlen
  have hz : ((List.zip (placeGo nIds gs [] []).1 ((gs.filter (·.hier)).map (·.nDim))).map
      (fun cw => cw.2)) = (gs.filter (·.hier)).map (·.nDim) := by
    rw [← List.unzip_snd, List.unzip_zip_right (by simp [hlen])]
  have : (List.map (fun cw : (Nat → Nat → Option α) × Nat => cw.2)
      (List.zip (placeGo nIds gs [] []).1 ((gs.filter (·.hier)).map (·.nDim)))).sum
      = ((gs.filter (·.hier)).map (·.nDim)).sum := by rw [hz]
  simp only [List.map_map, Function.comp_def] at this ⊢
  rw [this]

end grad

/-! ## reduced objects: names, counts and gradient entries after any history (from C08) -/

/-- C17 (after every `fix_parameters` history): reported count = number of reported names =
    length of the restricted gradient, for every reducible object. -/
theorem C17_reduced_lengths {α β : Type} (names : List String) (g : α)
    (ops : List (Reduced.Req α)) (grad : List β) (hg : grad.length = names.length) :
    Reduced.nFree (Reduced.view names g (Reduced.run names g ops))
        = (Reduced.restrict (Reduced.view names g (Reduced.run names g ops)) names).length ∧
    (Reduced.restrict (Reduced.view names g (Reduced.run names g ops)) grad).length
        = (Reduced.restrict (Reduced.view names g (Reduced.run names g ops)) names).length := by
  have hc := (Reduced.C08_counts names g ops).1
  rw [Reduced.C08_names]
  refine ⟨hc, ?_⟩
  rw [Reduced.C08_grad_restriction]
  clear hc
  generalize Reduced.net ops = f
  unfold Reduced.freeNames
  induction names generalizing grad with
  | nil => simp [Reduced.restrictSpec]
  | cons n ns ih =>
    cases grad with
    | nil => simp at hg
    | cons x xs =>
      simp only [Reduced.restrictSpec, List.filter_cons]
      have := ih xs (by simpa using hg)
      split <;> simp [this]

/-! ## distinct names once prefixed by the ID -/

/-- C17 (distinct names): if the individuals' IDs are distinct and non-empty words without blanks
    are not needed — it suffices that the map `(id, name) ↦ id ++ " " ++ name` is injective on the
    published pairs — then the ID-prefixed individual-level names are pairwise distinct. Stated for
    an arbitrary injective labelling `lab`. -/
theorem C17_prefixed_nodup {ι ν σ : Type} (ids : List ι) (names : List ν) (lab : ι → ν → σ)
    (hinj : ∀ i j n m, lab i n = lab j m → i = j ∧ n = m) (hids : ids.Nodup) (hn : names.Nodup) :
    (ids.flatMap (fun i => names.map (lab i))).Nodup := by
  rw [List.nodup_flatMap]
  constructor
  · intro i _
    exact hn.map (fun a b h => (hinj i i a b h).2)
  · refine hids.imp ?_
    intro i j hij
    intro x hx1 hx2
    simp only [List.mem_map] at hx1 hx2
    obtain ⟨a, _, ha⟩ := hx1
    obtain ⟨b, _, hb⟩ := hx2
    exact hij (hinj i j a b (ha.trans hb.symm)).1

/-! ## the IDs of the individuals (`_label_log_likelihoods`) -/
section LabelsSec
open Labels

theorem labelGo_some (ls : List (Option String)) : ∀ (k : Nat) (seen r : List String),
    labelGo k ls seen = some r → seen.Nodup →
      r = seen.reverse ++ effectiveFrom k ls ∧ r.Nodup := by
  induction ls with
  | nil =>
    intro k seen r h hs
    simp only [labelGo, Option.some.injEq] at h
    subst h
    simp [effectiveFrom, hs]
  | cons l ls ih =>
    intro k seen r h hs
    simp only [labelGo] at h
    split at h
    · cases h
    · rename_i hnot
      obtain ⟨h1, h2⟩ := ih (k + 1) (effective k l :: seen) r h (List.nodup_cons.mpr ⟨hnot, hs⟩)
      refine ⟨?_, h2⟩
      rw [h1]; simp [effectiveFrom]

theorem labelGo_complete (ls : List (Option String)) : ∀ (k : Nat) (seen : List String),
    (seen.reverse ++ effectiveFrom k ls).Nodup →
      labelGo k ls seen = some (seen.reverse ++ effectiveFrom k ls) := by
  induction ls with
  | nil => intro k seen _; simp [labelGo, effectiveFrom]
  | cons l ls ih =>
    intro k seen h
    simp only [labelGo]
    have hnot : effective k l ∉ seen := by
      intro hin
      simp only [effectiveFrom] at h
      have := (List.nodup_append.mp h).2.2 (effective k l) (by simpa using hin) (effective k l) (by simp)
      exact this rfl
    rw [if_neg hnot]
    have : (effective k l :: seen).reverse ++ effectiveFrom (k + 1) ls
        = seen.reverse ++ effectiveFrom k (l :: ls) := by simp [effectiveFrom]
    rw [ih (k + 1) (effective k l :: seen) (by rw [this]; exact h), this]

theorem effectiveFrom_length (ls : List (Option String)) : ∀ k, (effectiveFrom k ls).length = ls.length := by
  induction ls with
  | nil => intro k; rfl
  | cons l ls ih => intro k; simp [effectiveFrom, ih]

/-- C17 (IDs of the individuals): whenever a hierarchical log-likelihood comes into being, the IDs of its
    individuals are pairwise distinct, one per individual, and each is the individual's own label or — if it
    has none — `'Log-likelihood <position>'`. -/
theorem C17_labels_nodup (ls : List (Option String)) (r : List String) (h : label ls = some r) :
    r.Nodup ∧ r = effectiveFrom 0 ls ∧ r.length = ls.length := by
  obtain ⟨h1, h2⟩ := labelGo_some ls 0 [] r h List.nodup_nil
  have h1' : r = effectiveFrom 0 ls := by simpa using h1
  exact ⟨h2, h1', by rw [h1', effectiveFrom_length]⟩

/-- … and the constructor refuses exactly the label lists under which two individuals would end up with the
    same ID (nothing else is refused). -/
theorem C17_labels_reject_iff (ls : List (Option String)) :
    label ls = none ↔ ¬ (effectiveFrom 0 ls).Nodup := by
  constructor
  · intro h hn
    have := labelGo_complete ls 0 [] (by simpa using hn)
    rw [label] at h; rw [h] at this; cases this
  · intro hn
    cases hl : label ls with
    | none => rfl
    | some r =>
      obtain ⟨h2, h1, _⟩ := C17_labels_nodup ls r hl
      exact absurd (h1 ▸ h2) hn

/-- the test must be made on the label the individual ends up with: testing the raw label lets a default
    collide with a label given earlier (witness: a likelihood re-used from an earlier model, labelled
    'Log-likelihood 2', ahead of an unlabelled one) -/
theorem C17_labels_early_test_counterexample :
    labelGoEarly 0 [some "Log-likelihood 2", none] [] = some ["Log-likelihood 2", "Log-likelihood 2"] ∧
    label [some "Log-likelihood 2", none] = none := by
  constructor <;> decide

example : label [none, some "patient 7", none] = some ["Log-likelihood 1", "patient 7", "Log-likelihood 3"] := by
  decide
end LabelsSec

end ChiModel

/-! ## resizing a reduced population model (`ReducedPopulationModel.set_n_ids`) -/
namespace ChiModel.Reduced
variable {α : Type}

theorem lookupLast_nil (n : String) : lookupLast ([] : Req α) n = none := by
  simp [lookupLast]

theorem lookupLast_cons_of_notin (d : Req α) (k : String) (v : Option α) (n : String)
    (h : ∀ p ∈ d, p.1 ≠ n) : lookupLast ((k, v) :: d) n = if k = n then some v else none := by
  unfold lookupLast
  rw [List.reverse_cons, List.find?_append]
  have hnone : d.reverse.find? (fun p => p.1 == n) = none := by
    rw [List.find?_eq_none]
    intro p hp
    have := h p (List.mem_reverse.mp hp)
    simpa using this
  rw [hnone]
  by_cases hk : k = n <;> simp [hk]

theorem lookupLast_cons_ne (d : Req α) (k : String) (v : Option α) (n : String) (hk : k ≠ n) :
    lookupLast ((k, v) :: d) n = lookupLast d n := by
  unfold lookupLast
  rw [List.reverse_cons, List.find?_append]
  cases h : d.reverse.find? (fun p => p.1 == n) with
  | some x => simp
  | none => simp [hk]

theorem fixedPairs_keys (names : List String) : ∀ (c : List (Bool × α)) (p : String × Option α),
    p ∈ fixedPairs names c → p.1 ∈ names := by
  induction names with
  | nil => intro c p h; cases c <;> simp [fixedPairs] at h
  | cons n ns ih =>
    intro c p h
    cases c with
    | nil => simp [fixedPairs] at h
    | cons x cs =>
      obtain ⟨b, v⟩ := x
      cases b with
      | true =>
        simp only [fixedPairs, List.mem_cons] at h
        rcases h with h | h
        · subst h; simp
        · exact List.mem_cons_of_mem _ (ih cs p h)
      | false =>
        simp only [fixedPairs] at h
        exact List.mem_cons_of_mem _ (ih cs p h)

theorem fixedPairs_allFree (g : α) : ∀ ks : List String,
    fixedPairs ks (ks.map (fun _ => (false, g))) = ([] : Req α)
  | [] => rfl
  | _ :: ks => by
    show fixedPairs ks (ks.map (fun _ => (false, g))) = []
    exact fixedPairs_allFree g ks

/-- the remembered dictionary says, for every name: its old fixed value if it was a fixed name of the old list,
    nothing otherwise -/
theorem lookupLast_fixedPairs (f : String → Option α) :
    ∀ (names : List String) (c : List (Bool × α)), names.Nodup → AllGood f names c → ∀ n,
      lookupLast (fixedPairs names c) n = if n ∈ names then (f n).map some else none := by
  intro names
  induction names with
  | nil => intro c _ h n; cases c <;> simp [fixedPairs, lookupLast_nil]
  | cons k ks ih =>
    intro c hnd h n
    cases c with
    | nil => simp [AllGood] at h
    | cons x cs =>
      obtain ⟨b, v⟩ := x
      obtain ⟨hk, hks⟩ := List.nodup_cons.mp hnd
      obtain ⟨⟨hb, hv⟩, hrest⟩ := h
      have ihn := ih cs hks hrest n
      cases b with
      | true =>
        simp only [fixedPairs]
        by_cases hkn : k = n
        · subst hkn
          rw [lookupLast_cons_of_notin _ _ _ _ (fun p hp he => hk (by rw [← he]; exact fixedPairs_keys ks cs p hp))]
          simp only [if_true, List.mem_cons, true_or]
          have : (f k).isSome = true := by simpa using hb.symm
          obtain ⟨w, hw⟩ := Option.isSome_iff_exists.mp this
          have hvw : v = w := hv w hw
          rw [hw, hvw]; rfl
        · rw [lookupLast_cons_ne _ _ _ _ hkn, ihn]
          have : (n ∈ k :: ks) ↔ n ∈ ks := by
            simp only [List.mem_cons]; constructor
            · rintro (h | h); exact absurd h.symm hkn; exact h
            · exact Or.inr
          simp only [this]
      | false =>
        simp only [fixedPairs]
        rw [ihn]
        by_cases hkn : k = n
        · subst hkn
          have hnone : f k = none := by
            cases hf : f k with
            | none => rfl
            | some w => simp [hf] at hb
          simp [hk, hnone]
        · have : (n ∈ k :: ks) ↔ n ∈ ks := by
            simp only [List.mem_cons]; constructor
            · rintro (h | h); exact absurd h.symm hkn; exact h
            · exact Or.inr
          simp only [this]

/-- what is fixed after the resize: the old fixed name-value pairs, as far as the names still exist -/
def carried (f : String → Option α) (namesOld : List String) : String → Option α :=
  fun n => if n ∈ namesOld then f n else none

/-- C17 / C08 (`ReducedPopulationModel.set_n_ids`): if the number of parameters of the wrapped model changes,
    the hidden state after the call describes exactly the old fixed name-value pairs restricted to the names
    that still exist — whatever the history that led to the old state and whatever the new parameter list. -/
theorem C17_resize_state (g : α) (f : String → Option α) (namesOld namesNew : List String) (st : St α)
    (hnd : namesOld.Nodup) (hlen : namesNew.length ≠ namesOld.length)
    (h : AllGood f namesOld (view namesOld g st)) :
    AllGood (carried f namesOld) namesNew (view namesNew g (resize g namesOld namesNew st)) := by
  unfold resize
  rw [if_neg hlen]
  cases st with
  | none =>
    -- nothing was fixed: f is none on every old name
    have hfree : ∀ n ∈ namesOld, f n = none := by
      intro n hn
      have hz := lookupLast_fixedPairs f namesOld _ hnd h n
      simp only [view] at hz
      have hp : fixedPairs namesOld (namesOld.map (fun _ => (false, g))) = ([] : Req α) :=
        fixedPairs_allFree g namesOld
      rw [hp, lookupLast_nil, if_pos hn] at hz
      cases hf : f n with
      | none => rfl
      | some w => simp [hf] at hz
    have : carried f namesOld = fun _ => none := by
      funext n; unfold carried; by_cases hn : n ∈ namesOld <;> simp [hn, hfree]
    rw [this]
    exact allGood_init g namesNew
  | some c =>
    have hstep := step_good namesNew g none (fun _ => none) (fixedPairs namesOld c) (allGood_init g namesNew)
    have hnet : netStep (fun _ => none) (fixedPairs namesOld c) = carried f namesOld := by
      funext n
      simp only [netStep]
      rw [lookupLast_fixedPairs f namesOld c hnd (by simpa [view] using h) n]
      unfold carried
      by_cases hn : n ∈ namesOld
      · simp only [hn, if_true]; cases f n <;> rfl
      · simp [hn]
    rw [hnet] at hstep
    exact hstep

/-- … hence the reported names, the count and the number of fixed parameters after the resize -/
theorem C17_resize_names (g : α) (f : String → Option α) (namesOld namesNew : List String) (st : St α)
    (hnd : namesOld.Nodup) (hlen : namesNew.length ≠ namesOld.length)
    (h : AllGood f namesOld (view namesOld g st)) :
    let c' := view namesNew g (resize g namesOld namesNew st)
    restrict c' namesNew = freeNames (carried f namesOld) namesNew ∧
    nFree c' = (freeNames (carried f namesOld) namesNew).length ∧ nFixed c' + nFree c' = namesNew.length := by
  have hg := C17_resize_state g f namesOld namesNew st hnd hlen h
  refine ⟨?_, nFree_eq _ namesNew _ hg⟩
  rw [restrict_eq_spec _ namesNew _ namesNew hg]
  exact restrictSpec_self _ namesNew

/-- the comparison must be made with the cached TOTAL: compared with the number of free parameters, a change
    that removes exactly as many parameters as are fixed goes unnoticed and the old mask is kept for the new,
    shorter list (witness of the seeded change C17-10: ID 1, ID 2, ID 3 and a fixed 'Std.', 3 → 2 individuals) -/
theorem C17_resize_free_count_counterexample :
    let old := ["ID 1", "ID 2", "ID 3", "Mean", "Std."]
    let new := ["ID 1", "ID 2", "Mean", "Std."]
    let st : St Nat := some [(false, 0), (false, 0), (false, 0), (false, 0), (true, 7)]
    (view new 0 (resize 0 old new st)) = [(false, 0), (false, 0), (false, 0), (true, 7)] ∧
    (view new 0 (resizeFreeCount 0 old new st)).length = 5 := by
  decide
end ChiModel.Reduced
