import ChiProofs.Lemmas.MechConfigLegacy

/-!
# C11 — mechanistic model behaviour depends only on its final configuration; copies are independent

Objects: `step legacy` is the state machine over the hidden state of `SBMLModel / PKPDModel /
ReducedMechanisticModel` (`ChiModel/MechConfig.lean`; `legacy = true` is `set_administration` as the
code has it, `legacy = false` the intended one), `applyCfg / net` the machine over the visible
configuration with only the documented resets, `fresh c = build c` the object that has exactly the
configuration `c`, `observe` = `parameters(), n_parameters(), outputs(), dosing_regimen(),
has_sensitivities()` and the solver call record of a `simulate`.

* full statement, all histories, intended transitions: `C11_net_config`, `C11_reported_regimen_applied`;
* the code as it is: `C11_net_config_partial`, `C11_reported_regimen_applied_partial` for `WellOrdered`
  histories (no `set_administration` after a regimen was set, no direct route after an indirect one, no
  indirect route after names were assigned), one `…_counterexample` per excluded class;
* copies: `C11_copy_same`, `C11_copy_independent`; `C11_flag_matches_solver` (all histories, both
  variants: the flag `_has_sensitivities` agrees with the solver object — the repaired `copy` defect).

The model follows /repo at 4fca413: `ReducedMechanisticModel` carries `_empty_sensitivities` (f18d571) and
`set_outputs` resets it (4fca413; the behaviour before that commit is kept as `stepKeepFlag` for
`C11_outputs_after_empty_sens_counterexample_before_4fca413` only).
-/
set_option linter.unusedSectionVars false
set_option linter.unusedSimpArgs false
namespace ChiModel.MechConfig
variable (b : Base)

/-! ## refinement: the object machine *is* the configuration machine -/

/-- One configuration call on the object that has configuration `c` (intended transitions) gives the
object that has configuration `applyCfg c op`, and raises exactly when the configuration machine
rejects the call.  All redundant hidden state — `_model`, the name tables, `_n_outputs`, the solver with
its protocol and sensitivities, the flag, the wrapper's cached count and names — is a function of the
visible configuration before and after. -/
theorem C11_refines (c : Config) (op : Op) (h : Good b c) :
    step b false (build b c) op = (build b (applyCfg b c op).1, (applyCfg b c op).2) :=
  step_build b c op h

theorem run_build (ops : List Op) : ∀ (c : Config), Good b c →
    run b false (build b c) ops = build b (net b c ops) := by
  induction ops with
  | nil => intro c _; rfl
  | cons op ops ih =>
    intro c h
    simp only [run, net]
    rw [step_build b c op h]
    exact ih _ (good_apply b c op h)

theorem length_insertName (x : String) (l : List String) : (insertName x l).length = l.length + 1 := by
  induction l with
  | nil => rfl
  | cons y l ih => unfold insertName; split_ifs <;> simp [ih]

theorem length_sortNames (l : List String) : (sortNames l).length = l.length := by
  induction l with
  | nil => rfl
  | cons x l ih => unfold sortNames; rw [length_insertName, ih]; rfl

theorem initObj_eq : initObj b = build b (initCfg b) := by
  unfold initObj build init initCfg buildM
  simp [tablesOf, variantOf, length_sortNames]

/-- **C11 (intended transitions), every history**: after any finite sequence of configuration calls —
valid or raising, in any order, including wrapping, fixing and copying — the object *is* the freshly
configured object of the net configuration; in particular everything observable (names, counts,
outputs, reported regimen, and which model, protocol, sensitivities, state / constant assignment and
logged variables a `simulate` hands to the solver) is that of the fresh object. -/
theorem C11_net_config (ops : List Op) :
    observe b (run b false (initObj b) ops) = observe b (fresh b (net b (initCfg b) ops)) := by
  rw [initObj_eq, run_build b ops _ (good_init b)]; rfl

/-! ## the code as it is -/

theorem run_legacy_eq (ops : List Op) (hw : b.WF) : ∀ (h : Hist) (c : Config), Inv b h c →
    wellOrderedFrom h ops = true → run b true (build b c) ops = run b false (build b c) ops := by
  induction ops with
  | nil => intro h c _ _; rfl
  | cons op ops ih =>
    intro h c hi hwo
    simp only [wellOrderedFrom, Bool.and_eq_true] at hwo
    simp only [run]
    rw [step_legacy_eq b h c op hw hi hwo.1, step_build b c op (good_of_inv b h c hi)]
    exact ih (h.next op) _ (inv_apply b h c op hi) hwo.2

/-- on well-ordered histories the code as it is takes exactly the intended steps -/
theorem C11_legacy_eq_intended (ops : List Op) (hw : b.WF) (ho : WellOrdered ops) :
    run b true (initObj b) ops = run b false (initObj b) ops := by
  rw [initObj_eq]
  exact run_legacy_eq b ops hw _ _ (inv_init b hw) ho

/-- **C11 for the code as it is, partial**: for every model and every history in which
`set_administration` is not called after a regimen was set, a direct route is not selected after an
indirect one and an indirect route is not selected after names were assigned (any number, order and
validity of all other calls, any length).  The full statement `C11_net_config` with `legacy = true`
is false: see the three counterexamples below. -/
theorem C11_net_config_partial (ops : List Op) (hw : b.WF) (ho : WellOrdered ops) :
    observe b (run b true (initObj b) ops) = observe b (fresh b (net b (initCfg b) ops)) := by
  rw [C11_legacy_eq_intended b ops hw ho]; exact C11_net_config b ops

/-! ### witnesses: the one-compartment PK model of chi's library -/

def oneComp : Base :=
  { pkpd := true, comps := ["central", "global"], states := ["central.drug_amount"],
    consts := ["central.size", "global.elimination_rate"], inters := ["central.drug_concentration"],
    others := ["global.time"] }

def admD : Op := .setAdmin ⟨"central", "drug_amount", true⟩
def admI : Op := .setAdmin ⟨"central", "drug_amount", false⟩

def obsLegacy (ops : List Op) : Obs := observe oneComp (run oneComp true (initObj oneComp) ops)
def obsFresh (ops : List Op) : Obs := observe oneComp (fresh oneComp (net oneComp (initCfg oneComp) ops))
def renV : Op := .setParamNames [("central.size", "V")]

/-- direct after indirect administration: the name tables still list the depot (5 published parameters
for the 3-parameter model, stale `dose.*` names) and `simulate` raises; the fresh object has 3
parameters and simulates. -/
theorem C11_direct_after_indirect_counterexample :
    obsLegacy [admI, admD] ≠ obsFresh [admI, admD] ∧
      (obsLegacy [admI, admD]).nParams = 5 ∧ (obsFresh [admI, admD]).nParams = 3 ∧
      (obsLegacy [admI, admD]).sim = none ∧ (obsFresh [admI, admD]).sim.isSome = true ∧
      (obsLegacy [admI, admD]).params
        = some ["central.drug_amount", "dose.drug_amount", "central.size", "dose.absorption_rate",
                "global.elimination_rate"] ∧
      ¬ WellOrdered [admI, admD] := by
  decide

/-- re-administration after a regimen was set: the object still reports the regimen, its new solver has
no protocol; the fresh object applies it. -/
theorem C11_readmin_after_regimen_counterexample :
    obsLegacy [admD, .setRegimen 0, admD] ≠ obsFresh [admD, .setRegimen 0, admD] ∧
      (obsLegacy [admD, .setRegimen 0, admD]).regimen = some 0 ∧
      (obsLegacy [admD, .setRegimen 0, admD]).sim.map (·.protocol) = some none ∧
      (obsFresh [admD, .setRegimen 0, admD]).regimen = some 0 ∧
      (obsFresh [admD, .setRegimen 0, admD]).sim.map (·.protocol) = some (some 0) ∧
      ¬ WellOrdered [admD, .setRegimen 0, admD] := by
  decide

/-- renaming, then indirect administration: the user's names are reset to the defaults (a direct
administration keeps them). -/
theorem C11_rename_then_indirect_counterexample :
    obsLegacy [renV, admI] ≠ obsFresh [renV, admI] ∧
      (obsLegacy [renV, admI]).params
        = some ["central.drug_amount", "dose.drug_amount", "central.size", "dose.absorption_rate",
                "global.elimination_rate"] ∧
      (obsFresh [renV, admI]).params
        = some ["central.drug_amount", "dose.drug_amount", "V", "dose.absorption_rate",
                "global.elimination_rate"] ∧
      (obsLegacy [renV, admD]).params = some ["central.drug_amount", "V", "global.elimination_rate"] ∧
      ¬ WellOrdered [renV, admI] := by
  decide

def fullHistory : List Op :=
  [admI, .setParamNames [("dose.absorption_rate", "ka")],
   .setOutputs ["central.drug_amount", "dose.drug_amount"], .setRegimen 1,
   .enableSens true (some ["ka"]), .wrap, .fix [("central.size", some 0)], .copy]

/-- non-vacuity: a well-ordered history with every kind of call, and what it observes -/
example :
    WellOrdered fullHistory ∧ oneComp.WF ∧
      (obsLegacy fullHistory).params
        = some ["central.drug_amount", "dose.drug_amount", "ka", "global.elimination_rate"] ∧
      (obsLegacy fullHistory).sim.map (·.constAssign)
        = some [("central.size", Src.fixed 0), ("dose.absorption_rate", Src.arg 2),
                ("global.elimination_rate", Src.arg 3)] ∧
      obsLegacy fullHistory = obsFresh fullHistory := by
  decide

def fixAll : Op :=
  .fix [("central.drug_amount", some 0), ("central.size", some 1), ("global.elimination_rate", some 2)]
def emptySensHistory : List Op :=
  [.wrap, fixAll, .enableSens true none, .setOutputs ["central.drug_concentration"]]

/-- repaired by 4fca413 (found by this check in f18d571): `set_outputs` through the wrapper used to leave
the flag "sensitivities enabled with every parameter fixed" set, so `has_sensitivities()` stayed `True`
although setting outputs resets the sensitivity setting (it does so for every partially fixed model and
for the fresh object).  The code as it is now agrees with the fresh object. -/
theorem C11_outputs_after_empty_sens_counterexample_before_4fca413 :
    (observe oneComp (runKeepFlag oneComp (initObj oneComp) emptySensHistory)).hasSens = true ∧
      (obsFresh emptySensHistory).hasSens = false ∧
      obsLegacy emptySensHistory = obsFresh emptySensHistory ∧ WellOrdered emptySensHistory := by
  decide

/-! ## the regimen the model reports is the one its simulations apply -/

theorem simulateM_protocol (s : MState) (args : List Src) (r : SimRecord)
    (h : simulateM b s args = some r) : r.protocol = s.sim.protocol := by
  unfold simulateM at h
  simp only [] at h
  repeat' (first | split at h | cases h)
  rfl

theorem simulateO_protocol (o : Obj) (r : SimRecord) (h : simulateO b o = some r) :
    r.protocol = o.m.sim.protocol := by
  unfold simulateO at h
  split at h
  · cases h
  · exact simulateM_protocol b _ _ r h

/-- **every history (intended transitions)**: whenever `simulate` runs, the protocol attached to the
solver is the regimen `dosing_regimen()` reports. -/
theorem C11_reported_regimen_applied (ops : List Op) (r : SimRecord)
    (h : (observe b (run b false (initObj b) ops)).sim = some r) :
    r.protocol = (observe b (run b false (initObj b) ops)).regimen := by
  rw [initObj_eq, run_build b ops _ (good_init b)] at h ⊢
  exact simulateO_protocol b _ r h

/-- the code as it is: on well-ordered histories (the counterexample above is the excluded class) -/
theorem C11_reported_regimen_applied_partial (ops : List Op) (hw : b.WF) (ho : WellOrdered ops)
    (r : SimRecord) (h : (observe b (run b true (initObj b) ops)).sim = some r) :
    r.protocol = (observe b (run b true (initObj b) ops)).regimen := by
  rw [C11_legacy_eq_intended b ops hw ho] at h ⊢
  exact C11_reported_regimen_applied b ops r h

/-! ## copies -/

theorem simulateM_sens_reset (c : Config) (args : List Src) :
    simulateM b (buildM b { c with sens := none }) args
      = (simulateM b (buildM b c) args).map (fun r => { r with sens := none }) := by
  unfold simulateM
  simp only [buildM]
  have hflag : ∀ o : Option (List String),
      (o.isSome ≠ (o.map fun sel => (c.outputs, sel)).isSome) = False := by
    intro o; cases o <;> simp
  simp only [hflag, if_false]
  cases h1 : mapMOpt (fun i => (List.take (tablesOf b (variantOf c.admin)).nStates args)[i]?)
      (tablesOf b (variantOf c.admin)).origOrder with
  | none => rfl
  | some perm =>
    simp only []
    cases h2 : mapMOpt (fun (ci : String × Nat) => (List.drop (tablesOf b (variantOf c.admin)).nStates args)[ci.2]?.map
        (fun x => (ci.1, x))) (tablesOf b (variantOf c.admin)).constNames.zipIdx with
    | none => simp only []; split_ifs <;> rfl
    | some cs =>
      simp only []
      split_ifs <;> first | rfl | contradiction

/-- the configuration of a copy: the original's, with the sensitivity setting reset -/
def copyCfg (c : Config) : Config :=
  { c with sens := none, red := c.red.map (fun r => { r with emptySens := false }) }

theorem copyCfg_eq (c : Config) : (applyCfg b c .copy).1 = copyCfg c := by
  unfold applyCfg copyCfg; cases hr : c.red <;> simp [hr]

theorem simulateO_sens_reset (c : Config) :
    simulateO b (build b (copyCfg c))
      = (simulateO b (build b c)).map (fun r => { r with sens := none }) := by
  have h1 : fullArgs (build b (copyCfg c)).r (nParametersO (build b (copyCfg c)))
      = fullArgs (build b c).r (nParametersO (build b c)) := by
    unfold build copyCfg nParametersO fullArgs
    cases c.red <;> rfl
  unfold simulateO
  rw [h1]
  cases fullArgs (build b c).r (nParametersO (build b c)) with
  | none => rfl
  | some args => exact simulateM_sens_reset b c args

/-- **a copy behaves like its original at the moment of copying**: it is the object with the same
configuration and the sensitivity setting reset (the reset is documented by `copy`); names, counts,
outputs and regimen are the original's, a `simulate` makes exactly the original's solver calls apart
from the sensitivity request, and if the original has no sensitivities enabled the copy is
observationally identical. -/
theorem C11_copy_same (c : Config) (h : Good b c) :
    let o := build b c
    let cp := (step b false o .copy).1
    cp = build b (copyCfg c) ∧
    (observe b cp).params = (observe b o).params ∧ (observe b cp).nParams = (observe b o).nParams ∧
    (observe b cp).outputs = (observe b o).outputs ∧ (observe b cp).regimen = (observe b o).regimen ∧
    (observe b cp).hasSens = false ∧
    (observe b cp).sim = (observe b o).sim.map (fun r => { r with sens := none }) ∧
    ((observe b o).hasSens = false → observe b cp = observe b o) := by
  have hstep : (step b false (build b c) .copy).1 = build b (copyCfg c) := by
    rw [step_build b c .copy h, copyCfg_eq]
  simp only [hstep]
  refine ⟨trivial, ?_, ?_, rfl, rfl, ?_, simulateO_sens_reset b c, ?_⟩
  · unfold observe parametersO build copyCfg; cases c.red <;> rfl
  · unfold observe nParametersO build copyCfg; cases c.red <;> rfl
  · unfold observe hasSensO build copyCfg; cases c.red <;> rfl
  · intro hs
    have hc : copyCfg c = c := by
      obtain ⟨admin, regimen, outputs, pmap, omap, sens, red⟩ := c
      unfold observe hasSensO build at hs
      cases red with
      | none =>
        simp only [Option.map_none, buildM] at hs
        cases sens with
        | none => rfl
        | some x => simp at hs
      | some r =>
        obtain ⟨mask, values, e⟩ := r
        simp only [Option.map_some, hasSensR, buildM, buildR, Bool.or_eq_false_iff] at hs
        obtain ⟨h1, h2⟩ := hs
        subst h1
        cases sens with
        | none => rfl
        | some x => simp at h2
    rw [hc]

/-- the same for the code as it is, at any point of a well-ordered history -/
theorem C11_copy_same_partial (ops : List Op) (hw : b.WF) (ho : WellOrdered ops) :
    (step b true (run b true (initObj b) ops) .copy).1
      = build b (copyCfg (net b (initCfg b) ops)) := by
  have hg : Good b (net b (initCfg b) ops) := by
    have : ∀ (ops : List Op) (c : Config), Good b c → Good b (net b c ops) := by
      intro ops
      induction ops with
      | nil => intro c h; exact h
      | cons op ops ih => intro c h; exact ih _ (good_apply b c op h)
    exact this ops _ (good_init b)
  rw [C11_legacy_eq_intended b ops hw ho, initObj_eq, run_build b ops _ (good_init b)]
  have : step b true (build b (net b (initCfg b) ops)) .copy
      = step b false (build b (net b (initCfg b) ops)) .copy := by
    cases hr : (net b (initCfg b) ops).red <;> simp [build, hr, step, stepPlain]
  rw [this]
  exact (C11_copy_same b _ hg).1

/-! ### independence

The model has value semantics: an object is a value, `copy` yields a new value, and a call addressed to
one object maps that object's value to a new one.  So independence holds in the model *by
construction*; what the theorem records is the exact claim the correspondence check tests on chi
(where objects are mutable and aliasing is possible): in a world of an original and its copy, the
final state of each depends only on the calls addressed to it. -/

inductive Who | orig | copy
  deriving DecidableEq, Repr

def stepW (legacy : Bool) (w : Obj × Obj) (x : Who × Op) : Obj × Obj :=
  match x.1 with
  | .orig => ((step b legacy w.1 x.2).1, w.2)
  | .copy => (w.1, (step b legacy w.2 x.2).1)

def runW (legacy : Bool) : Obj × Obj → List (Who × Op) → Obj × Obj
  | w, [] => w
  | w, x :: xs => runW legacy (stepW b legacy w x) xs

def callsTo (who : Who) (xs : List (Who × Op)) : List Op :=
  (xs.filter (fun x => x.1 = who)).map Prod.snd

/-- neither object is affected by later calls on the other (both variants, every interleaving) -/
theorem C11_copy_independent (legacy : Bool) (o : Obj) (xs : List (Who × Op)) :
    let cp := (step b legacy o .copy).1
    runW b legacy (o, cp) xs = (run b legacy o (callsTo .orig xs), run b legacy cp (callsTo .copy xs)) := by
  intro cp
  generalize cp = o2
  induction xs generalizing o o2 with
  | nil => rfl
  | cons x xs ih =>
    obtain ⟨who, op⟩ := x
    cases who <;> simp [runW, stepW, callsTo, run, ih]

/-! ## the sensitivity flag agrees with the solver object (the repaired `copy` defect) -/

def FlagOK (o : Obj) : Prop := o.m.hasSens = o.m.sim.sens.isSome

theorem flag_enableSensM (s : MState) (on names) (h : s.hasSens = s.sim.sens.isSome) :
    (enableSensM s on names).1.hasSens = (enableSensM s on names).1.sim.sens.isSome := by
  unfold enableSensM
  cases on <;> simp only [] <;> split_ifs <;> simp_all

theorem flag_setOutputsM (s : MState) (outs) (h : s.hasSens = s.sim.sens.isSome) :
    (setOutputsM b s outs).1.hasSens = (setOutputsM b s outs).1.sim.sens.isSome := by
  unfold setOutputsM
  simp only []
  split
  · exact h
  · exact flag_enableSensM _ _ _ h

theorem flag_setAdmin (legacy : Bool) (s : MState) (a) (h : s.hasSens = s.sim.sens.isSome) :
    (if legacy then setAdminLegacy b s a else setAdminIntended b s a).1.hasSens
      = (if legacy then setAdminLegacy b s a else setAdminIntended b s a).1.sim.sens.isSome := by
  cases legacy
  · simp only [Bool.false_eq_true, if_false]
    unfold setAdminIntended
    split
    · exact h
    · split
      · exact h
      · rfl
  · simp only [if_true]
    unfold setAdminLegacy
    split
    · exact h
    · split_ifs
      · rfl
      · have := flag_setOutputsM b (refreshTables b { s with model := .depotOnly a } (.depotOnly a)) s.outputNames h
        simp only []
        generalize setOutputsM b (refreshTables b { s with model := .depotOnly a } (.depotOnly a)) s.outputNames = p at this
        obtain ⟨s2, e⟩ := p
        cases e with
        | some e => exact this
        | none => rfl

theorem flag_step (legacy : Bool) (o : Obj) (op : Op) (h : FlagOK o) : FlagOK (step b legacy o op).1 := by
  unfold FlagOK at *
  unfold step
  cases hr : o.r with
  | none =>
    cases op with
    | wrap => simp only []; split <;> exact h
    | setAdmin a =>
      simp only [stepPlain]
      split_ifs
      · exact h
      · exact flag_setAdmin b true o.m a h
      · exact flag_setAdmin b false o.m a h
    | setRegimen r =>
      simp only [stepPlain, setRegimenM]
      split_ifs
      · exact h
      · split <;> exact h
    | setOutputs outs => exact flag_setOutputsM b o.m outs h
    | setParamNames names => exact h
    | setOutputNames names => exact h
    | enableSens on names => exact flag_enableSensM o.m on names h
    | fix d => exact h
    | copy => rfl
  | some r =>
    cases op with
    | wrap => exact h
    | setAdmin a => exact h
    | setRegimen x =>
      simp only [setRegimenM]
      split_ifs
      · exact h
      · split <;> exact h
    | setOutputs outs => exact flag_setOutputsM b o.m outs h
    | setParamNames names =>
      simp only []
      split
      · exact h
      · split <;> exact h
    | setOutputNames names => exact h
    | enableSens on names =>
      cases names with
      | some ns => exact h
      | none =>
        simp only [enableSensR]
        split_ifs <;> exact flag_enableSensM o.m _ _ h
    | fix d =>
      simp only [fixR]
      split_ifs
      · simp only [enableSensR, Bool.not_true, Bool.false_eq_true, if_false]
        split_ifs <;> exact flag_enableSensM o.m _ _ h
      · exact h
    | copy => rfl

/-- **all histories, both variants**: the flag `_has_sensitivities` equals "the solver was built with
sensitivities", so `simulate` never fails to unpack the solver's result (before the fix `copy` broke
this: flag copied, solver rebuilt without). -/
theorem C11_flag_matches_solver (legacy : Bool) (ops : List Op) :
    FlagOK (run b legacy (initObj b) ops) := by
  have : ∀ (ops : List Op) (o : Obj), FlagOK o → FlagOK (run b legacy o ops) := by
    intro ops
    induction ops with
    | nil => intro o h; exact h
    | cons op ops ih => intro o h; exact ih _ (flag_step b legacy o op h)
  exact this ops _ rfl

end ChiModel.MechConfig
