import ChiProofs.Lemmas.MechConfigCount

/-!
# C11 — mechanistic model behaviour depends only on its final configuration; copies are independent

Objects (`ChiModel/MechConfig.lean`): `step` is the state machine over the hidden state of `SBMLModel /
PKPDModel / ReducedMechanisticModel` — the code as it is (/repo at bcb3fc2 and later); `applyCfg / net` the
machine over the visible configuration with only the documented resets; `fresh c = build c` the object that
has exactly the configuration `c`; `observe` = `parameters(), n_parameters(), outputs(),
dosing_regimen(), has_sensitivities()` and the solver call record of a `simulate`.  `stepLegacy` is the
machine before bcb3fc2 (`set_administration` refreshed the name tables on the indirect route only and left
the new solver without protocol).

* the code as it is, **every history**: `C11_net_config` (state: `C11_net_config_state`),
  `C11_reported_regimen_applied`, `C11_simulate_never_raises`, `C11_copy_same`, `C11_copy_independent`,
  `C11_flag_matches_solver`, `C11_admin_rejects_missing_outputs`;
* the sensitivity setting, **every state and every history**: `C11_only_enable_switches_on`, `C11_stays_off`,
  `C11_disable_switches_off`, `C11_enable_switches_on`, `C11_fix_keeps_sens_setting`,
  `C11_disable_then_stays_off` (also through the wrapper whose parameters are all fixed);
* the net configuration is what a fresh object reaches by the canonical calls: `C11_canonical_*`;
* before bcb3fc2: one `…_counterexample` per defect class, and `C11_legacy_net_config_partial` (the old
  code already had the property on `WellOrdered` histories);
* before 4fca413: `C11_outputs_after_empty_sens_counterexample_before_4fca413`.
-/
set_option linter.unusedSectionVars false
set_option linter.unusedSimpArgs false
namespace ChiModel.MechConfig
variable (b : Base)

/-! ## refinement: the object machine *is* the configuration machine -/

/-- One configuration call on the object that has configuration `c` gives the
object that has configuration `applyCfg c op`, and raises exactly when the configuration machine
rejects the call.  All redundant hidden state — `_model`, the name tables, `_n_outputs`, the solver with
its protocol and sensitivities, the flag, the wrapper's cached count and names — is a function of the
visible configuration before and after. -/
theorem C11_refines (c : Config) (op : Op) (h : Good b c) :
    step b (build b c) op = (build b (applyCfg b c op).1, (applyCfg b c op).2) :=
  step_build b c op h

theorem run_build (ops : List Op) : ∀ (c : Config), Good b c →
    run b (build b c) ops = build b (net b c ops) := by
  induction ops with
  | nil => intro c _; rfl
  | cons op ops ih =>
    intro c h
    simp only [run, net]
    rw [step_build b c op h]
    exact ih _ (good_apply b c op h)

theorem length_insertName (x : String) (l : List String) : (insertName x l).length = l.length + 1 := by
  induction l with
  | nil => rfl
  | cons y l ih => unfold insertName; split_ifs <;> simp [ih]

theorem length_sortNames (l : List String) : (sortNames l).length = l.length := by
  induction l with
  | nil => rfl
  | cons x l ih => unfold sortNames; rw [length_insertName, ih]; rfl

theorem initObj_eq : initObj b = build b (initCfg b) := by
  unfold initObj build init initCfg buildM
  simp [tablesOf, variantOf, length_sortNames]

theorem C11_net_config_state (ops : List Op) :
    run b (initObj b) ops = fresh b (net b (initCfg b) ops) := by
  rw [initObj_eq, run_build b ops _ (good_init b)]; rfl

/-- **C11, the code as it is, every history**: after any finite sequence of configuration calls —
valid or raising, in any order, including wrapping, fixing and copying — the object *is* the freshly
configured object of the net configuration; in particular everything observable (names, counts,
outputs, reported regimen, and which model, protocol, sensitivities, state / constant assignment and
logged variables a `simulate` hands to the solver) is that of the fresh object. -/
theorem C11_net_config (ops : List Op) :
    observe b (run b (initObj b) ops) = observe b (fresh b (net b (initCfg b) ops)) := by
  rw [initObj_eq, run_build b ops _ (good_init b)]; rfl

/-- `set_administration` refuses a route on which a selected output does not exist (the depot's
variables exist on the indirect route only): `ValueError`, and nothing at all is changed -/
theorem C11_admin_rejects_missing_outputs (s : MState) (a : Admin) (hp : b.pkpd = true)
    (hv : validAdmin b a = none) (x : String) (hx : x ∈ s.outputNames)
    (hbad : outputCheck b (.dosed a) x ≠ none) :
    step b ⟨s, none⟩ (.setAdmin a) = (⟨s, none⟩, some .valueError) := by
  have hf : firstErr (outputCheck b (.dosed a)) s.outputNames ≠ none := by
    intro h
    exact hbad ((firstErr_none _ _).mp h x hx)
  simp only [step, stepPlain, hp, Bool.not_true, Bool.false_eq_true, if_false, setAdminM, hv]
  cases hfe : firstErr (outputCheck b (.dosed a)) s.outputNames with
  | none => exact absurd hfe hf
  | some e => rfl

/-! ## "a freshly created model to which only the net configuration is applied" -/

/-- the canonical calls (route, parameter names, outputs, output names, regimen, sensitivities, wrap, fix,
sensitivities through the wrapper) are accepted by the configuration machine and reach exactly `c` — up to
the unobservable residue `_n_sensitivity_parameters`, which is that of a new object (`normCount`) — for
every configuration satisfying `Canon` (a decidable condition on `c`: valid route, dictionaries keyed by
the parameters / outputs, non-default displayed names distinct and not default names, outputs exist,
regimen presupposes a route, selections expressible by displayed names). -/
theorem C11_canonical_reaches (c : Config) (h : Canon b c) :
    net b (initCfg b) (canonical b c) = normCount c :=
  canonical_reaches b c h

/-- … so the new object after those calls is `fresh c` with a new object's residue, and behaves as `fresh c` -/
theorem C11_fresh_by_canonical_calls (c : Config) (h : Canon b c) (h4 : Inv4 c) :
    run b (initObj b) (canonical b c) = fresh b (normCount c) ∧
    observe b (run b (initObj b) (canonical b c)) = observe b (fresh b c) := by
  have h1 : run b (initObj b) (canonical b c) = fresh b (normCount c) := by
    rw [C11_net_config_state, C11_canonical_reaches b c h]
  exact ⟨h1, by rw [h1]; exact observe_normCount b c h4⟩

/-- the structural half of `Canon` holds after **every** history (valid route, parameter dictionary keyed by
the parameters, outputs exist, output dictionary keyed by the outputs, a regimen presupposes a route); what
`Canon` assumes beyond this concerns displayed names only (distinct, and not default names) and the
expressibility of the sensitivity selection / fixed values by such names -/
theorem C11_canon_structural (ops : List Op) (hw : b.WF) :
    Canon.adminOK b (net b (initCfg b) ops) ∧
    (net b (initCfg b) ops).pmap.map Prod.fst = (cfgTables b (net b (initCfg b) ops)).paramNames ∧
    firstErr (outputCheck b (variantOf (net b (initCfg b) ops).admin)) (net b (initCfg b) ops).outputs = none ∧
    (net b (initCfg b) ops).omap.map Prod.fst = dedup (net b (initCfg b) ops).outputs ∧
    ((net b (initCfg b) ops).regimen.isSome = true → (net b (initCfg b) ops).admin.isSome = true) := by
  have h3 := inv3_net b ops _ (inv3_init b hw)
  have h1 := inv_net b ops _ (inv_init_weak b)
  exact ⟨h3.adm, h1.keys, h1.outs, h3.okeys, h3.reg⟩

/-- **C11 as the property text has it**: after any history, everything observable of the object —
names, counts, outputs, reported regimen, sensitivity flag, the solver calls of a `simulate`, the shapes
returned for an empty time grid — is that of a freshly created object to which the canonical calls of the
net configuration are applied, whenever the net configuration satisfies `Canon` (evaluated by the harness
on every generated history; it can fail only through displayed names that collide with default names or
with each other across several renamings). -/
theorem C11_net_config_by_calls (ops : List Op) (h : Canon b (net b (initCfg b) ops)) :
    observe b (run b (initObj b) ops)
      = observe b (run b (initObj b) (canonical b (net b (initCfg b) ops))) := by
  rw [(C11_fresh_by_canonical_calls b _ h (inv4_net b ops _ (inv4_init b))).2, C11_net_config_state]

/-! ## `_n_sensitivity_parameters` and the empty time grid (hidden state since 3790485) -/

/-- **every history**: while sensitivities are enabled, `_n_sensitivity_parameters` is the number of
parameters the solver object was built to differentiate with respect to — whatever was selected before -/
theorem C11_sens_count_matches_solver (ops : List Op) :
    (run b (initObj b) ops).m.hasSens = true →
      (run b (initObj b) ops).m.sim.sens.map (fun x => x.2.length) = some (run b (initObj b) ops).m.nSens := by
  rw [C11_net_config_state]
  intro hs
  have h4 := inv4_net b ops _ (inv4_init b)
  cases hsel : (net b (initCfg b) ops).sens with
  | none => simp [fresh, build, buildM, hsel] at hs
  | some sel => simp [fresh, build, buildM, hsel, h4.count sel hsel]

/-- **every history**: `simulate` on an empty time grid never raises and returns one row per logged output
and — exactly when `has_sensitivities()` — one column per parameter of the sensitivity request a regular
`simulate` makes (zero columns for a wrapper whose parameters are all fixed) -/
theorem C11_empty_grid_shape (ops : List Op) :
    ∃ r, (observe b (run b (initObj b) ops)).sim = some r ∧
      (observe b (run b (initObj b) ops)).emptyGrid = some (r.log.length,
        if (observe b (run b (initObj b) ops)).hasSens then some ((r.sens.map (fun x => x.2.length)).getD 0)
        else none) := by
  rw [C11_net_config_state]
  exact emptyGrid_build b _ (inv4_net b ops _ (inv4_init b)) (redinv_net b ops _ (redinv_init b))
    (inv_net b ops _ (inv_init_weak b)).outs

/-! ## the code before bcb3fc2 -/

theorem run_legacy_eq (ops : List Op) (hw : b.WF) : ∀ (h : Hist) (c : Config), Inv b h c →
    wellOrderedFrom h ops = true → runLegacy b (build b c) ops = run b (build b c) ops := by
  induction ops with
  | nil => intro h c _ _; rfl
  | cons op ops ih =>
    intro h c hi hwo
    simp only [wellOrderedFrom, Bool.and_eq_true] at hwo
    simp only [run, runLegacy]
    rw [step_legacy_eq b h c op hw hi hwo.1, step_build b c op (good_of_inv b h c hi)]
    exact ih (h.next op) _ (inv_apply b h c op hi) hwo.2

/-- on well-ordered histories the old code took exactly the steps of the repaired one -/
theorem C11_legacy_eq_now (ops : List Op) (hw : b.WF) (ho : WellOrdered ops) :
    runLegacy b (initObj b) ops = run b (initObj b) ops := by
  rw [initObj_eq]
  exact run_legacy_eq b ops hw _ _ (inv_init b hw) ho

/-- the code before bcb3fc2 had the property for every model and every history in which
`set_administration` is not called after a regimen was set, a direct route is not selected after an
indirect one and an indirect route is not selected after names were assigned (any number, order and
validity of all other calls, any length); outside that class it did not: the three counterexamples. -/
theorem C11_legacy_net_config_partial (ops : List Op) (hw : b.WF) (ho : WellOrdered ops) :
    observe b (runLegacy b (initObj b) ops) = observe b (fresh b (net b (initCfg b) ops)) := by
  rw [C11_legacy_eq_now b ops hw ho]; exact C11_net_config b ops

/-! ### witnesses: the one-compartment PK model of chi's library -/

def oneComp : Base :=
  { pkpd := true, comps := ["central", "global"], states := ["central.drug_amount"],
    consts := ["central.size", "global.elimination_rate"], inters := ["central.drug_concentration"],
    others := ["global.time"] }

def admD : Op := .setAdmin ⟨"central", "drug_amount", true⟩
def admI : Op := .setAdmin ⟨"central", "drug_amount", false⟩

def obsLegacy (ops : List Op) : Obs := observe oneComp (runLegacy oneComp (initObj oneComp) ops)
def obsNow (ops : List Op) : Obs := observe oneComp (run oneComp (initObj oneComp) ops)
def obsFresh (ops : List Op) : Obs := observe oneComp (fresh oneComp (net oneComp (initCfg oneComp) ops))
def renV : Op := .setParamNames [("central.size", "V")]

/-- direct after indirect administration: the name tables still list the depot (5 published parameters
for the 3-parameter model, stale `dose.*` names) and `simulate` raises; the fresh object has 3
parameters and simulates. -/
theorem C11_direct_after_indirect_counterexample :
    obsLegacy [admI, admD] ≠ obsFresh [admI, admD] ∧
      (obsLegacy [admI, admD]).nParams = 5 ∧ (obsFresh [admI, admD]).nParams = 3 ∧
      (obsLegacy [admI, admD]).sim = none ∧ (obsFresh [admI, admD]).sim.isSome = true ∧
      (obsLegacy [admI, admD]).params
        = some ["central.drug_amount", "dose.drug_amount", "central.size", "dose.absorption_rate",
                "global.elimination_rate"] ∧
      ¬ WellOrdered [admI, admD] := by
  decide

/-- re-administration after a regimen was set: the object still reports the regimen, its new solver has
no protocol; the fresh object applies it. -/
theorem C11_readmin_after_regimen_counterexample :
    obsLegacy [admD, .setRegimen 0, admD] ≠ obsFresh [admD, .setRegimen 0, admD] ∧
      (obsLegacy [admD, .setRegimen 0, admD]).regimen = some 0 ∧
      (obsLegacy [admD, .setRegimen 0, admD]).sim.map (·.protocol) = some none ∧
      (obsFresh [admD, .setRegimen 0, admD]).regimen = some 0 ∧
      (obsFresh [admD, .setRegimen 0, admD]).sim.map (·.protocol) = some (some 0) ∧
      ¬ WellOrdered [admD, .setRegimen 0, admD] := by
  decide

/-- renaming, then indirect administration: the user's names are reset to the defaults (a direct
administration keeps them). -/
theorem C11_rename_then_indirect_counterexample :
    obsLegacy [renV, admI] ≠ obsFresh [renV, admI] ∧
      (obsLegacy [renV, admI]).params
        = some ["central.drug_amount", "dose.drug_amount", "central.size", "dose.absorption_rate",
                "global.elimination_rate"] ∧
      (obsFresh [renV, admI]).params
        = some ["central.drug_amount", "dose.drug_amount", "V", "dose.absorption_rate",
                "global.elimination_rate"] ∧
      (obsLegacy [renV, admD]).params = some ["central.drug_amount", "V", "global.elimination_rate"] ∧
      ¬ WellOrdered [renV, admI] := by
  decide

def fullHistory : List Op :=
  [admI, .setParamNames [("dose.absorption_rate", "ka")],
   .setOutputs ["central.drug_amount", "dose.drug_amount"], .setRegimen 1,
   .enableSens true (some ["ka"]), .wrap, .fix [("central.size", some 0)], .copy]

/-- non-vacuity: a well-ordered history with every kind of call, and what it observes -/
example :
    WellOrdered fullHistory ∧ oneComp.WF ∧
      (obsLegacy fullHistory).params
        = some ["central.drug_amount", "dose.drug_amount", "ka", "global.elimination_rate"] ∧
      (obsLegacy fullHistory).sim.map (·.constAssign)
        = some [("central.size", Src.fixed 0), ("dose.absorption_rate", Src.arg 2),
                ("global.elimination_rate", Src.arg 3)] ∧
      obsLegacy fullHistory = obsFresh fullHistory := by
  decide

def fixAll : Op :=
  .fix [("central.drug_amount", some 0), ("central.size", some 1), ("global.elimination_rate", some 2)]
def emptySensHistory : List Op :=
  [.wrap, fixAll, .enableSens true none, .setOutputs ["central.drug_concentration"]]

/-- repaired by 4fca413 (found by this check in f18d571): `set_outputs` through the wrapper used to leave
the flag "sensitivities enabled with every parameter fixed" set, so `has_sensitivities()` stayed `True`
although setting outputs resets the sensitivity setting (it does so for every partially fixed model and
for the fresh object).  The code as it is now agrees with the fresh object. -/
theorem C11_outputs_after_empty_sens_counterexample_before_4fca413 :
    (observe oneComp (runKeepFlag oneComp (initObj oneComp) emptySensHistory)).hasSens = true ∧
      (obsFresh emptySensHistory).hasSens = false ∧
      obsLegacy emptySensHistory = obsFresh emptySensHistory ∧ WellOrdered emptySensHistory := by
  decide

/-! ## the regimen the model reports is the one its simulations apply -/

theorem simulateM_protocol (s : MState) (args : List Src) (r : SimRecord)
    (h : simulateM b s args = some r) : r.protocol = s.sim.protocol := by
  unfold simulateM at h
  simp only [] at h
  repeat' (first | split at h | cases h)
  rfl

theorem simulateO_protocol (o : Obj) (r : SimRecord) (h : simulateO b o = some r) :
    r.protocol = o.m.sim.protocol := by
  unfold simulateO at h
  split at h
  · cases h
  · exact simulateM_protocol b _ _ r h

/-- **the code as it is, every history**: whenever `simulate` runs, the protocol attached to the
solver is the regimen `dosing_regimen()` reports. -/
theorem C11_reported_regimen_applied (ops : List Op) (r : SimRecord)
    (h : (observe b (run b (initObj b) ops)).sim = some r) :
    r.protocol = (observe b (run b (initObj b) ops)).regimen := by
  rw [initObj_eq, run_build b ops _ (good_init b)] at h ⊢
  exact simulateO_protocol b _ r h

/-- **the code as it is, every model, every history**: `simulate` with `n_parameters()` values never
raises — the name tables, the model the solver integrates, the selected outputs, the sensitivity flag and
the wrapper's mask and value buffer always fit together.  (Before bcb3fc2 it raised after
direct-after-indirect administration: `C11_direct_after_indirect_counterexample`.) -/
theorem C11_simulate_never_raises (ops : List Op) :
    (observe b (run b (initObj b) ops)).sim.isSome = true := by
  rw [C11_net_config_state]
  exact simulateO_isSome b _ (redinv_net b ops _ (redinv_init b))
    (inv_net b ops _ (inv_init_weak b)).outs

/-! ## copies -/

theorem simulateM_sens_reset (c : Config) (args : List Src) :
    simulateM b (buildM b { c with sens := none }) args
      = (simulateM b (buildM b c) args).map (fun r => { r with sens := none }) := by
  unfold simulateM
  simp only [buildM]
  have hflag : ∀ o : Option (List String),
      (o.isSome ≠ (o.map fun sel => (c.outputs, sel)).isSome) = False := by
    intro o; cases o <;> simp
  simp only [hflag, if_false]
  cases h1 : mapMOpt (fun i => (List.take (tablesOf b (variantOf c.admin)).nStates args)[i]?)
      (tablesOf b (variantOf c.admin)).origOrder with
  | none => rfl
  | some perm =>
    simp only []
    cases h2 : mapMOpt (fun (ci : String × Nat) => (List.drop (tablesOf b (variantOf c.admin)).nStates args)[ci.2]?.map
        (fun x => (ci.1, x))) (tablesOf b (variantOf c.admin)).constNames.zipIdx with
    | none => simp only []; split_ifs <;> rfl
    | some cs =>
      simp only []
      split_ifs <;> first | rfl | contradiction

/-- the configuration of a copy: the original's, with the sensitivity setting reset -/
def copyCfg (c : Config) : Config :=
  { c with sens := none, red := c.red.map (fun r => { r with emptySens := false }) }

theorem copyCfg_eq (c : Config) : (applyCfg b c .copy).1 = copyCfg c := by
  unfold applyCfg copyCfg; cases hr : c.red <;> simp [hr]

theorem simulateO_sens_reset (c : Config) :
    simulateO b (build b (copyCfg c))
      = (simulateO b (build b c)).map (fun r => { r with sens := none }) := by
  have h1 : fullArgs (build b (copyCfg c)).r (nParametersO (build b (copyCfg c)))
      = fullArgs (build b c).r (nParametersO (build b c)) := by
    unfold build copyCfg nParametersO fullArgs
    cases c.red <;> rfl
  unfold simulateO
  rw [h1]
  cases fullArgs (build b c).r (nParametersO (build b c)) with
  | none => rfl
  | some args => exact simulateM_sens_reset b c args

/-- **a copy behaves like its original at the moment of copying**: it is the object with the same
configuration and the sensitivity setting reset (the reset is documented by `copy`); names, counts,
outputs and regimen are the original's, a `simulate` makes exactly the original's solver calls apart
from the sensitivity request, and if the original has no sensitivities enabled the copy is
observationally identical. -/
theorem C11_copy_same (c : Config) (h : Good b c) :
    let o := build b c
    let cp := (step b o .copy).1
    cp = build b (copyCfg c) ∧
    (observe b cp).params = (observe b o).params ∧ (observe b cp).nParams = (observe b o).nParams ∧
    (observe b cp).outputs = (observe b o).outputs ∧ (observe b cp).regimen = (observe b o).regimen ∧
    (observe b cp).hasSens = false ∧
    (observe b cp).sim = (observe b o).sim.map (fun r => { r with sens := none }) ∧
    ((observe b o).hasSens = false → observe b cp = observe b o) := by
  have hstep : (step b (build b c) .copy).1 = build b (copyCfg c) := by
    rw [step_build b c .copy h, copyCfg_eq]
  simp only [hstep]
  refine ⟨trivial, ?_, ?_, rfl, rfl, ?_, simulateO_sens_reset b c, ?_⟩
  · unfold observe parametersO build copyCfg; cases c.red <;> rfl
  · unfold observe nParametersO build copyCfg; cases c.red <;> rfl
  · unfold observe hasSensO build copyCfg; cases c.red <;> rfl
  · intro hs
    have hc : copyCfg c = c := by
      obtain ⟨admin, regimen, outputs, pmap, omap, sens, red⟩ := c
      unfold observe hasSensO build at hs
      cases red with
      | none =>
        simp only [Option.map_none, buildM] at hs
        cases sens with
        | none => rfl
        | some x => simp at hs
      | some r =>
        obtain ⟨mask, values, e⟩ := r
        simp only [Option.map_some, hasSensR, buildM, buildR, Bool.or_eq_false_iff] at hs
        obtain ⟨h1, h2⟩ := hs
        subst h1
        cases sens with
        | none => rfl
        | some x => simp at h2
    rw [hc]

theorem good_net (ops : List Op) : ∀ (c : Config), Good b c → Good b (net b c ops) := by
  induction ops with
  | nil => intro c h; exact h
  | cons op ops ih => intro c h; exact ih _ (good_apply b c op h)

/-- at any point of **any history** of the code as it is: the copy is the fresh object of the net
configuration with the sensitivity setting reset, and it makes exactly the original's solver calls apart
from the sensitivity request -/
theorem C11_copy_same_history (ops : List Op) :
    let o := run b (initObj b) ops
    let cp := (step b o .copy).1
    cp = fresh b (copyCfg (net b (initCfg b) ops)) ∧
    (observe b cp).params = (observe b o).params ∧ (observe b cp).nParams = (observe b o).nParams ∧
    (observe b cp).outputs = (observe b o).outputs ∧ (observe b cp).regimen = (observe b o).regimen ∧
    (observe b cp).hasSens = false ∧
    (observe b cp).sim = (observe b o).sim.map (fun r => { r with sens := none }) ∧
    ((observe b o).hasSens = false → observe b cp = observe b o) := by
  simp only [C11_net_config_state]
  exact C11_copy_same b _ (good_net b ops _ (good_init b))

/-! ### independence

The model has value semantics: an object is a value, `copy` yields a new value, and a call addressed to
one object maps that object's value to a new one.  So independence holds in the model *by
construction*; what the theorem records is the exact claim the correspondence check tests on chi
(where objects are mutable and aliasing is possible): in a world of an original and its copy, the
final state of each depends only on the calls addressed to it. -/

inductive Who | orig | copy
  deriving DecidableEq, Repr

def stepW (w : Obj × Obj) (x : Who × Op) : Obj × Obj :=
  match x.1 with
  | .orig => ((step b w.1 x.2).1, w.2)
  | .copy => (w.1, (step b w.2 x.2).1)

def runW : Obj × Obj → List (Who × Op) → Obj × Obj
  | w, [] => w
  | w, x :: xs => runW (stepW b w x) xs

def callsTo (who : Who) (xs : List (Who × Op)) : List Op :=
  (xs.filter (fun x => x.1 = who)).map Prod.snd

/-- neither object is affected by later calls on the other (every interleaving) -/
theorem C11_copy_independent (o : Obj) (xs : List (Who × Op)) :
    let cp := (step b o .copy).1
    runW b (o, cp) xs = (run b o (callsTo .orig xs), run b cp (callsTo .copy xs)) := by
  intro cp
  generalize cp = o2
  induction xs generalizing o o2 with
  | nil => rfl
  | cons x xs ih =>
    obtain ⟨who, op⟩ := x
    cases who <;> simp [runW, stepW, callsTo, run, ih]

/-! ## the sensitivity flag agrees with the solver object (the repaired `copy` defect) -/

def FlagOK (o : Obj) : Prop := o.m.hasSens = o.m.sim.sens.isSome

theorem flag_enableSensM (s : MState) (on names) (h : s.hasSens = s.sim.sens.isSome) :
    (enableSensM s on names).1.hasSens = (enableSensM s on names).1.sim.sens.isSome := by
  unfold enableSensM
  cases on <;> simp only [] <;> split_ifs <;> simp_all

theorem flag_setOutputsM (s : MState) (outs) (h : s.hasSens = s.sim.sens.isSome) :
    (setOutputsM b s outs).1.hasSens = (setOutputsM b s outs).1.sim.sens.isSome := by
  unfold setOutputsM
  simp only []
  split
  · exact h
  · exact flag_enableSensM _ _ _ h

theorem flag_setAdmin (legacy : Bool) (s : MState) (a) (h : s.hasSens = s.sim.sens.isSome) :
    (if legacy then setAdminLegacy b s a else setAdminM b s a).1.hasSens
      = (if legacy then setAdminLegacy b s a else setAdminM b s a).1.sim.sens.isSome := by
  cases legacy
  · simp only [Bool.false_eq_true, if_false]
    unfold setAdminM
    split
    · exact h
    · split
      · exact h
      · rfl
  · simp only [if_true]
    unfold setAdminLegacy
    split
    · exact h
    · split_ifs
      · rfl
      · have := flag_setOutputsM b (refreshTables b { s with model := .depotOnly a } (.depotOnly a)) s.outputNames h
        simp only []
        generalize setOutputsM b (refreshTables b { s with model := .depotOnly a } (.depotOnly a)) s.outputNames = p at this
        obtain ⟨s2, e⟩ := p
        cases e with
        | some e => exact this
        | none => rfl

theorem flag_step (o : Obj) (op : Op) (h : FlagOK o) : FlagOK (step b o op).1 := by
  unfold FlagOK at *
  unfold step
  cases hr : o.r with
  | none =>
    cases op with
    | wrap => simp only []; split <;> exact h
    | setAdmin a =>
      simp only [stepPlain]
      split_ifs
      · exact h
      · exact flag_setAdmin b false o.m a h
    | setRegimen r =>
      simp only [stepPlain, setRegimenM]
      split_ifs
      · exact h
      · split <;> exact h
    | setOutputs outs => exact flag_setOutputsM b o.m outs h
    | setParamNames names => exact h
    | setOutputNames names => exact h
    | enableSens on names => exact flag_enableSensM o.m on names h
    | fix d => exact h
    | copy => rfl
  | some r =>
    cases op with
    | wrap => exact h
    | setAdmin a => exact h
    | setRegimen x =>
      simp only [setRegimenM]
      split_ifs
      · exact h
      · split <;> exact h
    | setOutputs outs => exact flag_setOutputsM b o.m outs h
    | setParamNames names =>
      simp only []
      split
      · exact h
      · split <;> exact h
    | setOutputNames names => exact h
    | enableSens on names =>
      cases names with
      | some ns => exact h
      | none =>
        simp only [enableSensR]
        split_ifs <;> exact flag_enableSensM o.m _ _ h
    | fix d =>
      simp only [fixR]
      split_ifs
      · simp only [enableSensR, Bool.not_true, Bool.false_eq_true, if_false]
        split_ifs <;> exact flag_enableSensM o.m _ _ h
      · exact h
    | copy => rfl

theorem flag_stepLegacy (o : Obj) (op : Op) (h : FlagOK o) : FlagOK (stepLegacy b o op).1 := by
  cases op with
  | setAdmin a =>
    cases hr : o.r with
    | none =>
      simp only [stepLegacy, hr]
      split_ifs
      · exact h
      · exact flag_setAdmin b true o.m a h
    | some r =>
      have : stepLegacy b o (.setAdmin a) = step b o (.setAdmin a) := by simp [stepLegacy, hr]
      rw [this]; exact flag_step b o _ h
  | _ =>
    first
      | (have : ∀ op', (∀ a, op' ≠ Op.setAdmin a) → stepLegacy b o op' = step b o op' := by
           intro op' hne
           unfold stepLegacy
           cases o.r <;> cases op' <;> first | rfl | exact absurd rfl (hne _)
         rw [this _ (by intro a; simp)]; exact flag_step b o _ h)

/-- **all histories**: the flag `_has_sensitivities` equals "the solver was built with sensitivities", so
`simulate` never fails to unpack the solver's result (before 17bee13 `copy` broke this: flag copied,
solver rebuilt without). -/
theorem C11_flag_matches_solver (ops : List Op) : FlagOK (run b (initObj b) ops) := by
  have : ∀ (ops : List Op) (o : Obj), FlagOK o → FlagOK (run b o ops) := by
    intro ops
    induction ops with
    | nil => intro o h; exact h
    | cons op ops ih => intro o h; exact ih _ (flag_step b o op h)
  exact this ops _ rfl

/-- the same for the machine before bcb3fc2 (its defects were elsewhere) -/
theorem C11_flag_matches_solver_legacy (ops : List Op) : FlagOK (runLegacy b (initObj b) ops) := by
  have : ∀ (ops : List Op) (o : Obj), FlagOK o → FlagOK (runLegacy b o ops) := by
    intro ops
    induction ops with
    | nil => intro o h; exact h
    | cons op ops ih => intro o h; exact ih _ (flag_stepLegacy b o op h)
  exact this ops _ rfl

/-! ## the sensitivity setting is changed by `enable_sensitivities` only

State theorems (every hidden state, reachable or not) about `has_sensitivities()` of the outermost object,
in particular through the wrapper whose parameters are all fixed, where the wrapped model's sensitivities
are off and the flag `_empty_sensitivities` stands for "enabled". -/

/-- the calls that may switch sensitivities on: `enable_sensitivities(True, …)` -/
def enablesSens : Op → Bool
  | .enableSens true _ => true
  | _ => false

theorem hasSens_enableSensM_off (s : MState) (names) : (enableSensM s false names).1.hasSens = false := by
  unfold enableSensM
  simp only [Bool.not_false, if_true, Bool.false_or]
  cases h : s.hasSens <;> simp [h]

theorem hasSens_enableSensM_on (s : MState) (names) (h : (enableSensM s true names).2 = none) :
    (enableSensM s true names).1.hasSens = true := by
  unfold enableSensM at h ⊢
  simp only [Bool.not_true, Bool.false_eq_true, if_false, Bool.true_or, if_true] at h ⊢
  split_ifs at h ⊢
  rfl

theorem hasSens_setOutputsM (s : MState) (outs) (h : s.hasSens = false) :
    (setOutputsM b s outs).1.hasSens = false := by
  unfold setOutputsM
  simp only []
  split
  · exact h
  · exact hasSens_enableSensM_off _ _


theorem hasSens_setAdminM (s : MState) (a) (h : s.hasSens = false) : (setAdminM b s a).1.hasSens = false := by
  unfold setAdminM
  split
  · exact h
  · split
    · exact h
    · rfl

theorem hasSensR_enableSensR_off (o : MState) (r : Red) :
    hasSensR (enableSensR o r false).1.1 (enableSensR o r false).1.2 = false := by
  simp [enableSensR, hasSensR, hasSens_enableSensM_off]

theorem hasSensR_enableSensR_on (o : MState) (r : Red) (h : (enableSensR o r true).2 = none) :
    hasSensR (enableSensR o r true).1.1 (enableSensR o r true).1.2 = true := by
  unfold enableSensR at h ⊢
  simp only [Bool.not_true, Bool.false_eq_true, if_false] at h ⊢
  split_ifs at h ⊢
  · simp [hasSensR]
  · simp [hasSensR, hasSens_enableSensM_on _ _ h]

/-- **every state**: a call that is not `enable_sensitivities(True, …)` never switches sensitivities on —
whatever the hidden state (solver, tables, mask, flag) is -/
theorem C11_only_enable_switches_on (o : Obj) (op : Op) (hop : enablesSens op = false)
    (h : hasSensO o = false) : hasSensO (step b o op).1 = false := by
  obtain ⟨m, r⟩ := o
  cases r with
  | none =>
    simp only [hasSensO] at h
    cases op with
    | wrap =>
      simp only [step]
      cases hw : wrapM m with
      | none => simpa [hasSensO] using h
      | some r =>
        unfold wrapM at hw
        cases hp : parametersM m with
        | none => simp [hp] at hw
        | some ns =>
          simp only [hp, Option.map_some, Option.some.injEq] at hw
          subst hw
          simp [hasSensO, hasSensR, h]
    | setAdmin a =>
      simp only [step, stepPlain, hasSensO]
      split_ifs
      · exact h
      · exact hasSens_setAdminM b m a h
    | setRegimen x =>
      simp only [step, stepPlain, hasSensO, setRegimenM]
      split_ifs
      · exact h
      · split <;> exact h
    | setOutputs outs => exact hasSens_setOutputsM b m outs h
    | setParamNames names => exact h
    | setOutputNames names => exact h
    | enableSens on names =>
      cases on with
      | true => simp [enablesSens] at hop
      | false => exact hasSens_enableSensM_off m names
    | fix d => exact h
    | copy => rfl
  | some r =>
    simp only [hasSensO, hasSensR, Bool.or_eq_false_iff] at h
    obtain ⟨h1, h2⟩ := h
    cases op with
    | wrap => simp [step, hasSensO, hasSensR, h1, h2]
    | setAdmin a => simp [step, hasSensO, hasSensR, h1, h2]
    | setRegimen x =>
      simp only [step, setRegimenM]
      split_ifs
      · simp [hasSensO, hasSensR, h1, h2]
      · split <;> simp [hasSensO, hasSensR, h1, h2]
    | setOutputs outs =>
      simp only [step, hasSensO, hasSensR]
      have := hasSens_setOutputsM b m outs h2
      cases he : (setOutputsM b m outs).2 <;> simp [this, h1]
    | setParamNames names =>
      simp only [step]
      split
      · simp [hasSensO, hasSensR, h1, h2]
      · split <;> simp [hasSensO, hasSensR, h1, h2]
    | setOutputNames names => simp [step, hasSensO, hasSensR, h1, h2]
    | enableSens on names =>
      cases on with
      | true => simp [enablesSens] at hop
      | false =>
        cases names with
        | some ns => simp [step, hasSensO, hasSensR, h1, h2]
        | none => exact hasSensR_enableSensR_off m r
    | fix d =>
      simp only [step, fixR, hasSensR, h1, h2, Bool.or_self, Bool.false_eq_true, if_false, hasSensO]
    | copy => simp [step, hasSensO, hasSensR, copyM]


/-- … so once sensitivities are off they stay off through **every history** of other calls (fixing, releasing,
renaming, regimens, outputs, routes, wrapping, copying, calls that raise), from every state -/
theorem C11_stays_off (ops : List Op) (hops : ∀ op ∈ ops, enablesSens op = false) :
    ∀ o : Obj, hasSensO o = false → hasSensO (run b o ops) = false := by
  induction ops with
  | nil => intro o h; exact h
  | cons op ops ih =>
    intro o h
    simp only [run]
    exact ih (fun x hx => hops x (List.mem_cons_of_mem _ hx)) _
      (C11_only_enable_switches_on b o op (hops op List.mem_cons_self) h)

/-- **every state**: an accepted `enable_sensitivities(False)` leaves sensitivities off — also on a wrapper
whose parameters are all fixed (the flag `_empty_sensitivities` is cleared on this branch too) -/
theorem C11_disable_switches_off (o : Obj) (names) (hok : (step b o (.enableSens false names)).2 = none) :
    hasSensO (step b o (.enableSens false names)).1 = false := by
  obtain ⟨m, r⟩ := o
  cases r with
  | none => exact hasSens_enableSensM_off m names
  | some r =>
    cases names with
    | some ns => simp [step] at hok
    | none => exact hasSensR_enableSensR_off m r

/-- **every state**: an accepted `enable_sensitivities(True, …)` leaves them on — through the wrapper with
no free parameter as well (there the wrapped model's are off and the flag stands for them) -/
theorem C11_enable_switches_on (o : Obj) (names) (hok : (step b o (.enableSens true names)).2 = none) :
    hasSensO (step b o (.enableSens true names)).1 = true := by
  obtain ⟨m, r⟩ := o
  cases r with
  | none => exact hasSens_enableSensM_on m names hok
  | some r =>
    cases names with
    | some ns => simp [step] at hok
    | none => exact hasSensR_enableSensR_on m r hok

/-- **every state**: an accepted `fix_parameters` (fixing, releasing, both, everything, nothing) keeps the
sensitivity setting -/
theorem C11_fix_keeps_sens_setting (o : Obj) (d) (hok : (step b o (.fix d)).2 = none) :
    hasSensO (step b o (.fix d)).1 = hasSensO o := by
  obtain ⟨m, r⟩ := o
  cases r with
  | none => rfl
  | some r =>
    simp only [step, fixR, hasSensO] at hok ⊢
    have hflag : hasSensR m { r with mask := (fixMask r.names r.nParams r.mask r.values d).1,
                                     values := (fixMask r.names r.nParams r.mask r.values d).2 }
        = hasSensR m r := rfl
    rw [hflag] at hok ⊢
    cases hs : hasSensR m r with
    | false => simp only [hs, Bool.false_eq_true, if_false]; exact hs
    | true =>
      simp only [hs, if_true] at hok ⊢
      exact hasSensR_enableSensR_on m _ hok

/-- **disable, then anything but enabling**: the history of the missed class — whatever state the object
is in (every parameter fixed and sensitivities "enabled" included), after `enable_sensitivities(False)` and
any further calls other than `enable_sensitivities(True)` the object reports no sensitivities and an empty
time grid returns no sensitivity block -/
theorem C11_disable_then_stays_off (o : Obj) (names) (ops : List Op)
    (hok : (step b o (.enableSens false names)).2 = none) (hops : ∀ op ∈ ops, enablesSens op = false) :
    (observe b (run b o (.enableSens false names :: ops))).hasSens = false ∧
      ∀ x, (observe b (run b o (.enableSens false names :: ops))).emptyGrid = some x → x.2 = none := by
  have h : hasSensO (run b o (.enableSens false names :: ops)) = false :=
    C11_stays_off b ops hops _ (C11_disable_switches_off b o names hok)
  refine ⟨h, ?_⟩
  intro x hx
  generalize run b o (.enableSens false names :: ops) = o' at h hx
  obtain ⟨m, r⟩ := o'
  simp only [observe, simulateEmptyO] at hx
  have hm : ∀ args y, simulateEmptyM b m args = some y → m.hasSens = false → y.2 = none := by
    intro args y hy hf
    unfold simulateEmptyM at hy
    simp only [] at hy
    repeat' (first | split at hy | cases hy)
    all_goals simp_all
  cases r with
  | none =>
    simp only [hasSensO] at h
    split at hx
    · cases hx
    · exact hm _ _ hx h
  | some r =>
    simp only [hasSensO, hasSensR, Bool.or_eq_false_iff] at h
    split at hx
    · cases hx
    · simp only [h.1, Bool.false_eq_true, if_false] at hx
      exact hm _ _ hx h.2


def releaseK : Op := .fix [("global.elimination_rate", none)]
def allFixedOnOff : List Op := [.wrap, fixAll, .enableSens true none, .enableSens false none]

/-- non-vacuity: every parameter of the one-compartment model fixed, sensitivities on (an empty block of
sensitivities is returned), off again (none is returned), one parameter released (still none) -/
example :
    (obsNow [.wrap, fixAll, .enableSens true none]).hasSens = true ∧
      (obsNow [.wrap, fixAll, .enableSens true none]).emptyGrid = some (1, some 0) ∧
      (obsNow allFixedOnOff).hasSens = false ∧ (obsNow allFixedOnOff).emptyGrid = some (1, none) ∧
      (obsNow (allFixedOnOff ++ [releaseK])).hasSens = false ∧
      (obsNow (allFixedOnOff ++ [releaseK])).params = some ["global.elimination_rate"] ∧
      (obsNow (allFixedOnOff ++ [releaseK])).emptyGrid = some (1, none) ∧
      obsNow (allFixedOnOff ++ [releaseK]) = obsFresh (allFixedOnOff ++ [releaseK]) ∧
      (obsNow [.wrap, .enableSens true none, fixAll]).emptyGrid = some (1, some 0) ∧
      (obsNow [.wrap, .enableSens true none, fixAll, releaseK]).emptyGrid = some (1, some 1) := by
  decide

end ChiModel.MechConfig
