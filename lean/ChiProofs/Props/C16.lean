import ChiProofs.Lemmas.SeedsPrior
/-!
# C16 — seeds fully determine random results; random streams are independent; generator objects
are advanced

The model (`ChiModel/Seeds.lean`) says which primitive variate — `(stream, call, position)` — every
returned number is computed from.  Under the *ideal-PRNG assumption* (distinct triples are independent
variates, streams of different seeds are independent; an assumption about PCG64 / MT19937, not a
theorem) the statements below are the property:

* `C16_reproducible*`   an integer seed makes the whole result — entries, reads, calls, the seed object
  and the state the global generator is left in — a function of the seed alone, for *any* world
  (any state of the global generators, any history of calls);
* `C16_seed_sensitive`  two different integer seeds share no variate;
* `C16_disjoint*`       different outputs / times / individuals / samples read disjoint variates
  (`Indep`), and every measurement entry does read noise (`C16_noise_nonempty`);
* `C16_generator_advanced`  a `Generator` argument is read from its current counter on, without gaps,
  and comes back advanced by the number of calls.

`intended` is the behaviour the property demands, `asIs` the code as it is (Appendix A #14); the
`_partial` / `_counterexample` theorems are about `asIs`.
-/
set_option linter.unusedSectionVars false
set_option linter.unusedSimpArgs false
namespace ChiModel.Seeds

/-! ## reproducibility -/

/-- Every sampling entry point (error, population, predictive, population-predictive, prior-,
    posterior- and PAM-predictive models, the three `sample_initial_parameters`), for every structure
    and all sizes: with an integer seed the complete result is a function of the seed, and the only
    effect on the world is that the global generator may be left in a seed-determined state.
    (Intended variant: `PAMPredictiveModel` chooses with its own generator.) -/
theorem C16_reproducible (e : Entry) (s : Int) :
    ∃ o ef, ∀ w, e.run intended (.int s) w = ((o, .int s), applyG ef w) := by
  cases e with
  | error k nT nS => exact detS_int (detS_err k nT nS) s
  | population p n => exact detS_int (detS_pop p n) s
  | predictive kinds nT nS => exact detS_int (detS_pred intended kinds nT nS) s
  | popPredictive p kinds nT n => exact detS_int (detS_popPred intended p kinds nT n) s
  | priorPredictive spec nT n => exact detS_int_priorPred intended spec nT n s
  | posteriorPredictive spec nT n => exact detS_int (detS_postPred intended spec nT n) s
  | pam models nT => exact detS_int (detS_pam_intended intended rfl models nT) s
  | initLogPosterior n => exact detS_int_initLogPosterior n s
  | initHierarchical p nIds nEps n => exact detS_int_initHier p nIds nEps n s

/-- the same, as the property words it: the same integer seed in any two worlds (global generator
    states, entropy supplies — i.e. whatever was called before) gives identical results -/
theorem C16_reproducible_any_world (e : Entry) (s : Int) (w w' : World) :
    (e.run intended (.int s) w).1 = (e.run intended (.int s) w').1 := by
  obtain ⟨o, ef, h⟩ := C16_reproducible e s
  rw [h w, h w']

/-- the code as it is: every entry point except `PAMPredictiveModel.sample` -/
theorem C16_reproducible_partial (e : Entry) (he : ∀ models nT, e ≠ .pam models nT) (s : Int) :
    ∃ o ef, ∀ w, e.run asIs (.int s) w = ((o, .int s), applyG ef w) := by
  cases e with
  | error k nT nS => exact detS_int (detS_err k nT nS) s
  | population p n => exact detS_int (detS_pop p n) s
  | predictive kinds nT nS => exact detS_int (detS_pred asIs kinds nT nS) s
  | popPredictive p kinds nT n => exact detS_int (detS_popPred asIs p kinds nT n) s
  | priorPredictive spec nT n => exact detS_int_priorPred asIs spec nT n s
  | posteriorPredictive spec nT n => exact detS_int (detS_postPred asIs spec nT n) s
  | pam models nT => exact absurd rfl (he models nT)
  | initLogPosterior n => exact detS_int_initLogPosterior n s
  | initHierarchical p nIds nEps n => exact detS_int_initHier p nIds nEps n s

/-- `PAMPredictiveModel.sample` as it is: with the same integer seed the reads that decide how many
    samples come from which model are reads of the *global* generator — two worlds that differ in
    the global generator's state give different results -/
theorem C16_pam_global_counterexample :
    ∃ w w' : World,
      (pamSample asIs [(.indiv [.gauss], 1), (.indiv [.gauss], 1)] 1 (.int 4) w).1.1.alloc
        ≠ (pamSample asIs [(.indiv [.gauss], 1), (.indiv [.gauss], 1)] 1 (.int 4) w').1.1.alloc :=
  ⟨⟨⟨.legacySeeded 1, 0⟩, 0⟩, ⟨⟨.legacySeeded 2, 0⟩, 0⟩, by decide⟩

/-! ## different seeds -/

/-- Different integer seeds give different draws: no variate read under seed `s` is read under seed
    `s' ≠ s`, whatever the worlds (code as it is and intended). -/
theorem C16_seed_sensitive (v : Variant) (e : Entry) (he : e.singleRoot = true) (s s' : Int) (hne : s ≠ s')
    (w w' : World) :
    ∀ c ∈ (e.run v (.int s) w).1.1.cells, ∀ r ∈ cellReads c,
      ∀ c' ∈ (e.run v (.int s') w').1.1.cells, r ∉ cellReads c' := by
  intro c hc r hr c' hc' hr'
  have h1 := rooted_entry v e he s w c hc r hr
  have h2 := rooted_entry v e he s' w' c' hc' r hr'
  rw [h1] at h2
  exact hne (Option.some.inj h2)

/-! ## independence of outputs / times / individuals / samples -/

def Entry.isPrior : Entry → Bool
  | .priorPredictive _ _ _ => true
  | _ => false

/-- Intended variant, every entry point other than the prior predictive model (see
    `C16_disjoint_prior_partial`), every structure, all sizes, every kind of seed (integer,
    `Generator` at any counter, none): the entries of the result are computed from pairwise disjoint
    noise variates, no noise variate is used for a parameter, and different samples / individuals
    have disjoint parameter variates. -/
theorem C16_disjoint (e : Entry) (he : e.isPrior = false) (sd : SeedArg) (w : World) :
    Indep (e.run intended sd w).1.1.cells := by
  cases e with
  | error k nT nS => exact indep_err k nT nS sd w
  | population p n => exact indep_pop p n sd w
  | predictive kinds nT nS => exact indep_pred intended kinds nT nS sd w (fun h => by simp [intended] at h)
  | popPredictive p kinds nT n => exact indep_popPred intended p kinds nT n sd w
  | priorPredictive spec nT n => simp [Entry.isPrior] at he
  | posteriorPredictive spec nT n => exact indep_postPred intended spec nT n sd w
  | pam models nT => exact indep_pam intended models nT sd w
  | initLogPosterior n => exact indep_initLogPosterior n sd w
  | initHierarchical p nIds nEps n => exact indep_initHier p nIds nEps n sd w

/-- … and the reads that decide the PAM allocation are used by no entry (intended variant) -/
theorem C16_pam_alloc_disjoint (models : List (PredSpec × Nat)) (nT : Nat) (sd : SeedArg) (w : World) :
    ∀ r ∈ (pamSample intended models nT sd w).1.1.alloc,
      ∀ c ∈ (pamSample intended models nT sd w).1.1.cells, r ∉ cellReads c :=
  pam_alloc_disjoint intended rfl models nT sd w

/-- The code as it is: the same holds whenever the seed is a `Generator` or `None`, and for integer
    seeds at every entry point other than `PredictiveModel.sample` (which hands the integer to every
    error model, `C16_independent_outputs_counterexample`). -/
theorem C16_disjoint_partial (e : Entry) (he : e.isPrior = false) (sd : SeedArg) (w : World)
    (h : ∀ kinds nT nS, e = .predictive kinds nT nS → ∀ s, sd ≠ .int s) :
    Indep (e.run asIs sd w).1.1.cells := by
  cases e with
  | error k nT nS => exact indep_err k nT nS sd w
  | population p n => exact indep_pop p n sd w
  | predictive kinds nT nS => exact indep_pred asIs kinds nT nS sd w (fun _ => h kinds nT nS rfl)
  | popPredictive p kinds nT n => exact indep_popPred asIs p kinds nT n sd w
  | priorPredictive spec nT n => simp [Entry.isPrior] at he
  | posteriorPredictive spec nT n => exact indep_postPred asIs spec nT n sd w
  | pam models nT => exact indep_pam asIs models nT sd w
  | initLogPosterior n => exact indep_initLogPosterior n sd w
  | initHierarchical p nIds nEps n => exact indep_initHier p nIds nEps n sd w

/-- `PredictiveModel.sample(seed=7)` as it is, two outputs with Gaussian error models, two times, two
    samples: the entry of output 0 and the entry of output 1 at the same time and sample are computed
    from the *same* variate (every error model builds `default_rng(7)` afresh). -/
theorem C16_independent_outputs_counterexample (w : World) :
    ∀ t s, t < 2 → s < 2 →
      ∃ a ∈ (predSample asIs [.gauss, .gauss] 2 2 (.int 7) w).1.1.cells,
      ∃ b ∈ (predSample asIs [.gauss, .gauss] 2 2 (.int 7) w).1.1.cells,
        a.out = 0 ∧ b.out = 1 ∧ a.time = t ∧ b.time = t ∧ a.unit = s ∧ b.unit = s ∧
        a.noise = b.noise ∧ a.noise = [⟨.seeded 7, 0, t * 2 + s⟩] := by
  intro t s ht hs
  have ht' : t = 0 ∨ t = 1 := by omega
  have hs' : s = 0 ∨ s = 1 := by omega
  rcases ht' with rfl | rfl <;> rcases hs' with rfl | rfl <;>
    simp [predSample, asIs, loopS, seqS, skipS, mapCells, errSample, withRng, defaultRng, errBody, drawS,
      gridCells, EM.nCalls, Out.append, Out.empty, finalSeed, List.range, List.range.loop]

/-- The prior predictive model (individual-level predictive model, intended `PredictiveModel`,
    integer seed): sample `k` takes its parameters from row `k` of the prior's draws on the global
    generator seeded with `s`, its noise from the stream of seed `s + k + 1`; the entries are
    independent.  (Partial: population-level inner models, whose truncated-Gaussian sub-models re-seed
    the global generator between two prior draws, and the unseeded call are not covered here; the code
    as it is inherits `C16_independent_outputs_counterexample`.) -/
theorem C16_disjoint_prior_partial (v : Variant) (hv : v.sharedSeed = false) (kinds : List EM) (nT n : Nat)
    (s : Int) (w : World) :
    Indep (priorPredSample v (.indiv kinds) nT n (.int s) w).1.1.cells :=
  (priorLoop_inv v hv kinds nT n s (List.range n) List.nodup_range 0
    { w with glob := ⟨.legacySeeded s, 0⟩ } rfl).indep

/-- non-vacuity of the disjointness statements: every entry of a predictive sample does read noise
    (one variate, two for the constant-and-multiplicative model), for every seed and variant -/
theorem C16_noise_nonempty (v : Variant) (kinds : List EM) (nT nS : Nat) (sd : SeedArg) (w : World) :
    ∀ c ∈ (predSample v kinds nT nS sd w).1.1.cells, c.noise ≠ [] :=
  hasNoise_pred v kinds nT nS sd w

/-! ## generator objects -/

def Entry.acceptsGenerator : Entry → Bool
  | .priorPredictive _ _ _ => false
  | .initLogPosterior _ => false
  | .initHierarchical _ _ _ _ => false
  | _ => true

/-- A `Generator` passed as seed (stream `g.stream`, `g.ctr` calls made so far) is used from its
    current counter on — the calls made on its stream are exactly `g.ctr, g.ctr+1, …` without gaps or
    repetitions, in program order — and the caller's object comes back advanced by their number.
    For every structure and all sizes, code as it is and intended.  (The global generator is not a
    `Generator` object: `w.glob.stream ≠ g.stream`.) -/
theorem C16_generator_advanced (v : Variant) (e : Entry) (he : e.acceptsGenerator = true) (g : Gen) (w : World)
    (hglob : w.glob.stream ≠ g.stream) :
    ∃ g', (e.run v (.gen g) w).1.2 = .gen g' ∧ g'.stream = g.stream ∧ g.ctr ≤ g'.ctr ∧
      callIdxOn g.stream (e.run v (.gen g) w).1.1.calls = List.range' g.ctr (g'.ctr - g.ctr) := by
  cases e with
  | error k nT nS => exact adv_err _ k nT nS g w rfl
  | population p n => exact adv_pop _ p n g w rfl
  | predictive kinds nT nS => exact adv_pred _ v kinds nT nS g w rfl
  | popPredictive p kinds nT n => exact adv_popPred _ v p kinds nT n g w rfl
  | priorPredictive spec nT n => simp [Entry.acceptsGenerator] at he
  | posteriorPredictive spec nT n => exact adv_postPred _ v spec nT n g w rfl
  | pam models nT => exact adv_pam _ v models nT g w rfl (fun _ => hglob)
  | initLogPosterior n => simp [Entry.acceptsGenerator] at he
  | initHierarchical p nIds nEps n => simp [Entry.acceptsGenerator] at he

/-- `PriorPredictiveModel.sample` documents `seed: int or numpy.random.Generator`, but as it is a
    `Generator` ends in `np.random.seed(Generator)`: a `TypeError`, no draw, the object untouched. -/
theorem C16_generator_rejected_counterexample (v : Variant) (hv : v.priorGen = none) (spec : PredSpec)
    (nT n : Nat) (g : Gen) (w : World) :
    (priorPredSample v spec nT n (.gen g) w).1.1.err = true ∧
    (priorPredSample v spec nT n (.gen g) w).1.1.calls = [] ∧
    (priorPredSample v spec nT n (.gen g) w).1.2 = .gen g := by
  simp [priorPredSample, hv]

/-- The repaired behaviour (`seed = int(seed.integers(0, 1e6))`, the idiom of
    `TruncatedGaussianModel.sample`): whatever value `s'` that draw returns, the `Generator` is used
    exactly once, at its current counter, and comes back advanced by one call; the entries are those
    of the integer seed `s'` (so everything proved for integer seeds applies), and nothing else is
    drawn from the caller's object. -/
theorem C16_prior_generator_repaired (v : Variant) (s' : Int) (hv : v.priorGen = some s') (spec : PredSpec)
    (nT n : Nat) (g : Gen) (w : World) :
    (priorPredSample v spec nT n (.gen g) w).1.1.err = (priorPredSample v spec nT n (.int s') w).1.1.err ∧
    (priorPredSample v spec nT n (.gen g) w).1.2 = .gen ⟨g.stream, g.ctr + 1⟩ ∧
    (priorPredSample v spec nT n (.gen g) w).1.1.cells = (priorPredSample v spec nT n (.int s') w).1.1.cells ∧
    (priorPredSample v spec nT n (.gen g) w).1.1.calls
      = ⟨g.stream, g.ctr, .seedInt, 1⟩ :: (priorPredSample v spec nT n (.int s') w).1.1.calls ∧
    (priorPredSample v spec nT n (.gen g) w).2 = (priorPredSample v spec nT n (.int s') w).2 := by
  simp [priorPredSample, hv]

end ChiModel.Seeds
