import ChiProofs.Lemmas.SeedsPrior
import ChiModel.SeedHistory
/-!
# C16 — seeds fully determine random results; random streams are independent; generator objects
are advanced

The model (`ChiModel/Seeds.lean`) says which primitive variate — `(stream, call, position)` — every
returned number is computed from.  Under the *ideal-PRNG assumption* (distinct triples are independent
variates, streams of different seeds are independent; an assumption about PCG64 / MT19937, not a
theorem) the statements below are the property:

* `C16_reproducible*`   an integer seed makes the whole result — entries, reads, calls, the seed object
  and the state the global generator is left in — a function of the seed alone, for *any* world
  (any state of the global generators, any history of calls); a `Generator` makes it a function of the
  generator's state alone;
* `C16_seed_sensitive`  two different integer seeds share no variate;
* `C16_disjoint*`       different outputs / times / individuals / samples read disjoint variates
  (`Indep`), and every measurement entry does read noise (`C16_noise_nonempty`);
* `C16_generator_advanced*`  a `Generator` argument is read from its current counter on, without gaps,
  and comes back advanced by the number of calls.

`asIs d` is the code as it is (after the `fix:` commits 80b4fea, d48fa6e, b1514f4; `d` is whatever value
`PriorPredictiveModel` draws from a `Generator` seed — all theorems hold for every `d`); `legacy` is the
code before those commits and occurs in the `_counterexample` theorems only.
-/
set_option linter.unusedSectionVars false
set_option linter.unusedSimpArgs false
namespace ChiModel.Seeds

/-! ## reproducibility -/

/-- entry points whose `seed` may be a `Generator` and is handed on as such (the prior predictive model
    draws an integer from it instead, `C16_generator_advanced_prior`; `sample_initial_parameters` takes integers) -/
def Entry.acceptsGenerator : Entry → Bool
  | .priorPredictive _ _ _ => false
  | .initLogPosterior _ => false
  | .initHierarchical _ _ _ _ => false
  | _ => true


/-- The code as it is: every sampling entry point (error, population, predictive, population-predictive,
    prior-, posterior- and PAM-predictive models, the three `sample_initial_parameters`), for every
    structure and all sizes: with an integer seed the complete result is a function of the seed, and the
    only effect on the world is that the global generator may be left in a seed-determined state. -/
theorem C16_reproducible (d : Int) (e : Entry) (s : Int) :
    ∃ o ef, ∀ w, e.run (asIs d) (.int s) w = ((o, .int s), applyG ef w) := by
  cases e with
  | error k nT nS => exact detS_int (detS_err k nT nS) s
  | population p n => exact detS_int (detS_pop p n) s
  | predictive kinds nT nS => exact detS_int (detS_pred (asIs d) kinds nT nS) s
  | popPredictive p kinds nT n => exact detS_int (detS_popPred (asIs d) p kinds nT n) s
  | priorPredictive spec nT n => exact detS_int_priorPred (asIs d) spec nT n s
  | posteriorPredictive spec nT n => exact detS_int (detS_postPred (asIs d) spec nT n) s
  | pam models nT => exact detS_int (detS_pam_intended (asIs d) rfl models nT) s
  | initLogPosterior n => exact detS_int_initLogPosterior n s
  | initHierarchical p nIds nEps n => exact detS_int_initHier p nIds nEps n s

/-- the same, as the property words it: the same integer seed in any two worlds (global generator
    states, entropy supplies — i.e. whatever was called before) gives identical results -/
theorem C16_reproducible_any_world (d : Int) (e : Entry) (s : Int) (w w' : World) :
    (e.run (asIs d) (.int s) w).1 = (e.run (asIs d) (.int s) w').1 := by
  obtain ⟨o, ef, h⟩ := C16_reproducible d e s
  rw [h w, h w']

/-- … and with a `Generator` the result is a function of the generator's state (stream and counter)
    alone: the global generators and the history do not enter (entry points that take a `Generator`;
    for the prior predictive model see `C16_generator_advanced_prior`) -/
theorem C16_reproducible_generator (d : Int) (e : Entry) (he : e.acceptsGenerator = true) (g : Gen) (w w' : World) :
    (e.run (asIs d) (.gen g) w).1 = (e.run (asIs d) (.gen g) w').1 := by
  have key : ∀ {P : Sampler}, DetS P → (P (.gen g) w).1 = (P (.gen g) w').1 := by
    intro P h
    obtain ⟨o, sd', ef, _, h1⟩ := h (.gen g) (by simp)
    rw [h1 w, h1 w']
  cases e with
  | error k nT nS => exact key (detS_err k nT nS)
  | population p n => exact key (detS_pop p n)
  | predictive kinds nT nS => exact key (detS_pred (asIs d) kinds nT nS)
  | popPredictive p kinds nT n => exact key (detS_popPred (asIs d) p kinds nT n)
  | priorPredictive spec nT n => simp [Entry.acceptsGenerator] at he
  | posteriorPredictive spec nT n => exact key (detS_postPred (asIs d) spec nT n)
  | pam models nT => exact key (detS_pam_intended (asIs d) rfl models nT)
  | initLogPosterior n => simp [Entry.acceptsGenerator] at he
  | initHierarchical p nIds nEps n => simp [Entry.acceptsGenerator] at he

/-- Before d48fa6e: with the same integer seed the reads that decide how many samples
    `PAMPredictiveModel.sample` takes from which model were reads of the *global* generator — two worlds
    that differ in the global generator's state gave different results -/
theorem C16_pam_global_counterexample :
    ∃ w w' : World,
      (pamSample legacy [(.indiv [.gauss], 1), (.indiv [.gauss], 1)] 1 (.int 4) w).1.1.alloc
        ≠ (pamSample legacy [(.indiv [.gauss], 1), (.indiv [.gauss], 1)] 1 (.int 4) w').1.1.alloc :=
  ⟨⟨⟨.legacySeeded 1, 0⟩, 0⟩, ⟨⟨.legacySeeded 2, 0⟩, 0⟩, by decide⟩

/-! ## different seeds -/

/-- Different integer seeds give different draws: no variate read under seed `s` is read under seed
    `s' ≠ s`, whatever the worlds. -/
theorem C16_seed_sensitive (v : Variant) (e : Entry) (he : e.singleRoot = true) (s s' : Int) (hne : s ≠ s')
    (w w' : World) :
    ∀ c ∈ (e.run v (.int s) w).1.1.cells, ∀ r ∈ cellReads c,
      ∀ c' ∈ (e.run v (.int s') w').1.1.cells, r ∉ cellReads c' := by
  intro c hc r hr c' hc' hr'
  have h1 := rooted_entry v e he s w c hc r hr
  have h2 := rooted_entry v e he s' w' c' hc' r hr'
  rw [h1] at h2
  exact hne (Option.some.inj h2)

/-! ## independence of outputs / times / individuals / samples -/

def Entry.isPrior : Entry → Bool
  | .priorPredictive _ _ _ => true
  | _ => false

/-- The code as it is, every entry point other than the prior predictive model (see
    `C16_disjoint_prior`), every structure, all sizes (also repeated time points: entries are indexed
    by the position in the requested time vector), every kind of seed (integer, `Generator` at any
    counter, none): the entries of the result are computed from pairwise disjoint noise variates, no
    noise variate is used for a parameter, and different samples / individuals have disjoint parameter
    variates. -/
theorem C16_disjoint (d : Int) (e : Entry) (he : e.isPrior = false) (sd : SeedArg) (w : World) :
    Indep (e.run (asIs d) sd w).1.1.cells := by
  cases e with
  | error k nT nS => exact indep_err k nT nS sd w
  | population p n => exact indep_pop p n sd w
  | predictive kinds nT nS => exact indep_pred (asIs d) kinds nT nS sd w (fun h => by simp [asIs] at h)
  | popPredictive p kinds nT n => exact indep_popPred (asIs d) p kinds nT n sd w
  | priorPredictive spec nT n => simp [Entry.isPrior] at he
  | posteriorPredictive spec nT n => exact indep_postPred (asIs d) spec nT n sd w
  | pam models nT => exact indep_pam (asIs d) models nT sd w
  | initLogPosterior n => exact indep_initLogPosterior n sd w
  | initHierarchical p nIds nEps n => exact indep_initHier p nIds nEps n sd w

/-- … and the reads that decide the PAM allocation are used by no entry -/
theorem C16_pam_alloc_disjoint (d : Int) (models : List (PredSpec × Nat)) (nT : Nat) (sd : SeedArg) (w : World) :
    ∀ r ∈ (pamSample (asIs d) models nT sd w).1.1.alloc,
      ∀ c ∈ (pamSample (asIs d) models nT sd w).1.1.cells, r ∉ cellReads c :=
  pam_alloc_disjoint (asIs d) rfl models nT sd w

/-- Before 80b4fea: `PredictiveModel.sample(seed=7)`, two outputs with Gaussian error models, two times,
    two samples: the entry of output 0 and the entry of output 1 at the same time and sample were computed
    from the *same* variate (every error model built `default_rng(7)` afresh). -/
theorem C16_independent_outputs_counterexample (w : World) :
    ∀ t s, t < 2 → s < 2 →
      ∃ a ∈ (predSample legacy [.gauss, .gauss] 2 2 (.int 7) w).1.1.cells,
      ∃ b ∈ (predSample legacy [.gauss, .gauss] 2 2 (.int 7) w).1.1.cells,
        a.out = 0 ∧ b.out = 1 ∧ a.time = t ∧ b.time = t ∧ a.unit = s ∧ b.unit = s ∧
        a.noise = b.noise ∧ a.noise = [⟨.seeded 7, 0, t * 2 + s⟩] := by
  intro t s ht hs
  have ht' : t = 0 ∨ t = 1 := by omega
  have hs' : s = 0 ∨ s = 1 := by omega
  rcases ht' with rfl | rfl <;> rcases hs' with rfl | rfl <;>
    simp [predSample, legacy, loopS, seqS, skipS, mapCells, errSample, withRng, defaultRng, errBody, drawS,
      gridCells, EM.nCalls, Out.append, Out.empty, finalSeed, List.range, List.range.loop]

/-- The prior predictive model as it is, over an individual-level or a population-level predictive
    model, with an integer seed `s`: sample `k` takes its parameters from row `k` of the prior's draws on
    the global generator seeded with `s`, everything else from the stream family of seed `s + k + 1`; the
    entries are independent.  With a `Generator` the entries are those of the integer it draws
    (`C16_generator_advanced_prior`), so the same holds.
    (Partial: population models with truncated-Gaussian sub-models — which re-seed the global generator
    between two prior draws — and the unseeded call are not covered.) -/
theorem C16_disjoint_prior_partial (d : Int) (spec : PredSpec) (hs : spec.noTrunc = true) (nT n : Nat)
    (sd : SeedArg) (hsd : sd ≠ .none) (w : World) :
    Indep (priorPredSample (asIs d) spec nT n sd w).1.1.cells := by
  have key : ∀ s : Int, Indep (priorPredSample (asIs d) spec nT n (.int s) w).1.1.cells := fun s =>
    (priorLoop_inv (asIs d) spec nT n (innerOK_anyPred (asIs d) rfl spec hs nT n) s (List.range n)
      List.nodup_range 0 { w with glob := ⟨.legacySeeded s, 0⟩ } rfl).indep
  cases sd with
  | none => exact absurd rfl hsd
  | int s => exact key s
  | gen g =>
    have : (priorPredSample (asIs d) spec nT n (.gen g) w).1.1.cells
        = (priorPredSample (asIs d) spec nT n (.int d) w).1.1.cells := by
      simp [priorPredSample, asIs]
    rw [this]; exact key d

/-- non-vacuity of the disjointness statements: every entry of a predictive sample does read noise
    (one variate, two for the constant-and-multiplicative model), for every seed and variant -/
theorem C16_noise_nonempty (v : Variant) (kinds : List EM) (nT nS : Nat) (sd : SeedArg) (w : World) :
    ∀ c ∈ (predSample v kinds nT nS sd w).1.1.cells, c.noise ≠ [] :=
  hasNoise_pred v kinds nT nS sd w

/-! ## generator objects -/

/-- A `Generator` passed as seed (stream `g.stream`, `g.ctr` calls made so far) is used from its
    current counter on — the calls made on its stream are exactly `g.ctr, g.ctr+1, …` without gaps or
    repetitions, in program order — and the caller's object comes back advanced by their number.
    The code as it is, every structure and all sizes. -/
theorem C16_generator_advanced (d : Int) (e : Entry) (he : e.acceptsGenerator = true) (g : Gen) (w : World) :
    ∃ g', (e.run (asIs d) (.gen g) w).1.2 = .gen g' ∧ g'.stream = g.stream ∧ g.ctr ≤ g'.ctr ∧
      callIdxOn g.stream (e.run (asIs d) (.gen g) w).1.1.calls = List.range' g.ctr (g'.ctr - g.ctr) := by
  cases e with
  | error k nT nS => exact adv_err _ k nT nS g w rfl
  | population p n => exact adv_pop _ p n g w rfl
  | predictive kinds nT nS => exact adv_pred _ (asIs d) kinds nT nS g w rfl
  | popPredictive p kinds nT n => exact adv_popPred _ (asIs d) p kinds nT n g w rfl
  | priorPredictive spec nT n => simp [Entry.acceptsGenerator] at he
  | posteriorPredictive spec nT n => exact adv_postPred _ (asIs d) spec nT n g w rfl
  | pam models nT => exact adv_pam _ (asIs d) models nT g w rfl (fun h => by simp [asIs] at h)
  | initLogPosterior n => simp [Entry.acceptsGenerator] at he
  | initHierarchical p nIds nEps n => simp [Entry.acceptsGenerator] at he

/-- `PriorPredictiveModel.sample` as it is (b1514f4: `seed = int(seed.integers(0, 1e6))`, the idiom of
    `TruncatedGaussianModel.sample`): whatever value `d` that draw returns, the `Generator` is used
    exactly once, at its current counter, and comes back advanced by one call; the entries, the further
    calls and the effect on the world are those of the integer seed `d` (so everything proved for integer
    seeds applies), and nothing else is drawn from the caller's object. -/
theorem C16_generator_advanced_prior (d : Int) (spec : PredSpec) (nT n : Nat) (g : Gen) (w : World) :
    (priorPredSample (asIs d) spec nT n (.gen g) w).1.1.err = false ∧
    (priorPredSample (asIs d) spec nT n (.gen g) w).1.2 = .gen ⟨g.stream, g.ctr + 1⟩ ∧
    (priorPredSample (asIs d) spec nT n (.gen g) w).1.1.cells = (priorPredSample (asIs d) spec nT n (.int d) w).1.1.cells ∧
    (priorPredSample (asIs d) spec nT n (.gen g) w).1.1.calls
      = ⟨g.stream, g.ctr, .seedInt, 1⟩ :: (priorPredSample (asIs d) spec nT n (.int d) w).1.1.calls ∧
    (priorPredSample (asIs d) spec nT n (.gen g) w).2 = (priorPredSample (asIs d) spec nT n (.int d) w).2 := by
  have herr : ∀ ks w', (priorLoop (asIs d) spec nT n (some d) ks w').1.err = false := by
    intro ks
    induction ks with
    | nil => intro w'; rfl
    | cons k ks ih => intro w'; simp [priorLoop, Out.append, ih]
  refine ⟨?_, ?_, ?_, ?_, ?_⟩ <;> simp [priorPredSample, asIs, herr] <;> exact herr _ _

/-- Before b1514f4: the documented `Generator` ended in `np.random.seed(Generator)`: a `TypeError`, no
    draw, the object untouched. -/
theorem C16_generator_rejected_counterexample (spec : PredSpec) (nT n : Nat) (g : Gen) (w : World) :
    (priorPredSample legacy spec nT n (.gen g) w).1.1.err = true ∧
    (priorPredSample legacy spec nT n (.gen g) w).1.1.calls = [] ∧
    (priorPredSample legacy spec nT n (.gen g) w).1.2 = .gen g := by
  simp [priorPredSample, legacy]


/-! ## histories of calls on ONE object (`ChiModel/SeedHistory.lean`)

The posterior a call of `PosteriorPredictiveModel.sample` draws from is the one of the individual of THAT
call, whatever individuals the object was asked for before (`C16_history_free`); memoising the sorted
array is harmless exactly when the memo is keyed by the individual (`_keyed_cache`, `_unkeyed_cache_*`). -/

theorem C16_history_free (first : Nat) (hist : List (Option Nat)) (ind : Option Nat) :
    rowsAsIs first hist ind = rowsAsIs first [] ind := rfl

theorem C16_history_free_keyed_cache (first : Nat) (hist : List (Option Nat)) (ind : Option Nat) :
    rowsUsed true first hist ind = rowsAsIs first [] ind := by
  simp [rowsUsed, cacheStep, rowsAsIs]

theorem C16_history_unkeyed_cache_counterexample :
    ∃ (first : Nat) (hist : List (Option Nat)) (ind : Option Nat),
      rowsUsed false first hist ind ≠ rowsUsed false first [] ind :=
  ⟨0, [some 0], some 1, by decide⟩

theorem runHist_unkeyed_cons (first j : Nat) (cache : List Nat) (hist : List (Option Nat)) :
    runHist false first hist (j :: cache) = j :: cache := by
  induction hist with
  | nil => rfl
  | cons a rest ih => simpa [runHist, cacheStep] using ih

theorem C16_history_unkeyed_cache_partial (first : Nat) (hist : List (Option Nat)) (ind : Option Nat)
    (h : ∀ c ∈ hist, effective first c = effective first ind) :
    rowsUsed false first hist ind = rowsAsIs first [] ind := by
  cases hist with
  | nil => simp [rowsUsed, runHist, cacheStep, rowsAsIs]
  | cons a rest =>
    have ha := h a (by simp)
    simp [rowsUsed, runHist, cacheStep, runHist_unkeyed_cons, rowsAsIs, ha]

example : rowsUsed false 0 [some 0] (some 1) = 0 ∧ rowsUsed true 0 [some 0] (some 1) = 1 := by decide
end ChiModel.Seeds
