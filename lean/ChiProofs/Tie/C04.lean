import ChiProofs.Tie.Basic
import ChiGen.ErrorModels
/-!
# The source-derived tie for C04: generated kernels = hand-written model

`ChiGen.gen_*` are the formulas traced from `chi/_error_models.py` (see `harness/srctie.py`); the right-hand
sides are the hand-written model of `ChiModel/ErrorModels.lean` that the C04 theorems are about. Hypotheses:
the negations of the support guards that return `-inf` (`sigma <= 0`, log-normal: `any(model_output <= 0)`)
plus what the divisions need (`sigma_tot j ≠ 0`). For every `n`, `p`, every parameter value, prediction,
observation and sensitivity function.

THE PROOF SCRIPTS DO NOT LOOK AT THE SHAPE OF THE GENERATED TERM (see `Tie/Basic.lean`): `harness/srctie.py`
re-runs this file unchanged against re-generated definitions when the Python source was rewritten. Everything
below the imports is reused verbatim for that; keep it free of references to other files' private names.
-/
set_option linter.unusedSectionVars false
set_option linter.unusedVariables false
namespace ChiModel
open ScalarFns

/-! ## gauss -/

theorem Tie_gauss_ll (n p : ℕ) (sigma : ℝ) (hs : 0 < sigma) (ybar obs : ℕ → ℝ) (S : ℕ → ℕ → ℝ) :
    ChiGen.gen_G_ll n p sigma ybar obs S = gaussLLraw n sigma ybar obs := by
  have hs0 : sigma ≠ 0 := hs.ne'
  refine tie_by_steps (fun n => ChiGen.gen_G_ll n p sigma ybar obs S)
    (fun n => gaussLLraw n sigma ybar obs) n ?_ (fun m hm => ?_)
  · tie_solve [ChiGen.gen_G_ll, gaussLLraw]
  · tie_solve [ChiGen.gen_G_ll, gaussLLraw]

theorem Tie_gauss_pointwise (n p : ℕ) (sigma : ℝ) (hs : 0 < sigma) (ybar obs : ℕ → ℝ) (S : ℕ → ℕ → ℝ) (j : ℕ) (hj : j < n) :
    ChiGen.gen_G_pw n p sigma ybar obs S j = gaussPW sigma ybar obs j := by
  have hs0 : sigma ≠ 0 := hs.ne'
  tie_solve [ChiGen.gen_G_pw, gaussPW]

theorem Tie_gauss_s1 (n p : ℕ) (sigma : ℝ) (hs : 0 < sigma) (ybar obs : ℕ → ℝ) (S : ℕ → ℕ → ℝ) :
    ChiGen.gen_G_s1 n p sigma ybar obs S = gaussLLraw n sigma ybar obs := by
  have hs0 : sigma ≠ 0 := hs.ne'
  refine tie_by_steps (fun n => ChiGen.gen_G_s1 n p sigma ybar obs S)
    (fun n => gaussLLraw n sigma ybar obs) n ?_ (fun m hm => ?_)
  · tie_solve [ChiGen.gen_G_s1, gaussLLraw]
  · tie_solve [ChiGen.gen_G_s1, gaussLLraw]

theorem Tie_gauss_dpsi (n p : ℕ) (sigma : ℝ) (hs : 0 < sigma) (ybar obs : ℕ → ℝ) (S : ℕ → ℕ → ℝ) (k : ℕ) :
    ChiGen.gen_G_dpsi n p sigma ybar obs S k = gaussDPsi n sigma ybar obs S k := by
  have hs0 : sigma ≠ 0 := hs.ne'
  refine tie_by_steps (fun n => ChiGen.gen_G_dpsi n p sigma ybar obs S k)
    (fun n => gaussDPsi n sigma ybar obs S k) n ?_ (fun m hm => ?_)
  · tie_solve [ChiGen.gen_G_dpsi, gaussDPsi]
  · tie_solve [ChiGen.gen_G_dpsi, gaussDPsi]

theorem Tie_gauss_dsigma (n p : ℕ) (sigma : ℝ) (hs : 0 < sigma) (ybar obs : ℕ → ℝ) (S : ℕ → ℕ → ℝ) :
    ChiGen.gen_G_dsigma0 n p sigma ybar obs S = gaussDSigma n sigma ybar obs := by
  have hs0 : sigma ≠ 0 := hs.ne'
  refine tie_by_steps (fun n => ChiGen.gen_G_dsigma0 n p sigma ybar obs S)
    (fun n => gaussDSigma n sigma ybar obs) n ?_ (fun m hm => ?_)
  · tie_solve [ChiGen.gen_G_dsigma0, gaussDSigma]
  · tie_solve [ChiGen.gen_G_dsigma0, gaussDSigma]

/-! ## mult -/

theorem Tie_mult_ll (n p : ℕ) (srel : ℝ) (hs : 0 < srel) (ybar obs : ℕ → ℝ) (S : ℕ → ℕ → ℝ) (hy : ∀ j, j < n → ybar j ≠ 0) :
    ChiGen.gen_M_ll n p srel ybar obs S = multLLraw n srel ybar obs := by
  have hs0 : srel ≠ 0 := hs.ne'
  refine tie_by_steps (fun n => ChiGen.gen_M_ll n p srel ybar obs S)
    (fun n => multLLraw n srel ybar obs) n ?_ (fun m hm => ?_)
  · tie_solve [ChiGen.gen_M_ll, multLLraw]
  · have hym : ybar m ≠ 0 := hy m hm
    tie_solve [ChiGen.gen_M_ll, multLLraw]

theorem Tie_mult_pointwise (n p : ℕ) (srel : ℝ) (hs : 0 < srel) (ybar obs : ℕ → ℝ) (S : ℕ → ℕ → ℝ) (j : ℕ) (hj : j < n) (hy : ∀ j, j < n → ybar j ≠ 0) :
    ChiGen.gen_M_pw n p srel ybar obs S j = multPW srel ybar obs j := by
  have hs0 : srel ≠ 0 := hs.ne'
  have hym : ybar j ≠ 0 := hy j hj
  tie_solve [ChiGen.gen_M_pw, multPW]

theorem Tie_mult_s1 (n p : ℕ) (srel : ℝ) (hs : 0 < srel) (ybar obs : ℕ → ℝ) (S : ℕ → ℕ → ℝ) (hy : ∀ j, j < n → ybar j ≠ 0) :
    ChiGen.gen_M_s1 n p srel ybar obs S = multLLraw n srel ybar obs := by
  have hs0 : srel ≠ 0 := hs.ne'
  refine tie_by_steps (fun n => ChiGen.gen_M_s1 n p srel ybar obs S)
    (fun n => multLLraw n srel ybar obs) n ?_ (fun m hm => ?_)
  · tie_solve [ChiGen.gen_M_s1, multLLraw]
  · have hym : ybar m ≠ 0 := hy m hm
    tie_solve [ChiGen.gen_M_s1, multLLraw]

theorem Tie_mult_dpsi (n p : ℕ) (srel : ℝ) (hs : 0 < srel) (ybar obs : ℕ → ℝ) (S : ℕ → ℕ → ℝ) (k : ℕ) (hy : ∀ j, j < n → ybar j ≠ 0) :
    ChiGen.gen_M_dpsi n p srel ybar obs S k = multDPsi n srel ybar obs S k := by
  have hs0 : srel ≠ 0 := hs.ne'
  refine tie_by_steps (fun n => ChiGen.gen_M_dpsi n p srel ybar obs S k)
    (fun n => multDPsi n srel ybar obs S k) n ?_ (fun m hm => ?_)
  · tie_solve [ChiGen.gen_M_dpsi, multDPsi]
  · have hym : ybar m ≠ 0 := hy m hm
    tie_solve [ChiGen.gen_M_dpsi, multDPsi]

theorem Tie_mult_dsigma (n p : ℕ) (srel : ℝ) (hs : 0 < srel) (ybar obs : ℕ → ℝ) (S : ℕ → ℕ → ℝ) (hy : ∀ j, j < n → ybar j ≠ 0) :
    ChiGen.gen_M_dsigma0 n p srel ybar obs S = multDSrel n srel ybar obs := by
  have hs0 : srel ≠ 0 := hs.ne'
  refine tie_by_steps (fun n => ChiGen.gen_M_dsigma0 n p srel ybar obs S)
    (fun n => multDSrel n srel ybar obs) n ?_ (fun m hm => ?_)
  · tie_solve [ChiGen.gen_M_dsigma0, multDSrel]
  · have hym : ybar m ≠ 0 := hy m hm
    tie_solve [ChiGen.gen_M_dsigma0, multDSrel]

/-! ## cm -/

theorem Tie_cm_ll (n p : ℕ) (sb sr : ℝ) (hb : 0 < sb) (hr : 0 < sr) (ybar obs : ℕ → ℝ) (S : ℕ → ℕ → ℝ) (ht : ∀ j, j < n → sb + sr * ybar j ≠ 0) :
    ChiGen.gen_CM_ll n p sb sr ybar obs S = cmLLraw n sb sr ybar obs := by
  have hb0 : sb ≠ 0 := hb.ne'
  have hr0 : sr ≠ 0 := hr.ne'
  refine tie_by_steps (fun n => ChiGen.gen_CM_ll n p sb sr ybar obs S)
    (fun n => cmLLraw n sb sr ybar obs) n ?_ (fun m hm => ?_)
  · tie_solve [ChiGen.gen_CM_ll, cmLLraw]
  · have ht1 : sb + sr * ybar m ≠ 0 := ht m hm
    have ht2 : sr * ybar m + sb ≠ 0 := by rwa [add_comm] at ht1
    have ht3 : sb + ybar m * sr ≠ 0 := by rwa [mul_comm] at ht1
    have ht4 : ybar m * sr + sb ≠ 0 := by rwa [add_comm] at ht3
    tie_solve [ChiGen.gen_CM_ll, cmLLraw]

theorem Tie_cm_pointwise (n p : ℕ) (sb sr : ℝ) (hb : 0 < sb) (hr : 0 < sr) (ybar obs : ℕ → ℝ) (S : ℕ → ℕ → ℝ) (j : ℕ) (hj : j < n) (ht : ∀ j, j < n → sb + sr * ybar j ≠ 0) :
    ChiGen.gen_CM_pw n p sb sr ybar obs S j = cmPW sb sr ybar obs j := by
  have hb0 : sb ≠ 0 := hb.ne'
  have hr0 : sr ≠ 0 := hr.ne'
  have ht1 : sb + sr * ybar j ≠ 0 := ht j hj
  have ht2 : sr * ybar j + sb ≠ 0 := by rwa [add_comm] at ht1
  have ht3 : sb + ybar j * sr ≠ 0 := by rwa [mul_comm] at ht1
  have ht4 : ybar j * sr + sb ≠ 0 := by rwa [add_comm] at ht3
  tie_solve [ChiGen.gen_CM_pw, cmPW]

theorem Tie_cm_s1 (n p : ℕ) (sb sr : ℝ) (hb : 0 < sb) (hr : 0 < sr) (ybar obs : ℕ → ℝ) (S : ℕ → ℕ → ℝ) (ht : ∀ j, j < n → sb + sr * ybar j ≠ 0) :
    ChiGen.gen_CM_s1 n p sb sr ybar obs S = cmLLraw n sb sr ybar obs := by
  have hb0 : sb ≠ 0 := hb.ne'
  have hr0 : sr ≠ 0 := hr.ne'
  refine tie_by_steps (fun n => ChiGen.gen_CM_s1 n p sb sr ybar obs S)
    (fun n => cmLLraw n sb sr ybar obs) n ?_ (fun m hm => ?_)
  · tie_solve [ChiGen.gen_CM_s1, cmLLraw]
  · have ht1 : sb + sr * ybar m ≠ 0 := ht m hm
    have ht2 : sr * ybar m + sb ≠ 0 := by rwa [add_comm] at ht1
    have ht3 : sb + ybar m * sr ≠ 0 := by rwa [mul_comm] at ht1
    have ht4 : ybar m * sr + sb ≠ 0 := by rwa [add_comm] at ht3
    tie_solve [ChiGen.gen_CM_s1, cmLLraw]

theorem Tie_cm_dpsi (n p : ℕ) (sb sr : ℝ) (hb : 0 < sb) (hr : 0 < sr) (ybar obs : ℕ → ℝ) (S : ℕ → ℕ → ℝ) (k : ℕ) (ht : ∀ j, j < n → sb + sr * ybar j ≠ 0) :
    ChiGen.gen_CM_dpsi n p sb sr ybar obs S k = cmDPsi n sb sr ybar obs S k := by
  have hb0 : sb ≠ 0 := hb.ne'
  have hr0 : sr ≠ 0 := hr.ne'
  refine tie_by_steps (fun n => ChiGen.gen_CM_dpsi n p sb sr ybar obs S k)
    (fun n => cmDPsi n sb sr ybar obs S k) n ?_ (fun m hm => ?_)
  · tie_solve [ChiGen.gen_CM_dpsi, cmDPsi]
  · have ht1 : sb + sr * ybar m ≠ 0 := ht m hm
    have ht2 : sr * ybar m + sb ≠ 0 := by rwa [add_comm] at ht1
    have ht3 : sb + ybar m * sr ≠ 0 := by rwa [mul_comm] at ht1
    have ht4 : ybar m * sr + sb ≠ 0 := by rwa [add_comm] at ht3
    tie_solve [ChiGen.gen_CM_dpsi, cmDPsi]

theorem Tie_cm_dsigma_base (n p : ℕ) (sb sr : ℝ) (hb : 0 < sb) (hr : 0 < sr) (ybar obs : ℕ → ℝ) (S : ℕ → ℕ → ℝ) (ht : ∀ j, j < n → sb + sr * ybar j ≠ 0) :
    ChiGen.gen_CM_dsigma0 n p sb sr ybar obs S = cmDSb n sb sr ybar obs := by
  have hb0 : sb ≠ 0 := hb.ne'
  have hr0 : sr ≠ 0 := hr.ne'
  refine tie_by_steps (fun n => ChiGen.gen_CM_dsigma0 n p sb sr ybar obs S)
    (fun n => cmDSb n sb sr ybar obs) n ?_ (fun m hm => ?_)
  · tie_solve [ChiGen.gen_CM_dsigma0, cmDSb]
  · have ht1 : sb + sr * ybar m ≠ 0 := ht m hm
    have ht2 : sr * ybar m + sb ≠ 0 := by rwa [add_comm] at ht1
    have ht3 : sb + ybar m * sr ≠ 0 := by rwa [mul_comm] at ht1
    have ht4 : ybar m * sr + sb ≠ 0 := by rwa [add_comm] at ht3
    tie_solve [ChiGen.gen_CM_dsigma0, cmDSb]

theorem Tie_cm_dsigma_rel (n p : ℕ) (sb sr : ℝ) (hb : 0 < sb) (hr : 0 < sr) (ybar obs : ℕ → ℝ) (S : ℕ → ℕ → ℝ) (ht : ∀ j, j < n → sb + sr * ybar j ≠ 0) :
    ChiGen.gen_CM_dsigma1 n p sb sr ybar obs S = cmDSr n sb sr ybar obs := by
  have hb0 : sb ≠ 0 := hb.ne'
  have hr0 : sr ≠ 0 := hr.ne'
  refine tie_by_steps (fun n => ChiGen.gen_CM_dsigma1 n p sb sr ybar obs S)
    (fun n => cmDSr n sb sr ybar obs) n ?_ (fun m hm => ?_)
  · tie_solve [ChiGen.gen_CM_dsigma1, cmDSr]
  · have ht1 : sb + sr * ybar m ≠ 0 := ht m hm
    have ht2 : sr * ybar m + sb ≠ 0 := by rwa [add_comm] at ht1
    have ht3 : sb + ybar m * sr ≠ 0 := by rwa [mul_comm] at ht1
    have ht4 : ybar m * sr + sb ≠ 0 := by rwa [add_comm] at ht3
    tie_solve [ChiGen.gen_CM_dsigma1, cmDSr]

/-! ## ln -/

theorem Tie_ln_ll (n p : ℕ) (sigma : ℝ) (hs : 0 < sigma) (ybar obs : ℕ → ℝ) (S : ℕ → ℕ → ℝ) (hy : ∀ j, j < n → 0 < ybar j) :
    ChiGen.gen_LN_ll n p sigma ybar obs S = lnLLraw n sigma ybar obs := by
  have hs0 : sigma ≠ 0 := hs.ne'
  refine tie_by_steps (fun n => ChiGen.gen_LN_ll n p sigma ybar obs S)
    (fun n => lnLLraw n sigma ybar obs) n ?_ (fun m hm => ?_)
  · tie_solve [ChiGen.gen_LN_ll, lnLLraw]
  · have hym : ybar m ≠ 0 := (hy m hm).ne'
    tie_solve [ChiGen.gen_LN_ll, lnLLraw]

theorem Tie_ln_pointwise (n p : ℕ) (sigma : ℝ) (hs : 0 < sigma) (ybar obs : ℕ → ℝ) (S : ℕ → ℕ → ℝ) (j : ℕ) (hj : j < n) (hy : ∀ j, j < n → 0 < ybar j) :
    ChiGen.gen_LN_pw n p sigma ybar obs S j = lnPW sigma ybar obs j := by
  have hs0 : sigma ≠ 0 := hs.ne'
  have hym : ybar j ≠ 0 := (hy j hj).ne'
  tie_solve [ChiGen.gen_LN_pw, lnPW]

theorem Tie_ln_s1 (n p : ℕ) (sigma : ℝ) (hs : 0 < sigma) (ybar obs : ℕ → ℝ) (S : ℕ → ℕ → ℝ) (hy : ∀ j, j < n → 0 < ybar j) :
    ChiGen.gen_LN_s1 n p sigma ybar obs S = lnLLraw n sigma ybar obs := by
  have hs0 : sigma ≠ 0 := hs.ne'
  refine tie_by_steps (fun n => ChiGen.gen_LN_s1 n p sigma ybar obs S)
    (fun n => lnLLraw n sigma ybar obs) n ?_ (fun m hm => ?_)
  · tie_solve [ChiGen.gen_LN_s1, lnLLraw]
  · have hym : ybar m ≠ 0 := (hy m hm).ne'
    tie_solve [ChiGen.gen_LN_s1, lnLLraw]

theorem Tie_ln_dpsi (n p : ℕ) (sigma : ℝ) (hs : 0 < sigma) (ybar obs : ℕ → ℝ) (S : ℕ → ℕ → ℝ) (k : ℕ) (hy : ∀ j, j < n → 0 < ybar j) :
    ChiGen.gen_LN_dpsi n p sigma ybar obs S k = lnDPsi n sigma ybar obs S k := by
  have hs0 : sigma ≠ 0 := hs.ne'
  refine tie_by_steps (fun n => ChiGen.gen_LN_dpsi n p sigma ybar obs S k)
    (fun n => lnDPsi n sigma ybar obs S k) n ?_ (fun m hm => ?_)
  · tie_solve [ChiGen.gen_LN_dpsi, lnDPsi]
  · have hym : ybar m ≠ 0 := (hy m hm).ne'
    tie_solve [ChiGen.gen_LN_dpsi, lnDPsi]

theorem Tie_ln_dsigma (n p : ℕ) (sigma : ℝ) (hs : 0 < sigma) (ybar obs : ℕ → ℝ) (S : ℕ → ℕ → ℝ) (hy : ∀ j, j < n → 0 < ybar j) :
    ChiGen.gen_LN_dsigma0 n p sigma ybar obs S = lnDSigma n sigma ybar obs := by
  have hs0 : sigma ≠ 0 := hs.ne'
  refine tie_by_steps (fun n => ChiGen.gen_LN_dsigma0 n p sigma ybar obs S)
    (fun n => lnDSigma n sigma ybar obs) n ?_ (fun m hm => ?_)
  · tie_solve [ChiGen.gen_LN_dsigma0, lnDSigma]
  · have hym : ybar m ≠ 0 := (hy m hm).ne'
    tie_solve [ChiGen.gen_LN_dsigma0, lnDSigma]

end ChiModel
