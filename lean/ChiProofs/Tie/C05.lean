import ChiProofs.Tie.Basic
import ChiProofs.Lemmas.PopCalculus
import ChiGen.PopModels
/-!
# The source-derived tie for C05: generated population-model kernels = hand-written model

`ChiGen.gen_P*` are the formulas traced from `chi/_population_models.py` (see `harness/srctie_pop.py`): the public
`compute_log_likelihood` / `compute_sensitivities` of `GaussianModel`, `LogNormalModel` (centred and non-centred) and
`TruncatedGaussianModel`, entered with the FLAT parameter vector; `theta p d` stands for `parameters[p * n_dim + d]`.
The right-hand sides are the hand-written model the C05 theorems are about: `gaussCLLraw`, `lognCLLraw`, `truncLLraw`,
`stdNormalLL` (`ChiModel/PopModels.lean`, `PopSens.lean`: the `.val` branches of `popLL`) and the fields of `popSens`
as `popSens_gauss` … `popSens_lognNC` (`Lemmas/PopCalculus.lean`) unfold them under the support hypotheses:
`dpsi = addUp up (gcDPsi …)`, `dtheta i 0 d = gcDMu …`, `dtheta i 1 d = gcDStd …`, flattened: `flatTheta` = the sums
over `i < nIds`. Hypotheses: the negations of the support guards (`any(sigma < 0)`; `any(sigma <= 0)`) plus what the
divisions need (`sigma ≠ 0`, log-normal: `psi ≠ 0`). For every `nIds`, `nDim`, parameter, observation and upstream
sensitivity.

THE PROOF SCRIPTS DO NOT LOOK AT THE SHAPE OF THE GENERATED TERM (see `Tie/Basic.lean`; double sums:
`tie_by_steps2`): `harness/srctie_pop.py` re-runs this file unchanged against re-generated definitions when the
Python source was rewritten. Everything below the imports is reused verbatim for that.
-/
set_option linter.unusedSectionVars false
set_option linter.unusedVariables false
set_option linter.unusedTactic false
set_option linter.unreachableTactic false
namespace ChiModel
open ScalarFns

/-! ## gauss -/

theorem Tie_pop_gauss_ll (nIds nDim : ℕ) (theta psi up : ℕ → ℕ → ℝ) (hs : ∀ d, d < nDim → 0 < theta 1 d) :
    ChiGen.gen_PG_ll nIds nDim theta psi up
      = gaussCLLraw nIds nDim (fun _ d => theta 0 d) (fun _ d => theta 1 d) psi := by
  refine tie_by_steps2 (fun nIds nDim => ChiGen.gen_PG_ll nIds nDim theta psi up)
    (fun nIds nDim => gaussCLLraw nIds nDim (fun _ d => theta 0 d) (fun _ d => theta 1 d) psi) nIds nDim
    ?_ (fun k hk => ?_) (fun e he => ?_) (fun k e hk he => ?_)
  · tie_solve [ChiGen.gen_PG_ll, gaussCLLraw, gaussCTerm, gcDPsi, gcDMu, gcDStd, isum2, zero, oneS, upAt]
  · tie_solve [ChiGen.gen_PG_ll, gaussCLLraw, gaussCTerm, gcDPsi, gcDMu, gcDStd, isum2, zero, oneS, upAt]
  · have hse : theta 1 e ≠ 0 := (hs e he).ne'
    have hsq : Real.sqrt (theta 1 e * theta 1 e) = theta 1 e := Real.sqrt_mul_self (hs e he).le
    tie_solve [ChiGen.gen_PG_ll, gaussCLLraw, gaussCTerm, gcDPsi, gcDMu, gcDStd, isum2, zero, oneS, upAt, hsq]
  · have hse : theta 1 e ≠ 0 := (hs e he).ne'
    have hsq : Real.sqrt (theta 1 e * theta 1 e) = theta 1 e := Real.sqrt_mul_self (hs e he).le
    tie_solve [ChiGen.gen_PG_ll, gaussCLLraw, gaussCTerm, gcDPsi, gcDMu, gcDStd, isum2, zero, oneS, upAt, hsq]

theorem Tie_pop_gauss_s1 (nIds nDim : ℕ) (theta psi up : ℕ → ℕ → ℝ) (hs : ∀ d, d < nDim → 0 < theta 1 d) :
    ChiGen.gen_PG_s1 nIds nDim theta psi up
      = gaussCLLraw nIds nDim (fun _ d => theta 0 d) (fun _ d => theta 1 d) psi := by
  refine tie_by_steps2 (fun nIds nDim => ChiGen.gen_PG_s1 nIds nDim theta psi up)
    (fun nIds nDim => gaussCLLraw nIds nDim (fun _ d => theta 0 d) (fun _ d => theta 1 d) psi) nIds nDim
    ?_ (fun k hk => ?_) (fun e he => ?_) (fun k e hk he => ?_)
  · tie_solve [ChiGen.gen_PG_s1, gaussCLLraw, gaussCTerm, gcDPsi, gcDMu, gcDStd, isum2, zero, oneS, upAt]
  · tie_solve [ChiGen.gen_PG_s1, gaussCLLraw, gaussCTerm, gcDPsi, gcDMu, gcDStd, isum2, zero, oneS, upAt]
  · have hse : theta 1 e ≠ 0 := (hs e he).ne'
    have hsq : Real.sqrt (theta 1 e * theta 1 e) = theta 1 e := Real.sqrt_mul_self (hs e he).le
    tie_solve [ChiGen.gen_PG_s1, gaussCLLraw, gaussCTerm, gcDPsi, gcDMu, gcDStd, isum2, zero, oneS, upAt, hsq]
  · have hse : theta 1 e ≠ 0 := (hs e he).ne'
    have hsq : Real.sqrt (theta 1 e * theta 1 e) = theta 1 e := Real.sqrt_mul_self (hs e he).le
    tie_solve [ChiGen.gen_PG_s1, gaussCLLraw, gaussCTerm, gcDPsi, gcDMu, gcDStd, isum2, zero, oneS, upAt, hsq]

theorem Tie_pop_gauss_dpsi_up (nIds nDim : ℕ) (theta psi up : ℕ → ℕ → ℝ) (hs : ∀ d, d < nDim → 0 < theta 1 d) (i d : ℕ) (hi : i < nIds) (hd : d < nDim) :
    ChiGen.gen_PG_dpsiup nIds nDim theta psi up i d
      = gcDPsi (theta 0 d) (theta 1 d) (psi i d) + upAt (some up) i d := by
  have hse : theta 1 d ≠ 0 := (hs d hd).ne'
  have hsq : Real.sqrt (theta 1 d * theta 1 d) = theta 1 d := Real.sqrt_mul_self (hs d hd).le
  tie_solve [ChiGen.gen_PG_dpsiup, gaussCLLraw, gaussCTerm, gcDPsi, gcDMu, gcDStd, isum2, zero, oneS, upAt, hsq]

theorem Tie_pop_gauss_dmu (nIds nDim : ℕ) (theta psi up : ℕ → ℕ → ℝ) (hs : ∀ d, d < nDim → 0 < theta 1 d) (d : ℕ) (hd : d < nDim) :
    ChiGen.gen_PG_dmu nIds nDim theta psi up d
      = isum nIds (fun i => gcDMu (theta 0 d) (theta 1 d) (psi i d)) := by
  have hse : theta 1 d ≠ 0 := (hs d hd).ne'
  have hsq : Real.sqrt (theta 1 d * theta 1 d) = theta 1 d := Real.sqrt_mul_self (hs d hd).le
  refine tie_by_steps (fun nIds => ChiGen.gen_PG_dmu nIds nDim theta psi up d)
    (fun nIds => isum nIds (fun i => gcDMu (theta 0 d) (theta 1 d) (psi i d))) nIds ?_ (fun m hm => ?_)
  · tie_solve [ChiGen.gen_PG_dmu, gaussCLLraw, gaussCTerm, gcDPsi, gcDMu, gcDStd, isum2, zero, oneS, upAt, hsq]
  · tie_solve [ChiGen.gen_PG_dmu, gaussCLLraw, gaussCTerm, gcDPsi, gcDMu, gcDStd, isum2, zero, oneS, upAt, hsq]

theorem Tie_pop_gauss_dsigma (nIds nDim : ℕ) (theta psi up : ℕ → ℕ → ℝ) (hs : ∀ d, d < nDim → 0 < theta 1 d) (d : ℕ) (hd : d < nDim) :
    ChiGen.gen_PG_dsigma nIds nDim theta psi up d
      = isum nIds (fun i => gcDStd (theta 0 d) (theta 1 d) (psi i d)) := by
  have hse : theta 1 d ≠ 0 := (hs d hd).ne'
  have hsq : Real.sqrt (theta 1 d * theta 1 d) = theta 1 d := Real.sqrt_mul_self (hs d hd).le
  refine tie_by_steps (fun nIds => ChiGen.gen_PG_dsigma nIds nDim theta psi up d)
    (fun nIds => isum nIds (fun i => gcDStd (theta 0 d) (theta 1 d) (psi i d))) nIds ?_ (fun m hm => ?_)
  · tie_solve [ChiGen.gen_PG_dsigma, gaussCLLraw, gaussCTerm, gcDPsi, gcDMu, gcDStd, isum2, zero, oneS, upAt, hsq]
  · tie_solve [ChiGen.gen_PG_dsigma, gaussCLLraw, gaussCTerm, gcDPsi, gcDMu, gcDStd, isum2, zero, oneS, upAt, hsq]

theorem Tie_pop_gauss_dpsi (nIds nDim : ℕ) (theta psi up : ℕ → ℕ → ℝ) (hs : ∀ d, d < nDim → 0 < theta 1 d) (i d : ℕ) (hi : i < nIds) (hd : d < nDim) :
    ChiGen.gen_PG_dpsi nIds nDim theta psi up i d
      = gcDPsi (theta 0 d) (theta 1 d) (psi i d) := by
  have hse : theta 1 d ≠ 0 := (hs d hd).ne'
  have hsq : Real.sqrt (theta 1 d * theta 1 d) = theta 1 d := Real.sqrt_mul_self (hs d hd).le
  tie_solve [ChiGen.gen_PG_dpsi, gaussCLLraw, gaussCTerm, gcDPsi, gcDMu, gcDStd, isum2, zero, oneS, upAt, hsq]

theorem Tie_pop_gauss_dmu_i (nIds nDim : ℕ) (theta psi up : ℕ → ℕ → ℝ) (hs : ∀ d, d < nDim → 0 < theta 1 d) (i d : ℕ) (hi : i < nIds) (hd : d < nDim) :
    ChiGen.gen_PG_dmui nIds nDim theta psi up i d
      = gcDMu (theta 0 d) (theta 1 d) (psi i d) := by
  have hse : theta 1 d ≠ 0 := (hs d hd).ne'
  have hsq : Real.sqrt (theta 1 d * theta 1 d) = theta 1 d := Real.sqrt_mul_self (hs d hd).le
  tie_solve [ChiGen.gen_PG_dmui, gaussCLLraw, gaussCTerm, gcDPsi, gcDMu, gcDStd, isum2, zero, oneS, upAt, hsq]

theorem Tie_pop_gauss_dsigma_i (nIds nDim : ℕ) (theta psi up : ℕ → ℕ → ℝ) (hs : ∀ d, d < nDim → 0 < theta 1 d) (i d : ℕ) (hi : i < nIds) (hd : d < nDim) :
    ChiGen.gen_PG_dsigmai nIds nDim theta psi up i d
      = gcDStd (theta 0 d) (theta 1 d) (psi i d) := by
  have hse : theta 1 d ≠ 0 := (hs d hd).ne'
  have hsq : Real.sqrt (theta 1 d * theta 1 d) = theta 1 d := Real.sqrt_mul_self (hs d hd).le
  tie_solve [ChiGen.gen_PG_dsigmai, gaussCLLraw, gaussCTerm, gcDPsi, gcDMu, gcDStd, isum2, zero, oneS, upAt, hsq]

/-! ## gaussNC -/

theorem Tie_pop_gaussNC_ll (nIds nDim : ℕ) (theta psi up : ℕ → ℕ → ℝ) (hs : ∀ d, d < nDim → 0 ≤ theta 1 d) :
    ChiGen.gen_PGn_ll nIds nDim theta psi up
      = stdNormalLL nIds nDim psi := by
  refine tie_by_steps2 (fun nIds nDim => ChiGen.gen_PGn_ll nIds nDim theta psi up)
    (fun nIds nDim => stdNormalLL nIds nDim psi) nIds nDim
    ?_ (fun k hk => ?_) (fun e he => ?_) (fun k e hk he => ?_)
  · tie_solve [ChiGen.gen_PGn_ll, stdNormalLL, isum2, zero, oneS, upAt]
  · tie_solve [ChiGen.gen_PGn_ll, stdNormalLL, isum2, zero, oneS, upAt]
  · tie_solve [ChiGen.gen_PGn_ll, stdNormalLL, isum2, zero, oneS, upAt]
  · tie_solve [ChiGen.gen_PGn_ll, stdNormalLL, isum2, zero, oneS, upAt]

theorem Tie_pop_gaussNC_s1 (nIds nDim : ℕ) (theta psi up : ℕ → ℕ → ℝ) (hs : ∀ d, d < nDim → 0 ≤ theta 1 d) :
    ChiGen.gen_PGn_s1 nIds nDim theta psi up
      = stdNormalLL nIds nDim psi := by
  refine tie_by_steps2 (fun nIds nDim => ChiGen.gen_PGn_s1 nIds nDim theta psi up)
    (fun nIds nDim => stdNormalLL nIds nDim psi) nIds nDim
    ?_ (fun k hk => ?_) (fun e he => ?_) (fun k e hk he => ?_)
  · tie_solve [ChiGen.gen_PGn_s1, stdNormalLL, isum2, zero, oneS, upAt]
  · tie_solve [ChiGen.gen_PGn_s1, stdNormalLL, isum2, zero, oneS, upAt]
  · tie_solve [ChiGen.gen_PGn_s1, stdNormalLL, isum2, zero, oneS, upAt]
  · tie_solve [ChiGen.gen_PGn_s1, stdNormalLL, isum2, zero, oneS, upAt]

theorem Tie_pop_gaussNC_dpsi_up (nIds nDim : ℕ) (theta psi up : ℕ → ℕ → ℝ) (hs : ∀ d, d < nDim → 0 ≤ theta 1 d) (i d : ℕ) (hi : i < nIds) (hd : d < nDim) :
    ChiGen.gen_PGn_dpsiup nIds nDim theta psi up i d
      = upAt (some up) i d * theta 1 d + (zero - psi i d) / oneS := by
  tie_solve [ChiGen.gen_PGn_dpsiup, stdNormalLL, isum2, zero, oneS, upAt]

theorem Tie_pop_gaussNC_dmu (nIds nDim : ℕ) (theta psi up : ℕ → ℕ → ℝ) (hs : ∀ d, d < nDim → 0 ≤ theta 1 d) (d : ℕ) (hd : d < nDim) :
    ChiGen.gen_PGn_dmu nIds nDim theta psi up d
      = isum nIds (fun i => upAt (some up) i d * oneS) := by
  refine tie_by_steps (fun nIds => ChiGen.gen_PGn_dmu nIds nDim theta psi up d)
    (fun nIds => isum nIds (fun i => upAt (some up) i d * oneS)) nIds ?_ (fun m hm => ?_)
  · tie_solve [ChiGen.gen_PGn_dmu, stdNormalLL, isum2, zero, oneS, upAt]
  · tie_solve [ChiGen.gen_PGn_dmu, stdNormalLL, isum2, zero, oneS, upAt]

theorem Tie_pop_gaussNC_dsigma (nIds nDim : ℕ) (theta psi up : ℕ → ℕ → ℝ) (hs : ∀ d, d < nDim → 0 ≤ theta 1 d) (d : ℕ) (hd : d < nDim) :
    ChiGen.gen_PGn_dsigma nIds nDim theta psi up d
      = isum nIds (fun i => upAt (some up) i d * psi i d) := by
  refine tie_by_steps (fun nIds => ChiGen.gen_PGn_dsigma nIds nDim theta psi up d)
    (fun nIds => isum nIds (fun i => upAt (some up) i d * psi i d)) nIds ?_ (fun m hm => ?_)
  · tie_solve [ChiGen.gen_PGn_dsigma, stdNormalLL, isum2, zero, oneS, upAt]
  · tie_solve [ChiGen.gen_PGn_dsigma, stdNormalLL, isum2, zero, oneS, upAt]

theorem Tie_pop_gaussNC_dpsi (nIds nDim : ℕ) (theta psi up : ℕ → ℕ → ℝ) (hs : ∀ d, d < nDim → 0 ≤ theta 1 d) (i d : ℕ) (hi : i < nIds) (hd : d < nDim) :
    ChiGen.gen_PGn_dpsi nIds nDim theta psi up i d
      = upAt none i d * theta 1 d + (zero - psi i d) / oneS := by
  tie_solve [ChiGen.gen_PGn_dpsi, stdNormalLL, isum2, zero, oneS, upAt]

theorem Tie_pop_gaussNC_dmu_i (nIds nDim : ℕ) (theta psi up : ℕ → ℕ → ℝ) (hs : ∀ d, d < nDim → 0 ≤ theta 1 d) (i d : ℕ) (hi : i < nIds) (hd : d < nDim) :
    ChiGen.gen_PGn_dmui nIds nDim theta psi up i d
      = upAt none i d * oneS := by
  tie_solve [ChiGen.gen_PGn_dmui, stdNormalLL, isum2, zero, oneS, upAt]

theorem Tie_pop_gaussNC_dsigma_i (nIds nDim : ℕ) (theta psi up : ℕ → ℕ → ℝ) (hs : ∀ d, d < nDim → 0 ≤ theta 1 d) (i d : ℕ) (hi : i < nIds) (hd : d < nDim) :
    ChiGen.gen_PGn_dsigmai nIds nDim theta psi up i d
      = upAt none i d * psi i d := by
  tie_solve [ChiGen.gen_PGn_dsigmai, stdNormalLL, isum2, zero, oneS, upAt]

/-! ## logn -/

theorem Tie_pop_logn_ll (nIds nDim : ℕ) (theta psi up : ℕ → ℕ → ℝ) (hs : ∀ d, d < nDim → 0 < theta 1 d) (hpsi : ∀ i d, i < nIds → d < nDim → 0 < psi i d) :
    ChiGen.gen_PL_ll nIds nDim theta psi up
      = lognCLLraw nIds nDim (fun _ d => theta 0 d) (fun _ d => theta 1 d) psi := by
  refine tie_by_steps2 (fun nIds nDim => ChiGen.gen_PL_ll nIds nDim theta psi up)
    (fun nIds nDim => lognCLLraw nIds nDim (fun _ d => theta 0 d) (fun _ d => theta 1 d) psi) nIds nDim
    ?_ (fun k hk => ?_) (fun e he => ?_) (fun k e hk he => ?_)
  · tie_solve [ChiGen.gen_PL_ll, lognCLLraw, lognCTerm, lcDPsi, lcDMu, lcDStd, isum2, zero, oneS, upAt]
  · tie_solve [ChiGen.gen_PL_ll, lognCLLraw, lognCTerm, lcDPsi, lcDMu, lcDStd, isum2, zero, oneS, upAt]
  · have hse : theta 1 e ≠ 0 := (hs e he).ne'
    have hsq : Real.sqrt (theta 1 e * theta 1 e) = theta 1 e := Real.sqrt_mul_self (hs e he).le
    tie_solve [ChiGen.gen_PL_ll, lognCLLraw, lognCTerm, lcDPsi, lcDMu, lcDStd, isum2, zero, oneS, upAt, hsq]
  · have hse : theta 1 e ≠ 0 := (hs e he).ne'
    have hsq : Real.sqrt (theta 1 e * theta 1 e) = theta 1 e := Real.sqrt_mul_self (hs e he).le
    have hpe : psi k e ≠ 0 := (hpsi k e hk he).ne'
    tie_solve [ChiGen.gen_PL_ll, lognCLLraw, lognCTerm, lcDPsi, lcDMu, lcDStd, isum2, zero, oneS, upAt, hsq]

theorem Tie_pop_logn_s1 (nIds nDim : ℕ) (theta psi up : ℕ → ℕ → ℝ) (hs : ∀ d, d < nDim → 0 < theta 1 d) (hpsi : ∀ i d, i < nIds → d < nDim → 0 < psi i d) :
    ChiGen.gen_PL_s1 nIds nDim theta psi up
      = lognCLLraw nIds nDim (fun _ d => theta 0 d) (fun _ d => theta 1 d) psi := by
  refine tie_by_steps2 (fun nIds nDim => ChiGen.gen_PL_s1 nIds nDim theta psi up)
    (fun nIds nDim => lognCLLraw nIds nDim (fun _ d => theta 0 d) (fun _ d => theta 1 d) psi) nIds nDim
    ?_ (fun k hk => ?_) (fun e he => ?_) (fun k e hk he => ?_)
  · tie_solve [ChiGen.gen_PL_s1, lognCLLraw, lognCTerm, lcDPsi, lcDMu, lcDStd, isum2, zero, oneS, upAt]
  · tie_solve [ChiGen.gen_PL_s1, lognCLLraw, lognCTerm, lcDPsi, lcDMu, lcDStd, isum2, zero, oneS, upAt]
  · have hse : theta 1 e ≠ 0 := (hs e he).ne'
    have hsq : Real.sqrt (theta 1 e * theta 1 e) = theta 1 e := Real.sqrt_mul_self (hs e he).le
    tie_solve [ChiGen.gen_PL_s1, lognCLLraw, lognCTerm, lcDPsi, lcDMu, lcDStd, isum2, zero, oneS, upAt, hsq]
  · have hse : theta 1 e ≠ 0 := (hs e he).ne'
    have hsq : Real.sqrt (theta 1 e * theta 1 e) = theta 1 e := Real.sqrt_mul_self (hs e he).le
    have hpe : psi k e ≠ 0 := (hpsi k e hk he).ne'
    tie_solve [ChiGen.gen_PL_s1, lognCLLraw, lognCTerm, lcDPsi, lcDMu, lcDStd, isum2, zero, oneS, upAt, hsq]

theorem Tie_pop_logn_dpsi_up (nIds nDim : ℕ) (theta psi up : ℕ → ℕ → ℝ) (hs : ∀ d, d < nDim → 0 < theta 1 d) (hpsi : ∀ i d, i < nIds → d < nDim → 0 < psi i d) (i d : ℕ) (hi : i < nIds) (hd : d < nDim) :
    ChiGen.gen_PL_dpsiup nIds nDim theta psi up i d
      = lcDPsi (theta 0 d) (theta 1 d) (psi i d) + upAt (some up) i d := by
  have hse : theta 1 d ≠ 0 := (hs d hd).ne'
  have hsq : Real.sqrt (theta 1 d * theta 1 d) = theta 1 d := Real.sqrt_mul_self (hs d hd).le
  have hpe : psi i d ≠ 0 := (hpsi i d hi hd).ne'
  tie_solve [ChiGen.gen_PL_dpsiup, lognCLLraw, lognCTerm, lcDPsi, lcDMu, lcDStd, isum2, zero, oneS, upAt, hsq]

theorem Tie_pop_logn_dmu (nIds nDim : ℕ) (theta psi up : ℕ → ℕ → ℝ) (hs : ∀ d, d < nDim → 0 < theta 1 d) (hpsi : ∀ i d, i < nIds → d < nDim → 0 < psi i d) (d : ℕ) (hd : d < nDim) :
    ChiGen.gen_PL_dmu nIds nDim theta psi up d
      = isum nIds (fun i => lcDMu (theta 0 d) (theta 1 d) (psi i d)) := by
  have hse : theta 1 d ≠ 0 := (hs d hd).ne'
  have hsq : Real.sqrt (theta 1 d * theta 1 d) = theta 1 d := Real.sqrt_mul_self (hs d hd).le
  refine tie_by_steps (fun nIds => ChiGen.gen_PL_dmu nIds nDim theta psi up d)
    (fun nIds => isum nIds (fun i => lcDMu (theta 0 d) (theta 1 d) (psi i d))) nIds ?_ (fun m hm => ?_)
  · tie_solve [ChiGen.gen_PL_dmu, lognCLLraw, lognCTerm, lcDPsi, lcDMu, lcDStd, isum2, zero, oneS, upAt, hsq]
  · have hpe : psi m d ≠ 0 := (hpsi m d hm hd).ne'
    tie_solve [ChiGen.gen_PL_dmu, lognCLLraw, lognCTerm, lcDPsi, lcDMu, lcDStd, isum2, zero, oneS, upAt, hsq]

theorem Tie_pop_logn_dsigma (nIds nDim : ℕ) (theta psi up : ℕ → ℕ → ℝ) (hs : ∀ d, d < nDim → 0 < theta 1 d) (hpsi : ∀ i d, i < nIds → d < nDim → 0 < psi i d) (d : ℕ) (hd : d < nDim) :
    ChiGen.gen_PL_dsigma nIds nDim theta psi up d
      = isum nIds (fun i => lcDStd (theta 0 d) (theta 1 d) (psi i d)) := by
  have hse : theta 1 d ≠ 0 := (hs d hd).ne'
  have hsq : Real.sqrt (theta 1 d * theta 1 d) = theta 1 d := Real.sqrt_mul_self (hs d hd).le
  refine tie_by_steps (fun nIds => ChiGen.gen_PL_dsigma nIds nDim theta psi up d)
    (fun nIds => isum nIds (fun i => lcDStd (theta 0 d) (theta 1 d) (psi i d))) nIds ?_ (fun m hm => ?_)
  · tie_solve [ChiGen.gen_PL_dsigma, lognCLLraw, lognCTerm, lcDPsi, lcDMu, lcDStd, isum2, zero, oneS, upAt, hsq]
  · have hpe : psi m d ≠ 0 := (hpsi m d hm hd).ne'
    tie_solve [ChiGen.gen_PL_dsigma, lognCLLraw, lognCTerm, lcDPsi, lcDMu, lcDStd, isum2, zero, oneS, upAt, hsq]

theorem Tie_pop_logn_dpsi (nIds nDim : ℕ) (theta psi up : ℕ → ℕ → ℝ) (hs : ∀ d, d < nDim → 0 < theta 1 d) (hpsi : ∀ i d, i < nIds → d < nDim → 0 < psi i d) (i d : ℕ) (hi : i < nIds) (hd : d < nDim) :
    ChiGen.gen_PL_dpsi nIds nDim theta psi up i d
      = lcDPsi (theta 0 d) (theta 1 d) (psi i d) := by
  have hse : theta 1 d ≠ 0 := (hs d hd).ne'
  have hsq : Real.sqrt (theta 1 d * theta 1 d) = theta 1 d := Real.sqrt_mul_self (hs d hd).le
  have hpe : psi i d ≠ 0 := (hpsi i d hi hd).ne'
  tie_solve [ChiGen.gen_PL_dpsi, lognCLLraw, lognCTerm, lcDPsi, lcDMu, lcDStd, isum2, zero, oneS, upAt, hsq]

theorem Tie_pop_logn_dmu_i (nIds nDim : ℕ) (theta psi up : ℕ → ℕ → ℝ) (hs : ∀ d, d < nDim → 0 < theta 1 d) (hpsi : ∀ i d, i < nIds → d < nDim → 0 < psi i d) (i d : ℕ) (hi : i < nIds) (hd : d < nDim) :
    ChiGen.gen_PL_dmui nIds nDim theta psi up i d
      = lcDMu (theta 0 d) (theta 1 d) (psi i d) := by
  have hse : theta 1 d ≠ 0 := (hs d hd).ne'
  have hsq : Real.sqrt (theta 1 d * theta 1 d) = theta 1 d := Real.sqrt_mul_self (hs d hd).le
  have hpe : psi i d ≠ 0 := (hpsi i d hi hd).ne'
  tie_solve [ChiGen.gen_PL_dmui, lognCLLraw, lognCTerm, lcDPsi, lcDMu, lcDStd, isum2, zero, oneS, upAt, hsq]

theorem Tie_pop_logn_dsigma_i (nIds nDim : ℕ) (theta psi up : ℕ → ℕ → ℝ) (hs : ∀ d, d < nDim → 0 < theta 1 d) (hpsi : ∀ i d, i < nIds → d < nDim → 0 < psi i d) (i d : ℕ) (hi : i < nIds) (hd : d < nDim) :
    ChiGen.gen_PL_dsigmai nIds nDim theta psi up i d
      = lcDStd (theta 0 d) (theta 1 d) (psi i d) := by
  have hse : theta 1 d ≠ 0 := (hs d hd).ne'
  have hsq : Real.sqrt (theta 1 d * theta 1 d) = theta 1 d := Real.sqrt_mul_self (hs d hd).le
  have hpe : psi i d ≠ 0 := (hpsi i d hi hd).ne'
  tie_solve [ChiGen.gen_PL_dsigmai, lognCLLraw, lognCTerm, lcDPsi, lcDMu, lcDStd, isum2, zero, oneS, upAt, hsq]

/-! ## lognNC -/

theorem Tie_pop_lognNC_ll (nIds nDim : ℕ) (theta psi up : ℕ → ℕ → ℝ) (hs : ∀ d, d < nDim → 0 ≤ theta 1 d) :
    ChiGen.gen_PLn_ll nIds nDim theta psi up
      = stdNormalLL nIds nDim psi := by
  refine tie_by_steps2 (fun nIds nDim => ChiGen.gen_PLn_ll nIds nDim theta psi up)
    (fun nIds nDim => stdNormalLL nIds nDim psi) nIds nDim
    ?_ (fun k hk => ?_) (fun e he => ?_) (fun k e hk he => ?_)
  · tie_solve [ChiGen.gen_PLn_ll, stdNormalLL, lnPsi, isum2, zero, oneS, upAt]
  · tie_solve [ChiGen.gen_PLn_ll, stdNormalLL, lnPsi, isum2, zero, oneS, upAt]
  · tie_solve [ChiGen.gen_PLn_ll, stdNormalLL, lnPsi, isum2, zero, oneS, upAt]
  · tie_solve [ChiGen.gen_PLn_ll, stdNormalLL, lnPsi, isum2, zero, oneS, upAt]

theorem Tie_pop_lognNC_s1 (nIds nDim : ℕ) (theta psi up : ℕ → ℕ → ℝ) (hs : ∀ d, d < nDim → 0 ≤ theta 1 d) :
    ChiGen.gen_PLn_s1 nIds nDim theta psi up
      = stdNormalLL nIds nDim psi := by
  refine tie_by_steps2 (fun nIds nDim => ChiGen.gen_PLn_s1 nIds nDim theta psi up)
    (fun nIds nDim => stdNormalLL nIds nDim psi) nIds nDim
    ?_ (fun k hk => ?_) (fun e he => ?_) (fun k e hk he => ?_)
  · tie_solve [ChiGen.gen_PLn_s1, stdNormalLL, lnPsi, isum2, zero, oneS, upAt]
  · tie_solve [ChiGen.gen_PLn_s1, stdNormalLL, lnPsi, isum2, zero, oneS, upAt]
  · tie_solve [ChiGen.gen_PLn_s1, stdNormalLL, lnPsi, isum2, zero, oneS, upAt]
  · tie_solve [ChiGen.gen_PLn_s1, stdNormalLL, lnPsi, isum2, zero, oneS, upAt]

theorem Tie_pop_lognNC_dpsi_up (nIds nDim : ℕ) (theta psi up : ℕ → ℕ → ℝ) (hs : ∀ d, d < nDim → 0 ≤ theta 1 d) (i d : ℕ) (hi : i < nIds) (hd : d < nDim) :
    ChiGen.gen_PLn_dpsiup nIds nDim theta psi up i d
      = upAt (some up) i d * (theta 1 d * lnPsi (theta 0 d) (theta 1 d) (psi i d)) + Neg.neg (psi i d) := by
  tie_solve [ChiGen.gen_PLn_dpsiup, stdNormalLL, lnPsi, isum2, zero, oneS, upAt]

theorem Tie_pop_lognNC_dmu (nIds nDim : ℕ) (theta psi up : ℕ → ℕ → ℝ) (hs : ∀ d, d < nDim → 0 ≤ theta 1 d) (d : ℕ) (hd : d < nDim) :
    ChiGen.gen_PLn_dmu nIds nDim theta psi up d
      = isum nIds (fun i => upAt (some up) i d * lnPsi (theta 0 d) (theta 1 d) (psi i d)) := by
  refine tie_by_steps (fun nIds => ChiGen.gen_PLn_dmu nIds nDim theta psi up d)
    (fun nIds => isum nIds (fun i => upAt (some up) i d * lnPsi (theta 0 d) (theta 1 d) (psi i d))) nIds ?_ (fun m hm => ?_)
  · tie_solve [ChiGen.gen_PLn_dmu, stdNormalLL, lnPsi, isum2, zero, oneS, upAt]
  · tie_solve [ChiGen.gen_PLn_dmu, stdNormalLL, lnPsi, isum2, zero, oneS, upAt]

theorem Tie_pop_lognNC_dsigma (nIds nDim : ℕ) (theta psi up : ℕ → ℕ → ℝ) (hs : ∀ d, d < nDim → 0 ≤ theta 1 d) (d : ℕ) (hd : d < nDim) :
    ChiGen.gen_PLn_dsigma nIds nDim theta psi up d
      = isum nIds (fun i => upAt (some up) i d * (psi i d * lnPsi (theta 0 d) (theta 1 d) (psi i d))) := by
  refine tie_by_steps (fun nIds => ChiGen.gen_PLn_dsigma nIds nDim theta psi up d)
    (fun nIds => isum nIds (fun i => upAt (some up) i d * (psi i d * lnPsi (theta 0 d) (theta 1 d) (psi i d)))) nIds ?_ (fun m hm => ?_)
  · tie_solve [ChiGen.gen_PLn_dsigma, stdNormalLL, lnPsi, isum2, zero, oneS, upAt]
  · tie_solve [ChiGen.gen_PLn_dsigma, stdNormalLL, lnPsi, isum2, zero, oneS, upAt]

theorem Tie_pop_lognNC_dpsi (nIds nDim : ℕ) (theta psi up : ℕ → ℕ → ℝ) (hs : ∀ d, d < nDim → 0 ≤ theta 1 d) (i d : ℕ) (hi : i < nIds) (hd : d < nDim) :
    ChiGen.gen_PLn_dpsi nIds nDim theta psi up i d
      = upAt none i d * (theta 1 d * lnPsi (theta 0 d) (theta 1 d) (psi i d)) + Neg.neg (psi i d) := by
  tie_solve [ChiGen.gen_PLn_dpsi, stdNormalLL, lnPsi, isum2, zero, oneS, upAt]

theorem Tie_pop_lognNC_dmu_i (nIds nDim : ℕ) (theta psi up : ℕ → ℕ → ℝ) (hs : ∀ d, d < nDim → 0 ≤ theta 1 d) (i d : ℕ) (hi : i < nIds) (hd : d < nDim) :
    ChiGen.gen_PLn_dmui nIds nDim theta psi up i d
      = upAt none i d * lnPsi (theta 0 d) (theta 1 d) (psi i d) := by
  tie_solve [ChiGen.gen_PLn_dmui, stdNormalLL, lnPsi, isum2, zero, oneS, upAt]

theorem Tie_pop_lognNC_dsigma_i (nIds nDim : ℕ) (theta psi up : ℕ → ℕ → ℝ) (hs : ∀ d, d < nDim → 0 ≤ theta 1 d) (i d : ℕ) (hi : i < nIds) (hd : d < nDim) :
    ChiGen.gen_PLn_dsigmai nIds nDim theta psi up i d
      = upAt none i d * (psi i d * lnPsi (theta 0 d) (theta 1 d) (psi i d)) := by
  tie_solve [ChiGen.gen_PLn_dsigmai, stdNormalLL, lnPsi, isum2, zero, oneS, upAt]

/-! ## trunc -/

theorem Tie_pop_trunc_ll (nIds nDim : ℕ) (theta psi up : ℕ → ℕ → ℝ) (hs : ∀ d, d < nDim → 0 < theta 1 d) :
    ChiGen.gen_PT_ll nIds nDim theta psi up
      = truncLLraw nIds nDim (fun _ d => theta 0 d) (fun _ d => theta 1 d) psi := by
  refine tie_by_steps2 (fun nIds nDim => ChiGen.gen_PT_ll nIds nDim theta psi up)
    (fun nIds nDim => truncLLraw nIds nDim (fun _ d => theta 0 d) (fun _ d => theta 1 d) psi) nIds nDim
    ?_ (fun k hk => ?_) (fun e he => ?_) (fun k e hk he => ?_)
  · tie_solve [ChiGen.gen_PT_ll, truncLLraw, truncTerm, tgDPsi, tgDMu, tgDSigma, normCdf, normPdf, isum2, zero, oneS, upAt]
  · tie_solve [ChiGen.gen_PT_ll, truncLLraw, truncTerm, tgDPsi, tgDMu, tgDSigma, normCdf, normPdf, isum2, zero, oneS, upAt]
  · have hse : theta 1 e ≠ 0 := (hs e he).ne'
    have hsq : Real.sqrt (theta 1 e * theta 1 e) = theta 1 e := Real.sqrt_mul_self (hs e he).le
    tie_solve [ChiGen.gen_PT_ll, truncLLraw, truncTerm, tgDPsi, tgDMu, tgDSigma, normCdf, normPdf, isum2, zero, oneS, upAt, hsq]
  · have hse : theta 1 e ≠ 0 := (hs e he).ne'
    have hsq : Real.sqrt (theta 1 e * theta 1 e) = theta 1 e := Real.sqrt_mul_self (hs e he).le
    tie_solve [ChiGen.gen_PT_ll, truncLLraw, truncTerm, tgDPsi, tgDMu, tgDSigma, normCdf, normPdf, isum2, zero, oneS, upAt, hsq]

theorem Tie_pop_trunc_s1 (nIds nDim : ℕ) (theta psi up : ℕ → ℕ → ℝ) (hs : ∀ d, d < nDim → 0 < theta 1 d) :
    ChiGen.gen_PT_s1 nIds nDim theta psi up
      = truncLLraw nIds nDim (fun _ d => theta 0 d) (fun _ d => theta 1 d) psi := by
  refine tie_by_steps2 (fun nIds nDim => ChiGen.gen_PT_s1 nIds nDim theta psi up)
    (fun nIds nDim => truncLLraw nIds nDim (fun _ d => theta 0 d) (fun _ d => theta 1 d) psi) nIds nDim
    ?_ (fun k hk => ?_) (fun e he => ?_) (fun k e hk he => ?_)
  · tie_solve [ChiGen.gen_PT_s1, truncLLraw, truncTerm, tgDPsi, tgDMu, tgDSigma, normCdf, normPdf, isum2, zero, oneS, upAt]
  · tie_solve [ChiGen.gen_PT_s1, truncLLraw, truncTerm, tgDPsi, tgDMu, tgDSigma, normCdf, normPdf, isum2, zero, oneS, upAt]
  · have hse : theta 1 e ≠ 0 := (hs e he).ne'
    have hsq : Real.sqrt (theta 1 e * theta 1 e) = theta 1 e := Real.sqrt_mul_self (hs e he).le
    tie_solve [ChiGen.gen_PT_s1, truncLLraw, truncTerm, tgDPsi, tgDMu, tgDSigma, normCdf, normPdf, isum2, zero, oneS, upAt, hsq]
  · have hse : theta 1 e ≠ 0 := (hs e he).ne'
    have hsq : Real.sqrt (theta 1 e * theta 1 e) = theta 1 e := Real.sqrt_mul_self (hs e he).le
    tie_solve [ChiGen.gen_PT_s1, truncLLraw, truncTerm, tgDPsi, tgDMu, tgDSigma, normCdf, normPdf, isum2, zero, oneS, upAt, hsq]

theorem Tie_pop_trunc_dpsi_up (nIds nDim : ℕ) (theta psi up : ℕ → ℕ → ℝ) (hs : ∀ d, d < nDim → 0 < theta 1 d) (i d : ℕ) (hi : i < nIds) (hd : d < nDim) :
    ChiGen.gen_PT_dpsiup nIds nDim theta psi up i d
      = tgDPsi (theta 0 d) (theta 1 d) (psi i d) + upAt (some up) i d := by
  have hse : theta 1 d ≠ 0 := (hs d hd).ne'
  have hsq : Real.sqrt (theta 1 d * theta 1 d) = theta 1 d := Real.sqrt_mul_self (hs d hd).le
  tie_solve [ChiGen.gen_PT_dpsiup, truncLLraw, truncTerm, tgDPsi, tgDMu, tgDSigma, normCdf, normPdf, isum2, zero, oneS, upAt, hsq]

theorem Tie_pop_trunc_dmu (nIds nDim : ℕ) (theta psi up : ℕ → ℕ → ℝ) (hs : ∀ d, d < nDim → 0 < theta 1 d) (d : ℕ) (hd : d < nDim) :
    ChiGen.gen_PT_dmu nIds nDim theta psi up d
      = isum nIds (fun i => tgDMu (theta 0 d) (theta 1 d) (psi i d)) := by
  have hse : theta 1 d ≠ 0 := (hs d hd).ne'
  have hsq : Real.sqrt (theta 1 d * theta 1 d) = theta 1 d := Real.sqrt_mul_self (hs d hd).le
  refine tie_by_steps (fun nIds => ChiGen.gen_PT_dmu nIds nDim theta psi up d)
    (fun nIds => isum nIds (fun i => tgDMu (theta 0 d) (theta 1 d) (psi i d))) nIds ?_ (fun m hm => ?_)
  · tie_solve [ChiGen.gen_PT_dmu, truncLLraw, truncTerm, tgDPsi, tgDMu, tgDSigma, normCdf, normPdf, isum2, zero, oneS, upAt, hsq]
  · tie_solve [ChiGen.gen_PT_dmu, truncLLraw, truncTerm, tgDPsi, tgDMu, tgDSigma, normCdf, normPdf, isum2, zero, oneS, upAt, hsq]

theorem Tie_pop_trunc_dsigma (nIds nDim : ℕ) (theta psi up : ℕ → ℕ → ℝ) (hs : ∀ d, d < nDim → 0 < theta 1 d) (d : ℕ) (hd : d < nDim) :
    ChiGen.gen_PT_dsigma nIds nDim theta psi up d
      = isum nIds (fun i => tgDSigma (theta 0 d) (theta 1 d) (psi i d)) := by
  have hse : theta 1 d ≠ 0 := (hs d hd).ne'
  have hsq : Real.sqrt (theta 1 d * theta 1 d) = theta 1 d := Real.sqrt_mul_self (hs d hd).le
  refine tie_by_steps (fun nIds => ChiGen.gen_PT_dsigma nIds nDim theta psi up d)
    (fun nIds => isum nIds (fun i => tgDSigma (theta 0 d) (theta 1 d) (psi i d))) nIds ?_ (fun m hm => ?_)
  · tie_solve [ChiGen.gen_PT_dsigma, truncLLraw, truncTerm, tgDPsi, tgDMu, tgDSigma, normCdf, normPdf, isum2, zero, oneS, upAt, hsq]
  · tie_solve [ChiGen.gen_PT_dsigma, truncLLraw, truncTerm, tgDPsi, tgDMu, tgDSigma, normCdf, normPdf, isum2, zero, oneS, upAt, hsq]

theorem Tie_pop_trunc_dpsi (nIds nDim : ℕ) (theta psi up : ℕ → ℕ → ℝ) (hs : ∀ d, d < nDim → 0 < theta 1 d) (i d : ℕ) (hi : i < nIds) (hd : d < nDim) :
    ChiGen.gen_PT_dpsi nIds nDim theta psi up i d
      = tgDPsi (theta 0 d) (theta 1 d) (psi i d) := by
  have hse : theta 1 d ≠ 0 := (hs d hd).ne'
  have hsq : Real.sqrt (theta 1 d * theta 1 d) = theta 1 d := Real.sqrt_mul_self (hs d hd).le
  tie_solve [ChiGen.gen_PT_dpsi, truncLLraw, truncTerm, tgDPsi, tgDMu, tgDSigma, normCdf, normPdf, isum2, zero, oneS, upAt, hsq]

theorem Tie_pop_trunc_dmu_i (nIds nDim : ℕ) (theta psi up : ℕ → ℕ → ℝ) (hs : ∀ d, d < nDim → 0 < theta 1 d) (i d : ℕ) (hi : i < nIds) (hd : d < nDim) :
    ChiGen.gen_PT_dmui nIds nDim theta psi up i d
      = tgDMu (theta 0 d) (theta 1 d) (psi i d) := by
  have hse : theta 1 d ≠ 0 := (hs d hd).ne'
  have hsq : Real.sqrt (theta 1 d * theta 1 d) = theta 1 d := Real.sqrt_mul_self (hs d hd).le
  tie_solve [ChiGen.gen_PT_dmui, truncLLraw, truncTerm, tgDPsi, tgDMu, tgDSigma, normCdf, normPdf, isum2, zero, oneS, upAt, hsq]

theorem Tie_pop_trunc_dsigma_i (nIds nDim : ℕ) (theta psi up : ℕ → ℕ → ℝ) (hs : ∀ d, d < nDim → 0 < theta 1 d) (i d : ℕ) (hi : i < nIds) (hd : d < nDim) :
    ChiGen.gen_PT_dsigmai nIds nDim theta psi up i d
      = tgDSigma (theta 0 d) (theta 1 d) (psi i d) := by
  have hse : theta 1 d ≠ 0 := (hs d hd).ne'
  have hsq : Real.sqrt (theta 1 d * theta 1 d) = theta 1 d := Real.sqrt_mul_self (hs d hd).le
  tie_solve [ChiGen.gen_PT_dsigmai, truncLLraw, truncTerm, tgDPsi, tgDMu, tgDSigma, normCdf, normPdf, isum2, zero, oneS, upAt, hsq]

/-! ## end to end: `popLL` / `popSens` on the flat layout (`th i p d = theta p d`) return the generated kernels

Consequences of the theorems above and of the unfolding lemmas `popLL_*_val` / `popSens_*` (`Lemmas/PopCalculus.lean`);
they depend on the STATEMENTS above only, so they hold for every re-generated definition for which those are re-proved. -/

theorem Tie_pop_gauss_popLL (nIds nDim : ℕ) (theta psi up : ℕ → ℕ → ℝ) (hs : ∀ d, d < nDim → 0 < theta 1 d) :
    popLL (.gauss true) nIds nDim (fun _ p d => theta p d) psi
      = .val (ChiGen.gen_PG_ll nIds nDim theta psi up) := by
  rw [popLL_gauss_val nIds nDim _ psi (fun i d _ hd => hs d hd), Tie_pop_gauss_ll nIds nDim theta psi up hs]

theorem Tie_pop_gauss_popSens (nIds nDim : ℕ) (theta psi up : ℕ → ℕ → ℝ) (hs : ∀ d, d < nDim → 0 < theta 1 d) :
    (popSens (.gauss true) nIds nDim (fun _ p d => theta p d) psi (some up)).score
        = .val (ChiGen.gen_PG_s1 nIds nDim theta psi up)
    ∧ (∀ i d, i < nIds → d < nDim →
        (popSens (.gauss true) nIds nDim (fun _ p d => theta p d) psi (some up)).dpsi i d
          = ChiGen.gen_PG_dpsiup nIds nDim theta psi up i d)
    ∧ (∀ d, d < nDim →
        isum nIds (fun i => (popSens (.gauss true) nIds nDim (fun _ p d => theta p d) psi (some up)).dtheta i 0 d)
          = ChiGen.gen_PG_dmu nIds nDim theta psi up d)
    ∧ (∀ d, d < nDim →
        isum nIds (fun i => (popSens (.gauss true) nIds nDim (fun _ p d => theta p d) psi (some up)).dtheta i 1 d)
          = ChiGen.gen_PG_dsigma nIds nDim theta psi up d)
    ∧ (∀ i d, i < nIds → d < nDim →
        (popSens (.gauss true) nIds nDim (fun _ p d => theta p d) psi none).dpsi i d
          = ChiGen.gen_PG_dpsi nIds nDim theta psi up i d)
    ∧ (∀ i d, i < nIds → d < nDim →
        (popSens (.gauss true) nIds nDim (fun _ p d => theta p d) psi none).dtheta i 0 d
          = ChiGen.gen_PG_dmui nIds nDim theta psi up i d)
    ∧ (∀ i d, i < nIds → d < nDim →
        (popSens (.gauss true) nIds nDim (fun _ p d => theta p d) psi none).dtheta i 1 d
          = ChiGen.gen_PG_dsigmai nIds nDim theta psi up i d) := by
  have h := fun u => popSens_gauss nIds nDim (fun _ p d => theta p d) psi u (fun i d _ hd => hs d hd)
  refine ⟨?_, ?_, ?_, ?_, ?_, ?_, ?_⟩
  · rw [h, Tie_pop_gauss_s1 nIds nDim theta psi up hs]
  · intro i d hi hd
    rw [h, Tie_pop_gauss_dpsi_up nIds nDim theta psi up hs i d hi hd] <;>
      first | rfl | exact addUp_apply _ _ _ _ | simp [addUp, addUp_apply]
  · intro d hd
    rw [h, Tie_pop_gauss_dmu nIds nDim theta psi up hs d hd] <;>
      first | rfl | exact addUp_apply _ _ _ _ | simp [addUp, addUp_apply]
  · intro d hd
    rw [h, Tie_pop_gauss_dsigma nIds nDim theta psi up hs d hd] <;>
      first | rfl | exact addUp_apply _ _ _ _ | simp [addUp, addUp_apply]
  · intro i d hi hd
    rw [h, Tie_pop_gauss_dpsi nIds nDim theta psi up hs i d hi hd] <;>
      first | rfl | exact addUp_apply _ _ _ _ | simp [addUp, addUp_apply]
  · intro i d hi hd
    rw [h, Tie_pop_gauss_dmu_i nIds nDim theta psi up hs i d hi hd] <;>
      first | rfl | exact addUp_apply _ _ _ _ | simp [addUp, addUp_apply]
  · intro i d hi hd
    rw [h, Tie_pop_gauss_dsigma_i nIds nDim theta psi up hs i d hi hd] <;>
      first | rfl | exact addUp_apply _ _ _ _ | simp [addUp, addUp_apply]

theorem Tie_pop_gaussNC_popLL (nIds nDim : ℕ) (theta psi up : ℕ → ℕ → ℝ) (hs : ∀ d, d < nDim → 0 ≤ theta 1 d) :
    popLL (.gauss false) nIds nDim (fun _ p d => theta p d) psi
      = .val (ChiGen.gen_PGn_ll nIds nDim theta psi up) := by
  rw [Tie_pop_gaussNC_ll nIds nDim theta psi up hs]
  rfl

theorem Tie_pop_gaussNC_popSens (nIds nDim : ℕ) (theta psi up : ℕ → ℕ → ℝ) (hs : ∀ d, d < nDim → 0 ≤ theta 1 d) :
    (popSens (.gauss false) nIds nDim (fun _ p d => theta p d) psi (some up)).score
        = .val (ChiGen.gen_PGn_s1 nIds nDim theta psi up)
    ∧ (∀ i d, i < nIds → d < nDim →
        (popSens (.gauss false) nIds nDim (fun _ p d => theta p d) psi (some up)).dpsi i d
          = ChiGen.gen_PGn_dpsiup nIds nDim theta psi up i d)
    ∧ (∀ d, d < nDim →
        isum nIds (fun i => (popSens (.gauss false) nIds nDim (fun _ p d => theta p d) psi (some up)).dtheta i 0 d)
          = ChiGen.gen_PGn_dmu nIds nDim theta psi up d)
    ∧ (∀ d, d < nDim →
        isum nIds (fun i => (popSens (.gauss false) nIds nDim (fun _ p d => theta p d) psi (some up)).dtheta i 1 d)
          = ChiGen.gen_PGn_dsigma nIds nDim theta psi up d)
    ∧ (∀ i d, i < nIds → d < nDim →
        (popSens (.gauss false) nIds nDim (fun _ p d => theta p d) psi none).dpsi i d
          = ChiGen.gen_PGn_dpsi nIds nDim theta psi up i d)
    ∧ (∀ i d, i < nIds → d < nDim →
        (popSens (.gauss false) nIds nDim (fun _ p d => theta p d) psi none).dtheta i 0 d
          = ChiGen.gen_PGn_dmui nIds nDim theta psi up i d)
    ∧ (∀ i d, i < nIds → d < nDim →
        (popSens (.gauss false) nIds nDim (fun _ p d => theta p d) psi none).dtheta i 1 d
          = ChiGen.gen_PGn_dsigmai nIds nDim theta psi up i d) := by
  have h := fun u => popSens_gaussNC nIds nDim (fun _ p d => theta p d) psi u (fun i d _ hd => hs d hd)
  refine ⟨?_, ?_, ?_, ?_, ?_, ?_, ?_⟩
  · rw [h, Tie_pop_gaussNC_s1 nIds nDim theta psi up hs]
  · intro i d hi hd
    rw [h, Tie_pop_gaussNC_dpsi_up nIds nDim theta psi up hs i d hi hd] <;>
      first | rfl | exact addUp_apply _ _ _ _ | simp [addUp, addUp_apply]
  · intro d hd
    rw [h, Tie_pop_gaussNC_dmu nIds nDim theta psi up hs d hd] <;>
      first | rfl | exact addUp_apply _ _ _ _ | simp [addUp, addUp_apply]
  · intro d hd
    rw [h, Tie_pop_gaussNC_dsigma nIds nDim theta psi up hs d hd] <;>
      first | rfl | exact addUp_apply _ _ _ _ | simp [addUp, addUp_apply]
  · intro i d hi hd
    rw [h, Tie_pop_gaussNC_dpsi nIds nDim theta psi up hs i d hi hd] <;>
      first | rfl | exact addUp_apply _ _ _ _ | simp [addUp, addUp_apply]
  · intro i d hi hd
    rw [h, Tie_pop_gaussNC_dmu_i nIds nDim theta psi up hs i d hi hd] <;>
      first | rfl | exact addUp_apply _ _ _ _ | simp [addUp, addUp_apply]
  · intro i d hi hd
    rw [h, Tie_pop_gaussNC_dsigma_i nIds nDim theta psi up hs i d hi hd] <;>
      first | rfl | exact addUp_apply _ _ _ _ | simp [addUp, addUp_apply]

theorem Tie_pop_logn_popLL (nIds nDim : ℕ) (theta psi up : ℕ → ℕ → ℝ) (hs : ∀ d, d < nDim → 0 < theta 1 d) (hpsi : ∀ i d, i < nIds → d < nDim → 0 < psi i d) :
    popLL (.logn true) nIds nDim (fun _ p d => theta p d) psi
      = .val (ChiGen.gen_PL_ll nIds nDim theta psi up) := by
  rw [popLL_logn_val nIds nDim _ psi (fun i d _ hd => hs d hd) hpsi, Tie_pop_logn_ll nIds nDim theta psi up hs hpsi]

theorem Tie_pop_logn_popSens (nIds nDim : ℕ) (theta psi up : ℕ → ℕ → ℝ) (hs : ∀ d, d < nDim → 0 < theta 1 d) (hpsi : ∀ i d, i < nIds → d < nDim → 0 < psi i d) :
    (popSens (.logn true) nIds nDim (fun _ p d => theta p d) psi (some up)).score
        = .val (ChiGen.gen_PL_s1 nIds nDim theta psi up)
    ∧ (∀ i d, i < nIds → d < nDim →
        (popSens (.logn true) nIds nDim (fun _ p d => theta p d) psi (some up)).dpsi i d
          = ChiGen.gen_PL_dpsiup nIds nDim theta psi up i d)
    ∧ (∀ d, d < nDim →
        isum nIds (fun i => (popSens (.logn true) nIds nDim (fun _ p d => theta p d) psi (some up)).dtheta i 0 d)
          = ChiGen.gen_PL_dmu nIds nDim theta psi up d)
    ∧ (∀ d, d < nDim →
        isum nIds (fun i => (popSens (.logn true) nIds nDim (fun _ p d => theta p d) psi (some up)).dtheta i 1 d)
          = ChiGen.gen_PL_dsigma nIds nDim theta psi up d)
    ∧ (∀ i d, i < nIds → d < nDim →
        (popSens (.logn true) nIds nDim (fun _ p d => theta p d) psi none).dpsi i d
          = ChiGen.gen_PL_dpsi nIds nDim theta psi up i d)
    ∧ (∀ i d, i < nIds → d < nDim →
        (popSens (.logn true) nIds nDim (fun _ p d => theta p d) psi none).dtheta i 0 d
          = ChiGen.gen_PL_dmui nIds nDim theta psi up i d)
    ∧ (∀ i d, i < nIds → d < nDim →
        (popSens (.logn true) nIds nDim (fun _ p d => theta p d) psi none).dtheta i 1 d
          = ChiGen.gen_PL_dsigmai nIds nDim theta psi up i d) := by
  have h := fun u => popSens_logn nIds nDim (fun _ p d => theta p d) psi u (fun i d _ hd => hs d hd) hpsi
  refine ⟨?_, ?_, ?_, ?_, ?_, ?_, ?_⟩
  · rw [h, Tie_pop_logn_s1 nIds nDim theta psi up hs hpsi]
  · intro i d hi hd
    rw [h, Tie_pop_logn_dpsi_up nIds nDim theta psi up hs hpsi i d hi hd] <;>
      first | rfl | exact addUp_apply _ _ _ _ | simp [addUp, addUp_apply]
  · intro d hd
    rw [h, Tie_pop_logn_dmu nIds nDim theta psi up hs hpsi d hd] <;>
      first | rfl | exact addUp_apply _ _ _ _ | simp [addUp, addUp_apply]
  · intro d hd
    rw [h, Tie_pop_logn_dsigma nIds nDim theta psi up hs hpsi d hd] <;>
      first | rfl | exact addUp_apply _ _ _ _ | simp [addUp, addUp_apply]
  · intro i d hi hd
    rw [h, Tie_pop_logn_dpsi nIds nDim theta psi up hs hpsi i d hi hd] <;>
      first | rfl | exact addUp_apply _ _ _ _ | simp [addUp, addUp_apply]
  · intro i d hi hd
    rw [h, Tie_pop_logn_dmu_i nIds nDim theta psi up hs hpsi i d hi hd] <;>
      first | rfl | exact addUp_apply _ _ _ _ | simp [addUp, addUp_apply]
  · intro i d hi hd
    rw [h, Tie_pop_logn_dsigma_i nIds nDim theta psi up hs hpsi i d hi hd] <;>
      first | rfl | exact addUp_apply _ _ _ _ | simp [addUp, addUp_apply]

theorem Tie_pop_lognNC_popLL (nIds nDim : ℕ) (theta psi up : ℕ → ℕ → ℝ) (hs : ∀ d, d < nDim → 0 ≤ theta 1 d) :
    popLL (.logn false) nIds nDim (fun _ p d => theta p d) psi
      = .val (ChiGen.gen_PLn_ll nIds nDim theta psi up) := by
  rw [Tie_pop_lognNC_ll nIds nDim theta psi up hs]
  rfl

theorem Tie_pop_lognNC_popSens (nIds nDim : ℕ) (theta psi up : ℕ → ℕ → ℝ) (hs : ∀ d, d < nDim → 0 ≤ theta 1 d) :
    (popSens (.logn false) nIds nDim (fun _ p d => theta p d) psi (some up)).score
        = .val (ChiGen.gen_PLn_s1 nIds nDim theta psi up)
    ∧ (∀ i d, i < nIds → d < nDim →
        (popSens (.logn false) nIds nDim (fun _ p d => theta p d) psi (some up)).dpsi i d
          = ChiGen.gen_PLn_dpsiup nIds nDim theta psi up i d)
    ∧ (∀ d, d < nDim →
        isum nIds (fun i => (popSens (.logn false) nIds nDim (fun _ p d => theta p d) psi (some up)).dtheta i 0 d)
          = ChiGen.gen_PLn_dmu nIds nDim theta psi up d)
    ∧ (∀ d, d < nDim →
        isum nIds (fun i => (popSens (.logn false) nIds nDim (fun _ p d => theta p d) psi (some up)).dtheta i 1 d)
          = ChiGen.gen_PLn_dsigma nIds nDim theta psi up d)
    ∧ (∀ i d, i < nIds → d < nDim →
        (popSens (.logn false) nIds nDim (fun _ p d => theta p d) psi none).dpsi i d
          = ChiGen.gen_PLn_dpsi nIds nDim theta psi up i d)
    ∧ (∀ i d, i < nIds → d < nDim →
        (popSens (.logn false) nIds nDim (fun _ p d => theta p d) psi none).dtheta i 0 d
          = ChiGen.gen_PLn_dmui nIds nDim theta psi up i d)
    ∧ (∀ i d, i < nIds → d < nDim →
        (popSens (.logn false) nIds nDim (fun _ p d => theta p d) psi none).dtheta i 1 d
          = ChiGen.gen_PLn_dsigmai nIds nDim theta psi up i d) := by
  have h := fun u => popSens_lognNC nIds nDim (fun _ p d => theta p d) psi u (fun i d _ hd => hs d hd)
  refine ⟨?_, ?_, ?_, ?_, ?_, ?_, ?_⟩
  · rw [h, Tie_pop_lognNC_s1 nIds nDim theta psi up hs]
  · intro i d hi hd
    rw [h, Tie_pop_lognNC_dpsi_up nIds nDim theta psi up hs i d hi hd] <;>
      first | rfl | exact addUp_apply _ _ _ _ | simp [addUp, addUp_apply]
  · intro d hd
    rw [h, Tie_pop_lognNC_dmu nIds nDim theta psi up hs d hd] <;>
      first | rfl | exact addUp_apply _ _ _ _ | simp [addUp, addUp_apply]
  · intro d hd
    rw [h, Tie_pop_lognNC_dsigma nIds nDim theta psi up hs d hd] <;>
      first | rfl | exact addUp_apply _ _ _ _ | simp [addUp, addUp_apply]
  · intro i d hi hd
    rw [h, Tie_pop_lognNC_dpsi nIds nDim theta psi up hs i d hi hd] <;>
      first | rfl | exact addUp_apply _ _ _ _ | simp [addUp, addUp_apply]
  · intro i d hi hd
    rw [h, Tie_pop_lognNC_dmu_i nIds nDim theta psi up hs i d hi hd] <;>
      first | rfl | exact addUp_apply _ _ _ _ | simp [addUp, addUp_apply]
  · intro i d hi hd
    rw [h, Tie_pop_lognNC_dsigma_i nIds nDim theta psi up hs i d hi hd] <;>
      first | rfl | exact addUp_apply _ _ _ _ | simp [addUp, addUp_apply]

theorem Tie_pop_trunc_popLL (nIds nDim : ℕ) (theta psi up : ℕ → ℕ → ℝ) (hs : ∀ d, d < nDim → 0 < theta 1 d) (hpsi0 : ∀ i d, i < nIds → d < nDim → 0 ≤ psi i d) :
    popLL (.trunc) nIds nDim (fun _ p d => theta p d) psi
      = .val (ChiGen.gen_PT_ll nIds nDim theta psi up) := by
  rw [popLL_trunc_val nIds nDim _ psi (fun i d _ hd => hs d hd) hpsi0, Tie_pop_trunc_ll nIds nDim theta psi up hs]

theorem Tie_pop_trunc_popSens (nIds nDim : ℕ) (theta psi up : ℕ → ℕ → ℝ) (hs : ∀ d, d < nDim → 0 < theta 1 d) (hpsi0 : ∀ i d, i < nIds → d < nDim → 0 ≤ psi i d) :
    (popSens (.trunc) nIds nDim (fun _ p d => theta p d) psi (some up)).score
        = .val (ChiGen.gen_PT_s1 nIds nDim theta psi up)
    ∧ (∀ i d, i < nIds → d < nDim →
        (popSens (.trunc) nIds nDim (fun _ p d => theta p d) psi (some up)).dpsi i d
          = ChiGen.gen_PT_dpsiup nIds nDim theta psi up i d)
    ∧ (∀ d, d < nDim →
        isum nIds (fun i => (popSens (.trunc) nIds nDim (fun _ p d => theta p d) psi (some up)).dtheta i 0 d)
          = ChiGen.gen_PT_dmu nIds nDim theta psi up d)
    ∧ (∀ d, d < nDim →
        isum nIds (fun i => (popSens (.trunc) nIds nDim (fun _ p d => theta p d) psi (some up)).dtheta i 1 d)
          = ChiGen.gen_PT_dsigma nIds nDim theta psi up d)
    ∧ (∀ i d, i < nIds → d < nDim →
        (popSens (.trunc) nIds nDim (fun _ p d => theta p d) psi none).dpsi i d
          = ChiGen.gen_PT_dpsi nIds nDim theta psi up i d)
    ∧ (∀ i d, i < nIds → d < nDim →
        (popSens (.trunc) nIds nDim (fun _ p d => theta p d) psi none).dtheta i 0 d
          = ChiGen.gen_PT_dmui nIds nDim theta psi up i d)
    ∧ (∀ i d, i < nIds → d < nDim →
        (popSens (.trunc) nIds nDim (fun _ p d => theta p d) psi none).dtheta i 1 d
          = ChiGen.gen_PT_dsigmai nIds nDim theta psi up i d) := by
  have h := fun u => popSens_trunc nIds nDim (fun _ p d => theta p d) psi u (fun i d _ hd => hs d hd) hpsi0
  refine ⟨?_, ?_, ?_, ?_, ?_, ?_, ?_⟩
  · rw [h, Tie_pop_trunc_s1 nIds nDim theta psi up hs]
  · intro i d hi hd
    rw [h, Tie_pop_trunc_dpsi_up nIds nDim theta psi up hs i d hi hd] <;>
      first | rfl | exact addUp_apply _ _ _ _ | simp [addUp, addUp_apply]
  · intro d hd
    rw [h, Tie_pop_trunc_dmu nIds nDim theta psi up hs d hd] <;>
      first | rfl | exact addUp_apply _ _ _ _ | simp [addUp, addUp_apply]
  · intro d hd
    rw [h, Tie_pop_trunc_dsigma nIds nDim theta psi up hs d hd] <;>
      first | rfl | exact addUp_apply _ _ _ _ | simp [addUp, addUp_apply]
  · intro i d hi hd
    rw [h, Tie_pop_trunc_dpsi nIds nDim theta psi up hs i d hi hd] <;>
      first | rfl | exact addUp_apply _ _ _ _ | simp [addUp, addUp_apply]
  · intro i d hi hd
    rw [h, Tie_pop_trunc_dmu_i nIds nDim theta psi up hs i d hi hd] <;>
      first | rfl | exact addUp_apply _ _ _ _ | simp [addUp, addUp_apply]
  · intro i d hi hd
    rw [h, Tie_pop_trunc_dsigma_i nIds nDim theta psi up hs i d hi hd] <;>
      first | rfl | exact addUp_apply _ _ _ _ | simp [addUp, addUp_apply]

end ChiModel
