import ChiProofs.RealInst
/-!
# Tools for the source-derived tie (`ChiProofs/Tie/*.lean`)

The definitions in `ChiGen/*.lean` are GENERATED from the Python source by `harness/srctie.py`.
The tie theorems state `generated = hand-written model`; their proofs must survive algebraically
equivalent rewrites of the Python (the proof script is re-run unchanged against re-generated
definitions), so they do not depend on the shape of the generated term:

* `tie_by_steps` reduces an equation between two expressions that contain sums `Σ_{j<n}` (any
  number of them, anywhere: inside quotients, multiplied by scalars, split or merged) to the case
  `n = 0` and to the difference between `n = m + 1` and `n = m`, where every sum appears as the same
  atom on both sides plus its last term: what is left is an identity of field expressions.
* `tie_by_steps2` does the same for two extents (`Σ_{i<n} Σ_{d<m}`; C05): mixed second differences.
* `tie_solve [defs]` unfolds, moves to `Finset` sums over ℝ, splits the last term off and closes
  the field identity (`ring1`, else `field_simp; ring1`, else with normalisation inside atoms).
  (`ring1`, not `ring`: inside `first`, `ring` "succeeds" by falling back to `ring_nf` without closing.)
-/
namespace ChiModel
open ScalarFns

theorem tie_by_steps (F G : ℕ → ℝ) (n : ℕ) (h0 : F 0 = G 0)
    (hs : ∀ m, m < n → F (m + 1) - F m = G (m + 1) - G m) : F n = G n := by
  have key : ∀ k, k ≤ n → F k = G k := by
    intro k
    induction k with
    | zero => intro _; exact h0
    | succ m ih =>
      intro hk
      have h1 := hs m (Nat.lt_of_succ_le hk)
      have h2 := ih (Nat.le_of_succ_le hk)
      linarith
  exact key n le_rfl

/-- the same for expressions with sums over two extents (`Σ_{i<n} Σ_{d<m}`, also next to single sums over either
    extent and to products of the extents): it is enough that both sides agree at `(0, 0)`, that their first
    differences agree along both edges and that their MIXED second differences agree; in the mixed difference every
    double sum leaves its `(k, e)` term, every single sum and every sum over the smaller rectangles cancels as an
    atom (`abstract_sums`), so what is left is again an identity of field expressions. -/
theorem tie_by_steps2 (F G : ℕ → ℕ → ℝ) (n m : ℕ) (h00 : F 0 0 = G 0 0)
    (hn : ∀ k, k < n → F (k + 1) 0 - F k 0 = G (k + 1) 0 - G k 0)
    (hm : ∀ e, e < m → F 0 (e + 1) - F 0 e = G 0 (e + 1) - G 0 e)
    (hs : ∀ k e, k < n → e < m →
      F (k + 1) (e + 1) - F k (e + 1) - F (k + 1) e + F k e
        = G (k + 1) (e + 1) - G k (e + 1) - G (k + 1) e + G k e) : F n m = G n m := by
  have col : ∀ k, k ≤ n → F k 0 = G k 0 := fun k hk =>
    tie_by_steps (fun k => F k 0) (fun k => G k 0) k h00 (fun j hj => hn j (lt_of_lt_of_le hj hk))
  have row : ∀ e, e ≤ m → F 0 e = G 0 e := fun e he =>
    tie_by_steps (fun e => F 0 e) (fun e => G 0 e) e h00 (fun j hj => hm j (lt_of_lt_of_le hj he))
  have key : ∀ e, e ≤ m → ∀ k, k ≤ n → F k e = G k e := by
    intro e
    induction e with
    | zero => intro _ k hk; exact col k hk
    | succ e ih =>
      intro he k
      induction k with
      | zero => intro _; exact row (e + 1) he
      | succ k ihk =>
        intro hk
        have h1 := hs k e (Nat.lt_of_succ_le hk) (Nat.lt_of_succ_le he)
        have h2 := ih (Nat.le_of_succ_le he) (k + 1) hk
        have h3 := ih (Nat.le_of_succ_le he) k (Nat.le_of_succ_le hk)
        have h4 := ihk (Nat.le_of_succ_le hk)
        linarith
  exact key m le_rfl n le_rfl

open Lean Elab Tactic Meta in
/-- replace every closed subterm `Finset.sum _ _` of the goal by a fresh variable: after the last term has been
    split off, the remaining sums are atoms of the field identity, and the algebra must not look inside them
    (`field_simp` would normalise two occurrences of the same sum differently) -/
elab "abstract_sums" : tactic => withMainContext do
  let rec loop (fuel : Nat) : TacticM Unit := do
    match fuel with
    | 0 => pure ()
    | fuel + 1 =>
      let g ← getMainGoal
      let tgt ← instantiateMVars (← g.getType)
      let found := tgt.find? fun e =>
        e.isAppOf ``Finset.sum && e.getAppNumArgs == 5 && !e.hasLooseBVars
      match found with
      | none => pure ()
      | some e =>
        let (_, g') ← g.generalize #[{ expr := e, xName? := some `s }]
        replaceMainGoal [g']
        loop fuel
  loop 64

/-- logarithms of products / quotients / powers of non-zero factors are split (`log (s * y) = log s + log y`,
    `log (2 π σ²) = …`); the side conditions come from the `x ≠ 0` hypotheses in the context -/
macro "tie_logs" : tactic =>
  `(tactic| simp only [Real.log_mul, Real.log_div, Real.log_pow, Real.log_inv, Real.log_one, ne_eq,
      not_false_eq_true, mul_eq_zero, div_eq_zero_iff, pow_eq_zero_iff, inv_eq_zero, OfNat.ofNat_ne_zero,
      one_ne_zero, Real.pi_ne_zero, or_self, or_false, false_or, not_or, and_self, and_true, true_and, *])

/-- closes an identity of field expressions over ℝ (hypotheses `x ≠ 0` taken from the context) -/
macro "tie_close" : tactic =>
  `(tactic| first
    | rfl
    | ring1
    | (field_simp; ring1)
    | (ring_nf; done)
    | (field_simp; ring_nf; done)
    | (ring_nf; field_simp; ring1)
    | (simp only [div_eq_mul_inv, one_mul, mul_one]; ring_nf; done)
    | (tie_logs; first | ring1 | (field_simp; ring1) | (ring_nf; done)))

syntax "tie_norm" "[" Lean.Parser.Tactic.simpLemma,* "]" : tactic
macro_rules
  | `(tactic| tie_norm [$ls,*]) =>
    `(tactic| simp only [$ls,*, isum_eq, ofNat_real, log_real, exp_real, sqrt_real, pi_real,
        two_real, halfLog2Pi, multTot, cmTot, lnErr,
        Nat.cast_ofNat, Nat.cast_zero, Nat.cast_one, Nat.cast_add, Nat.cast_mul,
        Finset.sum_range_succ, Finset.sum_range_zero])

/-- unfold + normalise + close; also succeeds when the normalisation alone closes the goal; third attempt: square
    roots of inverses are moved inside (`√(1 / x) = (√x)⁻¹`; `√(σ * σ) = σ` is a hypothesis named in the call) -/
syntax "tie_solve" "[" Lean.Parser.Tactic.simpLemma,* "]" : tactic
macro_rules
  | `(tactic| tie_solve [$ls,*]) =>
    `(tactic| first
      | (tie_norm [$ls,*]; done)
      | (tie_norm [$ls,*]; abstract_sums; tie_close)
      | (tie_norm [$ls,*, one_div, Real.sqrt_inv, Real.sqrt_one]; abstract_sums; tie_close)
      | tie_close)

end ChiModel
