import ChiModel.Scalar
import ChiModel.ErrorModels
import Mathlib.Analysis.SpecialFunctions.Log.Deriv
import Mathlib.Analysis.SpecialFunctions.Sqrt
import Mathlib.Analysis.SpecialFunctions.Trigonometric.Basic
import Mathlib.Algebra.BigOperators.Field

/-! The proof instance of the scalar interface: Mathlib's real numbers. -/

open Classical in
noncomputable instance : ScalarFns ℝ where
  ofNat n := (n : ℝ)
  log := Real.log
  exp := Real.exp
  sqrt := Real.sqrt
  pi := Real.pi
  le a b := decide (a ≤ b)
  lt a b := decide (a < b)

namespace ChiModel
open ScalarFns

@[simp] theorem log_real (x : ℝ) : ScalarFns.log x = Real.log x := rfl
@[simp] theorem exp_real (x : ℝ) : ScalarFns.exp x = Real.exp x := rfl
@[simp] theorem sqrt_real (x : ℝ) : ScalarFns.sqrt x = Real.sqrt x := rfl
@[simp] theorem ofNat_real (n : ℕ) : (ScalarFns.ofNat n : ℝ) = n := rfl
@[simp] theorem pi_real : (ScalarFns.pi : ℝ) = Real.pi := rfl
@[simp] theorem le_real (a b : ℝ) : ScalarFns.le a b = decide (a ≤ b) := rfl
@[simp] theorem lt_real (a b : ℝ) : ScalarFns.lt a b = decide (a < b) := rfl
@[simp] theorem two_real : (two : ℝ) = 2 := by simp [two]

theorem lsum_real (l : List ℝ) : lsum l = l.sum := by
  induction l with
  | nil => simp [lsum]
  | cons x xs ih => simp [lsum, ih]

/-- bridge to `Finset` sums -/
theorem isum_eq (n : Nat) (g : Nat → ℝ) : isum n g = ∑ j ∈ Finset.range n, g j := by
  induction n with
  | zero => simp [isum, lsum]
  | succ m ih =>
    rw [Finset.sum_range_succ, ← ih]
    simp [isum, lsum_real, List.range_succ]

theorem iany_real (n : Nat) (p : Nat → Bool) : iany n p = true ↔ ∃ j, j < n ∧ p j = true := by
  simp [iany, List.any_eq_true]

/-- derivative of an index sum, termwise -/
theorem hasDerivAt_isum (n : Nat) (g : Nat → ℝ → ℝ) (g' : Nat → ℝ) (t : ℝ)
    (h : ∀ j, j < n → HasDerivAt (g j) (g' j) t) :
    HasDerivAt (fun s => isum n (fun j => g j s)) (isum n g') t := by
  simp only [isum_eq]
  exact HasDerivAt.fun_sum (fun j hj => h j (Finset.mem_range.mp hj))

end ChiModel
