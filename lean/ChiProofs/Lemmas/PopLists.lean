import ChiModel.PopComposed
import Mathlib.Data.List.GetD
import Mathlib.Algebra.Order.Group.Nat
import Mathlib.Tactic.Ring
import Mathlib.Tactic.Linarith

/-! list bookkeeping behind the return forms and the layout branches (any element type) -/
set_option linter.unusedSectionVars false
namespace ChiModel
variable {β : Type}

theorem length_flatMap_range (n m : Nat) (f : Nat → Nat → β) :
    ((List.range n).flatMap (fun p => (List.range m).map (f p))).length = n * m := by
  induction n with
  | zero => simp
  | succ k ih =>
    rw [List.range_succ, List.flatMap_append, List.length_append, ih]
    simp
    ring

theorem getD_map_range (m : Nat) (f : Nat → β) (d : Nat) (hd : d < m) (x : β) :
    ((List.range m).map f).getD d x = f d := by
  simp [List.getD, hd]

theorem getD_flatMap_range (n m : Nat) (f : Nat → Nat → β) (p d : Nat) (hp : p < n) (hd : d < m)
    (x : β) :
    ((List.range n).flatMap (fun p => (List.range m).map (f p))).getD (p * m + d) x = f p d := by
  induction n with
  | zero => omega
  | succ k ih =>
    rw [List.range_succ, List.flatMap_append]
    by_cases hpk : p < k
    · have hlt : p * m + d < ((List.range k).flatMap (fun p => (List.range m).map (f p))).length := by
        rw [length_flatMap_range]
        calc p * m + d < p * m + m := by omega
          _ = (p + 1) * m := by ring
          _ ≤ k * m := Nat.mul_le_mul_right m hpk
      rw [List.getD_append _ _ _ _ hlt]
      exact ih hpk
    · have hpe : p = k := by omega
      subst hpe
      have hge : ((List.range p).flatMap (fun p => (List.range m).map (f p))).length ≤ p * m + d := by
        rw [length_flatMap_range]; omega
      rw [List.getD_append_right _ _ _ _ hge, length_flatMap_range]
      simp only [List.flatMap_cons, List.flatMap_nil, List.append_nil]
      rw [show p * m + d - p * m = d by omega]
      exact getD_map_range m (f p) d hd x

end ChiModel
