import ChiProofs.Lemmas.SeedsAdv
set_option linter.unusedSectionVars false
set_option linter.unusedSimpArgs false
namespace ChiModel.Seeds

/-! ## Part D — every variate read under an integer seed comes from a stream determined by that seed -/

/-- the integer a stream was (directly or through `np.random.seed(g.integers(...))`) seeded with -/
def rootSeed : StreamId → Option Int
  | .seeded s => some s
  | .legacySeeded s => some s
  | .legacyDerived p _ => rootSeed p
  | _ => none

def rootOf : SeedArg → Option Int
  | .int s => some s
  | .gen g => rootSeed g.stream
  | .none => none

structure Rooted (P : Sampler) : Prop where
  keep : ∀ sd w, sd ≠ .none → (P sd w).1.2 ≠ .none ∧ rootOf (P sd w).1.2 = rootOf sd
  reads : ∀ sd w, sd ≠ .none → ∀ c ∈ (P sd w).1.1.cells, ∀ r ∈ cellReads c, rootSeed r.stream = rootOf sd

theorem rooted_skip : Rooted skipS :=
  ⟨fun _ _ h => ⟨h, rfl⟩, fun _ _ _ c hc => by simp [skipS, Out.empty] at hc⟩

theorem rooted_seq {a b : Sampler} (ha : Rooted a) (hb : Rooted b) : Rooted (seqS a b) := by
  refine ⟨?_, ?_⟩
  · intro sd w h
    obtain ⟨h1, h2⟩ := ha.keep sd w h
    obtain ⟨h3, h4⟩ := hb.keep _ (a sd w).2 h1
    exact ⟨h3, h4.trans h2⟩
  · intro sd w h c hc r hr
    obtain ⟨h1, h2⟩ := ha.keep sd w h
    simp only [seqS, Out.append, List.mem_append] at hc
    rcases hc with hc | hc
    · exact ha.reads sd w h c hc r hr
    · exact (hb.reads _ _ h1 c hc r hr).trans h2

theorem rooted_loop {ι : Type} {body : ι → Sampler} (h : ∀ x, Rooted (body x)) (xs : List ι) :
    Rooted (loopS body xs) := by
  induction xs with
  | nil => exact rooted_skip
  | cons x xs ih => exact rooted_seq (h x) ih

theorem rooted_mapCells {P : Sampler} (f : Cell → Cell) (h : Rooted P)
    (hf : ∀ c, cellReads (f c) = cellReads c) : Rooted (mapCells f P) := by
  refine ⟨h.keep, ?_⟩
  intro sd w hsd c hc r hr
  simp only [mapCells, List.mem_map] at hc
  obtain ⟨c', hc', rfl⟩ := hc
  rw [hf] at hr
  exact h.reads sd w hsd c' hc' r hr

theorem rooted_withRng {body : Sampler} (h : Rooted body) : Rooted (withRng body) := by
  refine ⟨?_, ?_⟩
  · intro sd w hsd
    cases sd with
    | none => exact absurd rfl hsd
    | int s => simp [withRng, finalSeed]
    | gen g =>
      obtain ⟨h1, h2⟩ := h.keep (.gen g) w (by simp)
      simp only [withRng, defaultRng]
      cases hh : (body (.gen g) w).1.2 with
      | none => exact absurd hh h1
      | int s => simp [finalSeed]
      | gen g' => rw [hh] at h2; simpa [finalSeed] using h2
  · intro sd w hsd c hc r hr
    cases sd with
    | none => exact absurd rfl hsd
    | int s => exact h.reads (.gen ⟨.seeded s, 0⟩) w (by simp) c hc r hr
    | gen g => exact h.reads (.gen g) w (by simp) c hc r hr

theorem rooted_drawS (calls : List (Kind × Nat)) (mk : StreamId → Nat → List Cell) (h : MkOK calls.length mk) :
    Rooted (drawS calls mk) := by
  refine ⟨?_, ?_⟩
  · intro sd w hsd
    cases sd with
    | none => exact absurd rfl hsd
    | int s => exact ⟨by simp [drawS], rfl⟩
    | gen g => exact ⟨by simp [drawS], rfl⟩
  · intro sd w hsd c hc r hr
    cases sd with
    | none => exact absurd rfl hsd
    | int s => simp [drawS, Out.empty] at hc
    | gen g =>
      simp only [drawS] at hc
      rw [(h.within g.stream g.ctr c hc r hr).1]; rfl

theorem rooted_trunc (nDim n : Nat) : Rooted (truncSample nDim n) := by
  refine ⟨?_, ?_⟩
  · intro sd w hsd
    cases sd with
    | none => exact absurd rfl hsd
    | int s => exact ⟨by simp [truncSample], rfl⟩
    | gen g => exact ⟨by simp [truncSample], rfl⟩
  · intro sd w hsd c hc r hr
    cases sd with
    | none => exact absurd rfl hsd
    | int s =>
      simp only [truncSample, popCells, List.mem_map] at hc
      obtain ⟨p, _, rfl⟩ := hc
      simp only [cellReads, List.append_nil, List.mem_singleton] at hr
      subst hr; rfl
    | gen g =>
      simp only [truncSample, popCells, List.mem_map] at hc
      obtain ⟨p, _, rfl⟩ := hc
      simp only [cellReads, List.append_nil, List.mem_singleton] at hr
      subst hr; rfl

theorem rooted_elem (e : Elem) (nDim n : Nat) : Rooted (elemSample e nDim n) := by
  cases e
  · exact rooted_withRng (rooted_drawS _ _ (mkOK_normal n nDim))
  · exact rooted_withRng (rooted_drawS _ _ (mkOK_normal n nDim))
  · refine ⟨fun _ _ h => ⟨h, rfl⟩, ?_⟩
    intro sd w _ c hc r hr
    simp only [elemSample, popCells, List.mem_map] at hc
    obtain ⟨p, _, rfl⟩ := hc
    simp [cellReads] at hr
  · exact rooted_withRng (rooted_drawS _ _ (mkOK_choice n nDim))
  · exact rooted_trunc nDim n

theorem rooted_sub (m : SubModel) (n : Nat) : Rooted (subSample m n) := by
  unfold subSample
  split
  · exact rooted_withRng (rooted_loop (fun i => rooted_mapCells (fun c => { c with unit := i }) (rooted_elem m.elem m.nDim 1) (fun _ => rfl)) _)
  · exact rooted_elem _ _ _

theorem rooted_pop (p : Pop) (n : Nat) : Rooted (popSample p n) := by
  cases p with
  | single m => exact rooted_sub m n
  | composed ms =>
    exact rooted_withRng (rooted_loop (fun mo : SubModel × Nat => rooted_mapCells (fun c => { c with out := c.out + mo.2 }) (rooted_sub mo.1 n) (fun _ => rfl)) _)

theorem rooted_err (k : EM) (nT nS : Nat) : Rooted (errSample k nT nS) :=
  rooted_withRng (rooted_drawS _ _ (mkOK_err k nT nS))

theorem rooted_pred (v : Variant) (kinds : List EM) (nT nS : Nat) : Rooted (predSample v kinds nT nS) := by
  unfold predSample
  split
  · exact rooted_loop (fun ko : EM × Nat => rooted_mapCells (fun c => { c with out := ko.2 }) (rooted_err ko.1 nT nS) (fun _ => rfl)) _
  · exact rooted_withRng (rooted_loop (fun ko : EM × Nat => rooted_mapCells (fun c => { c with out := ko.2 }) (rooted_err ko.1 nT nS) (fun _ => rfl)) _)

theorem rooted_popPredCore (v : Variant) (p : Pop) (kinds : List EM) (nT n : Nat) :
    Rooted (popPredCore v p kinds nT n) := by
  have hp := rooted_pop p n
  have hL : Rooted (loopS (fun i => mapCells (fun c => { c with unit := i }) (predSample v kinds nT 1))
      (List.range n)) :=
    rooted_loop (fun i => rooted_mapCells (fun c => { c with unit := i }) (rooted_pred v kinds nT 1) (fun _ => rfl)) _
  refine ⟨?_, ?_⟩
  · intro sd w h
    obtain ⟨h1, h2⟩ := hp.keep sd w h
    obtain ⟨h3, h4⟩ := hL.keep _ (popSample p n sd w).2 h1
    exact ⟨h3, h4.trans h2⟩
  · intro sd w h c hc r hr
    obtain ⟨h1, h2⟩ := hp.keep sd w h
    simp only [popPredCore, List.mem_map] at hc
    obtain ⟨c', hc', rfl⟩ := hc
    simp only [cellReads, List.mem_append] at hr
    rcases hr with hr | hr
    · obtain ⟨c1, hc1, _, hr1⟩ := (mem_patientReads _ _ _).mp hr
      exact hp.reads sd w h c1 hc1 r (List.mem_append_left _ hr1)
    · exact (hL.reads _ _ h1 c' hc' r (List.mem_append_right _ hr)).trans h2

theorem rooted_popPred (v : Variant) (p : Pop) (kinds : List EM) (nT n : Nat) :
    Rooted (popPredSample v p kinds nT n) := by
  have h := rooted_popPredCore v p kinds nT n
  refine ⟨?_, ?_⟩
  · intro sd w hsd
    cases sd with
    | none => exact absurd rfl hsd
    | int s => simp [popPredSample, finalSeed]
    | gen g =>
      obtain ⟨h1, h2⟩ := h.keep (.gen g) w (by simp)
      simp only [popPredSample, convertSeed, defaultRng]
      cases hh : (popPredCore v p kinds nT n (.gen g) w).1.2 with
      | none => exact absurd hh h1
      | int s => simp [finalSeed]
      | gen g' => rw [hh] at h2; simpa [finalSeed] using h2
  · intro sd w hsd c hc r hr
    cases sd with
    | none => exact absurd rfl hsd
    | int s => exact h.reads (.gen ⟨.seeded s, 0⟩) w (by simp) c hc r hr
    | gen g => exact h.reads (.gen g) w (by simp) c hc r hr

theorem rooted_anyPred (v : Variant) (spec : PredSpec) (nT nS : Nat) : Rooted (anyPred v spec nT nS) := by
  cases spec with
  | indiv kinds => exact rooted_pred v kinds nT nS
  | pop p kinds => exact rooted_popPred v p kinds nT nS

theorem rooted_postIter (v : Variant) (spec : PredSpec) (nT n k : Nat) : Rooted (postIter v spec nT n k) := by
  have hA := rooted_anyPred v spec nT n
  refine ⟨?_, ?_⟩
  · intro sd w hsd
    cases sd with
    | none => exact absurd rfl hsd
    | int s => exact ⟨by simp [postIter], rfl⟩
    | gen g => exact hA.keep (.gen ⟨g.stream, g.ctr + 1⟩) w (by simp)
  · intro sd w hsd c hc r hr
    cases sd with
    | none => exact absurd rfl hsd
    | int s => simp [postIter, Out.empty] at hc
    | gen g =>
      simp only [postIter] at hc
      obtain ⟨c', hc', _, rfl⟩ := (mem_keepFirst _ _ _ _).mp hc
      simp only [cellReads, List.singleton_append, List.cons_append, List.mem_cons] at hr
      rcases hr with rfl | hr
      · rfl
      · exact hA.reads (.gen ⟨g.stream, g.ctr + 1⟩) w (by simp) c' hc' r hr

theorem rooted_postPred (v : Variant) (spec : PredSpec) (nT n : Nat) : Rooted (postPredSample v spec nT n) :=
  rooted_withRng (rooted_loop (fun k => rooted_postIter v spec nT n k) _)

theorem rooted_pamLoop (v : Variant) (nT : Nat) (models : List (PredSpec × Nat)) :
    ∀ shift, Rooted (pamLoop v nT shift models) := by
  induction models with
  | nil => intro _; exact rooted_skip
  | cons m rest ih =>
    intro shift
    obtain ⟨spec, cnt⟩ := m
    unfold pamLoop
    refine rooted_seq ?_ (ih _)
    split
    · exact rooted_skip
    · exact rooted_mapCells (fun c => { c with unit := c.unit + shift }) (rooted_postPred v spec nT cnt) (fun _ => rfl)

theorem rooted_pam_cells (v : Variant) (models : List (PredSpec × Nat)) (nT : Nat) (s : Int) (w : World) :
    ∀ c ∈ (pamSample v models nT (.int s) w).1.1.cells, ∀ r ∈ cellReads c, rootSeed r.stream = some s := by
  intro c hc r hr
  simp only [pamSample, defaultRng] at hc
  split at hc
  · exact (rooted_pamLoop v nT models 0).reads (.gen ⟨.seeded s, 0⟩) _ (by simp) c hc r hr
  · exact (rooted_pamLoop v nT models 0).reads (.gen ⟨.seeded s, 0 + 1⟩) _ (by simp) c hc r hr

/-- entry points all of whose variates come from streams rooted in the seed itself (the prior
    predictive model also uses `seed + sample_id`, the hierarchical initial parameters `seed + 1`) -/
def Entry.singleRoot : Entry → Bool
  | .priorPredictive _ _ _ => false
  | .initHierarchical _ _ _ _ => false
  | _ => true


theorem rooted_entry (v : Variant) (e : Entry) (he : e.singleRoot = true) (s : Int) (w : World) :
    ∀ c ∈ (e.run v (.int s) w).1.1.cells, ∀ r ∈ cellReads c, rootSeed r.stream = some s := by
  cases e with
  | error k nT nS => exact (rooted_err k nT nS).reads (.int s) w (by simp)
  | population p n => exact (rooted_pop p n).reads (.int s) w (by simp)
  | predictive kinds nT nS => exact (rooted_pred v kinds nT nS).reads (.int s) w (by simp)
  | popPredictive p kinds nT n => exact (rooted_popPred v p kinds nT n).reads (.int s) w (by simp)
  | priorPredictive spec nT n => simp [Entry.singleRoot] at he
  | posteriorPredictive spec nT n => exact (rooted_postPred v spec nT n).reads (.int s) w (by simp)
  | pam models nT => exact rooted_pam_cells v models nT s w
  | initLogPosterior n =>
    intro c hc r hr
    simp only [Entry.run, initLogPosterior, seedGlobal, globCall, List.mem_map] at hc
    obtain ⟨k, _, rfl⟩ := hc
    simp only [cellReads, List.append_nil, List.mem_singleton] at hr
    subst hr; rfl
  | initHierarchical p nIds nEps n => simp [Entry.singleRoot] at he


end ChiModel.Seeds
