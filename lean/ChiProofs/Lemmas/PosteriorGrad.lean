import ChiProofs.Lemmas.PosteriorSums
import Mathlib.Analysis.SpecialFunctions.ExpDeriv
import Mathlib.Analysis.Calculus.Deriv.Mul
/-! # Helper lemmas for the gradient assembly of the filter posterior (C13) -/
set_option linter.unusedSectionVars false
set_option linter.unusedVariables false
set_option linter.unusedSimpArgs false
namespace ChiModel
namespace FP
open ScalarFns Finset

/-! ## pieces of the gradient assembly (C13_grad) -/

theorem eps_index (c : Cfg) (s r j : Nat) (hr : r < c.R) (hj : j < c.T) :
    (s * (c.R * c.T) + r * c.T + j) / (c.R * c.T) = s ∧
    ((s * (c.R * c.T) + r * c.T + j) % (c.R * c.T)) / c.T = r ∧
    (s * (c.R * c.T) + r * c.T + j) % c.T = j := by
  have hrj : r * c.T + j < c.R * c.T := by
    have : r * c.T + c.T ≤ c.R * c.T := by rw [← Nat.succ_mul]; exact Nat.mul_le_mul_right _ hr
    omega
  have a := div_mod_block s (r * c.T + j) (c.R * c.T) hrj
  have b := div_mod_block r j c.T hj
  have e : s * (c.R * c.T) + r * c.T + j = s * (c.R * c.T) + (r * c.T + j) := by omega
  have e2 : s * (c.R * c.T) + r * c.T + j = (s * c.R + r) * c.T + j := by
    rw [Nat.add_mul, Nat.mul_assoc]
  have d := div_mod_block (s * c.R + r) j c.T hj
  refine ⟨by rw [e]; exact a.1, by rw [e, a.2]; exact b.1, by rw [e2]; exact d.2⟩

theorem sum_eps_block (c : Cfg) (f : Nat → ℝ) :
    ∑ k ∈ range (c.nS * (c.T * c.R)), f k
      = ∑ s ∈ range c.nS, ∑ r ∈ range c.R, ∑ j ∈ range c.T, f (s * (c.R * c.T) + r * c.T + j) := by
  rw [Nat.mul_comm c.T c.R, sum_range_mul]
  refine Finset.sum_congr rfl fun s _ => ?_
  rw [sum_range_mul]
  refine Finset.sum_congr rfl fun r _ => Finset.sum_congr rfl fun j _ => ?_
  rw [Nat.add_assoc]

theorem sigmaOf_hasDerivAt (c : Cfg) (fixed : Nat → ℝ) (x : ℝ → Nat → ℝ) (x' : Nat → ℝ) (t0 : ℝ)
    (hx : ∀ q, HasDerivAt (fun t => x t q) (x' q) t0) (r : Nat) :
    HasDerivAt (fun t => sigmaOf c fixed (x t) r) (if c.sigmaFree then x' (c.nPop + r) else 0) t0 := by
  unfold sigmaOf
  cases c.sigmaFree
  · simpa using hasDerivAt_const t0 (fixed r)
  · simpa using hx (c.nPop + r)

theorem noisy_hasDerivAt (ls : Bool) (M sg ep : ℝ → ℝ) (M' sg' ep' t0 : ℝ)
    (hM : HasDerivAt M M' t0) (hs : HasDerivAt sg sg' t0) (he : HasDerivAt ep ep' t0) :
    HasDerivAt (fun t => noisy ls (M t) (sg t) (ep t))
      (if ls then M' * Real.exp (sg t0 * ep t0)
          + noisy ls (M t0) (sg t0) (ep t0) * (sg' * ep t0 + sg t0 * ep')
        else M' + (sg' * ep t0 + sg t0 * ep')) t0 := by
  unfold noisy
  cases ls
  · simp only [Bool.false_eq_true, if_false]
    exact hM.add (hs.mul he)
  · simp only [if_true, exp_real]
    have h := hM.mul (hs.mul he).exp
    refine h.congr_deriv ?_
    simp only [Pi.mul_apply]
    ring

theorem noiseTerm_hasDerivAt (c : Cfg) (x : ℝ → Nat → ℝ) (x' : Nat → ℝ) (t0 : ℝ)
    (hx : ∀ q, HasDerivAt (fun t => x t q) (x' q) t0) :
    HasDerivAt (fun t => noiseTerm c (x t))
      (-(∑ s ∈ range c.nS, ∑ r ∈ range c.R, ∑ j ∈ range c.T,
          epsBlock c (x t0) s r j * x' (c.endBottom + s * (c.R * c.T) + r * c.T + j))) t0 := by
  unfold noiseTerm
  simp only [isum_eq]
  have hsq : ∀ s r j, HasDerivAt (fun t => epsBlock c (x t) s r j * epsBlock c (x t) s r j)
      (2 * (epsBlock c (x t0) s r j * x' (c.endBottom + s * (c.R * c.T) + r * c.T + j))) t0 := by
    intro s r j
    have h := hx (c.endBottom + s * (c.R * c.T) + r * c.T + j)
    exact (h.mul h).congr_deriv (by simp only [epsBlock]; ring)
  have hsum : HasDerivAt (fun t => ∑ s ∈ range c.nS, ∑ r ∈ range c.R, ∑ j ∈ range c.T,
      epsBlock c (x t) s r j * epsBlock c (x t) s r j)
      (∑ s ∈ range c.nS, ∑ r ∈ range c.R, ∑ j ∈ range c.T,
        2 * (epsBlock c (x t0) s r j * x' (c.endBottom + s * (c.R * c.T) + r * c.T + j))) t0 :=
    HasDerivAt.fun_sum fun s _ => HasDerivAt.fun_sum fun r _ => HasDerivAt.fun_sum fun j _ => hsq s r j
  have h := (hsum.div_const 2).const_sub
    (-(ScalarFns.ofNat c.nS * ScalarFns.ofNat c.R * ScalarFns.log (two * ScalarFns.pi) / two) : ℝ)
  refine h.congr_deriv ?_
  simp only [← Finset.mul_sum]
  ring

/-- value of `sensBefore` on the three blocks that `_remove_duplicates` does not overwrite -/
theorem sensBefore_pop {τ : Type} (c : Cfg) (E : Env τ ℝ) (G : GradEnv ℝ)
    (fg y : Nat → Nat → Nat → ℝ) (x : Nat → ℝ) (q : Nat) (hq : q < c.nPop) :
    sensBefore c E G fg y x q = G.priorGrad q + G.dtheta (dsDpsi c E G fg x) q := by
  unfold sensBefore; simp only [if_pos hq]

theorem sensBefore_sigma {τ : Type} (c : Cfg) (E : Env τ ℝ) (G : GradEnv ℝ)
    (fg y : Nat → Nat → Nat → ℝ) (x : Nat → ℝ) (r : Nat) (hr : c.nPop + r < c.nTop) :
    sensBefore c E G fg y x (c.nPop + r)
      = G.priorGrad (c.nPop + r) + ∑ s ∈ range c.nS, ∑ j ∈ range c.T,
          (if c.logScale then fg s r j * epsBlock c x s r j * y s r j
           else fg s r j * epsBlock c x s r j) := by
  unfold sensBefore
  simp only [if_neg (show ¬ c.nPop + r < c.nPop by omega), if_pos hr, Nat.add_sub_cancel_left, isum_eq]

theorem sensBefore_eps {τ : Type} (c : Cfg) (E : Env τ ℝ) (G : GradEnv ℝ)
    (fg y : Nat → Nat → Nat → ℝ) (x : Nat → ℝ) (s r j : Nat) (hr : r < c.R) (hj : j < c.T) :
    sensBefore c E G fg y x (c.endBottom + (s * (c.R * c.T) + r * c.T + j))
      = -(epsBlock c x s r j)
        + (if c.logScale then fg s r j * y s r j * sigmaOf c E.sigmaFixed x r
           else fg s r j * sigmaOf c E.sigmaFixed x r) := by
  obtain ⟨h1, h2, h3⟩ := eps_index c s r j hr hj
  have hEB : c.nPop ≤ c.endBottom ∧ c.nTop ≤ c.endBottom := by
    simp only [Cfg.endBottom, Cfg.nTop]; omega
  unfold sensBefore
  simp only [if_neg (show ¬ c.endBottom + (s * (c.R * c.T) + r * c.T + j) < c.nPop by omega),
    if_neg (show ¬ c.endBottom + (s * (c.R * c.T) + r * c.T + j) < c.nTop by omega),
    if_neg (show ¬ c.endBottom + (s * (c.R * c.T) + r * c.T + j) < c.endBottom by omega),
    Nat.add_sub_cancel_left, h1, h2, h3]

end FP
end ChiModel
