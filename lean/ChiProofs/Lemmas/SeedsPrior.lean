import ChiProofs.Lemmas.SeedsRoot
set_option linter.unusedSectionVars false
set_option linter.unusedSimpArgs false
namespace ChiModel.Seeds

/-! ### every measurement entry reads noise -/

def HasNoise (P : Sampler) : Prop := ∀ sd w, ∀ c ∈ (P sd w).1.1.cells, c.noise ≠ []

theorem hasNoise_skip : HasNoise skipS := fun _ _ c hc => by simp [skipS, Out.empty] at hc

theorem hasNoise_seq {a b : Sampler} (ha : HasNoise a) (hb : HasNoise b) : HasNoise (seqS a b) := by
  intro sd w c hc
  simp only [seqS, Out.append, List.mem_append] at hc
  rcases hc with hc | hc
  · exact ha _ _ c hc
  · exact hb _ _ c hc

theorem hasNoise_loop {ι : Type} {body : ι → Sampler} (h : ∀ x, HasNoise (body x)) (xs : List ι) :
    HasNoise (loopS body xs) := by
  induction xs with
  | nil => exact hasNoise_skip
  | cons x xs ih => exact hasNoise_seq (h x) ih

theorem hasNoise_mapCells {P : Sampler} (f : Cell → Cell) (h : HasNoise P) (hf : ∀ c, (f c).noise = c.noise) :
    HasNoise (mapCells f P) := by
  intro sd w c hc
  simp only [mapCells, List.mem_map] at hc
  obtain ⟨c', hc', rfl⟩ := hc
  rw [hf]; exact h _ _ c' hc'

theorem hasNoise_withRng {body : Sampler} (h : HasNoise body) : HasNoise (withRng body) :=
  fun _ _ c hc => h _ _ c hc

theorem hasNoise_errBody (k : EM) (nT nS : Nat) : HasNoise (errBody k nT nS) := by
  intro sd w c hc
  cases sd with
  | gen g =>
    have := errBody_noise_length k nT nS g w c hc
    intro h0
    rw [h0] at this
    cases k <;> simp [EM.nCalls] at this
  | int s => simp [errBody, drawS, Out.empty] at hc
  | none => simp [errBody, drawS, Out.empty] at hc

theorem hasNoise_pred (v : Variant) (kinds : List EM) (nT nS : Nat) : HasNoise (predSample v kinds nT nS) := by
  have hl : HasNoise (loopS (fun ko : EM × Nat =>
      mapCells (fun c => { c with out := ko.2 }) (errSample ko.1 nT nS)) kinds.zipIdx) :=
    hasNoise_loop (fun ko : EM × Nat => hasNoise_mapCells (fun c => { c with out := ko.2 })
      (hasNoise_withRng (hasNoise_errBody ko.1 nT nS)) (fun _ => rfl)) _
  unfold predSample
  split
  · exact hl
  · exact hasNoise_withRng hl

/-! ### error-model entries carry no parameter reads -/

def ParNil (P : Sampler) : Prop := ∀ sd w, ∀ c ∈ (P sd w).1.1.cells, c.par = []

theorem parNil_skip : ParNil skipS := fun _ _ c hc => by simp [skipS, Out.empty] at hc

theorem parNil_seq {a b : Sampler} (ha : ParNil a) (hb : ParNil b) : ParNil (seqS a b) := by
  intro sd w c hc
  simp only [seqS, Out.append, List.mem_append] at hc
  rcases hc with hc | hc
  · exact ha _ _ c hc
  · exact hb _ _ c hc

theorem parNil_loop {ι : Type} {body : ι → Sampler} (h : ∀ x, ParNil (body x)) (xs : List ι) :
    ParNil (loopS body xs) := by
  induction xs with
  | nil => exact parNil_skip
  | cons x xs ih => exact parNil_seq (h x) ih

theorem parNil_mapCells {P : Sampler} (f : Cell → Cell) (h : ParNil P) (hf : ∀ c, (f c).par = c.par) :
    ParNil (mapCells f P) := by
  intro sd w c hc
  simp only [mapCells, List.mem_map] at hc
  obtain ⟨c', hc', rfl⟩ := hc
  rw [hf]; exact h _ _ c' hc'

theorem parNil_withRng {body : Sampler} (h : ParNil body) : ParNil (withRng body) :=
  fun _ _ c hc => h _ _ c hc

theorem parNil_errBody (k : EM) (nT nS : Nat) : ParNil (errBody k nT nS) := by
  intro sd w c hc
  cases sd with
  | gen g =>
    simp only [errBody, drawS, gridCells, List.mem_map] at hc
    obtain ⟨p, _, rfl⟩ := hc
    rfl
  | int s => simp [errBody, drawS, Out.empty] at hc
  | none => simp [errBody, drawS, Out.empty] at hc

theorem parNil_pred (v : Variant) (kinds : List EM) (nT nS : Nat) : ParNil (predSample v kinds nT nS) := by
  have hl : ParNil (loopS (fun ko : EM × Nat =>
      mapCells (fun c => { c with out := ko.2 }) (errSample ko.1 nT nS)) kinds.zipIdx) :=
    parNil_loop (fun ko : EM × Nat => parNil_mapCells (fun c => { c with out := ko.2 })
      (parNil_withRng (parNil_errBody ko.1 nT nS)) (fun _ => rfl)) _
  unfold predSample
  split
  · exact hl
  · exact parNil_withRng hl

/-! ### the prior predictive model with an integer seed (individual-level model, intended
`PredictiveModel`): sample `k` reads row `k` of the prior's draws on the seeded global generator and
noise from the stream of seed `s + k + 1` -/

/-- with a seed, nothing global is touched -/
def Pure (P : Sampler) : Prop := ∀ sd w, sd ≠ .none → (P sd w).2 = w ∧ (P sd w).1.2 ≠ .none

theorem pure_skip : Pure skipS := fun _ _ h => ⟨rfl, h⟩

theorem pure_seq {a b : Sampler} (ha : Pure a) (hb : Pure b) : Pure (seqS a b) := by
  intro sd w h
  obtain ⟨h1, h2⟩ := ha sd w h
  obtain ⟨h3, h4⟩ := hb _ (a sd w).2 h2
  exact ⟨by simp only [seqS]; rw [h3, h1], h4⟩

theorem pure_loop {ι : Type} {body : ι → Sampler} (h : ∀ x, Pure (body x)) (xs : List ι) :
    Pure (loopS body xs) := by
  induction xs with
  | nil => exact pure_skip
  | cons x xs ih => exact pure_seq (h x) ih

theorem pure_mapCells {P : Sampler} (f : Cell → Cell) (h : Pure P) : Pure (mapCells f P) := h

theorem pure_withRng {body : Sampler} (h : Pure body) : Pure (withRng body) := by
  intro sd w hsd
  cases sd with
  | none => exact absurd rfl hsd
  | int s => exact ⟨(h (.gen ⟨.seeded s, 0⟩) w (by simp)).1, by simp [withRng, finalSeed]⟩
  | gen g =>
    obtain ⟨h1, h2⟩ := h (.gen g) w (by simp)
    refine ⟨h1, ?_⟩
    simp only [withRng, defaultRng]
    cases hh : (body (.gen g) w).1.2 <;> simp [finalSeed]

theorem pure_drawS (calls : List (Kind × Nat)) (mk : StreamId → Nat → List Cell) : Pure (drawS calls mk) := by
  intro sd w hsd
  cases sd with
  | none => exact absurd rfl hsd
  | int s => exact ⟨rfl, by simp [drawS]⟩
  | gen g => exact ⟨rfl, by simp [drawS]⟩

theorem pure_pred (v : Variant) (kinds : List EM) (nT nS : Nat) : Pure (predSample v kinds nT nS) := by
  have hl : Pure (loopS (fun ko : EM × Nat =>
      mapCells (fun c => { c with out := ko.2 }) (errSample ko.1 nT nS)) kinds.zipIdx) :=
    pure_loop (fun ko : EM × Nat => pure_mapCells (fun c => { c with out := ko.2 })
      (pure_withRng (pure_drawS _ _))) _
  unfold predSample
  split
  · exact hl
  · exact pure_withRng hl

/-- what is known about the entries of iterations `ks` started with the global generator at
    `⟨legacySeeded s, c⟩` -/
structure PriorInv (s : Int) (c : Nat) (ks : List Nat) (cs : List Cell) : Prop where
  indep : Indep cs
  unit : ∀ cell ∈ cs, cell.unit ∈ ks
  par : ∀ cell ∈ cs, ∀ r ∈ cell.par, ∃ j, c ≤ j ∧ r = ⟨.legacySeeded s, j, 0⟩
  noise : ∀ cell ∈ cs, ∀ r ∈ cell.noise,
    r.stream = .seeded (s + (cell.unit + 1)) ∨ ∃ j, r.stream = .legacyDerived (.seeded (s + (cell.unit + 1))) j

theorem priorLoop_inv (v : Variant) (hv : v.sharedSeed = false) (kinds : List EM) (nT n : Nat) (s : Int)
    (ks : List Nat) (hks : ks.Nodup) : ∀ (c : Nat) (w : World), w.glob = ⟨.legacySeeded s, c⟩ →
    PriorInv s c ks (priorLoop v (.indiv kinds) nT n (some s) ks w).1.cells := by
  induction ks with
  | nil =>
    intro c w _
    exact ⟨indep_nil, by simp [priorLoop, Out.empty], by simp [priorLoop, Out.empty],
      by simp [priorLoop, Out.empty]⟩
  | cons k ks ih =>
    intro c w hw
    obtain ⟨hk, hks'⟩ := List.nodup_cons.mp hks
    -- the inner call: PredictiveModel.sample with the integer seed s + k + 1
    have hwc : (globCall .prior 1 w).2.glob = ⟨.legacySeeded s, c + 1⟩ := by simp [globCall, hw]
    have hpure := pure_pred v kinds nT n (.int (s + (k + 1))) (globCall .prior 1 w).2 (by simp)
    have hgood : Good (genM (.seeded (s + (k + 1)))) (loopS (fun ko : EM × Nat =>
        mapCells (fun c => { c with out := ko.2 }) (errSample ko.1 nT n)) kinds.zipIdx) :=
      good_predLoop _ _ nT n
    have hinner : ∀ cell ∈ (anyPred v (.indiv kinds) nT n (.int (s + (k + 1))) (globCall .prior 1 w).2).1.1.cells,
        ∀ r ∈ cellReads cell, r.stream = .seeded (s + (k + 1)) ∨
          ∃ j, r.stream = .legacyDerived (.seeded (s + (k + 1))) j := by
      intro cell hcell r hr
      simp only [anyPred, predSample, hv, Bool.false_eq_true, if_false, withRng, defaultRng] at hcell
      obtain ⟨t, ht, _, _⟩ := hgood.within (.gen ⟨.seeded (s + (k + 1)), 0⟩) _ ⟨_, rfl, rfl⟩ cell hcell r hr
      exact stream_of_tokG ht
    have hindep : Indep (anyPred v (.indiv kinds) nT n (.int (s + (k + 1))) (globCall .prior 1 w).2).1.1.cells :=
      indep_pred v kinds nT n _ _ (fun h => by rw [hv] at h; cases h)
    have hrest := ih hks' (c + 1) (anyPred v (.indiv kinds) nT n (.int (s + (k + 1))) (globCall .prior 1 w).2).2
      (by simp only [anyPred]; rw [hpure.1]; exact hwc)
    -- the head entries
    have hrow : ∀ cell ∈ (anyPred v (.indiv kinds) nT n (.int (s + (k + 1))) (globCall .prior 1 w).2).1.1.cells,
        (⟨w.glob.stream, w.glob.ctr, 0⟩ : Read) ∉ cell.noise := by
      intro cell hcell hmem
      rcases hinner cell hcell _ (List.mem_append_right _ hmem) with h | ⟨j, h⟩ <;> simp [hw] at h
    have hhead := indep_keepFirst k ⟨w.glob.stream, w.glob.ctr, 0⟩ _ hindep hrow
    simp only [priorLoop, Out.append]
    refine ⟨?_, ?_, ?_, ?_⟩
    · refine indep_append hhead hrest.indep ?_
      intro x hx y hy r hrx hry
      obtain ⟨x', hx', _, rfl⟩ := (mem_keepFirst _ _ _ _).mp hx
      have hyu := hrest.unit y hy
      have hne : y.unit ≠ k := fun h => hk (h ▸ hyu)
      -- reads of y: a later row, or noise of another seed
      have hy_cases : (∃ j, c + 1 ≤ j ∧ r = ⟨.legacySeeded s, j, 0⟩) ∨
          (r.stream = .seeded (s + (y.unit + 1)) ∨ ∃ j, r.stream = .legacyDerived (.seeded (s + (y.unit + 1))) j) := by
        simp only [cellReads, List.mem_append] at hry
        rcases hry with h | h
        · left; exact hrest.par y hy r h
        · right; exact hrest.noise y hy r h
      simp only [cellReads, List.singleton_append, List.cons_append, List.mem_cons] at hrx
      have hx_cases : r = ⟨.legacySeeded s, c, 0⟩ ∨
          (r.stream = .seeded (s + (k + 1)) ∨ ∃ j, r.stream = .legacyDerived (.seeded (s + (k + 1))) j) := by
        rcases hrx with h | h
        · left; rw [h, hw]
        · right; exact hinner x' hx' r h
      have hseed : s + ((y.unit : Int) + 1) ≠ s + ((k : Int) + 1) := by
        intro h; apply hne; omega
      rcases hx_cases with h1 | h1 | ⟨j1, h1⟩ <;> rcases hy_cases with ⟨j2, hj2, h2⟩ | h2 | ⟨j2, h2⟩
      · rw [h1] at h2; simp only [Read.mk.injEq, true_and] at h2; omega
      · rw [h1] at h2; simp at h2
      · rw [h1] at h2; simp at h2
      · rw [h2] at h1; simp at h1
      · rw [h1] at h2; simp only [StreamId.seeded.injEq] at h2; exact hseed h2.symm
      · rw [h1] at h2; simp at h2
      · rw [h2] at h1; simp at h1
      · rw [h1] at h2; simp at h2
      · rw [h1] at h2
        simp only [StreamId.legacyDerived.injEq, StreamId.seeded.injEq] at h2
        exact hseed h2.1.symm
    · intro cell hcell
      rcases List.mem_append.mp hcell with h | h
      · obtain ⟨x', _, _, rfl⟩ := (mem_keepFirst _ _ _ _).mp h
        exact List.mem_cons_self
      · exact List.mem_cons_of_mem _ (hrest.unit cell h)
    · intro cell hcell r hr
      rcases List.mem_append.mp hcell with h | h
      · obtain ⟨x', hx', _, rfl⟩ := (mem_keepFirst _ _ _ _).mp h
        simp only [List.singleton_append, List.mem_cons] at hr
        rcases hr with rfl | hr
        · exact ⟨c, Nat.le_refl _, by rw [hw]⟩
        · -- error-model entries carry no parameter reads
          have := parNil_pred v kinds nT n _ _ x' hx'
          rw [this] at hr
          simp at hr
      · obtain ⟨j, hj, hr'⟩ := hrest.par cell h r hr
        exact ⟨j, by omega, hr'⟩
    · intro cell hcell r hr
      rcases List.mem_append.mp hcell with h | h
      · obtain ⟨x', hx', _, rfl⟩ := (mem_keepFirst _ _ _ _).mp h
        exact hinner x' hx' r (List.mem_append_right _ hr)
      · exact hrest.noise cell h r hr

end ChiModel.Seeds
