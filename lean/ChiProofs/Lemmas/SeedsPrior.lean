import ChiProofs.Lemmas.SeedsRoot
set_option linter.unusedSectionVars false
set_option linter.unusedSimpArgs false
namespace ChiModel.Seeds

/-! ### every measurement entry reads noise -/

def HasNoise (P : Sampler) : Prop := ∀ sd w, ∀ c ∈ (P sd w).1.1.cells, c.noise ≠ []

theorem hasNoise_skip : HasNoise skipS := fun _ _ c hc => by simp [skipS, Out.empty] at hc

theorem hasNoise_seq {a b : Sampler} (ha : HasNoise a) (hb : HasNoise b) : HasNoise (seqS a b) := by
  intro sd w c hc
  simp only [seqS, Out.append, List.mem_append] at hc
  rcases hc with hc | hc
  · exact ha _ _ c hc
  · exact hb _ _ c hc

theorem hasNoise_loop {ι : Type} {body : ι → Sampler} (h : ∀ x, HasNoise (body x)) (xs : List ι) :
    HasNoise (loopS body xs) := by
  induction xs with
  | nil => exact hasNoise_skip
  | cons x xs ih => exact hasNoise_seq (h x) ih

theorem hasNoise_mapCells {P : Sampler} (f : Cell → Cell) (h : HasNoise P) (hf : ∀ c, (f c).noise = c.noise) :
    HasNoise (mapCells f P) := by
  intro sd w c hc
  simp only [mapCells, List.mem_map] at hc
  obtain ⟨c', hc', rfl⟩ := hc
  rw [hf]; exact h _ _ c' hc'

theorem hasNoise_withRng {body : Sampler} (h : HasNoise body) : HasNoise (withRng body) :=
  fun _ _ c hc => h _ _ c hc

theorem hasNoise_errBody (k : EM) (nT nS : Nat) : HasNoise (errBody k nT nS) := by
  intro sd w c hc
  cases sd with
  | gen g =>
    have := errBody_noise_length k nT nS g w c hc
    intro h0
    rw [h0] at this
    cases k <;> simp [EM.nCalls] at this
  | int s => simp [errBody, drawS, Out.empty] at hc
  | none => simp [errBody, drawS, Out.empty] at hc

theorem hasNoise_pred (v : Variant) (kinds : List EM) (nT nS : Nat) : HasNoise (predSample v kinds nT nS) := by
  have hl : HasNoise (loopS (fun ko : EM × Nat =>
      mapCells (fun c => { c with out := ko.2 }) (errSample ko.1 nT nS)) kinds.zipIdx) :=
    hasNoise_loop (fun ko : EM × Nat => hasNoise_mapCells (fun c => { c with out := ko.2 })
      (hasNoise_withRng (hasNoise_errBody ko.1 nT nS)) (fun _ => rfl)) _
  unfold predSample
  split
  · exact hl
  · exact hasNoise_withRng hl

/-! ### error-model entries carry no parameter reads -/

def ParNil (P : Sampler) : Prop := ∀ sd w, ∀ c ∈ (P sd w).1.1.cells, c.par = []

theorem parNil_skip : ParNil skipS := fun _ _ c hc => by simp [skipS, Out.empty] at hc

theorem parNil_seq {a b : Sampler} (ha : ParNil a) (hb : ParNil b) : ParNil (seqS a b) := by
  intro sd w c hc
  simp only [seqS, Out.append, List.mem_append] at hc
  rcases hc with hc | hc
  · exact ha _ _ c hc
  · exact hb _ _ c hc

theorem parNil_loop {ι : Type} {body : ι → Sampler} (h : ∀ x, ParNil (body x)) (xs : List ι) :
    ParNil (loopS body xs) := by
  induction xs with
  | nil => exact parNil_skip
  | cons x xs ih => exact parNil_seq (h x) ih

theorem parNil_mapCells {P : Sampler} (f : Cell → Cell) (h : ParNil P) (hf : ∀ c, (f c).par = c.par) :
    ParNil (mapCells f P) := by
  intro sd w c hc
  simp only [mapCells, List.mem_map] at hc
  obtain ⟨c', hc', rfl⟩ := hc
  rw [hf]; exact h _ _ c' hc'

theorem parNil_withRng {body : Sampler} (h : ParNil body) : ParNil (withRng body) :=
  fun _ _ c hc => h _ _ c hc

theorem parNil_errBody (k : EM) (nT nS : Nat) : ParNil (errBody k nT nS) := by
  intro sd w c hc
  cases sd with
  | gen g =>
    simp only [errBody, drawS, gridCells, List.mem_map] at hc
    obtain ⟨p, _, rfl⟩ := hc
    rfl
  | int s => simp [errBody, drawS, Out.empty] at hc
  | none => simp [errBody, drawS, Out.empty] at hc

theorem parNil_pred (v : Variant) (kinds : List EM) (nT nS : Nat) : ParNil (predSample v kinds nT nS) := by
  have hl : ParNil (loopS (fun ko : EM × Nat =>
      mapCells (fun c => { c with out := ko.2 }) (errSample ko.1 nT nS)) kinds.zipIdx) :=
    parNil_loop (fun ko : EM × Nat => parNil_mapCells (fun c => { c with out := ko.2 })
      (parNil_withRng (parNil_errBody ko.1 nT nS)) (fun _ => rfl)) _
  unfold predSample
  split
  · exact hl
  · exact parNil_withRng hl

/-! ### the prior predictive model with an integer seed (individual-level model, intended
`PredictiveModel`): sample `k` reads row `k` of the prior's draws on the seeded global generator and
noise from the stream of seed `s + k + 1` -/

/-- with a seed, nothing global is touched -/
def Pure (P : Sampler) : Prop := ∀ sd w, sd ≠ .none → (P sd w).2 = w ∧ (P sd w).1.2 ≠ .none

theorem pure_skip : Pure skipS := fun _ _ h => ⟨rfl, h⟩

theorem pure_seq {a b : Sampler} (ha : Pure a) (hb : Pure b) : Pure (seqS a b) := by
  intro sd w h
  obtain ⟨h1, h2⟩ := ha sd w h
  obtain ⟨h3, h4⟩ := hb _ (a sd w).2 h2
  exact ⟨by simp only [seqS]; rw [h3, h1], h4⟩

theorem pure_loop {ι : Type} {body : ι → Sampler} (h : ∀ x, Pure (body x)) (xs : List ι) :
    Pure (loopS body xs) := by
  induction xs with
  | nil => exact pure_skip
  | cons x xs ih => exact pure_seq (h x) ih

theorem pure_mapCells {P : Sampler} (f : Cell → Cell) (h : Pure P) : Pure (mapCells f P) := h

theorem pure_withRng {body : Sampler} (h : Pure body) : Pure (withRng body) := by
  intro sd w hsd
  cases sd with
  | none => exact absurd rfl hsd
  | int s => exact ⟨(h (.gen ⟨.seeded s, 0⟩) w (by simp)).1, by simp [withRng, finalSeed]⟩
  | gen g =>
    obtain ⟨h1, h2⟩ := h (.gen g) w (by simp)
    refine ⟨h1, ?_⟩
    simp only [withRng, defaultRng]
    cases hh : (body (.gen g) w).1.2 <;> simp [finalSeed]

theorem pure_drawS (calls : List (Kind × Nat)) (mk : StreamId → Nat → List Cell) : Pure (drawS calls mk) := by
  intro sd w hsd
  cases sd with
  | none => exact absurd rfl hsd
  | int s => exact ⟨rfl, by simp [drawS]⟩
  | gen g => exact ⟨rfl, by simp [drawS]⟩

theorem pure_pred (v : Variant) (kinds : List EM) (nT nS : Nat) : Pure (predSample v kinds nT nS) := by
  have hl : Pure (loopS (fun ko : EM × Nat =>
      mapCells (fun c => { c with out := ko.2 }) (errSample ko.1 nT nS)) kinds.zipIdx) :=
    pure_loop (fun ko : EM × Nat => pure_mapCells (fun c => { c with out := ko.2 })
      (pure_withRng (pure_drawS _ _))) _
  unfold predSample
  split
  · exact hl
  · exact pure_withRng hl

/-! population models without truncated-Gaussian sub-models do not touch the global generator -/

def SubModel.noTrunc (m : SubModel) : Bool := m.elem != .truncGauss

def Pop.noTrunc : Pop → Bool
  | .single m => m.noTrunc
  | .composed ms => ms.all SubModel.noTrunc

def PredSpec.noTrunc : PredSpec → Bool
  | .indiv _ => true
  | .pop p _ => p.noTrunc

theorem pure_elem (e : Elem) (he : e ≠ .truncGauss) (nDim n : Nat) : Pure (elemSample e nDim n) := by
  cases e
  · exact pure_withRng (pure_drawS _ _)
  · exact pure_withRng (pure_drawS _ _)
  · intro sd w h; exact ⟨rfl, h⟩
  · exact pure_withRng (pure_drawS _ _)
  · exact absurd rfl he

theorem pure_sub (m : SubModel) (hm : m.noTrunc = true) (n : Nat) : Pure (subSample m n) := by
  have he : m.elem ≠ .truncGauss := by simpa [SubModel.noTrunc] using hm
  unfold subSample
  split
  · exact pure_withRng (pure_loop (fun i => pure_mapCells _ (pure_elem m.elem he m.nDim 1)) _)
  · exact pure_elem m.elem he m.nDim n

theorem mem_withOffsets {ms : List SubModel} : ∀ {off : Nat} {mo : SubModel × Nat},
    mo ∈ withOffsets off ms → mo.1 ∈ ms := by
  induction ms with
  | nil => intro off mo h; simp [withOffsets] at h
  | cons m ms ih =>
    intro off mo h
    simp only [withOffsets, List.mem_cons] at h
    rcases h with rfl | h
    · exact List.mem_cons_self
    · exact List.mem_cons_of_mem _ (ih h)

theorem pure_loop_mem {ι : Type} {body : ι → Sampler} (xs : List ι) (h : ∀ x ∈ xs, Pure (body x)) :
    Pure (loopS body xs) := by
  induction xs with
  | nil => exact pure_skip
  | cons x xs ih =>
    exact pure_seq (h x List.mem_cons_self) (ih (fun y hy => h y (List.mem_cons_of_mem _ hy)))

theorem pure_pop (p : Pop) (hp : p.noTrunc = true) (n : Nat) : Pure (popSample p n) := by
  cases p with
  | single m => exact pure_sub m hp n
  | composed ms =>
    simp only [Pop.noTrunc, List.all_eq_true] at hp
    exact pure_withRng (pure_loop_mem _ (fun mo hmo => pure_mapCells _ (pure_sub mo.1 (hp _ (mem_withOffsets hmo)) n)))

theorem pure_popPred (v : Variant) (p : Pop) (hp : p.noTrunc = true) (kinds : List EM) (nT n : Nat) :
    Pure (popPredSample v p kinds nT n) := by
  have hL : Pure (loopS (fun i => mapCells (fun c => { c with unit := i }) (predSample v kinds nT 1))
      (List.range n)) := pure_loop (fun i => pure_mapCells _ (pure_pred v kinds nT 1)) _
  intro sd w hsd
  have hcore : ∀ sd' w', sd' ≠ .none → (popPredCore v p kinds nT n sd' w').2 = w' := by
    intro sd' w' h'
    obtain ⟨h1, h2⟩ := pure_pop p hp n sd' w' h'
    obtain ⟨h3, _⟩ := hL _ (popSample p n sd' w').2 h2
    simp only [popPredCore]; rw [h3, h1]
  cases sd with
  | none => exact absurd rfl hsd
  | int s => exact ⟨by simp only [popPredSample, convertSeed, defaultRng]; exact hcore _ _ (by simp),
      by simp [popPredSample, finalSeed]⟩
  | gen g =>
    refine ⟨by simp only [popPredSample, convertSeed, defaultRng]; exact hcore _ _ (by simp), ?_⟩
    simp only [popPredSample, convertSeed, defaultRng]
    cases (popPredCore v p kinds nT n (.gen g) w).1.2 <;> simp [finalSeed]

/-- what the prior predictive loop needs from the wrapped predictive model, run with an integer seed -/
structure InnerOK (P : Sampler) : Prop where
  pure : ∀ s' w, (P (.int s') w).2 = w
  family : ∀ s' w, ∀ c ∈ (P (.int s') w).1.1.cells, ∀ r ∈ cellReads c,
    r.stream = .seeded s' ∨ ∃ j, r.stream = .legacyDerived (.seeded s') j
  indep : ∀ s' w, Indep (P (.int s') w).1.1.cells

theorem innerOK_anyPred (v : Variant) (hv : v.sharedSeed = false) (spec : PredSpec) (hs : spec.noTrunc = true)
    (nT n : Nat) : InnerOK (anyPred v spec nT n) := by
  cases spec with
  | indiv kinds =>
    refine ⟨fun s' w => (pure_pred v kinds nT n (.int s') w (by simp)).1, ?_,
      fun s' w => indep_pred v kinds nT n _ _ (fun h => by rw [hv] at h; cases h)⟩
    intro s' w cell hcell r hr
    simp only [anyPred, predSample, hv, Bool.false_eq_true, if_false, withRng, defaultRng] at hcell
    obtain ⟨t, ht, _, _⟩ := (good_predLoop (.seeded s') _ nT n).within (.gen ⟨.seeded s', 0⟩) _ ⟨_, rfl, rfl⟩
      cell hcell r hr
    exact stream_of_tokG ht
  | pop p kinds =>
    refine ⟨fun s' w => (pure_popPred v p hs kinds nT n (.int s') w (by simp)).1, ?_,
      fun s' w => indep_popPred v p kinds nT n _ _⟩
    intro s' w cell hcell r hr
    have hg := good_popPredCore (M := genM (.seeded s')) v p kinds nT n (good_pop _ p n) (good_pred _ v kinds nT 1)
    simp only [anyPred, popPredSample, convertSeed, defaultRng] at hcell
    obtain ⟨t, ht, _, _⟩ := hg.within (.gen ⟨.seeded s', 0⟩) _ ⟨_, rfl, rfl⟩ cell hcell r hr
    exact stream_of_tokG ht

/-- what is known about the entries of iterations `ks` started with the global generator at
    `⟨legacySeeded s, c⟩`: every read is a row of the prior's draws (call `≥ c` of the seeded global
    generator, parameters only) or belongs to the stream family of seed `s + unit + 1` -/
structure PriorInv (s : Int) (c : Nat) (ks : List Nat) (cs : List Cell) : Prop where
  indep : Indep cs
  unit : ∀ cell ∈ cs, cell.unit ∈ ks
  par : ∀ cell ∈ cs, ∀ r ∈ cell.par, (∃ j, c ≤ j ∧ r = ⟨.legacySeeded s, j, 0⟩) ∨
    (r.stream = .seeded (s + (cell.unit + 1)) ∨ ∃ j, r.stream = .legacyDerived (.seeded (s + (cell.unit + 1))) j)
  noise : ∀ cell ∈ cs, ∀ r ∈ cell.noise,
    r.stream = .seeded (s + (cell.unit + 1)) ∨ ∃ j, r.stream = .legacyDerived (.seeded (s + (cell.unit + 1))) j

theorem priorLoop_inv (v : Variant) (spec : PredSpec) (nT n : Nat) (hI : InnerOK (anyPred v spec nT n)) (s : Int)
    (ks : List Nat) (hks : ks.Nodup) : ∀ (c : Nat) (w : World), w.glob = ⟨.legacySeeded s, c⟩ →
    PriorInv s c ks (priorLoop v spec nT n (some s) ks w).1.cells := by
  induction ks with
  | nil =>
    intro c w _
    exact ⟨indep_nil, by simp [priorLoop, Out.empty], by simp [priorLoop, Out.empty],
      by simp [priorLoop, Out.empty]⟩
  | cons k ks ih =>
    intro c w hw
    obtain ⟨hk, hks'⟩ := List.nodup_cons.mp hks
    have hwc : (globCall .prior 1 w).2.glob = ⟨.legacySeeded s, c + 1⟩ := by simp [globCall, hw]
    have hinner := hI.family (s + (k + 1)) (globCall .prior 1 w).2
    have hindep := hI.indep (s + (k + 1)) (globCall .prior 1 w).2
    have hrest := ih hks' (c + 1) (anyPred v spec nT n (.int (s + (k + 1))) (globCall .prior 1 w).2).2
      (by rw [hI.pure]; exact hwc)
    have hrow : ∀ cell ∈ (anyPred v spec nT n (.int (s + (k + 1))) (globCall .prior 1 w).2).1.1.cells,
        (⟨w.glob.stream, w.glob.ctr, 0⟩ : Read) ∉ cell.noise := by
      intro cell hcell hmem
      rcases hinner cell hcell _ (List.mem_append_right _ hmem) with h | ⟨j, h⟩ <;> simp [hw] at h
    have hhead := indep_keepFirst k ⟨w.glob.stream, w.glob.ctr, 0⟩ _ hindep hrow
    -- reads of a head entry / of a later entry
    have head_cases : ∀ x' ∈ (anyPred v spec nT n (.int (s + (k + 1))) (globCall .prior 1 w).2).1.1.cells,
        ∀ r, r ∈ cellReads ({ x' with unit := k, par := [⟨w.glob.stream, w.glob.ctr, 0⟩] ++ x'.par } : Cell) →
        r = ⟨.legacySeeded s, c, 0⟩ ∨
          (r.stream = .seeded (s + (k + 1)) ∨ ∃ j, r.stream = .legacyDerived (.seeded (s + (k + 1))) j) := by
      intro x' hx' r hr
      simp only [cellReads, List.singleton_append, List.cons_append, List.mem_cons] at hr
      rcases hr with h | h
      · left; rw [h, hw]
      · right; exact hinner x' hx' r h
    simp only [priorLoop, Out.append]
    refine ⟨?_, ?_, ?_, ?_⟩
    · refine indep_append hhead hrest.indep ?_
      intro x hx y hy r hrx hry
      obtain ⟨x', hx', _, rfl⟩ := (mem_keepFirst _ _ _ _).mp hx
      have hyu := hrest.unit y hy
      have hne : y.unit ≠ k := fun h => hk (h ▸ hyu)
      have hy_cases : (∃ j, c + 1 ≤ j ∧ r = ⟨.legacySeeded s, j, 0⟩) ∨
          (r.stream = .seeded (s + (y.unit + 1)) ∨ ∃ j, r.stream = .legacyDerived (.seeded (s + (y.unit + 1))) j) := by
        simp only [cellReads, List.mem_append] at hry
        rcases hry with h | h
        · exact hrest.par y hy r h
        · right; exact hrest.noise y hy r h
      have hseed : s + ((y.unit : Int) + 1) ≠ s + ((k : Int) + 1) := by
        intro h; apply hne; omega
      rcases head_cases x' hx' r hrx with h1 | h1 | ⟨j1, h1⟩ <;> rcases hy_cases with ⟨j2, hj2, h2⟩ | h2 | ⟨j2, h2⟩
      · rw [h1] at h2; simp only [Read.mk.injEq, true_and] at h2; omega
      · rw [h1] at h2; simp at h2
      · rw [h1] at h2; simp at h2
      · rw [h2] at h1; simp at h1
      · rw [h1] at h2; simp only [StreamId.seeded.injEq] at h2; exact hseed h2.symm
      · rw [h1] at h2; simp at h2
      · rw [h2] at h1; simp at h1
      · rw [h1] at h2; simp at h2
      · rw [h1] at h2
        simp only [StreamId.legacyDerived.injEq, StreamId.seeded.injEq] at h2
        exact hseed h2.1.symm
    · intro cell hcell
      rcases List.mem_append.mp hcell with h | h
      · obtain ⟨x', _, _, rfl⟩ := (mem_keepFirst _ _ _ _).mp h
        exact List.mem_cons_self
      · exact List.mem_cons_of_mem _ (hrest.unit cell h)
    · intro cell hcell r hr
      rcases List.mem_append.mp hcell with h | h
      · obtain ⟨x', hx', _, rfl⟩ := (mem_keepFirst _ _ _ _).mp h
        rcases head_cases x' hx' r (List.mem_append_left _ hr) with h1 | h1
        · left; exact ⟨c, Nat.le_refl _, h1⟩
        · right; exact h1
      · rcases hrest.par cell h r hr with ⟨j, hj, hr'⟩ | h1
        · left; exact ⟨j, by omega, hr'⟩
        · right; exact h1
    · intro cell hcell r hr
      rcases List.mem_append.mp hcell with h | h
      · obtain ⟨x', hx', _, rfl⟩ := (mem_keepFirst _ _ _ _).mp h
        exact hinner x' hx' r (List.mem_append_right _ hr)
      · exact hrest.noise cell h r hr

end ChiModel.Seeds
