import ChiProofs.Lemmas.SeedsDet
import Mathlib.Data.List.Nodup
import Mathlib.Data.List.Range
set_option linter.unusedSectionVars false
set_option linter.unusedSimpArgs false
namespace ChiModel.Seeds

/-! ## Part B — which variates an entry reads: ranges of call indices, disjointness -/

def Disj (a b : Reads) : Prop := ∀ r ∈ a, r ∉ b

theorem Disj.symm {a b : Reads} (h : Disj a b) : Disj b a := fun r hb ha => h r ha hb
theorem disj_nil_left (b : Reads) : Disj [] b := fun _ h => by simp at h
theorem disj_nil_right (a : Reads) : Disj a [] := fun _ _ h => by simp at h

def cellReads (c : Cell) : Reads := c.par ++ c.noise

/-- independence of the entries of one returned array / table (under the ideal-PRNG assumption:
    distinct `(stream, call, position)` triples are independent variates):
    * the noise of two different entries is computed from different variates,
    * no noise variate is also used for a parameter,
    * the parameters of different samples / individuals are computed from different variates. -/
structure Indep (cs : List Cell) : Prop where
  noise : cs.Pairwise (fun a b => Disj a.noise b.noise)
  parNoise : ∀ a ∈ cs, ∀ b ∈ cs, Disj a.par b.noise
  par : ∀ a ∈ cs, ∀ b ∈ cs, a.unit ≠ b.unit → Disj a.par b.par

theorem indep_nil : Indep [] := ⟨List.Pairwise.nil, by simp, by simp⟩

/-- all reads of `x` differ from all reads of `y` -/
def Sep (x y : Cell) : Prop := Disj (cellReads x) (cellReads y)

theorem Sep.noise {x y : Cell} (h : Sep x y) : Disj x.noise y.noise :=
  fun r hx hy => h r (List.mem_append_right _ hx) (List.mem_append_right _ hy)
theorem Sep.parNoise {x y : Cell} (h : Sep x y) : Disj x.par y.noise :=
  fun r hx hy => h r (List.mem_append_left _ hx) (List.mem_append_right _ hy)
theorem Sep.noisePar {x y : Cell} (h : Sep x y) : Disj x.noise y.par :=
  fun r hx hy => h r (List.mem_append_right _ hx) (List.mem_append_left _ hy)
theorem Sep.par {x y : Cell} (h : Sep x y) : Disj x.par y.par :=
  fun r hx hy => h r (List.mem_append_left _ hx) (List.mem_append_left _ hy)

theorem indep_append {a b : List Cell} (ha : Indep a) (hb : Indep b)
    (hs : ∀ x ∈ a, ∀ y ∈ b, Sep x y) : Indep (a ++ b) := by
  refine ⟨List.pairwise_append.mpr ⟨ha.noise, hb.noise, fun x hx y hy => (hs x hx y hy).noise⟩, ?_, ?_⟩
  · intro x hx y hy
    rcases List.mem_append.mp hx with hx | hx <;> rcases List.mem_append.mp hy with hy | hy
    · exact ha.parNoise x hx y hy
    · exact (hs x hx y hy).parNoise
    · exact (hs y hy x hx).noisePar.symm
    · exact hb.parNoise x hx y hy
  · intro x hx y hy hne
    rcases List.mem_append.mp hx with hx | hx <;> rcases List.mem_append.mp hy with hy | hy
    · exact ha.par x hx y hy hne
    · exact (hs x hx y hy).par
    · exact (hs y hy x hx).par.symm
    · exact hb.par x hx y hy hne

/-- relabelling that keeps the reads and merges units at most -/
theorem indep_map {cs : List Cell} (f : Cell → Cell) (h : Indep cs)
    (hn : ∀ c, (f c).noise = c.noise) (hp : ∀ c, (f c).par = c.par)
    (hu : ∀ a b, (f a).unit ≠ (f b).unit → a.unit ≠ b.unit) : Indep (cs.map f) := by
  refine ⟨?_, ?_, ?_⟩
  · rw [List.pairwise_map]
    exact h.noise.imp (fun {a b} hab => by rw [hn, hn]; exact hab)
  · intro a ha b hb
    obtain ⟨a', ha', rfl⟩ := List.mem_map.mp ha
    obtain ⟨b', hb', rfl⟩ := List.mem_map.mp hb
    rw [hp, hn]; exact h.parNoise a' ha' b' hb'
  · intro a ha b hb hne
    obtain ⟨a', ha', rfl⟩ := List.mem_map.mp ha
    obtain ⟨b', hb', rfl⟩ := List.mem_map.mp hb
    rw [hp, hp]; exact h.par a' ha' b' hb' (hu a' b' hne)

/-! ### meters: what a run consumes -/

/-- a way of measuring how far a run has consumed its source of randomness: the call counter of the
    generator it was handed (`genM`), or the supply of entropy streams (`noneM`); `tok` says which
    unit of that resource a read belongs to -/
structure Meter where
  ok : SeedArg → Prop
  pos : SeedArg → World → Nat
  tok : Read → Option Nat

structure Good (M : Meter) (P : Sampler) : Prop where
  ok : ∀ sd w, M.ok sd → M.ok (P sd w).1.2
  mono : ∀ sd w, M.ok sd → M.pos sd w ≤ M.pos (P sd w).1.2 (P sd w).2
  within : ∀ sd w, M.ok sd → ∀ c ∈ (P sd w).1.1.cells, ∀ r ∈ cellReads c,
    ∃ t, M.tok r = some t ∧ M.pos sd w ≤ t ∧ t < M.pos (P sd w).1.2 (P sd w).2
  indep : ∀ sd w, M.ok sd → Indep (P sd w).1.1.cells

theorem sep_of_tok {M : Meter} {x y : Cell} {a b c d : Nat} (hbc : b ≤ c)
    (hx : ∀ r ∈ cellReads x, ∃ t, M.tok r = some t ∧ a ≤ t ∧ t < b)
    (hy : ∀ r ∈ cellReads y, ∃ t, M.tok r = some t ∧ c ≤ t ∧ t < d) : Sep x y := by
  intro r hrx hry
  obtain ⟨t, ht, _, h2⟩ := hx r hrx
  obtain ⟨t', ht', h3, _⟩ := hy r hry
  rw [ht] at ht'
  cases ht'
  omega

theorem good_skip (M : Meter) : Good M skipS :=
  ⟨fun _ _ h => h, fun _ _ _ => Nat.le_refl _, fun _ _ _ c hc => by simp [skipS, Out.empty] at hc,
   fun _ _ _ => indep_nil⟩

theorem good_seq {M : Meter} {a b : Sampler} (ha : Good M a) (hb : Good M b) : Good M (seqS a b) := by
  refine ⟨?_, ?_, ?_, ?_⟩
  · intro sd w h
    exact hb.ok _ _ (ha.ok sd w h)
  · intro sd w h
    exact Nat.le_trans (ha.mono sd w h) (hb.mono _ _ (ha.ok sd w h))
  · intro sd w h c hc r hr
    have h1 := ha.mono sd w h
    have h2 := hb.mono (a sd w).1.2 (a sd w).2 (ha.ok sd w h)
    simp only [seqS, Out.append, List.mem_append] at hc
    rcases hc with hc | hc
    · obtain ⟨t, ht, h3, h4⟩ := ha.within sd w h c hc r hr
      exact ⟨t, ht, h3, Nat.lt_of_lt_of_le h4 h2⟩
    · obtain ⟨t, ht, h3, h4⟩ := hb.within _ _ (ha.ok sd w h) c hc r hr
      exact ⟨t, ht, Nat.le_trans h1 h3, h4⟩
  · intro sd w h
    simp only [seqS, Out.append]
    refine indep_append (ha.indep sd w h) (hb.indep _ _ (ha.ok sd w h)) (fun x hx y hy => ?_)
    exact sep_of_tok (M := M) (Nat.le_refl _) (ha.within sd w h x hx) (hb.within _ _ (ha.ok sd w h) y hy)

theorem good_loop {M : Meter} {ι : Type} {body : ι → Sampler} (h : ∀ x, Good M (body x)) (xs : List ι) :
    Good M (loopS body xs) := by
  induction xs with
  | nil => exact good_skip M
  | cons x xs ih => exact good_seq (h x) ih

theorem good_mapCells {M : Meter} {P : Sampler} (f : Cell → Cell) (h : Good M P)
    (hn : ∀ c, (f c).noise = c.noise) (hp : ∀ c, (f c).par = c.par)
    (hu : ∀ a b, (f a).unit ≠ (f b).unit → a.unit ≠ b.unit) : Good M (mapCells f P) := by
  refine ⟨h.ok, h.mono, ?_, ?_⟩
  · intro sd w hk c hc r hr
    simp only [mapCells, List.mem_map] at hc
    obtain ⟨c', hc', rfl⟩ := hc
    have : r ∈ cellReads c' := by simpa [cellReads, hn, hp] using hr
    exact h.within sd w hk c' hc' r this
  · intro sd w hk
    exact indep_map f (h.indep sd w hk) hn hp hu

/-! ### the generator meter -/

/-- the call on stream `S` a read belongs to: a read of `S` itself, or of the legacy global generator
    after it was seeded with the value of a call on `S` -/
def tokG (S : StreamId) (r : Read) : Option Nat :=
  if r.stream = S then some r.call else
  match r.stream with
  | .legacyDerived p k => if p = S then some k else none
  | _ => none

def genM (S : StreamId) : Meter where
  ok sd := ∃ g, sd = .gen g ∧ g.stream = S
  pos sd _ := match sd with
    | .gen g => g.ctr
    | _ => 0
  tok := tokG S

theorem tokG_self (S : StreamId) (c p : Nat) : tokG S ⟨S, c, p⟩ = some c := by simp [tokG]

theorem legacyDerived_ne (S : StreamId) (k : Nat) : StreamId.legacyDerived S k ≠ S := by
  intro h
  have := congrArg sizeOf h
  simp at this
  omega

theorem tokG_derived (S : StreamId) (k c p : Nat) : tokG S ⟨.legacyDerived S k, c, p⟩ = some k := by
  simp [tokG, legacyDerived_ne]


/-! ### entries built from a flat index -/

theorem indep_range_map (n : Nat) (mk : Nat → Cell)
    (hn : ∀ p q, p < n → q < n → p ≠ q → Disj (mk p).noise (mk q).noise)
    (hpn : ∀ p q, p < n → q < n → Disj (mk p).par (mk q).noise)
    (hp : ∀ p q, p < n → q < n → (mk p).unit ≠ (mk q).unit → Disj (mk p).par (mk q).par) :
    Indep ((List.range n).map mk) := by
  refine ⟨?_, ?_, ?_⟩
  · rw [List.pairwise_map]
    exact List.Nodup.pairwise_of_forall_ne List.nodup_range
      (fun p hp' q hq' hne => hn p q (List.mem_range.mp hp') (List.mem_range.mp hq') hne)
  · intro a ha b hb
    obtain ⟨p, hp', rfl⟩ := List.mem_map.mp ha
    obtain ⟨q, hq', rfl⟩ := List.mem_map.mp hb
    exact hpn p q (List.mem_range.mp hp') (List.mem_range.mp hq')
  · intro a ha b hb hne
    obtain ⟨p, hp', rfl⟩ := List.mem_map.mp ha
    obtain ⟨q, hq', rfl⟩ := List.mem_map.mp hb
    exact hp p q (List.mem_range.mp hp') (List.mem_range.mp hq') hne

/-- what `drawS` needs from the entry builder: reads lie in the `m` calls just made, entries are
    independent -/
structure MkOK (m : Nat) (mk : StreamId → Nat → List Cell) : Prop where
  within : ∀ S c, ∀ cell ∈ mk S c, ∀ r ∈ cellReads cell, r.stream = S ∧ c ≤ r.call ∧ r.call < c + m
  indep : ∀ S c, Indep (mk S c)

theorem good_drawS (S : StreamId) (calls : List (Kind × Nat)) (mk : StreamId → Nat → List Cell)
    (h : MkOK calls.length mk) : Good (genM S) (drawS calls mk) := by
  refine ⟨?_, ?_, ?_, ?_⟩
  · rintro sd w ⟨g, rfl, hg⟩
    exact ⟨⟨g.stream, g.ctr + calls.length⟩, rfl, hg⟩
  · rintro sd w ⟨g, rfl, hg⟩
    simp [drawS, genM]
  · rintro sd w ⟨g, rfl, hg⟩ c hc r hr
    simp only [drawS] at hc
    obtain ⟨h1, h2, h3⟩ := h.within g.stream g.ctr c hc r hr
    refine ⟨r.call, ?_, ?_, ?_⟩
    · simp [genM, tokG, h1, hg]
    · simpa [genM] using h2
    · simpa [genM, drawS] using h3
  · rintro sd w ⟨g, rfl, hg⟩
    exact h.indep g.stream g.ctr

theorem mkOK_err (k : EM) (nT nS : Nat) :
    MkOK (List.replicate (EM.nCalls k) (Kind.normal, nT * nS)).length
      (fun S c => gridCells nT nS (fun p =>
        ⟨p % nS, 0, p / nS, [], (List.range (EM.nCalls k)).map (fun j => ⟨S, c + j, p⟩)⟩)) := by
  refine ⟨?_, ?_⟩
  · intro S c cell hcell r hr
    simp only [gridCells, List.mem_map, List.mem_range] at hcell
    obtain ⟨p, _, rfl⟩ := hcell
    simp only [cellReads, List.nil_append, List.mem_map, List.mem_range] at hr
    obtain ⟨j, hj, rfl⟩ := hr
    simp only [List.length_replicate]
    refine ⟨?_, ?_, ?_⟩ <;> first | trivial | omega
  · intro S c
    refine indep_range_map _ _ ?_ ?_ ?_
    · intro p q _ _ hne r hr hr'
      simp only [List.mem_map] at hr hr'
      obtain ⟨j, _, rfl⟩ := hr
      obtain ⟨j', _, h'⟩ := hr'
      simp only [Read.mk.injEq] at h'
      exact hne h'.2.2.symm
    · intro p q _ _
      exact disj_nil_left _
    · intro p q _ _ _
      exact disj_nil_left _

theorem good_errBody (S : StreamId) (k : EM) (nT nS : Nat) : Good (genM S) (errBody k nT nS) :=
  good_drawS S _ _ (mkOK_err k nT nS)

/-- every measurement entry has its own noise variate(s) (non-vacuity of the disjointness claims) -/
theorem errBody_noise_length (k : EM) (nT nS : Nat) (g : Gen) (w : World) :
    ∀ c ∈ (errBody k nT nS (.gen g) w).1.1.cells, c.noise.length = EM.nCalls k := by
  intro c hc
  simp only [errBody, drawS, gridCells, List.mem_map] at hc
  obtain ⟨p, _, rfl⟩ := hc
  simp

theorem mkOK_normal (n nDim : Nat) :
    MkOK [(Kind.normal, n * nDim)].length (fun S c => popCells n nDim (fun p => [⟨S, c, p⟩])) := by
  refine ⟨?_, ?_⟩
  · intro S c cell hcell r hr
    simp only [popCells, List.mem_map, List.mem_range] at hcell
    obtain ⟨p, _, rfl⟩ := hcell
    simp only [cellReads, List.append_nil, List.mem_singleton] at hr
    subst hr
    exact ⟨rfl, Nat.le_refl _, by simp⟩
  · intro S c
    refine indep_range_map _ _ ?_ ?_ ?_
    · intro p q _ _ _; exact disj_nil_left _
    · intro p q _ _; exact disj_nil_right _
    · intro p q _ _ hne r hr hr'
      simp only [List.mem_singleton] at hr hr'
      subst hr
      simp only [Read.mk.injEq, true_and] at hr'
      subst hr'
      exact hne rfl

theorem mkOK_choice (n nDim : Nat) :
    MkOK [(Kind.choice, n)].length (fun S c => popCells n nDim (fun p => [⟨S, c, p / nDim⟩])) := by
  refine ⟨?_, ?_⟩
  · intro S c cell hcell r hr
    simp only [popCells, List.mem_map, List.mem_range] at hcell
    obtain ⟨p, _, rfl⟩ := hcell
    simp only [cellReads, List.append_nil, List.mem_singleton] at hr
    subst hr
    exact ⟨rfl, Nat.le_refl _, by simp⟩
  · intro S c
    refine indep_range_map _ _ ?_ ?_ ?_
    · intro p q _ _ _; exact disj_nil_left _
    · intro p q _ _; exact disj_nil_right _
    · intro p q _ _ hne r hr hr'
      simp only [List.mem_singleton] at hr hr'
      subst hr
      simp only [Read.mk.injEq, true_and] at hr'
      exact hne hr'

theorem withRng_gen {body : Sampler} {g : Gen} {w : World}
    (h : ∃ g', (body (.gen g) w).1.2 = .gen g') : withRng body (.gen g) w = body (.gen g) w := by
  obtain ⟨g', hg'⟩ := h
  simp only [withRng, defaultRng, hg', finalSeed]
  rw [← hg']

theorem good_withRng {S : StreamId} {body : Sampler} (h : Good (genM S) body) :
    Good (genM S) (withRng body) := by
  have key : ∀ g w, g.stream = S → withRng body (.gen g) w = body (.gen g) w := by
    intro g w hg
    obtain ⟨g', hg', _⟩ := h.ok (.gen g) w ⟨g, rfl, hg⟩
    exact withRng_gen ⟨g', hg'⟩
  refine ⟨?_, ?_, ?_, ?_⟩
  · rintro sd w ⟨g, rfl, hg⟩; rw [key g w hg]; exact h.ok _ _ ⟨g, rfl, hg⟩
  · rintro sd w ⟨g, rfl, hg⟩; rw [key g w hg]; exact h.mono _ _ ⟨g, rfl, hg⟩
  · rintro sd w ⟨g, rfl, hg⟩; rw [key g w hg]; exact h.within _ _ ⟨g, rfl, hg⟩
  · rintro sd w ⟨g, rfl, hg⟩; rw [key g w hg]; exact h.indep _ _ ⟨g, rfl, hg⟩

theorem indep_noReads (cs : List Cell) (h : ∀ c ∈ cs, c.par = [] ∧ c.noise = []) : Indep cs := by
  refine ⟨?_, ?_, ?_⟩
  · exact List.pairwise_of_forall_mem_list (fun a ha b _ => by rw [(h a ha).2]; exact disj_nil_left _)
  · intro a ha b _; rw [(h a ha).1]; exact disj_nil_left _
  · intro a ha b _ _; rw [(h a ha).1]; exact disj_nil_left _

theorem good_pooled (M : Meter) (nDim n : Nat) : Good M (elemSample .pooled nDim n) := by
  have hc : ∀ c ∈ popCells n nDim (fun _ => []), c.par = [] ∧ c.noise = [] := by
    intro c hc
    simp only [popCells, List.mem_map] at hc
    obtain ⟨p, _, rfl⟩ := hc
    exact ⟨rfl, rfl⟩
  refine ⟨fun _ _ h => h, fun _ _ _ => Nat.le_refl _, ?_, ?_⟩
  · intro sd w _ c hcell r hr
    have := hc c hcell
    simp [cellReads, this.1, this.2] at hr
  · intro sd w _
    exact indep_noReads _ hc

theorem good_trunc (S : StreamId) (nDim n : Nat) : Good (genM S) (truncSample nDim n) := by
  refine ⟨?_, ?_, ?_, ?_⟩
  · rintro sd w ⟨g, rfl, hg⟩
    exact ⟨⟨g.stream, g.ctr + 1⟩, rfl, hg⟩
  · rintro sd w ⟨g, rfl, hg⟩
    simp [truncSample, genM]
  · rintro sd w ⟨g, rfl, hg⟩ c hc r hr
    simp only [truncSample, popCells, List.mem_map, List.mem_range] at hc
    obtain ⟨p, _, rfl⟩ := hc
    simp only [cellReads, List.append_nil, List.mem_singleton] at hr
    subst hr
    refine ⟨g.ctr, ?_, ?_, ?_⟩
    · simp only [genM, ← hg]; exact tokG_derived _ _ _ _
    · simp [genM]
    · simp [genM, truncSample]
  · rintro sd w ⟨g, rfl, hg⟩
    simp only [truncSample]
    exact (mkOK_normal n nDim).indep (.legacyDerived g.stream g.ctr) 0

theorem good_elem (S : StreamId) (e : Elem) (nDim n : Nat) : Good (genM S) (elemSample e nDim n) := by
  cases e
  · exact good_withRng (good_drawS S _ _ (mkOK_normal n nDim))
  · exact good_withRng (good_drawS S _ _ (mkOK_normal n nDim))
  · exact good_pooled _ nDim n
  · exact good_withRng (good_drawS S _ _ (mkOK_choice n nDim))
  · exact good_trunc S nDim n

theorem good_sub (S : StreamId) (m : SubModel) (n : Nat) : Good (genM S) (subSample m n) := by
  unfold subSample
  split
  · exact good_withRng (good_loop (fun i => good_mapCells (fun c => { c with unit := i })
      (good_elem S m.elem m.nDim 1) (fun _ => rfl) (fun _ => rfl) (fun _ _ h => absurd rfl h)) _)
  · exact good_elem S _ _ _

theorem good_pop (S : StreamId) (p : Pop) (n : Nat) : Good (genM S) (popSample p n) := by
  cases p with
  | single m => exact good_sub S m n
  | composed ms =>
    exact good_withRng (good_loop (fun mo : SubModel × Nat =>
      good_mapCells (fun c => { c with out := c.out + mo.2 }) (good_sub S mo.1 n) (fun _ => rfl) (fun _ => rfl)
      (fun _ _ h => h)) _)

theorem good_err (S : StreamId) (k : EM) (nT nS : Nat) : Good (genM S) (errSample k nT nS) :=
  good_withRng (good_errBody S k nT nS)

theorem good_predLoop (S : StreamId) (kinds : List (EM × Nat)) (nT nS : Nat) :
    Good (genM S) (loopS (fun ko : EM × Nat =>
      mapCells (fun c => { c with out := ko.2 }) (errSample ko.1 nT nS)) kinds) :=
  good_loop (fun ko : EM × Nat => good_mapCells (fun c => { c with out := ko.2 }) (good_err S ko.1 nT nS)
    (fun _ => rfl) (fun _ => rfl) (fun _ _ h => h)) _

/-- with a `Generator` both the code as it is and the intended code give independent entries -/
theorem good_pred (S : StreamId) (v : Variant) (kinds : List EM) (nT nS : Nat) :
    Good (genM S) (predSample v kinds nT nS) := by
  unfold predSample
  split
  · exact good_predLoop S _ nT nS
  · exact good_withRng (good_predLoop S _ nT nS)


theorem mem_patientReads (cs : List Cell) (i : Nat) (r : Read) :
    r ∈ patientReads cs i ↔ ∃ c ∈ cs, c.unit = i ∧ r ∈ c.par := by
  simp only [patientReads, List.mem_flatMap, List.mem_filter, beq_iff_eq]
  constructor
  · rintro ⟨c, ⟨hc, hu⟩, hr⟩; exact ⟨c, hc, hu, hr⟩
  · rintro ⟨c, hc, hu, hr⟩; exact ⟨c, ⟨hc, hu⟩, hr⟩

theorem good_patientLoop {M : Meter} (v : Variant) (kinds : List EM) (nT n : Nat)
    (hq : Good M (predSample v kinds nT 1)) :
    Good M (loopS (fun i => mapCells (fun c => { c with unit := i }) (predSample v kinds nT 1)) (List.range n)) :=
  good_loop (fun i => good_mapCells (fun c => { c with unit := i }) hq (fun _ => rfl) (fun _ => rfl)
    (fun _ _ h => absurd rfl h)) _

theorem good_popPredCore {M : Meter} (v : Variant) (p : Pop) (kinds : List EM) (nT n : Nat)
    (hp : Good M (popSample p n)) (hq : Good M (predSample v kinds nT 1)) :
    Good M (popPredCore v p kinds nT n) := by
  have hL := good_patientLoop (M := M) v kinds nT n hq
  refine ⟨?_, ?_, ?_, ?_⟩
  · intro sd w h
    exact hL.ok _ _ (hp.ok sd w h)
  · intro sd w h
    exact Nat.le_trans (hp.mono sd w h) (hL.mono _ _ (hp.ok sd w h))
  · intro sd w h c hc r hr
    have h1 := hp.mono sd w h
    have h2 := hL.mono (popSample p n sd w).1.2 (popSample p n sd w).2 (hp.ok sd w h)
    simp only [popPredCore, List.mem_map] at hc
    obtain ⟨c', hc', rfl⟩ := hc
    simp only [cellReads, List.mem_append] at hr
    rcases hr with hr | hr
    · obtain ⟨c1, hc1, _, hr1⟩ := (mem_patientReads _ _ _).mp hr
      obtain ⟨t, ht, h3, h4⟩ := hp.within sd w h c1 hc1 r (List.mem_append_left _ hr1)
      exact ⟨t, ht, h3, Nat.lt_of_lt_of_le h4 h2⟩
    · obtain ⟨t, ht, h3, h4⟩ := hL.within _ _ (hp.ok sd w h) c' hc' r (List.mem_append_right _ hr)
      exact ⟨t, ht, Nat.le_trans h1 h3, h4⟩
  · intro sd w h
    have hI := hL.indep (popSample p n sd w).1.2 (popSample p n sd w).2 (hp.ok sd w h)
    simp only [popPredCore]
    refine ⟨?_, ?_, ?_⟩
    · rw [List.pairwise_map]
      exact hI.noise.imp (fun {a b} hab => hab)
    · intro a ha b hb r hra hrb
      obtain ⟨a', _, rfl⟩ := List.mem_map.mp ha
      obtain ⟨b', hb', rfl⟩ := List.mem_map.mp hb
      obtain ⟨c1, hc1, _, hr1⟩ := (mem_patientReads _ _ _).mp hra
      obtain ⟨t, ht, _, h4⟩ := hp.within sd w h c1 hc1 r (List.mem_append_left _ hr1)
      obtain ⟨t', ht', h3', _⟩ := hL.within _ _ (hp.ok sd w h) b' hb' r (List.mem_append_right _ hrb)
      rw [ht] at ht'; cases ht'; omega
    · intro a ha b hb hne r hra hrb
      obtain ⟨a', _, rfl⟩ := List.mem_map.mp ha
      obtain ⟨b', _, rfl⟩ := List.mem_map.mp hb
      obtain ⟨c1, hc1, hu1, hr1⟩ := (mem_patientReads _ _ _).mp hra
      obtain ⟨c2, hc2, hu2, hr2⟩ := (mem_patientReads _ _ _).mp hrb
      have hne' : c1.unit ≠ c2.unit := by rw [hu1, hu2]; exact hne
      exact (hp.indep sd w h).par c1 hc1 c2 hc2 hne' r hr1 hr2

theorem popPred_gen (v : Variant) (p : Pop) (kinds : List EM) (nT n : Nat) (g : Gen) (w : World)
    (h : ∃ g', (popPredCore v p kinds nT n (.gen g) w).1.2 = .gen g') :
    popPredSample v p kinds nT n (.gen g) w = popPredCore v p kinds nT n (.gen g) w := by
  obtain ⟨g', hg'⟩ := h
  simp only [popPredSample, convertSeed, defaultRng, hg', finalSeed]
  rw [← hg']

theorem good_popPred (S : StreamId) (v : Variant) (p : Pop) (kinds : List EM) (nT n : Nat) :
    Good (genM S) (popPredSample v p kinds nT n) := by
  have h := good_popPredCore (M := genM S) v p kinds nT n (good_pop S p n) (good_pred S v kinds nT 1)
  have key : ∀ g w, g.stream = S →
      popPredSample v p kinds nT n (.gen g) w = popPredCore v p kinds nT n (.gen g) w := by
    intro g w hg
    obtain ⟨g', hg', _⟩ := h.ok (.gen g) w ⟨g, rfl, hg⟩
    exact popPred_gen v p kinds nT n g w ⟨g', hg'⟩
  refine ⟨?_, ?_, ?_, ?_⟩
  · rintro sd w ⟨g, rfl, hg⟩; rw [key g w hg]; exact h.ok _ _ ⟨g, rfl, hg⟩
  · rintro sd w ⟨g, rfl, hg⟩; rw [key g w hg]; exact h.mono _ _ ⟨g, rfl, hg⟩
  · rintro sd w ⟨g, rfl, hg⟩; rw [key g w hg]; exact h.within _ _ ⟨g, rfl, hg⟩
  · rintro sd w ⟨g, rfl, hg⟩; rw [key g w hg]; exact h.indep _ _ ⟨g, rfl, hg⟩

theorem good_anyPred (S : StreamId) (v : Variant) (spec : PredSpec) (nT nS : Nat) :
    Good (genM S) (anyPred v spec nT nS) := by
  cases spec with
  | indiv kinds => exact good_pred S v kinds nT nS
  | pop p kinds => exact good_popPred S v p kinds nT nS

theorem mem_keepFirst (k : Nat) (extra : Reads) (cells : List Cell) (c : Cell) :
    c ∈ keepFirst k extra cells ↔ ∃ c' ∈ cells, c'.unit = 0 ∧ c = { c' with unit := k, par := extra ++ c'.par } := by
  simp only [keepFirst, List.mem_map, List.mem_filter, beq_iff_eq]
  constructor
  · rintro ⟨c', ⟨h1, h2⟩, rfl⟩; exact ⟨c', h1, h2, rfl⟩
  · rintro ⟨c', h1, h2, rfl⟩; exact ⟨c', ⟨h1, h2⟩, rfl⟩

/-- column 0 of an independent array, prefixed with one more parameter read that no entry uses -/
theorem indep_keepFirst (k : Nat) (row : Read) (cells : List Cell) (h : Indep cells)
    (hrow : ∀ c ∈ cells, row ∉ c.noise) : Indep (keepFirst k [row] cells) := by
  refine ⟨?_, ?_, ?_⟩
  · simp only [keepFirst]
    rw [List.pairwise_map]
    exact (h.noise.sublist List.filter_sublist).imp (fun {a b} hab => hab)
  · intro a ha b hb r hra hrb
    obtain ⟨a', ha', _, rfl⟩ := (mem_keepFirst _ _ _ _).mp ha
    obtain ⟨b', hb', _, rfl⟩ := (mem_keepFirst _ _ _ _).mp hb
    simp only [List.singleton_append, List.mem_cons] at hra
    rcases hra with rfl | hra
    · exact hrow b' hb' hrb
    · exact h.parNoise a' ha' b' hb' r hra hrb
  · intro a ha b hb hne
    obtain ⟨a', _, _, rfl⟩ := (mem_keepFirst _ _ _ _).mp ha
    obtain ⟨b', _, _, rfl⟩ := (mem_keepFirst _ _ _ _).mp hb
    exact absurd rfl hne

theorem good_postIter (S : StreamId) (v : Variant) (spec : PredSpec) (nT n k : Nat) :
    Good (genM S) (postIter v spec nT n k) := by
  have hA := good_anyPred S v spec nT n
  refine ⟨?_, ?_, ?_, ?_⟩
  · rintro sd w ⟨g, rfl, hg⟩
    exact hA.ok (.gen ⟨g.stream, g.ctr + 1⟩) w ⟨_, rfl, hg⟩
  · rintro sd w ⟨g, rfl, hg⟩
    have := hA.mono (.gen ⟨g.stream, g.ctr + 1⟩) w ⟨_, rfl, hg⟩
    simp only [genM, postIter] at this ⊢
    omega
  · rintro sd w ⟨g, rfl, hg⟩ c hc r hr
    have hm := hA.mono (.gen ⟨g.stream, g.ctr + 1⟩) w ⟨_, rfl, hg⟩
    simp only [postIter] at hc
    obtain ⟨c', hc', _, rfl⟩ := (mem_keepFirst _ _ _ _).mp hc
    simp only [cellReads, List.singleton_append, List.cons_append, List.mem_cons] at hr
    rcases hr with rfl | hr
    · refine ⟨g.ctr, ?_, ?_, ?_⟩
      · simp only [genM, ← hg]; exact tokG_self _ _ _
      · simp [genM]
      · simp only [genM, postIter] at hm ⊢; omega
    · obtain ⟨t, ht, h3, h4⟩ := hA.within (.gen ⟨g.stream, g.ctr + 1⟩) w ⟨_, rfl, hg⟩ c' hc' r hr
      refine ⟨t, ht, ?_, h4⟩
      simp only [genM] at h3 ⊢; omega
  · rintro sd w ⟨g, rfl, hg⟩
    simp only [postIter]
    refine indep_keepFirst k _ _ (hA.indep (.gen ⟨g.stream, g.ctr + 1⟩) w ⟨_, rfl, hg⟩) ?_
    intro c hc hmem
    obtain ⟨t, ht, h3, _⟩ := hA.within (.gen ⟨g.stream, g.ctr + 1⟩) w ⟨_, rfl, hg⟩ c hc _
      (List.mem_append_right _ hmem)
    have : tokG S ⟨g.stream, g.ctr, 0⟩ = some g.ctr := by rw [← hg]; exact tokG_self _ _ _
    simp only [genM] at ht h3
    rw [this] at ht; cases ht; omega

theorem good_postPred (S : StreamId) (v : Variant) (spec : PredSpec) (nT n : Nat) :
    Good (genM S) (postPredSample v spec nT n) :=
  good_withRng (good_loop (fun k => good_postIter S v spec nT n k) _)

theorem good_pamLoop (S : StreamId) (v : Variant) (nT : Nat) (models : List (PredSpec × Nat)) :
    ∀ shift, Good (genM S) (pamLoop v nT shift models) := by
  induction models with
  | nil => intro _; exact good_skip _
  | cons m rest ih =>
    intro shift
    obtain ⟨spec, cnt⟩ := m
    unfold pamLoop
    refine good_seq ?_ (ih _)
    split
    · exact good_skip _
    · exact good_mapCells (fun c => { c with unit := c.unit + shift }) (good_postPred S v spec nT cnt)
        (fun _ => rfl) (fun _ => rfl) (fun a b h hab => h (by simp [hab]))

end ChiModel.Seeds
