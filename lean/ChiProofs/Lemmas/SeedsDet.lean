import ChiModel.Seeds
import Mathlib.Data.List.Basic
set_option linter.unusedSectionVars false
set_option linter.unusedSimpArgs false
namespace ChiModel.Seeds

/-! ## Part A — determinism: with a seed, nothing of the world is read -/

def applyG (e : Option Gen) (w : World) : World :=
  match e with
  | none => w
  | some G => { w with glob := G }

@[simp] theorem applyG_none (w : World) : applyG none w = w := rfl
@[simp] theorem applyG_freshU (e : Option Gen) (w : World) : (applyG e w).freshU = w.freshU := by
  cases e <;> rfl
theorem applyG_comp (e1 e2 : Option Gen) (w : World) :
    applyG e2 (applyG e1 w) = applyG (e2.orElse (fun _ => e1)) w := by
  cases e2 <;> cases e1 <;> rfl
theorem applyG_glob (e : Option Gen) (w : World) : (applyG e w).glob = e.getD w.glob := by
  cases e <;> rfl

/-- the seed object comes back as the same kind of object (an `int` unchanged) -/
def Shape : SeedArg → SeedArg → Prop
  | .int s, .int s' => s = s'
  | .gen _, .gen _ => True
  | .none, .none => True
  | _, _ => False

theorem Shape.ne_none {a b : SeedArg} (h : Shape a b) (ha : a ≠ .none) : b ≠ .none := by
  cases a <;> cases b <;> simp_all [Shape]

theorem Shape.refl (a : SeedArg) : Shape a a := by cases a <;> simp [Shape]
theorem Shape.trans {a b c : SeedArg} (h1 : Shape a b) (h2 : Shape b c) : Shape a c := by
  cases a <;> cases b <;> cases c <;> simp_all [Shape]

/-- with a seed (integer or generator) the sampler's result is a function of the seed alone and its
    effect on the world is at most a re-seeding of the global generator with a seed-determined state -/
def DetS (P : Sampler) : Prop :=
  ∀ sd, sd ≠ .none → ∃ o sd' e, Shape sd sd' ∧ ∀ w, P sd w = ((o, sd'), applyG e w)

def w0 : World := ⟨⟨.legacyUnseeded, 0⟩, 0⟩

/-- introduction form without naming the output: it is the output in the reference world -/
theorem exOut {sd : SeedArg} {p : World → (Out × SeedArg) × World} (sd' : SeedArg) (e : Option Gen)
    (hs : Shape sd sd') (h : ∀ w, p w = (((p w0).1.1, sd'), applyG e w)) :
    ∃ o sd' e, Shape sd sd' ∧ ∀ w, p w = ((o, sd'), applyG e w) := ⟨_, sd', e, hs, h⟩

theorem exOut' {p : World → (Out × SeedArg) × World} (sd' : SeedArg) (e : Option Gen)
    (h : ∀ w, p w = (((p w0).1.1, sd'), applyG e w)) :
    ∃ o e, ∀ w, p w = ((o, sd'), applyG e w) := ⟨_, e, h⟩

theorem detS_skip : DetS skipS := by
  intro sd _
  exact ⟨Out.empty, sd, none, Shape.refl sd, fun w => rfl⟩

theorem detS_seq {a b : Sampler} (ha : DetS a) (hb : DetS b) : DetS (seqS a b) := by
  intro sd hsd
  obtain ⟨o1, sd1, e1, hs1, h1⟩ := ha sd hsd
  obtain ⟨o2, sd2, e2, hs2, h2⟩ := hb sd1 (hs1.ne_none hsd)
  refine ⟨o1.append o2, sd2, e2.orElse (fun _ => e1), hs1.trans hs2, fun w => ?_⟩
  simp only [seqS, h1, h2, applyG_comp]

theorem detS_loop {ι : Type} {body : ι → Sampler} (h : ∀ x, DetS (body x)) (xs : List ι) :
    DetS (loopS body xs) := by
  induction xs with
  | nil => exact detS_skip
  | cons x xs ih => exact detS_seq (h x) ih

theorem detS_mapCells {P : Sampler} (f : Cell → Cell) (h : DetS P) : DetS (mapCells f P) := by
  intro sd hsd
  obtain ⟨o, sd', e, hs, h1⟩ := h sd hsd
  exact ⟨{ o with cells := o.cells.map f }, sd', e, hs, fun w => by simp only [mapCells, h1]⟩

theorem finalSeed_shape {sd sd' : SeedArg} (hsd : sd ≠ .none) (g : Gen) (h : Shape (.gen g) sd') :
    Shape sd (finalSeed sd sd') := by
  cases sd <;> cases sd' <;> simp_all [Shape, finalSeed]

theorem detS_withRng {body : Sampler} (h : DetS body) : DetS (withRng body) := by
  intro sd hsd
  cases sd with
  | none => exact absurd rfl hsd
  | int s =>
    obtain ⟨o, sd', e, hs, h1⟩ := h (.gen ⟨.seeded s, 0⟩) (by simp)
    refine ⟨o, .int s, e, by simp [Shape], fun w => ?_⟩
    simp only [withRng, defaultRng, h1]
    cases sd' <;> simp_all [finalSeed, Shape]
  | gen g =>
    obtain ⟨o, sd', e, hs, h1⟩ := h (.gen g) (by simp)
    refine ⟨o, sd', e, hs, fun w => ?_⟩
    simp only [withRng, defaultRng, h1]
    cases sd' <;> simp_all [finalSeed, Shape]

theorem detS_drawS (calls : List (Kind × Nat)) (mk : StreamId → Nat → List Cell) : DetS (drawS calls mk) := by
  intro sd hsd
  cases sd with
  | none => exact absurd rfl hsd
  | int s => exact ⟨Out.empty, .int s, none, by simp [Shape], fun w => rfl⟩
  | gen g => exact ⟨_, _, none, by simp [Shape], fun w => rfl⟩

theorem detS_trunc (nDim n : Nat) : DetS (truncSample nDim n) := by
  intro sd hsd
  cases sd with
  | none => exact absurd rfl hsd
  | int s => exact ⟨_, .int s, some ⟨.legacySeeded s, 1⟩, by simp [Shape], fun w => rfl⟩
  | gen g => exact ⟨_, _, some ⟨.legacyDerived g.stream g.ctr, 1⟩, by simp [Shape], fun w => rfl⟩

theorem detS_elem (e : Elem) (nDim n : Nat) : DetS (elemSample e nDim n) := by
  cases e
  · exact detS_withRng (detS_drawS _ _)
  · exact detS_withRng (detS_drawS _ _)
  · intro sd _
    exact ⟨_, sd, none, Shape.refl sd, fun w => rfl⟩
  · exact detS_withRng (detS_drawS _ _)
  · exact detS_trunc nDim n

theorem detS_sub (m : SubModel) (n : Nat) : DetS (subSample m n) := by
  unfold subSample
  split
  · exact detS_withRng (detS_loop (fun i => detS_mapCells _ (detS_elem _ _ _)) _)
  · exact detS_elem _ _ _

theorem detS_pop (p : Pop) (n : Nat) : DetS (popSample p n) := by
  cases p with
  | single m => exact detS_sub m n
  | composed ms => exact detS_withRng (detS_loop (fun mo => detS_mapCells _ (detS_sub _ _)) _)

theorem detS_err (k : EM) (nT nS : Nat) : DetS (errSample k nT nS) := detS_withRng (detS_drawS _ _)

theorem detS_pred (v : Variant) (kinds : List EM) (nT nS : Nat) : DetS (predSample v kinds nT nS) := by
  unfold predSample
  split
  · exact detS_loop (fun ko => detS_mapCells _ (detS_err _ _ _)) _
  · exact detS_withRng (detS_loop (fun ko => detS_mapCells _ (detS_err _ _ _)) _)


theorem detS_popPredCore (v : Variant) (p : Pop) (kinds : List EM) (nT n : Nat) :
    DetS (popPredCore v p kinds nT n) := by
  intro sd hsd
  obtain ⟨o1, sd1, e1, hs1, h1⟩ := detS_pop p n sd hsd
  obtain ⟨o2, sd2, e2, hs2, h2⟩ :=
    detS_loop (fun i => detS_mapCells (fun c => { c with unit := i }) (detS_pred v kinds nT 1))
      (List.range n) sd1 (hs1.ne_none hsd)
  refine ⟨⟨o2.cells.map (fun c => { c with par := patientReads o1.cells c.unit }),
      o1.calls ++ o2.calls, [], false⟩, sd2, e2.orElse (fun _ => e1), hs1.trans hs2, fun w => ?_⟩
  simp only [popPredCore, h1, h2, applyG_comp]

theorem detS_popPred (v : Variant) (p : Pop) (kinds : List EM) (nT n : Nat) :
    DetS (popPredSample v p kinds nT n) := by
  intro sd hsd
  cases sd with
  | none => exact absurd rfl hsd
  | int s =>
    obtain ⟨o, sd', e, hs, h1⟩ := detS_popPredCore v p kinds nT n (.gen ⟨.seeded s, 0⟩) (by simp)
    refine ⟨o, .int s, e, by simp [Shape], fun w => ?_⟩
    simp only [popPredSample, convertSeed, defaultRng, h1]
    cases sd' <;> simp_all [finalSeed, Shape]
  | gen g =>
    obtain ⟨o, sd', e, hs, h1⟩ := detS_popPredCore v p kinds nT n (.gen g) (by simp)
    refine ⟨o, sd', e, hs, fun w => ?_⟩
    simp only [popPredSample, convertSeed, defaultRng, h1]
    cases sd' <;> simp_all [finalSeed, Shape]

theorem detS_anyPred (v : Variant) (spec : PredSpec) (nT nS : Nat) : DetS (anyPred v spec nT nS) := by
  cases spec with
  | indiv kinds => exact detS_pred v kinds nT nS
  | pop p kinds => exact detS_popPred v p kinds nT nS

theorem detS_postIter (v : Variant) (spec : PredSpec) (nT n k : Nat) : DetS (postIter v spec nT n k) := by
  intro sd hsd
  cases sd with
  | none => exact absurd rfl hsd
  | int s => exact ⟨Out.empty, .int s, none, by simp [Shape], fun w => rfl⟩
  | gen g =>
    obtain ⟨o, sd', e, hs, h1⟩ := detS_anyPred v spec nT n (.gen ⟨g.stream, g.ctr + 1⟩) (by simp)
    have hs' : Shape (.gen g) sd' := by cases sd' <;> simp_all [Shape]
    exact exOut sd' e hs' (fun w => by simp only [postIter, h1])

theorem detS_postPred (v : Variant) (spec : PredSpec) (nT n : Nat) : DetS (postPredSample v spec nT n) :=
  detS_withRng (detS_loop (fun k => detS_postIter v spec nT n k) _)

theorem detS_pamLoop (v : Variant) (nT : Nat) (models : List (PredSpec × Nat)) :
    ∀ shift, DetS (pamLoop v nT shift models) := by
  induction models with
  | nil => intro _; exact detS_skip
  | cons m rest ih =>
    intro shift
    obtain ⟨spec, cnt⟩ := m
    unfold pamLoop
    refine detS_seq ?_ (ih _)
    split
    · exact detS_skip
    · exact detS_mapCells _ (detS_postPred v spec nT cnt)

/-- with `rng.choice` (intended) the averaged model is a function of the seed -/
theorem detS_pam_intended (v : Variant) (hv : v.globalChoice = false) (models : List (PredSpec × Nat))
    (nT : Nat) : DetS (pamSample v models nT) := by
  intro sd hsd
  cases sd with
  | none => exact absurd rfl hsd
  | int s =>
    obtain ⟨o, sd', e, hs, h1⟩ := detS_pamLoop v nT models 0 (.gen ⟨.seeded s, 0 + 1⟩) (by simp)
    refine ⟨⟨o.cells, ⟨.seeded s, 0, .choice, (models.map (·.2)).sum⟩ :: o.calls,
      (List.range (models.map (·.2)).sum).map (fun k => (⟨.seeded s, 0, k⟩ : Read)), false⟩,
      .int s, e, by simp [Shape], fun w => ?_⟩
    simp only [pamSample, hv, defaultRng, h1]
    cases sd' <;> simp_all [finalSeed, Shape]
  | gen g =>
    obtain ⟨o, sd', e, hs, h1⟩ := detS_pamLoop v nT models 0 (.gen ⟨g.stream, g.ctr + 1⟩) (by simp)
    have hs' : Shape (.gen g) sd' := by cases sd' <;> simp_all [Shape]
    refine ⟨⟨o.cells, ⟨g.stream, g.ctr, .choice, (models.map (·.2)).sum⟩ :: o.calls,
      (List.range (models.map (·.2)).sum).map (fun k => (⟨g.stream, g.ctr, k⟩ : Read)), false⟩,
      sd', e, hs', fun w => ?_⟩
    simp only [pamSample, hv, defaultRng, h1]
    cases sd' <;> simp_all [finalSeed, Shape]

/-! programs that read the global generator after it was seeded -/

/-- the result is a function of the global generator's state alone -/
def DetW {ρ : Type} (p : World → ρ × World) : Prop :=
  ∀ G : Gen, ∃ r e, ∀ w, w.glob = G → p w = (r, applyG e w)

theorem detW_priorLoop (v : Variant) (spec : PredSpec) (nT n : Nat) (s : Int) (ks : List Nat) :
    DetW (priorLoop v spec nT n (some s) ks) := by
  induction ks with
  | nil => intro G; exact ⟨Out.empty, none, fun w _ => rfl⟩
  | cons k ks ih =>
    intro G
    obtain ⟨o, sd', e, _, h1⟩ := detS_anyPred v spec nT n (.int (s + (k + 1))) (by simp)
    obtain ⟨r2, e2, h2⟩ := ih (e.getD ⟨G.stream, G.ctr + 1⟩)
    refine ⟨Out.append ⟨keepFirst k [⟨G.stream, G.ctr, 0⟩] o.cells,
        ⟨G.stream, G.ctr, .prior, 1⟩ :: o.calls, [], false⟩ r2,
      e2.orElse (fun _ => e.orElse (fun _ => some ⟨G.stream, G.ctr + 1⟩)), fun w hw => ?_⟩
    subst hw
    have hw1 : (globCall .prior 1 w).2 = applyG (some ⟨w.glob.stream, w.glob.ctr + 1⟩) w := rfl
    have hc : (globCall .prior 1 w).1 = ⟨w.glob.stream, w.glob.ctr, .prior, 1⟩ := rfl
    have hg : (applyG e (applyG (some ⟨w.glob.stream, w.glob.ctr + 1⟩) w)).glob
        = e.getD ⟨w.glob.stream, w.glob.ctr + 1⟩ := by
      rw [applyG_glob]; rfl
    simp only [priorLoop, hw1, hc, h1]
    rw [h2 _ hg]
    simp only [applyG_comp]

theorem detS_int_priorPred (v : Variant) (spec : PredSpec) (nT n : Nat) (s : Int) :
    ∃ o e, ∀ w, priorPredSample v spec nT n (.int s) w = ((o, .int s), applyG e w) := by
  obtain ⟨r, e, h⟩ := detW_priorLoop v spec nT n s (List.range n) ⟨.legacySeeded s, 0⟩
  refine ⟨r, e.orElse (fun _ => some ⟨.legacySeeded s, 0⟩), fun w => ?_⟩
  have := h { w with glob := ⟨.legacySeeded s, 0⟩ } rfl
  simp only [priorPredSample, this]
  have h2 : ({ w with glob := ⟨.legacySeeded s, 0⟩ } : World) = applyG (some ⟨.legacySeeded s, 0⟩) w := rfl
  rw [h2, applyG_comp]

theorem detS_int_initLogPosterior (n : Nat) (s : Int) :
    ∃ o e, ∀ w, initLogPosterior n (.int s) w = ((o, .int s), applyG e w) :=
  exOut' _ (some ⟨.legacySeeded s, 0 + 1⟩) (fun w => rfl)

theorem detS_initIter (p : Pop) (nIds : Nat) (k : Nat) : DetS (initIter p nIds k) := by
  intro sd hsd
  obtain ⟨o, sd', e, hs, h1⟩ := detS_pop p nIds sd hsd
  exact exOut sd' e hs (fun w => by simp only [initIter, h1])

theorem detS_epsDraw (nIds nEps n : Nat) : DetS (epsDraw nIds nEps n) := by
  unfold epsDraw
  split
  · exact detS_skip
  · exact detS_drawS _ _

theorem detS_int_initHier (p : Pop) (nIds nEps n : Nat) (s : Int) :
    ∃ o e, ∀ w, initHier p nIds nEps n (.int s) w = ((o, .int s), applyG e w) := by
  obtain ⟨o, sd', e, _, h1⟩ := detS_withRng (detS_seq (detS_loop
    (fun k => detS_initIter p nIds k) (List.range n)) (detS_epsDraw nIds nEps n))
    (.int (s + 1)) (by simp)
  refine exOut' _ (e.orElse (fun _ => some ⟨.legacySeeded s, 0 + 1⟩)) (fun w => ?_)
  simp only [initHier, seedGlobal, globCall, h1]
  have h2 : ({ glob := ⟨.legacySeeded s, 0 + 1⟩, freshU := w.freshU } : World)
      = applyG (some ⟨.legacySeeded s, 0 + 1⟩) w := rfl
  simp only [h2, applyG_comp]

theorem detS_int {P : Sampler} (h : DetS P) (s : Int) :
    ∃ o e, ∀ w, P (.int s) w = ((o, .int s), applyG e w) := by
  obtain ⟨o, sd', e, hs, h1⟩ := h (.int s) (by simp)
  cases sd' with
  | int s' => simp only [Shape] at hs; subst hs; exact ⟨o, e, h1⟩
  | none => simp [Shape] at hs
  | gen g => simp [Shape] at hs


end ChiModel.Seeds
