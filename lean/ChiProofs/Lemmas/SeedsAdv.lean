import ChiProofs.Lemmas.SeedsTop
set_option linter.unusedSectionVars false
set_option linter.unusedSimpArgs false
namespace ChiModel.Seeds

/-! ## Part C — a generator passed as seed is advanced, never restarted -/

/-- indices of the calls made on stream `S`, in program order -/
def callIdxOn (S : StreamId) (calls : List Call) : List Nat :=
  (calls.filter (fun c => decide (c.stream = S))).map (fun c => c.idx)

theorem callIdxOn_append (S : StreamId) (a b : List Call) :
    callIdxOn S (a ++ b) = callIdxOn S a ++ callIdxOn S b := by
  simp [callIdxOn]

/-- run with a generator on stream `S` at counter `c`: the calls made on `S` are exactly
    `c, c+1, …, c'-1` in this order, and the caller's generator object is left at counter `c'` -/
def Adv (S : StreamId) (P : Sampler) : Prop :=
  ∀ g w, g.stream = S → ∃ g', (P (.gen g) w).1.2 = .gen g' ∧ g'.stream = S ∧ g.ctr ≤ g'.ctr ∧
    callIdxOn S (P (.gen g) w).1.1.calls = List.range' g.ctr (g'.ctr - g.ctr)

theorem adv_skip (S : StreamId) : Adv S skipS := by
  intro g w _
  exact ⟨g, rfl, ‹_›, Nat.le_refl _, by simp [skipS, Out.empty, callIdxOn]⟩

theorem adv_seq {S : StreamId} {a b : Sampler} (ha : Adv S a) (hb : Adv S b) : Adv S (seqS a b) := by
  intro g w hg
  obtain ⟨g1, h1, hs1, hm1, hc1⟩ := ha g w hg
  obtain ⟨g2, h2, hs2, hm2, hc2⟩ := hb g1 (a (.gen g) w).2 hs1
  refine ⟨g2, ?_, hs2, Nat.le_trans hm1 hm2, ?_⟩
  · simp only [seqS, h1, h2]
  · simp only [seqS, h1, Out.append, callIdxOn_append, hc1, hc2]
    have e1 : g1.ctr = g.ctr + (g1.ctr - g.ctr) := by omega
    have e2 : g2.ctr - g.ctr = (g1.ctr - g.ctr) + (g2.ctr - g1.ctr) := by omega
    rw [e2, ← List.range'_append_1, ← e1]

theorem adv_loop {S : StreamId} {ι : Type} {body : ι → Sampler} (h : ∀ x, Adv S (body x)) (xs : List ι) :
    Adv S (loopS body xs) := by
  induction xs with
  | nil => exact adv_skip S
  | cons x xs ih => exact adv_seq (h x) ih

theorem adv_mapCells {S : StreamId} {P : Sampler} (f : Cell → Cell) (h : Adv S P) : Adv S (mapCells f P) := by
  intro g w hg
  obtain ⟨g', h1, h2, h3, h4⟩ := h g w hg
  exact ⟨g', by simp only [mapCells, h1], h2, h3, by simpa only [mapCells] using h4⟩

theorem adv_withRng {S : StreamId} {body : Sampler} (h : Adv S body) : Adv S (withRng body) := by
  intro g w hg
  obtain ⟨g', h1, h2, h3, h4⟩ := h g w hg
  rw [withRng_gen ⟨g', h1⟩]
  exact ⟨g', h1, h2, h3, h4⟩

theorem callIdx_zipIdx (S : StreamId) (c : Nat) (l : List (Kind × Nat)) : ∀ k,
    callIdxOn S ((l.zipIdx k).map (fun kn => (⟨S, c + kn.2, kn.1.1, kn.1.2⟩ : Call)))
      = List.range' (c + k) l.length := by
  induction l with
  | nil => intro k; simp [callIdxOn]
  | cons a l ih =>
    intro k
    have := ih (k + 1)
    simp only [callIdxOn, List.zipIdx_cons, List.map_cons, List.filter_cons, decide_true, if_true,
      List.length_cons, List.range'_succ] at this ⊢
    rw [this, Nat.add_assoc]

theorem adv_drawS (S : StreamId) (calls : List (Kind × Nat)) (mk : StreamId → Nat → List Cell) :
    Adv S (drawS calls mk) := by
  intro g w hg
  refine ⟨⟨g.stream, g.ctr + calls.length⟩, rfl, hg, Nat.le_add_right _ _, ?_⟩
  have := callIdx_zipIdx g.stream g.ctr calls 0
  simp only [drawS, ← hg]
  simpa using this

theorem adv_trunc (S : StreamId) (nDim n : Nat) : Adv S (truncSample nDim n) := by
  intro g w hg
  refine ⟨⟨g.stream, g.ctr + 1⟩, rfl, hg, Nat.le_add_right _ _, ?_⟩
  subst hg
  simp [truncSample, callIdxOn, legacyDerived_ne]

theorem adv_elem (S : StreamId) (e : Elem) (nDim n : Nat) : Adv S (elemSample e nDim n) := by
  cases e
  · exact adv_withRng (adv_drawS S _ _)
  · exact adv_withRng (adv_drawS S _ _)
  · intro g w hg
    exact ⟨g, rfl, hg, Nat.le_refl _, by simp [elemSample, callIdxOn]⟩
  · exact adv_withRng (adv_drawS S _ _)
  · exact adv_trunc S nDim n

theorem adv_sub (S : StreamId) (m : SubModel) (n : Nat) : Adv S (subSample m n) := by
  unfold subSample
  split
  · exact adv_withRng (adv_loop (fun i => adv_mapCells _ (adv_elem S _ _ _)) _)
  · exact adv_elem S _ _ _

theorem adv_pop (S : StreamId) (p : Pop) (n : Nat) : Adv S (popSample p n) := by
  cases p with
  | single m => exact adv_sub S m n
  | composed ms => exact adv_withRng (adv_loop (fun mo => adv_mapCells _ (adv_sub S _ _)) _)

theorem adv_err (S : StreamId) (k : EM) (nT nS : Nat) : Adv S (errSample k nT nS) :=
  adv_withRng (adv_drawS S _ _)

theorem adv_pred (S : StreamId) (v : Variant) (kinds : List EM) (nT nS : Nat) :
    Adv S (predSample v kinds nT nS) := by
  unfold predSample
  split
  · exact adv_loop (fun ko => adv_mapCells _ (adv_err S _ _ _)) _
  · exact adv_withRng (adv_loop (fun ko => adv_mapCells _ (adv_err S _ _ _)) _)

theorem adv_popPredCore (S : StreamId) (v : Variant) (p : Pop) (kinds : List EM) (nT n : Nat) :
    Adv S (popPredCore v p kinds nT n) := by
  intro g w hg
  obtain ⟨g1, h1, hs1, hm1, hc1⟩ := adv_pop S p n g w hg
  obtain ⟨g2, h2, hs2, hm2, hc2⟩ := adv_loop (S := S)
    (fun i => adv_mapCells (fun c => { c with unit := i }) (adv_pred S v kinds nT 1)) (List.range n)
    g1 (popSample p n (.gen g) w).2 hs1
  refine ⟨g2, ?_, hs2, Nat.le_trans hm1 hm2, ?_⟩
  · simp only [popPredCore, h1, h2]
  · simp only [popPredCore, h1, callIdxOn_append, hc1, hc2]
    have e1 : g1.ctr = g.ctr + (g1.ctr - g.ctr) := by omega
    have e2 : g2.ctr - g.ctr = (g1.ctr - g.ctr) + (g2.ctr - g1.ctr) := by omega
    rw [e2, ← List.range'_append_1, ← e1]

theorem adv_popPred (S : StreamId) (v : Variant) (p : Pop) (kinds : List EM) (nT n : Nat) :
    Adv S (popPredSample v p kinds nT n) := by
  intro g w hg
  obtain ⟨g', h1, h2, h3, h4⟩ := adv_popPredCore S v p kinds nT n g w hg
  rw [popPred_gen v p kinds nT n g w ⟨g', h1⟩]
  exact ⟨g', h1, h2, h3, h4⟩

theorem adv_anyPred (S : StreamId) (v : Variant) (spec : PredSpec) (nT nS : Nat) :
    Adv S (anyPred v spec nT nS) := by
  cases spec with
  | indiv kinds => exact adv_pred S v kinds nT nS
  | pop p kinds => exact adv_popPred S v p kinds nT nS

theorem adv_postIter (S : StreamId) (v : Variant) (spec : PredSpec) (nT n k : Nat) :
    Adv S (postIter v spec nT n k) := by
  intro g w hg
  subst hg
  obtain ⟨g', h1, h2, h3, h4⟩ := adv_anyPred g.stream v spec nT n ⟨g.stream, g.ctr + 1⟩ w rfl
  simp only at h3
  refine ⟨g', by simp only [postIter, h1], h2, by omega, ?_⟩
  simp only [postIter, callIdxOn, List.filter_cons, decide_true, if_true, List.map_cons]
  simp only [callIdxOn] at h4
  rw [h4]
  have : g'.ctr - g.ctr = (g'.ctr - (g.ctr + 1)) + 1 := by omega
  rw [this, List.range'_succ]

theorem adv_postPred (S : StreamId) (v : Variant) (spec : PredSpec) (nT n : Nat) :
    Adv S (postPredSample v spec nT n) :=
  adv_withRng (adv_loop (fun k => adv_postIter S v spec nT n k) _)

theorem adv_pamLoop (S : StreamId) (v : Variant) (nT : Nat) (models : List (PredSpec × Nat)) :
    ∀ shift, Adv S (pamLoop v nT shift models) := by
  induction models with
  | nil => intro _; exact adv_skip _
  | cons m rest ih =>
    intro shift
    obtain ⟨spec, cnt⟩ := m
    unfold pamLoop
    refine adv_seq ?_ (ih _)
    split
    · exact adv_skip _
    · exact adv_mapCells _ (adv_postPred S v spec nT cnt)

/-- `PAMPredictiveModel.sample`; in the code as it is the allocation call is logged on the global
    generator's stream, which is not the stream of a `Generator` object -/
theorem adv_pam (S : StreamId) (v : Variant) (models : List (PredSpec × Nat)) (nT : Nat) (g : Gen) (w : World)
    (hg : g.stream = S) (hglob : v.globalChoice = true → w.glob.stream ≠ S) :
    ∃ g', (pamSample v models nT (.gen g) w).1.2 = .gen g' ∧ g'.stream = S ∧ g.ctr ≤ g'.ctr ∧
      callIdxOn S (pamSample v models nT (.gen g) w).1.1.calls = List.range' g.ctr (g'.ctr - g.ctr) := by
  subst hg
  cases hv : v.globalChoice
  · obtain ⟨g', h1, h2, h3, h4⟩ := adv_pamLoop g.stream v nT models 0 ⟨g.stream, g.ctr + 1⟩ w rfl
    simp only at h3
    refine ⟨g', by simp only [pamSample, hv, defaultRng, h1, finalSeed]; rfl, h2, by omega, ?_⟩
    simp only [pamSample, hv, defaultRng, Bool.false_eq_true, if_false, callIdxOn, List.filter_cons,
      decide_true, if_true, List.map_cons]
    simp only [callIdxOn] at h4
    rw [h4]
    have : g'.ctr - g.ctr = (g'.ctr - (g.ctr + 1)) + 1 := by omega
    rw [this, List.range'_succ]
  · obtain ⟨g', h1, h2, h3, h4⟩ := adv_pamLoop g.stream v nT models 0 g (globCall .legacyChoice
      ((models.map (·.2)).sum) w).2 rfl
    refine ⟨g', by simp only [pamSample, hv, defaultRng, h1, finalSeed]; rfl, h2, h3, ?_⟩
    have hne : ¬ (w.glob.stream = g.stream) := hglob hv
    simp only [pamSample, hv, defaultRng, if_true, callIdxOn, List.filter_cons, globCall, hne,
      decide_false, Bool.false_eq_true, if_false]
    simpa only [callIdxOn, globCall] using h4

end ChiModel.Seeds
