import ChiProofs.Lemmas.Phi
import ChiModel.PopComposed

/-! helper lemmas for the population-model theorems (C05): double index sums, Bool quantifiers -/
set_option linter.unusedSectionVars false
namespace ChiModel
open ScalarFns

theorem isum2_eq (n m : Nat) (g : Nat → Nat → ℝ) :
    isum2 n m g = ∑ i ∈ Finset.range n, ∑ d ∈ Finset.range m, g i d := by
  simp [isum2, isum_eq]

theorem iany2_real (n m : Nat) (p : Nat → Nat → Bool) :
    iany2 n m p = true ↔ ∃ i d, i < n ∧ d < m ∧ p i d = true := by
  unfold iany2
  rw [iany_real]
  constructor
  · rintro ⟨i, hi, h⟩
    rw [iany_real] at h
    obtain ⟨d, hd, h⟩ := h
    exact ⟨i, d, hi, hd, h⟩
  · rintro ⟨i, d, hi, hd, h⟩
    exact ⟨i, hi, (iany_real _ _).2 ⟨d, hd, h⟩⟩

theorem iany2_false (n m : Nat) (p : Nat → Nat → Bool)
    (h : ∀ i d, i < n → d < m → p i d = false) : iany2 n m p = false := by
  by_contra hc
  rw [Bool.not_eq_false] at hc
  obtain ⟨i, d, hi, hd, hp⟩ := (iany2_real n m p).1 hc
  rw [h i d hi hd] at hp
  exact Bool.false_ne_true hp

@[simp] theorem zero_real : (zero : ℝ) = 0 := by simp [zero]
@[simp] theorem oneS_real : (oneS : ℝ) = 1 := by simp [oneS]

theorem isum2_congr (n m : Nat) (f g : Nat → Nat → ℝ)
    (h : ∀ i d, i < n → d < m → f i d = g i d) : isum2 n m f = isum2 n m g := by
  rw [isum2_eq, isum2_eq]
  refine Finset.sum_congr rfl fun i hi => Finset.sum_congr rfl fun d hd => ?_
  exact h i d (Finset.mem_range.mp hi) (Finset.mem_range.mp hd)

theorem neg_isum2 (n m : Nat) (f : Nat → Nat → ℝ) :
    -(isum2 n m f) = isum2 n m (fun i d => -(f i d)) := by
  simp [isum2_eq, Finset.sum_neg_distrib]

/-- derivative of a double index sum, termwise -/
theorem hasDerivAt_isum2 (n m : Nat) (g : Nat → Nat → ℝ → ℝ) (g' : Nat → Nat → ℝ) (t : ℝ)
    (h : ∀ i d, i < n → d < m → HasDerivAt (g i d) (g' i d) t) :
    HasDerivAt (fun s => isum2 n m (fun i d => g i d s)) (isum2 n m g') t := by
  unfold isum2
  exact hasDerivAt_isum n (fun i s => isum m (fun d => g i d s)) (fun i => isum m (g' i)) t
    (fun i hi => hasDerivAt_isum m (g i) (g' i) t (fun d hd => h i d hi hd))

theorem isum2_add (n m : Nat) (f g : Nat → Nat → ℝ) :
    isum2 n m f + isum2 n m g = isum2 n m (fun i d => f i d + g i d) := by
  simp [isum2_eq, Finset.sum_add_distrib]

theorem isum_congr (n : Nat) (f g : Nat → ℝ) (h : ∀ i, i < n → f i = g i) : isum n f = isum n g := by
  rw [isum_eq, isum_eq]
  exact Finset.sum_congr rfl fun i hi => h i (Finset.mem_range.mp hi)

theorem sum_tensor_two (nIds nDim : Nat) (g T : Nat → Nat → Nat → ℝ) :
    ∑ i ∈ Finset.range nIds, ∑ p ∈ Finset.range 2, ∑ d ∈ Finset.range nDim, g i p d * T i p d
      = isum2 nIds nDim (fun i d => g i 0 d * T i 0 d + g i 1 d * T i 1 d) := by
  simp [isum2_eq, Finset.sum_range_succ, Finset.sum_add_distrib]

end ChiModel
