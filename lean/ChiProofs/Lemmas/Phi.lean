import ChiProofs.RealInst
import ChiModel.PopModels
import Mathlib.Probability.Distributions.Gaussian.Real
import Mathlib.Probability.CDF
import Mathlib.MeasureTheory.Integral.IntervalIntegral.FundThmCalculus

/-!
# The standard normal cdf `Φ`, its derivative, and the `ℝ` instance of `HasErf`

`erf` over `ℝ` is *defined* from Mathlib's normal cdf (`erf x = 2 Φ(x√2) − 1`), so that the
model's `normCdf x = (1 + erf (x / √2)) / 2` is literally `Φ x`.
-/

open MeasureTheory ProbabilityTheory Set
open scoped NNReal

namespace ChiModel

/-- standard normal cdf -/
noncomputable def Phi (x : ℝ) : ℝ := cdf (gaussianReal 0 1) x

theorem Phi_eq_integral (x : ℝ) : Phi x = ∫ t in Iic x, gaussianPDFReal 0 1 t := by
  unfold Phi
  rw [cdf_eq_real, measureReal_def, gaussianReal_apply_eq_integral _ one_ne_zero]
  rw [ENNReal.toReal_ofReal]
  exact setIntegral_nonneg measurableSet_Iic (fun t _ => gaussianPDFReal_nonneg _ _ _)

theorem continuous_gaussianPDFReal (μ : ℝ) (v : ℝ≥0) : Continuous (gaussianPDFReal μ v) := by
  unfold gaussianPDFReal
  fun_prop

/-- `Φ' = φ` -/
theorem Phi_hasDerivAt (x : ℝ) : HasDerivAt Phi (gaussianPDFReal 0 1 x) x := by
  have hint : Integrable (gaussianPDFReal 0 1) := integrable_gaussianPDFReal 0 1
  have hcont := continuous_gaussianPDFReal 0 1
  have key : ∀ y, Phi y = Phi 0 + ∫ t in (0:ℝ)..y, gaussianPDFReal 0 1 t := by
    intro y
    rw [Phi_eq_integral, Phi_eq_integral,
      ← intervalIntegral.integral_Iic_sub_Iic hint.integrableOn hint.integrableOn]
    ring
  have hd : HasDerivAt (fun y => ∫ t in (0:ℝ)..y, gaussianPDFReal 0 1 t) (gaussianPDFReal 0 1 x) x :=
    intervalIntegral.integral_hasDerivAt_right (hcont.intervalIntegrable _ _)
      (hcont.stronglyMeasurableAtFilter _ _) hcont.continuousAt
  have := (hd.const_add (Phi 0))
  exact this.congr_of_eventuallyEq (Filter.Eventually.of_forall key)

/-- `Φ x < 1`: the upper tail has positive mass -/
theorem Phi_lt_one (x : ℝ) : Phi x < 1 := by
  unfold Phi
  rw [cdf_eq_real]
  have hpos : 0 < (gaussianReal 0 1) (Ioi x) := by
    rw [pos_iff_ne_zero]
    intro h0
    have := gaussianReal_absolutelyContinuous' 0 (one_ne_zero) h0
    simp at this
  have hcompl : (gaussianReal 0 1) (Iic x) = 1 - (gaussianReal 0 1) (Ioi x) := by
    have h1 := prob_compl_eq_one_sub (μ := gaussianReal 0 1) (measurableSet_Ioi (a := x))
    rw [compl_Ioi] at h1
    exact h1
  rw [measureReal_def, hcompl]
  have hle : (gaussianReal 0 1) (Ioi x) ≤ 1 := prob_le_one
  have hne : (gaussianReal 0 1) (Ioi x) ≠ ⊤ := ne_top_of_le_ne_top ENNReal.one_ne_top hle
  rw [ENNReal.toReal_sub_of_le hle ENNReal.one_ne_top]
  simp only [ENNReal.toReal_one]
  have : 0 < ((gaussianReal 0 1) (Ioi x)).toReal := ENNReal.toReal_pos hpos.ne' hne
  linarith

/-- the proof-side `erf` -/
noncomputable instance : HasErf ℝ := ⟨fun x => 2 * Phi (x * Real.sqrt 2) - 1⟩

@[simp] theorem normCdf_real (x : ℝ) : normCdf x = Phi x := by
  unfold normCdf
  simp only [HasErf.erf, ofNat_real, sqrt_real, two_real, Nat.cast_one]
  have h2 : Real.sqrt 2 ≠ 0 := by positivity
  rw [div_mul_cancel₀ _ h2]
  ring

end ChiModel
