import ChiProofs.Lemmas.MechConfigLegacy
/-!
# C11 lemmas, part 3: `simulate` on the object of a reachable configuration reaches the solver and runs
(`simulateO_isSome`): the name tables, the solver's model, the selected outputs and the wrapper's buffers fit.
-/
set_option linter.unusedSectionVars false
set_option linter.unusedSimpArgs false
namespace ChiModel.MechConfig
variable (b : Base)

theorem mapMOpt_some_of_all {α β} (f : α → Option β) (l : List α) (h : ∀ k ∈ l, (f k).isSome) :
    ∃ ys, mapMOpt f l = some ys ∧ ys.length = l.length ∧
      ∀ i (hi : i < l.length) (hj : i < ys.length), f l[i] = some ys[i] := by
  induction l with
  | nil => exact ⟨[], rfl, rfl, fun i hi => absurd hi (by simp)⟩
  | cons a l ih =>
    obtain ⟨ys, hys, hlen, hget⟩ := ih (fun k hk => h k (by simp [hk]))
    have ha := h a (by simp)
    cases hfa : f a with
    | none => simp [hfa] at ha
    | some x =>
      refine ⟨x :: ys, ?_, by simp [hlen], ?_⟩
      · unfold mapMOpt; simp [hfa, hys]
      · intro i hi hj
        cases i with
        | zero => simpa using hfa
        | succ i => simpa using hget i (by simpa using hi) (by simpa using hj)

theorem mem_sortNames (l : List String) (x : String) : x ∈ sortNames l ↔ x ∈ l :=
  (sortNames_perm l).mem_iff

theorem length_sortNames' (l : List String) : (sortNames l).length = l.length :=
  (sortNames_perm l).length_eq

/-- `simulate` on the object of a configuration whose outputs exist, with a vector of the right length,
reaches the solver and runs -/
theorem simulateM_isSome (c : Config) (args : List Src)
    (hlen : args.length = (cfgTables b c).nParams)
    (houts : firstErr (outputCheck b (variantOf c.admin)) c.outputs = none) :
    (simulateM b (buildM b c) args).isSome := by
  have hn : (tablesOf b (variantOf c.admin)).nStates = (vStates b (variantOf c.admin)).length := rfl
  have hnp : (tablesOf b (variantOf c.admin)).nParams
      = (vStates b (variantOf c.admin)).length + (sortNames (vConsts b (variantOf c.admin))).length := rfl
  have hlen' : args.length
      = (vStates b (variantOf c.admin)).length + (sortNames (vConsts b (variantOf c.admin))).length := by
    rw [← hnp]; exact hlen
  -- states
  have h1 : ∀ i ∈ (buildM b c).tabs.origOrder, ((List.take (buildM b c).tabs.nStates args)[i]?).isSome := by
    intro i hi
    have hi' : i ∈ (vStates b (variantOf c.admin)).map
        (fun n => (sortNames (vStates b (variantOf c.admin))).idxOf n) := hi
    obtain ⟨nm, hnm, rfl⟩ := List.mem_map.mp hi'
    have hmem : nm ∈ sortNames (vStates b (variantOf c.admin)) := (mem_sortNames _ _).mpr hnm
    have hlt : (sortNames (vStates b (variantOf c.admin))).idxOf nm < (vStates b (variantOf c.admin)).length := by
      rw [← length_sortNames']; exact List.idxOf_lt_length_of_mem hmem
    have hns : (buildM b c).tabs.nStates = (vStates b (variantOf c.admin)).length := rfl
    rw [List.getElem?_eq_getElem (by rw [List.length_take, hns]; omega)]
    rfl
  obtain ⟨perm, hperm, hpl, _⟩ := mapMOpt_some_of_all _ _ h1
  have hpl' : perm.length = (vStates b (buildM b c).sim.variant).length := by
    rw [hpl]; show ((vStates b (variantOf c.admin)).map _).length = _; simp; rfl
  -- constants
  have h2 : ∀ ci ∈ (buildM b c).tabs.constNames.zipIdx,
      ((List.drop (buildM b c).tabs.nStates args)[ci.2]?.map (fun x => (ci.1, x))).isSome := by
    intro ci hci
    have hlt : ci.2 < (sortNames (vConsts b (variantOf c.admin))).length := by
      have := List.mem_zipIdx hci
      have hcn : (buildM b c).tabs.constNames.length = (sortNames (vConsts b (variantOf c.admin))).length := rfl
      omega
    have hns : (buildM b c).tabs.nStates = (vStates b (variantOf c.admin)).length := rfl
    rw [List.getElem?_eq_getElem (by rw [List.length_drop, hns]; omega)]
    rfl
  obtain ⟨cs, hcs, hcl, hcget⟩ := mapMOpt_some_of_all _ _ h2
  have hcs_mem : ∀ p ∈ cs, p.1 ∈ vConsts b (buildM b c).sim.variant := by
    intro p hp
    obtain ⟨i, hi, rfl⟩ := List.getElem_of_mem hp
    have hi' : i < (buildM b c).tabs.constNames.zipIdx.length := by rw [← hcl]; exact hi
    have := hcget i hi' hi
    rw [List.getElem_zipIdx] at this
    simp only [Option.map_eq_some_iff] at this
    obtain ⟨x, _, hx⟩ := this
    rw [← hx]
    exact (mem_sortNames _ _).mp (List.getElem_mem _)
  have houts' : ∀ o ∈ (buildM b c).outputNames, o ∈ vStates b (buildM b c).sim.variant ∨ o ∈ b.inters := by
    intro o ho
    have := (firstErr_none _ _).mp houts o ho
    unfold outputCheck at this
    by_contra hcon
    have hcon' : ¬ (o ∈ vStates b (variantOf c.admin) ∨ o ∈ b.inters) := hcon
    rw [if_neg hcon'] at this
    split_ifs at this
  have hA : ¬ ((cs.any fun c_1 => decide ¬c_1.fst ∈ vConsts b (buildM b c).sim.variant) = true) := by
    simp only [List.any_eq_true, decide_eq_true_eq, not_exists, not_and, not_not]
    intro p hp; exact hcs_mem p hp
  have hB : ¬ (((buildM b c).outputNames.any
      fun o => decide ¬(o ∈ vStates b (buildM b c).sim.variant ∨ o ∈ b.inters)) = true) := by
    simp only [List.any_eq_true, decide_eq_true_eq, not_exists, not_and, not_not]
    intro o ho; exact houts' o ho
  have hC : ¬ ((buildM b c).hasSens ≠ (buildM b c).sim.sens.isSome) := by
    show ¬ (c.sens.isSome ≠ (Option.map (fun sel => (c.outputs, sel)) c.sens).isSome)
    cases c.sens <;> simp
  have hD : ¬ (perm.length ≠ (vStates b (buildM b c).sim.variant).length) := by simpa using hpl'
  unfold simulateM
  simp only [hperm, hcs]
  rw [if_neg hD, if_neg hA, if_neg hB, if_neg hC]
  rfl


/-- mask and value buffer of the wrapper are both absent or both of the wrapped model's length -/
def RedOK (n : Nat) (mask : Option (List Bool)) (values : Option (List Src)) : Prop :=
  match mask, values with
  | none, none => True
  | some m, some v => m.length = n ∧ v.length = n
  | _, _ => False

def RedInv (c : Config) : Prop := ∀ r, c.red = some r → RedOK (cfgTables b c).nParams r.mask r.values

theorem fixLoop_length (d : List (String × Option Nat)) :
    ∀ (ns : List String) (ms : List Bool) (vs : List Src),
      (fixLoop d ns ms vs).1.length = ms.length ∧ (fixLoop d ns ms vs).2.length = vs.length := by
  intro ns
  induction ns with
  | nil => intro ms vs; simp [fixLoop]
  | cons n ns ih =>
    intro ms vs
    cases ms with
    | nil => simp [fixLoop]
    | cons m ms =>
      cases vs with
      | nil => simp [fixLoop]
      | cons v vs =>
        have := ih ms vs
        unfold fixLoop
        cases d.lookup n with
        | none => simp [this.1, this.2]
        | some x => cases x <;> simp [this.1, this.2]

theorem fixMask_ok (names : List String) (n : Nat) (mask values d) (h : RedOK n mask values) :
    RedOK n (fixMask names n mask values d).1 (fixMask names n mask values d).2 := by
  unfold fixMask
  simp only []
  split_ifs
  · trivial
  · have hl := fixLoop_length d names (mask.getD (List.replicate n false))
      (values.getD (List.replicate n Src.garbage))
    cases mask with
    | none =>
      cases values with
      | none => simpa [RedOK] using hl
      | some v => exact absurd h (by simp [RedOK])
    | some m =>
      cases values with
      | none => exact absurd h (by simp [RedOK])
      | some v =>
        simp only [RedOK] at h
        simpa [RedOK, h.1, h.2] using hl


theorem redinv_of (c c' : Config) (h : RedInv b c) (ha : c'.admin = c.admin)
    (hr : ∀ r', c'.red = some r' → ∃ r, c.red = some r ∧ r'.mask = r.mask ∧ r'.values = r.values) :
    RedInv b c' := by
  intro r' hr'
  obtain ⟨r, h1, h2, h3⟩ := hr r' hr'
  unfold cfgTables; rw [ha, h2, h3]; exact h r h1

theorem cfgSensR_red (c : Config) (r on) :
    ∃ e, (cfgSensR b c r on).1.red = some { r with emptySens := e } := by
  unfold cfgSensR
  simp only []
  split_ifs <;> exact ⟨_, rfl⟩

theorem redinv_apply (c : Config) (op : Op) (h : RedInv b c) : RedInv b (applyCfg b c op).1 := by
  cases hr : c.red with
  | none =>
    have hnone : ∀ c' : Config, c'.red = none → RedInv b c' := by
      intro c' h' r hr'; rw [h'] at hr'; cases hr'
    unfold applyCfg
    cases op with
    | setAdmin a =>
      simp only [hr]; split_ifs
      · exact hnone _ hr
      · exact hnone _ (by rw [cfgAdmin_red, hr])
    | setRegimen x =>
      simp only [hr]; split_ifs
      · exact hnone _ hr
      · exact hnone _ (by rw [(cfgRegimen_frame c x).2.2, hr])
    | setOutputs outs => simp only [hr]; exact hnone _ (by rw [(cfgOutputs_frame b c outs).2.2, hr])
    | setParamNames names => simp only [hr]; exact hnone _ rfl
    | setOutputNames names => simp only [hr]; exact hnone _ rfl
    | enableSens on names => simp only [hr]; exact hnone _ (by rw [(cfgSens_frame b c on names).2.2, hr])
    | wrap =>
      simp only [hr]
      intro r' hr'
      simp only [Option.some.injEq] at hr'
      subst hr'
      trivial
    | fix d => simp only [hr]; exact hnone _ hr
    | copy => simp only [hr]; exact hnone _ rfl
  | some r =>
    have hok := h r hr
    unfold applyCfg
    cases op with
    | setAdmin a => simp only [hr]; exact h
    | wrap => simp only [hr]; exact h
    | setRegimen x =>
      simp only [hr]; split_ifs
      · exact h
      · exact redinv_of b c _ h (cfgRegimen_frame c x).1
          (fun r' hr' => ⟨r, hr, by rw [(cfgRegimen_frame c x).2.2, hr] at hr'; cases hr'; exact ⟨rfl, rfl⟩⟩)
    | setOutputs outs =>
      simp only [hr]
      split
      · exact redinv_of b c _ h (cfgOutputs_frame b c outs).1
          (fun r' hr' => ⟨r, hr, by simp only [Option.some.injEq] at hr'; subst hr'; exact ⟨rfl, rfl⟩⟩)
      · exact redinv_of b c _ h (cfgOutputs_frame b c outs).1
          (fun r' hr' => ⟨r, hr, by rw [(cfgOutputs_frame b c outs).2.2, hr] at hr'; cases hr'; exact ⟨rfl, rfl⟩⟩)
    | setParamNames names =>
      simp only [hr]
      exact redinv_of b c _ h rfl (fun r' hr' => ⟨r, hr, by
        have : some r = some r' := hr'
        cases this; exact ⟨rfl, rfl⟩⟩)
    | setOutputNames names =>
      simp only [hr]
      exact redinv_of b c _ h rfl (fun r' hr' => ⟨r, hr, by
        have : some r = some r' := hr'
        cases this; exact ⟨rfl, rfl⟩⟩)
    | enableSens on names =>
      cases names with
      | some ns => simp only [hr]; exact h
      | none =>
        simp only [hr]
        obtain ⟨e, he⟩ := cfgSensR_red b c r on
        exact redinv_of b c _ h (cfgSensR_frame b c r on).1
          (fun r' hr' => ⟨r, hr, by rw [he] at hr'; cases hr'; exact ⟨rfl, rfl⟩⟩)
    | copy =>
      simp only [hr]
      exact redinv_of b c _ h rfl (fun r' hr' => ⟨r, hr, by
        simp only [Option.some.injEq] at hr'; subst hr'; exact ⟨rfl, rfl⟩⟩)
    | fix d =>
      simp only [hr]
      have hfix := fixMask_ok ((cfgPublic b c).getD []) (cfgTables b c).nParams r.mask r.values d hok
      unfold cfgFix
      simp only []
      generalize fixMask ((cfgPublic b c).getD []) (cfgTables b c).nParams r.mask r.values d = mv at hfix ⊢
      split_ifs
      · obtain ⟨e, he⟩ := cfgSensR_red b { c with red := some { r with mask := mv.1, values := mv.2 } }
          { r with mask := mv.1, values := mv.2 } true
        have ha := (cfgSensR_frame b { c with red := some { r with mask := mv.1, values := mv.2 } }
          { r with mask := mv.1, values := mv.2 } true).1
        intro r' hr'
        rw [he] at hr'
        cases hr'
        have hn : (cfgTables b (cfgSensR b { c with red := some { r with mask := mv.1, values := mv.2 } }
            { r with mask := mv.1, values := mv.2 } true).1).nParams = (cfgTables b c).nParams := by
          unfold cfgTables; rw [ha]
        rw [hn]; exact hfix
      · intro r' hr'
        simp only [Option.some.injEq] at hr'
        subst hr'
        exact hfix

/-! ### `simulate` runs -/

theorem filter_not_length (m : List Bool) :
    (m.filter (fun x => !x)).length = m.length - (m.filter id).length := by
  induction m with
  | nil => rfl
  | cons a m ih =>
    have hle : (m.filter id).length ≤ m.length := List.length_filter_le _ _
    cases a <;> simp [List.filter_cons, ih] <;> omega

theorem fillFree_length : ∀ (m : List Bool) (v args : List Src), v.length = m.length →
    (fillFree m v args).length = m.length := by
  intro m
  induction m with
  | nil => intro v args _; cases v <;> rfl
  | cons a m ih =>
    intro v args hv
    cases v with
    | nil => simp at hv
    | cons x v =>
      have hv' : v.length = m.length := by simpa using hv
      unfold fillFree
      cases a
      · cases args with
        | nil => simp [ih v [] hv']
        | cons y ys => simp [ih v ys hv']
      · simp [ih v args hv']

theorem fullArgs_some (r : Red) (m : List Bool) (v : List Src) (N n : Nat) (hrm : r.mask = some m)
    (hrv : r.values = some v) (hm : m.length = N) (hv : v.length = N)
    (hn : n = N - (m.filter id).length) :
    ∃ args, fullArgs (some r) n = some args ∧ args.length = N := by
  have hle : (m.filter id).length ≤ m.length := List.length_filter_le _ _
  have hb : ((m.filter (fun x => !x)).length != ((List.range n).map Src.arg).length) = false := by
    simp [filter_not_length, hn, hm]
  unfold fullArgs
  simp only [hrm, hrv, hb, Bool.false_eq_true, if_false]
  exact ⟨_, rfl, by rw [fillFree_length m v _ (by rw [hm, hv]), hm]⟩

/-- the vector built from `n_parameters()` entries always fits, and has the wrapped model's length -/
theorem fullArgs_ok (c : Config) (h : RedInv b c) :
    ∃ args, fullArgs (build b c).r (nParametersO (build b c)) = some args ∧
      args.length = (cfgTables b c).nParams := by
  unfold build
  cases hr : c.red with
  | none =>
    refine ⟨_, rfl, ?_⟩
    simp [nParametersO, buildM, cfgTables]
  | some r =>
    have hok := h r hr
    obtain ⟨mask, values, e⟩ := r
    cases mask with
    | none =>
      cases values with
      | some v => exact absurd hok (by simp [RedOK])
      | none =>
        refine ⟨_, rfl, ?_⟩
        simp [nParametersO, buildR, nFixed]
    | some m =>
      cases values with
      | none => exact absurd hok (by simp [RedOK])
      | some v =>
        simp only [RedOK] at hok
        exact fullArgs_some _ m v _ _ rfl rfl hok.1 hok.2 rfl

theorem simulateO_isSome (c : Config) (h : RedInv b c)
    (houts : firstErr (outputCheck b (variantOf c.admin)) c.outputs = none) :
    (simulateO b (build b c)).isSome := by
  obtain ⟨args, ha, hl⟩ := fullArgs_ok b c h
  unfold simulateO
  rw [ha]
  exact simulateM_isSome b c args hl houts

end ChiModel.MechConfig

namespace ChiModel.MechConfig
variable (b : Base)

/-- the invariant without ghost information (all flags set): holds after every history, for every model -/
theorem inv_init_weak : Inv b ⟨true, true, true⟩ (initCfg b) where
  keys := map_fst_idMap _
  outs := by
    rw [firstErr_none]
    intro x hx
    have hx' : x ∈ b.states := (sortNames_perm b.states).mem_iff.mp
      (by simpa [initCfg, tablesOf, vStates, Variant.depot] using hx)
    simp [outputCheck, variantOf, initCfg, vStates, Variant.depot, hx']
  reg := fun h => by cases h
  adm := fun h => by cases h
  ren := fun h => by cases h

theorem hist_next_top (op : Op) : (⟨true, true, true⟩ : Hist).next op = ⟨true, true, true⟩ := by
  cases op <;> simp [Hist.next]

theorem inv_net (ops : List Op) : ∀ c, Inv b ⟨true, true, true⟩ c → Inv b ⟨true, true, true⟩ (net b c ops) := by
  induction ops with
  | nil => intro c h; exact h
  | cons op ops ih =>
    intro c h
    have := inv_apply b _ c op h
    rw [hist_next_top] at this
    exact ih _ this

theorem redinv_net (ops : List Op) : ∀ c, RedInv b c → RedInv b (net b c ops) := by
  induction ops with
  | nil => intro c h; exact h
  | cons op ops ih => intro c h; exact ih _ (redinv_apply b c op h)

theorem redinv_init : RedInv b (initCfg b) := by
  intro r hr; cases hr

end ChiModel.MechConfig
