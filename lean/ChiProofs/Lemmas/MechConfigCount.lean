import ChiProofs.Lemmas.MechConfigCanon
/-!
# C11 lemmas, part 5: `_n_sensitivity_parameters` (hidden state since 3790485) — while sensitivities are enabled
it is the number of parameters of the solver's sensitivity request (`Inv4`), otherwise an unobservable residue
(`observe_normCount`); `simulate` on an empty time grid reports exactly the shapes of a regular one
(`emptyGrid_build`).
-/
set_option linter.unusedSectionVars false
set_option linter.unusedSimpArgs false
namespace ChiModel.MechConfig
variable (b : Base)

/-- while sensitivities are enabled `_n_sensitivity_parameters` is the number of selected parameters, and
the wrapper's "enabled with nothing free" flag excludes a selection in the wrapped model -/
structure Inv4 (c : Config) : Prop where
  count : ∀ sel, c.sens = some sel → c.sensCount = sel.length
  empty : ∀ r, c.red = some r → r.emptySens = true → c.sens = none

theorem cfgSens_count (c : Config) (on names) (h : Inv4 c) :
    ∀ sel, (cfgSens b c on names).1.sens = some sel → (cfgSens b c on names).1.sensCount = sel.length := by
  unfold cfgSens
  cases on with
  | false => intro sel hs; simp at hs
  | true =>
    simp only [Bool.not_true, Bool.false_eq_true, if_false]
    split_ifs
    · exact h.count
    · intro sel hs; simp only [Option.some.injEq] at hs; subst hs; rfl

theorem cfgSens_false_sens (c : Config) (names) : (cfgSens b c false names).1.sens = none := by
  simp [cfgSens]

/-- a `cfgSens` result, re-labelled with a wrapper state whose flag is set only when sensitivities were
switched off in the wrapped model -/
theorem inv4_cfgSens_red (c : Config) (on names) (r' : Option RedCfg) (h : Inv4 c)
    (he : ∀ r, r' = some r → r.emptySens = true → on = false) :
    Inv4 { (cfgSens b c on names).1 with red := r' } := by
  refine ⟨cfgSens_count b c on names h, fun r hr hemp => ?_⟩
  have := he r hr hemp
  subst this
  exact cfgSens_false_sens b c names

theorem inv4_cfgSensR (c : Config) (r : RedCfg) (on : Bool) (h : Inv4 c) : Inv4 (cfgSensR b c r on).1 := by
  unfold cfgSensR
  simp only []
  split_ifs with h1 h2
  · have hon : on = false := by simpa using h1
    subst hon
    exact inv4_cfgSens_red b c false none _ h (fun _ _ _ => rfl)
  · exact inv4_cfgSens_red b c false none _ h (fun _ _ _ => rfl)
  · exact inv4_cfgSens_red b c true _ _ h (fun r hr he => by
      simp only [Option.some.injEq] at hr; subst hr; simp at he)

theorem inv4_of_sens_none (c : Config) (hs : c.sens = none) : Inv4 c :=
  ⟨fun sel h => (by rw [hs] at h; cases h), fun _ _ _ => hs⟩

theorem inv4_congr (c c' : Config) (h : Inv4 c) (hs : c'.sens = c.sens) (hc : c'.sensCount = c.sensCount)
    (hr : ∀ r', c'.red = some r' → r'.emptySens = true → ∃ r, c.red = some r ∧ r.emptySens = true) :
    Inv4 c' := by
  refine ⟨fun sel hsel => ?_, fun r' hr' he => ?_⟩
  · rw [hc]; exact h.count sel (by rw [← hs]; exact hsel)
  · obtain ⟨r, h1, h2⟩ := hr r' hr' he
    rw [hs]; exact h.empty r h1 h2

theorem inv4_apply (c : Config) (op : Op) (h : Inv4 c) : Inv4 (applyCfg b c op).1 := by
  unfold applyCfg
  cases op with
  | setAdmin a =>
    cases hr : c.red with
    | some r => simp only [hr]; exact h
    | none =>
      simp only [hr]
      split_ifs
      · exact h
      · unfold cfgAdmin
        split
        · exact h
        · split
          · exact h
          · exact inv4_of_sens_none _ rfl
  | setRegimen x =>
    cases hr : c.red <;> simp only [hr] <;> split_ifs <;> first
      | exact h
      | (unfold cfgRegimen; split
         · exact h
         · exact inv4_congr c _ h rfl rfl (fun r' hr' he => ⟨r', hr', he⟩))
  | setOutputs outs =>
    cases hr : c.red with
    | none =>
      simp only [hr]; unfold cfgOutputs
      cases he : firstErr (outputCheck b (variantOf c.admin)) (translate c.omap outs) with
      | some e => simpa [he] using h
      | none => simp only [he]; exact inv4_of_sens_none _ rfl
    | some r =>
      simp only [hr]
      unfold cfgOutputs
      cases he : firstErr (outputCheck b (variantOf c.admin)) (translate c.omap outs) with
      | some e => simpa [he] using h
      | none => simp only [he]; exact inv4_of_sens_none _ rfl
  | setParamNames names =>
    cases hr : c.red <;> simp only [hr] <;>
      exact inv4_congr c _ h rfl rfl (fun r' hr' he => ⟨r', by rw [hr]; exact hr', he⟩)
  | setOutputNames names =>
    cases hr : c.red <;> simp only [hr] <;>
      exact inv4_congr c _ h rfl rfl (fun r' hr' he => ⟨r', by rw [hr]; exact hr', he⟩)
  | enableSens on names =>
    cases hr : c.red with
    | none =>
      simp only [hr]
      have := inv4_cfgSens_red b c on names (cfgSens b c on names).1.red h (fun r hr' _ => by
        rw [(cfgSens_frame b c on names).2.2, hr] at hr'; cases hr')
      exact this
    | some r =>
      cases names with
      | none => simp only [hr]; exact inv4_cfgSensR b c r on h
      | some ns => simp only [hr]; exact h
  | wrap =>
    cases hr : c.red with
    | none =>
      simp only [hr]
      exact inv4_congr c _ h rfl rfl (fun r' hr' he => by
        simp only [Option.some.injEq] at hr'; subst hr'; simp at he)
    | some r => simp only [hr]; exact h
  | fix d =>
    cases hr : c.red with
    | none => simp only [hr]; exact h
    | some r =>
      simp only [hr]
      unfold cfgFix
      simp only []
      have hc1 : Inv4 { c with red := some { r with
          mask := (fixMask ((cfgPublic b c).getD []) (cfgTables b c).nParams r.mask r.values d).1,
          values := (fixMask ((cfgPublic b c).getD []) (cfgTables b c).nParams r.mask r.values d).2 } } :=
        inv4_congr c _ h rfl rfl (fun r' hr' he => by
          simp only [Option.some.injEq] at hr'; subst hr'; exact ⟨r, hr, he⟩)
      split_ifs
      · exact inv4_cfgSensR b _ _ true hc1
      · exact hc1
  | copy =>
    cases hr : c.red <;> simp only [hr] <;> exact inv4_of_sens_none _ rfl

theorem inv4_init : Inv4 (initCfg b) := inv4_of_sens_none _ rfl

theorem inv4_net (ops : List Op) : ∀ c, Inv4 c → Inv4 (net b c ops) := by
  induction ops with
  | nil => intro c h; exact h
  | cons op ops ih => intro c h; exact ih _ (inv4_apply b c op h)


theorem normCount_eq (c : Config) (h : Inv4 c) (sel : List String) (hs : c.sens = some sel) :
    normCount c = c := by
  obtain ⟨a, r, o, p, om, s, rd, n⟩ := c
  simp only at hs
  subst hs
  have := h.count sel rfl
  simp only at this
  subst this
  rfl

/-- the residue is unobservable: the object with the residue of a new object behaves the same -/
theorem observe_normCount (c : Config) (h : Inv4 c) :
    observe b (build b (normCount c)) = observe b (build b c) := by
  cases hs : c.sens with
  | some sel => rw [normCount_eq c h sel hs]
  | none =>
    obtain ⟨a, r, o, p, om, s, rd, n⟩ := c
    simp only at hs
    subst hs
    cases rd with
    | none => rfl
    | some r0 => rfl

theorem simulateM_fields (s : MState) (args : List Src) (r : SimRecord)
    (h : simulateM b s args = some r) : r.log = s.outputNames ∧ r.sens = s.sim.sens := by
  unfold simulateM at h
  simp only [] at h
  repeat' (first | split at h | cases h)
  exact ⟨rfl, rfl⟩

theorem simulateEmptyM_of_simulateM (s : MState) (args : List Src) (r : SimRecord)
    (h : simulateM b s args = some r) :
    simulateEmptyM b s args = some (s.nOutputs, if s.hasSens then some s.nSens else none) := by
  unfold simulateM at h
  unfold simulateEmptyM
  simp only [] at h ⊢
  cases h1 : mapMOpt (fun i => (List.take s.tabs.nStates args)[i]?) s.tabs.origOrder with
  | none => rw [h1] at h; cases h
  | some perm =>
    rw [h1] at h
    simp only [] at h ⊢
    by_cases hl : perm.length = (vStates b s.sim.variant).length
    · have hb : (perm.length != (vStates b s.sim.variant).length) = false := by simp [hl]
      rw [hb]
      simp only [Bool.false_eq_true, if_false]
      rw [if_neg (by simpa using hl)] at h
      cases h2 : mapMOpt (fun (ci : String × Nat) => (List.drop s.tabs.nStates args)[ci.2]?.map
          (fun x => (ci.1, x))) s.tabs.constNames.zipIdx with
      | none => rw [h2] at h; cases h
      | some cs =>
        rw [h2] at h
        simp only [] at h ⊢
        by_cases hc : (cs.any fun c => decide (c.1 ∉ vConsts b s.sim.variant)) = true
        · rw [if_pos hc] at h; cases h
        · rw [if_neg hc]
    · rw [if_pos (by simpa using hl)] at h; cases h


/-- on the object of a reachable configuration `simulate` on an empty time grid returns one row per
output and, when sensitivities are enabled, one column per parameter of the solver's sensitivity request
(none for a wrapper with every parameter fixed) -/
theorem emptyGrid_build (c : Config) (h4 : Inv4 c) (hr : RedInv b c)
    (houts : firstErr (outputCheck b (variantOf c.admin)) c.outputs = none) :
    ∃ r, simulateO b (build b c) = some r ∧
      simulateEmptyO b (build b c) = some (r.log.length,
        if hasSensO (build b c) then some ((r.sens.map (fun x => x.2.length)).getD 0) else none) := by
  obtain ⟨args, ha, hl⟩ := fullArgs_ok b c hr
  have hsome := simulateM_isSome b c args hl houts
  cases hsim : simulateM b (buildM b c) args with
  | none => rw [hsim] at hsome; cases hsome
  | some r =>
    have hf := simulateM_fields b _ _ r hsim
    have he := simulateEmptyM_of_simulateM b _ _ r hsim
    have hlog : r.log.length = c.outputs.length := by rw [hf.1]; rfl
    have hsens : r.sens = c.sens.map (fun sel => (c.outputs, sel)) := hf.2
    refine ⟨r, ?_, ?_⟩
    · unfold simulateO; rw [ha]; exact hsim
    · unfold simulateEmptyO
      rw [ha]
      simp only []
      have hm : (build b c).m = buildM b c := rfl
      rw [hm, he, hlog, hsens]
      have hno : (buildM b c).nOutputs = c.outputs.length := rfl
      have hhs : (buildM b c).hasSens = c.sens.isSome := rfl
      have hns : (buildM b c).nSens = c.sensCount := rfl
      rw [hno, hhs, hns]
      unfold hasSensO hasSensR
      cases hred : c.red with
      | none =>
        simp only [build, hred, Option.map_none]
        cases hs : c.sens with
        | none => simp [buildM, hs]
        | some sel => simp [buildM, hs, h4.count sel hs]
      | some r0 =>
        simp only [build, hred, Option.map_some, buildR]
        cases hemp : r0.emptySens with
        | true =>
          have := h4.empty r0 hred hemp
          simp [this, buildM]
        | false =>
          cases hs : c.sens with
          | none => simp [buildM, hs]
          | some sel => simp [buildM, hs, h4.count sel hs]

end ChiModel.MechConfig
